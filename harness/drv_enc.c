/* stream enc:  E <codec> <k> <r> <L> <p1> <p2> <seed> <mode>
 *   mode bit 1: repair slots with odd index are NULL (the library must allocate them)
 *        bit 2: caller-provided repair buffers are dirty (0xEE) instead of zeroed
 *        bit 4: every repair symbol is built twice
 *        bit 8: repair symbols are built in decreasing ESI order (Reed-Solomon only)
 *        bit 16: after a first pass over all repair symbols the source symbols are CHANGED (every byte of source 0 xor 0x5A) and every
 *                repair symbol is built again: the answer must be the codeword of the new sources
 * answer: R P<status> [H..] B<status digits> Y<all n symbols hex, '.' separated> RO<sources unchanged> SL<per repair slot: p provided / A allocated by the library / N still NULL> */
#include <stdio.h>
#include <stdlib.h>
#include <string.h>
#include <stdint.h>
#include <unistd.h>
#include "of_openfec_api.h"
#include "of_linear_binary_code.h"
#define MAXN 70000
static void *tab[MAXN]; static unsigned char *orig[MAXN]; static char slot[MAXN];
static uint64_t sm_state;
static uint64_t sm_next(void) { uint64_t z = (sm_state += 0x9E3779B97F4A7C15ULL); z = (z ^ (z >> 30)) * 0xBF58476D1CE4E5B9ULL; z = (z ^ (z >> 27)) * 0x94D049BB133111EBULL; return z ^ (z >> 31); }
static of_status_t set_params(of_session_t *ses, int codec, UINT32 k, UINT32 r, UINT32 L, long p1, long p2)
{
	if (codec == 1) { of_rs_parameters_t p; memset(&p, 0, sizeof p); p.nb_source_symbols = k; p.nb_repair_symbols = r; p.encoding_symbol_length = L; return of_set_fec_parameters(ses, (of_parameters_t *)&p); }
	if (codec == 2) { of_rs_2_m_parameters_t p; memset(&p, 0, sizeof p); p.nb_source_symbols = k; p.nb_repair_symbols = r; p.encoding_symbol_length = L; p.m = (UINT16)p1; return of_set_fec_parameters(ses, (of_parameters_t *)&p); }
	if (codec == 3) { of_ldpc_parameters_t p; memset(&p, 0, sizeof p); p.nb_source_symbols = k; p.nb_repair_symbols = r; p.encoding_symbol_length = L; p.N1 = (UINT8)p1; p.prng_seed = (INT32)p2; return of_set_fec_parameters(ses, (of_parameters_t *)&p); }
	{ of_2d_parity_parameters_t p; memset(&p, 0, sizeof p); p.nb_source_symbols = k; p.nb_repair_symbols = r; p.encoding_symbol_length = L; return of_set_fec_parameters(ses, (of_parameters_t *)&p); }
}
int main(void)
{
	char line[512];
	FILE *out = fdopen(dup(1), "w");
	setvbuf(out, NULL, _IOLBF, 0);
	freopen("/dev/null", "w", stdout);
	while (fgets(line, sizeof line, stdin)) {
		long codec, k, r, L, p1, p2, mode; unsigned long long seed; UINT32 n, i, j; int ro = 1, pass, st;
		of_session_t *e = NULL;
		if (sscanf(line, "E %ld %ld %ld %ld %ld %ld %llu %ld", &codec, &k, &r, &L, &p1, &p2, &seed, &mode) != 8) { fprintf(out, "R BADREQ\n"); continue; }
		n = k + r; sm_state = seed;
		of_create_codec_instance(&e, (of_codec_id_t)codec, OF_ENCODER, 0);
		st = set_params(e, codec, k, r, L, p1, p2);
		fprintf(out, "R P%d", st);
		if (st) { of_release_codec_instance(e); fprintf(out, "\n"); continue; }
		if (codec == 3 || codec == 5) {
			of_mod2sparse *m = ((of_linear_binary_code_cb_t *)e)->pchk_matrix; int row;
			fprintf(out, " H%d,%d:", of_mod2sparse_rows(m), of_mod2sparse_cols(m));
			for (row = 0; row < of_mod2sparse_rows(m); row++) { of_mod2entry *en; int first = 1; if (row) fputc('/', out);
				for (en = of_mod2sparse_first_in_row(m, row); !of_mod2sparse_at_end(en); en = of_mod2sparse_next_in_row(en)) { fprintf(out, first ? "%d" : ",%d", en->col); first = 0; } }
		}
		for (i = 0; i < n; i++) {
			if (i < (UINT32)k) { tab[i] = malloc(L); orig[i] = malloc(L); for (j = 0; j < (UINT32)L; j++) orig[i][j] = ((unsigned char *)tab[i])[j] = (unsigned char)sm_next(); slot[i] = 's'; }
			else if ((mode & 1) && ((i - k) & 1)) { tab[i] = NULL; slot[i] = 'N'; }
			else { tab[i] = malloc(L); memset(tab[i], (mode & 2) ? 0xEE : 0, L); slot[i] = 'p'; }
		}
		fprintf(out, " B");
		if (mode & 16) {
			for (i = 0; i < (UINT32)r; i++) fprintf(out, "%d", of_build_repair_symbol(e, tab, k + i));
			for (j = 0; j < (UINT32)L; j++) { ((unsigned char *)tab[0])[j] ^= 0x5A; orig[0][j] ^= 0x5A; }
		}
		for (pass = 0; pass < ((mode & 4) ? 2 : 1); pass++)
			for (i = 0; i < (UINT32)r; i++) { UINT32 esi = (mode & 8) ? n - 1 - i : k + i; fprintf(out, "%d", of_build_repair_symbol(e, tab, esi)); }
		fprintf(out, " Y");
		for (i = 0; i < n; i++) { if (i) fputc('.', out); if (!tab[i]) fprintf(out, "NULL"); else for (j = 0; j < (UINT32)L; j++) fprintf(out, "%02x", ((unsigned char *)tab[i])[j]); }
		for (i = 0; i < (UINT32)k; i++) if (memcmp(orig[i], tab[i], L)) ro = 0;
		fprintf(out, " RO%d SL", ro);
		for (i = k; i < n; i++) fputc(slot[i] == 'N' ? (tab[i] ? 'A' : 'N') : 'p', out);
		fprintf(out, "\n");
		of_release_codec_instance(e);
		for (i = 0; i < n; i++) { free(tab[i]); if (i < (UINT32)k) free(orig[i]); }
	}
	return 0;
}
