/* stream multi: several sessions alive at once, their API calls interleaved in one thread.
 *   X <nsess> <schedule: session indices separated by ','>
 *   followed by <nsess> lines in the grammar of harness/drv_dec.c ("D ...")
 * Each session's life cycle is cut into single API calls; the schedule says whose next call runs
 * (exhausted sessions are skipped; when the schedule ends the remaining calls run round-robin).
 * A schedule that starts with 'N' (or 'M': without the limit of three) additionally NESTS: whenever a decoded-source-symbol callback of one session fires, up to three
 * pending API calls of the other sessions are executed from inside the callback (the other sessions' calls then run while the
 * first session is in the middle of one of its own).
 * Answer: one line per session, same tokens as drv_dec.c without H/Y/LK (so that it can be compared
 * with the same request run alone in a fresh process). */
#include <stdio.h>
#include <stdlib.h>
#include <string.h>
#include <stdint.h>
#include <unistd.h>
#include "of_openfec_api.h"
#include "of_linear_binary_code.h"
#include "of_ldpc_staircase.h"

#define MAXS 8
#define MAXSYM 4096
typedef struct {
	long codec, k, r, L, p1, p2, api, cbmode, finish, role; unsigned long long seed;
	int esis[4 * MAXSYM], nesi; UINT32 n;
	of_session_t *enc, *dec; void *enc_tab[MAXSYM], *recv_tab[MAXSYM], *avail_tab[MAXSYM], *src_tab[MAXSYM]; unsigned char *orig[MAXSYM];
	void *cb_buf[MAXSYM]; int ncb, ncbbuf, cb_esi[MAXSYM], cb_kind[MAXSYM], cb_size[MAXSYM];
	int pc, done, ro, dec_ok, busy; char *obuf; size_t olen; FILE *o; uint64_t sm;
} sess_t;
static sess_t S[MAXS];
static int nested, depth, nsess, nest_budget;
static int step(sess_t *s);

static uint64_t sm_next(sess_t *s) { uint64_t z = (s->sm += 0x9E3779B97F4A7C15ULL); z = (z ^ (z >> 30)) * 0xBF58476D1CE4E5B9ULL; z = (z ^ (z >> 27)) * 0x94D049BB133111EBULL; return z ^ (z >> 31); }
static void *src_cb(void *ctx, UINT32 size, UINT32 esi)
{
	sess_t *s = ctx; void *p = NULL;
	s->cb_esi[s->ncb] = esi; s->cb_kind[s->ncb] = 's'; s->cb_size[s->ncb] = size; s->ncb++;
	if (s->cbmode == 1 || (s->cbmode == 3 && (s->ncb & 1))) { p = malloc(size ? size : 1); s->cb_buf[s->ncbbuf++] = p; }
	if (nested && depth == 0) {
		int me = (int)(s - S), t, budget = nest_budget;
		depth++;
		for (t = 1; t < nsess && budget > 0; t++) { sess_t *o = &S[(me + t) % nsess]; while (budget > 0 && !o->done && !o->busy) { step(o); budget--; } }
		depth--;
	}
	return p;
}
static void *rep_cb(void *ctx, UINT32 size, UINT32 esi) { sess_t *s = ctx; s->cb_esi[s->ncb] = esi; s->cb_kind[s->ncb] = 'r'; s->cb_size[s->ncb] = size; s->ncb++; return NULL; }
static of_status_t set_params(of_session_t *ses, int codec, UINT32 k, UINT32 r, UINT32 L, long p1, long p2)
{
	if (codec == 1) { of_rs_parameters_t p; memset(&p, 0, sizeof p); p.nb_source_symbols = k; p.nb_repair_symbols = r; p.encoding_symbol_length = L; return of_set_fec_parameters(ses, (of_parameters_t *)&p); }
	if (codec == 2 && (p2 == 4 || p2 == 8)) { UINT16 m0 = (UINT16)p2; of_set_control_parameter(ses, OF_RS_CTRL_SET_FIELD_SIZE, &m0, sizeof m0); }
	if (codec == 2) { of_rs_2_m_parameters_t p; memset(&p, 0, sizeof p); p.nb_source_symbols = k; p.nb_repair_symbols = r; p.encoding_symbol_length = L; p.m = (UINT16)p1; return of_set_fec_parameters(ses, (of_parameters_t *)&p); }
	if (codec == 3) { of_ldpc_parameters_t p; memset(&p, 0, sizeof p); p.nb_source_symbols = k; p.nb_repair_symbols = r; p.encoding_symbol_length = L; p.N1 = (UINT8)p1; p.prng_seed = (INT32)p2; return of_set_fec_parameters(ses, (of_parameters_t *)&p); }
	{ of_2d_parity_parameters_t p; memset(&p, 0, sizeof p); p.nb_source_symbols = k; p.nb_repair_symbols = r; p.encoding_symbol_length = L; return of_set_fec_parameters(ses, (of_parameters_t *)&p); }
}
static void masks(sess_t *s)
{
	UINT32 i;
	memset(s->src_tab, 0, sizeof(void *) * s->k);
	of_get_source_symbols_tab(s->dec, s->src_tab);
	fputc(':', s->o); for (i = 0; i < (UINT32)s->k; i++) fputc(s->src_tab[i] ? '1' : '0', s->o);
	fputc(':', s->o);
	if (s->codec == 3 || s->codec == 5) { of_linear_binary_code_cb_t *cb = (of_linear_binary_code_cb_t *)s->dec; for (i = s->k; i < s->n; i++) fputc(cb->encoding_symbols_tab[i] ? '1' : '0', s->o); }
	else fputc('-', s->o);
}
/* program: 0 create enc, 1 set enc, 2..1+r build, then create dec, set dec, submissions, finish, verdict+release */
static int step1(sess_t *s);
static int step(sess_t *s) { int rc; if (s->busy) return 0; s->busy = 1; rc = step1(s); s->busy = 0; return rc; }
static int step1(sess_t *s)
{
	UINT32 i, j; of_status_t st; long k = s->k, r = s->r, L = s->L; int pc;
	if (s->done) return 0;
	pc = s->pc++;
	if (pc == 0) { of_create_codec_instance(&s->enc, (of_codec_id_t)s->codec, OF_ENCODER, 0); return 1; }
	if (pc == 1) {
		st = set_params(s->enc, s->codec, k, r, L, s->p1, s->p2); fprintf(s->o, "P%d", st);
		if (st) { of_release_codec_instance(s->enc); s->done = 1; return 1; }
		for (i = 0; i < s->n; i++) { s->enc_tab[i] = malloc(L ? L : 1);
			if (i < (UINT32)k) { s->orig[i] = malloc(L ? L : 1); for (j = 0; j < (UINT32)L; j++) s->orig[i][j] = ((unsigned char *)s->enc_tab[i])[j] = (unsigned char)sm_next(s); }
			else memset(s->enc_tab[i], 0xEE, L); }
		fprintf(s->o, " B"); return 1;
	}
	if (pc < 2 + r) { fprintf(s->o, "%d", of_build_repair_symbol(s->enc, s->enc_tab, k + pc - 2)); return 1; }
	pc -= 2 + r;
	if (pc == 0) { of_create_codec_instance(&s->dec, (of_codec_id_t)s->codec, s->role >= 3 ? OF_ENCODER_AND_DECODER : OF_DECODER, 0); return 1; }
	if (pc == 1) {
		st = set_params(s->dec, s->codec, k, r, L, s->p1, s->p2); fprintf(s->o, " Q%d", st);
		if (st) { s->pc = 1000000; return 1; }
		s->dec_ok = 1;
		if (s->codec == 3) { bool a = 0, b = 0; of_get_control_parameter(s->enc, OF_CRTL_LDPC_STAIRCASE_IS_LAST_SYMBOL_NULL, &a, sizeof a);
			of_get_control_parameter(s->dec, OF_CRTL_LDPC_STAIRCASE_IS_LAST_SYMBOL_NULL, &b, sizeof b); if (a == b) fprintf(s->o, " LN%d", a ? 1 : 0); else fprintf(s->o, " LNx"); }
		if (s->cbmode) of_set_callback_functions(s->dec, src_cb, (s->codec == 3 || s->codec == 5) ? rep_cb : NULL, s);
		if (s->role == 4) {
			void **t2 = calloc(s->n, sizeof *t2); UINT32 nb = 1 + (UINT32)(s->seed % 3); int okb = 1;
			if (nb > (UINT32)r) nb = r;
			for (i = 0; i < s->n; i++) { t2[i] = malloc(L ? L : 1); if (i < (UINT32)k) memcpy(t2[i], s->enc_tab[i], L); else memset(t2[i], 0x77, L); }
			for (i = k; i < k + nb; i++) if (of_build_repair_symbol(s->dec, t2, i) != OF_STATUS_OK || memcmp(t2[i], s->enc_tab[i], L)) okb = 0;
			for (i = 0; i < s->n; i++) free(t2[i]);
			free(t2);
			fprintf(s->o, " ED%d", okb);
		}
		for (i = 0; i < s->n; i++) { s->recv_tab[i] = malloc(L ? L : 1); memcpy(s->recv_tab[i], s->enc_tab[i], L); s->avail_tab[i] = NULL; }
		return 1;
	}
	pc -= 2;
	if (s->dec_ok) {
		int nsub = s->api == 0 ? s->nesi : 1;
		if (pc < nsub) {
			if (s->api == 0) st = of_decode_with_new_symbol(s->dec, s->recv_tab[s->esis[pc]], s->esis[pc]);
			else { for (i = 0; i < (UINT32)s->nesi; i++) s->avail_tab[s->esis[i]] = s->recv_tab[s->esis[i]]; st = of_set_available_symbols(s->dec, s->avail_tab); }
			fprintf(s->o, " S%d%d", st, of_is_decoding_complete(s->dec) ? 1 : 0); masks(s); return 1;
		}
		pc -= nsub;
		if (pc == 0 && s->finish) { st = of_finish_decoding(s->dec); fprintf(s->o, " F%d%d", st, of_is_decoding_complete(s->dec) ? 1 : 0); masks(s); return 1; }
	}
	/* verdict and release */
	if (s->dec_ok) {
		memset(s->src_tab, 0, sizeof(void *) * k); of_get_source_symbols_tab(s->dec, s->src_tab);
		fprintf(s->o, " E");
		for (i = 0; i < (UINT32)k; i++) { int c = 'L', okb; if (!s->src_tab[i]) { fputc('.', s->o); continue; }
			for (j = 0; j < s->n; j++) if (s->src_tab[i] == s->recv_tab[j]) c = (j == i) ? 'R' : 'X';
			for (j = 0; j < (UINT32)s->ncbbuf; j++) if (s->src_tab[i] == s->cb_buf[j]) c = 'C';
			okb = !memcmp(s->src_tab[i], s->orig[i], L); fputc(okb ? c : c + 32, s->o); }
		fprintf(s->o, " CB");
		for (i = 0; i < (UINT32)s->ncb; i++) fprintf(s->o, "%s%c%d:%d", i ? "," : "", s->cb_kind[i], s->cb_esi[i], s->cb_size[i]);
		for (i = 0; i < s->n; i++) if (memcmp(s->recv_tab[i], s->enc_tab[i], L)) s->ro = 0;
	}
	for (i = 0; i < (UINT32)k; i++) if (memcmp(s->orig[i], s->enc_tab[i], L)) s->ro = 0;
	fprintf(s->o, " RO%d", s->ro);
	of_release_codec_instance(s->dec); of_release_codec_instance(s->enc);
	if (s->dec_ok) for (i = 0; i < (UINT32)k; i++) { int mine = 0; if (!s->src_tab[i]) continue;
		for (j = 0; j < s->n; j++) if (s->src_tab[i] == s->recv_tab[j]) mine = 1;
		for (j = 0; j < (UINT32)s->ncbbuf; j++) if (s->src_tab[i] == s->cb_buf[j]) mine = 1;
		if (!mine) free(s->src_tab[i]); }
	for (i = 0; i < (UINT32)s->ncbbuf; i++) free(s->cb_buf[i]);
	for (i = 0; i < s->n; i++) { free(s->enc_tab[i]); free(s->recv_tab[i]); if (i < (UINT32)k) free(s->orig[i]); }
	s->done = 1; return 1;
}

int main(void)
{
	static char line[1 << 20];
	FILE *out = fdopen(dup(1), "w");
	setvbuf(out, NULL, _IOLBF, 0);
	freopen("/dev/null", "w", stdout);
	of_verbosity = 0;
	while (fgets(line, sizeof line, stdin)) {
		int ns, i, alive; static char sched[1 << 20]; char *p;
		if (sscanf(line, "X %d %s", &ns, sched) != 2 || ns > MAXS) { fprintf(out, "R BADREQ\n"); continue; }
		for (i = 0; i < ns; i++) {
			sess_t *s = &S[i]; char *tok;
			memset(s, 0, sizeof *s); s->ro = 1;
			if (!fgets(line, sizeof line, stdin)) break;
			tok = strtok(line, " \n");
			s->codec = atol(strtok(NULL, " \n")); s->k = atol(strtok(NULL, " \n")); s->r = atol(strtok(NULL, " \n")); s->L = atol(strtok(NULL, " \n"));
			s->p1 = atol(strtok(NULL, " \n")); s->p2 = atol(strtok(NULL, " \n")); s->seed = strtoull(strtok(NULL, " \n"), NULL, 10);
			s->api = atol(strtok(NULL, " \n")); s->cbmode = atol(strtok(NULL, " \n")); s->finish = atol(strtok(NULL, " \n")); s->role = atol(strtok(NULL, " \n"));
			while ((tok = strtok(NULL, " \n"))) s->esis[s->nesi++] = atoi(tok);
			s->n = s->k + s->r; s->sm = s->seed; s->o = open_memstream(&s->obuf, &s->olen);
		}
		nsess = ns; nested = (sched[0] == 'N' || sched[0] == 'M'); nest_budget = sched[0] == 'M' ? 100000 : 3; depth = 0;   /* M: the other sessions run to their end inside the first callback */
		for (p = sched + (nested ? 1 : 0); *p; ) { int id = strtol(p, &p, 10); if (*p == ',') p++; if (id >= 0 && id < ns) step(&S[id]); }
		do { alive = 0; for (i = 0; i < ns; i++) if (!S[i].done) { step(&S[i]); alive = 1; } } while (alive);
		for (i = 0; i < ns; i++) { fclose(S[i].o); fprintf(out, "R %s\n", S[i].obuf); free(S[i].obuf); }
	}
	return 0;
}
