/* stream gj: the three copies of the in-place Gauss-Jordan inversion on the same matrix.
 *   W <impl> <k> <hex of the k*k matrix, row-major>      impl 1 = of_invert_mat (RS 2^8 codec, static),
 *                                                        2 = of_galois_field_2_8_invert_mat, 4 = of_galois_field_2_4_invert_mat
 * Answer:  R <error code> <hex of the matrix afterwards (only when the code is 0)>
 */
#include <stdio.h>
#include <stdlib.h>
#include <string.h>
#include <unistd.h>
#include "of_openfec_api.h"
#include "of_reed-solomon_gf_2_8.c"
/* the GF(2^m) copies: declared here (their headers need the whole codec include chain in a fixed order) */
extern int of_galois_field_2_8_invert_mat(void *ofcb, unsigned char *src, int k);
extern int of_galois_field_2_4_invert_mat(void *ofcb, unsigned char *src, int k);

static FILE *out;
static int hexv(int c) { return c <= '9' ? c - '0' : (c | 32) - 'a' + 10; }

int main(void)
{
	static char line[1 << 20];
	out = fdopen(dup(1), "w");
	setvbuf(out, NULL, _IOLBF, 0);
	freopen("/dev/null", "w", stdout);
	of_rs_init();
	while (fgets(line, sizeof line, stdin)) {
		int impl, k, i, rc, off = 0;
		char *hx;
		gf *m;
		if (sscanf(line, "W %d %d %n", &impl, &k, &off) < 2 || k < 0 || k > 255) { fprintf(out, "R BADREQ\n"); continue; }
		hx = line + off;
		m = malloc(k * k + 1);			/* exact size: ASan sees any access beyond k*k elements */
		for (i = 0; i < k * k; i++) m[i] = (gf)(hexv(hx[2 * i]) * 16 + hexv(hx[2 * i + 1]));
		if (impl == 1) rc = of_invert_mat(m, k);
		else if (impl == 2) rc = of_galois_field_2_8_invert_mat(NULL, m, k);
		else rc = of_galois_field_2_4_invert_mat(NULL, m, k);
		fprintf(out, "R %d ", rc ? 1 : 0);
		if (!rc) for (i = 0; i < k * k; i++) fprintf(out, "%02x", m[i]);
		fprintf(out, "\n");
		free(m);
	}
	return 0;
}
