/* stream dec: one full encode / lose / decode life cycle per request line.
 *
 *   D <codec> <k> <r> <L> <p1> <p2> <payload_seed> <api> <cbmode> <finish> <role> <esi> <esi> ...
 *     codec   1 RS-2^8, 2 RS-2^m (p1 = m), 3 LDPC-Staircase (p1 = N1, p2 = seed), 5 2D parity
 *     api     0 one of_decode_with_new_symbol per listed ESI (duplicates allowed)
 *             1 one of_set_available_symbols with the set of listed ESIs
 *             2 as 0, but the state is reported only after the LAST call (large codes: one S token instead of one per call)
 *             3 two of_set_available_symbols calls with cumulative tables: the first half of the listed ESIs, then all of them
 *             4 the first half through of_decode_with_new_symbol, then ONE of_set_available_symbols with all of them (cumulative table)
 *             5 of_set_available_symbols with the first half, then of_decode_with_new_symbol for each of the rest
 *     cbmode  0 no callback, 1 callback returns a buffer, 2 returns NULL, 3 alternates
 *     finish  0 no, 1 of_finish_decoding at the end
 *     role    2 decoder session is OF_DECODER, 3 OF_ENCODER_AND_DECODER
 *
 * Answer (one line, prefix "R "), tokens:
 *   P<status>                      set_fec_parameters (encoder session); stops there if not 0
 *   H<r>,<n>:<cols of row 0>/<cols of row 1>/...    parity-check matrix (codecs 3, 5), matrix-column space
 *   LN<0|1>                        last-repair-symbol-is-null claim (codec 3; encoder and decoder must agree: LNx = disagree)
 *   Y<hex of all n encoding symbols, L bytes each, '.' separated>
 *   B<status...>                   one digit per of_build_repair_symbol
 *   Q<status>                      set_fec_parameters on the decoder session
 *   S<status><complete>:<source mask>:<repair mask or ->   after each submission call
 *   PM<i,i,...>                    order in which of_finish_decoding will inject the repair symbols (codecs 3, 5)
 *   F<status><complete>:<source mask>:<repair mask or ->   after of_finish_decoding
 *   E<one letter per source>       '.' not available; R = the application's own received buffer,
 *                                  C = a buffer returned by the callback, L = library allocated, D = the buffer of a later duplicate;
 *                                  upper case = bytes equal the encoded source, lower case = differ
 *   CB<esi>:<size>,...             callback invocations in call order ('s' prefix source, 'r' repair)
 *   RO<0|1>                        every buffer handed to the library (received symbols, encoder sources) unchanged
 *   PS<0|1>                        every source-table entry kept reporting the pointer it reported first (the table is fetched after every call)
 *   LK<n>                          heap blocks still live after release + the application freeing what it owns
 *   HL<a>;<b>,<b>,...;<c|->;<d>    library-owned heap blocks of the DECODER session (allocations made inside the application's callbacks
 *                                  excluded): after create + set_fec_parameters (+ the builds of role 4), after every submission call,
 *                                  after of_finish_decoding, after of_release_codec_instance
 */
#include <stdio.h>
#include <stdarg.h>
#include <stdlib.h>
#include <string.h>
#include <stdint.h>
#include "of_openfec_api.h"
#include "of_linear_binary_code.h"
#include "of_ldpc_staircase.h"
#include "of_reed-solomon_gf_2_8.h"
#include "of_reed-solomon_gf_2_m.h"
#include <unistd.h>

static FILE *out;	/* answers; the library prints its own messages on stdout/stderr */

/* ---- allocation accounting (linked with -Wl,--wrap=malloc,--wrap=calloc,--wrap=realloc,--wrap=free) ---- */
void *__real_malloc(size_t); void *__real_calloc(size_t, size_t); void *__real_realloc(void *, size_t); void __real_free(void *);
static long live_blocks;
static long cb_allocs;	/* blocks allocated by the application's callbacks */
static long lib_blocks;	/* ledger: blocks the library owns on behalf of the decoder session */
static long lc_live, lc_cb;
#define LIB_BEGIN() do { lc_live = live_blocks; lc_cb = cb_allocs; } while (0)
#define LIB_END() do { lib_blocks += (live_blocks - lc_live) - (cb_allocs - lc_cb); } while (0)
void *__wrap_malloc(size_t n) { void *p = __real_malloc(n); if (p) live_blocks++; return p; }
void *__wrap_calloc(size_t a, size_t b) { void *p = __real_calloc(a, b); if (p) live_blocks++; return p; }
void *__wrap_realloc(void *q, size_t n) { void *p = __real_realloc(q, n); if (!q && p) live_blocks++; if (q && !n && !p) live_blocks--; return p; }
void __wrap_free(void *p) { if (p) live_blocks--; __real_free(p); }

#define MAXN 70000
static void *enc_tab[MAXN], *recv_tab[MAXN], *avail_tab[MAXN], *src_tab[MAXN];
static void *enc_base[MAXN], *recv_base[MAXN];	/* what malloc returned: one session in four places its symbols at odd offsets */
static void *abuf(void **base, UINT32 L, unsigned off) { *base = malloc((L ? L : 1) + off); return (char *)*base + off; }
static unsigned char *orig[MAXN];
static int cb_esi[MAXN], cb_kind[MAXN], cb_size[MAXN], ncb;
static void *cb_buf[MAXN];
static int ncbbuf, cbmode;
static UINT32 g_L;

static uint64_t sm_state;
static uint64_t sm_next(void) { uint64_t z = (sm_state += 0x9E3779B97F4A7C15ULL); z = (z ^ (z >> 30)) * 0xBF58476D1CE4E5B9ULL; z = (z ^ (z >> 27)) * 0x94D049BB133111EBULL; return z ^ (z >> 31); }

#define MAXHL 4096
static long hl[MAXHL], hl_setup, hl_fin; static int nhl;
#define MAXDUP 4096
static void *dup_buf[MAXDUP]; static int ndup; static unsigned char seen_esi[MAXN];
static void *src_cb(void *ctx, UINT32 size, UINT32 esi)
{
	void *p = NULL;
	cb_esi[ncb] = esi; cb_kind[ncb] = 's'; cb_size[ncb] = size; ncb++;
	if (cbmode == 1 || (cbmode == 3 && (ncb & 1))) { p = malloc(size ? size : 1); cb_buf[ncbbuf++] = p; cb_allocs++; }
	return p;
}
static void *rep_cb(void *ctx, UINT32 size, UINT32 esi)
{
	cb_esi[ncb] = esi; cb_kind[ncb] = 'r'; cb_size[ncb] = size; ncb++;
	return NULL;
}

static of_status_t set_params(of_session_t *ses, int codec, UINT32 k, UINT32 r, UINT32 L, long p1, long p2)
{
	if (codec == 1) { of_rs_parameters_t p; memset(&p, 0, sizeof p); p.nb_source_symbols = k; p.nb_repair_symbols = r; p.encoding_symbol_length = L; return of_set_fec_parameters(ses, (of_parameters_t *)&p); }
	if (codec == 2 && (p2 == 4 || p2 == 8)) { UINT16 m0 = (UINT16)p2; of_set_control_parameter(ses, OF_RS_CTRL_SET_FIELD_SIZE, &m0, sizeof m0); }   /* p2: field size set through the control parameter first */
	if (codec == 2) { of_rs_2_m_parameters_t p; memset(&p, 0, sizeof p); p.nb_source_symbols = k; p.nb_repair_symbols = r; p.encoding_symbol_length = L; p.m = (UINT16)p1; return of_set_fec_parameters(ses, (of_parameters_t *)&p); }
	if (codec == 3) { of_ldpc_parameters_t p; memset(&p, 0, sizeof p); p.nb_source_symbols = k; p.nb_repair_symbols = r; p.encoding_symbol_length = L; p.N1 = (UINT8)p1; p.prng_seed = (INT32)p2; return of_set_fec_parameters(ses, (of_parameters_t *)&p); }
	{ of_2d_parity_parameters_t p; memset(&p, 0, sizeof p); p.nb_source_symbols = k; p.nb_repair_symbols = r; p.encoding_symbol_length = L; return of_set_fec_parameters(ses, (of_parameters_t *)&p); }
}

/* digest of the decoder's internal state (LDPC / 2D sessions): FNV-1a 64 over a canonical text - per equation the number of unknown
 * symbols, the remaining degree, the partial sum (- when none) and the remaining entries; the two ready-counters; per repair symbol
 * the number of equations it is still in.  ocaml/driver.ml computes the same text from the model's state. */
static unsigned long long dg_h;
static void dg(const char *fmt, ...)
{
	char buf[64]; int i, m; va_list ap;
	va_start(ap, fmt); m = vsnprintf(buf, sizeof buf, fmt, ap); va_end(ap);
	for (i = 0; i < m; i++) { dg_h ^= (unsigned char)buf[i]; dg_h *= 0x100000001b3ULL; }
}
static unsigned long long state_digest(of_linear_binary_code_cb_t *cb)
{
	UINT32 row, j; of_mod2entry *e;
	dg_h = 0xcbf29ce484222325ULL;
	for (row = 0; row < cb->nb_repair_symbols; row++) {
		int first = 1;
		dg("u%d e%d c", (int)cb->tab_nb_unknown_symbols[row], (int)cb->tab_nb_enc_symbols_per_equ[row]);
		if (!cb->tab_const_term_of_equ[row]) dg("-");
		else for (j = 0; j < cb->encoding_symbol_length; j++) dg("%02x", ((unsigned char *)cb->tab_const_term_of_equ[row])[j]);
		dg(" m");
		for (e = of_mod2sparse_first_in_row(cb->pchk_matrix, row); !of_mod2sparse_at_end(e); e = of_mod2sparse_next_in_row(e)) { dg(first ? "%d" : ",%d", (int)e->col); first = 0; }
		dg(";");
	}
	dg("S%d R%d|", (int)cb->nb_source_symbol_ready, (int)cb->nb_repair_symbol_ready);
	for (j = 0; j < cb->nb_repair_symbols; j++) dg("q%d,", (int)cb->tab_nb_equ_for_repair[j]);
	return dg_h;
}

/* of_get_source_symbols_tab into a table that is NOT zeroed beforehand (an application may reuse its table): every entry holds a
 * sentinel; an entry still holding it after a successful call was not written by the library (reported as '!'); when the call
 * reports an error (the RS codecs before completion) the table is taken as empty */
#define SENT ((void *)(uintptr_t)0x5)
static int stale[MAXN];
static void *first_seen[MAXN]; static int ptr_stable;	/* an entry of the source table, once reported, must keep reporting the same pointer */
static void fetch_src_tab(of_session_t *dec, UINT32 k)
{
	UINT32 i; of_status_t st;
	for (i = 0; i < k; i++) { src_tab[i] = SENT; stale[i] = 0; }
	st = of_get_source_symbols_tab(dec, src_tab);
	for (i = 0; i < k; i++) if (src_tab[i] == SENT) { src_tab[i] = NULL; stale[i] = (st == OF_STATUS_OK); }
	for (i = 0; i < k; i++) if (src_tab[i]) { if (!first_seen[i]) first_seen[i] = src_tab[i]; else if (first_seen[i] != src_tab[i]) ptr_stable = 0; }
}

static void print_masks(of_session_t *dec, int codec, UINT32 k, UINT32 n, int with_digest)
{
	UINT32 i;
	fetch_src_tab(dec, k);
	fprintf(out, ":");
	for (i = 0; i < k; i++) fputc(stale[i] ? '!' : src_tab[i] ? '1' : '0', out);
	fprintf(out, ":");
	if (codec == 3 || codec == 5) {
		of_linear_binary_code_cb_t *cb = (of_linear_binary_code_cb_t *)dec;
		for (i = k; i < n; i++) fputc(cb->encoding_symbols_tab[i] ? '1' : '0', out);
		if (with_digest) fprintf(out, ":%016llx", state_digest(cb));
	} else {
		/* RS codecs: the session state the API model carries - counters, completion flag, availability of every ESI */
		UINT32 na, ns; int fin; void **av;
		if (codec == 1) { of_rs_cb_t *cb = (of_rs_cb_t *)dec; na = cb->nb_available_symbols; ns = cb->nb_available_source_symbols; fin = cb->decoding_finished; av = cb->available_symbols_tab; }
		else { of_rs_2_m_cb_t *cb = (of_rs_2_m_cb_t *)dec; na = cb->nb_available_symbols; ns = cb->nb_available_source_symbols; fin = cb->decoding_finished; av = cb->available_symbols_tab; }
		fprintf(out, "-:a%us%uf%dm", na, ns, fin ? 1 : 0);
		for (i = 0; i < n; i++) fputc(av[i] ? '1' : '0', out);
	}
}

static int get_last_null(of_session_t *s)
{
	bool b = 0;
	if (of_get_control_parameter(s, OF_CRTL_LDPC_STAIRCASE_IS_LAST_SYMBOL_NULL, &b, sizeof b) != OF_STATUS_OK) return 2;
	return b ? 1 : 0;
}

int main(void)
{
	static char line[1 << 22];
	out = fdopen(dup(1), "w");
	setvbuf(out, NULL, _IOLBF, 0);
	freopen("/dev/null", "w", stdout);
	of_verbosity = 0;
	while (fgets(line, sizeof line, stdin)) {
		char *tok = strtok(line, " \n");
		long codec, k, r, L, p1, p2, api, finish, role, base_live = live_blocks;
		unsigned long long seed;
		UINT32 n, i, j;
		static int esis[4 * MAXN]; int nesi = 0;
		of_session_t *enc = NULL, *dec = NULL;
		of_status_t st;
		int ro = 1, dec_ok = 0;
		if (tok && !strcmp(tok, "U")) {
			/* U <codec> <role 1 2 3> <stage> <k> <r> <L> <p1> <p2>: a session released early.  stage 0: created only; 1: configured;
			 * 2: configured, callbacks registered, the source table fetched, the completion query asked.  Answer: R U<statuses> LK<live blocks left> */
			long uc = atol(strtok(NULL, " \n")), ur = atol(strtok(NULL, " \n")), stg = atol(strtok(NULL, " \n"));
			long uk = atol(strtok(NULL, " \n")), urr = atol(strtok(NULL, " \n")), uL = atol(strtok(NULL, " \n")), up1 = atol(strtok(NULL, " \n")), up2 = atol(strtok(NULL, " \n"));
			long b0 = live_blocks; of_session_t *u = NULL; int s1 = -1, s2 = -1, s3 = -1;
			s1 = of_create_codec_instance(&u, (of_codec_id_t)uc, (of_codec_type_t)ur, 0);
			if (s1 == OF_STATUS_OK && stg >= 1) s2 = set_params(u, uc, uk, urr, uL, up1, up2);
			if (s1 == OF_STATUS_OK && stg >= 2 && s2 == OF_STATUS_OK && (ur & 2)) {
				cbmode = 2; of_set_callback_functions(u, src_cb, NULL, NULL);
				memset(src_tab, 0, sizeof(void *) * (uk + 1)); of_get_source_symbols_tab(u, src_tab); (void)of_is_decoding_complete(u);
			}
			if (s1 == OF_STATUS_OK) s3 = of_release_codec_instance(u);
			fprintf(out, "R U%d,%d,%d LK%ld\n", s1, s2, s3, live_blocks - b0);
			continue;
		}
		if (!tok || strcmp(tok, "D")) { fprintf(out, "R BADREQ\n"); continue; }
		codec = atol(strtok(NULL, " \n")); k = atol(strtok(NULL, " \n")); r = atol(strtok(NULL, " \n")); L = atol(strtok(NULL, " \n"));
		p1 = atol(strtok(NULL, " \n")); p2 = atol(strtok(NULL, " \n")); seed = strtoull(strtok(NULL, " \n"), NULL, 10);
		api = atol(strtok(NULL, " \n")); cbmode = atoi(strtok(NULL, " \n")); finish = atol(strtok(NULL, " \n")); role = atol(strtok(NULL, " \n"));
		while ((tok = strtok(NULL, " \n"))) esis[nesi++] = atoi(tok);
		n = k + r; g_L = L; ncb = 0; ncbbuf = 0; sm_state = seed; ndup = 0; ptr_stable = 1;
		if (n >= MAXN || k < 0 || r < 0) { fprintf(out, "R TOOBIG\n"); continue; }
		memset(src_tab, 0, sizeof(void *) * (n + 1)); memset(recv_tab, 0, sizeof(void *) * (n + 1)); memset(seen_esi, 0, n + 1); memset(first_seen, 0, sizeof(void *) * (n + 1));
		fprintf(out, "R ");
		/* ---------------- encoder ---------------- */
		if (of_create_codec_instance(&enc, (of_codec_id_t)codec, OF_ENCODER, 0) != OF_STATUS_OK) { fprintf(out, "CREATE-FAILED\n"); continue; }
		st = set_params(enc, codec, k, r, L, p1, p2);
		fprintf(out, "P%d", st);
		if (st != OF_STATUS_OK) { of_release_codec_instance(enc); fprintf(out, " LK%ld\n", live_blocks - base_live); continue; }
		if (codec == 3 || codec == 5) {
			of_linear_binary_code_cb_t *cb = (of_linear_binary_code_cb_t *)enc;
			of_mod2sparse *m = cb->pchk_matrix;
			int row;
			fprintf(out, " H%d,%d:", of_mod2sparse_rows(m), of_mod2sparse_cols(m));
			for (row = 0; row < of_mod2sparse_rows(m); row++) {
				of_mod2entry *e; int first = 1;
				if (row) fputc('/', out);
				for (e = of_mod2sparse_first_in_row(m, row); !of_mod2sparse_at_end(e); e = of_mod2sparse_next_in_row(e)) { fprintf(out, first ? "%d" : ",%d", e->col); first = 0; }
			}
		}
		for (i = 0; i < n; i++) {
			enc_tab[i] = abuf(&enc_base[i], L, (seed % 4 == 1) ? (unsigned)((i * 3 + 1) % 8) : 0);
			if (i < (UINT32)k) {
				/* payload: random bytes; one block in eight is degenerate - all zero, all 0xFF, or every source symbol equal to the first */
				int pm = (int)(seed % 8 == 0 ? 1 + (seed / 8) % 3 : 0);
				orig[i] = malloc(L ? L : 1);
				for (j = 0; j < (UINT32)L; j++) {
					unsigned char b = (unsigned char)sm_next();
					if (pm == 1) b = 0; else if (pm == 2) b = 0xFF; else if (pm == 3 && i > 0) b = orig[0][j];
					orig[i][j] = ((unsigned char *)enc_tab[i])[j] = b;
				}
			}
			else memset(enc_tab[i], 0xEE, L);
		}
		fprintf(out, " B");
		for (i = k; i < n; i++) fprintf(out, "%d", of_build_repair_symbol(enc, enc_tab, i));
		for (i = 0; i < (UINT32)k; i++) if (memcmp(orig[i], enc_tab[i], L)) ro = 0;
		fprintf(out, " Y");
		for (i = 0; i < n; i++) { if (i) fputc('.', out); for (j = 0; j < (UINT32)L; j++) fprintf(out, "%02x", ((unsigned char *)enc_tab[i])[j]); }
		/* ---------------- decoder ---------------- */
		lib_blocks = 0; nhl = 0; hl_fin = -1;
		LIB_BEGIN();
		if (of_create_codec_instance(&dec, (of_codec_id_t)codec, role >= 3 ? OF_ENCODER_AND_DECODER : OF_DECODER, 0) != OF_STATUS_OK) { fprintf(out, " CREATE-FAILED\n"); continue; }
		st = set_params(dec, codec, k, r, L, p1, p2);
		LIB_END();
		fprintf(out, " Q%d", st);
		if (st == OF_STATUS_OK) {
			dec_ok = 1;
			if (codec == 3) { int a = get_last_null(enc), b = get_last_null(dec); if (a == b) fprintf(out, " LN%d", a); else fprintf(out, " LNx"); }
			if (cbmode) of_set_callback_functions(dec, src_cb, (codec == 3 || codec == 5) ? rep_cb : NULL, NULL);
			if (role == 4) {
				/* role 4: the OF_ENCODER_AND_DECODER session first serves as an encoder (the first repair symbols, into a private table;
				 * they must be the codeword's), then decodes the block */
				void **t2 = calloc(n, sizeof *t2); UINT32 nb = 1 + (UINT32)(seed % 3); int okb = 1;
				if (nb > (UINT32)r) nb = r;
				for (i = 0; i < n; i++) { t2[i] = malloc(L ? L : 1); if (i < (UINT32)k) memcpy(t2[i], enc_tab[i], L); else memset(t2[i], 0x77, L); }
				for (i = k; i < k + nb; i++) { of_status_t bs; LIB_BEGIN(); bs = of_build_repair_symbol(dec, t2, i); LIB_END(); if (bs != OF_STATUS_OK || memcmp(t2[i], enc_tab[i], L)) okb = 0; }
				for (i = 0; i < n; i++) free(t2[i]);
				free(t2);
				fprintf(out, " ED%d", okb);
			}
			for (i = 0; i < n; i++) { recv_tab[i] = abuf(&recv_base[i], L, (seed % 4 == 1) ? (unsigned)((i * 5 + 3) % 8) : 0); memcpy(recv_tab[i], enc_tab[i], L); avail_tab[i] = NULL; }
			hl_setup = lib_blocks;
			/* the source table before anything was submitted: every entry must be empty (or the call refused) */
			{ int empty = 1; fetch_src_tab(dec, k); for (i = 0; i < (UINT32)k; i++) if (src_tab[i] || stale[i]) empty = 0; fprintf(out, " GI%d", empty); }
			if (api == 5) {
				for (i = 0; i < (UINT32)nesi / 2; i++) { avail_tab[esis[i]] = recv_tab[esis[i]]; seen_esi[esis[i]] = 1; }
				LIB_BEGIN(); st = of_set_available_symbols(dec, avail_tab); LIB_END();
				if (nhl < MAXHL) hl[nhl++] = lib_blocks;
				fprintf(out, " S%d%d", st, of_is_decoding_complete(dec) ? 1 : 0);
				print_masks(dec, codec, k, n, 1);
			}
			if (api == 0 || api == 2 || api == 4 || api == 5) {
				int worst = 0;
				for (i = (api == 5 ? (UINT32)nesi / 2 : 0); i < (api == 4 ? (UINT32)nesi / 2 : (UINT32)nesi); i++) {
					/* a duplicate arrives in ANOTHER buffer (a second packet) with the same content; the source table must keep reporting the
					 * pointer that was supplied first (C10).  The buffer stays intact until the end: the API asks the application to keep
					 * every submitted buffer available */
					void *sub = recv_tab[esis[i]];
					if (seen_esi[esis[i]] && ndup < MAXDUP) { sub = malloc(L ? L : 1); memcpy(sub, recv_tab[esis[i]], L); dup_buf[ndup++] = sub; }
					seen_esi[esis[i]] = 1;
					LIB_BEGIN(); st = of_decode_with_new_symbol(dec, sub, esis[i]); LIB_END();
					if (st > worst) worst = st;
					if (api == 2 && i + 1 < (UINT32)nesi) continue;
					if (nhl < MAXHL) hl[nhl++] = lib_blocks;
					fprintf(out, " S%d%d", api == 2 ? worst : st, of_is_decoding_complete(dec) ? 1 : 0);
					print_masks(dec, codec, k, n, api == 0);
				}
			}
			if (api == 1 || api == 3 || api == 4) {
				if (api == 3) {
					for (i = 0; i < (UINT32)nesi / 2; i++) avail_tab[esis[i]] = recv_tab[esis[i]];
					LIB_BEGIN(); st = of_set_available_symbols(dec, avail_tab); LIB_END();
					if (nhl < MAXHL) hl[nhl++] = lib_blocks;
					fprintf(out, " S%d%d", st, of_is_decoding_complete(dec) ? 1 : 0);
					print_masks(dec, codec, k, n, 1);
				}
				for (i = 0; i < (UINT32)nesi; i++) avail_tab[esis[i]] = recv_tab[esis[i]];
				LIB_BEGIN(); st = of_set_available_symbols(dec, avail_tab); LIB_END();
				if (nhl < MAXHL) hl[nhl++] = lib_blocks;
				fprintf(out, " S%d%d", st, of_is_decoding_complete(dec) ? 1 : 0);
				print_masks(dec, codec, k, n, 1);
			}
			if (finish) {
				if (codec == 3 || codec == 5) {
					/* the ML path shuffles the repair symbols with rand(): reseed, replay its loop to report the
					 * injection order (token PM), reseed again so that the library draws the same sequence */
					static UINT32 pm[MAXN]; UINT32 t;
					srand(12345u + (unsigned)k * 7u + (unsigned)r);
					for (t = 0; t < (UINT32)r; t++) pm[t] = t;
					for (t = 0; t < (UINT32)r; t++) { INT32 backup = pm[t]; INT32 rv = rand() % r; pm[t] = pm[rv]; pm[rv] = backup; }
					fprintf(out, " PM");
					for (t = 0; t < (UINT32)r; t++) fprintf(out, t ? ",%u" : "%u", pm[t]);
					srand(12345u + (unsigned)k * 7u + (unsigned)r);
				}
				LIB_BEGIN(); st = of_finish_decoding(dec); LIB_END();
				hl_fin = lib_blocks;
				fprintf(out, " F%d%d", st, of_is_decoding_complete(dec) ? 1 : 0);
				print_masks(dec, codec, k, n, 0);
			}
			if (role == 5 && (codec == 1 || codec == 2) && of_is_decoding_complete(dec)) {
				/* role 5: an OF_ENCODER_AND_DECODER Reed-Solomon session serves as an encoder AFTER it decoded the block */
				void **t2 = calloc(n, sizeof *t2); UINT32 nb = 1 + (UINT32)(seed % 3); int okb = 1;
				if (nb > (UINT32)r) nb = r;
				for (i = 0; i < n; i++) { t2[i] = malloc(L ? L : 1); if (i < (UINT32)k) memcpy(t2[i], enc_tab[i], L); else memset(t2[i], 0x33, L); }
				for (i = n - nb; i < n; i++) { of_status_t bs; LIB_BEGIN(); bs = of_build_repair_symbol(dec, t2, i); LIB_END(); if (bs != OF_STATUS_OK || memcmp(t2[i], enc_tab[i], L)) okb = 0; }
				for (i = 0; i < n; i++) free(t2[i]);
				free(t2);
				fprintf(out, " ED%d", okb);
			}
			/* ---------------- verdict on the source table ---------------- */
			fetch_src_tab(dec, k);
			fprintf(out, " E");
			for (i = 0; i < (UINT32)k; i++) {
				int c, okb;
				if (stale[i]) { fputc('!', out); continue; }
				if (!src_tab[i]) { fputc('.', out); continue; }
				c = 'L';
				for (j = 0; j < n; j++) if (src_tab[i] == recv_tab[j]) c = (j == i) ? 'R' : 'X';
				for (j = 0; j < (UINT32)ncbbuf; j++) if (src_tab[i] == cb_buf[j]) c = 'C';
				for (j = 0; j < (UINT32)ndup; j++) if (src_tab[i] == dup_buf[j]) c = 'D';
				okb = !memcmp(src_tab[i], orig[i], L);
				fputc(okb ? c : c + 32, out);
			}
			fprintf(out, " CB");
			for (i = 0; i < (UINT32)ncb; i++) fprintf(out, "%s%c%d:%d", i ? "," : "", cb_kind[i], cb_esi[i], cb_size[i]);
			for (i = 0; i < n; i++) if (memcmp(recv_tab[i], enc_tab[i], L)) ro = 0;
		}
		fprintf(out, " RO%d PS%d", ro, ptr_stable);
		/* ---------------- release; the application frees what it owns ---------------- */
		LIB_BEGIN(); of_release_codec_instance(dec); LIB_END();
		of_release_codec_instance(enc);
		if (dec_ok) {
			for (i = 0; i < (UINT32)k; i++) {
				int mine = 0;
				if (!src_tab[i]) continue;
				for (j = 0; j < n; j++) if (src_tab[i] == recv_tab[j]) mine = 1;
				for (j = 0; j < (UINT32)ncbbuf; j++) if (src_tab[i] == cb_buf[j]) mine = 1;
				for (j = 0; j < (UINT32)ndup; j++) if (src_tab[i] == dup_buf[j]) mine = 1;
				if (!mine) free(src_tab[i]);	/* decoded source symbol allocated by the library: owned by the application */
				src_tab[i] = NULL;
			}
		}
		for (i = 0; i < (UINT32)ncbbuf; i++) free(cb_buf[i]);
		for (i = 0; i < (UINT32)ndup; i++) free(dup_buf[i]);
		for (i = 0; i < n; i++) { free(enc_base[i]); if (recv_tab[i]) free(recv_base[i]); recv_tab[i] = NULL; if (i < (UINT32)k) free(orig[i]); }
		if (dec_ok) {
			fprintf(out, " HL%ld;", hl_setup);
			for (i = 0; i < (UINT32)nhl; i++) fprintf(out, i ? ",%ld" : "%ld", hl[i]);
			if (hl_fin >= 0) fprintf(out, ";%ld;%ld", hl_fin, lib_blocks); else fprintf(out, ";-;%ld", lib_blocks);
		}
		fprintf(out, " LK%ld\n", live_blocks - base_live);
	}
	return 0;
}
