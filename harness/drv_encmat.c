/* stream encmat: the systematic generator matrix each Reed-Solomon codec builds for (k, n).
 *   A <codec 1|2> <m> <k> <n>          codec 1 = RS 2^8 (of_rs_new), codec 2 = RS 2^m (of_rs_2m_build_encoding_matrix)
 * Answer:  R <hex of the n*k matrix, row-major>   |  R NONE (construction refused)
 */
#include <stdio.h>
#include <stdlib.h>
#include <string.h>
#include <unistd.h>
#include "of_openfec_api.h"
#include "of_reed-solomon_gf_2_8.c"
#include "of_reed-solomon_gf_2_m_includes.h"

static FILE *out;

int main(void)
{
	static char line[256];
	out = fdopen(dup(1), "w");
	setvbuf(out, NULL, _IOLBF, 0);
	freopen("/dev/null", "w", stdout);
	of_verbosity = 0;
	while (fgets(line, sizeof line, stdin)) {
		int codec, m, k, n, i;
		if (sscanf(line, "A %d %d %d %d", &codec, &m, &k, &n) != 4 || k < 1 || n < k || n > 256) { fprintf(out, "R BADREQ\n"); continue; }
		if (codec == 1) {
			struct fec_parms *p = (struct fec_parms *)of_rs_new(k, n);
			if (!p) { fprintf(out, "R NONE\n"); continue; }
			fprintf(out, "R ");
			for (i = 0; i < n * k; i++) fprintf(out, "%02x", p->enc_matrix[i]);
			fprintf(out, "\n");
			of_rs_free(p);
		} else {
			of_session_t *ses = NULL;
			of_rs_2_m_parameters_t prm;
			of_rs_2_m_cb_t *cb;
			memset(&prm, 0, sizeof prm);
			prm.nb_source_symbols = k; prm.nb_repair_symbols = n - k; prm.encoding_symbol_length = 4; prm.m = m;
			if (of_create_codec_instance(&ses, OF_CODEC_REED_SOLOMON_GF_2_M_STABLE, OF_ENCODER, 0) != OF_STATUS_OK ||
			    of_set_fec_parameters(ses, (of_parameters_t *)&prm) != OF_STATUS_OK) { if (ses) of_release_codec_instance(ses); fprintf(out, "R NONE\n"); continue; }
			cb = (of_rs_2_m_cb_t *)ses;
			if (cb->enc_matrix == NULL && of_rs_2m_build_encoding_matrix((of_galois_field_code_cb_t *)cb) != OF_STATUS_OK) { of_release_codec_instance(ses); fprintf(out, "R NONE\n"); continue; }
			fprintf(out, "R ");
			for (i = 0; i < n * k; i++) fprintf(out, "%02x", cb->enc_matrix[i]);
			fprintf(out, "\n");
			of_release_codec_instance(ses);
		}
	}
	return 0;
}
