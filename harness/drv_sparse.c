/* stream sparse:  M <nr> <nc> <op> <op> ...   (ops are comma-separated words, no spaces inside)
 *   i,r,c insert   f,r,c find   d,r,c delete (find, then delete the entry if present)   c clear
 *   y,dr,dc,J copy into a (nr+dr)x(nc+dc) matrix pre-filled with junk J = r.c:r.c:...  and continue on the copy
 *   R,ROWS,J  copyrows  (ROWS = a.b.c..., one index per row of the same-size destination)
 *   C,COLS,J  copycols
 *   r,ROWS,J  copyrows_opt (.., NULL): the destination keeps its junk (the function does not clear it)     k,COLS,J  copycols_opt
 *             (index lists may hold out-of-range values: the functions return at the first one)
 *   F,IR,IC,r2,c2  copy_filled_matrix into a fresh r2 x c2 matrix (index tables a.b.c...)
 *   D  sparse -> dense -> sparse round trip (fresh destination holding entry (0,0))
 *   e,r empty_row   E,c empty_col   w,r weight_row
 * Answer: after every op  <result>=<rows>|<cols>|b<blocks>f<free entries>|<names>|<free list>   with rows = a.b;c.d;...
 *         names = for every entry in row-major order <block>:<index> (block counted from the oldest live block, index within the block);
 *         free list = the same names from the head of the free list (at most 40 are printed, then '+') */
#include <stdio.h>
#include <stdlib.h>
#include <string.h>
#include "of_openfec_api.h"
#include "of_linear_binary_code.h"

static of_mod2sparse *cur;

static void name(FILE *o, of_mod2entry *e, long nb)
{
	of_mod2block *b; long pos = nb - 1;
	for (b = cur->blocks; b; b = b->next, pos--)
		if (e >= &b->entry[0] && e < &b->entry[of_mod2sparse_block]) { fprintf(o, "%ld:%ld,", pos, (long)(e - &b->entry[0])); return; }
	fprintf(o, "?,");
}

static void dump(FILE *o, long res)
{
	int i; of_mod2entry *e; of_mod2block *b; long nb = 0, nf = 0;
	fprintf(o, " %ld=", res);
	for (i = 0; i < of_mod2sparse_rows(cur); i++) {
		int first = 1; if (i) fputc(';', o);
		for (e = of_mod2sparse_first_in_row(cur, i); !of_mod2sparse_at_end_row(e); e = of_mod2sparse_next_in_row(e)) { fprintf(o, first ? "%d" : ".%d", e->col); first = 0; }
	}
	fputc('|', o);
	for (i = 0; i < of_mod2sparse_cols(cur); i++) {
		int first = 1; if (i) fputc(';', o);
		for (e = of_mod2sparse_first_in_col(cur, i); !of_mod2sparse_at_end_col(e); e = of_mod2sparse_next_in_col(e)) { fprintf(o, first ? "%d" : ".%d", e->row); first = 0; }
	}
	for (b = cur->blocks; b; b = b->next) nb++;
	for (e = cur->next_free; e; e = e->left) nf++;
	fprintf(o, "|b%ldf%ld|", nb, nf);
	/* names of the entries: which block (oldest = 0) and which slot */
	for (i = 0; i < of_mod2sparse_rows(cur); i++)
		for (e = of_mod2sparse_first_in_row(cur, i); !of_mod2sparse_at_end_row(e); e = of_mod2sparse_next_in_row(e)) name(o, e, nb);
	fputc('|', o);
	{ long k = 0; for (e = cur->next_free; e && k < 40; e = e->left, k++) name(o, e, nb); if (e) fputc('+', o); }
}

static int ints(char *s, UINT32 *out) { int n = 0; char *p = s; if (!s || !*s || *s == '-') return 0; while (1) { out[n++] = strtoul(p, &p, 10); if (*p != '.') break; p++; } return n; }
static void junk(of_mod2sparse *m, char *s) { char *p = s; if (!s || !*s || *s == '-') return; while (1) { long r = strtol(p, &p, 10); long c; p++; c = strtol(p, &p, 10); of_mod2sparse_insert(m, r, c); if (*p != ':') break; p++; } }
static void release(of_mod2sparse *m) { of_mod2sparse_free(m); of_free(m); }

int main(void)
{
	static char line[1 << 20];
	FILE *out = fdopen(dup(1), "w");
	setvbuf(out, NULL, _IOLBF, 0);
	freopen("/dev/null", "w", stdout);
	while (fgets(line, sizeof line, stdin)) {
		char *save, *tok = strtok_r(line, " \n", &save);
		int nr, nc;
		if (!tok || strcmp(tok, "M")) { fprintf(out, "R BADREQ\n"); continue; }
		nr = atoi(strtok_r(NULL, " \n", &save)); nc = atoi(strtok_r(NULL, " \n", &save));
		cur = of_mod2sparse_allocate(nr, nc);
		fprintf(out, "R");
		while ((tok = strtok_r(NULL, " \n", &save))) {
			char *s2, *a[6]; int na = 0; long res = 0; static UINT32 t1[4096], t2[4096];
			for (a[na] = strtok_r(tok, ",", &s2); a[na] && na < 5; a[++na] = strtok_r(NULL, ",", &s2)) ;
			switch (a[0][0]) {
			case 'i': { of_mod2entry *was = of_mod2sparse_find(cur, atoi(a[1]), atoi(a[2])); of_mod2entry *e = of_mod2sparse_insert(cur, atoi(a[1]), atoi(a[2])); res = e ? (was ? 0 : 1) : 8; break; }
			case 'f': res = of_mod2sparse_find(cur, atoi(a[1]), atoi(a[2])) ? 1 : 0; break;
			case 'd': { of_mod2entry *e = of_mod2sparse_find(cur, atoi(a[1]), atoi(a[2])); if (e) { of_mod2sparse_delete(cur, e); res = 1; } break; }
			case 'c': of_mod2sparse_clear(cur); break;
			case 'y': { of_mod2sparse *r = of_mod2sparse_allocate(of_mod2sparse_rows(cur) + atoi(a[1]), of_mod2sparse_cols(cur) + atoi(a[2])); junk(r, a[3]); of_mod2sparse_copy(cur, r); release(cur); cur = r; break; }
			case 'R': { of_mod2sparse *r = of_mod2sparse_allocate(of_mod2sparse_rows(cur), of_mod2sparse_cols(cur)); ints(a[1], t1); junk(r, a[2]); of_mod2sparse_copyrows(cur, r, t1); release(cur); cur = r; break; }
			case 'C': { of_mod2sparse *r = of_mod2sparse_allocate(of_mod2sparse_rows(cur), of_mod2sparse_cols(cur)); ints(a[1], t1); junk(r, a[2]); of_mod2sparse_copycols(cur, r, t1); release(cur); cur = r; break; }
			case 'r': { of_mod2sparse *r = of_mod2sparse_allocate(of_mod2sparse_rows(cur), of_mod2sparse_cols(cur)); ints(a[1], t1); junk(r, a[2]); of_mod2sparse_copyrows_opt(cur, r, t1, NULL); release(cur); cur = r; break; }
			case 'k': { of_mod2sparse *r = of_mod2sparse_allocate(of_mod2sparse_rows(cur), of_mod2sparse_cols(cur)); ints(a[1], t1); junk(r, a[2]); of_mod2sparse_copycols_opt(cur, r, t1); release(cur); cur = r; break; }
			case 'F': { of_mod2sparse *r = of_mod2sparse_allocate(atoi(a[3]), atoi(a[4])); ints(a[1], t1); ints(a[2], t2); of_mod2sparse_copy_filled_matrix(cur, r, t1, t2); release(cur); cur = r; break; }
			case 'D': { of_mod2dense *d = of_mod2dense_allocate(of_mod2sparse_rows(cur), of_mod2sparse_cols(cur)); of_mod2sparse *r = of_mod2sparse_allocate(of_mod2sparse_rows(cur), of_mod2sparse_cols(cur));
				of_mod2sparse_insert(r, 0, 0); of_mod2sparse_to_dense(cur, d); of_mod2dense_to_sparse(d, r); of_mod2dense_free(d); release(cur); cur = r; break; }
			case 'e': res = of_mod2sparse_empty_row(cur, atoi(a[1])) ? 1 : 0; break;
			case 'E': res = of_mod2sparse_empty_col(cur, atoi(a[1])) ? 1 : 0; break;
			case 'w': res = of_mod2sparse_weight_row(cur, atoi(a[1])); break;
			default: res = -1;
			}
			dump(out, res);
		}
		fprintf(out, "\n");
		release(cur);
	}
	return 0;
}
