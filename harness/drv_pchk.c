/* stream pchk:  Q <k> <r> <N1> <seed> <role 1|2 (+10: created with verbosity 2)> <pre> [<post>]     pre, post = k:r:N1:seed,k:r:N1:seed,... or -
 * Earlier sessions `pre` are created, configured (decoder role) and released first; then the target
 * session is created with the given role; then the sessions `post` are created and configured and STAY ALIVE while the target's
 * matrix and claim are read (they are released afterwards).  Answer:
 *   R G0<of_seed before the target> P<status> H<r>,<n>:<rows> LN<claim> X<extra flag> G<of_seed after> */
#include <stdio.h>
#include <stdlib.h>
#include <string.h>
#include <unistd.h>
#include "of_openfec_api.h"
#include "of_linear_binary_code.h"
#include "of_ldpc_staircase.h"
extern UINT64 of_seed;

static of_status_t conf(of_session_t *s, long k, long r, long n1, long seed)
{
	of_ldpc_parameters_t p; memset(&p, 0, sizeof p);
	p.nb_source_symbols = k; p.nb_repair_symbols = r; p.encoding_symbol_length = 4; p.N1 = (UINT8)n1; p.prng_seed = (INT32)seed;
	return of_set_fec_parameters(s, (of_parameters_t *)&p);
}

int main(void)
{
	static char line[1 << 16];
	FILE *out = fdopen(dup(1), "w");
	setvbuf(out, NULL, _IOLBF, 0);
	freopen("/dev/null", "w", stdout);
	while (fgets(line, sizeof line, stdin)) {
		long k, r, n1, seed, role; char pre[1 << 15], post[1 << 15]; of_session_t *s = NULL; of_status_t st; char *p;
		of_session_t *later[64]; int nlater = 0, verb = 0, nf; unsigned long long g_after;
		post[0] = '-'; post[1] = 0;
		nf = sscanf(line, "Q %ld %ld %ld %ld %ld %s %s", &k, &r, &n1, &seed, &role, pre, post);
		if (nf < 6) { fprintf(out, "R BADREQ\n"); continue; }
		if (role >= 10) { verb = 2; role -= 10; }
		for (p = pre; *p && *p != '-'; ) {
			long a, b, c, d; of_session_t *q = NULL;
			a = strtol(p, &p, 10); p++; b = strtol(p, &p, 10); p++; c = strtol(p, &p, 10); p++; d = strtol(p, &p, 10); if (*p == ',') p++;
			of_create_codec_instance(&q, OF_CODEC_LDPC_STAIRCASE_STABLE, OF_DECODER, 0); conf(q, a, b, c, d); of_release_codec_instance(q);
		}
		fprintf(out, "R G0%llu", (unsigned long long)of_seed);
		of_create_codec_instance(&s, OF_CODEC_LDPC_STAIRCASE_STABLE, role == 1 ? OF_ENCODER : OF_DECODER, verb);
		st = conf(s, k, r, n1, seed);
		g_after = (unsigned long long)of_seed;	/* the PRNG state the target's configuration left behind */
		of_verbosity = 0;
		for (p = post; *p && *p != '-' && nlater < 64; ) {
			long a, b, c, d; of_session_t *q = NULL;
			a = strtol(p, &p, 10); p++; b = strtol(p, &p, 10); p++; c = strtol(p, &p, 10); p++; d = strtol(p, &p, 10); if (*p == ',') p++;
			of_create_codec_instance(&q, OF_CODEC_LDPC_STAIRCASE_STABLE, (nlater & 1) ? OF_ENCODER : OF_DECODER, 0); conf(q, a, b, c, d); later[nlater++] = q;
		}
		fprintf(out, " P%d", st);
		if (st == OF_STATUS_OK) {
			of_ldpc_staircase_cb_t *cb = (of_ldpc_staircase_cb_t *)s; of_mod2sparse *m = cb->pchk_matrix; int row; bool ln = 0;
			fprintf(out, " H%d,%d:", of_mod2sparse_rows(m), of_mod2sparse_cols(m));
			for (row = 0; row < of_mod2sparse_rows(m); row++) {
				of_mod2entry *e; int first = 1; if (row) fputc('/', out);
				for (e = of_mod2sparse_first_in_row(m, row); !of_mod2sparse_at_end(e); e = of_mod2sparse_next_in_row(e)) { fprintf(out, first ? "%d" : ",%d", e->col); first = 0; }
			}
			of_get_control_parameter(s, OF_CRTL_LDPC_STAIRCASE_IS_LAST_SYMBOL_NULL, &ln, sizeof ln);
			fprintf(out, " LN%d X%d", ln ? 1 : 0, cb->extra_entries_added_in_pchk ? 1 : 0);
		}
		fprintf(out, " G%llu\n", g_after);
		of_release_codec_instance(s);
		while (nlater > 0) of_release_codec_instance(later[--nlater]);
	}
	return 0;
}
