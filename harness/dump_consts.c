/* Translator front end: prints the advertised limits and a few structural constants as the compiler sees them. */
#include <stdio.h>
#include "of_openfec_api.h"
#include "of_linear_binary_code.h"
#include "of_reed-solomon_gf_2_8.h"
int main(void)
{
	printf("ldpc_max_k %ld\n", (long)OF_LDPC_STAIRCASE_MAX_NB_SOURCE_SYMBOLS_DEFAULT);
	printf("ldpc_max_n %ld\n", (long)OF_LDPC_STAIRCASE_MAX_NB_ENCODING_SYMBOLS_DEFAULT);
	printf("rs28_max_k %ld\n", (long)OF_REED_SOLOMON_MAX_NB_SOURCE_SYMBOLS_DEFAULT);
	printf("rs28_max_n %ld\n", (long)OF_REED_SOLOMON_MAX_NB_ENCODING_SYMBOLS_DEFAULT);
	printf("rs2m_max_m %ld\n", (long)OF_REED_SOLOMON_2_M_MAX_M);
	printf("p2d_max_k %ld\n", (long)OF_2D_PARITY_MATRIX_MAX_NB_SOURCE_SYMBOLS_DEFAULT);
	printf("p2d_max_n %ld\n", (long)OF_2D_PARITY_MATRIX_MAX_NB_ENCODING_SYMBOLS_DEFAULT);
	printf("sparse_block %ld\n", (long)of_mod2sparse_block);
	printf("wordsize %ld\n", (long)of_mod2_wordsize);
	printf("wordsize_shift %ld\n", (long)of_mod2_wordsize_shift);
	printf("wordsize_mask %ld\n", (long)of_mod2_wordsize_mask);
	printf("gf_bits %ld\n", (long)GF_BITS);
	return 0;
}
