/* stream prng: P <initial of_seed> <srand argument or -> <maxv> ...
 * answer: state after seeding, then (output, state) per call */
#include <stdio.h>
#include <stdlib.h>
#include <string.h>
#include "of_openfec_api.h"
#include "of_rand.h"

extern UINT64 of_seed;

int main(void)
{
	setvbuf(stdout, NULL, _IOLBF, 0);
	static char line[1 << 20];
	while (fgets(line, sizeof line, stdin)) {
		char *tok = strtok(line, " \n");
		if (!tok) continue;
		if (strcmp(tok, "P")) { printf("BADREQ\n"); continue; }
		tok = strtok(NULL, " \n");
		of_seed = strtoull(tok, NULL, 10);
		tok = strtok(NULL, " \n");
		if (strcmp(tok, "-"))
			of_rfc5170_srand(strtoull(tok, NULL, 10));
		printf("%llu", (unsigned long long)of_seed);
		while ((tok = strtok(NULL, " \n"))) {
			UINT64 o = of_rfc5170_rand(strtoull(tok, NULL, 10));
			printf(" %llu %llu", (unsigned long long)o, (unsigned long long)of_seed);
		}
		printf("\n");
	}
	return 0;
}
