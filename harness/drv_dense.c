/* streams dense / solve / pop.
 *  N <r> <c> <op> ...      dense matrix op sequence (ops comma separated):
 *     s,i,j,v  g,i,j  f,i,j  c   y,dr,dc,J (copy into (r+dr)x(c+dc) pre-filled with junk J = i.j:i.j:..)   R,ROWS,J  C,COLS,J
 *     x,from,to   w,i   W,j   e,i   I,i,nb (row_weight_ignore_first: 9999 stands for UINT32(-1))
 *     answer: per op  <result>=<rows as hex words w.w.w;...>
 *  L <p> <q> <Lbytes> <rows: 0/1 strings separated by ;> <rhs: hex or N, separated by ;>
 *     answer: S<status> then the q solution symbols (hex, ';' separated) when status is 0
 *  A <size in bits> <w32> ...   of_hweight_array on the given words
 *  H <w32> ...             popcount helpers on 32-bit words: answer per word  hweight32,hweight32_table,hweight32_naive,hweight8_table(low byte),popcount_3(w | w<<32 ^ w<<13)
 */
#include <stdio.h>
#include <stdlib.h>
#include <string.h>
#include <unistd.h>
#include "of_openfec_api.h"
#include "of_linear_binary_code.h"

static of_mod2dense *cur;
static void dump(FILE *o, long res)
{
	UINT32 i, k;
	fprintf(o, " %ld=", res);
	for (i = 0; i < cur->n_rows; i++) { if (i) fputc(';', o); for (k = 0; k < cur->n_words; k++) fprintf(o, k ? ".%x" : "%x", cur->row[i][k]); }
}
static int ints(char *s, UINT32 *out) { int n = 0; char *p = s; if (!s || !*s || *s == '-') return 0; while (1) { out[n++] = strtoul(p, &p, 10); if (*p != '.') break; p++; } return n; }
static void junk(of_mod2dense *m, char *s) { char *p = s; if (!s || !*s || *s == '-') return; while (1) { long r = strtol(p, &p, 10); long c; p++; c = strtol(p, &p, 10); of_mod2dense_set(m, r, c, 1); if (*p != ':') break; p++; } }
static int hexv(int c) { return c <= '9' ? c - '0' : (c | 32) - 'a' + 10; }

int main(void)
{
	static char line[1 << 22];
	FILE *out = fdopen(dup(1), "w");
	setvbuf(out, NULL, _IOLBF, 0);
	freopen("/dev/null", "w", stdout);
	while (fgets(line, sizeof line, stdin)) {
		char *save, *tok = strtok_r(line, " \n", &save);
		if (!tok) continue;
		if (!strcmp(tok, "N")) {
			int nr = atoi(strtok_r(NULL, " \n", &save)), nc = atoi(strtok_r(NULL, " \n", &save));
			cur = of_mod2dense_allocate(nr, nc);
			fprintf(out, "R");
			while ((tok = strtok_r(NULL, " \n", &save))) {
				char *s2, *a[6]; int na = 0; long res = 0; static UINT32 t1[4096];
				for (a[na] = strtok_r(tok, ",", &s2); a[na] && na < 5; a[++na] = strtok_r(NULL, ",", &s2)) ;
				switch (a[0][0]) {
				case 's': res = of_mod2dense_set(cur, atoi(a[1]), atoi(a[2]), atoi(a[3])) ? 9 : 0; break;
				case 'g': res = of_mod2dense_get(cur, atoi(a[1]), atoi(a[2])); break;
				case 'f': { UINT32 b = of_mod2dense_flip(cur, atoi(a[1]), atoi(a[2])); res = (b == (UINT32)-1) ? 9 : (long)b; break; }
				case 'c': of_mod2dense_clear(cur); break;
				case 'y': { of_mod2dense *r = of_mod2dense_allocate(cur->n_rows + atoi(a[1]), cur->n_cols + atoi(a[2])); junk(r, a[3]); of_mod2dense_copy(cur, r); of_mod2dense_free(cur); cur = r; break; }
				case 'R': { of_mod2dense *r = of_mod2dense_allocate(cur->n_rows, cur->n_cols); ints(a[1], t1); junk(r, a[2]); of_mod2dense_copyrows(cur, r, t1); of_mod2dense_free(cur); cur = r; break; }
				case 'C': { of_mod2dense *r = of_mod2dense_allocate(cur->n_rows, cur->n_cols); ints(a[1], t1); junk(r, a[2]); of_mod2dense_copycols(cur, r, t1); of_mod2dense_free(cur); cur = r; break; }
				case 'x': of_mod2dense_xor_rows(cur, atoi(a[1]), atoi(a[2])); break;
				case 'p': { of_mod2word *t = cur->row[atoi(a[1])]; cur->row[atoi(a[1])] = cur->row[atoi(a[2])]; cur->row[atoi(a[2])] = t; break; }   /* row exchange as in of_ml_tool.c */
				case 'w': res = of_mod2dense_row_weight(cur, atoi(a[1])); break;
				case 'W': res = of_mod2dense_col_weight(cur, atoi(a[1])); break;
				case 'I': { UINT32 w = of_mod2dense_row_weight_ignore_first(cur, atoi(a[1]), atoi(a[2])); res = (w == (UINT32)-1) ? 9999 : (long)w; break; }
				case 'e': res = of_mod2dense_row_is_empty(cur, atoi(a[1])) ? 1 : 0; break;
				default: res = -1;
				}
				dump(out, res);
			}
			fprintf(out, "\n");
			of_mod2dense_free(cur);
		} else if (!strcmp(tok, "L")) {
			int p = atoi(strtok_r(NULL, " \n", &save)), q = atoi(strtok_r(NULL, " \n", &save)), L = atoi(strtok_r(NULL, " \n", &save));
			char *rows = strtok_r(NULL, " \n", &save), *rhs = strtok_r(NULL, " \n", &save), *s2, *t;
			of_mod2dense *m = of_mod2dense_allocate(p, q);
			void **ct = calloc(p, sizeof *ct), **var = calloc(q, sizeof *var);
			of_linear_binary_code_cb_t *cb = calloc(1, sizeof *cb);
			int i = 0, j; of_status_t st;
			cb->encoding_symbol_length = L; cb->tmp_tab_symbols = calloc(p + q + 8, sizeof(void *));
			for (t = strtok_r(rows, ";", &s2); t && i < p; t = strtok_r(NULL, ";", &s2), i++) for (j = 0; t[j] && j < q; j++) if (t[j] == '1') of_mod2dense_set(m, i, j, 1);
			i = 0;
			for (t = strtok_r(rhs, ";", &s2); t && i < p; t = strtok_r(NULL, ";", &s2), i++)
				if (t[0] != 'N') { ct[i] = malloc(L); for (j = 0; j < L; j++) ((unsigned char *)ct[i])[j] = hexv(t[2 * j]) * 16 + hexv(t[2 * j + 1]); }
			st = of_linear_binary_code_solve_dense_system(cb, m, ct, var);
			fprintf(out, "R S%d", st);
			if (st == OF_STATUS_OK) for (i = 0; i < q; i++) { fputc(i ? ';' : ' ', out); if (!var[i]) fprintf(out, "NULL"); else for (j = 0; j < L; j++) fprintf(out, "%02x", ((unsigned char *)var[i])[j]); }
			fprintf(out, "\n");
			for (i = 0; i < p; i++) free(ct[i]);
			for (i = 0; i < q; i++) free(var[i]);
			free(ct); free(var); free(cb->tmp_tab_symbols); free(cb); of_mod2dense_free(m);
		} else if (!strcmp(tok, "A")) {
			INT32 size = atoi(strtok_r(NULL, " \n", &save)); int n = 0; UINT32 *arr = malloc(sizeof(UINT32));   /* exact-size block: ASan sees any over-read */
			while ((tok = strtok_r(NULL, " \n", &save))) { arr = realloc(arr, (n + 1) * sizeof(UINT32)); arr[n++] = strtoul(tok, NULL, 10); }
			{ UINT32 *ex = malloc(n ? n * sizeof(UINT32) : 1); memcpy(ex, arr, n * sizeof(UINT32)); fprintf(out, "R %u\n", of_hweight_array(ex, size)); free(ex); }
			free(arr);
		} else if (!strcmp(tok, "H")) {
			fprintf(out, "R");
			while ((tok = strtok_r(NULL, " \n", &save))) {
				UINT32 w = strtoul(tok, NULL, 10); UINT64 x = ((UINT64)w) | (((UINT64)w << 32) ^ ((UINT64)w << 13));
				fprintf(out, " %u,%u,%u,%u,%d", of_hweight32(w), of_hweight32_table(w), of_hweight32_naive(w), (unsigned)of_hweight8_table((UINT8)w), of_popcount_3(x));
			}
			fprintf(out, "\n");
		} else fprintf(out, "R BADREQ\n");
	}
	return 0;
}
