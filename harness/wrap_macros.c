/* Function wrappers around the ESI <-> matrix-column macros of of_symbol.h, so that tools/c2gallina.py can translate them
 * (clang expands the macros; the translator sees the conditional expressions the library's code sees). */
#include "of_openfec_api.h"
#include "of_linear_binary_code.h"

INT32 w_get_symbol_col(of_linear_binary_code_cb_t *ofcb, UINT32 esi) { return of_get_symbol_col(ofcb, esi); }
INT32 w_get_symbol_esi(of_linear_binary_code_cb_t *ofcb, UINT32 matrix_col) { return of_get_symbol_esi(ofcb, matrix_col); }
INT32 w_is_source_symbol(of_linear_binary_code_cb_t *ofcb, UINT32 esi) { return of_is_source_symbol(ofcb, esi); }
INT32 w_is_repair_symbol(of_linear_binary_code_cb_t *ofcb, UINT32 esi) { return of_is_repair_symbol(ofcb, esi); }

/* the bit macros of of_matrix_dense.h on one of_mod2word */
of_mod2word w_mod2_getbit(of_mod2word w, INT32 i) { return of_mod2_getbit(w, i); }
of_mod2word w_mod2_setbit1(of_mod2word w, INT32 i) { return of_mod2_setbit1(w, i); }
of_mod2word w_mod2_setbit0(of_mod2word w, INT32 i) { return of_mod2_setbit0(w, i); }
