/* stream kern:  K <fn> <size> <c> <aligns> <hex buf0> <hex buf1> ...
 * fn: 1 of_add_to_symbol  2 of_add_from_multiple_symbols  3 of_add_to_multiple_symbols
 *     4 of_addmul1 (static, GF(2^8) codec)  5 of_galois_field_2_8_addmul1
 *     6 of_galois_field_2_4_addmul1  7 of_galois_field_2_4_addmul1_compact
 * bufs: destination first then operands (fn 3: source first then targets); "-" is an empty buffer.
 * Every buffer is placed at the end of its own exact-size heap block (so ASan sees any access
 * past its last byte) at the requested alignment offset (digit i of <aligns>), after a guard
 * prefix that is checked afterwards.  Answer: the resulting buffer(s) in hex. */
#include <stdio.h>
#include <stdlib.h>
#include <string.h>
#include "of_openfec_api.h"
#include "of_reed-solomon_gf_2_8.c"
#undef SWAP
#undef UNROLL
#include "of_symbol.h"
#include "algebra_2_4.h"
#include "algebra_2_8.h"

#define MAXB 64
#define GUARD 16
static unsigned char *base[MAXB], *buf[MAXB];
static int blen[MAXB], boff[MAXB];

static int hexv(int c) { return c <= '9' ? c - '0' : (c | 32) - 'a' + 10; }

int main(void)
{
	setvbuf(stdout, NULL, _IOLBF, 0);
	static char line[1 << 22];
	of_rs_init();
	while (fgets(line, sizeof line, stdin)) {
		char *tok = strtok(line, " \n");
		int fn, size, c, nb = 0, i, j, bad = 0;
		char *al;
		if (!tok || strcmp(tok, "K")) { printf("BADREQ\n"); continue; }
		fn = atoi(strtok(NULL, " \n")); size = atoi(strtok(NULL, " \n")); c = atoi(strtok(NULL, " \n"));
		al = strtok(NULL, " \n");
		while ((tok = strtok(NULL, " \n")) && nb < MAXB) {
			int n = strcmp(tok, "-") ? (int)strlen(tok) / 2 : 0;
			if (tok[0] == '=') {	/* =j : the very buffer of operand j once more (aliased list entries) */
				int jx = atoi(tok + 1); base[nb] = NULL; buf[nb] = buf[jx]; blen[nb] = blen[jx]; boff[nb] = 0; nb++; continue;
			}
			int a = al[nb] ? al[nb] - '0' : 0;
			/* malloc is 16-aligned: GUARD bytes + a bytes of guard, then the buffer, ending exactly at the block end */
			base[nb] = malloc(GUARD + a + n);
			memset(base[nb], 0xA5, GUARD + a);
			buf[nb] = base[nb] + GUARD + a; blen[nb] = n; boff[nb] = GUARD + a;
			for (j = 0; j < n; j++) buf[nb][j] = (unsigned char)(hexv(tok[2 * j]) * 16 + hexv(tok[2 * j + 1]));
			nb++;
		}
		switch (fn) {
		case 1: of_add_to_symbol(buf[0], buf[1], size); break;
		case 2: of_add_from_multiple_symbols(buf[0], (const void **)(buf + 1), nb - 1, size); break;
		case 3: of_add_to_multiple_symbols((void **)(buf + 1), buf[0], nb - 1, size); break;
		case 4: of_addmul1(buf[0], buf[1], (gf)c, size); break;
		case 5: of_galois_field_2_8_addmul1(buf[0], buf[1], (gf)c, size); break;
		case 6: of_galois_field_2_4_addmul1(buf[0], buf[1], (gf)c, size); break;
		case 7: of_galois_field_2_4_addmul1_compact(buf[0], buf[1], (gf)c, size); break;
		default: bad = 1;
		}
		for (i = 0; i < nb; i++)
			for (j = 0; j < boff[i]; j++) if (base[i][j] != 0xA5) bad = 2;
		if (bad) printf("GUARD-OR-REQ-ERROR %d", bad);
		else {
			int first = fn == 3 ? 1 : 0, last = fn == 3 ? nb : 1;
			/* operands must be unchanged: print them too (after a '|') so the differ sees it */
			for (i = first; i < last; i++) {
				if (i > first) printf(" ");
				if (!blen[i]) printf("-");
				for (j = 0; j < blen[i]; j++) printf("%02x", buf[i][j]);
			}
			printf(" |");
			for (i = 0; i < nb; i++) {
				if (i >= first && i < last) continue;
				printf(" ");
				if (!blen[i]) printf("-");
				for (j = 0; j < blen[i]; j++) printf("%02x", buf[i][j]);
			}
		}
		printf("\n");
		for (i = 0; i < nb; i++) if (base[i]) free(base[i]);
	}
	return 0;
}
