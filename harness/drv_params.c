/* streams params / args.
 *   A <codec> <k> <r> <L> <p1> <p2>   -> R A<status of of_set_fec_parameters on an encoder session>,<same on a decoder session>
 *   G <codec> <k> <r> <L> <p1> <p2>   -> R G<statuses of a list of corrupted calls on configured sessions> U<1 if both sessions
 *                                         still encode/decode a block correctly afterwards>
 *   H <codec> <k> <r> <L> <p1> <p2> <ses>/<call> ...   -> R H<status of each call, comma separated> U<encoder, decoder, encoder+decoder
 *                                         sessions still usable afterwards>  M<MAX_K>,<MAX_N> as of_get_control_parameter reports them
 *       ses: 0 (NULL) e (OF_ENCODER) d (OF_DECODER) b (OF_ENCODER_AND_DECODER);  call: B:<esi>  D:<buf null>:<esi>  S:<tab null>  F  C  T
 *       K:<src cb null>:<rep cb null>  G:<type>:<value null>:<length>  X      (same grammar as the model stream A, coq/ApiArgs.v)
 * corrupted calls of G (each must return an error status, i.e. not 0):
 *   set_fec_parameters(NULL), build(NULL ses), decode(NULL ses), decode with esi = n, n+1, 2^32-1, build with esi = 0 (a source),
 *   k-1, n, 2^32-1, build on a decoder-only session, decode on an encoder-only session, decode with a NULL symbol */
#include <stdio.h>
#include <stdlib.h>
#include <string.h>
#include <unistd.h>
#include "of_openfec_api.h"

static of_status_t set_params(of_session_t *ses, int codec, UINT32 k, UINT32 r, UINT32 L, long p1, long p2)
{
	if (codec == 1) { of_rs_parameters_t p; memset(&p, 0, sizeof p); p.nb_source_symbols = k; p.nb_repair_symbols = r; p.encoding_symbol_length = L; return of_set_fec_parameters(ses, (of_parameters_t *)&p); }
	if (codec == 2) { of_rs_2_m_parameters_t p; memset(&p, 0, sizeof p); p.nb_source_symbols = k; p.nb_repair_symbols = r; p.encoding_symbol_length = L; p.m = (UINT16)p1; return of_set_fec_parameters(ses, (of_parameters_t *)&p); }
	{ of_ldpc_parameters_t p; memset(&p, 0, sizeof p); p.nb_source_symbols = k; p.nb_repair_symbols = r; p.encoding_symbol_length = L; p.N1 = (UINT8)p1; p.prng_seed = (INT32)p2; return of_set_fec_parameters(ses, (of_parameters_t *)&p); }
}

static void *cb_null(void *ctx, UINT32 size, UINT32 esi) { (void)ctx; (void)size; (void)esi; return NULL; }

/* one life cycle on an encoder-capable session e and a decoder-capable session d (may be the same object): build every repair
 * symbol into a private table, compare with the reference codeword, feed everything but source 0, finish, compare source 0 */
static int usable(of_session_t *e, of_session_t *d, void **ref, UINT32 k, UINT32 n, UINT32 L)
{
	UINT32 i; int ok = 1; void **t2 = calloc(n, sizeof *t2), **rx = calloc(n, sizeof *rx), **src = calloc(k, sizeof *src);
	for (i = 0; i < n; i++) { t2[i] = malloc(L); memcpy(t2[i], ref[i], L); if (i >= k) memset(t2[i], 0x5a, L); }
	if (e) for (i = k; i < n; i++) { if (of_build_repair_symbol(e, t2, i) != OF_STATUS_OK || memcmp(t2[i], ref[i], L)) ok = 0; }
	if (d) {
		for (i = 1; i < n; i++) { rx[i] = malloc(L); memcpy(rx[i], ref[i], L); if (of_decode_with_new_symbol(d, rx[i], i) != OF_STATUS_OK) ok = 0; }
		if (of_finish_decoding(d) != OF_STATUS_OK) ok = 0;	/* every symbol but source 0 was submitted: decodable, so the status must be OK */
		if (!of_is_decoding_complete(d)) ok = 0;
		else if (of_get_source_symbols_tab(d, src) != OF_STATUS_OK || !src[0] || memcmp(src[0], ref[0], L)) ok = 0;
	}
	for (i = 0; i < n; i++) free(t2[i]);
	free(t2); free(src);   /* rx[] and decoded symbols stay with the sessions until they are released by the caller (leak check is off here) */
	free(rx);
	return ok;
}

int main(void)
{
	static char line[1 << 16];
	FILE *out = fdopen(dup(1), "w");
	setvbuf(out, NULL, _IOLBF, 0);
	freopen("/dev/null", "w", stdout);
	while (fgets(line, sizeof line, stdin)) {
		char kind; long codec; unsigned long long k, r, L; long p1, p2; int consumed = 0;
		if (sscanf(line, "%c %ld %llu %llu %llu %ld %ld%n", &kind, &codec, &k, &r, &L, &p1, &p2, &consumed) != 7) { fprintf(out, "R BADREQ\n"); continue; }
		if (kind == 'H') {
			of_session_t *p = NULL, *e = NULL, *d = NULL, *b = NULL; UINT32 n = (UINT32)(k + r), i; void **tab, **src; char *tok; int first = 1;
			UINT32 mk = 0, mn = 0; void **tab2;
			of_create_codec_instance(&p, (of_codec_id_t)codec, OF_ENCODER, 0); of_create_codec_instance(&e, (of_codec_id_t)codec, OF_ENCODER, 0);
			of_create_codec_instance(&d, (of_codec_id_t)codec, OF_DECODER, 0); of_create_codec_instance(&b, (of_codec_id_t)codec, OF_ENCODER_AND_DECODER, 0);
			if (set_params(p, codec, k, r, L, p1, p2) || set_params(e, codec, k, r, L, p1, p2) || set_params(d, codec, k, r, L, p1, p2) || set_params(b, codec, k, r, L, p1, p2)) { fprintf(out, "R NOTCONFIGURED\n"); continue; }
			tab = calloc(n, sizeof *tab); src = calloc(k, sizeof *src);
			for (i = 0; i < n; i++) { tab[i] = malloc(L); memset(tab[i], (int)(i * 37 + 11), L); }
			for (i = k; i < n; i++) of_build_repair_symbol(p, tab, i);
			/* build calls of the grid write into a private copy: an LDPC session that has decoded has consumed its matrix, so what an
			 * encoder+decoder session builds after decoding calls is not the codeword (using one session for both directions of the same
			 * block is outside the documented protocol); the reference codeword must not depend on it */
			tab2 = calloc(n, sizeof *tab2);
			for (i = 0; i < n; i++) { tab2[i] = malloc(L); memcpy(tab2[i], tab[i], L); }
			fprintf(out, "R H");
			for (tok = strtok(line + consumed, " \n"); tok; tok = strtok(NULL, " \n")) {
				of_session_t *s = tok[0] == 'e' ? e : tok[0] == 'd' ? d : tok[0] == 'b' ? b : NULL;
				char fn = tok[2]; unsigned long long a1 = 0, a2 = 0, a3 = 0; int st = -1;
				sscanf(tok + 3, ":%llu:%llu:%llu", &a1, &a2, &a3);
				switch (fn) {
				case 'B': st = of_build_repair_symbol(s, tab2, (UINT32)a1); break;
				case 'D': st = of_decode_with_new_symbol(s, a1 ? NULL : tab[a2 < n ? a2 : 0], (UINT32)a2); break;
				case 'S': st = of_set_available_symbols(s, a1 ? NULL : tab); break;
				case 'F': st = of_finish_decoding(s); break;
				case 'C': st = of_is_decoding_complete(s) ? 100 : 101; break;
				case 'T': st = of_get_source_symbols_tab(s, src); break;
				case 'K': st = of_set_callback_functions(s, a1 ? NULL : cb_null, a2 ? NULL : cb_null, NULL); break;
				case 'G': { UINT64 v = 0; st = of_get_control_parameter(s, (UINT32)a1, a2 ? NULL : &v, (UINT32)a3); } break;
				case 'X': { UINT32 v = 0; st = of_set_control_parameter(s, 1, &v, sizeof v); } break;
				}
				fprintf(out, "%s%d", first ? "" : ",", st); first = 0;
			}
			of_get_control_parameter(d, OF_CTRL_GET_MAX_K, &mk, sizeof mk); of_get_control_parameter(d, OF_CTRL_GET_MAX_N, &mn, sizeof mn);
			fprintf(out, " U%d%d%d M%u,%u\n", usable(e, NULL, tab, k, n, L), usable(NULL, d, tab, k, n, L), usable(codec == 3 ? NULL : b, b, tab, k, n, L), mk, mn);
			of_release_codec_instance(p); of_release_codec_instance(e); of_release_codec_instance(d); of_release_codec_instance(b);
			for (i = 0; i < n; i++) { free(tab[i]); free(tab2[i]); }
			free(tab); free(tab2); free(src);
			continue;
		}
		if (kind == 'A') {
			of_session_t *e = NULL, *d = NULL; int s1, s2;
			of_create_codec_instance(&e, (of_codec_id_t)codec, OF_ENCODER, 0);
			s1 = set_params(e, codec, (UINT32)k, (UINT32)r, (UINT32)L, p1, p2);
			of_release_codec_instance(e);
			of_create_codec_instance(&d, (of_codec_id_t)codec, OF_DECODER, 0);
			s2 = set_params(d, codec, (UINT32)k, (UINT32)r, (UINT32)L, p1, p2);
			of_release_codec_instance(d);
			fprintf(out, "R A%d,%d\n", s1, s2);
		} else {
			of_session_t *e = NULL, *d = NULL; UINT32 n = (UINT32)(k + r), i; void **tab, **rx, **src; unsigned char *sym; int ok = 1;
			of_create_codec_instance(&e, (of_codec_id_t)codec, OF_ENCODER, 0); of_create_codec_instance(&d, (of_codec_id_t)codec, OF_DECODER, 0);
			if (set_params(e, codec, k, r, L, p1, p2) || set_params(d, codec, k, r, L, p1, p2)) { fprintf(out, "R NOTCONFIGURED\n"); continue; }
			tab = calloc(n, sizeof *tab); rx = calloc(n, sizeof *rx); src = calloc(k, sizeof *src); sym = malloc(L);
			for (i = 0; i < n; i++) { tab[i] = malloc(L); memset(tab[i], (int)(i * 37 + 11), L); }
			fprintf(out, "R G%d", of_set_fec_parameters(NULL, NULL) != 0);
			fprintf(out, "%d", of_build_repair_symbol(NULL, tab, k) != 0);
			fprintf(out, "%d", of_decode_with_new_symbol(NULL, tab[0], 0) != 0);
			fprintf(out, "%d", of_decode_with_new_symbol(d, tab[0], n) != 0);
			fprintf(out, "%d", of_decode_with_new_symbol(d, tab[0], n + 1) != 0);
			fprintf(out, "%d", of_decode_with_new_symbol(d, tab[0], 0xFFFFFFFFu) != 0);
			fprintf(out, "%d", of_build_repair_symbol(e, tab, 0) != 0);
			fprintf(out, "%d", of_build_repair_symbol(e, tab, k - 1) != 0);
			fprintf(out, "%d", of_build_repair_symbol(e, tab, n) != 0);
			fprintf(out, "%d", of_build_repair_symbol(e, tab, 0xFFFFFFFFu) != 0);
			fprintf(out, "%d", of_build_repair_symbol(d, tab, k) != 0);
			fprintf(out, "%d", of_decode_with_new_symbol(e, tab[0], 0) != 0);
			fprintf(out, "%d", of_decode_with_new_symbol(d, NULL, 0) != 0);
			/* both sessions must still be usable: encode everything, drop source 0, decode */
			for (i = k; i < n; i++) if (of_build_repair_symbol(e, tab, i) != OF_STATUS_OK) ok = 0;
			for (i = 1; i < n; i++) { rx[i] = malloc(L); memcpy(rx[i], tab[i], L); if (of_decode_with_new_symbol(d, rx[i], i) != OF_STATUS_OK) ok = 0; }
			of_finish_decoding(d);
			if (!of_is_decoding_complete(d)) ok = 0;
			else { of_get_source_symbols_tab(d, src); if (!src[0] || memcmp(src[0], tab[0], L)) ok = 0; }
			fprintf(out, " U%d\n", ok);
			if (of_is_decoding_complete(d) && src[0]) free(src[0]);
			of_release_codec_instance(e); of_release_codec_instance(d);
			for (i = 0; i < n; i++) { free(tab[i]); free(rx[i]); }
			free(tab); free(rx); free(src); free(sym);
		}
	}
	return 0;
}
