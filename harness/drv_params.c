/* streams params / args.
 *   A <codec> <k> <r> <L> <p1> <p2>   -> R A<status of of_set_fec_parameters on an encoder session>,<same on a decoder session>
 *   G <codec> <k> <r> <L> <p1> <p2>   -> R G<statuses of a list of corrupted calls on configured sessions> U<1 if both sessions
 *                                         still encode/decode a block correctly afterwards>
 * corrupted calls (each must return an error status, i.e. not 0):
 *   set_fec_parameters(NULL), build(NULL ses), decode(NULL ses), decode with esi = n, n+1, 2^32-1, build with esi = 0 (a source),
 *   k-1, n, 2^32-1, build on a decoder-only session, decode on an encoder-only session, decode with a NULL symbol */
#include <stdio.h>
#include <stdlib.h>
#include <string.h>
#include <unistd.h>
#include "of_openfec_api.h"

static of_status_t set_params(of_session_t *ses, int codec, UINT32 k, UINT32 r, UINT32 L, long p1, long p2)
{
	if (codec == 1) { of_rs_parameters_t p; memset(&p, 0, sizeof p); p.nb_source_symbols = k; p.nb_repair_symbols = r; p.encoding_symbol_length = L; return of_set_fec_parameters(ses, (of_parameters_t *)&p); }
	if (codec == 2) { of_rs_2_m_parameters_t p; memset(&p, 0, sizeof p); p.nb_source_symbols = k; p.nb_repair_symbols = r; p.encoding_symbol_length = L; p.m = (UINT16)p1; return of_set_fec_parameters(ses, (of_parameters_t *)&p); }
	{ of_ldpc_parameters_t p; memset(&p, 0, sizeof p); p.nb_source_symbols = k; p.nb_repair_symbols = r; p.encoding_symbol_length = L; p.N1 = (UINT8)p1; p.prng_seed = (INT32)p2; return of_set_fec_parameters(ses, (of_parameters_t *)&p); }
}

int main(void)
{
	char line[512];
	FILE *out = fdopen(dup(1), "w");
	setvbuf(out, NULL, _IOLBF, 0);
	freopen("/dev/null", "w", stdout);
	while (fgets(line, sizeof line, stdin)) {
		char kind; long codec; unsigned long long k, r, L; long p1, p2;
		if (sscanf(line, "%c %ld %llu %llu %llu %ld %ld", &kind, &codec, &k, &r, &L, &p1, &p2) != 7) { fprintf(out, "R BADREQ\n"); continue; }
		if (kind == 'A') {
			of_session_t *e = NULL, *d = NULL; int s1, s2;
			of_create_codec_instance(&e, (of_codec_id_t)codec, OF_ENCODER, 0);
			s1 = set_params(e, codec, (UINT32)k, (UINT32)r, (UINT32)L, p1, p2);
			of_release_codec_instance(e);
			of_create_codec_instance(&d, (of_codec_id_t)codec, OF_DECODER, 0);
			s2 = set_params(d, codec, (UINT32)k, (UINT32)r, (UINT32)L, p1, p2);
			of_release_codec_instance(d);
			fprintf(out, "R A%d,%d\n", s1, s2);
		} else {
			of_session_t *e = NULL, *d = NULL; UINT32 n = (UINT32)(k + r), i; void **tab, **rx, **src; unsigned char *sym; int ok = 1;
			of_create_codec_instance(&e, (of_codec_id_t)codec, OF_ENCODER, 0); of_create_codec_instance(&d, (of_codec_id_t)codec, OF_DECODER, 0);
			if (set_params(e, codec, k, r, L, p1, p2) || set_params(d, codec, k, r, L, p1, p2)) { fprintf(out, "R NOTCONFIGURED\n"); continue; }
			tab = calloc(n, sizeof *tab); rx = calloc(n, sizeof *rx); src = calloc(k, sizeof *src); sym = malloc(L);
			for (i = 0; i < n; i++) { tab[i] = malloc(L); memset(tab[i], (int)(i * 37 + 11), L); }
			fprintf(out, "R G%d", of_set_fec_parameters(NULL, NULL) != 0);
			fprintf(out, "%d", of_build_repair_symbol(NULL, tab, k) != 0);
			fprintf(out, "%d", of_decode_with_new_symbol(NULL, tab[0], 0) != 0);
			fprintf(out, "%d", of_decode_with_new_symbol(d, tab[0], n) != 0);
			fprintf(out, "%d", of_decode_with_new_symbol(d, tab[0], n + 1) != 0);
			fprintf(out, "%d", of_decode_with_new_symbol(d, tab[0], 0xFFFFFFFFu) != 0);
			fprintf(out, "%d", of_build_repair_symbol(e, tab, 0) != 0);
			fprintf(out, "%d", of_build_repair_symbol(e, tab, k - 1) != 0);
			fprintf(out, "%d", of_build_repair_symbol(e, tab, n) != 0);
			fprintf(out, "%d", of_build_repair_symbol(e, tab, 0xFFFFFFFFu) != 0);
			fprintf(out, "%d", of_build_repair_symbol(d, tab, k) != 0);
			fprintf(out, "%d", of_decode_with_new_symbol(e, tab[0], 0) != 0);
			fprintf(out, "%d", of_decode_with_new_symbol(d, NULL, 0) != 0);
			/* both sessions must still be usable: encode everything, drop source 0, decode */
			for (i = k; i < n; i++) if (of_build_repair_symbol(e, tab, i) != OF_STATUS_OK) ok = 0;
			for (i = 1; i < n; i++) { rx[i] = malloc(L); memcpy(rx[i], tab[i], L); if (of_decode_with_new_symbol(d, rx[i], i) != OF_STATUS_OK) ok = 0; }
			of_finish_decoding(d);
			if (!of_is_decoding_complete(d)) ok = 0;
			else { of_get_source_symbols_tab(d, src); if (!src[0] || memcmp(src[0], tab[0], L)) ok = 0; }
			fprintf(out, " U%d\n", ok);
			if (of_is_decoding_complete(d) && src[0]) free(src[0]);
			of_release_codec_instance(e); of_release_codec_instance(d);
			for (i = 0; i < n; i++) { free(tab[i]); free(rx[i]); }
			free(tab); free(rx); free(src); free(sym);
		}
	}
	return 0;
}
