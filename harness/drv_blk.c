/* stream blk: B <B> <L> <E>  ->  R <nb_blocks> <A_large> <A_small> <I>
 * (the function itself printf()s a trace; answer lines are prefixed with "R ") */
#include <stdio.h>
#include <stdlib.h>
#include <string.h>
#include "eperftool.h"

int main(void)
{
	setvbuf(stdout, NULL, _IOLBF, 0);
	char line[256];
	while (fgets(line, sizeof line, stdin)) {
		unsigned long long B, L, E;
		of_blocking_struct_t bs;
		if (sscanf(line, "B %llu %llu %llu", &B, &L, &E) != 3) { printf("R BADREQ\n"); continue; }
		memset(&bs, 0xA7, sizeof bs);	/* an OUT structure: whatever it held before must not show through */
		of_compute_blocking_struct((UINT32)B, (UINT32)L, (UINT32)E, &bs);
		printf("R %u %u %u %u\n", bs.nb_blocks, bs.A_large, bs.A_small, bs.I);
	}
	return 0;
}
