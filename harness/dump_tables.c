/* Translator front end for C14: the compiler is the parser. Prints every GF table of the two
 * precomputed headers (lengths derived from sizeof) and, after of_rs_init(), the tables the
 * GF(2^8) codec generates at first use (reached by including the .c file as a translation unit). */
#include <stdio.h>
#include "of_openfec_api.h"
#include "of_reed-solomon_gf_2_8.c"
#undef SWAP
#include "algebra_2_4.h"
#include "algebra_2_8.h"

#define DUMP1(name, arr) do { size_t n_ = sizeof(arr)/sizeof(arr[0]); size_t i_; \
	printf("T1 %s %zu", name, n_); for (i_ = 0; i_ < n_; i_++) printf(" %lld", (long long)arr[i_]); printf("\n"); } while (0)
#define DUMP2(name, arr) do { size_t r_ = sizeof(arr)/sizeof(arr[0]); size_t c_ = sizeof(arr[0])/sizeof(arr[0][0]); size_t i_, j_; \
	printf("T2 %s %zu %zu", name, r_, c_); for (i_ = 0; i_ < r_; i_++) for (j_ = 0; j_ < c_; j_++) printf(" %lld", (long long)arr[i_][j_]); printf("\n"); } while (0)

int main(void)
{
	DUMP1("gf24_log", of_gf_2_4_log);
	DUMP1("gf24_exp", of_gf_2_4_exp);
	DUMP1("gf24_inv", of_gf_2_4_inv);
	DUMP2("gf24_mul", of_gf_2_4_mul_table);
	DUMP2("gf24_optmul", of_gf_2_4_opt_mul_table);
	DUMP1("gf28_log", of_gf_2_8_log);
	DUMP1("gf28_exp", of_gf_2_8_exp);
	DUMP1("gf28_inv", of_gf_2_8_inv);
	DUMP2("gf28_mul", of_gf_2_8_mul_table);
	/* constants of the run-time generator */
	printf("C GF_BITS %d\n", GF_BITS);
	printf("C GF_SIZE %d\n", GF_SIZE);
	printf("S rs28_Pp %s\n", of_rs_allPp[GF_BITS]);
	of_rs_init();
	DUMP1("rs28_exp", of_rs_gf_exp);
	DUMP1("rs28_log", of_rs_gf_log);
	DUMP1("rs28_inv", of_rs_inverse);
	DUMP2("rs28_mul", of_gf_mul_table);
	return 0;
}
