(* Runs the extracted Coq model on request lines (one per line on stdin) and prints one canonical
   answer line per request; the C drivers in harness/ print the same grammar. *)
open Model

(* ---- conversions between decimal strings and the extracted Z (no native ints inside the model) *)
let rec pos_of_int n = if n = 1 then XH else if n land 1 = 0 then XO (pos_of_int (n lsr 1)) else XI (pos_of_int (n lsr 1))
let z_of_int n = if n = 0 then Z0 else if n > 0 then Zpos (pos_of_int n) else Zneg (pos_of_int (-n))
let z10 = z_of_int 10
let z_of_string s =
  let neg = String.length s > 0 && s.[0] = '-' in
  let acc = ref Z0 in
  String.iteri (fun i c -> if not (i = 0 && neg) then
    acc := Z.add (Z.mul !acc z10) (z_of_int (Char.code c - 48))) s;
  if neg then Z.opp !acc else !acc
(* Z -> decimal string through base-2 accumulation into a big decimal (lists of digits) *)
let add_dec a b = (* little-endian digit lists *)
  let rec go a b c = match a, b with
    | [], [] -> if c = 0 then [] else [c]
    | x :: a', [] -> let s = x + c in (s mod 10) :: go a' [] (s / 10)
    | [], y :: b' -> let s = y + c in (s mod 10) :: go [] b' (s / 10)
    | x :: a', y :: b' -> let s = x + y + c in (s mod 10) :: go a' b' (s / 10) in
  go a b 0
let rec dec_of_pos p = match p with
  | XH -> [1]
  | XO q -> let d = dec_of_pos q in add_dec d d
  | XI q -> let d = dec_of_pos q in add_dec (add_dec d d) [1]
let string_of_dec d = String.concat "" (List.rev_map string_of_int d)
let string_of_z z = match z with
  | Z0 -> "0" | Zpos p -> string_of_dec (dec_of_pos p) | Zneg p -> "-" ^ string_of_dec (dec_of_pos p)
let rec nat_of_int n = if n <= 0 then O else S (nat_of_int (n - 1))
let rec int_of_nat n = match n with O -> 0 | S m -> 1 + int_of_nat m
let n_of_int n = if n = 0 then N0 else Npos (pos_of_int n)
let rec int_of_pos p = match p with XH -> 1 | XO q -> 2 * int_of_pos q | XI q -> 2 * int_of_pos q + 1
let int_of_n n = match n with N0 -> 0 | Npos p -> int_of_pos p
let int_of_z z = match z with Z0 -> 0 | Zpos p -> int_of_pos p | Zneg p -> - (int_of_pos p)

let words s = List.filter (fun w -> w <> "") (String.split_on_char ' ' s)

(* ---- stream prng:  P <initial of_seed> <srand argument or -> <maxv> ...  *)
let do_prng args =
  match args with
  | init :: sr :: maxvs ->
    let g = z_of_string init in
    let g = if sr = "-" then Some g else of_rfc5170_srand g (z_of_string sr) in
    (match g with
     | None -> "UB"
     | Some g ->
       let buf = Buffer.create 64 in
       Buffer.add_string buf (string_of_z g);
       let st = ref (Some g) in
       List.iter (fun mv ->
         match !st with
         | None -> ()
         | Some s ->
           (match of_rfc5170_rand s (z_of_string mv) with
            | None -> Buffer.add_string buf " UB"; st := None
            | Some (o, s') -> Buffer.add_string buf (" " ^ string_of_z o ^ " " ^ string_of_z s'); st := Some s')) maxvs;
       Buffer.contents buf)
  | _ -> "BADREQ"

(* ---- stream blk:  B <B> <L> <E> *)
let do_blk args =
  match args with
  | [b; l; e] ->
    (match of_compute_blocking_struct (z_of_string b) (z_of_string l) (z_of_string e) with
     | None -> "R UB"
     | Some (((n, al), asm), i) -> Printf.sprintf "R %s %s %s %s" (string_of_z n) (string_of_z al) (string_of_z asm) (string_of_z i))
  | _ -> "R BADREQ"

(* ---- stream kern:  K <fn> <size> <c> <aligns> <hex buf0> <hex buf1> ... *)
let hexv c = if c <= '9' then Char.code c - 48 else (Char.code c lor 32) - 97 + 10
let bytes_of_hex s = if s = "-" then [] else
  List.init (String.length s / 2) (fun i -> n_of_int (hexv s.[2*i] * 16 + hexv s.[2*i+1]))
let hex_of_bytes l = if l = [] then "-" else String.concat "" (List.map (fun b -> Printf.sprintf "%02x" (int_of_n b)) l)
let do_kern args =
  match args with
  | fn :: size :: c :: _al :: bufs ->
    let bl = List.map bytes_of_hex bufs in
    let res = run_kernel (n_of_int (int_of_string fn)) (n_of_int (int_of_string size)) (n_of_int (int_of_string c)) bl in
    let others = if fn = "3" then [List.hd bl] else List.tl bl in
    String.concat " " (List.map hex_of_bytes res) ^ " |" ^ String.concat "" (List.map (fun b -> " " ^ hex_of_bytes b) others)
  | _ -> "BADREQ"

(* ---- stream it:  I <k> <r> <L> <lastnull> <rows: c,c,c/c,c/...> <vals: hex.hex...> <esi> ... *)
let parse_rows s = List.map (fun row -> if row = "" then [] else List.map (fun c -> nat_of_int (int_of_string c)) (String.split_on_char ',' row)) (String.split_on_char '/' s)
let mask l = String.concat "" (List.map (fun b -> if b then "1" else "0") l)
(* digest of the model's decoder state: the same canonical text as state_digest() of harness/drv_dec.c, FNV-1a 64.
   The two ready-counters and the per-repair equation counts are not fields of the model: they are what the C's counters must
   equal - the number of known source / repair columns, and the number of rows still holding the repair's column. *)
let state_digest (s : (n list) st) : string =
  let h = ref 0xcbf29ce484222325L in
  let add str = String.iter (fun ch -> h := Int64.mul (Int64.logxor !h (Int64.of_int (Char.code ch))) 0x100000001b3L) str in
  let r = int_of_nat s.r and n = int_of_nat s.n0 in
  let rows = Array.of_list (List.map (fun row -> List.map int_of_nat row) s.rws) in
  let unk = Array.of_list (List.map int_of_nat s.unk) and enc = Array.of_list (List.map int_of_nat s.enc) in
  let ct = Array.of_list s.ct and tab = Array.of_list s.tab in
  let geta a i d = if i < Array.length a then a.(i) else d in
  let q = Array.make (max r 1) 0 in
  for row = 0 to r - 1 do
    add (Printf.sprintf "u%d e%d c" (geta unk row 0) (geta enc row 0));
    (match geta ct row None with None -> add "-" | Some b -> List.iter (fun x -> add (Printf.sprintf "%02x" (int_of_n x))) b);
    add " m";
    List.iteri (fun i c -> add (if i = 0 then string_of_int c else "," ^ string_of_int c); if c < r then q.(c) <- q.(c) + 1) (geta rows row []);
    add ";"
  done;
  let known c = match geta tab c None with Some _ -> true | None -> false in
  let cnt lo hi = let c = ref 0 in for i = lo to hi - 1 do if known i then incr c done; !c in
  add (Printf.sprintf "S%d R%d|" (cnt r n) (cnt 0 r));
  for j = 0 to r - 1 do add (Printf.sprintf "q%d," q.(j)) done;
  Printf.sprintf "%016Lx" !h
(* sessions above 200 symbols: no digest (the unary numbers of the extracted model make it quadratic); "-" is skipped by the differ *)
let dig_tok l = "D" ^ String.concat "." (List.map (fun o -> match o with None -> "?" | Some o -> if List.length o.o_state.tab > 200 then "-" else state_digest o.o_state) l)

let do_it args =
  match args with
  | k :: r :: l :: ln :: rows :: vals :: esis ->
    let k = int_of_string k and r = int_of_string r and l = int_of_string l in
    let h = parse_rows rows in
    let v = List.map bytes_of_hex (String.split_on_char '.' vals) in
    let res = it_session (nat_of_int k) (nat_of_int r) (nat_of_int l) h (ln = "1") v (List.map (fun e -> nat_of_int (int_of_string e)) esis) in
    let last = ref None in
    let toks = List.map (fun o -> match o with
      | None -> "OUT-OF-FUEL"
      | Some o -> last := Some o; Printf.sprintf "S%d:%s:%s" (if o.o_complete then 1 else 0) (mask o.o_src) (mask o.o_rep)) res in
    let fin = match !last with
      | None -> "V"
      | Some o -> "V" ^ String.concat "." (List.map (fun x -> match x with None -> "-" | Some b -> hex_of_bytes b) o.o_vals) in
    String.concat " " (toks @ [fin; dig_tok res])
  | _ -> "BADREQ"


(* ---- stream ml:  J <k> <r> <L> <lastnull> <rows> <vals> <api> <perm or -> <esi> ...   (IT + finish) *)
let obs_tok o = Printf.sprintf "%d:%s:%s" (if o.o_complete then 1 else 0) (mask o.o_src) (mask o.o_rep)
let vals_tok o = String.concat "." (List.map (fun x -> match x with None -> "-" | Some b -> hex_of_bytes b) o.o_vals)
let do_ml args =
  match args with
  | k :: r :: l :: ln :: rows :: vals :: api :: perm :: esis ->
    let k = int_of_string k and r = int_of_string r and l = int_of_string l in
    let h = parse_rows rows in
    let v = List.map bytes_of_hex (String.split_on_char '.' vals) in
    let pm = if perm = "-" then [] else List.map (fun x -> nat_of_int (int_of_string x)) (String.split_on_char ',' perm) in
    let ((steps, last), fin) = ml_session (nat_of_int k) (nat_of_int r) (nat_of_int l) h (ln = "1") v
                                  (List.map (fun e -> nat_of_int (int_of_string e)) esis) pm in
    let stoks = if api = "0" then List.map (fun o -> match o with None -> "OUT-OF-FUEL" | Some o -> "S" ^ obs_tok o) steps
                else (match last with None -> ["OUT-OF-FUEL"] | Some o -> ["S" ^ obs_tok o]) in
    let ftok = match fin with
      | None -> ["F-OUT-OF-FUEL"]
      | Some f -> [Printf.sprintf "F%d%s" (if f.fo_ok then 1 else 0) (obs_tok f.fo_obs); "V" ^ vals_tok f.fo_obs] in
    String.concat " " (stoks @ ftok @ [dig_tok (if api = "0" then steps else [last])])
  | _ -> "BADREQ"

(* ---- stream api:  A <codec> <k> <r> <ses>/<call> ...   (ses: 0 e d b; calls as in coq/ApiArgs.v)  -> verdict per call: D 3 2 f *)
let do_api args =
  match args with
  | codec :: k :: r :: calls ->
    let k = z_of_string k and r = z_of_string r in
    let one tok =
      let ses = match tok.[0] with
        | 'e' -> Some { s_role = REnc; s_codec = z_of_string codec; s_k = k; s_r = r }
        | 'd' -> Some { s_role = RDec; s_codec = z_of_string codec; s_k = k; s_r = r }
        | 'b' -> Some { s_role = RBoth; s_codec = z_of_string codec; s_k = k; s_r = r }
        | _ -> None in
      let f = Array.of_list (String.split_on_char ':' (String.sub tok 2 (String.length tok - 2))) in
      let c = match f.(0) with
        | "B" -> CBuild (z_of_string f.(1)) | "D" -> CDecode (f.(1) = "1", z_of_string f.(2)) | "S" -> CSetAvail (f.(1) = "1")
        | "F" -> CFinish | "C" -> CIsComplete | "T" -> CGetSrc | "K" -> CSetCb (f.(1) = "1", f.(2) = "1")
        | _ -> CGetCtl (z_of_string f.(1), f.(2) = "1", z_of_string f.(3)) in
      match api_verdict ses c with VDispatch -> "D" | VFatal -> "3" | VError -> "2" | VFalse -> "f" in
    String.concat "," (List.map one calls)
  | _ -> "BADREQ"

(* ---- stream p2d:  T <nb_rows> <nb_cols>  -> NONE | <d> <l> H<rows> *)
let do_p2d args =
  match args with
  | [r; n] ->
    (match create2d (nat_of_int (int_of_string r)) (nat_of_int (int_of_string n)) with
     | None -> "R NONE"
     | Some ((d, l), m) ->
       Printf.sprintf "R %d %d H%d,%d:%s" (int_of_nat d) (int_of_nat l) (int_of_nat m.nr) (int_of_nat m.nc)
         (String.concat "/" (List.map (fun l -> String.concat "," (List.map (fun x -> string_of_int (int_of_nat x)) l)) m.rws0)))
  | _ -> "R BADREQ"

(* ---- stream rsenc:  G <m 4|8> <k> <n> <L> <hex sources '.' separated>  -> repair symbols *)
let do_rsenc args =
  match args with
  | [m; k; n; l; src] ->
    let s = List.map bytes_of_hex (String.split_on_char '.' src) in
    let rep = rs_repairs (m = "8") (nat_of_int (int_of_string k)) (nat_of_int (int_of_string n)) (nat_of_int (int_of_string l)) s in
    "R " ^ String.concat "." (List.map hex_of_bytes rep)
  | _ -> "R BADREQ"

(* ---- stream ev:  Z <k> <r> <L> <lastnull> <rows> <vals> <finish 0|1> <perm or -> <esi> ...  -> callback log (matrix columns) *)
let do_ev args =
  match args with
  | k :: r :: l :: ln :: rows :: vals :: fin :: perm :: esis ->
    let k = int_of_string k and r = int_of_string r and l = int_of_string l in
    let h = parse_rows rows in
    let v = List.map bytes_of_hex (String.split_on_char '.' vals) in
    let pm = if perm = "-" then [] else List.map (fun x -> nat_of_int (int_of_string x)) (String.split_on_char ',' perm) in
    (match ev_session (nat_of_int k) (nat_of_int r) (nat_of_int l) h (ln = "1") v
             (List.map (fun e -> nat_of_int (int_of_string e)) esis) (fin = "1") pm with
     | None -> "R OUT-OF-FUEL"
     | Some ev -> "R " ^ String.concat "," (List.map (fun c -> let c = int_of_nat c in if c >= r then Printf.sprintf "s%d" (c - r) else Printf.sprintf "r%d" (c + k)) ev))
  | _ -> "R BADREQ"

(* ---- stream heap:  X <k> <r> <nblk> <lastnull> <rows> <cbmode> <api> <finish 0|1> <perm or -> <esi> ...
   -> HL<setup>;<after each call>;<after finish or ->;<left after release>=<library blocks in source entries> *)
let do_heap args =
  match args with
  | k :: r :: nblk :: ln :: rows :: cbm :: api :: fin :: perm :: esis ->
    let nat s = nat_of_int (int_of_string s) in
    let h = parse_rows rows in
    let pm = if perm = "-" then [] else List.map nat (String.split_on_char ',' perm) in
    (match heap_session (nat k) (nat r) (nat nblk) h (ln = "1") (nat cbm) (api = "1") (List.map nat esis) (fin = "1") pm with
     | None -> "R STUCK-AT-SETUP"
     | Some o ->
       let calls = String.concat "," (List.map (fun x -> match x with None -> "STUCK" | Some v -> string_of_int (int_of_nat v)) o.ho_calls) in
       let f = match o.ho_finish with None -> "-" | Some None -> "STUCK" | Some (Some (v, _)) -> string_of_int (int_of_nat v) in
       let l = match o.ho_left with None -> "STUCK" | Some (a, b) -> Printf.sprintf "%d=%d" (int_of_nat a) (int_of_nat b) in
       let ow = String.concat "" (List.map (fun x -> match x with None -> "." | Some App -> "A" | Some (Lib _) -> "L") o.ho_own) in
       Printf.sprintf "R HL%d;%s;%s;%s;%s" (int_of_nat o.ho_setup) calls f l ow)
  | _ -> "R BADREQ"

(* ---- stream rsheap:  E <gf8 0|1> <k> <n> <cbmode> <api> <built 0|1> <finish 0|1> <esi> ...  -> same format as stream heap *)
let do_rsheap args =
  match args with
  | gf8 :: k :: n :: cbm :: api :: built :: fin :: esis ->
    let nat s = nat_of_int (int_of_string s) in
    let o = rs_heap_session (gf8 = "1") (nat k) (nat n) (nat cbm) (api = "1") (built = "1") (List.map nat esis) (fin = "1") in
    let calls = String.concat "," (List.map (fun x -> match x with None -> "STUCK" | Some v -> string_of_int (int_of_nat v)) o.rh_calls) in
    let f = match o.rh_finish with None -> "-" | Some None -> "STUCK" | Some (Some v) -> string_of_int (int_of_nat v) in
    let l = match o.rh_left with None -> "STUCK" | Some (a, b) -> Printf.sprintf "%d=%d" (int_of_nat a) (int_of_nat b) in
    Printf.sprintf "R HL%d;%s;%s;%s" (int_of_nat o.rh_setup) calls f l
  | _ -> "R BADREQ"

(* ---- stream bem:  Y <m 4|8> <k> <n>  -> the generator matrix as the model of the C's construction builds it *)
let do_bem args =
  match args with
  | [m; k; n] ->
    let k = nat_of_int (int_of_string k) and n = nat_of_int (int_of_string n) in
    let mat = if m = "8" then build_enc256 k n else build_enc16 k n in
    "R " ^ String.concat "" (List.map hex_of_bytes mat)
  | _ -> "R BADREQ"

(* ---- stream gj:  W <field 8|4> <k> <hex matrix>  -> 0 <hex inverse> | 1 *)
let do_gj args =
  match args with
  | [f; k; hx] ->
    let k = int_of_string k in
    let b = Array.of_list (bytes_of_hex hx) in
    let rows = List.init k (fun i -> List.init k (fun j -> b.(i * k + j))) in
    let res = if f = "8" then invert_mat256 (nat_of_int k) rows else invert_mat16 (nat_of_int k) rows in
    (match res with
     | None -> "R 1 "
     | Some m -> "R 0 " ^ String.concat "" (List.map (fun r -> if r = [] then "" else hex_of_bytes r) m))
  | [f; k] -> (* k = 0: empty matrix *)
    (match (if f = "8" then invert_mat256 (nat_of_int 0) [] else invert_mat16 (nat_of_int 0) []) with None -> "R 1 " | Some _ -> "R 0 ")
  | _ -> "R BADREQ"

(* ---- stream sparse:  M <nr> <nc> <op> ...  (grammar: see harness/drv_sparse.c) *)
let nats_dot s = if s = "" || s = "-" then [] else List.map (fun x -> nat_of_int (int_of_string x)) (String.split_on_char '.' s)
let junk_of s = if s = "" || s = "-" then [] else
  List.map (fun p -> match String.split_on_char '.' p with [a; b] -> (nat_of_int (int_of_string a), nat_of_int (int_of_string b)) | _ -> failwith "junk")
    (String.split_on_char ':' s)
let show_lists ls = String.concat ";" (List.map (fun l -> String.concat "." (List.map (fun x -> string_of_int (int_of_nat x)) l)) ls)
let do_sparse args =
  match args with
  | nr :: nc :: ops ->
    let m = ref (s_allocate (nat_of_int (int_of_string nr)) (nat_of_int (int_of_string nc))) in
    let nat s = nat_of_int (int_of_string s) in
    let toks = List.map (fun o ->
      let a = Array.of_list (String.split_on_char ',' o) in
      let op = match a.(0) with
        | "i" -> OInsert (nat a.(1), nat a.(2)) | "f" -> OFind (nat a.(1), nat a.(2)) | "d" -> ODelete (nat a.(1), nat a.(2))
        | "c" -> OClear | "y" -> OCopy (nat a.(1), nat a.(2), junk_of a.(3))
        | "R" -> OCopyRows (nats_dot a.(1), junk_of a.(2)) | "C" -> OCopyCols (nats_dot a.(1), junk_of a.(2))
        | "r" -> OCopyRowsOpt (nats_dot a.(1), junk_of a.(2)) | "k" -> OCopyColsOpt (nats_dot a.(1), junk_of a.(2))
        | "F" -> OCopyFilled (nats_dot a.(1), nats_dot a.(2), nat a.(3), nat a.(4))
        | "D" -> ODenseRoundTrip | "e" -> OEmptyRow (nat a.(1)) | "E" -> OEmptyCol (nat a.(1)) | "w" -> OWeightRow (nat a.(1))
        | _ -> failwith "op" in
      let (m', res) = sparse_step !m op in
      m := m';
      Printf.sprintf "%d=%s|%s|b%df%d" (int_of_nat res) (show_lists m'.rws0) (show_lists m'.cls) (int_of_nat m'.nblocks) (int_of_nat m'.nfree)) ops in
    "R " ^ String.concat " " toks
  | _ -> "R BADREQ"

(* ---- stream sparseid:  S <nr> <nc> <op> ...  (same ops as stream sparse; names of the entries and of the free list after every op;
   after an op the identity model does not cover (r, k, D) the rest of the line answers '-') *)
let do_sparseid args =
  match args with
  | nr :: nc :: ops ->
    let nat s = nat_of_int (int_of_string s) in
    let m = ref (i_allocate (nat nr) (nat nc)) in
    let valid = ref true in
    let show l = String.concat "" (List.map (fun (b, i) -> Printf.sprintf "%d:%d," (int_of_nat b) (int_of_nat i)) l) in
    let rec take n l = if n = 0 then [] else match l with [] -> [] | x :: t -> x :: take (n - 1) t in
    let toks = List.map (fun o ->
      let a = Array.of_list (String.split_on_char ',' o) in
      let op = match a.(0) with
        | "i" -> Some (IInsert (nat a.(1), nat a.(2))) | "d" -> Some (IDelete (nat a.(1), nat a.(2))) | "c" -> Some IClear
        | "y" -> Some (ICopy (nat a.(1), nat a.(2), junk_of a.(3)))
        | "R" -> Some (ICopyRows (nats_dot a.(1), junk_of a.(2))) | "C" -> Some (ICopyCols (nats_dot a.(1), junk_of a.(2)))
        | "F" -> Some (ICopyFilled (nats_dot a.(1), nats_dot a.(2), nat a.(3), nat a.(4)))
        | "f" | "e" | "E" | "w" -> Some INop
        | _ -> None in
      (match op with None -> valid := false | Some op -> if !valid then m := i_step !m op);
      if not !valid then "-" else
        let (names, fl) = i_dump !m in
        let more = List.length fl > 40 in
        show names ^ "|" ^ show (take 40 fl) ^ (if more then "+" else "")) ops in
    "R " ^ String.concat " " toks
  | _ -> "R BADREQ"

(* ---- stream rs:  R <k> <n> <cb 0/1> <api 0/1> <finish 0/1> <esi> ...  (RS API model) *)
let tabmask t = String.concat "" (List.map (fun x -> match x with Some _ -> "1" | None -> "0") t)
let tabletters t = String.concat "" (List.map (fun x -> match x with Some true -> "R" | Some false -> "D" | None -> ".") t)
let do_rs args =
  match args with
  | k :: n :: cb :: api :: fin :: esis ->
    let ((obs, f), evs) = rs_session (nat_of_int (int_of_string k)) (nat_of_int (int_of_string n)) (cb = "1") (api = "1") (fin = "1")
        (List.map (fun e -> nat_of_int (int_of_string e)) esis) in
    let show c o = Printf.sprintf "%c%d%d:%s" c (int_of_nat o.ro_status) (if o.ro_complete then 1 else 0) (tabmask o.ro_tab) in
    let last = ref None in
    let toks = List.map (fun o -> last := Some o; show 'S' o) obs in
    let toks = match f with None -> toks | Some o -> last := Some o; toks @ [show 'F' o] in
    let e = match !last with None -> "E" ^ String.make (int_of_string k) '.' | Some o -> "E" ^ tabletters o.ro_tab in
    (* internal state after every call, same text as rs_state() of harness/drv_dec.c *)
    let stxt o = let s = o.ro_state in
      Printf.sprintf "a%ds%df%dm%s" (int_of_nat s.navail) (int_of_nat s.navail_src) (if s.fin then 1 else 0)
        (String.concat "" (List.map (fun x -> match x with Some _ -> "1" | None -> "0") s.tab0)) in
    let dg = "D" ^ String.concat "." (List.map stxt (obs @ (match f with None -> [] | Some o -> [o]))) in
    String.concat " " (toks @ [e; "CB" ^ String.concat "," (List.map (fun x -> string_of_int (int_of_nat x)) evs); dg])
  | _ -> "BADREQ"

(* ---- stream pchk:  Q <k> <r> <N1> <seed> <g0> <fuel> *)
let do_pchk args =
  match args with
  | [k; r; n1; seed; g0; fuel] ->
    (match pchk (nat_of_int (int_of_string fuel)) (nat_of_int (int_of_string k)) (nat_of_int (int_of_string r)) (nat_of_int (int_of_string n1))
             (z_of_string seed) (z_of_string g0) with
     | None -> "R NONE"
     | Some ((m, extra), g) ->
       Printf.sprintf "R H%d,%d:%s X%d G%s" (int_of_nat m.nr) (int_of_nat m.nc)
         (String.concat "/" (List.map (fun l -> String.concat "," (List.map (fun x -> string_of_int (int_of_nat x)) l)) m.rws0))
         (if extra then 1 else 0) (string_of_z g))
  | _ -> "R BADREQ"

(* ---- stream params:  V <codec> <k> <r> <L> <p1> <p2>  -> 1 accepted / 0 rejected *)
let do_params args =
  match List.map z_of_string args with
  | [codec; k; r; l; p1; p2] ->
    let b = (match int_of_z codec with
      | 1 -> accept_rs28 k r l | 2 -> accept_rs2m p1 k r l | _ -> accept_ldpc k r l p1 p2) in
    if b then "1" else "0"
  | _ -> "BADREQ"

(* ---- stream dense:  N <r> <c> <op> ...   /  stream solve:  L <p> <q> <L> <rows> <rhs> *)
let rec n_to_int n = int_of_n n
let hexword w = Printf.sprintf "%x" (int_of_n w)
let do_dense args =
  match args with
  | nr :: nc :: ops ->
    let m = ref (d_allocate (nat_of_int (int_of_string nr)) (nat_of_int (int_of_string nc))) in
    let nat s = nat_of_int (int_of_string s) in
    let toks = List.map (fun o ->
      let a = Array.of_list (String.split_on_char ',' o) in
      let op = match a.(0) with
        | "s" -> DSet (nat a.(1), nat a.(2), a.(3) <> "0") | "g" -> DGet (nat a.(1), nat a.(2)) | "f" -> DFlip (nat a.(1), nat a.(2))
        | "c" -> DClear | "y" -> DCopy (nat a.(1), nat a.(2), junk_of a.(3))
        | "R" -> DCopyRows (nats_dot a.(1), junk_of a.(2)) | "C" -> DCopyCols (nats_dot a.(1), junk_of a.(2))
        | "x" -> DXorRows (nat a.(1), nat a.(2)) | "w" -> DRowWeight (nat a.(1)) | "W" -> DColWeight (nat a.(1)) | "e" -> DRowEmpty (nat a.(1)) | "I" -> DRowWeightIF (nat a.(1), nat a.(2)) | "p" -> DSwapPtr (nat a.(1), nat a.(2))
        | _ -> failwith "op" in
      let (m', res) = dense_step !m op in
      m := m';
      Printf.sprintf "%d=%s" (int_of_nat res) (String.concat ";" (List.map (fun row -> String.concat "." (List.map hexword row)) m'.drows))) ops in
    "R " ^ String.concat " " toks
  | _ -> "R BADREQ"
let do_solve args =
  match args with
  | [p; q; l; rows; rhs] ->
    let a = List.map (fun r -> List.init (String.length r) (fun i -> r.[i] = '1')) (String.split_on_char ';' rows) in
    let b = List.map (fun s -> if s = "N" then None else Some (bytes_of_hex s)) (String.split_on_char ';' rhs) in
    (match solve_bytes (nat_of_int (int_of_string p)) (nat_of_int (int_of_string q)) (nat_of_int (int_of_string l)) a b with
     | None -> "R S1"
     | Some x -> "R S0 " ^ String.concat ";" (List.map hex_of_bytes x))
  | _ -> "R BADREQ"

let () =
  try
    while true do
      let line = input_line stdin in
      match words line with
      | [] -> ()
      | "P" :: args -> print_endline (do_prng args)
      | "B" :: args -> print_endline (do_blk args)
      | "K" :: args -> print_endline (do_kern args)
      | "I" :: args -> print_endline (do_it args)
      | "M" :: args -> print_endline (do_sparse args)
      | "R" :: args -> print_endline (do_rs args)
      | "Q" :: args -> print_endline (do_pchk args)
      | "V" :: args -> print_endline (do_params args)
      | "N" :: args -> print_endline (do_dense args)
      | "L" :: args -> print_endline (do_solve args)
      | "J" :: args -> print_endline (do_ml args)
      | "T" :: args -> print_endline (do_p2d args)
      | "G" :: args -> print_endline (do_rsenc args)
      | "W" :: args -> print_endline (do_gj args)
      | "Z" :: args -> print_endline (do_ev args)
      | "Y" :: args -> print_endline (do_bem args)
      | "A" :: args -> print_endline (do_api args)
      | "X" :: args -> print_endline (do_heap args)
      | "E" :: args -> print_endline (do_rsheap args)
      | "S" :: args -> print_endline (do_sparseid args)
      | "U" :: size :: ws -> print_endline (match hweight_array_run (List.map z_of_string ws) (z_of_string size) with Some z -> "R " ^ string_of_z z | None -> "R UB")
      | _ -> print_endline "BADREQ"
    done
  with End_of_file -> ()
