(* Model M of of_fill_2D_pchk_matrix / of_create_2D_pchk_matrix (of_create_pchk.c) on top of the
   sparse-matrix model (Sparse.v), and the structure of the resulting parity-check matrix:
   closed form of the rows, the hypotheses the decoder theorems need (length, NoDup, range, degree),
   the staircase shape the encoder theorem needs, and recovery of any single loss by peeling. *)
From Coq Require Import Arith List Bool Lia.
From OFV Require Import ListAux Sparse SparseProofs Pchk.
From OFV Require LdpcEnc ITProofs.
Import ListNotations.

(* ---------- the model ---------- *)

(* of_fill_2D_pchk_matrix (m, d, l) on the freshly allocated matrix; the three loops in the C's order *)
Definition fill2d (d l : nat) : smat :=
  let m0 := s_allocate (d + l) (d * l + d + l) in
  let m1 := fold_left (fun m i => ins m i i) (seq 0 (l + d)) m0 in
  let m2 := fold_left (fun m i => fold_left (fun m' j => ins m' i (j + i * l + l + d)) (seq 0 l) m)
                      (seq 0 d) m1 in
  fold_left (fun m i => fold_left (fun m' j => ins m' i (l * j + (i - d) + l + d)) (seq 0 d) m)
            (seq d l) m2.

Definition rows2d (d l : nat) : list (list nat) := rws (fill2d d l).

(* for (d = floor(sqrt(nb_cols)); d > 0; d--) { l = (nb_cols-nb_rows)/d; if (l integer && d+l == nb_rows) ... } *)
Fixpoint search2d (r n d : nat) : option (nat * nat) :=
  match d with
  | O => None
  | S d' => if ((n - r) mod d =? 0) && (d + (n - r) / d =? r) then Some (d, (n - r) / d)
            else search2d r n d'
  end.

(* of_create_2D_pchk_matrix: the call is of_fill_2D_pchk_matrix (m, l, d): the d found by the search
   becomes the parameter l of the fill function and vice versa.  The pair returned is the (d, l)
   passed to fill. *)
Definition create2d (nb_rows nb_cols : nat) : option (nat * nat * smat) :=
  if nb_cols <=? nb_rows then None else
  match search2d nb_rows nb_cols (Nat.sqrt nb_cols) with
  | None => None
  | Some (df, lf) => Some (lf, df, fill2d lf df)
  end.

(* ---------- fill2d as a bulk insertion ---------- *)

Definition ents2d (d l : nat) : list (nat * nat) :=
  map (fun i => (i, i)) (seq 0 (l + d)) ++
  flat_map (fun i => map (fun j => (i, j + i * l + l + d)) (seq 0 l)) (seq 0 d) ++
  flat_map (fun i => map (fun j => (i, l * j + (i - d) + l + d)) (seq 0 d)) (seq d l).

Lemma fold_left_ext2 {A B} (f g : A -> B -> A) : (forall a b, f a b = g a b) ->
  forall xs a, fold_left f xs a = fold_left g xs a.
Proof.
  intros Hfg xs. induction xs as [|x xs IH]; intros a; cbn [fold_left]; [reflexivity|].
  rewrite Hfg. apply IH.
Qed.

Lemma ia_app r es1 es2 : insert_all r (es1 ++ es2) = insert_all (insert_all r es1) es2.
Proof. unfold insert_all. apply fold_left_app. Qed.

Lemma ia_map {X} (g1 g2 : X -> nat) : forall xs r,
  insert_all r (map (fun x => (g1 x, g2 x)) xs) = fold_left (fun m x => ins m (g1 x) (g2 x)) xs r.
Proof.
  induction xs as [|x xs IH]; intros r; [reflexivity|].
  cbn [map fold_left]. rewrite <- IH. reflexivity.
Qed.

Lemma ia_flat_map {X} (g : X -> list (nat * nat)) : forall xs r,
  insert_all r (flat_map g xs) = fold_left (fun m x => insert_all m (g x)) xs r.
Proof.
  induction xs as [|x xs IH]; intros r; [reflexivity|].
  cbn [flat_map fold_left]. rewrite ia_app. apply IH.
Qed.

Lemma fill2d_insert_all d l :
  fill2d d l = insert_all (s_allocate (d + l) (d * l + d + l)) (ents2d d l).
Proof.
  unfold fill2d, ents2d. rewrite !ia_app.
  rewrite (ia_map (fun i => i) (fun i => i)).
  rewrite !ia_flat_map.
  symmetry.
  rewrite (fold_left_ext2
    (fun m i => insert_all m (map (fun j => (i, l * j + (i - d) + l + d)) (seq 0 d)))
    (fun m i => fold_left (fun m' j => ins m' i (l * j + (i - d) + l + d)) (seq 0 d) m)).
  2:{ intros m i. apply (ia_map (fun _ => i) (fun j => l * j + (i - d) + l + d)). }
  f_equal.
  apply fold_left_ext2. intros m i. apply (ia_map (fun _ => i) (fun j => j + i * l + l + d)).
Qed.

(* ---------- arithmetic helpers ---------- *)

Lemma cell_lt d l a b : a < d -> b < l -> a * l + b < d * l.
Proof.
  intros Ha Hb. assert (H : S a * l <= d * l) by (apply Nat.mul_le_mono_r; lia).
  cbn [Nat.mul] in H. lia.
Qed.

Lemma cell_unique l a b a' b' : b < l -> b' < l -> a * l + b = a' * l + b' -> a = a' /\ b = b'.
Proof.
  intros Hb Hb' E. apply (Nat.div_mod_unique l a a' b b' Hb Hb'). lia.
Qed.

(* ---------- the entries ---------- *)

Lemma ents2d_in d l i j : In (i, j) (ents2d d l) <->
  (i < d + l /\ j = i) \/
  (i < d /\ exists b, b < l /\ j = d + l + i * l + b) \/
  (d <= i < d + l /\ exists a, a < d /\ j = d + l + l * a + (i - d)).
Proof.
  unfold ents2d. rewrite !in_app_iff, in_map_iff, !in_flat_map. split.
  - intros [(x & E & Hx)|[(x & Hx & Hin)|(x & Hx & Hin)]].
    + apply in_seq in Hx. inversion E; subst. left. lia.
    + apply in_seq in Hx. apply in_map_iff in Hin as (b & E & Hb). apply in_seq in Hb.
      inversion E; subst. right. left. split; [lia|]. exists b. lia.
    + apply in_seq in Hx. apply in_map_iff in Hin as (a & E & Ha). apply in_seq in Ha.
      inversion E; subst. right. right. split; [lia|]. exists a. lia.
  - intros [(Hi & ->)|[(Hi & b & Hb & ->)|(Hi & a & Ha & ->)]].
    + left. exists i. split; [reflexivity|apply in_seq; lia].
    + right. left. exists i. split; [apply in_seq; lia|]. apply in_map_iff. exists b.
      split; [f_equal; lia|apply in_seq; lia].
    + right. right. exists i. split; [apply in_seq; lia|]. apply in_map_iff. exists a.
      split; [f_equal; lia|apply in_seq; lia].
Qed.

Lemma ents2d_range d l e : In e (ents2d d l) -> fst e < d + l /\ snd e < d * l + d + l.
Proof.
  destruct e as [i j]. intros Hin. apply ents2d_in in Hin. cbn [fst snd].
  destruct Hin as [(Hi & ->)|[(Hi & b & Hb & ->)|(Hi & a & Ha & ->)]].
  - lia.
  - pose proof (cell_lt d l i b Hi Hb). lia.
  - pose proof (cell_lt d l a (i - d) Ha ltac:(lia)). lia.
Qed.

Theorem fill2d_spec d l :
  WF (fill2d d l) /\ nr (fill2d d l) = d + l /\ nc (fill2d d l) = d * l + d + l /\
  forall i j, has (fill2d d l) i j = true <-> In (i, j) (ents2d d l).
Proof.
  rewrite fill2d_insert_all.
  destruct (allocate_wf (d + l) (d * l + d + l)) as (W0 & H0).
  destruct (insert_all_spec (ents2d d l) _ W0) as (W & Er & Ec & Hh).
  { intros e He. cbn [s_allocate nr nc]. apply ents2d_range. exact He. }
  split; [exact W|]. split; [exact Er|]. split; [exact Ec|].
  intros i j. rewrite Hh, H0. cbn [orb]. apply existsb_pair.
Qed.

Lemma rows2d_in d l i j : i < d + l -> (In j (nth i (rows2d d l) []) <-> In (i, j) (ents2d d l)).
Proof.
  intros Hi. destruct (fill2d_spec d l) as (_ & _ & _ & Hh). rewrite <- Hh.
  unfold has, rows2d. symmetry. apply mem_In.
Qed.

Lemma rows2d_ssorted d l i : i < d + l -> ssorted (nth i (rows2d d l) []).
Proof.
  intros Hi. destruct (fill2d_spec d l) as (W & Er & _ & _).
  apply (wf_rs _ W i). rewrite Er. exact Hi.
Qed.

(* ---------- closed form of the rows ---------- *)

Lemma ssorted_ext : forall a b, ssorted a -> ssorted b -> (forall x, In x a <-> In x b) -> a = b.
Proof.
  induction a as [|x a IH]; intros [|y b] Ha Hb Hiff.
  - reflexivity.
  - exfalso. apply (Hiff y). now left.
  - exfalso. apply (Hiff x). now left.
  - destruct Ha as (Hx & Ha). destruct Hb as (Hy & Hb).
    assert (E : x = y).
    { destruct (proj1 (Hiff x) (or_introl eq_refl)) as [E|Hxb]; [now symmetry|].
      destruct (proj2 (Hiff y) (or_introl eq_refl)) as [E|Hya]; [exact E|].
      specialize (Hx y Hya). specialize (Hy x Hxb). lia. }
    subst y. f_equal. apply IH; auto. intros z. split; intros Hz.
    + destruct (proj1 (Hiff z) (or_intror Hz)) as [E|Hzb]; [|exact Hzb].
      specialize (Hx z Hz). lia.
    + destruct (proj2 (Hiff z) (or_intror Hz)) as [E|Hza]; [|exact Hza].
      specialize (Hy z Hz). lia.
Qed.

Lemma ssorted_map_seq (f : nat -> nat) : (forall j k, j < k -> f j < f k) ->
  forall n a, ssorted (map f (seq a n)).
Proof.
  intros Hf. induction n as [|n IH]; intros a; cbn [seq map ssorted]; [exact I|].
  split; [|apply IH]. intros y Hy. apply in_map_iff in Hy as (k & <- & Hk). apply in_seq in Hk.
  apply Hf. lia.
Qed.

Lemma ssorted_NoDup : forall l, ssorted l -> NoDup l.
Proof.
  induction l as [|x l IH]; intros Hs; [constructor|]. destruct Hs as (Hx & Hs).
  constructor; [|apply IH; exact Hs]. intros Hin. specialize (Hx x Hin). lia.
Qed.

Definition row2d (d l i : nat) : list nat :=
  if i <? d then i :: map (fun j => d + l + i * l + j) (seq 0 l)
  else i :: map (fun j => d + l + l * j + (i - d)) (seq 0 d).

(* the row lists are kept in increasing column order: own repair symbol first, then the sources *)
Theorem rows2d_row_checks d l i : i < d ->
  nth i (rows2d d l) [] = i :: map (fun j => d + l + i * l + j) (seq 0 l).
Proof.
  intros Hi. apply ssorted_ext.
  - apply rows2d_ssorted. lia.
  - cbn [ssorted]. split.
    + intros y Hy. apply in_map_iff in Hy as (k & <- & _). lia.
    + apply ssorted_map_seq. intros j k Hjk. lia.
  - intros x. rewrite rows2d_in by lia. rewrite ents2d_in. cbn [In]. rewrite in_map_iff. split.
    + intros [(_ & ->)|[(_ & b & Hb & ->)|(Hc & _)]]; [now left| |lia].
      right. exists b. split; [reflexivity|apply in_seq; lia].
    + intros [<-|(b & <- & Hb)]; [left; lia|]. apply in_seq in Hb.
      right. left. split; [exact Hi|]. exists b. lia.
Qed.

Theorem rows2d_col_checks d l i : d <= i < d + l ->
  nth i (rows2d d l) [] = i :: map (fun j => d + l + l * j + (i - d)) (seq 0 d).
Proof.
  intros Hi. apply ssorted_ext.
  - apply rows2d_ssorted. lia.
  - cbn [ssorted]. split.
    + intros y Hy. apply in_map_iff in Hy as (k & <- & _). lia.
    + apply ssorted_map_seq. intros j k Hjk.
      assert (H : l * S j <= l * k) by (apply Nat.mul_le_mono_l; lia).
      rewrite Nat.mul_succ_r in H. lia.
  - intros x. rewrite rows2d_in by lia. rewrite ents2d_in. cbn [In]. rewrite in_map_iff. split.
    + intros [(_ & ->)|[(Hc & _)|(_ & a & Ha & ->)]]; [now left|lia|].
      right. exists a. split; [reflexivity|apply in_seq; lia].
    + intros [<-|(a & <- & Ha)]; [left; lia|]. apply in_seq in Ha.
      right. right. split; [exact Hi|]. exists a. lia.
Qed.

Corollary rows2d_nth d l i : i < d + l -> nth i (rows2d d l) [] = row2d d l i.
Proof.
  intros Hi. unfold row2d. destruct (Nat.ltb_spec i d) as [Hlt|Hge].
  - apply rows2d_row_checks. exact Hlt.
  - apply rows2d_col_checks. lia.
Qed.

(* ---------- structure theorems ---------- *)
Section S.
Variables d l : nat.
Hypothesis d_pos : 1 <= d.
Hypothesis l_pos : 1 <= l.
Let H := rows2d d l.
Let R := d + l.
Let N := d * l + d + l.

Theorem p2d_len : length H = R.
Proof.
  destruct (fill2d_spec d l) as (W & Er & _ & _). unfold H, rows2d, R.
  rewrite (SparseProofs.wf_rl _ W). exact Er.
Qed.

Theorem p2d_nodup : forall i, i < R -> NoDup (nth i H []).
Proof. intros i Hi. apply ssorted_NoDup. apply rows2d_ssorted. exact Hi. Qed.

Theorem p2d_range : forall i c, i < R -> In c (nth i H []) -> c < N.
Proof.
  intros i c Hi Hin. apply rows2d_in in Hin; [|exact Hi].
  apply ents2d_range in Hin. exact (proj2 Hin).
Qed.

Theorem p2d_deg : forall i, i < R -> 2 <= length (nth i H []).
Proof.
  intros i Hi. unfold H. rewrite rows2d_nth by exact Hi. unfold row2d.
  destruct (i <? d); cbn [length]; rewrite map_length, seq_length; lia.
Qed.

Theorem p2d_R_le_N : R <= N.
Proof. unfold R, N. lia. Qed.

(* each check has its own repair symbol and no other *)
Theorem p2d_own_repair : forall i c, i < R -> c < R -> (In c (nth i H []) <-> c = i).
Proof.
  intros i c Hi Hc. unfold H. rewrite rows2d_in by exact Hi. rewrite ents2d_in. unfold R in *. split.
  - intros [(_ & E)|[(_ & b & _ & E)|(_ & a & _ & E)]]; [exact E|lia|lia].
  - intros ->. left. split; [exact Hi|reflexivity].
Qed.

(* each source symbol is in exactly one row check and one column check *)
Theorem p2d_source_checks : forall a b, a < d -> b < l -> forall i, i < R ->
  (In (R + a * l + b) (nth i H []) <-> i = a \/ i = d + b).
Proof.
  intros a b Ha Hb i Hi. unfold H. rewrite rows2d_in by exact Hi. rewrite ents2d_in. unfold R in *. split.
  - intros [(Hlt & E)|[(Hlt & b' & Hb' & E)|(Hr & a' & Ha' & E)]].
    + lia.
    + left. destruct (cell_unique l a b i b' Hb Hb' ltac:(lia)) as (E1 & _). now symmetry.
    + right. destruct (cell_unique l a b a' (i - d) Hb ltac:(lia) ltac:(lia)) as (_ & E2). lia.
  - intros [->| ->].
    + right. left. split; [exact Ha|]. exists b. split; [exact Hb|lia].
    + right. right. split; [lia|]. exists a. split; [exact Ha|]. lia.
Qed.

Theorem p2d_stair : LdpcEnc.stair R H.
Proof.
  split; [exact p2d_len|]. intros c Hc. split; [apply p2d_nodup; exact Hc|]. split.
  - apply p2d_own_repair; auto.
  - intros x Hx Hne. destruct (Nat.lt_ge_cases x R) as [Hlt|Hge]; [|left; exact Hge].
    exfalso. apply Hne. apply (p2d_own_repair c x Hc Hlt). exact Hx.
Qed.

(* every symbol is in some check *)
Lemma p2d_covered : forall e, e < N -> exists i, i < R /\ In e (nth i H []).
Proof.
  intros e He. destruct (Nat.lt_ge_cases e R) as [Hlt|Hge].
  - exists e. split; [exact Hlt|]. apply p2d_own_repair; auto.
  - set (q := (e - R) / l). set (b := (e - R) mod l).
    assert (Hl : l <> 0) by lia.
    assert (Ediv : e - R = l * q + b) by (apply Nat.div_mod; exact Hl).
    assert (Hb : b < l) by (apply Nat.mod_upper_bound; exact Hl).
    assert (Hq : q < d).
    { destruct (Nat.lt_ge_cases q d) as [Hq|Hq]; [exact Hq|exfalso].
      assert (Hm : l * d <= l * q) by (apply Nat.mul_le_mono_l; exact Hq).
      unfold N, R in *. lia. }
    exists q. split; [unfold R; lia|].
    replace e with (R + q * l + b) by lia.
    apply p2d_source_checks; auto. unfold R; lia.
Qed.

(* single-loss recovery: whatever symbol e is lost, peeling recovers everything *)
Theorem p2d_single_loss : forall e, e < N ->
  forall c, c < N -> ITProofs.peel H R (fun c' => c' < N /\ c' <> e) c.
Proof.
  intros e He c Hc. destruct (Nat.eq_dec c e) as [->|Hne].
  - destruct (p2d_covered e He) as (i & Hi & Hin).
    apply (ITProofs.peel_row H R _ i e Hi Hin). intros c' Hc' Hne'.
    apply ITProofs.peel_recv. split; [apply (p2d_range i c' Hi Hc')|exact Hne'].
  - apply ITProofs.peel_recv. split; assumption.
Qed.

End S.

(* ---------- create2d ---------- *)

Lemma search2d_spec r n : forall d0 df lf, search2d r n d0 = Some (df, lf) ->
  1 <= df <= d0 /\ n - r = df * lf /\ df + lf = r.
Proof.
  induction d0 as [|d0 IH]; intros df lf Hs; cbn [search2d] in Hs; [discriminate|].
  destruct (((n - r) mod S d0 =? 0) && (S d0 + (n - r) / S d0 =? r)) eqn:E.
  - inversion Hs; subst. apply andb_true_iff in E as (E1 & E2).
    apply Nat.eqb_eq in E1. apply Nat.eqb_eq in E2.
    split; [lia|]. split; [|exact E2].
    apply Nat.div_exact; [discriminate|exact E1].
  - destruct (IH df lf Hs) as (A & B & C). split; [lia|]. split; assumption.
Qed.

Theorem create2d_spec r n d l m : create2d r n = Some (d, l, m) ->
  m = fill2d d l /\ d + l = r /\ d * l + d + l = n /\ 1 <= d /\ 1 <= l.
Proof.
  unfold create2d. destruct (Nat.leb_spec n r) as [Hle|Hlt]; [discriminate|].
  destruct (search2d r n (Nat.sqrt n)) as [[df lf]|] eqn:Es; [|discriminate].
  intros E. inversion E; subst. apply search2d_spec in Es as (A & B & C).
  split; [reflexivity|]. split; [lia|].
  assert (Hd : 1 <= d).
  { destruct d as [|d']; [|lia]. rewrite Nat.mul_0_r in B. lia. }
  split; [|split; [exact Hd|lia]].
  rewrite (Nat.mul_comm d l). lia.
Qed.

Definition shape2d (o : option (nat * nat * smat)) : option (nat * nat * nat * nat * list (list nat)) :=
  match o with None => None | Some (d, l, m) => Some (d, l, nr m, nc m, rws m) end.

(* nb_rows = 8, nb_cols = 24: d = 4, l = 16/4 = 4, 4 + 4 = 8 *)
Example create2d_8_24 : shape2d (create2d 8 24) = Some (4, 4, 8, 24,
  [ [0; 8; 9; 10; 11]; [1; 12; 13; 14; 15]; [2; 16; 17; 18; 19]; [3; 20; 21; 22; 23];
    [4; 8; 12; 16; 20]; [5; 9; 13; 17; 21]; [6; 10; 14; 18; 22]; [7; 11; 15; 19; 23] ]).
Proof. vm_compute. reflexivity. Qed.

(* nb_rows = 6, nb_cols = 15: d = 3, l = 9/3 = 3, 3 + 3 = 6 *)
Example create2d_6_15 : shape2d (create2d 6 15) = Some (3, 3, 6, 15,
  [ [0; 6; 7; 8]; [1; 9; 10; 11]; [2; 12; 13; 14];
    [3; 6; 9; 12]; [4; 7; 10; 13]; [5; 8; 11; 14] ]).
Proof. vm_compute. reflexivity. Qed.

(* nb_rows = 5, nb_cols = 9: d = 3: 4/3 not an integer; d = 2: l = 2, 2 + 2 <> 5; d = 1: l = 4, 1 + 4 = 5;
   the call is fill (m, l = 4, d = 1): four row checks of one source each and one column check *)
Example create2d_5_9 : shape2d (create2d 5 9) = Some (4, 1, 5, 9,
  [ [0; 5]; [1; 6]; [2; 7]; [3; 8]; [4; 5; 6; 7; 8] ]).
Proof. vm_compute. reflexivity. Qed.

(* nothing fits / nb_rows >= nb_cols *)
Example create2d_7_24 : create2d 7 24 = None.
Proof. vm_compute. reflexivity. Qed.
Example create2d_9_9 : create2d 9 9 = None.
Proof. vm_compute. reflexivity. Qed.

Print Assumptions rows2d_row_checks.
Print Assumptions rows2d_col_checks.
Print Assumptions p2d_len.
Print Assumptions p2d_nodup.
Print Assumptions p2d_range.
Print Assumptions p2d_deg.
Print Assumptions p2d_R_le_N.
Print Assumptions p2d_own_repair.
Print Assumptions p2d_source_checks.
Print Assumptions p2d_stair.
Print Assumptions p2d_single_loss.
Print Assumptions create2d_spec.
