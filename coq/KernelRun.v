(* Executable entry point of the kernel models for the correspondence check (stream `kern`). *)
From Coq Require Import NArith ZArith List.
From OFV Require Import GF2Poly RS28Gen RS28GenProofs Kernels.
From OFV.gen Require Import GenTables.
Import ListNotations.
Local Open Scope N_scope.

(* fn: 1 of_add_to_symbol, 2 of_add_from_multiple_symbols, 3 of_add_to_multiple_symbols,
       4 of_addmul1 (GF(2^8) codec, generated table), 5 of_galois_field_2_8_addmul1,
       6 of_galois_field_2_4_addmul1, 7 of_galois_field_2_4_addmul1_compact.
   bufs: for 1, 2, 4..7: destination first, then the operands; for 3: source first, then targets *)
Definition run_kernel (fn size c : N) (bufs : list (list N)) : list (list N) :=
  match bufs with
  | [] => []
  | b0 :: rest =>
    let sz := N.to_nat size in
    match fn with
    | 1 => [add_to_symbol b0 (nth 0 rest []) sz]
    | 2 => [add_from_multiple b0 rest sz]
    | 3 => add_to_multiple rest b0 sz
    | 4 => [addmul1 (get2 rs28_mulm c) b0 (nth 0 rest []) (Z.of_N size)]
    | 5 => [addmul1 (get2 gf28_mul c) b0 (nth 0 rest []) (Z.of_N size)]
    | 6 => [addmul1 (get2 gf24_mul c) b0 (nth 0 rest []) (Z.of_N size)]
    | 7 => [addmul1_compact (get2 gf24_optmul c) b0 (nth 0 rest []) (Z.of_N size)]
    | _ => []
    end
  end.
