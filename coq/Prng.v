(* Spec S for C19: the Park-Miller "minimal standard" generator and RFC 5170's scaling expression. *)
From Coq Require Import ZArith.
From OFV Require Import CSem.
Local Open Scope Z_scope.

Definition PM_P : Z := 2147483647.                       (* 2^31 - 1 *)
Definition pm_next (s : Z) : Z := (16807 * s) mod PM_P.
(* RFC 5170 5.7: (double)s' * (double)maxv / (double)(2^31-1), truncated *)
Definition scale_ref (s' maxv : Z) : option Z :=
  d_to_u64 (d_div (d_mul (d_of_Z s') (d_of_Z maxv)) (d_of_Z 2147483647)).
Fixpoint pm_iter (n : nat) (s : Z) : Z := match n with O => s | S k => pm_iter k (pm_next s) end.
