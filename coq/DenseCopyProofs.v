(* Copy operations of the dense GF(2) matrix model (Dense.v): d_copy, d_copyrows, d_copycols;
   the invariants padzero (clean padding bits) and words32 (32-bit words); completeness of d_row_is_empty.
   Corrections with respect to the first statement of the task:
   - row_is_empty_complete needs words32 (counter-example row_is_empty_complete_needs_words32);
   - padzero (d_copy m r) / (d_copyrows m r rows) need  padzero m \/ dw m < dw r
     (counter-example padzero_copy_needs_condition);
   - get_copyrows needs no hypothesis on length rows (nth defaults to index 0, which the validity hypothesis covers). *)
From Coq Require Import NArith Arith List Bool Lia.
From OFV Require Import ListAux Dense DenseProofs.
Import ListNotations.

(* padding bits (columns dc m .. 32*dw m - 1 of the last word) are zero *)
Definition padzero (m : dmat) : Prop :=
  forall i j, i < dr m -> dc m <= j -> j < 32 * dw m -> d_get m i j = false.

(* every stored word is a 32-bit word *)
Definition words32 (m : dmat) : Prop := forall i k, (word m i k < 2 ^ 32)%N.

(* ---------- arithmetic on nwords ---------- *)
Lemma nwords_mono a b : a <= b -> nwords a <= nwords b.
Proof. intros H. unfold nwords. apply Nat.div_le_mono; lia. Qed.

Lemma nwords_cover c : c <= 32 * nwords c.
Proof.
  unfold nwords. pose proof (Nat.div_mod (c + 31) 32 ltac:(lia)).
  pose proof (Nat.mod_upper_bound (c + 31) 32 ltac:(lia)). lia.
Qed.

Lemma nwords_pred c : 0 < nwords c -> 32 * (nwords c - 1) < c.
Proof.
  unfold nwords. intros H0. pose proof (Nat.div_mod (c + 31) 32 ltac:(lia)).
  pose proof (Nat.mod_upper_bound (c + 31) 32 ltac:(lia)). lia.
Qed.

Lemma div32_ltb j n : (j / 32 <? n) = (j <? 32 * n).
Proof.
  pose proof (Nat.div_mod j 32 ltac:(lia)). pose proof (Nat.mod_upper_bound j 32 ltac:(lia)).
  destruct (Nat.ltb_spec (j / 32) n), (Nat.ltb_spec j (32 * n)); try reflexivity; lia.
Qed.

Lemma div32_add k n : n < 32 -> (32 * k + n) / 32 = k /\ (32 * k + n) mod 32 = n.
Proof.
  intros H. pose proof (Nat.div_mod (32 * k + n) 32 ltac:(lia)).
  pose proof (Nat.mod_upper_bound (32 * k + n) 32 ltac:(lia)). lia.
Qed.

(* ---------- list helpers ---------- *)
Lemma nth_map_seq {A} (f : nat -> A) n i d : i < n -> nth i (map f (seq 0 n)) d = f i.
Proof.
  intros H. rewrite (nth_indep _ d (f 0)) by (rewrite map_length, seq_length; exact H).
  rewrite map_nth. rewrite seq_nth by exact H. reflexivity.
Qed.

Lemma copy_words_length src n len : length src = n -> n <= len -> length (copy_words src n len) = len.
Proof.
  intros Hs Hl. unfold copy_words. rewrite app_length, firstn_length, repeat_length. lia.
Qed.

Lemma nth_copy_words src n len k : length src = n ->
  nth k (copy_words src n len) 0%N = if k <? n then nth k src 0%N else 0%N.
Proof.
  intros Hs. unfold copy_words. rewrite firstn_all2 by lia.
  destruct (Nat.ltb_spec k n) as [Hk|Hk].
  - apply app_nth1. lia.
  - rewrite app_nth2 by lia.
    destruct (Nat.lt_ge_cases (k - length src) (len - n)) as [Hq|Hq].
    + apply nth_repeat. exact Hq.
    + apply nth_overflow. rewrite repeat_length. exact Hq.
Qed.

Lemma word_zero_get w n : w = 0%N -> N.testbit w n = false.
Proof. intros ->. apply N.bits_0. Qed.

Lemma wfd_dw_le m r : WFd m -> WFd r -> dc m <= dc r -> dw m <= dw r.
Proof. intros Wm Wr H. rewrite (wd_words m Wm), (wd_words r Wr). apply nwords_mono. exact H. Qed.

(* ---------- C1: d_copy ---------- *)
Lemma copy_rejected m r : dr r < dr m \/ dc r < dc m -> d_copy m r = r.
Proof.
  intros H. unfold d_copy.
  destruct (Nat.ltb_spec (dr r) (dr m)); [reflexivity|].
  destruct (Nat.ltb_spec (dc r) (dc m)); [reflexivity|]. lia.
Qed.

Lemma copy_accepted m r : dr m <= dr r -> dc m <= dc r ->
  d_copy m r = {| dr := dr r; dc := dc r; dw := dw r;
     drows := map (fun i => if i <? dr m then copy_words (nth i (drows m) []) (dw m) (dw r) else repeat 0%N (dw r)) (seq 0 (dr r)) |}.
Proof.
  intros H1 H2. unfold d_copy.
  destruct (Nat.ltb_spec (dr r) (dr m)); [lia|].
  destruct (Nat.ltb_spec (dc r) (dc m)); [lia|]. reflexivity.
Qed.

Lemma copy_dims m r : dr (d_copy m r) = dr r /\ dc (d_copy m r) = dc r /\ dw (d_copy m r) = dw r.
Proof. unfold d_copy. destruct ((dr r <? dr m) || (dc r <? dc m)); cbn; auto. Qed.

Theorem copy_wfd m r : WFd m -> WFd r -> dr m <= dr r -> dc m <= dc r -> WFd (d_copy m r).
Proof.
  intros Wm Wr H1 H2. pose proof (wfd_dw_le m r Wm Wr H2) as Hw.
  rewrite copy_accepted by assumption. constructor; cbn [dr dc dw drows].
  - rewrite map_length, seq_length. reflexivity.
  - intros i Hi. rewrite nth_map_seq by exact Hi.
    destruct (Nat.ltb_spec i (dr m)) as [Him|Him].
    + apply copy_words_length; [apply (wd_len m Wm i Him)|exact Hw].
    + apply repeat_length.
  - apply (wd_words r Wr).
Qed.

(* the word-level content of the copy *)
Lemma word_copy m r i k : WFd m -> dr m <= dr r -> dc m <= dc r ->
  word (d_copy m r) i k = if (i <? dr m) && (k <? dw m) then word m i k else 0%N.
Proof.
  intros Wm H1 H2. rewrite copy_accepted by assumption. unfold word. cbn [drows].
  destruct (Nat.lt_ge_cases i (dr r)) as [Hi|Hi].
  - rewrite nth_map_seq by exact Hi.
    destruct (Nat.ltb_spec i (dr m)) as [Him|Him]; cbn [andb].
    + apply nth_copy_words. apply (wd_len m Wm i Him).
    + destruct (Nat.lt_ge_cases k (dw r)) as [Hk|Hk].
      * apply nth_repeat. exact Hk.
      * apply nth_overflow. rewrite repeat_length. exact Hk.
  - rewrite (nth_overflow (map _ _)) by (rewrite map_length, seq_length; exact Hi).
    destruct (Nat.ltb_spec i (dr m)) as [Him|Him]; [lia|]. cbn [andb]. destruct k; reflexivity.
Qed.

(* holds for every i j (no range hypothesis needed) *)
Theorem get_copy m r i j : WFd m -> dr m <= dr r -> dc m <= dc r ->
  d_get (d_copy m r) i j = if (i <? dr m) && (j <? 32 * dw m) then d_get m i j else false.
Proof.
  intros Wm H1 H2. unfold d_get at 1. rewrite word_copy by assumption. rewrite div32_ltb.
  destruct ((i <? dr m) && (j <? 32 * dw m)); [reflexivity|apply N.bits_0].
Qed.

Theorem copy_wfd_get m r : WFd m -> WFd r -> dr m <= dr r -> dc m <= dc r ->
  WFd (d_copy m r) /\
  forall i j, i < dr r -> j < dc r ->
    d_get (d_copy m r) i j = if (i <? dr m) && (j <? 32 * dw m) then d_get m i j else false.
Proof.
  intros Wm Wr H1 H2. split; [apply copy_wfd; assumption|].
  intros i j _ _. apply get_copy; assumption.
Qed.

Corollary get_copy_in m r i j : WFd m -> dr m <= dr r -> dc m <= dc r -> i < dr m -> j < dc m ->
  d_get (d_copy m r) i j = d_get m i j.
Proof.
  intros Wm H1 H2 Hi Hj. rewrite get_copy by assumption.
  pose proof (nwords_cover (dc m)) as Hc. rewrite <- (wd_words m Wm) in Hc.
  destruct (Nat.ltb_spec i (dr m)); [|lia]. destruct (Nat.ltb_spec j (32 * dw m)); [|lia]. reflexivity.
Qed.

Corollary get_copy_below m r i j : WFd m -> dr m <= dr r -> dc m <= dc r -> dr m <= i ->
  d_get (d_copy m r) i j = false.
Proof.
  intros Wm H1 H2 Hi. rewrite get_copy by assumption. destruct (Nat.ltb_spec i (dr m)); [lia|reflexivity].
Qed.

Lemma padzero_cut m i j : WFd m -> padzero m -> i < dr m ->
  (if j <? 32 * dw m then d_get m i j else false) = (if j <? dc m then d_get m i j else false).
Proof.
  intros Wm P Hi. pose proof (nwords_cover (dc m)) as Hc. rewrite <- (wd_words m Wm) in Hc.
  destruct (Nat.ltb_spec j (32 * dw m)) as [A|A], (Nat.ltb_spec j (dc m)) as [B|B]; try reflexivity; try lia.
  apply P; assumption.
Qed.

Corollary get_copy_padzero m r i j : WFd m -> padzero m -> dr m <= dr r -> dc m <= dc r ->
  d_get (d_copy m r) i j = if (i <? dr m) && (j <? dc m) then d_get m i j else false.
Proof.
  intros Wm P H1 H2. rewrite get_copy by assumption.
  destruct (Nat.ltb_spec i (dr m)) as [Hi|Hi]; cbn [andb]; [|reflexivity].
  apply padzero_cut; assumption.
Qed.

(* ---------- C2: d_copyrows ---------- *)
Lemma copyrows_rejected m r rows : dc r < dc m -> d_copyrows m r rows = r.
Proof. intros H. unfold d_copyrows. destruct (Nat.ltb_spec (dc r) (dc m)); [reflexivity|lia]. Qed.

Lemma copyrows_accepted m r rows : dc m <= dc r ->
  d_copyrows m r rows = {| dr := dr r; dc := dc r; dw := dw r;
                           drows := copyrows_loop m rows (dr r) 0 (drows (d_clear r)) (dw r) |}.
Proof. intros H. unfold d_copyrows. destruct (Nat.ltb_spec (dc r) (dc m)); [lia|reflexivity]. Qed.

Lemma copyrows_dims m r rows :
  dr (d_copyrows m r rows) = dr r /\ dc (d_copyrows m r rows) = dc r /\ dw (d_copyrows m r rows) = dw r.
Proof. unfold d_copyrows. destruct (dc r <? dc m); cbn; auto. Qed.

(* t = the position where the loop stops: either the end, or the first invalid index *)
Lemma copyrows_loop_spec m rows w : forall n i acc t,
  i + n <= length acc -> i <= t -> t <= i + n ->
  (forall k, i <= k -> k < t -> nth k rows 0 < dr m) ->
  (t = i + n \/ dr m <= nth t rows 0) ->
  length (copyrows_loop m rows n i acc w) = length acc /\
  forall k d, nth k (copyrows_loop m rows n i acc w) d =
    if (i <=? k) && (k <? t) then copy_words (nth (nth k rows 0) (drows m) []) (dw m) w else nth k acc d.
Proof.
  induction n as [|n IH]; intros i acc t Hlen Hit Hti Hok Hstop; cbn [copyrows_loop].
  - split; [reflexivity|]. intros k d.
    destruct (Nat.leb_spec i k), (Nat.ltb_spec k t); cbn [andb]; try reflexivity; lia.
  - destruct (Nat.leb_spec (dr m) (nth i rows 0)) as [Hbad|Hgood].
    + assert (t = i).
      { destruct (Nat.eq_dec t i) as [E|E]; [exact E|]. specialize (Hok i ltac:(lia) ltac:(lia)). lia. }
      subst t. split; [reflexivity|]. intros k d.
      destruct (Nat.leb_spec i k), (Nat.ltb_spec k i); cbn [andb]; try reflexivity; lia.
    + assert (Hne : t <> i).
      { intros ->. destruct Hstop as [E|E]; lia. }
      destruct (IH (S i) (upd acc i (copy_words (nth (nth i rows 0) (drows m) []) (dw m) w)) t) as (L & G).
      * rewrite upd_length. lia.
      * lia.
      * lia.
      * intros k A B. apply Hok; lia.
      * destruct Hstop as [E|E]; [left; lia|right; exact E].
      * split; [rewrite L; apply upd_length|].
        intros k d. rewrite G.
        destruct (Nat.eq_dec k i) as [->|Hki].
        -- rewrite nth_upd_eq by lia.
           destruct (Nat.leb_spec (S i) i); [lia|]. destruct (Nat.leb_spec i i); [|lia].
           destruct (Nat.ltb_spec i t); [|lia]. reflexivity.
        -- rewrite nth_upd_neq by lia.
           destruct (Nat.leb_spec (S i) k), (Nat.leb_spec i k); try reflexivity; lia.
Qed.

Lemma word_clear m i k : word (d_clear m) i k = 0%N.
Proof.
  unfold word, d_clear. cbn [drows].
  destruct (Nat.lt_ge_cases i (dr m)) as [Hi|Hi].
  - rewrite (nth_repeat _ (dr m) i [] Hi).
    destruct (Nat.lt_ge_cases k (dw m)) as [Hk|Hk].
    + apply nth_repeat. exact Hk.
    + apply nth_overflow. rewrite repeat_length. exact Hk.
  - rewrite (nth_overflow (repeat _ (dr m))) by (rewrite repeat_length; exact Hi). destruct k; reflexivity.
Qed.

Definition stops_at (m r : dmat) (rows : list nat) (t : nat) : Prop :=
  t <= dr r /\ (forall k, k < t -> nth k rows 0 < dr m) /\ (t = dr r \/ dr m <= nth t rows 0).

Lemma copyrows_rows m r rows t : dc m <= dc r -> stops_at m r rows t ->
  length (drows (d_copyrows m r rows)) = dr r /\
  forall k d, nth k (drows (d_copyrows m r rows)) d =
    if k <? t then copy_words (nth (nth k rows 0) (drows m) []) (dw m) (dw r) else nth k (drows (d_clear r)) d.
Proof.
  intros H2 (Ht & Hok & Hstop). rewrite copyrows_accepted by exact H2. cbn [drows].
  destruct (copyrows_loop_spec m rows (dw r) (dr r) 0 (drows (d_clear r)) t) as (L & G).
  - unfold d_clear; cbn [drows]. rewrite repeat_length. lia.
  - lia.
  - lia.
  - intros k _ B. apply Hok. exact B.
  - exact Hstop.
  - split; [rewrite L; unfold d_clear; cbn [drows]; apply repeat_length|].
    intros k d. rewrite G. reflexivity.
Qed.

Lemma word_copyrows m r rows t i k : WFd m -> dc m <= dc r -> stops_at m r rows t ->
  word (d_copyrows m r rows) i k = if (i <? t) && (k <? dw m) then word m (nth i rows 0) k else 0%N.
Proof.
  intros Wm H2 St. destruct (copyrows_rows m r rows t H2 St) as (_ & G).
  unfold word at 1. rewrite G. destruct (Nat.ltb_spec i t) as [Hi|Hi]; cbn [andb].
  - destruct St as (_ & Hok & _). apply nth_copy_words. apply (wd_len m Wm). apply Hok. exact Hi.
  - apply (word_clear r i k).
Qed.

Theorem copyrows_wfd m r rows t : WFd m -> WFd r -> dc m <= dc r -> stops_at m r rows t ->
  WFd (d_copyrows m r rows).
Proof.
  intros Wm Wr H2 St. destruct (copyrows_rows m r rows t H2 St) as (L & G).
  destruct (copyrows_dims m r rows) as (D1 & D2 & D3).
  constructor; rewrite ?D1, ?D2, ?D3.
  - exact L.
  - intros i Hi. rewrite G. destruct (Nat.ltb_spec i t) as [Hit|Hit].
    + destruct St as (_ & Hok & _). apply copy_words_length.
      * apply (wd_len m Wm). apply Hok. exact Hit.
      * apply wfd_dw_le; assumption.
    + unfold d_clear; cbn [drows]. rewrite nth_repeat by exact Hi. apply repeat_length.
  - apply (wd_words r Wr).
Qed.

(* general form: rows below the stopping position t are copied, rows from t on are zero; any i j *)
Theorem get_copyrows_gen m r rows t i j : WFd m -> dc m <= dc r -> stops_at m r rows t ->
  d_get (d_copyrows m r rows) i j =
    if (i <? t) && (j <? 32 * dw m) then d_get m (nth i rows 0) j else false.
Proof.
  intros Wm H2 St. unfold d_get at 1. rewrite (word_copyrows m r rows t) by assumption. rewrite div32_ltb.
  destruct ((i <? t) && (j <? 32 * dw m)); [reflexivity|apply N.bits_0].
Qed.

(* every index valid: the loop never stops early (no hypothesis on length rows is needed: nth defaults to 0) *)
Theorem get_copyrows m r rows : WFd m -> WFd r -> dc m <= dc r ->
  (forall i, i < dr r -> nth i rows 0 < dr m) ->
  WFd (d_copyrows m r rows) /\
  forall i j, i < dr r -> j < dc r ->
    d_get (d_copyrows m r rows) i j = if j <? 32 * dw m then d_get m (nth i rows 0) j else false.
Proof.
  intros Wm Wr H2 Hok.
  assert (St : stops_at m r rows (dr r)) by (split; [lia|split; [exact Hok|left; reflexivity]]).
  split; [apply (copyrows_wfd m r rows (dr r)); assumption|].
  intros i j Hi _. rewrite (get_copyrows_gen m r rows (dr r)) by assumption.
  destruct (Nat.ltb_spec i (dr r)); [reflexivity|lia].
Qed.

(* early stop at the first invalid index t *)
Theorem get_copyrows_stop m r rows t : WFd m -> WFd r -> dc m <= dc r ->
  t < dr r -> (forall k, k < t -> nth k rows 0 < dr m) -> dr m <= nth t rows 0 ->
  WFd (d_copyrows m r rows) /\
  (forall i j, i < t -> d_get (d_copyrows m r rows) i j = if j <? 32 * dw m then d_get m (nth i rows 0) j else false) /\
  (forall i j, t <= i -> d_get (d_copyrows m r rows) i j = false).
Proof.
  intros Wm Wr H2 Ht Hok Hbad.
  assert (St : stops_at m r rows t) by (split; [lia|split; [exact Hok|right; exact Hbad]]).
  split; [apply (copyrows_wfd m r rows t); assumption|]. split; intros i j Hi.
  - rewrite (get_copyrows_gen m r rows t) by assumption. destruct (Nat.ltb_spec i t); [reflexivity|lia].
  - rewrite (get_copyrows_gen m r rows t) by assumption. destruct (Nat.ltb_spec i t); [lia|reflexivity].
Qed.

Corollary get_copyrows_padzero m r rows t i j : WFd m -> padzero m -> dc m <= dc r -> stops_at m r rows t ->
  d_get (d_copyrows m r rows) i j = if (i <? t) && (j <? dc m) then d_get m (nth i rows 0) j else false.
Proof.
  intros Wm P H2 St. rewrite (get_copyrows_gen m r rows t) by assumption.
  destruct (Nat.ltb_spec i t) as [Hi|Hi]; cbn [andb]; [|reflexivity].
  apply padzero_cut; try assumption. destruct St as (_ & Hok & _). apply Hok. exact Hi.
Qed.

Lemma stops_at_exists m r rows : exists t, stops_at m r rows t.
Proof.
  unfold stops_at.
  assert (G : forall n, exists t, t <= n /\ (forall k, k < t -> nth k rows 0 < dr m) /\ (t = n \/ dr m <= nth t rows 0)).
  { induction n as [|n (t & A & B & C)].
    - exists 0. split; [lia|]. split; [intros k Hk; lia|left; reflexivity].
    - destruct C as [C|C].
      + subst t. destruct (le_lt_dec (dr m) (nth n rows 0)) as [Hb|Hg].
        * exists n. split; [lia|]. split; [exact B|right; exact Hb].
        * exists (S n). split; [lia|]. split; [|left; reflexivity].
          intros k Hk. destruct (Nat.eq_dec k n) as [->|Hne]; [exact Hg|apply B; lia].
      + exists t. split; [lia|]. split; [exact B|right; exact C]. }
  apply G.
Qed.

Lemma stops_at_unique m r rows t t' : stops_at m r rows t -> stops_at m r rows t' -> t = t'.
Proof.
  intros (A & B & C) (A' & B' & C').
  destruct (Nat.lt_trichotomy t t') as [H|[H|H]]; [|exact H|].
  - specialize (B' t H). destruct C as [C|C]; lia.
  - specialize (B t' H). destruct C' as [C'|C']; lia.
Qed.

Theorem copyrows_wfd_any m r rows : WFd m -> WFd r -> WFd (d_copyrows m r rows).
Proof.
  intros Wm Wr. destruct (le_lt_dec (dc m) (dc r)) as [H|H].
  - destruct (stops_at_exists m r rows) as (t & St). apply (copyrows_wfd m r rows t); assumption.
  - rewrite copyrows_rejected by exact H. exact Wr.
Qed.

(* ---------- C3: d_copycols ---------- *)
Lemma set_dims m i j v : dr (d_set m i j v) = dr m /\ dc (d_set m i j v) = dc m /\ dw (d_set m i j v) = dw m.
Proof. unfold d_set. destruct ((dr m <=? i) || (dc m <=? j)); cbn; auto. Qed.

(* inner loop: one column j, rows in l *)
Lemma setcol_spec (f : nat -> bool) j : forall l acc, WFd acc -> j < dc acc -> (forall i, In i l -> i < dr acc) ->
  let res := fold_left (fun a i => d_set a i j (f i)) l acc in
  WFd res /\ dr res = dr acc /\ dc res = dc acc /\ dw res = dw acc /\
  forall i' j', (In i' l -> d_get res i' j = f i') /\ (~ In i' l \/ j' <> j -> d_get res i' j' = d_get acc i' j').
Proof.
  induction l as [|a l IH]; intros acc W Hj Hl; cbn [fold_left].
  - split; [exact W|]. repeat split; try reflexivity. intros [].
  - destruct (set_dims acc a j (f a)) as (D1 & D2 & D3).
    destruct (IH (d_set acc a j (f a))) as (W' & E1 & E2 & E3 & G).
    + apply set_wfd. exact W.
    + rewrite D2. exact Hj.
    + intros i Hi. rewrite D1. apply Hl. right. exact Hi.
    + split; [exact W'|]. split; [congruence|]. split; [congruence|]. split; [congruence|].
      assert (Ha : a < dr acc) by (apply Hl; left; reflexivity).
      intros i' j'. split.
      * intros Hin. destruct (in_dec Nat.eq_dec i' l) as [Hil|Hnil].
        -- apply (proj1 (G i' j)). exact Hil.
        -- destruct Hin as [<-|Hin]; [|contradiction].
           rewrite (proj2 (G a j)) by (left; exact Hnil).
           rewrite get_set by assumption. now rewrite !Nat.eqb_refl.
      * intros Hout. rewrite (proj2 (G i' j')).
        -- rewrite get_set by assumption.
           destruct (Nat.eqb_spec i' a) as [->|Hne]; cbn [andb]; [|reflexivity].
           destruct (Nat.eqb_spec j' j) as [->|Hnj]; [|reflexivity].
           exfalso. destruct Hout as [Hout|Hout]; [apply Hout; left; reflexivity|apply Hout; reflexivity].
        -- destruct Hout as [Hout|Hout]; [left; intros Hil; apply Hout; right; exact Hil|right; exact Hout].
Qed.

(* outer loop: columns in lj *)
Lemma setcols_spec (f : nat -> nat -> bool) (li : list nat) : forall lj acc, WFd acc ->
  (forall j, In j lj -> j < dc acc) -> (forall i, In i li -> i < dr acc) ->
  let res := fold_left (fun a j => fold_left (fun a2 i => d_set a2 i j (f i j)) li a) lj acc in
  WFd res /\ dr res = dr acc /\ dc res = dc acc /\ dw res = dw acc /\
  forall i' j', (In i' li -> In j' lj -> d_get res i' j' = f i' j') /\
                (~ In i' li \/ ~ In j' lj -> d_get res i' j' = d_get acc i' j').
Proof.
  induction lj as [|b lj IH]; intros acc W Hlj Hli; cbn [fold_left].
  - split; [exact W|]. repeat split; try reflexivity. intros _ [].
  - destruct (setcol_spec (fun i => f i b) b li acc W (Hlj b (or_introl eq_refl)) Hli) as (W1 & A1 & A2 & A3 & G1).
    cbv zeta in *.
    set (acc1 := fold_left (fun a2 i => d_set a2 i b (f i b)) li acc) in *.
    destruct (IH acc1 W1) as (W' & E1 & E2 & E3 & G).
    + intros j Hj. rewrite A2. apply Hlj. right. exact Hj.
    + intros i Hi. rewrite A1. apply Hli. exact Hi.
    + split; [exact W'|]. split; [congruence|]. split; [congruence|]. split; [congruence|].
      intros i' j'. split.
      * intros Hi Hj. destruct (in_dec Nat.eq_dec j' lj) as [Hjl|Hnjl].
        -- apply (proj1 (G i' j')); assumption.
        -- destruct Hj as [<-|Hj]; [|contradiction].
           rewrite (proj2 (G i' b)) by (right; exact Hnjl).
           apply (proj1 (G1 i' b)). exact Hi.
      * intros Hout. rewrite (proj2 (G i' j')).
        -- apply (proj2 (G1 i' j')). destruct Hout as [Hout|Hout]; [left; exact Hout|].
           right. intros ->. apply Hout. left. reflexivity.
        -- destruct Hout as [Hout|Hout]; [left; exact Hout|right; intros Hjl; apply Hout; right; exact Hjl].
Qed.

Lemma copycols_rejected m r cols : dr r < dr m -> d_copycols m r cols = r.
Proof. intros H. unfold d_copycols. destruct (Nat.ltb_spec (dr r) (dr m)); [reflexivity|lia]. Qed.

Lemma copycols_spec m r cols : WFd r -> dr m <= dr r ->
  let res := d_copycols m r cols in
  WFd res /\ dr res = dr r /\ dc res = dc r /\ dw res = dw r /\
  forall i j, d_get res i j = if (i <? dr m) && (j <? dc r) then d_get m i (nth j cols 0) else d_get r i j.
Proof.
  intros Wr H1. unfold d_copycols. destruct (Nat.ltb_spec (dr r) (dr m)) as [Hlt|_]; [lia|].
  destruct (setcols_spec (fun i j => d_get m i (nth j cols 0)) (seq 0 (dr m)) (seq 0 (dc r)) r Wr) as (W & E1 & E2 & E3 & G).
  - intros j Hj. apply in_seq in Hj. lia.
  - intros i Hi. apply in_seq in Hi. lia.
  - cbv zeta in *. split; [exact W|]. split; [exact E1|]. split; [exact E2|]. split; [exact E3|].
    intros i j. destruct (Nat.ltb_spec i (dr m)) as [Hi|Hi]; cbn [andb].
    + destruct (Nat.ltb_spec j (dc r)) as [Hj|Hj].
      * apply (proj1 (G i j)); apply in_seq; lia.
      * apply (proj2 (G i j)). right. intros Hin. apply in_seq in Hin. lia.
    + apply (proj2 (G i j)). left. intros Hin. apply in_seq in Hin. lia.
Qed.

Theorem copycols_wfd m r cols : WFd r -> WFd (d_copycols m r cols).
Proof.
  intros Wr. destruct (le_lt_dec (dr m) (dr r)) as [H|H].
  - apply (copycols_spec m r cols Wr H).
  - rewrite copycols_rejected by exact H. exact Wr.
Qed.

Lemma copycols_dims m r cols : WFd r ->
  dr (d_copycols m r cols) = dr r /\ dc (d_copycols m r cols) = dc r /\ dw (d_copycols m r cols) = dw r.
Proof.
  intros Wr. destruct (le_lt_dec (dr m) (dr r)) as [H|H].
  - destruct (copycols_spec m r cols Wr H) as (_ & A & B & C & _). auto.
  - rewrite copycols_rejected by exact H. auto.
Qed.

(* any i j; m need not be well-formed (only read through d_get) *)
Theorem get_copycols_gen m r cols i j : WFd r -> dr m <= dr r ->
  d_get (d_copycols m r cols) i j = if (i <? dr m) && (j <? dc r) then d_get m i (nth j cols 0) else d_get r i j.
Proof. intros Wr H1. apply (copycols_spec m r cols Wr H1). Qed.

Theorem get_copycols m r cols : WFd r -> dr m <= dr r ->
  WFd (d_copycols m r cols) /\
  forall i j, i < dr r -> j < dc r ->
    d_get (d_copycols m r cols) i j = if i <? dr m then d_get m i (nth j cols 0) else d_get r i j.
Proof.
  intros Wr H1. split; [apply copycols_wfd; exact Wr|].
  intros i j _ Hj. rewrite get_copycols_gen by assumption.
  destruct (Nat.ltb_spec j (dc r)); [|lia]. now rewrite andb_true_r.
Qed.

(* ---------- C4: padzero is an invariant ---------- *)
Theorem padzero_allocate rr cc : padzero (d_allocate rr cc).
Proof. intros i j _ _ _. apply allocate_wfd. Qed.

Theorem padzero_set m i j v : WFd m -> padzero m -> padzero (d_set m i j v).
Proof.
  intros W P. destruct (le_lt_dec (dr m) i) as [Hi|Hi]; [|destruct (le_lt_dec (dc m) j) as [Hj|Hj]].
  - unfold d_set. destruct (Nat.leb_spec (dr m) i); [exact P|lia].
  - unfold d_set. destruct (Nat.leb_spec (dc m) j); [rewrite orb_true_r; exact P|lia].
  - destruct (set_dims m i j v) as (D1 & D2 & D3). intros i' j'. rewrite D1, D2, D3. intros A B C.
    rewrite get_set by assumption.
    destruct (Nat.eqb_spec j' j) as [->|Hne]; [lia|]. rewrite andb_false_r. apply P; assumption.
Qed.

Theorem padzero_flip m i j : WFd m -> padzero m -> padzero (fst (d_flip m i j)).
Proof.
  intros W P. unfold d_flip. destruct ((dr m <=? i) || (dc m <=? j)); cbn [fst]; [exact P|].
  apply padzero_set; assumption.
Qed.

Theorem padzero_clear m : padzero (d_clear m).
Proof. intros i j _ _ _. apply get_clear. Qed.

Theorem padzero_xor_rows m a b : WFd m -> padzero m -> a < dr m -> b < dr m -> padzero (d_xor_rows m a b).
Proof.
  intros W P Ha Hb i j. unfold d_xor_rows at 1 2 3. cbn [dr dc dw]. intros A B C.
  rewrite get_xor_rows by assumption.
  destruct (Nat.eqb_spec i b) as [->|Hne]; [|apply P; assumption].
  rewrite (P b j), (P a j) by assumption. reflexivity.
Qed.

Theorem padzero_copycols m r cols : WFd r -> padzero r -> padzero (d_copycols m r cols).
Proof.
  intros Wr P. destruct (le_lt_dec (dr m) (dr r)) as [H|H].
  - destruct (copycols_dims m r cols Wr) as (D1 & D2 & D3). intros i j. rewrite D1, D2, D3. intros A B C.
    rewrite get_copycols_gen by assumption.
    destruct (Nat.ltb_spec j (dc r)); [lia|]. rewrite andb_false_r. apply P; assumption.
  - rewrite copycols_rejected by exact H. exact P.
Qed.

(* right side condition for the word-wise copies: either m's padding is clean, or m is strictly narrower
   in words (then m's padding bits fall inside r's column range, where get_copy describes them) *)
Lemma narrower_no_pad m r j : WFd r -> dw m < dw r -> dc r <= j -> 32 * dw m <= j.
Proof.
  intros Wr Hw Hj. pose proof (nwords_pred (dc r)) as Hp. rewrite <- (wd_words r Wr) in Hp. lia.
Qed.

Theorem padzero_copy m r : WFd m -> WFd r -> dr m <= dr r -> dc m <= dc r ->
  padzero m \/ dw m < dw r -> padzero (d_copy m r).
Proof.
  intros Wm Wr H1 H2 Hc. destruct (copy_dims m r) as (D1 & D2 & D3). intros i j. rewrite D1, D2, D3. intros A B C.
  rewrite get_copy by assumption.
  destruct (Nat.ltb_spec i (dr m)) as [Hi|Hi]; cbn [andb]; [|reflexivity].
  destruct (Nat.ltb_spec j (32 * dw m)) as [Hj|Hj]; [|reflexivity].
  destruct Hc as [P|Hn].
  - apply P; [exact Hi|lia|exact Hj].
  - pose proof (narrower_no_pad m r j Wr Hn B). lia.
Qed.

(* unconditional in the sizes (covers the rejected case too) *)
Theorem padzero_copy_any m r : WFd m -> WFd r -> padzero m -> padzero r -> padzero (d_copy m r).
Proof.
  intros Wm Wr Pm Pr.
  destruct (le_lt_dec (dr m) (dr r)) as [H1|H1]; [destruct (le_lt_dec (dc m) (dc r)) as [H2|H2]|].
  - apply padzero_copy; auto.
  - rewrite copy_rejected by (right; exact H2). exact Pr.
  - rewrite copy_rejected by (left; exact H1). exact Pr.
Qed.

Theorem padzero_copyrows m r rows : WFd m -> WFd r -> dc m <= dc r ->
  padzero m \/ dw m < dw r -> padzero (d_copyrows m r rows).
Proof.
  intros Wm Wr H2 Hc. destruct (stops_at_exists m r rows) as (t & St).
  destruct (copyrows_dims m r rows) as (D1 & D2 & D3). intros i j. rewrite D1, D2, D3. intros A B C.
  rewrite (get_copyrows_gen m r rows t) by assumption.
  destruct (Nat.ltb_spec i t) as [Hi|Hi]; cbn [andb]; [|reflexivity].
  destruct (Nat.ltb_spec j (32 * dw m)) as [Hj|Hj]; [|reflexivity].
  destruct Hc as [P|Hn].
  - apply P; [|lia|exact Hj]. destruct St as (_ & Hok & _). apply Hok. exact Hi.
  - pose proof (narrower_no_pad m r j Wr Hn B). lia.
Qed.

Theorem padzero_copyrows_any m r rows : WFd m -> WFd r -> padzero m -> padzero r -> padzero (d_copyrows m r rows).
Proof.
  intros Wm Wr Pm Pr. destruct (le_lt_dec (dc m) (dc r)) as [H2|H2].
  - apply padzero_copyrows; auto.
  - rewrite copyrows_rejected by exact H2. exact Pr.
Qed.

(* the side condition cannot be dropped: same word count, dirty padding in m -> dirty padding in the copy *)
Example padzero_copy_needs_condition :
  let m := {| dr := 1; dc := 1; dw := 1; drows := [[2%N]] |} in
  let r := d_allocate 1 1 in
  d_get (d_copy m r) 0 1 = true /\ d_get (d_copyrows m r [0]) 0 1 = true.
Proof. vm_compute. split; reflexivity. Qed.

(* ---------- 32-bit words: needed for C5, and an invariant of every operation ---------- *)
Lemma lt32_bits w : (w < 2 ^ 32)%N <-> forall n, (32 <= n)%N -> N.testbit w n = false.
Proof.
  split.
  - intros H n Hn. rewrite <- (N.mod_small w (2 ^ 32)) by exact H. apply N.mod_pow2_bits_high. exact Hn.
  - intros H. assert (E : w = (w mod 2 ^ 32)%N).
    { apply N.bits_inj. intros n. destruct (N.lt_ge_cases n 32) as [Hn|Hn].
      - rewrite N.mod_pow2_bits_low by exact Hn. reflexivity.
      - rewrite N.mod_pow2_bits_high by exact Hn. apply H. exact Hn. }
    rewrite E. apply N.mod_lt. apply N.pow_nonzero. discriminate.
Qed.

Lemma zero_lt32 : (0 < 2 ^ 32)%N.
Proof. apply lt32_bits. intros n _. apply N.bits_0. Qed.

Theorem words32_allocate rr cc : words32 (d_allocate rr cc).
Proof.
  intros i k. unfold word, d_allocate. cbn [drows].
  destruct (Nat.lt_ge_cases i rr) as [Hi|Hi].
  - rewrite (nth_repeat _ rr i [] Hi). destruct (Nat.lt_ge_cases k (nwords cc)) as [Hk|Hk].
    + rewrite nth_repeat by exact Hk. apply zero_lt32.
    + rewrite nth_overflow by (rewrite repeat_length; exact Hk). apply zero_lt32.
  - rewrite (nth_overflow (repeat _ rr)) by (rewrite repeat_length; exact Hi). destruct k; apply zero_lt32.
Qed.

Theorem words32_clear m : words32 (d_clear m).
Proof. intros i k. rewrite word_clear. apply zero_lt32. Qed.

Theorem words32_set m i j v : WFd m -> words32 m -> words32 (d_set m i j v).
Proof.
  intros W B. unfold d_set. destruct ((dr m <=? i) || (dc m <=? j)) eqn:E; [exact B|].
  apply orb_false_iff in E as (E1 & E2). apply Nat.leb_gt in E1. apply Nat.leb_gt in E2.
  intros i' k'. rewrite word_set_word.
  - destruct ((i' =? i) && (k' =? j / 32)); [|apply B].
    pose proof (Nat.mod_upper_bound j 32 ltac:(lia)) as Hm.
    apply lt32_bits. intros n Hn. destruct v.
    + rewrite N.setbit_eqb. destruct (N.eqb_spec (N.of_nat (j mod 32)) n) as [En|En]; [lia|].
      cbn [orb]. apply (proj1 (lt32_bits _) (B i (j / 32))). exact Hn.
    + rewrite N.clearbit_eqb. rewrite (proj1 (lt32_bits _) (B i (j / 32)) n Hn). reflexivity.
  - rewrite (wd_rows m W). exact E1.
  - rewrite (wd_len m W i E1), (wd_words m W). apply nwords_bound. exact E2.
Qed.

Theorem words32_flip m i j : WFd m -> words32 m -> words32 (fst (d_flip m i j)).
Proof.
  intros W B. unfold d_flip. destruct ((dr m <=? i) || (dc m <=? j)); cbn [fst]; [exact B|].
  apply words32_set; assumption.
Qed.

Theorem words32_xor_rows m a b : WFd m -> words32 m -> a < dr m -> b < dr m -> words32 (d_xor_rows m a b).
Proof.
  intros W B Ha Hb i k. unfold word, d_xor_rows. cbn [drows].
  destruct (Nat.eq_dec i b) as [->|Hne].
  - rewrite nth_upd_eq by (rewrite (wd_rows m W); exact Hb).
    rewrite nth_xor_words by (rewrite !(wd_len m W); auto).
    apply lt32_bits. intros n Hn. rewrite N.lxor_spec.
    pose proof (proj1 (lt32_bits _) (B b k) n Hn) as X1. pose proof (proj1 (lt32_bits _) (B a k) n Hn) as X2.
    unfold word in X1, X2. rewrite X1, X2. reflexivity.
  - rewrite nth_upd_neq by lia. apply B.
Qed.

Theorem words32_copy m r : WFd m -> words32 m -> words32 r -> words32 (d_copy m r).
Proof.
  intros Wm Bm Br.
  destruct (le_lt_dec (dr m) (dr r)) as [H1|H1]; [destruct (le_lt_dec (dc m) (dc r)) as [H2|H2]|].
  - intros i k. rewrite word_copy by assumption.
    destruct ((i <? dr m) && (k <? dw m)); [apply Bm|apply zero_lt32].
  - rewrite copy_rejected by (right; exact H2). exact Br.
  - rewrite copy_rejected by (left; exact H1). exact Br.
Qed.

Theorem words32_copyrows m r rows : WFd m -> words32 m -> words32 r -> words32 (d_copyrows m r rows).
Proof.
  intros Wm Bm Br. destruct (le_lt_dec (dc m) (dc r)) as [H2|H2].
  - destruct (stops_at_exists m r rows) as (t & St).
    intros i k. rewrite (word_copyrows m r rows t) by assumption.
    destruct ((i <? t) && (k <? dw m)); [apply Bm|apply zero_lt32].
  - rewrite copyrows_rejected by exact H2. exact Br.
Qed.

Lemma fold_left_inv {A B} (P : A -> Prop) (f : A -> B -> A) :
  (forall a b, P a -> P (f a b)) -> forall l a, P a -> P (fold_left f l a).
Proof. intros Hf. induction l as [|b l IH]; intros a Ha; cbn [fold_left]; [exact Ha|]. apply IH, Hf, Ha. Qed.

Theorem words32_copycols m r cols : WFd r -> words32 r -> words32 (d_copycols m r cols).
Proof.
  intros Wr Br. unfold d_copycols. destruct (dr r <? dr m); [exact Br|].
  apply (fold_left_inv (fun a => WFd a /\ words32 a)); [|split; assumption].
  intros a j Pa. apply (fold_left_inv (fun a => WFd a /\ words32 a)); [|exact Pa].
  intros a2 i (W2 & B2). split; [apply set_wfd; exact W2|apply words32_set; assumption].
Qed.

(* ---------- C5: emptiness, completeness direction ---------- *)
Theorem row_is_empty_complete m i : WFd m -> padzero m -> words32 m -> i < dr m ->
  (forall j, j < dc m -> d_get m i j = false) -> d_row_is_empty m i = true.
Proof.
  intros W P B Hi Hz. unfold d_row_is_empty. apply forallb_forall. intros w Hin.
  destruct (In_nth _ _ 0%N Hin) as (k & Hk & Ew). rewrite (wd_len m W i Hi) in Hk.
  apply N.eqb_eq. apply N.bits_inj_0. intros n.
  destruct (N.lt_ge_cases n 32) as [Hn|Hn].
  - assert (G : d_get m i (32 * k + N.to_nat n) = false).
    { destruct (le_lt_dec (dc m) (32 * k + N.to_nat n)) as [Hp|Hc]; [apply P; try assumption; lia|apply Hz; exact Hc]. }
    unfold d_get in G. destruct (div32_add k (N.to_nat n) ltac:(lia)) as (Q1 & Q2).
    rewrite Q1, Q2, N2Nat.id in G. unfold word in G. rewrite Ew in G. exact G.
  - pose proof (B i k) as Bk. unfold word in Bk. rewrite Ew in Bk.
    apply (proj1 (lt32_bits w) Bk). exact Hn.
Qed.

Theorem row_is_empty_iff m i : WFd m -> padzero m -> words32 m -> i < dr m ->
  (d_row_is_empty m i = true <-> forall j, j < dc m -> d_get m i j = false).
Proof.
  intros W P B Hi. split.
  - intros H j _. apply row_is_empty_sound. exact H.
  - apply row_is_empty_complete; assumption.
Qed.

(* words32 cannot be dropped from C5: a row holding the (non 32-bit) word 2^32 has no bit set in any column,
   is well-formed with clean padding, and is not "empty" *)
Example row_is_empty_complete_needs_words32 :
  let m := {| dr := 1; dc := 1; dw := 1; drows := [[(2 ^ 32)%N]] |} in
  WFd m /\ padzero m /\ (forall i j, d_get m i j = false) /\ d_row_is_empty m 0 = false.
Proof.
  cbv zeta.
  assert (G : forall i j, d_get {| dr := 1; dc := 1; dw := 1; drows := [[(2 ^ 32)%N]] |} i j = false).
  { intros i j. unfold d_get, word. cbn [drows].
    pose proof (Nat.mod_upper_bound j 32 ltac:(lia)) as Hm.
    destruct i as [|i]; [|destruct i; cbn [nth]; destruct (j / 32); apply N.bits_0].
    cbn [nth]. destruct (j / 32) as [|q]; [|destruct q; apply N.bits_0].
    apply N.pow2_bits_false. lia. }
  split; [|split; [|split]].
  - constructor; cbn [dr dc dw drows].
    + reflexivity.
    + intros i Hi. assert (i = 0) by lia. subst i. reflexivity.
    + reflexivity.
  - intros i j _ _ _. apply G.
  - exact G.
  - reflexivity.
Qed.

(* one bundle holding every theorem of this file, so that a single Print Assumptions covers them all *)
Definition DenseCopyProofs_all :=
  (@copy_wfd_get,
   @get_copy,
   @get_copy_in,
   @get_copy_padzero,
   @copy_rejected,
   @get_copyrows,
   @get_copyrows_stop,
   @get_copyrows_gen,
   @copyrows_wfd_any,
   @get_copycols,
   @get_copycols_gen,
   @padzero_allocate,
   @padzero_set,
   @padzero_flip,
   @padzero_clear,
   @padzero_xor_rows,
   @padzero_copycols,
   @padzero_copy,
   @padzero_copy_any,
   @padzero_copyrows,
   @padzero_copyrows_any,
   @words32_set,
   @words32_xor_rows,
   @words32_copy,
   @words32_copyrows,
   @words32_copycols,
   @row_is_empty_complete,
   @row_is_empty_iff,
   @row_is_empty_complete_needs_words32,
   @copy_wfd,
   @copy_dims,
   @copyrows_dims,
   @copycols_dims,
   @copycols_wfd,
   @copyrows_wfd,
   @copyrows_rejected,
   @copycols_rejected,
   @stops_at_exists,
   @stops_at_unique,
   @get_copy_below,
   @get_copyrows_padzero,
   @words32_allocate,
   @words32_clear,
   @words32_flip,
   @padzero_copy_needs_condition,
   @word_copy,
   @word_copyrows,
   @lt32_bits).
Print Assumptions DenseCopyProofs_all.
