(* RSSession: the session-level theorem of the two Reed-Solomon codecs.

   The API-layer model of RSApi (of_decode_with_new_symbol / of_set_available_symbols /
   of_finish_decoding / of_is_decoding_complete / of_get_source_symbols_tab) is composed with
   the decoding core of RSCore (selection, decode matrix, Gauss-Jordan inversion, product):
     B    := N                              one field element per symbol
     core := fun k' t => rs_core256 k' n t   (resp. rs_core16)
     mk   := fun _ v => v                    the decoded buffer holds the decoded value
     cb   arbitrary.
   For every code size 1 <= k <= n <= 256 (resp. 16), every source block src and every history
   h of submissions of elements of the codeword of src (any order, duplicates allowed):
     R1  every entry of the table is empty or holds the codeword element of its position
         (for a source position: the source element itself), at any time;
     R2  as soon as k distinct symbols have been submitted the session is complete and the
         source table is exactly src (with or without a final of_finish_decoding);
     R3  with fewer than k distinct symbols of_finish_decoding fails, nothing is returned and
         the session is not complete;
     R2'/R3' the same for the of_set_available_symbols path (whole table given at once).

   Part 1: generic in the core and in the codeword (Section Gen: R1, R2, R2'; Section Few:
           R3, R3', which hold whatever the submitted values are).
   Part 2: the instances q = 256 and q = 16, examples. *)
From Coq Require Import List Arith NArith Bool Lia.
From OFV Require Import ListAux RSApi RSApiProofs RSCanon RSCore.
Import ListNotations.

(* the decoded buffer holds the decoded value *)
Definition mkid : nat -> N -> N := fun _ v => v.

(* the state after of_set_available_symbols on a fresh session *)
Definition rs_avail (k n : nat) (t : list (option N)) : rs N :=
  fst (rs_set_available (rs_init N k n) t).

Lemma firstn_app_exact : forall (A : Type) (l1 l2 : list A) (m : nat),
  m = length l1 -> firstn m (l1 ++ l2) = l1.
Proof.
  intros A l1 l2 m E. subst m. induction l1 as [|x l1 IH].
  - reflexivity.
  - cbn [length app firstn]. rewrite IH. reflexivity.
Qed.

(* ------------------------------------------------------------------ *)
(* Part 1: generic                                                     *)
(* ------------------------------------------------------------------ *)
Section Gen.
  Variable core : nat -> list (option N) -> option (list N).
  Variable cb : bool.
  Variables k n : nat.
  Variable src : list N.
  Variable el : nat -> N.                 (* the codeword of src *)

  Hypothesis Hk1 : 1 <= k.
  Hypothesis Hkn : k <= n.
  Hypothesis Hls : length src = k.
  Hypothesis el_sys : forall e, e < k -> el e = nth e src 0%N.
  Hypothesis core_ok : forall t : list (option N), length t = n -> k <= count_some t ->
    exists vals, core k t = Some vals /\ length vals = k.
  Hypothesis core_cw : forall t : list (option N), length t = n ->
    (forall e, e < n -> nth e t None = None \/ nth e t None = Some (el e)) ->
    k <= count_some t -> core k t = Some src.

  (* a table of codeword elements *)
  Definition CW (t : list (option N)) : Prop :=
    length t = n /\ forall e, e < n -> nth e t None = None \/ nth e t None = Some (el e).

  Lemma all_some : forall l : list (option N), count_some l = length l ->
    forall j, j < length l -> exists x, nth j l None = Some x.
  Proof.
    intros l. induction l as [|a l IH]; intros Hc j Hj.
    - cbn [length] in Hj. lia.
    - pose proof (count_some_le_length N l) as Hle.
      unfold count_some in *. destruct a as [v|]; cbn [filter is_some length] in *.
      + destruct j as [|j]; cbn [nth].
        * eexists. reflexivity.
        * apply IH; lia.
      + lia.
  Qed.

  Lemma nth_map_some : forall j, nth j (map Some src) None = Some (nth j src 0%N) \/ k <= j.
  Proof.
    intros j. destruct (Nat.lt_ge_cases j k) as [Hj|Hj]; [left|right; exact Hj].
    rewrite (nth_indep (map Some src) None (Some 0%N)) by (rewrite map_length; lia).
    apply (map_nth Some src 0%N j).
  Qed.

  Lemma nth_map_some_lt : forall j, j < k -> nth j (map Some src) None = Some (nth j src 0%N).
  Proof. intros j Hj. destruct (nth_map_some j) as [E|E]; [exact E|lia]. Qed.

  (* all the k sources present in a table of codeword elements: they are src *)
  Lemma cw_firstn : forall t, CW t -> count_some (firstn k t) = k -> firstn k t = map Some src.
  Proof.
    intros t [HL Ht] Hc.
    assert (HLf : length (firstn k t) = k) by (apply firstn_length_le; lia).
    apply (nth_ext _ _ None None).
    - rewrite map_length. lia.
    - intros j Hj. rewrite HLf in Hj. rewrite nth_map_some_lt by exact Hj.
      destruct (all_some (firstn k t) ltac:(lia) j ltac:(lia)) as [x Ex].
      rewrite (nth_firstn_lt (option N) t k j None Hj) in *.
      destruct (Ht j ltac:(lia)) as [E|E]; rewrite E in Ex; [discriminate Ex|].
      rewrite E, el_sys by exact Hj. reflexivity.
  Qed.

  (* the copy-out loop on a table compatible with the decoded values *)
  Lemma fill_tab : forall (vals : list N) (t : list (option N)) i ev,
    length vals <= length t ->
    (forall j, j < length vals -> nth j t None = None \/ nth j t None = Some (nth j vals 0%N)) ->
    fst (fill cb mkid vals t i ev) = map Some vals ++ skipn (length vals) t.
  Proof.
    intros vals. induction vals as [|v vals IH]; intros t i ev HL H.
    - destruct t; reflexivity.
    - destruct t as [|e t]; [cbn [length] in HL; lia|].
      cbn [length] in HL.
      assert (Ht : forall j, j < length vals ->
                   nth j t None = None \/ nth j t None = Some (nth j vals 0%N)).
      { intros j Hj. apply (H (S j)). cbn [length]. lia. }
      pose proof (H 0 ltac:(cbn [length]; lia)) as H0. cbn [nth] in H0.
      cbn [fill length skipn map app].
      destruct e as [x|].
      + specialize (IH t (S i) ev ltac:(lia) Ht).
        destruct (fill cb mkid vals t (S i) ev) as [t2 ev2]. cbn [fst] in *.
        destruct H0 as [H0|H0]; [discriminate H0|]. injection H0 as H0. subst x.
        rewrite IH. reflexivity.
      + specialize (IH t (S i) (if cb then ev ++ [i] else ev) ltac:(lia) Ht).
        destruct (fill cb mkid vals t (S i) (if cb then ev ++ [i] else ev)) as [t2 ev2].
        cbn [fst] in *. unfold mkid. rewrite IH. reflexivity.
  Qed.

  Lemma cw_filled : forall t, CW t -> CW (map Some src ++ skipn k t).
  Proof.
    intros t [HL Ht]. split.
    - rewrite app_length, map_length, skipn_length. lia.
    - intros e He. destruct (Nat.lt_ge_cases e k) as [Hek|Hek].
      + right. rewrite app_nth1 by (rewrite map_length; lia).
        rewrite nth_map_some_lt by exact Hek. rewrite el_sys by exact Hek. reflexivity.
      + rewrite app_nth2 by (rewrite map_length; lia). rewrite map_length, Hls.
        rewrite nth_skipn_add. replace (k + (e - k)) with e by lia. apply Ht. exact He.
  Qed.

  (* of_finish_decoding on an open session holding at least k codeword elements *)
  Lemma finish_cw : forall s : rs N, fin s = false -> rk s = k -> CW (tab s) ->
    navail s = count_some (tab s) -> navail_src s = count_some (firstn k (tab s)) ->
    k <= navail s ->
    exists s', rs_finish core cb mkid s = (s', OK) /\ fin s' = true /\ rk s' = k /\
               CW (tab s') /\ firstn k (tab s') = map Some src.
  Proof.
    intros s Hf Hk Hcw Hna Hns Hge. unfold rs_finish. rewrite Hf, Hk.
    destruct (Nat.ltb_spec (navail s) k) as [Hlt|_]; [lia|].
    destruct (Nat.eqb_spec (navail_src s) k) as [Heq|Hne].
    - eexists. split; [reflexivity|]. cbn [fin rk tab].
      split; [reflexivity|]. split; [reflexivity|]. split; [exact Hcw|].
      apply cw_firstn; [exact Hcw|lia].
    - destruct Hcw as [HL Ht].
      rewrite (core_cw (tab s) HL Ht ltac:(lia)).
      pose proof (fill_tab src (tab s) 0 (evs s)) as HF.
      destruct (fill cb mkid src (tab s) 0 (evs s)) as [t2 ev2]. cbn [fst] in HF.
      rewrite Hls in HF.
      assert (E2 : t2 = map Some src ++ skipn k (tab s)).
      { apply HF; [lia|]. intros j Hj.
        destruct (Ht j ltac:(lia)) as [E|E]; [left; exact E|right].
        rewrite E, el_sys by exact Hj. reflexivity. }
      eexists. split; [reflexivity|]. cbn [fin rk tab]. subst t2.
      split; [reflexivity|]. split; [reflexivity|]. split.
      + apply cw_filled. split; assumption.
      + apply firstn_app_exact. rewrite map_length. lia.
  Qed.

  (* ---- the invariant along a history of submissions of codeword elements ---- *)
  Record J (s : rs N) : Prop := {
    j_k : rk s = k;
    j_cw : CW (tab s);
    j_open : fin s = false ->
      navail s = count_some (tab s) /\ navail_src s = count_some (firstn k (tab s));
    j_done : fin s = true -> firstn k (tab s) = map Some src }.

  Lemma init_J : J (rs_init N k n).
  Proof.
    constructor; cbn [rs_init rk tab fin navail navail_src].
    - reflexivity.
    - split; [apply repeat_length|]. intros e _. left. apply nth_repeat_none.
    - intros _. split.
      + rewrite <- (firstn_all (repeat None n)). symmetry. apply count_some_repeat_none.
      + symmetry. apply count_some_repeat_none.
    - discriminate.
  Qed.

  Lemma step_J : forall s e, J s -> e < n -> J (step N core cb mkid s (e, el e)).
  Proof.
    intros s e I He. unfold step, rs_decode_with_new_symbol. cbn [fst snd].
    destruct (fin s) eqn:Hf; [cbn [fst]; exact I|].
    destruct (j_open s I Hf) as [Hna Hns].
    destruct (j_cw s I) as [HL Ht].
    destruct (nth e (tab s) None) as [x|] eqn:Hx; [cbn [fst]; exact I|].
    set (t1 := upd (tab s) e (Some (el e))).
    assert (Hcw1 : CW t1).
    { split; [unfold t1; rewrite upd_length; exact HL|].
      intros e' He'. unfold t1. destruct (Nat.eq_dec e' e) as [E|Hne].
      - subst e'. right. apply nth_upd_eq. lia.
      - rewrite nth_upd_neq by lia. apply Ht. exact He'. }
    assert (Hc1 : count_some t1 = S (navail s)).
    { unfold t1. rewrite (count_some_upd N k n Hkn); [lia|lia|exact Hx]. }
    assert (Hs1 : (if e <? rk s then S (navail_src s) else navail_src s)
                  = count_some (firstn k t1)).
    { unfold t1. rewrite firstn_upd, (j_k s I).
      destruct (Nat.ltb_spec e k) as [Hek|Hek]; [|exact Hns].
      rewrite (count_some_upd N k n Hkn); [lia| |].
      - rewrite firstn_length. lia.
      - rewrite (nth_firstn_lt (option N) (tab s) k e None Hek). exact Hx. }
    cbn [rk rn tab navail navail_src fin evs].
    rewrite Hs1. rewrite (j_k s I).
    destruct (Nat.eqb_spec (count_some (firstn k t1)) k) as [Heq|Hne].
    - cbn [fst]. constructor; cbn [rk tab fin navail navail_src].
      + reflexivity.
      + exact Hcw1.
      + discriminate.
      + intros _. apply cw_firstn; assumption.
    - destruct (Nat.leb_spec k (S (navail s))) as [Hge|Hlt].
      + set (s1 := {| rk := k; rn := rn s; tab := t1; navail := S (navail s);
                      navail_src := count_some (firstn k t1); fin := false; evs := evs s |}).
        destruct (finish_cw s1 eq_refl eq_refl Hcw1 (eq_sym Hc1) eq_refl Hge)
          as [s' [E [F' [K' [C' S']]]]].
        rewrite E. cbn [fst]. constructor.
        * exact K'.
        * exact C'.
        * intros F0. rewrite F0 in F'. discriminate F'.
        * intros _. exact S'.
      + cbn [fst]. constructor; cbn [rk tab fin navail navail_src].
        * reflexivity.
        * exact Hcw1.
        * intros _. split; [symmetry; exact Hc1|reflexivity].
        * discriminate.
  Qed.

  (* a history of submissions of codeword elements *)
  Definition cw_hist (h : list (nat * N)) : Prop :=
    forall ev, In ev h -> fst ev < n /\ snd ev = el (fst ev).

  Lemma fold_J : forall h s, J s -> cw_hist h -> J (fold_left (step N core cb mkid) h s).
  Proof.
    intros h. induction h as [|ev h IH]; intros s I Hh; cbn [fold_left].
    - exact I.
    - apply IH.
      + destruct (Hh ev (or_introl eq_refl)) as [H1 H2].
        destruct ev as [e b]. cbn [fst snd] in H1, H2. subst b. apply step_J; assumption.
      + intros ev' Hin. apply Hh. right. exact Hin.
  Qed.

  Lemma run_J : forall h, cw_hist h -> J (run N core cb mkid k n h).
  Proof. intros h Hh. unfold run. apply fold_J; [exact init_J|exact Hh]. Qed.

  Lemma cw_hist_range : forall h, cw_hist h -> forall ev, In ev h -> fst ev < n.
  Proof. intros h Hh ev Hin. exact (proj1 (Hh ev Hin)). Qed.

  Lemma finish_J : forall s, J s -> J (fst (rs_finish core cb mkid s)).
  Proof.
    intros s I. destruct (fin s) eqn:Hf.
    - unfold rs_finish. rewrite Hf. exact I.
    - destruct (j_open s I Hf) as [Hna Hns].
      destruct (Nat.lt_ge_cases (navail s) k) as [Hlt|Hge].
      + unfold rs_finish. rewrite Hf. rewrite (j_k s I).
        destruct (Nat.ltb_spec (navail s) k) as [_|Hge]; [exact I|lia].
      + destruct (finish_cw s Hf (j_k s I) (j_cw s I) Hna Hns Hge)
          as [s' [E [F' [K' [C' S']]]]].
        rewrite E. cbn [fst]. constructor.
        * exact K'.
        * exact C'.
        * intros F0. rewrite F0 in F'. discriminate F'.
        * intros _. exact S'.
  Qed.

  (* ---- R1 ---- *)
  Definition cw_table (t : list (option N)) : Prop :=
    length t = n /\
    forall e, e < n ->
      (nth e t None = None \/ nth e t None = Some (el e)) /\
      (e < k -> nth e t None = None \/ nth e t None = Some (nth e src 0%N)).

  Lemma CW_cw_table : forall t, CW t -> cw_table t.
  Proof.
    intros t [HL Ht]. split; [exact HL|]. intros e He. split; [apply Ht; exact He|].
    intros Hek. rewrite <- el_sys by exact Hek. apply Ht. exact He.
  Qed.

  Theorem gen_run_table : forall h, cw_hist h ->
    cw_table (tab (run N core cb mkid k n h)) /\
    cw_table (tab (fst (rs_finish core cb mkid (run N core cb mkid k n h)))).
  Proof.
    intros h Hh. pose proof (run_J h Hh) as I. split; apply CW_cw_table.
    - exact (j_cw _ I).
    - exact (j_cw _ (finish_J _ I)).
  Qed.

  (* ---- R2 ---- *)
  Theorem gen_run_complete : forall h, cw_hist h -> k <= ndistinct n (map fst h) ->
    rs_is_complete (run N core cb mkid k n h) = true /\
    rs_source_tab (run N core cb mkid k n h) = Some (map Some src).
  Proof.
    intros h Hh Hd. pose proof (run_J h Hh) as I.
    assert (Hf : fin (run N core cb mkid k n h) = true).
    { apply (rs_complete_iff_k_distinct_proof N core cb mkid k n Hkn core_ok h Hk1
               (cw_hist_range h Hh)). exact Hd. }
    split; [exact Hf|]. unfold rs_source_tab. rewrite Hf, (j_k _ I), (j_done _ I Hf).
    reflexivity.
  Qed.

  Theorem gen_session_recovers : forall h, cw_hist h -> k <= ndistinct n (map fst h) ->
    let r := rs_finish core cb mkid (run N core cb mkid k n h) in
    snd r = OK /\ rs_source_tab (fst r) = Some (map Some src).
  Proof.
    intros h Hh Hd. destruct (gen_run_complete h Hh Hd) as [Hf Hs].
    cbv zeta. unfold rs_finish. unfold rs_is_complete in Hf. rewrite Hf. cbn [fst snd].
    split; [reflexivity|exact Hs].
  Qed.

  (* ---- R2': of_set_available_symbols then of_finish_decoding ---- *)
  Theorem gen_avail_recovers : forall t : list (option N), length t = n ->
    (forall e, e < n -> nth e t None = None \/ nth e t None = Some (el e)) ->
    k <= count_some t ->
    let r := rs_finish core cb mkid (rs_avail k n t) in
    snd r = OK /\ rs_is_complete (fst r) = true /\
    rs_source_tab (fst r) = Some (map Some src).
  Proof.
    intros t HL Ht Hc. cbv zeta.
    destruct (finish_cw (rs_avail k n t) eq_refl eq_refl (conj HL Ht) eq_refl eq_refl Hc)
      as [s' [E [F' [K' [_ S']]]]].
    rewrite E. cbn [fst snd]. split; [reflexivity|]. split; [exact F'|].
    unfold rs_source_tab. rewrite F', K', S'. reflexivity.
  Qed.
End Gen.

(* ---- R3 / R3': fewer than k symbols (whatever the submitted values are) ---- *)
Section Few.
  Variable core : nat -> list (option N) -> option (list N).
  Variables (cb : bool) (mk : nat -> N -> N).
  Variables k n : nat.
  Hypothesis Hk1 : 1 <= k.
  Hypothesis Hkn : k <= n.
  Hypothesis core_ok : forall t : list (option N), length t = n -> k <= count_some t ->
    exists vals, core k t = Some vals /\ length vals = k.

  Theorem gen_session_too_few : forall h : list (nat * N),
    (forall ev, In ev h -> fst ev < n) -> ndistinct n (map fst h) < k ->
    let r := rs_finish core cb mk (run N core cb mk k n h) in
    snd r = FAILURE /\ rs_source_tab (fst r) = None /\
    rs_is_complete (run N core cb mk k n h) = false.
  Proof.
    intros h Hh Hd. cbv zeta.
    pose proof (rs_finish_truthful_proof N core cb mk k n Hkn core_ok h Hk1 Hh) as HT.
    cbv zeta in HT. destruct HT as [_ [HF HC]].
    pose proof (rs_complete_iff_k_distinct_proof N core cb mk k n Hkn core_ok h Hk1 Hh) as HR.
    assert (Hc : rs_is_complete (fst (rs_finish core cb mk (run N core cb mk k n h))) = false).
    { destruct (rs_is_complete (fst (rs_finish core cb mk (run N core cb mk k n h))));
        [|reflexivity]. pose proof (proj1 HC eq_refl). lia. }
    split; [apply HF; exact Hc|]. split.
    - unfold rs_source_tab. unfold rs_is_complete in Hc. rewrite Hc. reflexivity.
    - destruct (rs_is_complete (run N core cb mk k n h)); [|reflexivity].
      pose proof (proj1 HR eq_refl). lia.
  Qed.
End Few.

Theorem gen_avail_too_few :
  forall (core : nat -> list (option N) -> option (list N)) (cb : bool) (mk : nat -> N -> N)
         (k n : nat) (t : list (option N)),
  count_some t < k ->
  let r := rs_finish core cb mk (rs_avail k n t) in
  snd r = FAILURE /\ rs_is_complete (fst r) = false /\ rs_source_tab (fst r) = None.
Proof.
  intros core cb mk k n t Hc. cbv zeta. unfold rs_finish, rs_avail, rs_set_available, rs_init.
  cbn [fst fin navail rk].
  destruct (Nat.ltb_spec (count_some t) k) as [_|Hge]; [|lia].
  cbn [fst snd]. split; [reflexivity|]. split; reflexivity.
Qed.

(* ------------------------------------------------------------------ *)
(* Part 2: the instances q = 256 and q = 16                            *)
(* ------------------------------------------------------------------ *)
(* ---- q = 256 (the of_rs codec): core := fun k' t => rs_core256 k' n t ---- *)

(* R1: at any time (before or after of_finish_decoding) every entry of the table is empty or
   holds the codeword element of its position; a source entry is empty or holds the source *)
Theorem rs256_run_table :
  forall (cb : bool) (k n : nat) (src : list N) (h : list (nat * N)),
  1 <= k <= n -> n <= 256 -> length src = k -> Forall (fun a => (a < 256)%N) src ->
  (forall ev, In ev h -> fst ev < n /\ snd ev = elem256 k src (fst ev)) ->
  let core := fun k' t => rs_core256 k' n t in
  forall s : rs N,
  s = run N core cb mkid k n h \/ s = fst (rs_finish core cb mkid (run N core cb mkid k n h)) ->
  length (tab s) = n /\
  forall e, e < n ->
    (nth e (tab s) None = None \/ nth e (tab s) None = Some (elem256 k src e)) /\
    (e < k -> nth e (tab s) None = None \/ nth e (tab s) None = Some (nth e src 0%N)).
Proof.
  intros cb k n src h [Hk1 Hkn] Hn Hls HF Hh core s Hs.
  destruct (gen_run_table core cb k n src (elem256 k src) Hk1 Hkn Hls
              (fun e He => elem256_systematic k src e ltac:(lia) Hls HF He)
              (fun t HL Ht Hc => rs_core256_correct k n src t (conj Hk1 Hkn) Hn Hls HF HL Ht Hc)
              h Hh) as [A B].
  destruct Hs as [Hs|Hs]; subst s; [exact A|exact B].
Qed.

(* R2, without of_finish_decoding: the submission of the k-th distinct symbol completes the
   session and the source table is src *)
Theorem rs256_run_recovers_the_sources :
  forall (cb : bool) (k n : nat) (src : list N) (h : list (nat * N)),
  1 <= k <= n -> n <= 256 -> length src = k -> Forall (fun a => (a < 256)%N) src ->
  (forall ev, In ev h -> fst ev < n /\ snd ev = elem256 k src (fst ev)) ->
  k <= ndistinct n (map fst h) ->
  let core := fun k' t => rs_core256 k' n t in
  rs_is_complete (run N core cb mkid k n h) = true /\
  rs_source_tab (run N core cb mkid k n h) = Some (map Some src).
Proof.
  intros cb k n src h [Hk1 Hkn] Hn Hls HF Hh Hd core.
  exact (gen_run_complete core cb k n src (elem256 k src) Hk1 Hkn Hls
           (fun e He => elem256_systematic k src e ltac:(lia) Hls HF He)
           (rs_core256_core_ok k n Hn)
           (fun t HL Ht Hc => rs_core256_correct k n src t (conj Hk1 Hkn) Hn Hls HF HL Ht Hc)
           h Hh Hd).
Qed.

(* R2 *)
Theorem rs256_session_recovers_the_sources :
  forall (cb : bool) (k n : nat) (src : list N) (h : list (nat * N)),
  1 <= k <= n -> n <= 256 -> length src = k -> Forall (fun a => (a < 256)%N) src ->
  (forall ev, In ev h -> fst ev < n /\ snd ev = elem256 k src (fst ev)) ->
  k <= ndistinct n (map fst h) ->
  let core := fun k' t => rs_core256 k' n t in
  let r := rs_finish core cb mkid (run N core cb mkid k n h) in
  snd r = OK /\ rs_source_tab (fst r) = Some (map Some src).
Proof.
  intros cb k n src h [Hk1 Hkn] Hn Hls HF Hh Hd core.
  exact (gen_session_recovers core cb k n src (elem256 k src) Hk1 Hkn Hls
           (fun e He => elem256_systematic k src e ltac:(lia) Hls HF He)
           (rs_core256_core_ok k n Hn)
           (fun t HL Ht Hc => rs_core256_correct k n src t (conj Hk1 Hkn) Hn Hls HF HL Ht Hc)
           h Hh Hd).
Qed.

(* R3 (the submitted values are arbitrary, in particular codeword elements) *)
Theorem rs256_session_too_few :
  forall (cb : bool) (mk : nat -> N -> N) (k n : nat) (h : list (nat * N)),
  1 <= k <= n -> n <= 256 ->
  (forall ev, In ev h -> fst ev < n) ->
  ndistinct n (map fst h) < k ->
  let core := fun k' t => rs_core256 k' n t in
  let r := rs_finish core cb mk (run N core cb mk k n h) in
  snd r = FAILURE /\ rs_source_tab (fst r) = None /\
  rs_is_complete (run N core cb mk k n h) = false.
Proof.
  intros cb mk k n h [Hk1 Hkn] Hn Hh Hd core.
  exact (gen_session_too_few core cb mk k n Hk1 Hkn (rs_core256_core_ok k n Hn) h Hh Hd).
Qed.

(* R3 in the form of the codeword histories of R1/R2 *)
Corollary rs256_session_too_few_cw :
  forall (cb : bool) (k n : nat) (src : list N) (h : list (nat * N)),
  1 <= k <= n -> n <= 256 -> length src = k -> Forall (fun a => (a < 256)%N) src ->
  (forall ev, In ev h -> fst ev < n /\ snd ev = elem256 k src (fst ev)) ->
  ndistinct n (map fst h) < k ->
  let core := fun k' t => rs_core256 k' n t in
  let r := rs_finish core cb mkid (run N core cb mkid k n h) in
  snd r = FAILURE /\ rs_source_tab (fst r) = None /\
  rs_is_complete (run N core cb mkid k n h) = false.
Proof.
  intros cb k n src h Hk Hn _ _ Hh Hd.
  exact (rs256_session_too_few cb mkid k n h Hk Hn (fun ev Hin => proj1 (Hh ev Hin)) Hd).
Qed.

(* R2': of_set_available_symbols (the whole table at once) then of_finish_decoding *)
Theorem rs256_avail_recovers_the_sources :
  forall (cb : bool) (k n : nat) (src : list N) (t : list (option N)),
  1 <= k <= n -> n <= 256 -> length src = k -> Forall (fun a => (a < 256)%N) src ->
  length t = n ->
  (forall e, e < n -> nth e t None = None \/ nth e t None = Some (elem256 k src e)) ->
  k <= count_some t ->
  let core := fun k' t => rs_core256 k' n t in
  let r := rs_finish core cb mkid (fst (rs_set_available (rs_init N k n) t)) in
  snd r = OK /\ rs_is_complete (fst r) = true /\
  rs_source_tab (fst r) = Some (map Some src).
Proof.
  intros cb k n src t [Hk1 Hkn] Hn Hls HF HL Ht Hc core.
  exact (gen_avail_recovers core cb k n src (elem256 k src) Hk1 Hkn Hls
           (fun e He => elem256_systematic k src e ltac:(lia) Hls HF He)
           (fun t' HL' Ht' Hc' =>
              rs_core256_correct k n src t' (conj Hk1 Hkn) Hn Hls HF HL' Ht' Hc')
           t HL Ht Hc).
Qed.

(* R3' *)
Theorem rs256_avail_too_few :
  forall (cb : bool) (mk : nat -> N -> N) (k n : nat) (t : list (option N)),
  count_some t < k ->
  let core := fun k' t => rs_core256 k' n t in
  let r := rs_finish core cb mk (fst (rs_set_available (rs_init N k n) t)) in
  snd r = FAILURE /\ rs_is_complete (fst r) = false /\ rs_source_tab (fst r) = None.
Proof.
  intros cb mk k n t Hc core.
  exact (gen_avail_too_few core cb mk k n t Hc).
Qed.

(* ---- q = 16 (the of_rs_2_m codec with m = 4): core := fun k' t => rs_core16 k' n t ---- *)
Theorem rs16_run_table :
  forall (cb : bool) (k n : nat) (src : list N) (h : list (nat * N)),
  1 <= k <= n -> n <= 16 -> length src = k -> Forall (fun a => (a < 16)%N) src ->
  (forall ev, In ev h -> fst ev < n /\ snd ev = elem16 k src (fst ev)) ->
  let core := fun k' t => rs_core16 k' n t in
  forall s : rs N,
  s = run N core cb mkid k n h \/ s = fst (rs_finish core cb mkid (run N core cb mkid k n h)) ->
  length (tab s) = n /\
  forall e, e < n ->
    (nth e (tab s) None = None \/ nth e (tab s) None = Some (elem16 k src e)) /\
    (e < k -> nth e (tab s) None = None \/ nth e (tab s) None = Some (nth e src 0%N)).
Proof.
  intros cb k n src h [Hk1 Hkn] Hn Hls HF Hh core s Hs.
  destruct (gen_run_table core cb k n src (elem16 k src) Hk1 Hkn Hls
              (fun e He => elem16_systematic k src e ltac:(lia) Hls HF He)
              (fun t HL Ht Hc => rs_core16_correct k n src t (conj Hk1 Hkn) Hn Hls HF HL Ht Hc)
              h Hh) as [A B].
  destruct Hs as [Hs|Hs]; subst s; [exact A|exact B].
Qed.

Theorem rs16_run_recovers_the_sources :
  forall (cb : bool) (k n : nat) (src : list N) (h : list (nat * N)),
  1 <= k <= n -> n <= 16 -> length src = k -> Forall (fun a => (a < 16)%N) src ->
  (forall ev, In ev h -> fst ev < n /\ snd ev = elem16 k src (fst ev)) ->
  k <= ndistinct n (map fst h) ->
  let core := fun k' t => rs_core16 k' n t in
  rs_is_complete (run N core cb mkid k n h) = true /\
  rs_source_tab (run N core cb mkid k n h) = Some (map Some src).
Proof.
  intros cb k n src h [Hk1 Hkn] Hn Hls HF Hh Hd core.
  exact (gen_run_complete core cb k n src (elem16 k src) Hk1 Hkn Hls
           (fun e He => elem16_systematic k src e ltac:(lia) Hls HF He)
           (rs_core16_core_ok k n Hn)
           (fun t HL Ht Hc => rs_core16_correct k n src t (conj Hk1 Hkn) Hn Hls HF HL Ht Hc)
           h Hh Hd).
Qed.

Theorem rs16_session_recovers_the_sources :
  forall (cb : bool) (k n : nat) (src : list N) (h : list (nat * N)),
  1 <= k <= n -> n <= 16 -> length src = k -> Forall (fun a => (a < 16)%N) src ->
  (forall ev, In ev h -> fst ev < n /\ snd ev = elem16 k src (fst ev)) ->
  k <= ndistinct n (map fst h) ->
  let core := fun k' t => rs_core16 k' n t in
  let r := rs_finish core cb mkid (run N core cb mkid k n h) in
  snd r = OK /\ rs_source_tab (fst r) = Some (map Some src).
Proof.
  intros cb k n src h [Hk1 Hkn] Hn Hls HF Hh Hd core.
  exact (gen_session_recovers core cb k n src (elem16 k src) Hk1 Hkn Hls
           (fun e He => elem16_systematic k src e ltac:(lia) Hls HF He)
           (rs_core16_core_ok k n Hn)
           (fun t HL Ht Hc => rs_core16_correct k n src t (conj Hk1 Hkn) Hn Hls HF HL Ht Hc)
           h Hh Hd).
Qed.

Theorem rs16_session_too_few :
  forall (cb : bool) (mk : nat -> N -> N) (k n : nat) (h : list (nat * N)),
  1 <= k <= n -> n <= 16 ->
  (forall ev, In ev h -> fst ev < n) ->
  ndistinct n (map fst h) < k ->
  let core := fun k' t => rs_core16 k' n t in
  let r := rs_finish core cb mk (run N core cb mk k n h) in
  snd r = FAILURE /\ rs_source_tab (fst r) = None /\
  rs_is_complete (run N core cb mk k n h) = false.
Proof.
  intros cb mk k n h [Hk1 Hkn] Hn Hh Hd core.
  exact (gen_session_too_few core cb mk k n Hk1 Hkn (rs_core16_core_ok k n Hn) h Hh Hd).
Qed.

Corollary rs16_session_too_few_cw :
  forall (cb : bool) (k n : nat) (src : list N) (h : list (nat * N)),
  1 <= k <= n -> n <= 16 -> length src = k -> Forall (fun a => (a < 16)%N) src ->
  (forall ev, In ev h -> fst ev < n /\ snd ev = elem16 k src (fst ev)) ->
  ndistinct n (map fst h) < k ->
  let core := fun k' t => rs_core16 k' n t in
  let r := rs_finish core cb mkid (run N core cb mkid k n h) in
  snd r = FAILURE /\ rs_source_tab (fst r) = None /\
  rs_is_complete (run N core cb mkid k n h) = false.
Proof.
  intros cb k n src h Hk Hn _ _ Hh Hd.
  exact (rs16_session_too_few cb mkid k n h Hk Hn (fun ev Hin => proj1 (Hh ev Hin)) Hd).
Qed.

Theorem rs16_avail_recovers_the_sources :
  forall (cb : bool) (k n : nat) (src : list N) (t : list (option N)),
  1 <= k <= n -> n <= 16 -> length src = k -> Forall (fun a => (a < 16)%N) src ->
  length t = n ->
  (forall e, e < n -> nth e t None = None \/ nth e t None = Some (elem16 k src e)) ->
  k <= count_some t ->
  let core := fun k' t => rs_core16 k' n t in
  let r := rs_finish core cb mkid (fst (rs_set_available (rs_init N k n) t)) in
  snd r = OK /\ rs_is_complete (fst r) = true /\
  rs_source_tab (fst r) = Some (map Some src).
Proof.
  intros cb k n src t [Hk1 Hkn] Hn Hls HF HL Ht Hc core.
  exact (gen_avail_recovers core cb k n src (elem16 k src) Hk1 Hkn Hls
           (fun e He => elem16_systematic k src e ltac:(lia) Hls HF He)
           (fun t' HL' Ht' Hc' =>
              rs_core16_correct k n src t' (conj Hk1 Hkn) Hn Hls HF HL' Ht' Hc')
           t HL Ht Hc).
Qed.

Theorem rs16_avail_too_few :
  forall (cb : bool) (mk : nat -> N -> N) (k n : nat) (t : list (option N)),
  count_some t < k ->
  let core := fun k' t => rs_core16 k' n t in
  let r := rs_finish core cb mk (fst (rs_set_available (rs_init N k n) t)) in
  snd r = FAILURE /\ rs_is_complete (fst r) = false /\ rs_source_tab (fst r) = None.
Proof.
  intros cb mk k n t Hc core.
  exact (gen_avail_too_few core cb mk k n t Hc).
Qed.

(* ---- examples: k = 2, n = 4 over GF(256), the codeword of [5; 7] is [5; 7; 1; 13] ---- *)
(* repair 3, a duplicate, then source 1: complete at the second distinct symbol, source 0
   decoded (one callback, ESI 0) *)
Example session256_2_4 :
  let s := run N (fun k' t => rs_core256 k' 4 t) true mkid 2 4 [(3, 13%N); (3, 13%N); (1, 7%N)] in
  rs_is_complete s = true /\ rs_source_tab s = Some [Some 5; Some 7]%N /\ evs s = [0] /\
  tab s = [Some 5; Some 7; None; Some 13]%N.
Proof. vm_compute. repeat split; reflexivity. Qed.
Example session256_2_4_few :
  let core := fun k' t => rs_core256 k' 4 t in
  let s := run N core true mkid 2 4 [(3, 13%N); (3, 13%N)] in
  rs_is_complete s = false /\ snd (rs_finish core true mkid s) = FAILURE.
Proof. vm_compute. split; reflexivity. Qed.

Print Assumptions rs256_run_table.
Print Assumptions rs256_run_recovers_the_sources.
Print Assumptions rs256_session_recovers_the_sources.
Print Assumptions rs256_session_too_few.
Print Assumptions rs256_session_too_few_cw.
Print Assumptions rs256_avail_recovers_the_sources.
Print Assumptions rs256_avail_too_few.
Print Assumptions rs16_run_table.
Print Assumptions rs16_run_recovers_the_sources.
Print Assumptions rs16_session_recovers_the_sources.
Print Assumptions rs16_session_too_few.
Print Assumptions rs16_session_too_few_cw.
Print Assumptions rs16_avail_recovers_the_sources.
Print Assumptions rs16_avail_too_few.
