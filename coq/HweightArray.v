(* Model M, continued (C18): of_hweight_array (of_hamming_weight.c) and of_mod2dense_row_weight_ignore_first
   (of_matrix_dense.c), built on the two translator-generated popcounts (gen/GenPopcount.v) and the table-driven one.
   of_hweight_array (array, size) counts the ones of the ceil(size/32) 32-bit words that hold the first `size` bits -
   WHOLE words, 64 bits at a time (of_popcount_3 on two adjacent words, little endian) and one of_hweight32_table for an
   odd word out; it never reads past those words. *)
From Coq Require Import ZArith List Bool.
From OFV Require Import CSem Dense PopcountProofs.
From OFV.gen Require Import GenPopcount.
Import ListNotations.
Local Open Scope Z_scope.

(* array_size_32: size >> 5, plus one when size % 32 > 0   (INT32 size, 0 <= size) *)
Definition hw_words (size : Z) : Z := Z.shiftr size 5 + (if 0 <? size mod 32 then 1 else 0).

Fixpoint hw_loop64 (n : nat) (ws : list Z) (acc : Z) : option (Z * list Z) :=
  match n with
  | O => Some (acc, ws)
  | S n' =>
    match ws with
    | w0 :: w1 :: t =>
      match of_popcount_3 c_of_m1 c_of_m2 c_of_m4 c_of_h01 (w0 + 4294967296 * w1) with
      | Some p => hw_loop64 n' t (wrapu32 (acc + p))
      | None => None
      end
    | _ => None                                   (* would read past the array *)
    end
  end.

Definition hweight_array (ws : list Z) (size : Z) : option Z :=
  let n32 := hw_words size in
  match hw_loop64 (Z.to_nat (Z.shiftr n32 1)) ws 0 with
  | None => None
  | Some (acc, rest) =>
    if n32 mod 2 =? 0 then Some acc
    else match rest with w :: _ => Some (wrapu32 (acc + hweight32_table w)) | [] => None end
  end.

(* of_mod2dense_row_weight_ignore_first (m, i, nb_ignore): the words before word nb_ignore >> 5 are skipped - whole words,
   so the bits nb_ignore mod 32 .. of the first counted word ARE counted; UINT32(-1) for a row out of range *)
Definition d_row_weight_ignore_first (m : dmat) (i nb : nat) : option Z :=
  if (dr m <=? i)%nat then Some 4294967295
  else let off := (nb / 32)%nat in
       hweight_array (map Z.of_N (skipn off (nth i (drows m) []))) (Z.of_nat (dc m) - 32 * Z.of_nat off).
