From Coq Require Import Arith List Bool Lia.
From OFV Require Import ListAux XorGroup DenseSolve.
Import ListNotations.

Section P.
Variable Sy : Type. Variable sxor : Sy -> Sy -> Sy. Variable s0 : Sy.
Hypothesis sxor_assoc : forall a b c, sxor a (sxor b c) = sxor (sxor a b) c.
Hypothesis sxor_comm : forall a b, sxor a b = sxor b a.
Hypothesis sxor_0_l : forall a, sxor s0 a = a.
Hypothesis sxor_nilp : forall a, sxor a a = s0.
Variable p q : nat.     (* p equations, q unknowns *)

Notation xsum := (xsum Sy sxor s0).
Notation sys := (sys Sy).
Notation val := (val Sy s0).
Let s0r := sxor_0_r Sy sxor s0 sxor_comm sxor_0_l.

Definition dot (row : list bool) (x : list Sy) : Sy :=
  xsum (map (fun j => if bit row j then nth j x s0 else s0) (seq 0 q)).
Definition sol (y : sys) (x : list Sy) : Prop :=
  forall r, r < p -> dot (getrow (sA y) r) x = val (nth r (sb y) None).
Record WFs (y : sys) : Prop := {
  w_rows : length (sA y) = p; w_b : length (sb y) = p;
  w_len : forall r, r < p -> length (getrow (sA y) r) = q }.

(* ---- word-granular row XOR = full row XOR when the added row is zero before that word ---- *)
Lemma bit_xor_from_aux c0 : forall s t i c, length s = length t ->
  bit (xor_from_aux c0 i s t) c = if c0 <=? i + c then xorb (bit s c) (bit t c) else bit s c.
Proof.
  unfold bit. induction s as [|x s IH]; intros [|y t] i c Hl; simpl in *; try discriminate.
  - destruct c; simpl; destruct (c0 <=? _); reflexivity.
  - destruct c as [|c]; simpl.
    + now rewrite Nat.add_0_r.
    + rewrite IH by lia. now rewrite Nat.add_succ_r.
Qed.

Lemma bit_xor_row_from c0 s t c : length s = length t -> (forall c', c' < c0 -> bit t c' = false) ->
  bit (xor_row_from c0 s t) c = xorb (bit s c) (bit t c).
Proof.
  intros Hl Hz. unfold xor_row_from. rewrite bit_xor_from_aux by exact Hl. simpl.
  destruct (Nat.leb_spec c0 c); [reflexivity|]. rewrite (Hz c) by lia. now rewrite xorb_false_r.
Qed.

Lemma xor_from_aux_length c0 : forall s t i, length (xor_from_aux c0 i s t) = length s.
Proof. induction s as [|x s IH]; intros [|y t] i; simpl; auto. Qed.

(* ---- dot product is linear in the row ---- *)
Lemma dot_xor r' s t x : (forall c, c < q -> bit r' c = xorb (bit s c) (bit t c)) -> dot r' x = sxor (dot s x) (dot t x).
Proof.
  intros H. unfold dot. rewrite <- (xsum_pointwise Sy sxor s0 sxor_assoc sxor_comm sxor_0_l).
  f_equal. apply map_ext_in. intros c Hc. apply in_seq in Hc. rewrite H by lia.
  destruct (bit s c), (bit t c); simpl; auto.
Qed.

Lemma dot_ext r1 r2 x : (forall c, c < q -> bit r1 c = bit r2 c) -> dot r1 x = dot r2 x.
Proof. intros H. unfold dot. f_equal. apply map_ext_in. intros c Hc. apply in_seq in Hc. now rewrite H by lia. Qed.

Lemma dot_ext_x r x x' : (forall j, j < q -> nth j x s0 = nth j x' s0) -> dot r x = dot r x'.
Proof. intros H. unfold dot. f_equal. apply map_ext_in. intros c Hc. apply in_seq in Hc. now rewrite H by lia. Qed.

Lemma getrow_upd A r r' row : r < length A -> getrow (upd A r row) r' = if r' =? r then row else getrow A r'.
Proof.
  intros H. unfold getrow. destruct (Nat.eqb_spec r' r) as [->|Hne]; [apply nth_upd_eq; exact H|apply nth_upd_neq; lia].
Qed.
Lemma nth_updo {X} (l : list X) r r' v d : r < length l -> nth r' (upd l r v) d = if r' =? r then v else nth r' l d.
Proof.
  intros H. destruct (Nat.eqb_spec r' r) as [->|Hne]; [apply nth_upd_eq; exact H|apply nth_upd_neq; lia].
Qed.

(* ---- one elimination step on row j with pivot row i ---- *)
Definition vb (y : sys) (r : nat) : Sy := val (nth r (sb y) None).

Lemma elim_row_spec (y : sys) i j : WFs y -> i < p -> j < p -> i <> j ->
  (forall c, c < 32 * (i / 32) -> bit (getrow (sA y) i) c = false) ->
  let y' := elim_row Sy sxor s0 i y j in
  WFs y' /\
  (forall r, r <> j -> getrow (sA y') r = getrow (sA y) r) /\
  (forall c, bit (getrow (sA y') j) c =
             if bit (getrow (sA y) j) i then xorb (bit (getrow (sA y) j) c) (bit (getrow (sA y) i) c) else bit (getrow (sA y) j) c) /\
  (forall r, r < p -> r <> j -> vb y' r = vb y r) /\
  (vb y' j = if bit (getrow (sA y) j) i then sxor (vb y j) (vb y i) else vb y j).
Proof.
  intros W Hi Hj Hne Hz. cbv zeta. unfold elim_row.
  destruct (bit (getrow (sA y) j) i) eqn:Eb; [|repeat split; auto; apply W].
  assert (Hlen : length (getrow (sA y) j) = length (getrow (sA y) i)) by (rewrite !(w_len y W); auto).
  assert (Hrows : forall (b' : list (option Sy)),
     forall r, r <> j -> getrow (sA {| sA := upd (sA y) j (xor_row_from (32 * (i / 32)) (getrow (sA y) j) (getrow (sA y) i)); sb := b' |}) r = getrow (sA y) r).
  { intros b' r Hr. simpl. rewrite getrow_upd by (rewrite (w_rows y W); exact Hj). destruct (Nat.eqb_spec r j); [congruence|reflexivity]. }
  assert (Hrowj : forall (b' : list (option Sy)) c,
     bit (getrow (sA {| sA := upd (sA y) j (xor_row_from (32 * (i / 32)) (getrow (sA y) j) (getrow (sA y) i)); sb := b' |}) j) c
     = xorb (bit (getrow (sA y) j) c) (bit (getrow (sA y) i) c)).
  { intros b' c. simpl. rewrite getrow_upd by (rewrite (w_rows y W); exact Hj). rewrite Nat.eqb_refl.
    apply bit_xor_row_from; assumption. }
  assert (HW : forall b', length b' = p -> WFs {| sA := upd (sA y) j (xor_row_from (32 * (i / 32)) (getrow (sA y) j) (getrow (sA y) i)); sb := b' |}).
  { intros b' Hb'. constructor; simpl; [rewrite upd_length; apply W|exact Hb'|].
    intros r Hr. rewrite getrow_upd by (rewrite (w_rows y W); exact Hj). destruct (Nat.eqb_spec r j) as [->|]; [|apply W; exact Hr].
    unfold xor_row_from. rewrite xor_from_aux_length. apply W. exact Hj. }
  unfold vb. destruct (nth i (sb y) None) as [ci|] eqn:Eci.
  - split; [apply HW; rewrite upd_length; apply W|]. split; [apply Hrows|]. split; [apply Hrowj|]. split.
    + intros r Hr Hrj. simpl. rewrite nth_updo by (rewrite (w_b y W); exact Hj). destruct (Nat.eqb_spec r j); [congruence|reflexivity].
    + simpl. rewrite nth_updo by (rewrite (w_b y W); exact Hj). rewrite Nat.eqb_refl.
      destruct (nth j (sb y) None) as [cj|]; simpl; [reflexivity|now rewrite sxor_0_l].
  - split; [apply HW; rewrite upd_length; apply W|]. split; [apply Hrows|]. split; [apply Hrowj|]. split.
    + intros r Hr Hrj. simpl. rewrite nth_updo by (rewrite (w_b y W); exact Hi). destruct (Nat.eqb_spec r i) as [->|]; [now rewrite Eci|reflexivity].
    + simpl. rewrite nth_updo by (rewrite (w_b y W); exact Hi). destruct (Nat.eqb_spec j i); [congruence|]. now rewrite s0r.
Qed.

(* an elementary row operation does not change the solution set *)
Lemma rowop_sol (y y' : sys) i j : i < p -> j < p -> i <> j ->
  (forall r, r <> j -> getrow (sA y') r = getrow (sA y) r) ->
  (forall c, bit (getrow (sA y') j) c = xorb (bit (getrow (sA y) j) c) (bit (getrow (sA y) i) c)) ->
  (forall r, r < p -> r <> j -> vb y' r = vb y r) -> vb y' j = sxor (vb y j) (vb y i) ->
  forall x, sol y' x <-> sol y x.
Proof.
  intros Hi Hj Hne Hrows Hrowj Hvb Hvbj x. unfold sol. fold (vb y). fold (vb y').
  assert (Hd : dot (getrow (sA y') j) x = sxor (dot (getrow (sA y) j) x) (dot (getrow (sA y) i) x)) by (apply dot_xor; intros; apply Hrowj).
  split; intros H r Hr.
  - destruct (Nat.eq_dec r j) as [->|Hrj].
    + pose proof (H j Hj) as Ej. pose proof (H i Hi) as Ei. fold (vb y' j) in Ej. fold (vb y' i) in Ei.
      rewrite Hd, Hvbj in Ej. rewrite (Hrows i Hne), (Hvb i Hi Hne) in Ei. fold (vb y j).
      rewrite Ei in Ej. rewrite (sxor_comm (dot _ x)), (sxor_comm (vb y j)) in Ej.
      apply (sxor_cancel Sy sxor s0 sxor_assoc sxor_0_l sxor_nilp) in Ej. exact Ej.
    + specialize (H r Hr). fold (vb y' r) in H. rewrite (Hrows r Hrj), (Hvb r Hr Hrj) in H. exact H.
  - destruct (Nat.eq_dec r j) as [->|Hrj].
    + fold (vb y' j). rewrite Hd, Hvbj. pose proof (H j Hj) as Ej. pose proof (H i Hi) as Ei.
      fold (vb y j) in Ej. fold (vb y i) in Ei. now rewrite Ej, Ei.
    + fold (vb y' r). rewrite (Hrows r Hrj), (Hvb r Hr Hrj). apply H. exact Hr.
Qed.

(* ---- structure reached after processing columns 0..i-1 ---- *)
Definition Lower (y : sys) (i : nat) : Prop := forall r c, c < i -> c < r -> r < p -> bit (getrow (sA y) r) c = false.
Definition Diag (y : sys) (i : nat) : Prop := forall c, c < i -> bit (getrow (sA y) c) c = true.

Lemma find_pivot_spec A i : forall cnt j, find_pivot A i j cnt = None \/
  exists j', find_pivot A i j cnt = Some j' /\ j <= j' < j + cnt /\ bit (getrow A j') i = true.
Proof.
  induction cnt as [|c IH]; intros j; simpl; [now left|].
  destruct (bit (getrow A j) i) eqn:E.
  - right. exists j. split; [reflexivity|]. split; [lia|exact E].
  - destruct (IH (S j)) as [H|(j' & H & Hr & Hb)]; [now left|]. right. exists j'. split; [exact H|]. split; [lia|exact Hb].
Qed.

Lemma elim_loop i rowi (y1 : sys) : i < p -> i < q -> bit rowi i = true -> (forall c, c < i -> bit rowi c = false) ->
  forall js (y : sys), (forall j, In j js -> i < j < p) ->
  WFs y -> getrow (sA y) i = rowi -> Lower y i -> (forall x, sol y x <-> sol y1 x) ->
  let y' := fold_left (elim_row Sy sxor s0 i) js y in
  WFs y' /\ getrow (sA y') i = rowi /\ Lower y' i /\ (forall x, sol y' x <-> sol y1 x) /\
  (forall r, ~ In r js -> getrow (sA y') r = getrow (sA y) r) /\
  (forall j, In j js -> bit (getrow (sA y') j) i = false).
Proof.
  intros Hi Hiq Hpiv Hzero. induction js as [|j js IH]; intros y Hjs W Hri HL Hsol; cbv zeta.
  - simpl. split; [exact W|]. split; [exact Hri|]. split; [exact HL|]. split; [exact Hsol|]. split; [reflexivity|intros j []].
  - simpl fold_left.
    assert (Hj : i < j < p) by (apply Hjs; now left).
    assert (Hz32 : forall c, c < 32 * (i / 32) -> bit (getrow (sA y) i) c = false).
    { intros c Hc. rewrite Hri. apply Hzero. pose proof (Nat.mul_div_le i 32 ltac:(lia)). lia. }
    destruct (elim_row_spec y i j W Hi ltac:(lia) ltac:(lia) Hz32) as (W1 & Hrows & Hrowj & Hvb & Hvbj).
    set (y2 := elim_row Sy sxor s0 i y j) in *.
    assert (Hri2 : getrow (sA y2) i = rowi) by (rewrite Hrows by lia; exact Hri).
    assert (HL2 : Lower y2 i).
    { intros r c Hc Hcr Hr. destruct (Nat.eq_dec r j) as [->|Hrj]; [|rewrite Hrows by exact Hrj; apply HL; assumption].
      rewrite Hrowj. destruct (bit (getrow (sA y) j) i); [|apply HL; assumption].
      rewrite (HL j c Hc Hcr Hr), Hri, (Hzero c Hc). reflexivity. }
    assert (Hsol2 : forall x, sol y2 x <-> sol y1 x).
    { intros x. rewrite <- Hsol. destruct (bit (getrow (sA y) j) i) eqn:Eb.
      - apply (rowop_sol y y2 i j); auto; lia.
      - unfold y2, elim_row. rewrite Eb. tauto. }
    assert (Hbit2 : bit (getrow (sA y2) j) i = false).
    { rewrite Hrowj. destruct (bit (getrow (sA y) j) i) eqn:Eb; [|reflexivity]. rewrite Hri, Hpiv. reflexivity. }
    destruct (IH y2 (fun j' Hj' => Hjs j' (or_intror Hj')) W1 Hri2 HL2 Hsol2) as (W' & Hri' & HL' & Hsol' & Hun' & Hcl').
    split; [exact W'|]. split; [exact Hri'|]. split; [exact HL'|]. split; [exact Hsol'|]. split.
    + intros r Hr. rewrite Hun' by (intros H; apply Hr; now right). apply Hrows. intros ->. apply Hr. now left.
    + intros j' [<-|Hj']; [|apply Hcl'; exact Hj'].
      destruct (in_dec Nat.eq_dec j js) as [Hin|Hnin]; [apply Hcl'; exact Hin|]. rewrite Hun' by exact Hnin. exact Hbit2.
Qed.

Lemma nth_swap {X} (l : list X) i j d r : i < length l -> j < length l ->
  nth r (swap l i j d) d = if r =? j then nth i l d else if r =? i then nth j l d else nth r l d.
Proof.
  intros Hi Hj. unfold swap. rewrite nth_updo by (rewrite upd_length; exact Hj).
  destruct (Nat.eqb_spec r j); [reflexivity|]. rewrite nth_updo by exact Hi. reflexivity.
Qed.

Lemma swap_spec (y : sys) i j : WFs y -> i < p -> j < p -> i <> j ->
  let y1 := {| sA := swap (sA y) i j []; sb := swap (sb y) i j None |} in
  WFs y1 /\ getrow (sA y1) i = getrow (sA y) j /\ getrow (sA y1) j = getrow (sA y) i /\
  (forall r, r <> i -> r <> j -> getrow (sA y1) r = getrow (sA y) r) /\ (forall x, sol y1 x <-> sol y x).
Proof.
  intros W Hi Hj Hne. cbv zeta.
  assert (HA : forall r, getrow (swap (sA y) i j []) r = if r =? j then getrow (sA y) i else if r =? i then getrow (sA y) j else getrow (sA y) r).
  { intros r. unfold getrow. apply nth_swap; rewrite (w_rows y W); assumption. }
  assert (HB : forall r, nth r (swap (sb y) i j None) None = if r =? j then nth i (sb y) None else if r =? i then nth j (sb y) None else nth r (sb y) None).
  { intros r. apply nth_swap; rewrite (w_b y W); assumption. }
  split; [|split; [|split; [|split]]]; simpl.
  - constructor; simpl; unfold swap; rewrite ?upd_length; try apply W.
    intros r Hr. fold (swap (sA y) i j []). rewrite HA. destruct (r =? j); [apply W; exact Hi|]. destruct (r =? i); apply W; assumption.
  - rewrite HA. destruct (Nat.eqb_spec i j); [congruence|]. now rewrite Nat.eqb_refl.
  - rewrite HA. now rewrite Nat.eqb_refl.
  - intros r Hri Hrj. rewrite HA. destruct (Nat.eqb_spec r j); [congruence|]. destruct (Nat.eqb_spec r i); [congruence|reflexivity].
  - intros x. unfold sol. simpl. split; intros H r Hr.
    + destruct (Nat.eq_dec r i) as [->|Hri]; [|destruct (Nat.eq_dec r j) as [->|Hrj]].
      * specialize (H j Hj). rewrite HA, HB, Nat.eqb_refl in H. exact H.
      * specialize (H i Hi). rewrite HA, HB in H. destruct (Nat.eqb_spec i j); [congruence|]. rewrite Nat.eqb_refl in H. exact H.
      * specialize (H r Hr). rewrite HA, HB in H. destruct (Nat.eqb_spec r j); [congruence|]. destruct (Nat.eqb_spec r i); [congruence|exact H].
    + rewrite HA, HB. destruct (Nat.eqb_spec r j) as [->|Hrj]; [apply H; exact Hi|].
      destruct (Nat.eqb_spec r i) as [->|Hri]; [apply H; exact Hj|apply H; exact Hr].
Qed.

Lemma col_forward_spec (y y' : sys) i : WFs y -> Lower y i -> Diag y i -> i < q ->
  col_forward Sy sxor s0 p y i = Some y' ->
  WFs y' /\ Lower y' (S i) /\ Diag y' (S i) /\ (forall x, sol y' x <-> sol y x).
Proof.
  intros W HL HD Hiq Hcf. unfold col_forward in Hcf.
  destruct (find_pivot_spec (sA y) i (p - i) i) as [E|(j & E & Hj & Hbj)]; rewrite E in Hcf; [discriminate|].
  assert (Hip : i < p) by lia. assert (Hjp : j < p) by lia.
  inversion Hcf as [Hy']. clear Hcf.
  set (y1 := if j =? i then y else {| sA := swap (sA y) i j []; sb := swap (sb y) i j None |}) in *.
  assert (H1 : WFs y1 /\ getrow (sA y1) i = getrow (sA y) j /\ Lower y1 i /\ Diag y1 i /\ (forall x, sol y1 x <-> sol y x)).
  { unfold y1. destruct (Nat.eqb_spec j i) as [->|Hne].
    - split; [exact W|]. split; [reflexivity|]. split; [exact HL|]. split; [exact HD|]. intros x; tauto.
    - destruct (swap_spec y i j W Hip Hjp ltac:(lia)) as (W1 & Ri & Rj & Ro & Hs). split; [exact W1|]. split; [exact Ri|]. split; [|split; [|exact Hs]].
      + intros r c Hc Hcr Hr. destruct (Nat.eq_dec r i) as [->|Hri]; [rewrite Ri; apply HL; lia|].
        destruct (Nat.eq_dec r j) as [->|Hrj]; [rewrite Rj; apply HL; lia|]. rewrite Ro by assumption. apply HL; assumption.
      + intros c Hc. rewrite Ro by lia. apply HD. exact Hc. }
  destruct H1 as (W1 & Ri1 & HL1 & HD1 & Hs1).
  assert (Hzero : forall c, c < i -> bit (getrow (sA y1) i) c = false) by (intros c Hc; rewrite Ri1; apply HL; lia).
  assert (Hpiv : bit (getrow (sA y1) i) i = true) by (rewrite Ri1; exact Hbj).
  destruct (elim_loop i (getrow (sA y1) i) y1 Hip Hiq Hpiv Hzero (seq (S i) (p - S i)) y1) as (W' & Ri' & HL' & Hs' & Hun' & Hcl'); auto; try tauto.
  { intros j' Hj'. apply in_seq in Hj'. lia. }
  split; [exact W'|]. split; [|split].
  - intros r c Hc Hcr Hr. destruct (Nat.eq_dec c i) as [->|Hci]; [apply Hcl'; apply in_seq; lia|apply HL'; lia].
  - intros c Hc. destruct (Nat.eq_dec c i) as [->|Hci]; [rewrite Ri'; exact Hpiv|].
    rewrite Hun' by (intros Hin; apply in_seq in Hin; lia). apply HD1. lia.
  - intros x. rewrite Hs'. apply Hs1.
Qed.

Lemma triangularize_spec : forall cnt i (y y' : sys), WFs y -> Lower y i -> Diag y i -> i + cnt <= q ->
  triangularize Sy sxor s0 p (seq i cnt) y = Some y' ->
  WFs y' /\ Lower y' (i + cnt) /\ Diag y' (i + cnt) /\ (forall x, sol y' x <-> sol y x) /\ (cnt > 0 -> i + cnt <= p).
Proof.
  induction cnt as [|cnt IH]; intros i y y' W HL HD Hq Ht; simpl in Ht.
  - inversion Ht; subst. rewrite Nat.add_0_r. split; [exact W|]. split; [exact HL|]. split; [exact HD|]. split; [intros x; tauto|intros H; inversion H].
  - destruct (col_forward Sy sxor s0 p y i) as [y1|] eqn:Ecf; [|discriminate].
    destruct (col_forward_spec y y1 i W HL HD ltac:(lia) Ecf) as (W1 & HL1 & HD1 & Hs1).
    destruct (IH (S i) y1 y' W1 HL1 HD1 ltac:(lia) Ht) as (W' & HL' & HD' & Hs' & Hp').
    replace (i + S cnt) with (S i + cnt) by lia. split; [exact W'|]. split; [exact HL'|]. split; [exact HD'|]. split.
    + intros x. rewrite Hs'. apply Hs1.
    + intros _. destruct cnt as [|cnt']; [|apply Hp'; lia].
      (* the last column found a pivot at a row index < p *)
      unfold col_forward in Ecf. destruct (find_pivot_spec (sA y) i (p - i) i) as [E|(j & E & Hj & _)]; rewrite E in Ecf; [discriminate|lia].
Qed.

Lemma fold_left_xsum (f : nat -> bool) (x : list Sy) : forall l a,
  fold_left (fun a j => if f j then sxor a (nth j x s0) else a) l a = sxor a (xsum (map (fun j => if f j then nth j x s0 else s0) l)).
Proof.
  induction l as [|j l IH]; intros a; simpl; [now rewrite s0r|].
  rewrite IH. destruct (f j); [now rewrite sxor_assoc|now rewrite sxor_0_l].
Qed.

(* in a unit upper triangular system every solution satisfies x_i = b_i + sum_{j > i, A_ij} x_j *)
Lemma triangular_row (y : sys) x' i : Lower y q -> Diag y q -> i < q -> q <= p -> sol y x' ->
  nth i x' s0 = sxor (vb y i) (xsum (map (fun j => if bit (getrow (sA y) i) j then nth j x' s0 else s0) (seq (S i) (q - S i)))).
Proof.
  intros HL HD Hi Hqp Hs. specialize (Hs i ltac:(lia)). fold (vb y i) in Hs. unfold dot in Hs.
  assert (Hseq : seq 0 q = seq 0 i ++ [i] ++ seq (S i) (q - S i)).
  { replace q with (i + S (q - S i)) at 1 by lia. rewrite seq_app. simpl. reflexivity. }
  rewrite Hseq in Hs.
  rewrite !map_app, !(xsum_app Sy sxor s0 sxor_assoc sxor_0_l) in Hs.
  rewrite (map_ext_in _ (fun _ => s0)) in Hs.
  2:{ intros c Hc. apply in_seq in Hc. rewrite (HL i c) by lia. reflexivity. }
  rewrite (xsum_zero Sy sxor s0 sxor_0_l), sxor_0_l in Hs. simpl map in Hs. rewrite (HD i Hi) in Hs.
  simpl xsum in Hs at 1. rewrite s0r in Hs.
  set (T := xsum (map (fun j => if bit (getrow (sA y) i) j then nth j x' s0 else s0) (seq (S i) (q - S i)))) in *.
  apply (sxor_move Sy sxor s0 sxor_assoc sxor_comm sxor_0_l sxor_nilp) in Hs. exact Hs.
Qed.

Lemma back_subst_spec (y : sys) x' : Lower y q -> Diag y q -> q <= p -> sol y x' ->
  forall cnt x, cnt <= q -> length x = q -> (forall j, cnt <= j < q -> nth j x s0 = nth j x' s0) ->
  forall j, j < q -> nth j (back_subst Sy sxor s0 q y cnt x) s0 = nth j x' s0.
Proof.
  intros HL HD Hqp Hs. induction cnt as [|c IH]; intros x Hc Hl Hag j Hj; simpl.
  - apply Hag. lia.
  - apply IH; [lia|rewrite upd_length; exact Hl| |exact Hj].
    intros j' Hj'. rewrite nth_updo by (rewrite Hl; lia). destruct (Nat.eqb_spec j' c) as [->|Hne]; [|apply Hag; lia].
    rewrite fold_left_xsum. fold (vb y c). rewrite (triangular_row y x' c HL HD ltac:(lia) Hqp Hs). f_equal. f_equal.
    apply map_ext_in. intros k Hk. apply in_seq in Hk. rewrite Hag by lia. reflexivity.
Qed.

(* ---- the solver returns THE solution: any solution of the system it was given coincides with the
   result on all q unknowns (hence the result is itself a solution whenever one exists) ---- *)
Theorem solve_sound_proof (y : sys) (x : list Sy) : WFs y -> solve Sy sxor s0 p q y = Some x ->
  length x = q /\
  (forall x', sol y x' -> forall j, j < q -> nth j x s0 = nth j x' s0) /\
  ((exists x', sol y x') -> sol y x).
Proof.
  intros W Hsolve. unfold solve in Hsolve.
  destruct (triangularize Sy sxor s0 p (seq 0 q) y) as [y'|] eqn:Et; [|discriminate]. inversion Hsolve as [Hx]. clear Hsolve.
  destruct (triangularize_spec q 0 y y' W) as (W' & HL & HD & Hs & Hp); auto.
  { intros r c Hc. lia. } { intros c Hc. lia. }
  simpl in HL, HD.
  assert (Hlen : forall cnt x0, length (back_subst Sy sxor s0 q y' cnt x0) = length x0).
  { induction cnt as [|c IH]; intros x0; simpl; auto. rewrite IH, upd_length. reflexivity. }
  assert (Hag : forall x', sol y x' -> forall j, j < q -> nth j (back_subst Sy sxor s0 q y' q (repeat s0 q)) s0 = nth j x' s0).
  { intros x' Hx' j Hj. destruct (Nat.eq_dec q 0) as [->|Hq0]; [lia|].
    apply (back_subst_spec y' x' HL HD ltac:(apply Hp; lia) ltac:(apply Hs; exact Hx') q); auto; [apply repeat_length|intros; lia]. }
  split; [rewrite Hlen; apply repeat_length|]. split; [exact Hag|].
  intros (x' & Hx'). intros r Hr. rewrite (dot_ext_x _ _ x' (Hag x' Hx')). apply Hx'. exact Hr.
Qed.
End P.
