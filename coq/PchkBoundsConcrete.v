(* PchkBounds.v instantiated with the PRNG generated from of_rand.c: for every accepted LDPC-Staircase configuration
   (1 <= k, 1 <= n-k, k, n-k and N1*k within the PRNG's proved range 2^24, a seed in 1..2^31-2) and every state the
   PRNG may be in at entry, the bounds-checked copy of the matrix construction is never out of bounds and returns
   exactly what the model Pchk.pchk returns.  The accepted limits (k, n <= 50000, N1 <= 255 and N1 <= n-k) give
   N1 * k <= 12,750,000 < 2^24. *)
From Coq Require Import ZArith Arith List Bool Lia.
From OFV Require Import CSem Sparse Prng Pchk PchkShape PchkConcrete PchkBounds.
From OFV.gen Require Import GenPrng.
Import ListNotations.

Lemma pokmax_le : forall a b, a <= b -> pokmax b -> pokmax a.
Proof. unfold pokmax. intros a b H. lia. Qed.

Theorem ldpc_construction_never_out_of_bounds : forall fuel k r n1 seed g0,
  1 <= k -> 1 <= r -> (1 <= seed <= PM_P - 1)%Z ->
  (Z.of_nat k <= 2 ^ 24)%Z -> (Z.of_nat r <= 2 ^ 24)%Z -> (Z.of_nat (n1 * k) <= 2 ^ 24)%Z ->
  pchk_chk rnd of_rfc5170_srand fuel k r n1 seed g0 <> OutOfBounds.
Proof.
  intros fuel k r n1 seed g0 Hk Hr Hs Hk24 Hr24 Hl24.
  exact (pchk_chk_never_oob rnd of_rfc5170_srand pgood pokmax ppre prng_rnd_good prng_rnd_range prng_srand_good pokmax_le
           fuel k r n1 seed g0 Hk Hr (seed_ppre g0 seed Hs) Hk24 Hr24 Hl24).
Qed.

Theorem ldpc_construction_checked_copy_is_the_model : forall fuel k r n1 seed g0 x,
  1 <= k -> 1 <= r -> (1 <= seed <= PM_P - 1)%Z ->
  (Z.of_nat k <= 2 ^ 24)%Z -> (Z.of_nat r <= 2 ^ 24)%Z -> (Z.of_nat (n1 * k) <= 2 ^ 24)%Z ->
  gpchk rnd of_rfc5170_srand fuel k r n1 seed g0 = Some x -> pchk_chk rnd of_rfc5170_srand fuel k r n1 seed g0 = Ok x.
Proof.
  intros fuel k r n1 seed g0 x Hk Hr Hs Hk24 Hr24 Hl24.
  exact (pchk_chk_complete rnd of_rfc5170_srand pgood pokmax ppre prng_rnd_good prng_rnd_range prng_srand_good pokmax_le
           fuel k r n1 seed g0 x Hk Hr (seed_ppre g0 seed Hs) Hk24 Hr24 Hl24).
Qed.

(* the accepted limits are inside the range *)
Lemma accepted_sizes_in_range : forall k r n1, (Z.of_nat k + Z.of_nat r <= 50000)%Z -> (Z.of_nat n1 <= 255)%Z ->
  (Z.of_nat k <= 2 ^ 24)%Z /\ (Z.of_nat r <= 2 ^ 24)%Z /\ (Z.of_nat (n1 * k) <= 2 ^ 24)%Z.
Proof.
  intros k r n1 Hn H1. change (2 ^ 24)%Z with 16777216%Z. rewrite Nat2Z.inj_mul.
  pose proof (Nat2Z.is_nonneg k). pose proof (Nat2Z.is_nonneg r). pose proof (Nat2Z.is_nonneg n1). repeat split; nia.
Qed.

Print Assumptions ldpc_construction_never_out_of_bounds.
