(* C15 — the "last repair symbol is null" claim.
   For ANY parity-check matrix (rows as duplicate-free lists of in-range columns) whose source columns
   all have even weight and whose repair part is the staircase, and any codeword over any abelian
   group of exponent 2 (symbols of any length under XOR), the last repair symbol is null.  The check
   evaluates these hypotheses on the matrix of every session whose claim is true (read from the C). *)
From Coq Require Import Arith List Bool.
From Coq Require Import ZArith.
From OFV Require Import LastNull Sparse Prng Pchk PchkConcrete.
Theorem last_repair_is_null :
  forall (Sy : Type) (sxor : Sy -> Sy -> Sy) (s0 : Sy),
  (forall a b c, sxor a (sxor b c) = sxor (sxor a b) c) -> (forall a b, sxor a b = sxor b a) ->
  (forall a, sxor s0 a = a) -> (forall a, sxor a a = s0) ->
  forall (cw : nat -> Sy) (H : list (list nat)) (r n : nat),
  1 <= r -> r <= n ->
  (forall row, In row H -> NoDup row /\ forall c, In c row -> c < n) ->
  (forall row, In row H -> rowsum Sy sxor s0 cw row = s0) ->
  (forall c, r <= c < n -> Nat.even (colcount H c) = true) ->
  (forall c, c < r - 1 -> colcount H c = 2) -> colcount H (r - 1) = 1 ->
  cw (r - 1) = s0.
Proof. exact last_repair_is_null_proof. Qed.
(* ... and the construction model (Pchk.v) satisfies those hypotheses whenever it makes the claim: for every
   accepted seed and every outcome of the pseudo-random choices, if no extra entry was added and N1 is even
   (exactly when OF_CRTL_LDPC_STAIRCASE_IS_LAST_SYMBOL_NULL answers true), the last repair symbol of EVERY
   codeword of the constructed matrix is null *)
Theorem ldpc_last_null_claim_is_true_of_the_construction :
  forall fuel k r n1 seed g0 m extra g,
  1 <= k -> 1 <= r -> (Z.of_nat k <= 2^24)%Z -> (Z.of_nat r <= 2^24)%Z ->
  (1 <= seed <= PM_P - 1)%Z -> pchk fuel k r n1 seed g0 = Some (m, extra, g) ->
  last_symbol_null_claim n1 extra = true ->
  forall (Sy : Type) (sxor : Sy -> Sy -> Sy) (s0 : Sy),
  (forall a b c, sxor a (sxor b c) = sxor (sxor a b) c) -> (forall a b, sxor a b = sxor b a) ->
  (forall a, sxor s0 a = a) -> (forall a, sxor a a = s0) ->
  forall cw : nat -> Sy, (forall row, In row (rws m) -> rowsum Sy sxor s0 cw row = s0) -> cw (r - 1) = s0.
Proof. exact pchk_last_repair_null_s. Qed.

(* what the control parameter answers is that claim: the case of of_ldpc_staircase_get_control_parameter is regenerated
   from the source on every run (gen/GenClaim.v) and proved to compute last_symbol_null_claim (ClaimTie.v) *)
From Coq Require Import ZArith.
From OFV Require Import ClaimTie.
From OFV.gen Require Import GenClaim.
Theorem the_control_parameter_answers_the_claim : forall (n1 : nat) (extra : bool), n1 < 256 ->
  is_last_symbol_null_case (Z.of_nat n1) (if extra then 1%Z else 0%Z) = Some (if last_symbol_null_claim n1 extra then 1%Z else 0%Z).
Proof. exact is_last_symbol_null_answers_the_claim. Qed.

Print Assumptions last_repair_is_null.
Print Assumptions ldpc_last_null_claim_is_true_of_the_construction.
Print Assumptions the_control_parameter_answers_the_claim.
