(* C15 — the "last repair symbol is null" claim.
   For ANY parity-check matrix (rows as duplicate-free lists of in-range columns) whose source columns
   all have even weight and whose repair part is the staircase, and any codeword over any abelian
   group of exponent 2 (symbols of any length under XOR), the last repair symbol is null.  The check
   evaluates these hypotheses on the matrix of every session whose claim is true (read from the C). *)
From Coq Require Import Arith List Bool.
From OFV Require Import LastNull.
Theorem last_repair_is_null :
  forall (Sy : Type) (sxor : Sy -> Sy -> Sy) (s0 : Sy),
  (forall a b c, sxor a (sxor b c) = sxor (sxor a b) c) -> (forall a b, sxor a b = sxor b a) ->
  (forall a, sxor s0 a = a) -> (forall a, sxor a a = s0) ->
  forall (cw : nat -> Sy) (H : list (list nat)) (r n : nat),
  1 <= r -> r <= n ->
  (forall row, In row H -> NoDup row /\ forall c, In c row -> c < n) ->
  (forall row, In row H -> rowsum Sy sxor s0 cw row = s0) ->
  (forall c, r <= c < n -> Nat.even (colcount H c) = true) ->
  (forall c, c < r - 1 -> colcount H c = 2) -> colcount H (r - 1) = 1 ->
  cw (r - 1) = s0.
Proof. exact last_repair_is_null_proof. Qed.
Print Assumptions last_repair_is_null.
