(* Correspondence (evaluated inside Coq): the tables dumped from the compiled C after of_rs_init()
   are exactly the tables the model of the generator computes. *)
From Coq Require Import NArith List.
From OFV Require Import RS28Gen RS28GenProofs.
From OFV.gen Require Import GenTables GenRS28Dump.
Lemma rs28_c_exp_eq_model : c_rs28_exp = t_exp rs28_tabs.  Proof. vm_compute. reflexivity. Qed.
Lemma rs28_c_log_eq_model : c_rs28_log = t_log rs28_tabs.  Proof. vm_compute. reflexivity. Qed.
Lemma rs28_c_inv_eq_model : c_rs28_inv = t_inv rs28_tabs.  Proof. vm_compute. reflexivity. Qed.
Lemma rs28_c_mul_eq_model : c_rs28_mul = rs28_mulm.        Proof. vm_compute. reflexivity. Qed.
