Require Import List Arith Bool Lia. Import ListNotations.
From OFV Require Import ITModel ITLemmas.

Section P.
Variable Sy : Type. Variable sxor : Sy -> Sy -> Sy. Variable s0 : Sy.
Notation st := (st Sy).

Variable H0 : list (list nat).     (* original parity-check rows, as matrix columns *)
Variable R0 N0 : nat.              (* number of rows, number of columns *)
Hypothesis H0_len : length H0 = R0.
Hypothesis H0_nodup : forall i, i < R0 -> NoDup (nth i H0 []).
Hypothesis H0_range : forall i c, i < R0 -> In c (nth i H0 []) -> c < N0.
Hypothesis H0_deg : forall i, i < R0 -> 2 <= length (nth i H0 []).
Hypothesis R_le_N : R0 <= N0.

Definition Urow (kn:nat->bool) i := filter (fun c => negb (kn c)) (nth i H0 []).

Record WF (s:st) : Prop := {
  wf_r : r s = R0; wf_n : n s = N0;
  wf_rws : length (rws s) = R0; wf_unk : length (unk s) = R0; wf_enc : length (enc s) = R0;
  wf_ct : length (ct s) = R0; wf_tab : length (tab s) = N0;
  wf_fnd : fnd s <= N0 - R0;
  wf_cur : forall j, j < fnd s -> known s (R0 + j) = true }.

Definition lazy kn (s:st) i := nth i (rws s) [] = nth i H0 [] /\ getn (unk s) i = length (Urow kn i)
   /\ getn (enc s) i = length (nth i H0 []) /\ 2 <= length (Urow kn i).
Definition consumed kn (pend:option nat) (s:st) i := nth i (rws s) [] = [] /\ getn (enc s) i = 0
   /\ forall c, In c (Urow kn i) -> pend = Some c.
Definition ready kn (s:st) i := nth i (rws s) [] = Urow kn i /\ length (Urow kn i) <= 1
   /\ getn (enc s) i = length (Urow kn i) /\ getn (unk s) i = length (Urow kn i).
Definition rowinv kn (pend:option nat) (s:st) i :=
  match nth i (ct s) None with
  | None => lazy kn s i \/ consumed kn pend s i
  | Some _ => ready kn s i
  end.
Definition Inv (s:st) := forall i, i < R0 -> rowinv (known s) None s i.
Definition PInv (s:st) e := forall i, i < R0 -> rowinv (known s) (Some e) s i.
Definition ready1 (s:st) i := nth i (ct s) None <> None /\ length (nth i (rws s) []) = 1.
Definition iscomp (s:st) := forall c, R0 <= c < N0 -> known s c = true.

Lemma Inv_PInv s e : Inv s -> PInv s e.
Proof.
  intros H i Hi. specialize (H i Hi). unfold rowinv in *. destruct (nth i (ct s) None); auto.
  destruct H as [H|[A [B C]]]; [now left|right]. repeat split; auto. intros c Hc. specialize (C c Hc). discriminate.
Qed.

(* knowledge after adding e *)
Definition kadd (kn:nat->bool) e := fun c => kn c || (c =? e).

Lemma Urow_kadd_notin kn e i : ~ In e (nth i H0 []) -> Urow (kadd kn e) i = Urow kn i.
Proof.
  intros H. unfold Urow, kadd. apply filter_ext_in. intros c Hc.
  destruct (c =? e) eqn:E; [apply Nat.eqb_eq in E; subst; tauto|]. now rewrite orb_false_r.
Qed.

Lemma Urow_kadd_in kn e i : i < R0 -> kn e = false -> In e (nth i H0 []) ->
  length (Urow (kadd kn e) i) = length (Urow kn i) - 1 /\ In e (Urow kn i)
  /\ Urow (kadd kn e) i = filter (fun c => negb (c =? e)) (Urow kn i).
Proof.
  intros Hi Hk Hin.
  assert (Hin' : In e (Urow kn i)) by (unfold Urow; apply filter_In; split; auto; now rewrite Hk).
  assert (Heq : Urow (kadd kn e) i = filter (fun c => negb (c =? e)) (Urow kn i)).
  { unfold Urow, kadd. rewrite filter_filter. apply filter_ext. intros c. now rewrite negb_orb. }
  split; [|split]; auto. rewrite Heq. apply filter_remove_nodup; auto.
  unfold Urow. apply NoDup_filter. auto.
Qed.


Definition same_row (s s':st) j := nth j (rws s') [] = nth j (rws s) [] /\ getn (unk s') j = getn (unk s) j
  /\ getn (enc s') j = getn (enc s) j /\ nth j (ct s') None = nth j (ct s) None.

Lemma rowinv_same_row kn pend s s' j : same_row s s' j -> rowinv kn pend s j -> rowinv kn pend s' j.
Proof.
  intros (A & B & C & D). unfold rowinv, lazy, consumed, ready. rewrite A, B, C, D. auto.
Qed.

Lemma known_tab_eq (s s':st) : tab s' = tab s -> forall c, known s' c = known s c.
Proof. intros H c. unfold known. now rewrite H. Qed.

Ltac solve_wf := constructor; simpl; rewrite ?upd_length; auto.
Ltac solve_same := let j := fresh "j" in let Hj := fresh "Hj" in
  intros j Hj; unfold same_row, getn; simpl; rewrite ?nth_upd_neq by auto; auto.

Lemma step2_row_spec s e v i kn :
  WF s -> i < R0 -> e < N0 -> kn e = false -> (forall c, known s c = kadd kn e c) ->
  In e (nth i (rws s) []) -> rowinv kn None s i ->
  let '(s', rdy) := step2_row sxor s0 s e v i in
    WF s' /\ tab s' = tab s /\ fnd s' = fnd s
    /\ rowinv (known s) None s' i
    /\ (forall j, j <> i -> same_row s s' j)
    /\ (rdy = true <-> ready1 s' i).
Proof.
  intros W Hi He Hk Hkn Hin Hrow.
  assert (HinH0 : In e (nth i H0 [])).
  { unfold rowinv in Hrow. destruct (nth i (ct s) None).
    - destruct Hrow as (A & _). rewrite A in Hin. unfold Urow in Hin. apply filter_In in Hin. tauto.
    - destruct Hrow as [(A & _)|(A & _)]; rewrite A in Hin; [auto|inversion Hin]. }
  destruct (Urow_kadd_in kn e i Hi Hk HinH0) as (HlenU & HinU & HUeq).
  assert (HUs : Urow (known s) i = Urow (kadd kn e) i).
  { unfold Urow. apply filter_ext. intros c. now rewrite Hkn. }
  destruct W as [Wr Wn Wrws Wunk Wenc Wct Wtab Wfnd Wcur].
  unfold step2_row.
  unfold rowinv in Hrow.
  destruct (nth i (ct s) None) as [t|] eqn:Ect.
  - (* ready before: the row is [e] *)
    destruct Hrow as (A & B & C & D).
    assert (HU1 : Urow kn i = [e]).
    { destruct (Urow kn i) as [|x [|y l]] eqn:EU.
      - inversion HinU.
      - destruct HinU as [->|[]]. reflexivity.
      - simpl in B. lia. }
    rewrite HU1 in *. simpl in C, D.
    rewrite A. simpl. rewrite Nat.eqb_refl. simpl.
    rewrite C, D. simpl.
    split; [solve_wf | split; [reflexivity | split; [reflexivity | split; [ | split; [solve_same | ]]]]].
    + unfold rowinv. simpl. rewrite nth_upd_eq by lia.
      unfold ready; simpl. unfold getn. rewrite !nth_upd_eq by lia.
      rewrite HUs, HUeq. simpl. rewrite Nat.eqb_refl. simpl. auto.
    + split; [discriminate|]. intros (_ & Hl). simpl in Hl. rewrite nth_upd_eq in Hl by lia. discriminate.
  - destruct Hrow as [(A & B & C & D)|(A & _)]; [|rewrite A in Hin; inversion Hin].
    (* lazy before *)
    rewrite B.
    destruct (length (Urow kn i) - 1 =? 1) eqn:E1.
    + (* becomes ready-1 *)
      apply Nat.eqb_eq in E1.
      set (ents := filter (fun c' => negb (c' =? e)) (nth i (rws s) [])).
      assert (Hents' : filter (fun c' => negb (known s c')) ents = Urow (known s) i).
      { unfold ents. rewrite A. rewrite filter_filter. unfold Urow. apply filter_ext_in. intros c Hc.
        destruct (c =? e) eqn:E; simpl; auto. apply Nat.eqb_eq in E; subst.
        rewrite Hkn. unfold kadd. rewrite Nat.eqb_refl, orb_true_r. reflexivity. }
      assert (Hlen_ents : length ents = length (nth i H0 []) - 1).
      { unfold ents. rewrite A. apply filter_remove_nodup; auto. }
      pose proof (filter_length_split (known s) ents) as Hsplit.
      rewrite Hents' in Hsplit.
      assert (HlU : length (Urow (known s) i) = 1) by (rewrite HUs; lia).
      assert (He' : getn (enc s) i - 1 - length (filter (known s) ents) = 1) by (rewrite C; lia).
      rewrite He'. simpl.
      split; [solve_wf | split; [reflexivity | split; [reflexivity | split; [ | split; [solve_same | ]]]]].
      * unfold rowinv. simpl. rewrite nth_upd_eq by lia.
        unfold ready; simpl. unfold getn. rewrite !nth_upd_eq by lia. fold ents. rewrite Hents'. rewrite HlU. repeat split; auto; lia.
      * split; [|reflexivity]. intros _. unfold ready1. simpl. rewrite !nth_upd_eq by lia. fold ents. rewrite Hents'.
        split; [discriminate|auto].
    + (* stays lazy *)
      apply Nat.eqb_neq in E1.
      split; [solve_wf | split; [reflexivity | split; [reflexivity | split; [ | split; [solve_same | ]]]]].
      * unfold rowinv. simpl. rewrite Ect. left. unfold lazy; simpl. unfold getn. rewrite nth_upd_eq by lia.
        rewrite HUs. repeat split; auto; lia.
      * split.
        -- intros Hrdy. apply Nat.eqb_eq in Hrdy. specialize (H0_deg i Hi). lia.
        -- intros (Hc & _). simpl in Hc. rewrite Ect in Hc. tauto.
Qed.


Lemma Urow_ext kn kn' i : (forall c, kn c = kn' c) -> Urow kn i = Urow kn' i.
Proof. intros H. unfold Urow. apply filter_ext. intros c. now rewrite H. Qed.
Lemma rowinv_kn_ext kn kn' pend s i : (forall c, kn c = kn' c) -> rowinv kn pend s i -> rowinv kn' pend s i.
Proof. intros H. unfold rowinv, lazy, consumed, ready. rewrite (Urow_ext kn kn' i H). auto. Qed.

Lemma ready1_same_row (s s':st) j : same_row s s' j -> (ready1 s' j <-> ready1 s j).
Proof. intros (A & _ & _ & D). unfold ready1. rewrite A, D. tauto. Qed.

Lemma same_row_refl (s:st) j : same_row s s j.
Proof. unfold same_row; auto. Qed.
Lemma same_row_trans (s1 s2 s3:st) j : same_row s1 s2 j -> same_row s2 s3 j -> same_row s1 s3 j.
Proof. unfold same_row. intros (A&B&C&D) (A'&B'&C'&D'). rewrite A', B', C', D'. auto. Qed.

Definition f2 e v := (fun '(s, L) row => let '(s', rdy) := step2_row sxor s0 s e v row in
                                         (s', if rdy then L ++ [row] else L)) : st * list nat -> nat -> st * list nat.

Lemma step2_fold e v kn : e < N0 -> kn e = false ->
  forall rowsl (s:st) L, NoDup rowsl ->
  (forall i, In i rowsl -> i < R0 /\ In e (nth i (rws s) []) /\ rowinv kn None s i) ->
  WF s -> (forall c, known s c = kadd kn e c) ->
  let '(s', L') := fold_left (f2 e v) rowsl (s, L) in
  WF s' /\ tab s' = tab s /\ fnd s' = fnd s
  /\ (forall i, In i rowsl -> rowinv (known s) None s' i /\ (ready1 s' i -> In i L'))
  /\ (forall j, ~ In j rowsl -> same_row s s' j)
  /\ (forall i, In i L' -> In i L \/ In i rowsl) /\ (forall i, In i L -> In i L').
Proof.
  intros He Hk. induction rowsl as [|a rest IH]; intros s L ND Hrows W Hkn.
  - simpl. split; [auto|]. split; [reflexivity|]. split; [reflexivity|]. split; [intros i []|].
    split; [intros; apply same_row_refl|]. split; [intros i Hi; now left | auto].
  - simpl. inversion ND as [|? ? Hnotin ND']; subst.
    destruct (Hrows a (or_introl eq_refl)) as (Ha & Hina & Hrowa).
    pose proof (step2_row_spec s e v a kn W Ha He Hk Hkn Hina Hrowa) as Hspec.
    destruct (step2_row sxor s0 s e v a) as [s1 rdy] eqn:E1.
    destruct Hspec as (W1 & T1 & F1 & R1 & S1 & RD1).
    assert (Hkn1 : forall c, known s1 c = kadd kn e c) by (intros c; rewrite (known_tab_eq _ _ T1); auto).
    assert (Hrows1 : forall i, In i rest -> i < R0 /\ In e (nth i (rws s1) []) /\ rowinv kn None s1 i).
    { intros i Hi. destruct (Hrows i (or_intror Hi)) as (A & B & C).
      assert (i <> a) by (intro; subst; tauto).
      specialize (S1 i H). split; auto. split.
      - destruct S1 as (Q & _). now rewrite Q.
      - eapply rowinv_same_row; eauto. }
    specialize (IH s1 (if rdy then L ++ [a] else L) ND' Hrows1 W1 Hkn1).
    destruct (fold_left (f2 e v) rest (s1, if rdy then L ++ [a] else L)) as [s' L'] eqn:E2.
    destruct IH as (W' & T' & F' & R' & S' & L1 & L2).
    split; auto. split; [congruence|]. split; [congruence|].
    assert (Hkeq : forall c, known s1 c = known s c) by (apply known_tab_eq; auto).
    split; [|split; [|split]].
    + intros i [->|Hi].
      * assert (Hs : same_row s1 s' i) by (apply S'; auto).
        split.
        -- eapply rowinv_same_row; eauto.
        -- intros Hr. apply (proj1 (ready1_same_row s1 s' i Hs)) in Hr. apply RD1 in Hr. subst rdy. apply L2. apply in_or_app. right. now left.
      * destruct (R' i Hi) as (A & B). split; auto.
        eapply rowinv_kn_ext; [|exact A]. auto.
    + intros j Hj. assert (j <> a) by (intro; subst; apply Hj; now left).
      eapply same_row_trans; [apply S1; auto|apply S'; intro; apply Hj; now right].
    + intros i Hi. destruct (L1 i Hi) as [Hl|Hl]; [|right; now right].
      destruct rdy; [|auto]. apply in_app_or in Hl. destruct Hl as [Hl|[->|[]]]; [auto|right; now left].
    + intros i Hi. apply L2. destruct rdy; [apply in_or_app; now left|auto].
Qed.


(* ---------- completion cursor ---------- *)
Lemma adv_spec fuel (s:st) i :
  let i' := adv fuel s i in
  i <= i' /\ (forall j, i <= j < i' -> known s (r s + j) = true /\ r s + j < n s)
  /\ (i' - i < fuel -> (r s + i' <? n s) && known s (r s + i') = false).
Proof.
  revert i. induction fuel as [|f IH]; intros i; simpl.
  - split; [lia|]. split; [intros; lia|intros; lia].
  - destruct ((r s + i <? n s) && known s (r s + i)) eqn:E.
    + specialize (IH (S i)). simpl in IH. destruct IH as (A & B & C).
      apply andb_true_iff in E. destruct E as (E1 & E2). apply Nat.ltb_lt in E1.
      split; [lia|]. split.
      * intros j Hj. destruct (Nat.eq_dec j i) as [->|Hne]; [auto|]. apply B. lia.
      * intros Hlt. apply C. lia.
    + split; [lia|]. split; [intros; lia|]. intros _. exact E.
Qed.

Lemma known_set_fnd (s:st) i c : known (set_fnd s i) c = known s c.
Proof. reflexivity. Qed.

Lemma is_complete_spec (s:st) : WF s ->
  let '(b, s') := is_complete s in
  WF s' /\ tab s' = tab s /\ rws s' = rws s /\ unk s' = unk s /\ enc s' = enc s /\ ct s' = ct s
  /\ (b = true <-> iscomp s).
Proof.
  intros W. destruct W as [Wr Wn Wrws Wunk Wenc Wct Wtab Wfnd Wcur].
  unfold is_complete.
  pose proof (adv_spec (n s - r s) s (fnd s)) as Hadv. simpl in Hadv.
  set (i' := adv (n s - r s) s (fnd s)) in *.
  destruct Hadv as (A & B & C).
  assert (Hle : i' <= N0 - R0).
  { destruct (Nat.le_gt_cases i' (N0 - R0)) as [|Hgt]; auto.
    assert (Hj : fnd s <= N0 - R0 < i') by lia. destruct (B (N0 - R0) Hj) as (_ & Hlt). rewrite Wr, Wn in Hlt. lia. }
  split; [|repeat split; auto].
  - constructor; simpl; auto.
    intros j Hj. destruct (Nat.lt_ge_cases j (fnd s)) as [Hlt|Hge]; [now apply Wcur|].
    destruct (B j (conj Hge Hj)) as (K & _). now rewrite Wr in K.
  - intros Hb. apply Nat.leb_le in Hb. rewrite Wr, Wn in Hb. intros c Hc.
    assert (Hcj : c = R0 + (c - R0)) by lia. rewrite Hcj.
    destruct (Nat.lt_ge_cases (c - R0) (fnd s)) as [Hlt|Hge]; [now apply Wcur|].
    destruct (B (c - R0)) as (K & _); [lia|]. now rewrite Wr in K.
  - intros Hcomp. apply Nat.leb_le. rewrite Wr, Wn.
    destruct (Nat.le_gt_cases (N0 - R0) i') as [|Hgt]; auto. exfalso.
    assert (Hlt : i' - fnd s < n s - r s) by lia. specialize (C Hlt).
    rewrite Wr, Wn in C. assert (Hk : known s (R0 + i') = true) by (apply Hcomp; lia).
    rewrite Hk in C. assert (R0 + i' <? N0 = true) by (apply Nat.ltb_lt; lia). rewrite H in C. discriminate.
Qed.


(* ---------- a row that no longer contains e is consistent with e known ---------- *)
Lemma rowinv_after_known kn e (s:st) i : i < R0 -> kn e = false -> ~ In e (nth i (rws s) []) ->
  rowinv kn (Some e) s i -> rowinv (kadd kn e) None s i.
Proof.
  intros Hi Hk Hnot Hrow. unfold rowinv in *.
  destruct (nth i (ct s) None).
  - destruct Hrow as (A & B & C & D).
    assert (HnH : ~ In e (nth i H0 [])).
    { intro Hin. apply Hnot. rewrite A. unfold Urow. apply filter_In. split; auto. now rewrite Hk. }
    unfold ready. rewrite (Urow_kadd_notin kn e i HnH). auto.
  - destruct Hrow as [(A & B & C & D)|(A & B & C)].
    + left. assert (HnH : ~ In e (nth i H0 [])) by (rewrite <- A; auto).
      unfold lazy. rewrite (Urow_kadd_notin kn e i HnH). auto.
    + right. unfold consumed. repeat split; auto.
      intros c Hc. exfalso.
      unfold Urow, kadd in Hc. apply filter_In in Hc. destruct Hc as (Hc1 & Hc2).
      apply negb_true_iff in Hc2. apply orb_false_iff in Hc2. destruct Hc2 as (Hc2 & Hc3).
      assert (Hin : In c (Urow kn i)) by (unfold Urow; apply filter_In; split; auto; now rewrite Hc2).
      specialize (C c Hin). inversion C; subst. rewrite Nat.eqb_refl in Hc3. discriminate.
Qed.

Lemma rowinv_pend_none kn e (s:st) i : nth i (rws s) [] <> [] -> rowinv kn (Some e) s i -> rowinv kn None s i.
Proof.
  intros Hne Hrow. unfold rowinv in *. destruct (nth i (ct s) None); auto.
  destruct Hrow as [H|(A & _)]; [now left|tauto].
Qed.

Lemma rows_with_spec (s:st) c i : r s = R0 -> (In i (rows_with s c) <-> i < R0 /\ In c (nth i (rws s) [])).
Proof.
  intros Hr. unfold rows_with. rewrite filter_In, in_seq, Hr. rewrite existsb_exists.
  split.
  - intros (A & x & Hx & E). apply Nat.eqb_eq in E; subst. split; [lia|auto].
  - intros (A & B). split; [lia|]. exists c. split; auto. apply Nat.eqb_refl.
Qed.

Lemma rows_with_nodup (s:st) c : NoDup (rows_with s c).
Proof. unfold rows_with. apply NoDup_filter. apply seq_NoDup. Qed.

Lemma step2_spec (s:st) e v :
  WF s -> e < N0 -> known s e = true ->
  (forall i, i < R0 -> rowinv (fun c => known s c && negb (c =? e)) (Some e) s i) ->
  let '(s', L) := step2 sxor s0 s e v in
  WF s' /\ tab s' = tab s /\ fnd s' = fnd s /\ Inv s'
  /\ (forall i, i < R0 -> ready1 s' i -> ready1 s i \/ In i L) /\ (forall i, In i L -> i < R0).
Proof.
  intros W He Hke Hrows.
  set (kn := fun c => known s c && negb (c =? e)).
  assert (Hk : kn e = false) by (unfold kn; rewrite Nat.eqb_refl; apply andb_false_r).
  assert (Hkn : forall c, known s c = kadd kn e c).
  { intros c. unfold kadd, kn. destruct (c =? e) eqn:E.
    - apply Nat.eqb_eq in E; subst. rewrite Hke. reflexivity.
    - simpl. now rewrite andb_true_r, orb_false_r. }
  unfold step2. fold (f2 e v).
  pose proof (step2_fold e v kn He Hk (rows_with s e) s [] (rows_with_nodup s e)) as Hf.
  assert (Hpre : forall i, In i (rows_with s e) -> i < R0 /\ In e (nth i (rws s) []) /\ rowinv kn None s i).
  { intros i Hi. apply (rows_with_spec s e i (wf_r s W)) in Hi. destruct Hi as (A & B). split; auto. split; auto.
    eapply rowinv_pend_none; [|apply Hrows; auto]. intro Hnil. rewrite Hnil in B. inversion B. }
  specialize (Hf Hpre W Hkn).
  destruct (fold_left (f2 e v) (rows_with s e) (s, [])) as [s' L] eqn:E.
  destruct Hf as (W' & T' & F' & Rr & Ss & L1 & L2).
  split; auto. split; auto. split; auto.
  assert (Hkeq : forall c, known s' c = known s c) by (apply known_tab_eq; auto).
  split; [|split].
  - intros i Hi.
    destruct (in_dec Nat.eq_dec i (rows_with s e)) as [Hin|Hnin].
    + destruct (Rr i Hin) as (A & _). eapply rowinv_kn_ext; [|exact A]. intros c. now rewrite Hkeq.
    + assert (Hne : ~ In e (nth i (rws s) [])).
      { intro Hc. apply Hnin. apply rows_with_spec; auto. apply (wf_r s W). }
      pose proof (rowinv_after_known kn e s i Hi Hk Hne (Hrows i Hi)) as Hr.
      eapply rowinv_same_row; [apply Ss; auto|].
      eapply rowinv_kn_ext; [|exact Hr]. intros c. rewrite Hkeq. now rewrite Hkn.
  - intros i Hi Hr.
    destruct (in_dec Nat.eq_dec i (rows_with s e)) as [Hin|Hnin].
    + right. now apply (Rr i Hin).
    + left. apply (ready1_same_row s s' i (Ss i Hnin)). auto.
  - intros i Hi. destruct (L1 i Hi) as [[]|Hin]. apply (rows_with_spec s e i (wf_r s W)) in Hin. tauto.
Qed.


Arguments is_complete : simpl never.

(* ---------- peeling closure and soundness ---------- *)
Inductive peel (Rc : nat -> Prop) : nat -> Prop :=
| peel_recv c : Rc c -> peel Rc c
| peel_row i c : i < R0 -> In c (nth i H0 []) ->
    (forall c', In c' (nth i H0 []) -> c' <> c -> peel Rc c') -> peel Rc c.
Definition Sound (Rc:nat->Prop) (s:st) := forall c, known s c = true -> peel Rc c.
Definition Kmono (s s':st) := forall c, known s c = true -> known s' c = true.

Definition Contract (dec : st -> nat -> Sy -> option st) := forall s e v s',
  WF s -> PInv s e -> known s e = false -> e < N0 -> dec s e v = Some s' ->
  WF s' /\ Kmono s s' /\ known s' e = true
  /\ (forall Rc, Sound Rc s -> peel Rc e -> Sound Rc s')
  /\ (iscomp s' \/ (Inv s' /\ forall i, i < R0 -> ready1 s' i -> ready1 s i)).

Lemma rowinv_fields_eq kn pend (s s':st) i :
  rws s' = rws s -> unk s' = unk s -> enc s' = enc s -> ct s' = ct s ->
  rowinv kn pend s i -> rowinv kn pend s' i.
Proof. intros A B C D. unfold rowinv, lazy, consumed, ready. rewrite A, B, C, D. auto. Qed.

Lemma iscomp_tab_eq (s s':st) : tab s' = tab s -> iscomp s -> iscomp s'.
Proof. intros T H c Hc. rewrite (known_tab_eq s s' T). auto. Qed.

Lemma step3_cons dec row L' (s:st) : step3 dec (row :: L') s =
  (let '(c', s1) := is_complete s in
   if c' then Some s1 else
   if getn (enc s1) row =? 1 then
     match nth row (rws s1) [], nth row (ct s1) None with
     | [cc], Some t => match dec (consume s1 row) cc t with None => None | Some s2 => step3 dec L' s2 end
     | _, _ => None
     end
   else step3 dec L' s1).
Proof. reflexivity. Qed.

Lemma step3_complete dec L (s s':st) : WF s -> iscomp s -> step3 dec L s = Some s' ->
  WF s' /\ iscomp s' /\ tab s' = tab s.
Proof.
  intros W Hc H. destruct L as [|row L'].
  - simpl in H. inversion H; subst. auto.
  - rewrite step3_cons in H. pose proof (is_complete_spec s W) as Hs. destruct (is_complete s) as [b s1].
    destruct Hs as (W1 & T1 & _ & _ & _ & _ & Hb).
    assert (b = true) by (apply Hb; auto). subst b. inversion H; subst.
    split; auto. split; auto. eapply iscomp_tab_eq; eauto.
Qed.

Lemma ready_row_shape (s:st) i : i < R0 -> rowinv (known s) None s i -> getn (enc s) i = 1 ->
  exists cc t, nth i (rws s) [] = [cc] /\ nth i (ct s) None = Some t /\ Urow (known s) i = [cc].
Proof.
  intros Hi Hrow He. unfold rowinv in Hrow. destruct (nth i (ct s) None) as [t|] eqn:E.
  - destruct Hrow as (A & B & C & D). rewrite He in C.
    destruct (Urow (known s) i) as [|cc [|x l]] eqn:EU; simpl in C; try lia.
    exists cc, t. auto.
  - destruct Hrow as [(A & B & C & D)|(A & B & C)].
    + specialize (H0_deg i Hi). lia.
    + lia.
Qed.

Lemma consume_spec (s:st) i cc t : WF s -> Inv s -> i < R0 ->
  nth i (rws s) [] = [cc] -> nth i (ct s) None = Some t -> Urow (known s) i = [cc] ->
  WF (consume s i) /\ PInv (consume s i) cc /\ tab (consume s i) = tab s
  /\ known s cc = false /\ cc < N0 /\ ~ ready1 (consume s i) i
  /\ (forall j, j <> i -> same_row s (consume s i) j)
  /\ (forall Rc, Sound Rc s -> peel Rc cc).
Proof.
  intros W HI Hi Hr Hc HU.
  assert (HinU : In cc (Urow (known s) i)) by (rewrite HU; now left).
  unfold Urow in HinU. apply filter_In in HinU. destruct HinU as (HinH & Hk). apply negb_true_iff in Hk.
  destruct W as [Wr Wn Wrws Wunk Wenc Wct Wtab Wfnd Wcur].
  split; [constructor; simpl; rewrite ?upd_length; auto|].
  split; [|split; [reflexivity|split; [auto|split; [eapply H0_range; eauto|split; [|split]]]]].
  - intros j Hj. destruct (Nat.eq_dec j i) as [->|Hne].
    + unfold rowinv. simpl. rewrite nth_upd_eq by lia. right.
      unfold consumed; simpl. unfold getn. rewrite !nth_upd_eq by lia. repeat split; auto.
      intros c Hc'. change (known (consume s i)) with (known s) in Hc'. rewrite HU in Hc'.
      destruct Hc' as [->|[]]. reflexivity.
    + pose proof (Inv_PInv s cc HI j Hj) as HIj.
      change (known (consume s i)) with (known s).
      eapply rowinv_same_row; [|exact HIj].
      unfold same_row, getn; simpl. rewrite !nth_upd_neq by auto. auto.
  - intros (Hct & _). simpl in Hct. rewrite nth_upd_eq in Hct by lia. tauto.
  - intros j Hne. unfold same_row, getn; simpl. rewrite !nth_upd_neq by auto. auto.
  - intros Rc HS. apply (peel_row Rc i cc Hi HinH). intros c' Hc' Hne.
    apply HS. destruct (known s c') eqn:E; auto. exfalso.
    assert (In c' (Urow (known s) i)) by (unfold Urow; apply filter_In; split; auto; now rewrite E).
    rewrite HU in H. destruct H as [->|[]]. tauto.
Qed.

Lemma Inv_fields_eq (s s':st) : tab s' = tab s -> rws s' = rws s -> unk s' = unk s -> enc s' = enc s -> ct s' = ct s ->
  Inv s -> Inv s'.
Proof.
  intros T A B C D HI i Hi. specialize (HI i Hi).
  eapply rowinv_kn_ext; [|eapply rowinv_fields_eq; eauto]. intros c. symmetry. now apply known_tab_eq.
Qed.

Lemma ready1_fields_eq (s s':st) i : rws s' = rws s -> ct s' = ct s -> (ready1 s' i <-> ready1 s i).
Proof. intros A D. unfold ready1. rewrite A, D. tauto. Qed.

Lemma step3_spec dec : Contract dec -> forall L (s s':st),
  WF s -> Inv s -> (forall i, In i L -> i < R0) -> step3 dec L s = Some s' ->
  WF s' /\ Kmono s s' /\ (forall Rc, Sound Rc s -> Sound Rc s')
  /\ (iscomp s' \/ (Inv s' /\ forall i, i < R0 -> ready1 s' i -> ready1 s i /\ ~ In i L)).
Proof.
  intros HC. induction L as [|row L' IH]; intros s s' W HI HL H; [simpl in H|rewrite step3_cons in H].
  - inversion H; subst. split; auto. split; [intros c; auto|]. split; [auto|]. right. split; auto.
  - pose proof (is_complete_spec s W) as Hs. destruct (is_complete s) as [b s1].
    destruct Hs as (W1 & T1 & A1 & B1 & C1 & D1 & Hb).
    assert (HI1 : Inv s1) by (eapply Inv_fields_eq; eauto).
    assert (Hk1 : forall c, known s1 c = known s c) by (apply known_tab_eq; auto).
    destruct b.
    + inversion H; subst. split; auto. split; [intros c Hc; now rewrite Hk1|].
      split; [intros Rc HS c Hc; apply HS; now rewrite <- Hk1|]. left.
      eapply iscomp_tab_eq; eauto. apply Hb; auto.
    + assert (Hrow : row < R0) by (apply HL; now left).
      destruct (getn (enc s1) row =? 1) eqn:E1.
      * apply Nat.eqb_eq in E1.
        destruct (ready_row_shape s1 row Hrow (HI1 row Hrow) E1) as (cc & t & Hr & Hct & HU).
        rewrite Hr, Hct in H.
        destruct (consume_spec s1 row cc t W1 HI1 Hrow Hr Hct HU) as (Wc & Pc & Tc & Kc & Cc & NRc & Sc & Pl).
        destruct (dec (consume s1 row) cc t) as [s2|] eqn:Ed; [|discriminate].
        assert (Kc' : known (consume s1 row) cc = false) by (rewrite (known_tab_eq _ _ Tc); auto).
        destruct (HC _ _ _ _ Wc Pc Kc' Cc Ed) as (W2 & M2 & K2 & S2 & Post2).
        assert (Hkc : forall c, known (consume s1 row) c = known s c) by (intros c; rewrite (known_tab_eq _ _ Tc); auto).
        destruct Post2 as [Hcomp2|(HI2 & R2)].
        -- destruct (step3_complete dec L' s2 s' W2 Hcomp2 H) as (W' & C' & T').
           split; auto. split.
           { intros c Hc. rewrite (known_tab_eq _ _ T'). apply M2. now rewrite Hkc. }
           split; [|now left].
           intros Rc HS c Hc. rewrite (known_tab_eq _ _ T') in Hc.
           assert (HSc : Sound Rc (consume s1 row)) by (intros c0 Hc0; apply HS; now rewrite <- Hkc).
           apply (S2 Rc HSc); [|exact Hc]. apply Pl. intros c0 Hc0. apply HS. now rewrite <- Hk1.
        -- assert (HL' : forall i, In i L' -> i < R0) by (intros i Hi; apply HL; now right).
           destruct (IH s2 s' W2 HI2 HL' H) as (W' & M' & S' & Post').
           split; auto. split.
           { intros c Hc. apply M'. apply M2. now rewrite Hkc. }
           split.
           { intros Rc HS. apply S'.
             assert (HSc : Sound Rc (consume s1 row)) by (intros c0 Hc0; apply HS; now rewrite <- Hkc).
             apply (S2 Rc HSc). apply Pl. intros c0 Hc0. apply HS. now rewrite <- Hk1. }
           destruct Post' as [Hc'|(HI' & R')]; [now left|right]. split; auto.
           intros i Hi Hr1. destruct (R' i Hi Hr1) as (Hr2 & Hn).
           specialize (R2 i Hi Hr2).
           assert (Hne : i <> row) by (intro; subst; tauto).
           split.
           ++ apply (ready1_fields_eq s s1 i A1 D1). apply (ready1_same_row s1 (consume s1 row) i (Sc i Hne)). auto.
           ++ intros [->|Hin]; tauto.
      * apply Nat.eqb_neq in E1.
        assert (HL' : forall i, In i L' -> i < R0) by (intros i Hi; apply HL; now right).
        destruct (IH s1 s' W1 HI1 HL' H) as (W' & M' & S' & Post').
        split; auto. split; [intros c Hc; apply M'; now rewrite Hk1|].
        split; [intros Rc HS; apply S'; intros c Hc; apply HS; now rewrite <- Hk1|].
        destruct Post' as [Hc'|(HI' & R')]; [now left|right]. split; auto.
        intros i Hi Hr1. destruct (R' i Hi Hr1) as (Hr2 & Hn).
        split; [apply (ready1_fields_eq s s1 i A1 D1); auto|].
        intros [->|Hin]; [|tauto].
        (* row is not ready-1 in s1 because enc <> 1 *)
        destruct Hr2 as (Hct & Hlen). specialize (HI1 i Hi). unfold rowinv in HI1.
        destruct (nth i (ct s1) None); [|tauto]. destruct HI1 as (A & B & C & D). rewrite A in Hlen. lia.
Qed.


(* ---------- the recursive decoder satisfies the contract ---------- *)
Lemma nth_upd_same_or {A} (l:list A) i j x d : nth j (upd l i x) d = if (j =? i) && (i <? length l) then x else nth j l d.
Proof.
  revert i j; induction l as [|h t IH]; intros i j.
  - simpl. replace (i <? 0) with false by (symmetry; apply Nat.ltb_ge; lia). rewrite andb_false_r. now destruct i.
  - destruct i as [|i], j as [|j]; simpl; auto.
    rewrite IH. reflexivity.
Qed.

Lemma known_set_tab (s:st) e v c : e < length (tab s) -> known (set_tab s e v) c = known s c || (c =? e).
Proof.
  intros He. unfold known at 1. unfold set_tab; simpl. rewrite nth_upd_same_or.
  destruct (c =? e) eqn:E; simpl.
  - assert (H : e <? length (tab s) = true) by (apply Nat.ltb_lt; auto). rewrite H. now rewrite orb_true_r.
  - now rewrite orb_false_r.
Qed.

Lemma decode_unfold fuel (s:st) c v : decode sxor s0 (S fuel) s c v =
  if known s c then Some s else
  let s1 := set_tab s c v in
  let early := if r s1 <=? c then is_complete s1 else (false, s1) in
  if fst early then Some (snd early) else
  let '(s2, L) := step2 sxor s0 (snd early) c v in
  step3 (decode sxor s0 fuel) (rev L) s2.
Proof. reflexivity. Qed.

Lemma decode_contract fuel : Contract (decode sxor s0 fuel).
Proof.
  induction fuel as [|f IH]; intros s e v s' W HP Hke He Hdec; [discriminate|].
  rewrite decode_unfold in Hdec. rewrite Hke in Hdec.
  set (s1 := set_tab s e v) in *.
  assert (Hk1 : forall c, known s1 c = known s c || (c =? e)).
  { intros c. apply known_set_tab. rewrite (wf_tab s W). auto. }
  assert (W1 : WF s1).
  { destruct W as [Wr Wn Wrws Wunk Wenc Wct Wtab Wfnd Wcur]. constructor; simpl; rewrite ?upd_length; auto.
    intros j Hj. rewrite Hk1. rewrite Wcur; auto. }
  (* the state on which step 2 runs *)
  assert (Hearly : exists b sx, (if r s1 <=? e then is_complete s1 else (false, s1)) = (b, sx)
            /\ WF sx /\ tab sx = tab s1 /\ rws sx = rws s /\ unk sx = unk s /\ enc sx = enc s /\ ct sx = ct s
            /\ (b = true -> iscomp sx)).
  { destruct (r s1 <=? e).
    - pose proof (is_complete_spec s1 W1) as Hs. destruct (is_complete s1) as [b sx].
      destruct Hs as (Wx & Tx & Ax & Bx & Cx & Dx & Hb). exists b, sx.
      split; [reflexivity|]. split; [exact Wx|]. split; [exact Tx|]. split; [exact Ax|]. split; [exact Bx|].
      split; [exact Cx|]. split; [exact Dx|].
      intros ->. assert (Hc1 : iscomp s1) by (apply Hb; auto).
      intros c Hc. rewrite (known_tab_eq s1 sx Tx). auto.
    - exists false, s1.
      split; [reflexivity|]. split; [exact W1|]. do 5 (split; [reflexivity|]). discriminate. }
  destruct Hearly as (b & sx & Eearly & Wx & Tx & Ax & Bx & Cx & Dx & Hbx).
  cbv zeta in Hdec. rewrite Eearly in Hdec. simpl in Hdec.
  assert (Hkx : forall c, known sx c = known s c || (c =? e)) by (intros c; rewrite (known_tab_eq s1 sx Tx); auto).
  assert (Hmono : Kmono s sx) by (intros c Hc; rewrite Hkx, Hc; reflexivity).
  assert (Hkex : known sx e = true) by (rewrite Hkx, Nat.eqb_refl; apply orb_true_r).
  assert (HSx : forall Rc, Sound Rc s -> peel Rc e -> Sound Rc sx).
  { intros Rc HS Hp c Hc. rewrite Hkx in Hc. apply orb_true_iff in Hc. destruct Hc as [Hc|Hc]; [auto|].
    apply Nat.eqb_eq in Hc; subst; auto. }
  destruct b.
  - inversion Hdec; subst s'. split; [auto|]. split; [auto|]. split; [auto|]. split; [auto|]. left. auto.
  - (* step 2 *)
    assert (Hrows : forall i, i < R0 -> rowinv (fun c => known sx c && negb (c =? e)) (Some e) sx i).
    { intros i Hi. specialize (HP i Hi).
      eapply rowinv_kn_ext; [|eapply rowinv_fields_eq; eauto].
      intros c. simpl. rewrite Hkx. destruct (c =? e) eqn:E; simpl.
      - apply Nat.eqb_eq in E; subst. now rewrite Hke.
      - now rewrite orb_false_r, andb_true_r. }
    pose proof (step2_spec sx e v Wx He Hkex Hrows) as H2.
    destruct (step2 sxor s0 sx e v) as [s2 L].
    destruct H2 as (W2 & T2 & F2 & I2 & R2 & L2).
    assert (HLrev : forall i, In i (rev L) -> i < R0) by (intros i Hi; apply L2; now apply in_rev).
    destruct (step3_spec (decode sxor s0 f) IH (rev L) s2 s' W2 I2 HLrev Hdec) as (W' & M' & S' & Post').
    assert (Hk2 : forall c, known s2 c = known sx c) by (apply known_tab_eq; auto).
    split; auto. split; [intros c Hc; apply M'; rewrite Hk2; auto|].
    split; [apply M'; now rewrite Hk2|].
    split.
    + intros Rc HS Hp. apply S'. intros c Hc. rewrite Hk2 in Hc. apply (HSx Rc HS Hp); auto.
    + destruct Post' as [Hc'|(HI' & R')]; [now left|right]. split; auto.
      intros i Hi Hr. destruct (R' i Hi Hr) as (Hr2 & Hn).
      destruct (R2 i Hi Hr2) as [Hrx|Hin]; [|exfalso; apply Hn; now apply -> in_rev].
      apply (ready1_fields_eq s sx i Ax Dx). auto.
Qed.



(* ---------- fuel adequacy: with fuel > number of unknown symbols the decoder never gives up ---------- *)
Definition munk (s:st) := length (filter (fun c => negb (known s c)) (seq 0 N0)).

Lemma filter_length_le {A} (f g:A->bool) l : (forall x, In x l -> f x = true -> g x = true) ->
  length (filter f l) <= length (filter g l).
Proof.
  induction l as [|h t IH]; intros H; simpl; auto.
  assert (IH' := IH (fun x Hx => H x (or_intror Hx))).
  destruct (f h) eqn:E.
  - rewrite (H h (or_introl eq_refl) E). simpl. lia.
  - destruct (g h); simpl; lia.
Qed.

Lemma filter_length_lt {A} (f g:A->bool) l a : In a l -> f a = false -> g a = true ->
  (forall x, In x l -> f x = true -> g x = true) -> length (filter f l) < length (filter g l).
Proof.
  induction l as [|h t IH]; intros Hin Hf Hg H; simpl; [inversion Hin|].
  destruct Hin as [->|Hin].
  - rewrite Hf, Hg. simpl. pose proof (filter_length_le f g t (fun x Hx => H x (or_intror Hx))). lia.
  - specialize (IH Hin Hf Hg (fun x Hx => H x (or_intror Hx))).
    destruct (f h) eqn:E.
    + rewrite (H h (or_introl eq_refl) E). simpl. lia.
    + destruct (g h); simpl; lia.
Qed.

Lemma munk_mono (s s':st) : Kmono s s' -> munk s' <= munk s.
Proof.
  intros M. unfold munk. apply filter_length_le. intros c _ Hc.
  apply negb_true_iff in Hc. apply negb_true_iff. destruct (known s c) eqn:E; auto. rewrite (M c E) in Hc. discriminate.
Qed.

Lemma munk_lt (s s':st) e : Kmono s s' -> e < N0 -> known s e = false -> known s' e = true -> munk s' < munk s.
Proof.
  intros M He K K'. unfold munk. apply filter_length_lt with (a := e).
  - apply in_seq. lia.
  - now rewrite K'.
  - now rewrite K.
  - intros c _ Hc. apply negb_true_iff in Hc. apply negb_true_iff. destruct (known s c) eqn:E; auto. rewrite (M c E) in Hc. discriminate.
Qed.

Lemma step3_total f : (forall s e v, WF s -> PInv s e -> known s e = false -> e < N0 -> munk s <= f ->
                        exists s', decode sxor s0 f s e v = Some s') ->
  forall L (s:st), WF s -> (iscomp s \/ Inv s) -> (forall i, In i L -> i < R0) -> munk s <= f ->
  exists s', step3 (decode sxor s0 f) L s = Some s'.
Proof.
  intros Hdec. induction L as [|row L' IH]; intros s W HG HL Hm.
  - simpl. eauto.
  - rewrite step3_cons. pose proof (is_complete_spec s W) as Hs. destruct (is_complete s) as [b s1].
    destruct Hs as (W1 & T1 & A1 & B1 & C1 & D1 & Hb).
    destruct b; [eauto|].
    assert (HI : Inv s) by (destruct HG as [Hc|HI]; [apply Hb in Hc; discriminate|auto]).
    assert (HI1 : Inv s1) by (eapply Inv_fields_eq; eauto).
    assert (Hk1 : forall c, known s1 c = known s c) by (apply known_tab_eq; auto).
    assert (Hm1 : munk s1 <= f).
    { eapply Nat.le_trans; [apply munk_mono|exact Hm]. intros c Hc. now rewrite Hk1. }
    assert (Hrow : row < R0) by (apply HL; now left).
    assert (HL' : forall i, In i L' -> i < R0) by (intros i Hi; apply HL; now right).
    destruct (getn (enc s1) row =? 1) eqn:E1.
    + apply Nat.eqb_eq in E1.
      destruct (ready_row_shape s1 row Hrow (HI1 row Hrow) E1) as (cc & t & Hr & Hct & HU).
      rewrite Hr, Hct.
      destruct (consume_spec s1 row cc t W1 HI1 Hrow Hr Hct HU) as (Wc & Pc & Tc & Kc & Cc & NRc & Sc & Pl).
      assert (Kc' : known (consume s1 row) cc = false) by (rewrite (known_tab_eq _ _ Tc); auto).
      assert (Hmc : munk (consume s1 row) <= f).
      { eapply Nat.le_trans; [apply munk_mono|exact Hm1]. intros c Hc. now rewrite (known_tab_eq _ _ Tc). }
      destruct (Hdec (consume s1 row) cc t Wc Pc Kc' Cc Hmc) as (s2 & Ed). rewrite Ed.
      destruct (decode_contract f (consume s1 row) cc t s2 Wc Pc Kc' Cc Ed) as (W2 & M2 & K2 & S2 & Post2).
      apply IH; auto.
      * destruct Post2 as [|(HI2 & _)]; auto.
      * eapply Nat.le_trans; [apply munk_mono; exact M2|exact Hmc].
    + apply IH; auto.
Qed.

Lemma decode_total : forall f (s:st) e v, WF s -> PInv s e -> known s e = false -> e < N0 -> munk s <= f ->
  exists s', decode sxor s0 f s e v = Some s'.
Proof.
  induction f as [|f IH]; intros s e v W HP Hke He Hm.
  - exfalso. unfold munk in Hm.
    assert (0 < length (filter (fun c => negb (known s c)) (seq 0 N0))).
    { assert (Hin : In e (filter (fun c => negb (known s c)) (seq 0 N0))) by (apply filter_In; split; [apply in_seq; lia|now rewrite Hke]).
      destruct (filter (fun c => negb (known s c)) (seq 0 N0)); [inversion Hin|simpl; lia]. }
    lia.
  - rewrite decode_unfold, Hke. cbv zeta. set (s1 := set_tab s e v).
    assert (Hk1 : forall c, known s1 c = known s c || (c =? e)) by (intros c; apply known_set_tab; rewrite (wf_tab s W); auto).
    assert (W1 : WF s1).
    { destruct W as [Wr Wn Wrws Wunk Wenc Wct Wtab Wfnd Wcur]. constructor; simpl; rewrite ?upd_length; auto.
      intros j Hj. rewrite Hk1. rewrite Wcur; auto. }
    assert (Hm1 : munk s1 <= f).
    { assert (munk s1 < munk s); [|lia]. apply munk_lt with (e := e); auto.
      - intros c Hc. rewrite Hk1, Hc. reflexivity.
      - rewrite Hk1, Nat.eqb_refl. apply orb_true_r. }
    assert (Hearly : exists b sx, (if r s1 <=? e then is_complete s1 else (false, s1)) = (b, sx)
              /\ WF sx /\ tab sx = tab s1 /\ rws sx = rws s /\ unk sx = unk s /\ enc sx = enc s /\ ct sx = ct s).
    { destruct (r s1 <=? e).
      - pose proof (is_complete_spec s1 W1) as Hs. destruct (is_complete s1) as [b sx].
        destruct Hs as (Wx & Tx & Ax & Bx & Cx & Dx & Hb). exists b, sx.
        split; [reflexivity|]. split; [exact Wx|]. split; [exact Tx|]. split; [exact Ax|]. split; [exact Bx|]. split; [exact Cx|exact Dx].
      - exists false, s1. split; [reflexivity|]. split; [exact W1|]. do 4 (split; [reflexivity|]). reflexivity. }
    destruct Hearly as (b & sx & Eearly & Wx & Tx & Ax & Bx & Cx & Dx).
    rewrite Eearly. simpl. destruct b; [eauto|].
    assert (Hkx : forall c, known sx c = known s c || (c =? e)) by (intros c; rewrite (known_tab_eq s1 sx Tx); auto).
    assert (Hkex : known sx e = true) by (rewrite Hkx, Nat.eqb_refl; apply orb_true_r).
    assert (Hrows : forall i, i < R0 -> rowinv (fun c => known sx c && negb (c =? e)) (Some e) sx i).
    { intros i Hi. specialize (HP i Hi).
      eapply rowinv_kn_ext; [|eapply rowinv_fields_eq; eauto].
      intros c. simpl. rewrite Hkx. destruct (c =? e) eqn:E; simpl.
      - apply Nat.eqb_eq in E; subst. now rewrite Hke.
      - now rewrite orb_false_r, andb_true_r. }
    pose proof (step2_spec sx e v Wx He Hkex Hrows) as H2.
    destruct (step2 sxor s0 sx e v) as [s2 L].
    destruct H2 as (W2 & T2 & F2 & I2 & R2 & L2).
    apply (step3_total f IH); auto.
    + intros i Hi. apply L2. now apply in_rev.
    + eapply Nat.le_trans; [apply munk_mono|exact Hm1]. intros c Hc.
      rewrite (known_tab_eq sx s2 T2). rewrite (known_tab_eq s1 sx Tx). auto.
Qed.

(* ---------- top level ---------- *)
Definition Good (s:st) := WF s /\ (iscomp s \/ (Inv s /\ forall i, i < R0 -> ~ ready1 s i)).

Lemma step2_row_wf (s:st) e v i : WF s -> i < R0 ->
  WF (fst (step2_row sxor s0 s e v i)) /\ tab (fst (step2_row sxor s0 s e v i)) = tab s.
Proof.
  intros W Hi. destruct W as [Wr Wn Wrws Wunk Wenc Wct Wtab Wfnd Wcur]. unfold step2_row.
  destruct (nth i (ct s) None); [|destruct (getn (unk s) i - 1 =? 1)]; simpl; (split; [solve_wf|reflexivity]).
Qed.

Lemma step2_fold_wf e v rowsl : forall (s:st) L, WF s -> (forall i, In i rowsl -> i < R0) ->
  WF (fst (fold_left (f2 e v) rowsl (s, L))) /\ tab (fst (fold_left (f2 e v) rowsl (s, L))) = tab s.
Proof.
  induction rowsl as [|a rest IH]; intros s L W HL; simpl; auto.
  destruct (step2_row_wf s e v a W (HL a (or_introl eq_refl))) as (W1 & T1).
  destruct (step2_row sxor s0 s e v a) as [s1 rdy]. simpl in *.
  destruct (IH s1 (if rdy then L ++ [a] else L) W1 (fun i Hi => HL i (or_intror Hi))) as (W' & T').
  split; auto. congruence.
Qed.

Lemma decode_complete fuel (s s':st) e v : WF s -> iscomp s -> e < N0 ->
  decode sxor s0 fuel s e v = Some s' ->
  WF s' /\ iscomp s' /\ (forall c, known s' c = true -> known s c = true \/ c = e) /\ Kmono s s' /\ known s' e = true.
Proof.
  intros W Hc He Hdec. destruct fuel as [|f]; [discriminate|]. rewrite decode_unfold in Hdec.
  destruct (known s e) eqn:Hke.
  - inversion Hdec; subst. split; auto. split; auto. split; [auto|]. split; [intros c; auto|auto].
  - cbv zeta in Hdec. set (s1 := set_tab s e v) in *.
    assert (Hk1 : forall c, known s1 c = known s c || (c =? e)) by (intros c; apply known_set_tab; rewrite (wf_tab s W); auto).
    assert (W1 : WF s1).
    { destruct W as [Wr Wn Wrws Wunk Wenc Wct Wtab Wfnd Wcur]. constructor; simpl; rewrite ?upd_length; auto.
      intros j Hj. rewrite Hk1. rewrite Wcur; auto. }
    assert (Hc1 : iscomp s1) by (intros c Hcc; rewrite Hk1, Hc; auto).
    assert (Hfin : forall sx, WF sx -> tab sx = tab s1 ->
              WF sx /\ iscomp sx /\ (forall c, known sx c = true -> known s c = true \/ c = e) /\ Kmono s sx /\ known sx e = true).
    { intros sx Wx Tx. assert (Hkx : forall c, known sx c = known s c || (c =? e)) by (intros c; rewrite (known_tab_eq s1 sx Tx); auto).
      split; auto. split; [eapply iscomp_tab_eq; eauto|]. split; [|split].
      - intros c Hcc. rewrite Hkx in Hcc. apply orb_true_iff in Hcc. destruct Hcc as [|Hcc]; auto. apply Nat.eqb_eq in Hcc; auto.
      - intros c Hcc. rewrite Hkx, Hcc. reflexivity.
      - rewrite Hkx, Nat.eqb_refl. apply orb_true_r. }
    destruct (r s1 <=? e).
    + pose proof (is_complete_spec s1 W1) as Hs. destruct (is_complete s1) as [b sx].
      destruct Hs as (Wx & Tx & _ & _ & _ & _ & Hb). assert (b = true) by (apply Hb; auto). subst b.
      simpl in Hdec. inversion Hdec; subst. apply Hfin; auto.
    + simpl in Hdec. unfold step2 in Hdec. fold (f2 e v) in Hdec.
      assert (HL : forall i, In i (rows_with s1 e) -> i < R0).
      { intros i Hi. apply (rows_with_spec s1 e i (wf_r s1 W1)) in Hi. tauto. }
      destruct (step2_fold_wf e v (rows_with s1 e) s1 [] W1 HL) as (W2 & T2).
      destruct (fold_left (f2 e v) (rows_with s1 e) (s1, [])) as [s2 L]. simpl in *.
      assert (Hc2 : iscomp s2) by (apply (iscomp_tab_eq s1 s2); [exact T2|exact Hc1]).
      destruct (step3_complete (decode sxor s0 f) (rev L) s2 s' W2 Hc2 Hdec) as (W' & C' & T').
      apply Hfin; [exact W'|]. rewrite T'. exact T2.
Qed.

Lemma decode_good fuel (s s':st) e v Rc : Good s -> Sound Rc s -> Rc e -> e < N0 ->
  decode sxor s0 fuel s e v = Some s' ->
  Good s' /\ Sound Rc s' /\ Kmono s s' /\ known s' e = true.
Proof.
  intros (W & HG) HS HR He Hdec.
  destruct HG as [Hc|(HI & HN)].
  - destruct (decode_complete fuel s s' e v W Hc He Hdec) as (W' & C' & K' & M' & E').
    split; [split; auto|]. split; [|auto].
    intros c Hcc. destruct (K' c Hcc) as [Hk| ->]; [auto|now apply peel_recv].
  - destruct (known s e) eqn:Hke.
    + destruct fuel as [|f]; [discriminate|]. rewrite decode_unfold, Hke in Hdec. inversion Hdec; subst.
      split; [split; auto|]. split; auto. split; [intros c; auto|auto].
    + destruct (decode_contract fuel s e v s' W (Inv_PInv s e HI) Hke He Hdec) as (W' & M' & E' & S' & Post).
      split; [split; auto|].
      * destruct Post as [|(HI' & R')]; [now left|right]. split; auto.
        intros i Hi Hr. apply (HN i Hi). auto.
      * split; [apply S'; auto; now apply peel_recv|auto].
Qed.

(* ---------- totality: with fuel > number of columns the decoder never runs out ---------- *)
Lemma munk_le_N0 (s:st) : munk s <= N0.
Proof.
  unfold munk. rewrite <- (seq_length N0 0) at 2.
  generalize (seq 0 N0). intros l. induction l as [|x l IH]; simpl; auto.
  destruct (negb (known s x)); simpl; lia.
Qed.

Lemma step3_total_complete dec L (s:st) : WF s -> iscomp s -> exists s', step3 dec L s = Some s'.
Proof.
  intros W Hc. destruct L as [|row L']; [simpl; eauto|]. rewrite step3_cons.
  pose proof (is_complete_spec s W) as Hs. destruct (is_complete s) as [b sx].
  destruct Hs as (_ & _ & _ & _ & _ & _ & Hb). assert (b = true) by (apply Hb; auto). subst b. eauto.
Qed.

Lemma decode_total_good fuel (s:st) e v : Good s -> e < N0 -> N0 < fuel ->
  exists s', decode sxor s0 fuel s e v = Some s'.
Proof.
  intros (W & HG) He Hf. destruct HG as [Hc|(HI & HN)].
  - destruct fuel as [|f]; [lia|]. rewrite decode_unfold.
    destruct (known s e) eqn:Hke; [eauto|]. cbv zeta. set (s1 := set_tab s e v).
    assert (Hk1 : forall c, known s1 c = known s c || (c =? e)) by (intros c; apply known_set_tab; rewrite (wf_tab s W); auto).
    assert (W1 : WF s1).
    { destruct W as [Wr Wn Wrws Wunk Wenc Wct Wtab Wfnd Wcur]. constructor; simpl; rewrite ?upd_length; auto.
      intros j Hj. rewrite Hk1. rewrite Wcur; auto. }
    assert (Hc1 : iscomp s1) by (intros c Hcc; rewrite Hk1, Hc; auto).
    destruct (r s1 <=? e).
    + pose proof (is_complete_spec s1 W1) as Hs. destruct (is_complete s1) as [b sx].
      destruct Hs as (_ & _ & _ & _ & _ & _ & Hb). assert (b = true) by (apply Hb; auto). subst b. simpl. eauto.
    + simpl. unfold step2. fold (f2 e v).
      assert (HL : forall i, In i (rows_with s1 e) -> i < R0).
      { intros i Hi. apply (rows_with_spec s1 e i (wf_r s1 W1)) in Hi. tauto. }
      destruct (step2_fold_wf e v (rows_with s1 e) s1 [] W1 HL) as (W2 & T2).
      destruct (fold_left (f2 e v) (rows_with s1 e) (s1, [])) as [s2 L]. simpl in *.
      apply step3_total_complete; [exact W2|]. apply (iscomp_tab_eq s1 s2); [exact T2|exact Hc1].
  - destruct (known s e) eqn:Hke.
    + destruct fuel as [|f]; [lia|]. rewrite decode_unfold, Hke. eauto.
    + apply decode_total; auto; [apply Inv_PInv; auto|]. pose proof (munk_le_N0 s). lia.
Qed.

Definition run fuel (hist : list (nat * Sy)) : option st :=
  fold_left (fun os ev => match os with Some s => decode sxor s0 fuel s (fst ev) (snd ev) | None => None end)
            hist (Some (init Sy R0 N0 H0)).

Lemma nth_map_length (l:list (list nat)) i : nth i (map (@length nat) l) 0 = length (nth i l []).
Proof. revert i; induction l as [|h t IH]; intros [|i]; simpl; auto. Qed.
Lemma nth_repeat_none {A} k i : nth i (repeat (@None A) k) None = None.
Proof. revert i; induction k as [|k IH]; intros [|i]; simpl; auto. Qed.

Lemma init_good : Good (init Sy R0 N0 H0) /\ forall c, known (init Sy R0 N0 H0) c = false.
Proof.
  assert (Hk : forall c, known (init Sy R0 N0 H0) c = false).
  { intros c. unfold known, init; simpl. now rewrite nth_repeat_none. }
  split; auto. split.
  - constructor; simpl; rewrite ?map_length, ?repeat_length; auto; try lia.
  - right. split.
    + intros i Hi. unfold rowinv. simpl. rewrite nth_repeat_none. left.
      assert (HU : Urow (known (init Sy R0 N0 H0)) i = nth i H0 []).
      { unfold Urow. rewrite (filter_ext_in _ (fun _ => true)).
        - clear. induction (nth i H0 []); simpl; auto. now f_equal.
        - intros c _. now rewrite Hk. }
      unfold lazy; simpl. unfold getn. rewrite !nth_map_length, HU. repeat split; auto.
    + intros i Hi (Hc & _). simpl in Hc. rewrite nth_repeat_none in Hc. tauto.
Qed.

Theorem it_is_peeling fuel (hist : list (nat * Sy)) (s:st) :
  (forall ev, In ev hist -> fst ev < N0) -> run fuel hist = Some s ->
  let Rc := fun e => In e (map fst hist) in
  (forall c, known s c = true -> peel Rc c)
  /\ (forall c, R0 <= c < N0 -> peel Rc c -> known s c = true)
  /\ (~ iscomp s -> forall c, peel Rc c -> known s c = true).
Proof.
  intros Hrange Hrun Rc.
  (* generalized invariant along the fold *)
  assert (Hgen : forall h (os:option st) s1,
     (forall ev, In ev h -> fst ev < N0 /\ Rc (fst ev)) ->
     fold_left (fun os ev => match os with Some s => decode sxor s0 fuel s (fst ev) (snd ev) | None => None end) h os = Some s1 ->
     forall sA, os = Some sA -> Good sA -> Sound Rc sA ->
     Good s1 /\ Sound Rc s1 /\ Kmono sA s1 /\ (forall ev, In ev h -> known s1 (fst ev) = true)).
  { induction h as [|ev h IH]; intros os s1 Hh Hf sA -> HG HS; simpl in Hf.
    - inversion Hf; subst. split; auto. split; auto. split; [intros c; auto|intros ev []].
    - destruct (decode sxor s0 fuel sA (fst ev) (snd ev)) as [sB|] eqn:Ed.
      + destruct (Hh ev (or_introl eq_refl)) as (Hr & HRc).
        destruct (decode_good fuel sA sB (fst ev) (snd ev) Rc HG HS HRc Hr Ed) as (GB & SB & MB & KB).
        destruct (IH (Some sB) s1 (fun e He => Hh e (or_intror He)) Hf sB eq_refl GB SB) as (G1 & S1 & M1 & K1).
        split; auto. split; auto. split; [intros c Hc; apply M1; apply MB; auto|].
        intros e [<-|He]; [apply M1; auto|auto].
      + exfalso. clear -Hf. induction h as [|x h IHh]; simpl in Hf; [discriminate|auto]. }
  destruct init_good as (G0 & K0).
  assert (HS0 : Sound Rc (init Sy R0 N0 H0)) by (intros c Hc; rewrite K0 in Hc; discriminate).
  assert (Hh : forall ev, In ev hist -> fst ev < N0 /\ Rc (fst ev)).
  { intros ev Hev. split; auto. unfold Rc. apply in_map. auto. }
  destruct (Hgen hist (Some (init Sy R0 N0 H0)) s Hh Hrun _ eq_refl G0 HS0) as ((W & HG) & HS & _ & HK).
  split; [exact HS|].
  assert (Hclosed : Inv s -> (forall i, i < R0 -> ~ ready1 s i) -> forall c, peel Rc c -> known s c = true).
  { intros HI HN c Hp. induction Hp as [c Hc|i c Hi Hin Hall IHp].
    - unfold Rc in Hc. apply in_map_iff in Hc. destruct Hc as (ev & <- & Hev). auto.
    - destruct (known s c) eqn:Hkc; auto. exfalso.
      assert (HU : Urow (known s) i = [c]).
      { unfold Urow. assert (Hnd := H0_nodup i Hi). clear -Hin IHp Hkc Hnd.
        induction (nth i H0 []) as [|x l IHl]; [inversion Hin|]. simpl.
        inversion Hnd as [|? ? Hnx Hnd']; subst.
        destruct (Nat.eq_dec x c) as [->|Hne].
        - rewrite Hkc. simpl. f_equal.
          rewrite (filter_ext_in _ (fun _ => false)).
          + clear. induction l; simpl; auto.
          + intros y Hy. rewrite IHp; auto. right; auto. intro; subst; tauto.
        - rewrite IHp by (auto; now left). simpl. destruct Hin as [|Hin]; [tauto|].
          apply IHl; auto. intros c' Hc' Hne'. apply IHp; auto. now right. }
      specialize (HI i Hi). unfold rowinv in HI. destruct (nth i (ct s) None) as [t|] eqn:Ect.
      + destruct HI as (A & B & C & D). apply (HN i Hi). split; [rewrite Ect; discriminate|]. rewrite A, HU. reflexivity.
      + destruct HI as [(A & B & C & D)|(A & B & C)].
        * rewrite HU in D. simpl in D. lia.
        * rewrite HU in C. specialize (C c (or_introl eq_refl)). discriminate. }
  split.
  - intros c Hc Hp. destruct HG as [Hcomp|(HI & HN)]; [apply Hcomp; auto|apply Hclosed; auto].
  - intros Hnc c Hp. destruct HG as [Hcomp|(HI & HN)]; [tauto|apply Hclosed; auto].
Qed.

(* along any run: states are Good, sound, and knowledge only grows *)
Lemma fold_good fuel (Rc : nat -> Prop) : forall h (sA s1 : st),
  (forall ev, In ev h -> fst ev < N0 /\ Rc (fst ev)) ->
  fold_left (fun os ev => match os with Some s => decode sxor s0 fuel s (fst ev) (snd ev) | None => None end) h (Some sA) = Some s1 ->
  Good sA -> Sound Rc sA -> Good s1 /\ Sound Rc s1 /\ Kmono sA s1.
Proof.
  induction h as [|ev h IH]; intros sA s1 Hh Hf HG HS; simpl in Hf.
  - inversion Hf; subst. split; auto. split; auto. intros c; auto.
  - destruct (decode sxor s0 fuel sA (fst ev) (snd ev)) as [sB|] eqn:Ed.
    + destruct (Hh ev (or_introl eq_refl)) as (Hr & HRc).
      destruct (decode_good fuel sA sB (fst ev) (snd ev) Rc HG HS HRc Hr Ed) as (GB & SB & MB & KB).
      destruct (IH sB s1 (fun e He => Hh e (or_intror He)) Hf GB SB) as (G1 & S1 & M1).
      split; auto. split; auto. intros c Hc. apply M1. apply MB. auto.
    + exfalso. clear -Hf. induction h as [|x h IHh]; simpl in Hf; [discriminate|auto].
Qed.

Theorem run_complete_flag fuel (hist : list (nat * Sy)) (s : st) :
  (forall ev, In ev hist -> fst ev < N0) -> run fuel hist = Some s ->
  (fst (is_complete s) = true <-> forall c, R0 <= c < N0 -> known s c = true).
Proof.
  intros Hr Hrun. destruct init_good as (G0 & K0).
  assert (HS0 : Sound (fun e => In e (map fst hist)) (init Sy R0 N0 H0)) by (intros c Hc; rewrite K0 in Hc; discriminate).
  destruct (fold_good fuel (fun e => In e (map fst hist)) hist (init Sy R0 N0 H0) s) as ((W & _) & _ & _); auto.
  { intros ev Hev. split; auto. apply in_map. auto. }
  pose proof (is_complete_spec s W) as Hs. destruct (is_complete s) as [b sx]. simpl.
  destruct Hs as (_ & _ & _ & _ & _ & _ & Hb). exact Hb.
Qed.

Theorem run_monotone fuel (h1 h2 : list (nat * Sy)) (s1 s2 : st) :
  (forall ev, In ev (h1 ++ h2) -> fst ev < N0) -> run fuel h1 = Some s1 -> run fuel (h1 ++ h2) = Some s2 ->
  forall c, known s1 c = true -> known s2 c = true.
Proof.
  intros Hr H1 H2. unfold run in *. rewrite fold_left_app, H1 in H2.
  destruct init_good as (G0 & K0).
  set (Rc := fun e => In e (map fst (h1 ++ h2))).
  assert (HS0 : Sound Rc (init Sy R0 N0 H0)) by (intros c Hc; rewrite K0 in Hc; discriminate).
  destruct (fold_good fuel Rc h1 (init Sy R0 N0 H0) s1) as (G1 & S1 & _); auto.
  { intros ev Hev. split; [apply Hr; apply in_or_app; auto|]. unfold Rc. apply in_map. apply in_or_app. auto. }
  destruct (fold_good fuel Rc h2 s1 s2) as (_ & _ & M); auto.
  intros ev Hev. split; [apply Hr; apply in_or_app; auto|]. unfold Rc. apply in_map. apply in_or_app. auto.
Qed.

Theorem run_total fuel (hist : list (nat * Sy)) :
  N0 < fuel -> (forall ev, In ev hist -> fst ev < N0) -> exists s, run fuel hist = Some s.
Proof.
  intros Hf Hrange. unfold run.
  set (Rc := fun e => In e (map fst hist)).
  assert (Hgen : forall h sA, (forall ev, In ev h -> fst ev < N0 /\ Rc (fst ev)) -> Good sA -> Sound Rc sA ->
     exists s1, fold_left (fun os ev => match os with Some s => decode sxor s0 fuel s (fst ev) (snd ev) | None => None end) h (Some sA) = Some s1).
  { induction h as [|ev h IH]; intros sA Hh HG HS; simpl; [eauto|].
    destruct (Hh ev (or_introl eq_refl)) as (Hr & HRc).
    destruct (decode_total_good fuel sA (fst ev) (snd ev) HG Hr Hf) as (sB & Ed). rewrite Ed.
    destruct (decode_good fuel sA sB (fst ev) (snd ev) Rc HG HS HRc Hr Ed) as (GB & SB & _ & _).
    apply IH; auto. intros e He. apply Hh. now right. }
  destruct init_good as (G0 & K0).
  apply Hgen; auto.
  - intros ev Hev. split; auto. unfold Rc. apply in_map. auto.
  - intros c Hc. rewrite K0 in Hc. discriminate.
Qed.

(* ====================================================================================== *)
(* ---------- values: every symbol the decoder stores is the codeword's (C01) ---------- *)
Hypothesis sxor_assoc : forall a b c, sxor a (sxor b c) = sxor (sxor a b) c.
Hypothesis sxor_comm : forall a b, sxor a b = sxor b a.
Hypothesis sxor_0_l : forall a, sxor s0 a = a.
Hypothesis sxor_nilp : forall a, sxor a a = s0.
Variable cw : nat -> Sy.                         (* the codeword: value of every matrix column *)
Definition xs (l : list nat) : Sy := fold_right sxor s0 (map cw l).
Hypothesis parity : forall i, i < R0 -> xs (nth i H0 []) = s0.

Lemma sxor_0_r' a : sxor a s0 = a.  Proof. now rewrite sxor_comm, sxor_0_l. Qed.

(* V1: stored symbols are codeword symbols; V2: the partial sum of a row with a single remaining
   entry is the codeword symbol of that entry *)
Definition Val (s : st) : Prop :=
  (forall c v, nth c (tab s) None = Some v -> v = cw c) /\
  (forall i t cc, i < R0 -> nth i (ct s) None = Some t -> nth i (rws s) [] = [cc] -> t = cw cc).

Lemma xs_filter_split (p : nat -> bool) l : xs l = sxor (xs (filter p l)) (xs (filter (fun x => negb (p x)) l)).
Proof.
  unfold xs. induction l as [|x l IH]; simpl; [now rewrite sxor_0_l|]. rewrite IH.
  destruct (p x); simpl.
  - now rewrite sxor_assoc.
  - rewrite !sxor_assoc. f_equal. apply sxor_comm.
Qed.

Lemma xs_remove c l : NoDup l -> In c l -> xs l = sxor (cw c) (xs (filter (fun x => negb (x =? c)) l)).
Proof.
  unfold xs. induction l as [|x l IH]; intros Hnd Hin; [inversion Hin|].
  inversion Hnd as [|? ? Hx Hnd']; subst. simpl. destruct (Nat.eqb_spec x c) as [->|Hne]; simpl.
  - f_equal. f_equal. f_equal. symmetry. clear -Hx. induction l as [|y l IHl]; simpl; auto.
    destruct (Nat.eqb_spec y c) as [->|]; simpl; [exfalso; apply Hx; now left|]. f_equal. apply IHl. intros H; apply Hx; now right.
  - destruct Hin as [E|Hin]; [congruence|]. rewrite (IH Hnd' Hin). rewrite !sxor_assoc. f_equal. apply sxor_comm.
Qed.

Lemma fold_known_values (s : st) : (forall c v, nth c (tab s) None = Some v -> v = cw c) ->
  forall l t1, (forall c, In c l -> known s c = true) ->
  fold_left (fun acc c' => match nth c' (tab s) None with Some w => sxor acc w | None => acc end) l t1 = sxor t1 (xs l).
Proof.
  intros V1. unfold xs. induction l as [|c l IH]; intros t1 Hk; simpl; [now rewrite sxor_0_r'|].
  pose proof (Hk c (or_introl eq_refl)) as Hc. unfold known in Hc.
  destruct (nth c (tab s) None) as [w|] eqn:E; [|discriminate]. rewrite (V1 c w E).
  rewrite IH by (intros; apply Hk; now right). now rewrite sxor_assoc.
Qed.

Lemma step2_row_val s e v i kn :
  WF s -> i < R0 -> e < N0 -> kn e = false -> (forall c, known s c = kadd kn e c) ->
  In e (nth i (rws s) []) -> rowinv kn None s i -> Val s -> v = cw e ->
  Val (fst (step2_row sxor s0 s e v i)).
Proof.
  intros W Hi He Hk Hkn Hin Hrow (V1 & V2) Hv.
  destruct W as [Wr Wn Wrws Wunk Wenc Wct Wtab Wfnd Wcur].
  unfold step2_row. unfold rowinv in Hrow.
  destruct (nth i (ct s) None) as [t|] eqn:Ect.
  - (* the row already has a partial sum: it holds exactly [e] and becomes empty *)
    destruct Hrow as (A & B & C & D).
    assert (Hrw : nth i (rws s) [] = [e]).
    { rewrite A in *. destruct (Urow kn i) as [|x [|y l]]; simpl in *.
      - tauto.
      - destruct Hin as [->|[]]. reflexivity.
      - lia. }
    simpl. split; [exact V1|]. intros j t' cc Hj Hct Hr. simpl in Hct, Hr.
    destruct (Nat.eq_dec j i) as [->|Hne].
    + rewrite nth_upd_eq in Hr by lia. rewrite Hrw in Hr. simpl in Hr. rewrite Nat.eqb_refl in Hr. simpl in Hr. discriminate.
    + rewrite nth_upd_neq in Hr by auto. rewrite nth_upd_neq in Hct by auto. apply (V2 j t' cc Hj Hct Hr).
  - destruct Hrow as [(A & B & C & D)|(A & _)]; [|rewrite A in Hin; inversion Hin].
    destruct (getn (unk s) i - 1 =? 1) eqn:Eu.
    + (* fresh partial sum: exactly one unknown symbol is left in this row *)
      simpl. split; [exact V1|]. intros j t' cc Hj Hct Hr. simpl in Hct, Hr.
      destruct (Nat.eq_dec j i) as [->|Hne]; [|rewrite nth_upd_neq in Hr by auto; rewrite nth_upd_neq in Hct by auto; apply (V2 j t' cc Hj Hct Hr)].
      rewrite nth_upd_eq in Hr by lia. rewrite nth_upd_eq in Hct by lia. inversion Hct as [Ht']. clear Hct.
      assert (Hdeg : 1 <? getn (enc s) i = true) by (apply Nat.ltb_lt; rewrite C; apply (H0_deg i Hi)).
      rewrite Hdeg. rewrite A in *.
      set (ents := filter (fun c' => negb (c' =? e)) (nth i H0 [])) in *.
      rewrite (fold_known_values s V1) by (intros c Hc; apply filter_In in Hc; tauto).
      rewrite sxor_0_l, Hv.
      (* parity of row i: cw e + known others + cw cc = 0 *)
      pose proof (parity i Hi) as Hp. rewrite (xs_remove e _ (H0_nodup i Hi) Hin) in Hp. fold ents in Hp.
      rewrite (xs_filter_split (known s) ents) in Hp. rewrite Hr in Hp.
      change (xs [cc]) with (sxor (cw cc) s0) in Hp. rewrite sxor_0_r' in Hp.
      rewrite sxor_assoc in Hp.
      (* a + cw cc = 0  ->  a = cw cc *)
      set (a := sxor (cw e) (xs (filter (known s) ents))) in *.
      assert (Ha : a = cw cc).
      { assert (E : sxor (sxor a (cw cc)) (cw cc) = sxor s0 (cw cc)) by now rewrite Hp.
        rewrite <- sxor_assoc, sxor_nilp, sxor_0_r', sxor_0_l in E. exact E. }
      exact Ha.
    + simpl. split; [exact V1|]. exact V2.
Qed.

Lemma step2_fold_val e v kn : e < N0 -> kn e = false -> v = cw e ->
  forall rowsl (s:st) L, NoDup rowsl ->
  (forall i, In i rowsl -> i < R0 /\ In e (nth i (rws s) []) /\ rowinv kn None s i) ->
  WF s -> (forall c, known s c = kadd kn e c) -> Val s ->
  Val (fst (fold_left (f2 e v) rowsl (s, L))).
Proof.
  intros He Hk Hv. subst v. induction rowsl as [|a rest IH]; intros s L ND Hrows W Hkn HV; [exact HV|].
  simpl. inversion ND as [|? ? Hnotin ND']; subst.
  destruct (Hrows a (or_introl eq_refl)) as (Ha & Hina & Hrowa).
  pose proof (step2_row_spec s e (cw e) a kn W Ha He Hk Hkn Hina Hrowa) as Hspec.
  pose proof (step2_row_val s e (cw e) a kn W Ha He Hk Hkn Hina Hrowa HV eq_refl) as HV1.
  destruct (step2_row sxor s0 s e (cw e) a) as [s1 rdy] eqn:E1. simpl in HV1.
  destruct Hspec as (W1 & T1 & F1 & R1 & S1 & RD1).
  assert (Hkn1 : forall c, known s1 c = kadd kn e c) by (intros c; rewrite (known_tab_eq _ _ T1); auto).
  assert (Hrows1 : forall i, In i rest -> i < R0 /\ In e (nth i (rws s1) []) /\ rowinv kn None s1 i).
  { intros i Hi. destruct (Hrows i (or_intror Hi)) as (A & B & C).
    assert (i <> a) by (intro; subst; tauto).
    specialize (S1 i H). split; auto. split.
    - destruct S1 as (Q & _). now rewrite Q.
    - eapply rowinv_same_row; eauto. }
  apply (IH s1 _ ND' Hrows1 W1 Hkn1 HV1).
Qed.

Lemma step2_val (s:st) e v :
  WF s -> e < N0 -> known s e = true ->
  (forall i, i < R0 -> rowinv (fun c => known s c && negb (c =? e)) (Some e) s i) ->
  Val s -> v = cw e -> Val (fst (step2 sxor s0 s e v)).
Proof.
  intros W He Hke Hrows HV Hv.
  set (kn := fun c => known s c && negb (c =? e)).
  assert (Hk : kn e = false) by (unfold kn; rewrite Nat.eqb_refl; apply andb_false_r).
  assert (Hkn : forall c, known s c = kadd kn e c).
  { intros c. unfold kadd, kn. destruct (c =? e) eqn:E.
    - apply Nat.eqb_eq in E; subst. rewrite Hke. reflexivity.
    - simpl. now rewrite andb_true_r, orb_false_r. }
  unfold step2. fold (f2 e v).
  apply (step2_fold_val e v kn He Hk Hv (rows_with s e) s [] (rows_with_nodup s e)); auto.
  intros i Hi. apply (rows_with_spec s e i (wf_r s W)) in Hi. destruct Hi as (A & B). split; auto. split; auto.
  eapply rowinv_pend_none; [|apply Hrows; auto]. intro Hnil. rewrite Hnil in B. inversion B.
Qed.

Lemma Val_fields_eq (s s':st) : tab s' = tab s -> rws s' = rws s -> ct s' = ct s -> Val s -> Val s'.
Proof. intros T A D (V1 & V2). unfold Val. rewrite T, A, D. auto. Qed.

Lemma Val_consume (s:st) i : Val s -> Val (consume s i).
Proof.
  intros (V1 & V2). split; [exact V1|]. intros j t cc Hj Hct Hr. simpl in Hct, Hr.
  destruct (Nat.eq_dec j i) as [->|Hne].
  - destruct (Nat.lt_ge_cases i (length (ct s))) as [Hl|Hl].
    + rewrite nth_upd_eq in Hct by exact Hl. discriminate.
    + rewrite nth_overflow in Hct by (rewrite upd_length; exact Hl). discriminate.
  - rewrite nth_upd_neq in Hct by auto. rewrite nth_upd_neq in Hr by auto. apply (V2 j t cc Hj Hct Hr).
Qed.

Lemma step3_complete_val dec L (s s':st) : WF s -> iscomp s -> Val s -> step3 dec L s = Some s' -> Val s'.
Proof.
  intros W Hc HV H. destruct L as [|row L'].
  - simpl in H. inversion H; subst. exact HV.
  - rewrite step3_cons in H. pose proof (is_complete_spec s W) as Hs. destruct (is_complete s) as [b s1].
    destruct Hs as (_ & T1 & A1 & _ & _ & D1 & Hb).
    assert (b = true) by (apply Hb; auto). subst b. inversion H; subst.
    apply (Val_fields_eq s s' T1 A1 D1 HV).
Qed.

(* the recursive decoder keeps the value invariant (by induction on the fuel, alongside the contract) *)
Definition ValContract (dec : st -> nat -> Sy -> option st) := forall s e v s',
  WF s -> PInv s e -> known s e = false -> e < N0 -> Val s -> v = cw e -> dec s e v = Some s' -> Val s'.

Lemma step3_val dec : Contract dec -> ValContract dec -> forall L (s s':st),
  WF s -> Inv s -> (forall i, In i L -> i < R0) -> Val s -> step3 dec L s = Some s' -> Val s'.
Proof.
  intros HC HVC. induction L as [|row L' IH]; intros s s' W HI HL HV H; [simpl in H|rewrite step3_cons in H].
  - inversion H; subst. exact HV.
  - pose proof (is_complete_spec s W) as Hs. destruct (is_complete s) as [b s1].
    destruct Hs as (W1 & T1 & A1 & B1 & C1 & D1 & Hb).
    assert (HI1 : Inv s1) by (eapply Inv_fields_eq; eauto).
    assert (HV1 : Val s1) by (apply (Val_fields_eq s s1 T1 A1 D1 HV)).
    destruct b; [inversion H; subst; exact HV1|].
    assert (Hrow : row < R0) by (apply HL; now left).
    assert (HL' : forall i, In i L' -> i < R0) by (intros i Hi; apply HL; now right).
    destruct (getn (enc s1) row =? 1) eqn:E1.
    + apply Nat.eqb_eq in E1.
      destruct (ready_row_shape s1 row Hrow (HI1 row Hrow) E1) as (cc & t & Hr & Hct & HU).
      rewrite Hr, Hct in H.
      destruct (consume_spec s1 row cc t W1 HI1 Hrow Hr Hct HU) as (Wc & Pc & Tc & Kc & Cc & NRc & Sc & Pl).
      destruct (dec (consume s1 row) cc t) as [s2|] eqn:Ed; [|discriminate].
      assert (Kc' : known (consume s1 row) cc = false) by (rewrite (known_tab_eq _ _ Tc); auto).
      assert (Ht : t = cw cc) by (destruct HV1 as (_ & V2); apply (V2 row t cc Hrow Hct Hr)).
      pose proof (HVC _ _ _ _ Wc Pc Kc' Cc (Val_consume s1 row HV1) Ht Ed) as HV2.
      destruct (HC _ _ _ _ Wc Pc Kc' Cc Ed) as (W2 & M2 & K2 & S2 & Post2).
      destruct Post2 as [Hcomp2|(HI2 & R2)].
      * apply (step3_complete_val dec L' s2 s' W2 Hcomp2 HV2 H).
      * apply (IH s2 s' W2 HI2 HL' HV2 H).
    + apply (IH s1 s' W1 HI1 HL' HV1 H).
Qed.

Lemma decode_val fuel : ValContract (decode sxor s0 fuel).
Proof.
  induction fuel as [|f IH]; intros s e v s' W HP Hke He HV Hv Hdec; [discriminate|].
  rewrite decode_unfold in Hdec. rewrite Hke in Hdec. cbv zeta in Hdec.
  set (s1 := set_tab s e v) in *.
  assert (Hk1 : forall c, known s1 c = known s c || (c =? e)) by (intros c; apply known_set_tab; rewrite (wf_tab s W); auto).
  assert (W1 : WF s1).
  { destruct W as [Wr Wn Wrws Wunk Wenc Wct Wtab Wfnd Wcur]. constructor; simpl; rewrite ?upd_length; auto.
    intros j Hj. rewrite Hk1. rewrite Wcur; auto. }
  assert (HV1 : Val s1).
  { destruct HV as (V1 & V2). split; [|exact V2]. intros c w Hc. simpl in Hc.
    destruct (Nat.eq_dec c e) as [->|Hne].
    - rewrite nth_upd_eq in Hc by (rewrite (wf_tab s W); exact He). inversion Hc; subst; reflexivity.
    - rewrite nth_upd_neq in Hc by auto. apply (V1 c w Hc). }
  (* the early completion check only moves the cursor *)
  assert (Hearly : exists b sx, (if r s1 <=? e then is_complete s1 else (false, s1)) = (b, sx) /\
            WF sx /\ tab sx = tab s1 /\ rws sx = rws s1 /\ unk sx = unk s1 /\ enc sx = enc s1 /\ ct sx = ct s1).
  { destruct (r s1 <=? e).
    - pose proof (is_complete_spec s1 W1) as Hs. destruct (is_complete s1) as [b sx]. exists b, sx. tauto.
    - exists false, s1. split; [reflexivity|]. split; [exact W1|]. repeat (split; [reflexivity|]); reflexivity. }
  destruct Hearly as (b & sx & Ee & Wx & Tx & Ax & Bx & Cx & Dx). rewrite Ee in Hdec. simpl in Hdec.
  assert (HVx : Val sx) by (apply (Val_fields_eq s1 sx Tx Ax Dx HV1)).
  destruct b; [inversion Hdec; subst; exact HVx|].
  assert (Hkx : forall c, known sx c = known s c || (c =? e)) by (intros c; rewrite (known_tab_eq s1 sx Tx); auto).
  assert (Hkex : known sx e = true) by (rewrite Hkx, Nat.eqb_refl; apply orb_true_r).
  assert (Hrows : forall i, i < R0 -> rowinv (fun c => known sx c && negb (c =? e)) (Some e) sx i).
  { intros i Hi. specialize (HP i Hi).
    eapply rowinv_kn_ext; [|eapply rowinv_fields_eq; eauto].
    intros c. simpl. rewrite Hkx. destruct (c =? e) eqn:E; simpl.
    - apply Nat.eqb_eq in E; subst. now rewrite Hke.
    - now rewrite orb_false_r, andb_true_r. }
  pose proof (step2_spec sx e v Wx He Hkex Hrows) as H2.
  pose proof (step2_val sx e v Wx He Hkex Hrows HVx Hv) as HV2.
  destruct (step2 sxor s0 sx e v) as [s2 L]. simpl in HV2.
  destruct H2 as (W2 & T2 & F2 & I2 & R2 & L2).
  assert (HLrev : forall i, In i (rev L) -> i < R0) by (intros i Hi; apply L2; now apply in_rev).
  apply (step3_val (decode sxor s0 f) (decode_contract f) IH (rev L) s2 s' W2 I2 HLrev HV2 Hdec).
Qed.

(* once complete, a call at most stores the submitted symbol *)
Lemma decode_complete_tab fuel (s s':st) e v : WF s -> iscomp s -> e < N0 ->
  decode sxor s0 fuel s e v = Some s' -> tab s' = tab s \/ tab s' = upd (tab s) e (Some v).
Proof.
  intros W Hc He Hdec. destruct fuel as [|f]; [discriminate|]. rewrite decode_unfold in Hdec.
  destruct (known s e) eqn:Hke; [inversion Hdec; subst; now left|right].
  cbv zeta in Hdec. set (s1 := set_tab s e v) in *.
  assert (Hk1 : forall c, known s1 c = known s c || (c =? e)) by (intros c; apply known_set_tab; rewrite (wf_tab s W); auto).
  assert (W1 : WF s1).
  { destruct W as [Wr Wn Wrws Wunk Wenc Wct Wtab Wfnd Wcur]. constructor; simpl; rewrite ?upd_length; auto.
    intros j Hj. rewrite Hk1. rewrite Wcur; auto. }
  assert (Hc1 : iscomp s1) by (intros c Hcc; rewrite Hk1, Hc; auto).
  change (upd (tab s) e (Some v)) with (tab s1).
  destruct (r s1 <=? e).
  - pose proof (is_complete_spec s1 W1) as Hs. destruct (is_complete s1) as [b sx].
    destruct Hs as (Wx & Tx & _ & _ & _ & _ & Hb). assert (b = true) by (apply Hb; auto). subst b.
    simpl in Hdec. inversion Hdec; subst. exact Tx.
  - simpl in Hdec. unfold step2 in Hdec. fold (f2 e v) in Hdec.
    assert (HL : forall i, In i (rows_with s1 e) -> i < R0).
    { intros i Hi. apply (rows_with_spec s1 e i (wf_r s1 W1)) in Hi. tauto. }
    destruct (step2_fold_wf e v (rows_with s1 e) s1 [] W1 HL) as (W2 & T2).
    destruct (fold_left (f2 e v) (rows_with s1 e) (s1, [])) as [s2 L]. simpl in *.
    assert (Hc2 : iscomp s2) by (apply (iscomp_tab_eq s1 s2); [exact T2|exact Hc1]).
    destruct (step3_complete (decode sxor s0 f) (rev L) s2 s' W2 Hc2 Hdec) as (W' & C' & T').
    rewrite T'. exact T2.
Qed.

Definition TabVal (s : st) := forall c v, nth c (tab s) None = Some v -> v = cw c.

(* top level: along any run fed with codeword symbols, every stored symbol is the codeword's *)
Theorem run_values fuel (hist : list (nat * Sy)) (s : st) :
  (forall ev, In ev hist -> fst ev < N0 /\ snd ev = cw (fst ev)) -> run fuel hist = Some s ->
  forall c v, nth c (tab s) None = Some v -> v = cw c.
Proof.
  intros Hh Hrun.
  assert (Hgen : forall h (sA s1 : st),
     (forall ev, In ev h -> fst ev < N0 /\ snd ev = cw (fst ev)) ->
     fold_left (fun os ev => match os with Some s => decode sxor s0 fuel s (fst ev) (snd ev) | None => None end) h (Some sA) = Some s1 ->
     Good sA -> TabVal sA -> (iscomp sA \/ Val sA) -> TabVal s1).
  { induction h as [|ev h IH]; intros sA s1 Hev Hf HG HT HV; simpl in Hf.
    - inversion Hf; subst. exact HT.
    - destruct (decode sxor s0 fuel sA (fst ev) (snd ev)) as [sB|] eqn:Ed.
      2:{ exfalso. clear -Hf. induction h as [|x h IHh]; simpl in Hf; [discriminate|auto]. }
      destruct (Hev ev (or_introl eq_refl)) as (Hr & Hcw).
      assert (GB : Good sB).
      { destruct (decode_good fuel sA sB (fst ev) (snd ev) (fun _ => True) HG) as (GB & _); auto.
        intros c Hc. apply peel_recv. exact I. }
      assert (Hcomp : iscomp sA -> TabVal sB /\ iscomp sB).
      { intros Hc. destruct HG as (W & _).
        destruct (decode_complete fuel sA sB (fst ev) (snd ev) W Hc Hr Ed) as (_ & CB & _).
        split; [|exact CB].
        destruct (decode_complete_tab fuel sA sB (fst ev) (snd ev) W Hc Hr Ed) as [T|T]; intros c w Hcw'; rewrite T in Hcw'.
        - apply (HT c w Hcw').
        - destruct (Nat.eq_dec c (fst ev)) as [->|Hne].
          + rewrite nth_upd_eq in Hcw' by (rewrite (wf_tab sA W); exact Hr). inversion Hcw'; subst; auto.
          + rewrite nth_upd_neq in Hcw' by auto. apply (HT c w Hcw'). }
      assert (HB : TabVal sB /\ (iscomp sB \/ Val sB)).
      { destruct HV as [Hc|HV]; [destruct (Hcomp Hc); auto|].
        destruct HG as (W & [Hc|(HI & HN)]); [destruct (Hcomp Hc); auto|].
        assert (VB : Val sB).
        { destruct (known sA (fst ev)) eqn:Hke.
          - destruct fuel as [|f]; [discriminate|]. rewrite decode_unfold, Hke in Ed. inversion Ed; subst. exact HV.
          - apply (decode_val fuel sA (fst ev) (snd ev) sB W (Inv_PInv sA (fst ev) HI) Hke Hr HV Hcw Ed). }
        split; [exact (proj1 VB)|now right]. }
      destruct HB as (TB & VB).
      apply (IH sB s1 (fun e He => Hev e (or_intror He)) Hf GB TB VB). }
  destruct init_good as (G0 & K0).
  assert (HV0 : Val (init Sy R0 N0 H0)).
  { split.
    - intros c v Hc. simpl in Hc. rewrite nth_repeat_none in Hc. discriminate.
    - intros i t cc Hi Hct. simpl in Hct. rewrite nth_repeat_none in Hct. discriminate. }
  exact (Hgen hist (init Sy R0 N0 H0) s Hh Hrun G0 (proj1 HV0) (or_intror HV0)).
Qed.

End P.

Print Assumptions it_is_peeling.
