(* C04 — LDPC-Staircase streaming decoding = peeling closure, for any arrival order.
   Model: ITModel.v mirrors of_linear_binary_code_decode_with_new_symbol (steps 0-3, the degree-1
   work list, the recursive re-injection, the early exits).  Symbols are identified by matrix column
   (source ESI i <-> column i + r, repair ESI k + j <-> column j); H0 is any parity-check matrix given
   by its rows (duplicate-free, in range, every row with at least two entries), R0 rows, N0 columns.
   Universal in the matrix, its size, the symbol type, the history (order, repetitions, length). *)
From Coq Require Import List Arith.
From OFV Require Import ITModel ITProofs ITCorollaries.
Import ListNotations.

Theorem it_is_peeling_closure :
  forall (Sy : Type) (sxor : Sy -> Sy -> Sy) (s0 : Sy) (H0 : list (list nat)) (R0 N0 : nat),
  length H0 = R0 ->
  (forall i, i < R0 -> NoDup (nth i H0 [])) ->
  (forall i c, i < R0 -> In c (nth i H0 []) -> c < N0) ->
  (forall i, i < R0 -> 2 <= length (nth i H0 [])) ->
  R0 <= N0 ->
  forall hist : list (nat * Sy), (forall ev, In ev hist -> fst ev < N0) ->
  exists s, run Sy sxor s0 H0 R0 N0 (S N0) hist = Some s /\
    let Rc := fun e => In e (map fst hist) in
    (forall c, R0 <= c < N0 -> (known s c = true <-> peel H0 R0 Rc c)) /\
    ((forall c, R0 <= c < N0 -> known s c = true) <-> (forall c, R0 <= c < N0 -> peel H0 R0 Rc c)).
Proof. exact it_closure_full. Qed.

Theorem it_order_and_duplicates_do_not_matter :
  forall (Sy : Type) (sxor : Sy -> Sy -> Sy) (s0 : Sy) (H0 : list (list nat)) (R0 N0 : nat),
  length H0 = R0 ->
  (forall i, i < R0 -> NoDup (nth i H0 [])) ->
  (forall i c, i < R0 -> In c (nth i H0 []) -> c < N0) ->
  (forall i, i < R0 -> 2 <= length (nth i H0 [])) ->
  R0 <= N0 ->
  forall (h1 h2 : list (nat * Sy)) s1 s2,
  (forall ev, In ev h1 -> fst ev < N0) -> (forall ev, In ev h2 -> fst ev < N0) ->
  (forall e, In e (map fst h1) <-> In e (map fst h2)) ->
  run Sy sxor s0 H0 R0 N0 (S N0) h1 = Some s1 -> run Sy sxor s0 H0 R0 N0 (S N0) h2 = Some s2 ->
  forall c, R0 <= c < N0 -> known s1 c = known s2 c.
Proof. exact it_order_independent. Qed.

(* The models identify a symbol by its matrix column (sources: columns r .. n-1, repairs: 0 .. r-1); the API speaks ESIs.
   That this convention is the library's is not assumed: gen/GenSymbol.v is regenerated on every run from the macros of
   of_symbol.h (tools/gen_params.py), and SymbolTie.v proves the generated functions equal to the models' conversions. *)
From Coq Require Import ZArith.
From OFV Require Import CSem ITRun SymbolTie.
From OFV.gen Require Import GenSymbol.
Theorem the_library_s_esi_to_column_macro_is_col_of : forall k r esi : nat, (Z.of_nat k + Z.of_nat r < 2147483648)%Z -> esi < k + r ->
  get_symbol_col (Z.of_nat esi) (Z.of_nat r) (Z.of_nat k) = Some (Z.of_nat (col_of k r esi)).
Proof. exact get_symbol_col_is_col_of. Qed.
Theorem the_library_s_column_to_esi_macro_is_esi_of : forall k r col : nat, (Z.of_nat k + Z.of_nat r < 2147483648)%Z -> col < k + r ->
  get_symbol_esi (Z.of_nat col) (Z.of_nat r) (Z.of_nat k) = Some (Z.of_nat (esi_of k r col)).
Proof. exact get_symbol_esi_is_esi_of. Qed.
Theorem esi_and_column_conversions_are_inverse : forall k r esi, esi < k + r -> esi_of k r (col_of k r esi) = esi /\ col_of k r esi < k + r.
Proof. exact col_esi_inverse. Qed.

Print Assumptions the_library_s_esi_to_column_macro_is_col_of.
Print Assumptions it_is_peeling_closure.
Print Assumptions it_order_and_duplicates_do_not_matter.
