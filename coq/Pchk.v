(* Model M of of_create_pchck_matrix_rfc5170_compliant (of_ldpc_staircase_pchk.c) on top of the
   sparse-matrix model (Sparse.v) and of the PRNG *generated from of_rand.c* (gen/GenPrng.v).
   Retry loops driven by the PRNG take fuel; None = out of fuel or undefined PRNG step. *)
From Coq Require Import ZArith Arith List Bool.
From OFV Require Import ListAux CSem Sparse.
From OFV.gen Require Import GenPrng.
Import ListNotations.

Definition rnd (g : Z) (maxv : nat) : option (nat * Z) :=
  match of_rfc5170_rand g (Z.of_nat maxv) with Some (o, g') => Some (Z.to_nat o, g') | None => None end.

Definition found (m : smat) (i j : nat) : bool := match s_find m i j with Some b => b | None => false end.
Definition ins (m : smat) (i j : nat) : smat := fst (s_insert m i j).

(* for (i = t; i < len && find(u[i], j); i++) ; *)
Fixpoint scan (m : smat) (u : list nat) (j : nat) (i cnt : nat) : nat :=
  match cnt with O => i | S c => if found m (nth i u 0) j then scan m u j (S i) c else i end.

(* do { i = t + rand(len - t); } while (find(u[i], j)); *)
Fixpoint pick_u (fuel : nat) (m : smat) (u : list nat) (j t len : nat) (g : Z) : option (nat * Z) :=
  match fuel with O => None | S f =>
    match rnd g (len - t) with None => None | Some (x, g') =>
      let i := t + x in if found m (nth i u 0) j then pick_u f m u j t len g' else Some (i, g') end end.
(* do { i = rand(nb_rows); } while (find(i, j)); *)
Fixpoint pick_row (fuel : nat) (m : smat) (j r : nat) (g : Z) : option (nat * Z) :=
  match fuel with O => None | S f =>
    match rnd g r with None => None | Some (i, g') => if found m i j then pick_row f m j r g' else Some (i, g') end end.

Record lstate := { lm : smat; lu : list nat; lt : nat; lg : Z }.

(* the N1 insertions of one source column j *)
Fixpoint fill_col (fuel : nat) (cnt : nat) (j r len : nat) (s : lstate) : option lstate :=
  match cnt with O => Some s | S c =>
    let i := scan (lm s) (lu s) j (lt s) (len - lt s) in
    if i <? len then
      match pick_u fuel (lm s) (lu s) j (lt s) len (lg s) with None => None | Some (i', g') =>
        fill_col fuel c j r len {| lm := ins (lm s) (nth i' (lu s) 0) j; lu := upd (lu s) i' (nth (lt s) (lu s) 0); lt := S (lt s); lg := g' |} end
    else
      match pick_row fuel (lm s) j r (lg s) with None => None | Some (i', g') =>
        fill_col fuel c j r len {| lm := ins (lm s) i' j; lu := lu s; lt := lt s; lg := g' |} end
  end.

Fixpoint fill_cols (fuel : nat) (cols : list nat) (n1 r len : nat) (s : lstate) : option lstate :=
  match cols with [] => Some s | j :: rest =>
    match fill_col fuel n1 j r len s with None => None | Some s' => fill_cols fuel rest n1 r len s' end end.

(* do { j = rand(k) + r; } while (j == col(e)); *)
Fixpoint pick_other (fuel : nat) (k r avoid : nat) (g : Z) : option (nat * Z) :=
  match fuel with O => None | S f =>
    match rnd g k with None => None | Some (x, g') => if x + r =? avoid then pick_other f k r avoid g' else Some (x + r, g') end end.

(* extra entries: rows with fewer than two checks *)
Fixpoint extra_rows (fuel : nat) (rows : list nat) (k r : nat) (m : smat) (g : Z) (added : nat) : option (smat * Z * nat) :=
  match rows with [] => Some (m, g, added) | i :: rest =>
    let step1 := match nth i (rws m) [] with
                 | [] => match rnd g k with None => None | Some (x, g') => Some (ins m i (x + r), g', S added) end
                 | _ => Some (m, g, added) end in
    match step1 with None => None | Some (m1, g1, a1) =>
      match nth i (rws m1) [] with
      | [e] => if 1 <? k then
                 match pick_other fuel k r e g1 with None => None | Some (j, g2) => extra_rows fuel rest k r (ins m1 i j) g2 (S a1) end
               else extra_rows fuel rest k r m1 g1 a1
      | _ => extra_rows fuel rest k r m1 g1 a1
      end
    end
  end.

Definition staircase (r : nat) (m : smat) : smat :=
  fold_left (fun acc i => ins (ins acc i i) i (i - 1)) (seq 1 (r - 1)) (ins m 0 0).

(* returns the matrix, the extra_entries_added_in_pchk flag and the PRNG state left behind *)
Definition pchk (fuel : nat) (k r n1 : nat) (seed : Z) (g0 : Z) : option (smat * bool * Z) :=
  if r <? n1 then None else
  match of_rfc5170_srand g0 seed with None => None | Some g =>
    let n := k + r in let len := n1 * k in
    let u := map (fun h => h mod r) (seq 0 len) in
    match fill_cols fuel (seq r k) n1 r len {| lm := s_allocate r n; lu := u; lt := 0; lg := g |} with None => None | Some s =>
      match extra_rows fuel (seq 0 r) k r (lm s) (lg s) 0 with None => None | Some (m, g', added) =>
        Some (staircase r m, 1 <=? added, g') end end end.

(* OF_CRTL_LDPC_STAIRCASE_IS_LAST_SYMBOL_NULL: N1 even and no extra entry *)
Definition last_symbol_null_claim (n1 : nat) (extra : bool) : bool := Nat.even n1 && negb extra.
