(* Ownership ledger of a Reed-Solomon decoder session, both codecs (C08).  The control state is the API model
   RSApi.v (buffers tagged true = received, false = filled at decoding time); on top of it ride
     ctxb  : the blocks of the codec context (of_rs_new's struct + generator for GF(2^8), the generator matrix
             enc_matrix for GF(2^m)); empty while there is none
     given : the blocks the library allocated for decoded source symbols (callback absent or returning NULL);
             they belong to the application from the moment they are stored in the table
     rhp   : the live library blocks
   Parameters: ctxn = size of the context (2 for the GF(2^8) codec, 1 for GF(2^m)), keep = the context survives
   a decoding (GF(2^m): the generator matrix is kept until release; GF(2^8): of_rs_finish_decoding frees it).
   Mirrored from of_reed-solomon_gf_2_8_api.c / of_reed-solomon_gf_2_m_api.c:
     build_repair_symbol  creates the context if there is none
     finish (reached from of_finish_decoding or from the k-th of_decode_with_new_symbol), when the algebraic
                          decoder runs: GF(2^8) frees an existing context, creates one, decodes, frees it; GF(2^m)
                          creates it if absent and keeps it; then one block per missing source unless the callback
                          returned a buffer
     release              frees the context if any (plus the availability table and the session block)
   Call-local scratch (large_buf, the decode matrix, the inversion's work tables) is not in the ledger. *)
From Coq Require Import Arith List Bool.
From OFV Require Import ListAux RSApi RSRun LdpcHeap.
Import ListNotations.

Record rsh := { api : rs bool; ctxb : list nat; given : list nat; rhp : heap; rncb : nat }.

Definition rsh_init (k n : nat) : rsh := {| api := rs_init bool k n; ctxb := []; given := []; rhp := h_empty; rncb := 0 |}.

Fixpoint alloc_n (m : nat) (h : heap) : list nat * heap :=
  match m with O => ([], h) | S m' => let '(h1, b) := halloc h in let '(l, h2) := alloc_n m' h1 in (b :: l, h2) end.

Section RSH.
Variable ctxn : nat.
Variable keep : bool.
Variable cbf : nat -> bool.         (* does the n-th decoded-source callback return a buffer? *)
Variable cb : bool.                 (* is a callback registered at all (for the API model's event list) *)

Definition rsh_build (s : rsh) : rsh :=
  match ctxb s with
  | [] => let '(l, h) := alloc_n ctxn (rhp s) in {| api := api s; ctxb := l; given := given s; rhp := h; rncb := rncb s |}
  | _ => s
  end.

(* the context around a run of the algebraic decoder *)
Definition ctx_decode (s : rsh) : option rsh :=
  if keep then
    match ctxb s with
    | [] => let '(l, h) := alloc_n ctxn (rhp s) in Some {| api := api s; ctxb := l; given := given s; rhp := h; rncb := rncb s |}
    | _ => Some s
    end
  else
    match free_all (ctxb s) (rhp s) with
    | None => None
    | Some h => let '(l, h1) := alloc_n ctxn h in
                match free_all l h1 with None => None
                | Some h2 => Some {| api := api s; ctxb := []; given := given s; rhp := h2; rncb := rncb s |} end
    end.

(* one block (or one callback buffer) per source entry that the decoding filled *)
Fixpoint give (old new : list (option bool)) (g : list nat) (h : heap) (nc : nat) : list nat * heap * nat :=
  match old, new with
  | o :: old', nw :: new' =>
      match o, nw with
      | None, Some _ => if cbf nc then give old' new' g h (S nc)
                        else let '(h1, b) := halloc h in give old' new' (b :: g) h1 (S nc)
      | _, _ => give old' new' g h nc
      end
  | _, _ => (g, h, nc)
  end.

(* did this API step run the algebraic decoder?  (the completion flag rose while a source was missing) *)
Definition decoded_now (a a' : rs bool) : bool := negb (fin a) && fin a' && negb (navail_src a' =? rk a').

(* old: the availability table just before the copy-out loop *)
Definition rsh_after (s : rsh) (old : list (option bool)) (a' : rs bool) : option rsh :=
  if decoded_now (api s) a' then
    match ctx_decode s with
    | None => None
    | Some s1 =>
      let k := rk (api s) in
      let '(g, h, nc) := give (firstn k old) (firstn k (RSApi.tab a')) (given s1) (rhp s1) (rncb s1) in
      Some {| api := a'; ctxb := ctxb s1; given := g; rhp := h; rncb := nc |}
    end
  else Some {| api := a'; ctxb := ctxb s; given := given s; rhp := rhp s; rncb := rncb s |}.

Definition rsh_submit (s : rsh) (esi : nat) : option rsh :=
  rsh_after s (match nth esi (RSApi.tab (api s)) None with None => upd (RSApi.tab (api s)) esi (Some true) | Some _ => RSApi.tab (api s) end)
            (fst (rs_decode_with_new_symbol core_oracle cb mk_dec (api s) esi true)).
Definition rsh_set_available (s : rsh) (t : list (option bool)) : option rsh :=
  rsh_after s t (fst (rs_set_available (api s) t)).
Definition rsh_finish (s : rsh) : option rsh :=
  (* the table an of_set_available_symbols call installed is the "old" table of the copy-out *)
  rsh_after s (RSApi.tab (api s)) (fst (rs_finish core_oracle cb mk_dec (api s))).

Definition rsh_release (s : rsh) : option heap := free_all (ctxb s) (rhp s).
End RSH.

(* library blocks of a session state: session block + availability table + the live ledger *)
Definition rs_ledger (s : rsh) : nat := 2 + length (live (rhp s)).

(* ---- executable wrapper for the correspondence check ---- *)
Fixpoint rsh_steps (ctxn : nat) (keep : bool) (cbf : nat -> bool) (cb : bool) (s : rsh) (esis : list nat) : list (option nat) * option rsh :=
  match esis with
  | [] => ([], Some s)
  | e :: rest =>
    match rsh_submit ctxn keep cbf cb s e with
    | None => ([None], None)
    | Some s' => let '(l, f) := rsh_steps ctxn keep cbf cb s' rest in (Some (rs_ledger s') :: l, f)
    end
  end.

Record rs_heap_obs := { rh_setup : nat; rh_calls : list (option nat); rh_finish : option (option nat); rh_left : option (nat * nat) }.

Definition rs_heap_session (gf8 : bool) (k n : nat) (cbmode : nat) (api1 : bool) (built : bool) (esis : list nat) (fin : bool) : rs_heap_obs :=
  let ctxn := if gf8 then 2 else 1 in
  let keep := negb gf8 in
  let cbf : nat -> bool := match cbmode with 1 => fun _ => true | 3 => fun i => Nat.even i | _ => fun _ => false end in
  let cb := negb (cbmode =? 0) in
  let s0 := rsh_init k n in
  let s0 := if built then rsh_build ctxn s0 else s0 in
  let '(calls, f) :=
    if api1 then
      let t := map (fun e => if existsb (Nat.eqb e) esis then Some true else None) (seq 0 n) in
      match rsh_set_available ctxn keep cbf s0 t with None => ([None], None) | Some s1 => ([Some (rs_ledger s1)], Some s1) end
    else rsh_steps ctxn keep cbf cb s0 esis in
  match f with
  | None => {| rh_setup := rs_ledger s0; rh_calls := calls; rh_finish := None; rh_left := None |}
  | Some s1 =>
    let '(fo, sl) := if fin then match rsh_finish ctxn keep cbf cb s1 with None => (Some None, None) | Some s2 => (Some (Some (rs_ledger s2)), Some s2) end
                     else (None, Some s1) in
    {| rh_setup := rs_ledger s0; rh_calls := calls; rh_finish := fo;
       rh_left := match sl with None => None | Some s2 =>
                    match rsh_release s2 with None => None | Some h => Some (length (live h), length (given s2)) end end |}
  end.
