(* The bit macros of of_matrix_dense.h (of_mod2_getbit, of_mod2_setbit1, of_mod2_setbit0), regenerated from the header on every
   run (gen/GenSymbol.v), against the bit operations Dense.v uses (N.testbit, N.setbit, N.clearbit) on a 32-bit word.
   For bit positions 0..30 they agree.  For position 31 the C expression `1 << 31` overflows `int`: undefined behaviour in ISO C
   (the generated function returns None there), which gcc and clang compile to the wrap-around the model assumes.  This file makes
   that single assumption explicit instead of leaving it in the model's definition. *)
From Coq Require Import ZArith NArith Bool Lia.
From OFV Require Import CSem.
From OFV.gen Require Import GenSymbol.
Local Open Scope Z_scope.

Lemma wrapu32_small z : 0 <= z < 4294967296 -> wrapu32 z = z.
Proof. intros H. unfold wrapu32, wrapu. apply Z.mod_small. exact H. Qed.

Lemma chk_s32_in z : -2147483648 <= z < 2147483648 -> chk_s32 z = Some z.
Proof.
  intros H. unfold chk_s32, chk_s. change (2 ^ (32 - 1)) with 2147483648.
  assert (A : (- (2147483648) <=? z) = true) by (apply Z.leb_le; lia).
  assert (B : (z <? 2147483648) = true) by (apply Z.ltb_lt; lia).
  rewrite A, B. reflexivity.
Qed.
Lemma chk_shift_in w a v : 0 <= a < w -> chk_shift w a v = Some v.
Proof.
  intros H. unfold chk_shift.
  assert (A : (0 <=? a) = true) by (apply Z.leb_le; lia). assert (B : (a <? w) = true) by (apply Z.ltb_lt; lia).
  rewrite A, B. reflexivity.
Qed.
Lemma pow2_lt31 i : 0 <= i < 31 -> 0 < 2 ^ i < 2147483648.
Proof. intros Hi. split; [apply Z.pow_pos_nonneg; lia|]. change 2147483648 with (2 ^ 31). apply Z.pow_lt_mono_r; lia. Qed.

Theorem getbit_is_testbit : forall w i, 0 <= w < 4294967296 -> 0 <= i < 32 ->
  mod2_getbit w i = Some (if Z.testbit w i then 1 else 0).
Proof.
  intros w i Hw Hi. unfold mod2_getbit. rewrite chk_shift_in by lia.
  cbn [bind]. rewrite (wrapu32_small 1) by lia.
  rewrite wrapu32_small.
  - f_equal. rewrite Z.land_ones with (n := 1) by lia. change (2 ^ 1) with 2.
    rewrite <- Z.bit0_mod. rewrite Z.shiftr_spec by lia. rewrite Z.add_0_l. destruct (Z.testbit w i); reflexivity.
  - split; [apply Z.shiftr_nonneg; lia|]. rewrite Z.shiftr_div_pow2 by lia.
    assert (0 < 2 ^ i) by (apply Z.pow_pos_nonneg; lia).
    apply Z.le_lt_trans with w; [|lia]. apply Z.div_le_upper_bound; [lia|]. nia.
Qed.

Theorem setbit1_is_setbit_below_31 : forall w i, 0 <= w < 4294967296 -> 0 <= i < 31 ->
  mod2_setbit1 w i = Some (Z.lor w (2 ^ i)).
Proof.
  intros w i Hw Hi. unfold mod2_setbit1. rewrite Z.shiftl_1_l. pose proof (pow2_lt31 i Hi) as P.
  rewrite chk_s32_in by lia. cbn [bind]. rewrite chk_shift_in by lia. cbn [bind]. rewrite wrapu32_small by lia. reflexivity.
Qed.

(* the one place where the library leaves ISO C: bit 31 *)
Theorem setbit1_at_31_is_undefined_in_iso_c : forall w, mod2_setbit1 w 31 = None.
Proof. intros w. reflexivity. Qed.

Theorem setbit0_is_clearbit_below_31 : forall w i, 0 <= w < 4294967296 -> 0 <= i < 31 ->
  mod2_setbit0 w i = Some (Z.land w (wrapu32 (- 2 ^ i - 1))).
Proof.
  intros w i Hw Hi. unfold mod2_setbit0. rewrite Z.shiftl_1_l. pose proof (pow2_lt31 i Hi) as P.
  rewrite chk_s32_in by lia. cbn [bind]. rewrite chk_shift_in by lia. cbn [bind]. reflexivity.
Qed.

Print Assumptions getbit_is_testbit.
Print Assumptions setbit1_is_setbit_below_31.
Print Assumptions setbit0_is_clearbit_below_31.
