(* C07 for the Reed-Solomon decoding path: the in-place Gauss-Jordan inversion (of_invert_mat, three textual
   copies in the library; model in GaussJordan.v) never indexes its k x k matrix or its work arrays out of
   range.

   The plain model reads with [nth i l default] and writes with [set_nth i v l]; both are TOTAL (an
   out-of-range read returns the default, an out-of-range write is dropped), so an index slip would be masked.
   Here every function of the model that touches the matrix or a work array is copied with all reads and
   writes going through the accessors of ITBounds.v that FAIL out of range ([nth_chk], [upd_chk]); the result
   of the checked inversion distinguishes
        OutOfBounds | Singular | Inverted M
   (Singular: the model's failure results - no pivot found [PNone], the unreachable [PFail], c == 0).

   The C indexes a flat array src[row*k + col] and the arrays indxc, indxr, ipiv (k ints each), id_row,
   temp_row (k field elements each).  In the model the matrix is a list of k rows of length k; an access
   (i, j) is in range iff i < k and j < k (then i*k + j < k*k, [flat_index_lt]), an access to a work array at
   position i iff i < k.  temp_row is allocated and freed but never read or written in any of the three
   copies, so it does not appear.  indxr / indxc are explicit arrays of k entries here (the plain model keeps
   the list of pairs (indxr[col], indxc[col]), latest first), id_row is an explicit array of k entries
   (the plain model recomputes [unit_row k icol]).

   A pointer that the C uses for k consecutive entries (a row &src[i*k] in SWAP / the scaling loop / addmul /
   bcmp, the array id_row in bcmp, the k rows of src in the loops over row) is fetched through [span_chk] /
   [row_chk], which succeed iff the list has EXACTLY k entries: shorter, some p[ix] with ix < k is outside
   the list; longer, the list is not a row of a k-column matrix (resp. not a k-entry array) and the plain
   model - which maps over the whole list - would not describe the C loop either.  Counting the second case
   as a failure too only makes the safety theorem stronger, and it is what makes the refinement theorem hold
   without any hypothesis.  Once a list is known to span exactly k entries, the loop "for (ix = 0; ix < k;
   ix++) p[ix] = ..." is the model's whole-list operation.  Every other index (col, irow, icol, row, ix into
   ipiv / indxr / indxc / id_row, the pivot position p[icol], the columns indxr[col] / indxc[col] in the
   unscrambling) goes through [nth_chk] / [upd_chk].

     G1  checked copies get_chk set_chk row_chk scan_row_chk scan_rows_chk find_pivot_chk mark_chk
         swap_rows_chk scale_row_chk elim_rows_chk eliminate_chk gj_step_chk gj_loop_chk swap_cols_chk
         unscramble_chk invert_mat_chk
     G2  [invert_mat_chk_refines] (no hypothesis): Inverted M -> invert_mat = Some M;
         Singular -> invert_mat = None
     G3  [invert_mat_chk_safe]: wf k A -> invert_mat_chk k A = of_opt (invert_mat k A); hence
         [invert_mat_chk_never_oob], [invert_mat_chk_inverted_iff], [invert_mat_chk_singular_iff].
         The invariant is [CInv] (wf k of the matrix, length k of ipiv / indxr / indxc, id_row = k zeros)
         together with [idx_ok k] (every recorded indxr / indxc entry < k) and [find_pivot_range] (pivot
         positions < k).  No field axiom is used anywhere.
     G4  closed examples (bool/xorb/andb as a toy field, and GF(256) over N) where the checked copy IS
         OutOfBounds while the plain model returns a value
     G5  the instances for invert_mat256 / invert_mat16.

   On the order of the effects in one column step.  The C does: ++ipiv[icol]; swap of the rows; indxr[col] =
   irow; indxc[col] = icol; c = pivot_row[icol]; if (c == 0) fail.  The checked copy does the two index
   writes before the swap; everything before the test c == 0 can only be OutOfBounds or succeed, so the
   result (OutOfBounds / Singular / the new state) is the same in both orders. *)
From Coq Require Import List Arith NArith Bool Lia.
From OFV Require Import GF2Poly GFField GaussJordan.
From OFV Require ITBounds.
Import ListNotations.

Notation nth_chk := ITBounds.nth_chk.
Notation upd_chk := ITBounds.upd_chk.

(* ------------------------------------------------------------------------------------------ *)
(* 0. Result type, accessors                                                                    *)
(* ------------------------------------------------------------------------------------------ *)
Inductive result (X : Type) : Type := OutOfBounds | Singular | Inverted (x : X).
Arguments OutOfBounds {X}.
Arguments Singular {X}.
Arguments Inverted {X} x.
(* the successful result of an intermediate step *)
Notation Ok := Inverted (only parsing).

Definition bind {X Y} (a : result X) (f : X -> result Y) : result Y :=
  match a with OutOfBounds => OutOfBounds | Singular => Singular | Inverted x => f x end.
(* a failed access *)
Definition acc {X} (o : option X) : result X := match o with Some x => Ok x | None => OutOfBounds end.
(* the plain model's option, seen as a result that is never OutOfBounds *)
Definition of_opt {X} (o : option X) : result X := match o with Some x => Ok x | None => Singular end.

Notation "'let!' x := a 'in' k" := (bind a (fun x => k)) (at level 200, x name, a at level 100, k at level 200, right associativity).

(* ITModel.upd (used by upd_chk) is GaussJordan.set_nth *)
Lemma upd_set_nth {X} : forall (l : list X) i x, ITModel.upd l i x = set_nth i x l.
Proof. induction l as [|h t IH]; intros [|i] x; cbn; try reflexivity. now rewrite IH. Qed.

Lemma nth_chk_None {X} (l : list X) i : nth_chk l i = None <-> length l <= i.
Proof. apply ITBounds.nth_chk_none. Qed.
Lemma upd_chk_None {X} (l : list X) i x : upd_chk l i x = None <-> length l <= i.
Proof. apply ITBounds.upd_chk_none. Qed.

Lemma acc_nth_in {X} (l : list X) i d : i < length l -> acc (nth_chk l i) = Ok (nth i l d).
Proof. intros H. now rewrite (ITBounds.nth_chk_in l i d H). Qed.
Lemma acc_upd_in {X} (l : list X) i x : i < length l -> acc (upd_chk l i x) = Ok (set_nth i x l).
Proof. intros H. now rewrite (ITBounds.upd_chk_in l i x H), upd_set_nth. Qed.
Lemma acc_nth_oob {X} (l : list X) i : length l <= i -> acc (nth_chk l i) = OutOfBounds.
Proof. intros H. apply nth_chk_None in H. now rewrite H. Qed.
Lemma acc_upd_oob {X} (l : list X) i x : length l <= i -> acc (upd_chk l i x) = OutOfBounds.
Proof. intros H. apply (upd_chk_None l i x) in H. now rewrite H. Qed.

(* "is v, unless out of bounds" and "is the option o, unless out of bounds" *)
Definition okis {X} (a : result X) (v : X) : Prop :=
  match a with OutOfBounds => True | Singular => False | Inverted x => x = v end.
Definition refo {X} (a : result X) (o : option X) : Prop :=
  match a with OutOfBounds => True | Singular => o = None | Inverted x => o = Some x end.

Lemma okis_acc_nth {X} (l : list X) i d : okis (acc (nth_chk l i)) (nth i l d).
Proof.
  destruct (nth_chk l i) as [x|] eqn:E; cbn; [|exact I].
  now destruct (ITBounds.nth_chk_sound l i x d E).
Qed.
Lemma okis_acc_upd {X} (l : list X) i x : okis (acc (upd_chk l i x)) (set_nth i x l).
Proof.
  destruct (upd_chk l i x) as [l'|] eqn:E; cbn; [|exact I].
  destruct (ITBounds.upd_chk_sound l i x l' E) as (_ & H). now rewrite <- H, upd_set_nth.
Qed.
Lemma okis_bind {X Y} (a : result X) (f : X -> result Y) v w : okis a v -> okis (f v) w -> okis (bind a f) w.
Proof. destruct a; cbn; intros H K; [exact I|destruct H|now subst]. Qed.
Lemma okis_refo {X Y} (a : result X) (f : X -> result Y) v o : okis a v -> refo (f v) o -> refo (bind a f) o.
Proof. destruct a; cbn; intros H K; [exact I|destruct H|now subst]. Qed.
Lemma okis_Ok {X} (v : X) : okis (Ok v) v.
Proof. reflexivity. Qed.
Lemma refo_of_opt {X} (o : option X) : refo (of_opt o) o.
Proof. destruct o; reflexivity. Qed.
(* a successful write tells that the index was in range *)
Lemma refo_acc_upd {X Y} (l : list X) i x (f : list X -> result Y) o :
  (i < length l -> refo (f (set_nth i x l)) o) -> refo (bind (acc (upd_chk l i x)) f) o.
Proof.
  intros H. destruct (upd_chk l i x) as [l'|] eqn:E; cbn; [|exact I].
  destruct (ITBounds.upd_chk_sound l i x l' E) as (Hi & <-). rewrite upd_set_nth. exact (H Hi).
Qed.
(* what is neither OutOfBounds nor wrong is the model's value *)
Lemma okis_not_oob {X} (a : result X) v : okis a v -> a <> OutOfBounds -> a = Ok v.
Proof. destruct a; cbn; intros H K; [now destruct K|destruct H|now subst]. Qed.

Ltac ob L := eapply okis_bind; [apply L|cbv beta].
Ltac orf L := eapply okis_refo; [apply L|cbv beta].

(* for every x of l, in order; fails at the first failure *)
Fixpoint mapM_chk {X Y} (f : X -> result Y) (l : list X) : result (list Y) :=
  match l with
  | [] => Ok []
  | x :: t => let! y := f x in let! t' := mapM_chk f t in Ok (y :: t')
  end.

Lemma okis_mapM {X Y} (f : X -> result Y) (g : X -> Y) : (forall x, okis (f x) (g x)) ->
  forall l, okis (mapM_chk f l) (map g l).
Proof.
  intros H. induction l as [|x t IH]; cbn [mapM_chk map]; [reflexivity|].
  ob H. eapply okis_bind; [exact IH|]. reflexivity.
Qed.
Lemma mapM_chk_in {X Y} (f : X -> result Y) (g : X -> Y) : forall l, (forall x, In x l -> f x = Ok (g x)) ->
  mapM_chk f l = Ok (map g l).
Proof.
  induction l as [|x t IH]; intros H; cbn [mapM_chk map]; [reflexivity|].
  rewrite (H x (or_introl eq_refl)). cbn [bind]. rewrite IH by (intros y Hy; apply H; now right). reflexivity.
Qed.

(* a pointer used for k consecutive entries: the list has exactly k entries *)
Definition span_chk {X} (k : nat) (l : list X) : result (list X) :=
  if Nat.eqb (length l) k then Ok l else OutOfBounds.
Lemma span_chk_okis {X} k (l : list X) : okis (span_chk k l) l.
Proof. unfold span_chk. destruct (Nat.eqb (length l) k); [reflexivity|exact I]. Qed.
Lemma span_chk_in {X} k (l : list X) : length l = k -> span_chk k l = Ok l.
Proof. intros H. unfold span_chk. now rewrite H, Nat.eqb_refl. Qed.
Lemma span_chk_ok {X} k (l l' : list X) : span_chk k l = Ok l' -> l' = l /\ length l = k.
Proof.
  unfold span_chk. destruct (Nat.eqb_spec (length l) k) as [E|_]; [|discriminate].
  intros H. injection H as <-. now split.
Qed.
(* exact failure condition *)
Lemma span_chk_oob {X} k (l : list X) : span_chk k l = OutOfBounds <-> length l <> k.
Proof. unfold span_chk. destruct (Nat.eqb_spec (length l) k) as [E|N]; split; intros H; try discriminate; tauto. Qed.

(* list facts used below *)
Lemma set_nth_set_nth {X} : forall (l : list X) i x y, set_nth i y (set_nth i x l) = set_nth i y l.
Proof. induction l as [|h t IH]; intros [|i] x y; cbn [set_nth]; try reflexivity. now rewrite IH. Qed.

Lemma nth_chk_set_nth_neq {X} : forall (l : list X) i j x, i <> j -> nth_chk (set_nth i x l) j = nth_chk l j.
Proof.
  induction l as [|h t IH]; intros [|i] [|j] x H; cbn [set_nth ITBounds.nth_chk]; try reflexivity; [lia|].
  apply IH. lia.
Qed.
Lemma nth_chk_set_nth_eq {X} : forall (l : list X) i x, i < length l -> nth_chk (set_nth i x l) i = Some x.
Proof.
  induction l as [|h t IH]; intros [|i] x H; cbn [set_nth ITBounds.nth_chk length] in *; try lia; [reflexivity|].
  apply IH. lia.
Qed.

Lemma flat_index_lt k i j : i < k -> j < k -> i * k + j < k * k.
Proof. intros Hi Hj. nia. Qed.

(* ------------------------------------------------------------------------------------------ *)
(* G1. Checked copies                                                                           *)
(* ------------------------------------------------------------------------------------------ *)
Section Chk.
Variable F : Type.
Variables (zero one : F) (add mul : F -> F -> F) (inv : F -> F).
Variable eqb : F -> F -> bool.

Local Notation mat := (matrix F).
Local Notation get := (get F zero).
Local Notation wf := (wf F).
Local Notation scan_row := (scan_row F zero eqb).
Local Notation scan_rows := (scan_rows F zero eqb).
Local Notation find_pivot := (find_pivot F zero eqb).
Local Notation swap_rows := (swap_rows F).
Local Notation swap_cols := (swap_cols F zero).
Local Notation scale_row := (scale_row F zero one mul inv eqb).
Local Notation addmul := (addmul F add mul).
Local Notation elim_rows := (elim_rows F zero add mul).
Local Notation unit_row := (unit_row F zero one).
Local Notation list_eqb := (list_eqb F eqb).
Local Notation eliminate := (eliminate F zero one add mul inv eqb).
Local Notation gj_step := (gj_step F zero one add mul inv eqb).
Local Notation gj_loop := (gj_loop F zero one add mul inv eqb).
Local Notation unscramble := (unscramble F zero).
Local Notation invert_mat := (invert_mat F zero one add mul inv eqb).

(* src[i*k + j] *)
Definition get_chk (A : mat) (i j : nat) : result F :=
  let! r := acc (nth_chk A i) in acc (nth_chk r j).
(* src[i*k + j] = v *)
Definition set_chk (A : mat) (i j : nat) (v : F) : result mat :=
  let! r := acc (nth_chk A i) in let! r' := acc (upd_chk r j v) in acc (upd_chk A i r').
(* &src[i*k], used for k entries *)
Definition row_chk (k : nat) (A : mat) (i : nat) : result (list F) :=
  let! r := acc (nth_chk A i) in span_chk k r.

(* ---- pivot search ---- *)
Fixpoint scan_row_chk (ipiv : list nat) (A : mat) (row : nat) (cols : list nat) : result pres :=
  match cols with
  | [] => Ok PNone
  | ix :: cols' =>
      let! m := acc (nth_chk ipiv ix) in
      if Nat.eqb m 0 then
        let! x := get_chk A row ix in
        if negb (eqb x zero) then Ok (PFound row ix) else scan_row_chk ipiv A row cols'
      else if Nat.ltb 1 m then Ok PFail
      else scan_row_chk ipiv A row cols'
  end.

Fixpoint scan_rows_chk (k : nat) (ipiv : list nat) (A : mat) (rows : list nat) : result pres :=
  match rows with
  | [] => Ok PNone
  | row :: rows' =>
      let! m := acc (nth_chk ipiv row) in
      if negb (Nat.eqb m 1) then
        let! r := scan_row_chk ipiv A row (seq 0 k) in
        match r with
        | PNone => scan_rows_chk k ipiv A rows'
        | _ => Ok r
        end
      else scan_rows_chk k ipiv A rows'
  end.

(* if (ipiv[col] != 1 && src[col*k + col] != 0): the matrix is read only when the first test passes *)
Definition find_pivot_chk (k : nat) (ipiv : list nat) (A : mat) (col : nat) : result pres :=
  let! m := acc (nth_chk ipiv col) in
  if negb (Nat.eqb m 1) then
    let! x := get_chk A col col in
    if negb (eqb x zero) then Ok (PFound col col) else scan_rows_chk k ipiv A (seq 0 k)
  else scan_rows_chk k ipiv A (seq 0 k).

(* ++(ipiv[icol]) *)
Definition mark_chk (ipiv : list nat) (icol : nat) : result (list nat) :=
  let! m := acc (nth_chk ipiv icol) in acc (upd_chk ipiv icol (S m)).

(* ---- row operations ---- *)
(* for (ix = 0; ix < k; ix++) SWAP (src[r*k + ix], src[c*k + ix]) *)
Definition swap_rows_chk (k r c : nat) (A : mat) : result mat :=
  let! rr := row_chk k A r in let! rc := row_chk k A c in
  let! A1 := acc (upd_chk A c rr) in acc (upd_chk A1 r rc).

(* SWAP (row[a], row[b]) *)
Definition swap2_chk (a b : nat) (row : list F) : result (list F) :=
  let! x := acc (nth_chk row a) in let! y := acc (nth_chk row b) in
  let! r1 := acc (upd_chk row b x) in acc (upd_chk r1 a y).

(* for (row = 0; row < k; row++) SWAP (src[row*k + a], src[row*k + b]) *)
Definition swap_cols_chk (k a b : nat) (A : mat) : result mat :=
  let! A' := span_chk k A in mapM_chk (swap2_chk a b) A'.

(* c = pivot_row[icol]; if (c != 1) { pivot_row[icol] = 1; for (ix < k) pivot_row[ix] = inverse[c] * pivot_row[ix] };
   pivot_row spans k entries (it comes from row_chk) *)
Definition scale_row_chk (icol : nat) (prow : list F) : result (list F) :=
  let! c := acc (nth_chk prow icol) in
  if eqb c one then Ok prow
  else let! p1 := acc (upd_chk prow icol one) in Ok (map (mul (inv c)) p1).

(* for (ix < k) if (ix != icol) { c = p[icol]; p[icol] = 0; addmul (p, pivot_row, c, k) } *)
Definition elim_rows_chk (k icol : nat) (prow : list F) (A : mat) : result mat :=
  let! pr := span_chk k prow in
  mapM_chk (fun ix =>
              if Nat.eqb ix icol then acc (nth_chk A ix)
              else let! p := row_chk k A ix in
                   let! c := acc (nth_chk p icol) in
                   let! p1 := acc (upd_chk p icol zero) in
                   Ok (addmul p1 pr c))
           (seq 0 k).

(* the body of the col loop after found_piv, on the matrix and id_row; returns (src, id_row) *)
Definition eliminate_chk (k : nat) (A : mat) (idrow : list F) (irow icol : nat) : result (mat * list F) :=
  let! A1 := (if Nat.eqb irow icol then Ok A else swap_rows_chk k irow icol A) in
  let! prow0 := row_chk k A1 icol in
  let! c := acc (nth_chk prow0 icol) in
  if eqb c zero then Singular
  else
    let! prow := scale_row_chk icol prow0 in
    let! A2 := acc (upd_chk A1 icol prow) in
    let! id0 := span_chk k idrow in
    let! id1 := acc (upd_chk id0 icol one) in
    let! A3 := (if list_eqb prow id1 then Ok A2 else elim_rows_chk k icol prow A2) in
    let! id2 := acc (upd_chk id1 icol zero) in
    Ok (A3, id2).

(* state: src, ipiv, indxr, indxc, id_row *)
Record cst : Type := mkst { cA : mat; cpiv : list nat; cr : list nat; cc : list nat; cid : list F }.

Definition gj_step_chk (k : nat) (s : cst) (col : nat) : result cst :=
  let! p := find_pivot_chk k (cpiv s) (cA s) col in
  match p with
  | PFound irow icol =>
      let! ipiv' := mark_chk (cpiv s) icol in
      let! ir := acc (upd_chk (cr s) col irow) in
      let! ic := acc (upd_chk (cc s) col icol) in
      let! Ai := eliminate_chk k (cA s) (cid s) irow icol in
      Ok (mkst (fst Ai) ipiv' ir ic (snd Ai))
  | PNone => Singular
  | PFail => Singular
  end.

(* for (col = col0; col < col0 + cnt; col++) *)
Fixpoint gj_loop_chk (k : nat) (s : cst) (col cnt : nat) : result cst :=
  match cnt with
  | O => Ok s
  | S n => let! s' := gj_step_chk k s col in gj_loop_chk k s' (S col) n
  end.

(* for (col = cnt - 1; col >= 0; col--) if (indxr[col] != indxc[col]) swap the columns *)
Fixpoint unscramble_chk (k : nat) (ir ic : list nat) (cnt : nat) (A : mat) : result mat :=
  match cnt with
  | O => Ok A
  | S col =>
      let! r := acc (nth_chk ir col) in
      let! c := acc (nth_chk ic col) in
      let! A' := (if Nat.eqb r c then Ok A else swap_cols_chk k r c A) in
      unscramble_chk k ir ic col A'
  end.

(* the work arrays are allocated with k entries each; ipiv and id_row are cleared *)
Definition init_chk (k : nat) (A : mat) : cst := mkst A (repeat 0 k) (repeat 0 k) (repeat 0 k) (repeat zero k).

Definition invert_mat_chk (k : nat) (A : mat) : result mat :=
  let! s := gj_loop_chk k (init_chk k A) 0 k in
  unscramble_chk k (cr s) (cc s) k (cA s).

(* ------------------------------------------------------------------------------------------ *)
(* G2. Refinement: whatever the checked copy returns other than OutOfBounds is the plain result *)
(* ------------------------------------------------------------------------------------------ *)
Lemma get_chk_okis A i j : okis (get_chk A i j) (get A i j).
Proof. unfold get_chk, GaussJordan.get. ob (okis_acc_nth A i (@nil F)). apply okis_acc_nth. Qed.

Lemma set_chk_okis A i j v : okis (set_chk A i j v) (set_nth i (set_nth j v (nth i A [])) A).
Proof. unfold set_chk. ob (okis_acc_nth A i (@nil F)). ob @okis_acc_upd. apply okis_acc_upd. Qed.

Lemma row_chk_okis k A i : okis (row_chk k A i) (nth i A []).
Proof. unfold row_chk. ob (okis_acc_nth A i (@nil F)). apply span_chk_okis. Qed.

Lemma scan_row_chk_okis ipiv A row : forall cols, okis (scan_row_chk ipiv A row cols) (scan_row ipiv A row cols).
Proof.
  induction cols as [|ix cols IH]; cbn [scan_row_chk GaussJordan.scan_row]; [reflexivity|].
  ob (okis_acc_nth ipiv ix 0).
  destruct (Nat.eqb (nth ix ipiv 0) 0).
  - ob get_chk_okis. destruct (negb (eqb (get A row ix) zero)); [reflexivity|exact IH].
  - destruct (Nat.ltb 1 (nth ix ipiv 0)); [reflexivity|exact IH].
Qed.

Lemma scan_rows_chk_okis k ipiv A : forall rows, okis (scan_rows_chk k ipiv A rows) (scan_rows k ipiv A rows).
Proof.
  induction rows as [|row rows IH]; cbn [scan_rows_chk GaussJordan.scan_rows]; [reflexivity|].
  ob (okis_acc_nth ipiv row 0).
  destruct (negb (Nat.eqb (nth row ipiv 0) 1)); [|exact IH].
  ob scan_row_chk_okis. destruct (scan_row ipiv A row (seq 0 k)); [reflexivity|exact IH|reflexivity].
Qed.

Lemma find_pivot_chk_okis k ipiv A col : okis (find_pivot_chk k ipiv A col) (find_pivot k ipiv A col).
Proof.
  unfold find_pivot_chk, GaussJordan.find_pivot. ob (okis_acc_nth ipiv col 0).
  destruct (negb (Nat.eqb (nth col ipiv 0) 1)); cbn [andb]; [|apply scan_rows_chk_okis].
  ob get_chk_okis. destruct (negb (eqb (get A col col) zero)); [reflexivity|apply scan_rows_chk_okis].
Qed.

Lemma mark_chk_okis ipiv icol : okis (mark_chk ipiv icol) (set_nth icol (S (nth icol ipiv 0)) ipiv).
Proof. unfold mark_chk. ob (okis_acc_nth ipiv icol 0). apply okis_acc_upd. Qed.

Lemma swap_rows_chk_okis k r c A : okis (swap_rows_chk k r c A) (swap_rows r c A).
Proof.
  unfold swap_rows_chk, GaussJordan.swap_rows.
  ob row_chk_okis. ob row_chk_okis. ob @okis_acc_upd. apply okis_acc_upd.
Qed.

Lemma swap2_chk_okis a b row :
  okis (swap2_chk a b row) (set_nth a (nth b row zero) (set_nth b (nth a row zero) row)).
Proof.
  unfold swap2_chk. ob (okis_acc_nth row a zero). ob (okis_acc_nth row b zero). ob @okis_acc_upd. apply okis_acc_upd.
Qed.

Lemma swap_cols_chk_okis k a b A : okis (swap_cols_chk k a b A) (swap_cols a b A).
Proof.
  unfold swap_cols_chk, GaussJordan.swap_cols. ob @span_chk_okis.
  apply (okis_mapM (swap2_chk a b)). intros row. apply swap2_chk_okis.
Qed.

Lemma scale_row_chk_okis icol prow : okis (scale_row_chk icol prow) (scale_row icol prow).
Proof.
  unfold scale_row_chk, GaussJordan.scale_row. cbv zeta. ob (okis_acc_nth prow icol zero).
  destruct (eqb (nth icol prow zero) one); [reflexivity|]. ob @okis_acc_upd. reflexivity.
Qed.

Lemma elim_rows_chk_okis k icol prow A : okis (elim_rows_chk k icol prow A) (elim_rows k icol prow A).
Proof.
  unfold elim_rows_chk, GaussJordan.elim_rows. ob @span_chk_okis.
  apply (okis_mapM _ (fun ix => let p := nth ix A [] in
                                if Nat.eqb ix icol then p
                                else addmul (set_nth icol zero p) prow (nth icol p zero))).
  intros ix. cbv zeta. destruct (Nat.eqb ix icol); [apply okis_acc_nth|].
  ob row_chk_okis. ob (okis_acc_nth (nth ix A []) icol zero). ob @okis_acc_upd. reflexivity.
Qed.

(* id_row with id_row[icol] = 1 is the model's unit row, and clearing the entry restores k zeros *)
Lemma unit_row_as_set k icol : icol < k -> set_nth icol one (repeat zero k) = unit_row k icol.
Proof.
  intros Hc. apply (nth_ext _ _ zero zero).
  - now rewrite set_nth_length, repeat_length, unit_row_length.
  - intros j Hj. rewrite set_nth_length, repeat_length in Hj.
    rewrite nth_set_nth by (rewrite repeat_length; exact Hc).
    rewrite (nth_unit_row F zero one k icol j Hj), nth_repeat. reflexivity.
Qed.
Lemma unit_row_clear k icol : icol < k -> set_nth icol zero (unit_row k icol) = repeat zero k.
Proof.
  intros Hc. rewrite <- (unit_row_as_set k icol Hc), set_nth_set_nth.
  rewrite <- (nth_repeat zero k icol) at 1. apply set_nth_same.
Qed.

Definition with_id (k : nat) (o : option mat) : option (mat * list F) :=
  match o with Some M => Some (M, repeat zero k) | None => None end.

Lemma eliminate_chk_refo k A irow icol :
  refo (eliminate_chk k A (repeat zero k) irow icol) (with_id k (eliminate k A irow icol)).
Proof.
  unfold eliminate_chk, GaussJordan.eliminate. cbv zeta.
  set (A1 := if Nat.eqb irow icol then A else swap_rows irow icol A).
  assert (K1 : okis (if Nat.eqb irow icol then Ok A else swap_rows_chk k irow icol A) A1).
  { unfold A1. destruct (Nat.eqb irow icol); [reflexivity|apply swap_rows_chk_okis]. }
  eapply okis_refo; [exact K1|]. cbv beta.
  orf row_chk_okis. orf (okis_acc_nth (nth icol A1 []) icol zero).
  unfold GaussJordan.get.
  destruct (eqb (nth icol (nth icol A1 []) zero) zero); [reflexivity|].
  orf scale_row_chk_okis. set (prow := scale_row icol (nth icol A1 [])).
  orf @okis_acc_upd. set (A2 := set_nth icol prow A1).
  orf @span_chk_okis.
  apply refo_acc_upd. intros Hc. rewrite repeat_length in Hc. rewrite (unit_row_as_set k icol Hc).
  eapply okis_refo with (v := if list_eqb prow (unit_row k icol) then A2 else elim_rows k icol prow A2).
  { destruct (list_eqb prow (unit_row k icol)); [reflexivity|apply elim_rows_chk_okis]. }
  orf @okis_acc_upd. rewrite (unit_row_clear k icol Hc). reflexivity.
Qed.

(* indxr / indxc against the model's list of pairs (latest first): entry number (length idx') of each array
   holds the pair pushed when idx' was the list *)
Fixpoint IdxRel (ir ic : list nat) (idx : list (nat * nat)) : Prop :=
  match idx with
  | [] => True
  | (r, c) :: idx' => nth_chk ir (length idx') = Some r /\ nth_chk ic (length idx') = Some c /\ IdxRel ir ic idx'
  end.

Lemma IdxRel_upd ir ic col x y : forall idx, length idx <= col -> IdxRel ir ic idx ->
  IdxRel (set_nth col x ir) (set_nth col y ic) idx.
Proof.
  induction idx as [|[r c] idx IH]; intros Hl H; cbn [IdxRel length] in *; [exact I|].
  destruct H as (H1 & H2 & H3).
  rewrite !nth_chk_set_nth_neq by lia. split; [exact H1|]. split; [exact H2|]. apply IH; [lia|exact H3].
Qed.

(* checked state against model state; the column counter is the length of the list of pairs *)
Definition Rel (k : nat) (s : cst) (m : gj_state F) : Prop :=
  match m with
  | (A, ipiv, idx) => cA s = A /\ cpiv s = ipiv /\ cid s = repeat zero k /\ IdxRel (cr s) (cc s) idx
  end.

Lemma gj_step_chk_ref k s A ipiv idx : Rel k s (A, ipiv, idx) ->
  match gj_step_chk k s (length idx) with
  | OutOfBounds => True
  | Singular => gj_step k (A, ipiv, idx) (length idx) = None
  | Inverted s' => exists A' ipiv' rc,
      gj_step k (A, ipiv, idx) (length idx) = Some (A', ipiv', rc :: idx) /\ Rel k s' (A', ipiv', rc :: idx)
  end.
Proof.
  intros (EA & Ep & Ei & HR). destruct s as [A0 pv ir ic idr]. cbn [cA cpiv cr cc cid] in *. subst A0 pv idr.
  unfold gj_step_chk, GaussJordan.gj_step. cbn [cA cpiv cr cc cid].
  pose proof (find_pivot_chk_okis k ipiv A (length idx)) as HP.
  destruct (find_pivot_chk k ipiv A (length idx)) as [| |p]; cbn [bind okis] in *; [exact I|destruct HP|].
  subst p. destruct (find_pivot k ipiv A (length idx)) as [irow icol| |]; [|reflexivity|reflexivity].
  pose proof (mark_chk_okis ipiv icol) as HM.
  destruct (mark_chk ipiv icol) as [| |pv']; cbn [bind okis] in *; [exact I|destruct HM|]. subst pv'.
  destruct (upd_chk ir (length idx) irow) as [ir'|] eqn:Er; cbn [acc bind]; [|exact I].
  destruct (ITBounds.upd_chk_sound _ _ _ _ Er) as (Hlr & <-). rewrite upd_set_nth.
  destruct (upd_chk ic (length idx) icol) as [ic'|] eqn:Ec; cbn [acc bind]; [|exact I].
  destruct (ITBounds.upd_chk_sound _ _ _ _ Ec) as (Hlc & <-). rewrite upd_set_nth.
  pose proof (eliminate_chk_refo k A irow icol) as HE.
  destruct (eliminate_chk k A (repeat zero k) irow icol) as [| |[A3 id2]]; cbn [bind refo] in *; [exact I| |].
  - destruct (eliminate k A irow icol); [discriminate HE|reflexivity].
  - destruct (eliminate k A irow icol) as [A3'|]; cbn [with_id] in HE; [|discriminate HE].
    injection HE as <- <-. cbn [fst snd].
    exists A3', (set_nth icol (S (nth icol ipiv 0)) ipiv), (irow, icol). split; [reflexivity|].
    cbn [Rel cA cpiv cr cc cid IdxRel]. split; [reflexivity|]. split; [reflexivity|]. split; [reflexivity|].
    split; [apply nth_chk_set_nth_eq; exact Hlr|]. split; [apply nth_chk_set_nth_eq; exact Hlc|].
    apply IdxRel_upd; [lia|exact HR].
Qed.

Lemma gj_loop_chk_ref k : forall cnt s A ipiv idx, Rel k s (A, ipiv, idx) ->
  match gj_loop_chk k s (length idx) cnt with
  | OutOfBounds => True
  | Singular => gj_loop k (A, ipiv, idx) (seq (length idx) cnt) = None
  | Inverted s' => exists A' ipiv' idx',
      gj_loop k (A, ipiv, idx) (seq (length idx) cnt) = Some (A', ipiv', idx') /\
      Rel k s' (A', ipiv', idx') /\ length idx' = length idx + cnt
  end.
Proof.
  induction cnt as [|n IH]; intros s A ipiv idx HR; cbn [gj_loop_chk seq GaussJordan.gj_loop].
  - exists A, ipiv, idx. split; [reflexivity|]. split; [exact HR|lia].
  - pose proof (gj_step_chk_ref k s A ipiv idx HR) as HS.
    destruct (gj_step_chk k s (length idx)) as [| |s1]; cbn [bind]; [exact I|now rewrite HS|].
    destruct HS as (A1 & pv1 & rc & ES & HR1). rewrite ES.
    specialize (IH s1 A1 pv1 (rc :: idx) HR1). cbn [length] in IH.
    destruct (gj_loop_chk k s1 (S (length idx)) n) as [| |s2]; [exact I|exact IH|].
    destruct IH as (A2 & pv2 & idx2 & EL & HR2 & Hl). exists A2, pv2, idx2.
    split; [exact EL|]. split; [exact HR2|lia].
Qed.

Lemma unscramble_chk_okis k ir ic : forall idx A, IdxRel ir ic idx ->
  okis (unscramble_chk k ir ic (length idx) A) (unscramble idx A).
Proof.
  induction idx as [|[r c] idx IH]; intros A H; cbn [unscramble_chk length GaussJordan.unscramble]; [reflexivity|].
  cbn [IdxRel] in H. destruct H as (H1 & H2 & H3). rewrite H1, H2. cbn [acc bind].
  eapply okis_bind with (v := if Nat.eqb r c then A else swap_cols r c A).
  - destruct (Nat.eqb r c); [reflexivity|apply swap_cols_chk_okis].
  - apply IH. exact H3.
Qed.

Lemma Rel_init k A : Rel k (init_chk k A) (A, repeat 0 k, []).
Proof. cbn. repeat split. Qed.

Lemma invert_mat_chk_refo k A : refo (invert_mat_chk k A) (invert_mat k A).
Proof.
  unfold invert_mat_chk, GaussJordan.invert_mat.
  pose proof (gj_loop_chk_ref k k _ _ _ _ (Rel_init k A)) as HL. cbn [length] in HL.
  destruct (gj_loop_chk k (init_chk k A) 0 k) as [| |s]; cbn [bind refo]; [exact I|now rewrite HL|].
  destruct HL as (A' & pv' & idx' & EL & (EA & _ & _ & HR) & Hl). rewrite EL.
  cbn [Nat.add] in Hl. rewrite EA.
  pose proof (unscramble_chk_okis k (cr s) (cc s) idx' A' HR) as HU. rewrite Hl in HU.
  destruct (unscramble_chk k (cr s) (cc s) k A') as [| |M]; cbn [okis refo] in *;
    [exact I|destruct HU|now subst].
Qed.

(* G2 *)
Theorem invert_mat_chk_refines k A :
  (forall M, invert_mat_chk k A = Inverted M -> invert_mat k A = Some M) /\
  (invert_mat_chk k A = Singular -> invert_mat k A = None).
Proof.
  pose proof (invert_mat_chk_refo k A) as H. split.
  - intros M E. now rewrite E in H.
  - intros E. now rewrite E in H.
Qed.

(* ------------------------------------------------------------------------------------------ *)
(* G3. Safety on k x k matrices                                                                 *)
(* ------------------------------------------------------------------------------------------ *)
Lemma wf_length k (A : mat) : wf k A -> length A = k.
Proof. intros [H _]. exact H. Qed.

(* an access (i, j) is in range iff i < k and j < k *)
Lemma get_chk_in k A i j : wf k A -> i < k -> j < k -> get_chk A i j = Ok (get A i j).
Proof.
  intros HA Hi Hj. unfold get_chk, GaussJordan.get.
  rewrite (acc_nth_in A i []) by (rewrite (wf_length k A HA); exact Hi). cbn [bind].
  apply acc_nth_in. rewrite (wf_row F k A i HA Hi). exact Hj.
Qed.
Lemma get_chk_oob_iff k A i j : wf k A -> (get_chk A i j = OutOfBounds <-> k <= i \/ k <= j).
Proof.
  intros HA. split.
  - intros H. destruct (Nat.lt_ge_cases i k) as [Hi|Hi]; [|now left].
    destruct (Nat.lt_ge_cases j k) as [Hj|Hj]; [|now right].
    rewrite (get_chk_in k A i j HA Hi Hj) in H. discriminate H.
  - intros H. unfold get_chk. destruct (Nat.lt_ge_cases i k) as [Hi|Hi].
    + destruct H as [H|H]; [lia|].
      rewrite (acc_nth_in A i []) by (rewrite (wf_length k A HA); exact Hi). cbn [bind].
      apply acc_nth_oob. rewrite (wf_row F k A i HA Hi). exact H.
    + rewrite acc_nth_oob by (rewrite (wf_length k A HA); exact Hi). reflexivity.
Qed.
Lemma set_chk_in k A i j v : wf k A -> i < k -> j < k ->
  set_chk A i j v = Ok (set_nth i (set_nth j v (nth i A [])) A).
Proof.
  intros HA Hi Hj. unfold set_chk.
  rewrite (acc_nth_in A i []) by (rewrite (wf_length k A HA); exact Hi). cbn [bind].
  rewrite acc_upd_in by (rewrite (wf_row F k A i HA Hi); exact Hj). cbn [bind].
  apply acc_upd_in. rewrite (wf_length k A HA). exact Hi.
Qed.
Lemma row_chk_in k A i : wf k A -> i < k -> row_chk k A i = Ok (nth i A []).
Proof.
  intros HA Hi. unfold row_chk.
  rewrite (acc_nth_in A i []) by (rewrite (wf_length k A HA); exact Hi). cbn [bind].
  apply span_chk_in. exact (wf_row F k A i HA Hi).
Qed.

Lemma scan_row_chk_safe k ipiv A row : wf k A -> length ipiv = k -> row < k ->
  forall cols, (forall ix, In ix cols -> ix < k) -> scan_row_chk ipiv A row cols = Ok (scan_row ipiv A row cols).
Proof.
  intros HA Hp Hr. induction cols as [|ix cols IH]; intros Hc; cbn [scan_row_chk GaussJordan.scan_row]; [reflexivity|].
  assert (Hix : ix < k) by (apply Hc; now left).
  assert (IH' : scan_row_chk ipiv A row cols = Ok (scan_row ipiv A row cols)) by (apply IH; intros y Hy; apply Hc; now right).
  rewrite (acc_nth_in ipiv ix 0) by lia. cbn [bind].
  destruct (Nat.eqb (nth ix ipiv 0) 0).
  - rewrite (get_chk_in k A row ix HA Hr Hix). cbn [bind].
    destruct (negb (eqb (get A row ix) zero)); [reflexivity|exact IH'].
  - destruct (Nat.ltb 1 (nth ix ipiv 0)); [reflexivity|exact IH'].
Qed.

Lemma scan_rows_chk_safe k ipiv A : wf k A -> length ipiv = k ->
  forall rows, (forall r, In r rows -> r < k) -> scan_rows_chk k ipiv A rows = Ok (scan_rows k ipiv A rows).
Proof.
  intros HA Hp. induction rows as [|row rows IH]; intros Hr; cbn [scan_rows_chk GaussJordan.scan_rows]; [reflexivity|].
  assert (Hrow : row < k) by (apply Hr; now left).
  assert (IH' : scan_rows_chk k ipiv A rows = Ok (scan_rows k ipiv A rows)) by (apply IH; intros y Hy; apply Hr; now right).
  rewrite (acc_nth_in ipiv row 0) by lia. cbn [bind].
  destruct (negb (Nat.eqb (nth row ipiv 0) 1)); [|exact IH'].
  rewrite (scan_row_chk_safe k ipiv A row HA Hp Hrow) by (intros ix Hix; apply in_seq in Hix; lia). cbn [bind].
  destruct (scan_row ipiv A row (seq 0 k)); [reflexivity|exact IH'|reflexivity].
Qed.

Lemma find_pivot_chk_safe k ipiv A col : wf k A -> length ipiv = k -> col < k ->
  find_pivot_chk k ipiv A col = Ok (find_pivot k ipiv A col).
Proof.
  intros HA Hp Hc. unfold find_pivot_chk, GaussJordan.find_pivot.
  assert (HS : scan_rows_chk k ipiv A (seq 0 k) = Ok (scan_rows k ipiv A (seq 0 k))).
  { apply (scan_rows_chk_safe k ipiv A HA Hp). intros r Hr. apply in_seq in Hr. lia. }
  rewrite (acc_nth_in ipiv col 0) by lia. cbn [bind].
  destruct (negb (Nat.eqb (nth col ipiv 0) 1)); cbn [andb]; [|exact HS].
  rewrite (get_chk_in k A col col HA Hc Hc). cbn [bind].
  destruct (negb (eqb (get A col col) zero)); [reflexivity|exact HS].
Qed.

(* the pivot position is inside the matrix (no field axiom, no hypothesis on the marks) *)
Lemma scan_row_range ipiv A row : forall cols r c, scan_row ipiv A row cols = PFound r c -> r = row /\ In c cols.
Proof.
  induction cols as [|ix cols IH]; intros r c H; cbn [GaussJordan.scan_row] in H; [discriminate H|].
  destruct (Nat.eqb (nth ix ipiv 0) 0).
  - destruct (negb (eqb (get A row ix) zero)).
    + injection H as <- <-. split; [reflexivity|now left].
    + destruct (IH r c H) as (H1 & H2). split; [exact H1|now right].
  - destruct (Nat.ltb 1 (nth ix ipiv 0)); [discriminate H|].
    destruct (IH r c H) as (H1 & H2). split; [exact H1|now right].
Qed.

Lemma scan_rows_range k ipiv A : forall rows r c, scan_rows k ipiv A rows = PFound r c -> In r rows /\ c < k.
Proof.
  induction rows as [|row rows IH]; intros r c H; cbn [GaussJordan.scan_rows] in H; [discriminate H|].
  destruct (negb (Nat.eqb (nth row ipiv 0) 1)).
  - destruct (scan_row ipiv A row (seq 0 k)) as [r' c'| |] eqn:E.
    + injection H as <- <-. apply scan_row_range in E. destruct E as (-> & Hc). apply in_seq in Hc.
      split; [now left|lia].
    + destruct (IH r c H) as (H1 & H2). split; [now right|exact H2].
    + discriminate H.
  - destruct (IH r c H) as (H1 & H2). split; [now right|exact H2].
Qed.

Lemma find_pivot_range k ipiv A col r c : col < k -> find_pivot k ipiv A col = PFound r c -> r < k /\ c < k.
Proof.
  intros Hc H. unfold GaussJordan.find_pivot in H.
  destruct (negb (Nat.eqb (nth col ipiv 0) 1) && negb (eqb (get A col col) zero)).
  - injection H as <- <-. now split.
  - apply scan_rows_range in H. destruct H as (H1 & H2). apply in_seq in H1. split; [lia|exact H2].
Qed.

Lemma mark_chk_in ipiv icol : icol < length ipiv -> mark_chk ipiv icol = Ok (set_nth icol (S (nth icol ipiv 0)) ipiv).
Proof. intros H. unfold mark_chk. rewrite (acc_nth_in ipiv icol 0 H). cbn [bind]. now apply acc_upd_in. Qed.

(* an access to a work array at position i is in range iff i < its length (k) *)
Lemma mark_chk_oob_iff ipiv icol : mark_chk ipiv icol = OutOfBounds <-> length ipiv <= icol.
Proof.
  split.
  - intros H. destruct (Nat.lt_ge_cases icol (length ipiv)) as [Hlt|Hge]; [|exact Hge].
    rewrite (mark_chk_in ipiv icol Hlt) in H. discriminate H.
  - intros H. unfold mark_chk. rewrite (acc_nth_oob ipiv icol H). reflexivity.
Qed.

Lemma swap_rows_chk_in k r c A : wf k A -> r < k -> c < k -> swap_rows_chk k r c A = Ok (swap_rows r c A).
Proof.
  intros HA Hr Hc. unfold swap_rows_chk, GaussJordan.swap_rows.
  rewrite (row_chk_in k A r HA Hr). cbn [bind]. rewrite (row_chk_in k A c HA Hc). cbn [bind].
  rewrite acc_upd_in by (rewrite (wf_length k A HA); exact Hc). cbn [bind].
  apply acc_upd_in. rewrite set_nth_length, (wf_length k A HA). exact Hr.
Qed.

Lemma swap2_chk_in a b row : a < length row -> b < length row ->
  swap2_chk a b row = Ok (set_nth a (nth b row zero) (set_nth b (nth a row zero) row)).
Proof.
  intros Ha Hb. unfold swap2_chk.
  rewrite (acc_nth_in row a zero Ha). cbn [bind]. rewrite (acc_nth_in row b zero Hb). cbn [bind].
  rewrite acc_upd_in by exact Hb. cbn [bind]. apply acc_upd_in. rewrite set_nth_length. exact Ha.
Qed.

Lemma swap_cols_chk_in k a b A : wf k A -> a < k -> b < k -> swap_cols_chk k a b A = Ok (swap_cols a b A).
Proof.
  intros HA Ha Hb. unfold swap_cols_chk, GaussJordan.swap_cols.
  rewrite (span_chk_in k A (wf_length k A HA)). cbn [bind].
  apply mapM_chk_in. intros row Hrow. destruct HA as [_ HF]. rewrite Forall_forall in HF.
  apply swap2_chk_in; rewrite (HF row Hrow); assumption.
Qed.

Lemma scale_row_chk_in icol prow : icol < length prow -> scale_row_chk icol prow = Ok (scale_row icol prow).
Proof.
  intros H. unfold scale_row_chk, GaussJordan.scale_row. cbv zeta.
  rewrite (acc_nth_in prow icol zero H). cbn [bind].
  destruct (eqb (nth icol prow zero) one); [reflexivity|]. rewrite acc_upd_in by exact H. reflexivity.
Qed.

Lemma elim_rows_chk_in k icol prow A : wf k A -> length prow = k -> icol < k ->
  elim_rows_chk k icol prow A = Ok (elim_rows k icol prow A).
Proof.
  intros HA Hp Hc. unfold elim_rows_chk, GaussJordan.elim_rows.
  rewrite (span_chk_in k prow Hp). cbn [bind].
  apply (mapM_chk_in _ (fun ix => let p := nth ix A [] in
                                  if Nat.eqb ix icol then p
                                  else addmul (set_nth icol zero p) prow (nth icol p zero))).
  intros ix Hix. apply in_seq in Hix. assert (Hi : ix < k) by lia. cbv zeta.
  destruct (Nat.eqb ix icol); [apply acc_nth_in; rewrite (wf_length k A HA); exact Hi|].
  rewrite (row_chk_in k A ix HA Hi). cbn [bind].
  rewrite (acc_nth_in (nth ix A []) icol zero) by (rewrite (wf_row F k A ix HA Hi); exact Hc). cbn [bind].
  rewrite acc_upd_in by (rewrite (wf_row F k A ix HA Hi); exact Hc). reflexivity.
Qed.

Lemma eliminate_chk_safe k A irow icol : wf k A -> irow < k -> icol < k ->
  eliminate_chk k A (repeat zero k) irow icol = of_opt (with_id k (eliminate k A irow icol)) /\
  (forall M, eliminate k A irow icol = Some M -> wf k M).
Proof.
  intros HA Hr Hc. unfold eliminate_chk, GaussJordan.eliminate. cbv zeta.
  set (A1 := if Nat.eqb irow icol then A else swap_rows irow icol A).
  assert (HA1 : wf k A1).
  { unfold A1. destruct (Nat.eqb irow icol); [exact HA|]. apply wf_swap_rows; assumption. }
  assert (K1 : (if Nat.eqb irow icol then Ok A else swap_rows_chk k irow icol A) = Ok A1).
  { unfold A1. destruct (Nat.eqb irow icol); [reflexivity|]. apply swap_rows_chk_in; assumption. }
  rewrite K1. cbn [bind]. rewrite (row_chk_in k A1 icol HA1 Hc). cbn [bind].
  pose proof (wf_row F k A1 icol HA1 Hc) as HLrow.
  rewrite (acc_nth_in (nth icol A1 []) icol zero) by (rewrite HLrow; exact Hc). cbn [bind].
  unfold GaussJordan.get.
  destruct (eqb (nth icol (nth icol A1 []) zero) zero); [split; [reflexivity|discriminate]|].
  rewrite scale_row_chk_in by (rewrite HLrow; exact Hc). cbn [bind].
  set (prow := scale_row icol (nth icol A1 [])).
  assert (HLp : length prow = k) by (unfold prow; rewrite scale_row_length; exact HLrow).
  rewrite acc_upd_in by (rewrite (wf_length k A1 HA1); exact Hc). cbn [bind].
  set (A2 := set_nth icol prow A1).
  assert (HA2 : wf k A2) by (apply wf_set_row; assumption).
  rewrite (span_chk_in k (repeat zero k) (repeat_length zero k)). cbn [bind].
  rewrite acc_upd_in by (rewrite repeat_length; exact Hc). cbn [bind].
  rewrite (unit_row_as_set k icol Hc).
  destruct (list_eqb prow (unit_row k icol)); cbn [bind].
  - rewrite acc_upd_in by (rewrite unit_row_length; exact Hc). cbn [bind].
    rewrite (unit_row_clear k icol Hc). split; [reflexivity|]. intros M E. injection E as <-. exact HA2.
  - rewrite (elim_rows_chk_in k icol prow A2 HA2 HLp Hc). cbn [bind].
    rewrite acc_upd_in by (rewrite unit_row_length; exact Hc). cbn [bind].
    rewrite (unit_row_clear k icol Hc). split; [reflexivity|]. intros M E. injection E as <-.
    apply wf_elim_rows; assumption.
Qed.

(* the shape invariant of the checked state *)
Definition CInv (k : nat) (s : cst) : Prop :=
  wf k (cA s) /\ length (cpiv s) = k /\ length (cr s) = k /\ length (cc s) = k /\ cid s = repeat zero k.

Lemma CInv_init k A : wf k A -> CInv k (init_chk k A).
Proof. intros HA. unfold CInv, init_chk. cbn [cA cpiv cr cc cid]. rewrite !repeat_length. repeat split; try reflexivity; apply HA. Qed.

Lemma idx_ok_cons k r c idx : r < k -> c < k -> idx_ok k idx -> idx_ok k ((r, c) :: idx).
Proof.
  intros Hr Hc H r' c' [E|Hin]; [injection E as <- <-; now split|exact (H r' c' Hin)].
Qed.

Lemma gj_step_chk_safe k s A ipiv idx : CInv k s -> Rel k s (A, ipiv, idx) -> idx_ok k idx -> length idx < k ->
  match gj_step k (A, ipiv, idx) (length idx) with
  | None => gj_step_chk k s (length idx) = Singular
  | Some m' => exists s' A' ipiv' rc, m' = (A', ipiv', rc :: idx) /\ gj_step_chk k s (length idx) = Ok s' /\
                 Rel k s' m' /\ CInv k s' /\ idx_ok k (rc :: idx)
  end.
Proof.
  intros (HA & Hp & Hr & Hc & _) (EA & Ep & Ei & HR) Hok Hcol.
  destruct s as [A0 pv ir ic idr]. cbn [cA cpiv cr cc cid] in *. subst A0 pv idr.
  unfold gj_step_chk, GaussJordan.gj_step. cbn [cA cpiv cr cc cid].
  rewrite (find_pivot_chk_safe k ipiv A (length idx) HA Hp Hcol). cbn [bind].
  destruct (find_pivot k ipiv A (length idx)) as [irow icol| |] eqn:EP; [|reflexivity|reflexivity].
  destruct (find_pivot_range k ipiv A (length idx) irow icol Hcol EP) as (Hir & Hic).
  rewrite mark_chk_in by (rewrite Hp; exact Hic). cbn [bind].
  rewrite acc_upd_in by (rewrite Hr; exact Hcol). cbn [bind].
  rewrite acc_upd_in by (rewrite Hc; exact Hcol). cbn [bind].
  destruct (eliminate_chk_safe k A irow icol HA Hir Hic) as (EE & HW). rewrite EE.
  destruct (eliminate k A irow icol) as [A3|]; cbn [with_id of_opt bind]; [|reflexivity].
  eexists. exists A3, (set_nth icol (S (nth icol ipiv 0)) ipiv), (irow, icol).
  split; [reflexivity|]. split; [reflexivity|]. cbn [fst snd]. split; [|split].
  - cbn [Rel cA cpiv cr cc cid IdxRel]. split; [reflexivity|]. split; [reflexivity|]. split; [reflexivity|].
    split; [apply nth_chk_set_nth_eq; rewrite Hr; exact Hcol|].
    split; [apply nth_chk_set_nth_eq; rewrite Hc; exact Hcol|].
    apply IdxRel_upd; [lia|exact HR].
  - unfold CInv. cbn [cA cpiv cr cc cid]. rewrite !set_nth_length.
    split; [exact (HW A3 eq_refl)|]. repeat split; assumption.
  - apply idx_ok_cons; assumption.
Qed.

Lemma gj_loop_chk_safe k : forall cnt s A ipiv idx,
  CInv k s -> Rel k s (A, ipiv, idx) -> idx_ok k idx -> length idx + cnt <= k ->
  match gj_loop k (A, ipiv, idx) (seq (length idx) cnt) with
  | None => gj_loop_chk k s (length idx) cnt = Singular
  | Some (A', ipiv', idx') => exists s', gj_loop_chk k s (length idx) cnt = Ok s' /\
      Rel k s' (A', ipiv', idx') /\ CInv k s' /\ idx_ok k idx' /\ length idx' = length idx + cnt
  end.
Proof.
  induction cnt as [|n IH]; intros s A ipiv idx HC HR Hok Hl; cbn [gj_loop_chk seq GaussJordan.gj_loop].
  - exists s. split; [reflexivity|]. split; [exact HR|]. split; [exact HC|]. split; [exact Hok|lia].
  - pose proof (gj_step_chk_safe k s A ipiv idx HC HR Hok ltac:(lia)) as HS.
    destruct (gj_step k (A, ipiv, idx) (length idx)) as [m1|]; [|rewrite HS; reflexivity].
    destruct HS as (s1 & A1 & pv1 & rc & -> & ES & HR1 & HC1 & Hok1). rewrite ES. cbn [bind].
    specialize (IH s1 A1 pv1 (rc :: idx) HC1 HR1 Hok1). cbn [length] in IH. specialize (IH ltac:(lia)).
    destruct (gj_loop k (A1, pv1, rc :: idx) (seq (S (length idx)) n)) as [[[A2 pv2] idx2]|]; [|exact IH].
    destruct IH as (s2 & EL & HR2 & HC2 & Hok2 & Hl2). exists s2.
    split; [exact EL|]. split; [exact HR2|]. split; [exact HC2|]. split; [exact Hok2|lia].
Qed.

(* every recorded indxr[col] / indxc[col] is a column of the matrix *)
Lemma unscramble_chk_safe k ir ic : length ir = k -> length ic = k ->
  forall idx A, wf k A -> idx_ok k idx -> length idx <= k -> IdxRel ir ic idx ->
  unscramble_chk k ir ic (length idx) A = Ok (unscramble idx A).
Proof.
  intros Hr Hc. induction idx as [|[r c] idx IH]; intros A HA Hok Hl H;
    cbn [unscramble_chk length GaussJordan.unscramble]; [reflexivity|].
  cbn [IdxRel] in H. destruct H as (H1 & H2 & H3). rewrite H1, H2. cbn [acc bind].
  destruct (Hok r c (or_introl eq_refl)) as (Hrk & Hck).
  assert (Hok' : idx_ok k idx) by (intros r' c' Hin; apply Hok; now right).
  cbn [length] in Hl.
  destruct (Nat.eqb r c); cbn [bind].
  - apply IH; [exact HA|exact Hok'|lia|exact H3].
  - rewrite (swap_cols_chk_in k r c A HA Hrk Hck). cbn [bind].
    apply IH; [apply wf_swap_cols; exact HA|exact Hok'|lia|exact H3].
Qed.

(* G3: on a k x k matrix the checked inversion IS the plain inversion *)
Theorem invert_mat_chk_safe k A : wf k A -> invert_mat_chk k A = of_opt (invert_mat k A).
Proof.
  intros HA. unfold invert_mat_chk, GaussJordan.invert_mat.
  assert (Hok0 : idx_ok k []) by (intros r c []).
  pose proof (gj_loop_chk_safe k k _ _ _ _ (CInv_init k A HA) (Rel_init k A) Hok0 ltac:(cbn [length]; lia)) as HL.
  cbn [length] in HL.
  destruct (gj_loop k (A, repeat 0 k, []) (seq 0 k)) as [[[A' pv'] idx']|]; [|rewrite HL; reflexivity].
  destruct HL as (s & EL & (EA & _ & _ & HR) & (HW & _ & Hr & Hc & _) & Hok & Hl). rewrite EL. cbn [bind of_opt].
  cbn [Nat.add] in Hl. rewrite <- Hl at 2. rewrite EA in *.
  apply (unscramble_chk_safe k (cr s) (cc s) Hr Hc idx' A' HW Hok ltac:(lia) HR).
Qed.

Corollary invert_mat_chk_never_oob k A : wf k A -> invert_mat_chk k A <> OutOfBounds.
Proof. intros HA. rewrite (invert_mat_chk_safe k A HA). destruct (invert_mat k A); discriminate. Qed.

Corollary invert_mat_chk_inverted_iff k A M : wf k A -> (invert_mat_chk k A = Inverted M <-> invert_mat k A = Some M).
Proof.
  intros HA. rewrite (invert_mat_chk_safe k A HA). destruct (invert_mat k A) as [M'|]; cbn [of_opt]; split; intros H;
    try discriminate H; injection H as <-; reflexivity.
Qed.

Corollary invert_mat_chk_singular_iff k A : wf k A -> (invert_mat_chk k A = Singular <-> invert_mat k A = None).
Proof.
  intros HA. rewrite (invert_mat_chk_safe k A HA). destruct (invert_mat k A) as [M'|]; cbn [of_opt]; split; intros H;
    try discriminate H; reflexivity.
Qed.

(* the statement with the hypotheses spelled out *)
Corollary invert_mat_chk_never_oob' k (A : mat) :
  length A = k -> (forall row, In row A -> length row = k) -> invert_mat_chk k A <> OutOfBounds.
Proof. intros HL HR. apply invert_mat_chk_never_oob. split; [exact HL|]. apply Forall_forall. exact HR. Qed.
End Chk.

Arguments mkst {F} cA cpiv cr cc cid.

(* ------------------------------------------------------------------------------------------ *)
(* G5. The executable instances of GaussJordan.v Part 4                                         *)
(* ------------------------------------------------------------------------------------------ *)
Definition invert_matN_chk (mulN : N -> N -> N) (invN : N -> N) (k : nat) (A : list (list N)) : result (list (list N)) :=
  invert_mat_chk N 0%N 1%N N.lxor mulN invN N.eqb k A.
Definition invert_mat256_chk := invert_matN_chk mul256 inv256.
Definition invert_mat16_chk := invert_matN_chk mul16 inv16.

Theorem invert_mat256_chk_refines k A :
  (forall M, invert_mat256_chk k A = Inverted M -> invert_mat256 k A = Some M) /\
  (invert_mat256_chk k A = Singular -> invert_mat256 k A = None).
Proof. exact (invert_mat_chk_refines N 0%N 1%N N.lxor mul256 inv256 N.eqb k A). Qed.
Theorem invert_mat256_chk_safe k A : wfN k A -> invert_mat256_chk k A = of_opt (invert_mat256 k A).
Proof. exact (invert_mat_chk_safe N 0%N 1%N N.lxor mul256 inv256 N.eqb k A). Qed.
Corollary invert_mat256_chk_never_oob k A : wfN k A -> invert_mat256_chk k A <> OutOfBounds.
Proof. exact (invert_mat_chk_never_oob N 0%N 1%N N.lxor mul256 inv256 N.eqb k A). Qed.

Theorem invert_mat16_chk_refines k A :
  (forall M, invert_mat16_chk k A = Inverted M -> invert_mat16 k A = Some M) /\
  (invert_mat16_chk k A = Singular -> invert_mat16 k A = None).
Proof. exact (invert_mat_chk_refines N 0%N 1%N N.lxor mul16 inv16 N.eqb k A). Qed.
Theorem invert_mat16_chk_safe k A : wfN k A -> invert_mat16_chk k A = of_opt (invert_mat16 k A).
Proof. exact (invert_mat_chk_safe N 0%N 1%N N.lxor mul16 inv16 N.eqb k A). Qed.
Corollary invert_mat16_chk_never_oob k A : wfN k A -> invert_mat16_chk k A <> OutOfBounds.
Proof. exact (invert_mat_chk_never_oob N 0%N 1%N N.lxor mul16 inv16 N.eqb k A). Qed.

(* ------------------------------------------------------------------------------------------ *)
(* G4. The checks are not vacuous: the checked copy fails where the plain model masks the slip  *)
(* ------------------------------------------------------------------------------------------ *)
Section Examples.
(* bool with xorb / andb as a toy field (GF(2)) *)
Let invb := invert_mat bool false true xorb andb (fun x => x) Bool.eqb.
Let invb_chk := invert_mat_chk bool false true xorb andb (fun x => x) Bool.eqb.

(* row 1 is one entry short: the plain model reads the default for (1,1), truncates in addmul and still
   returns a "matrix"; the checked copy stops at the row that does not span k entries *)
Example short_row_plain : invb 2 [[false; true]; [true]] = Some [[false]; [false]].
Proof. vm_compute. reflexivity. Qed.
Example short_row_chk : invb_chk 2 [[false; true]; [true]] = OutOfBounds.
Proof. vm_compute. reflexivity. Qed.
(* the same over GF(256) *)
Example short_row256_plain : invert_mat256 2 [[0; 1]; [1]]%N = Some [[0]; [0]]%N.
Proof. vm_compute. reflexivity. Qed.
Example short_row256_chk : invert_mat256_chk 2 [[0; 1]; [1]]%N = OutOfBounds.
Proof. vm_compute. reflexivity. Qed.
(* a short row that the plain model reports as "singular" (the missing entry reads as 0) *)
Example short_row256_plain2 : invert_mat256 2 [[1; 2]; [3]]%N = None.
Proof. vm_compute. reflexivity. Qed.
Example short_row256_chk2 : invert_mat256_chk 2 [[1; 2]; [3]]%N = OutOfBounds.
Proof. vm_compute. reflexivity. Qed.
(* a single element access *)
Example get_plain : get N 0%N [[1; 2]; [3]]%N 1 1 = 0%N.
Proof. reflexivity. Qed.
Example get_oob : get_chk N [[1; 2]; [3]]%N 1 1 = OutOfBounds.
Proof. reflexivity. Qed.

(* k larger than the number of rows: the plain model reads the missing row as zeros and answers "singular",
   the checked copy reports the read of src[2*k + 2] *)
Example few_rows_plain : invb 3 [[true; false; false]; [false; true; false]] = None.
Proof. vm_compute. reflexivity. Qed.
Example few_rows_chk : invb_chk 3 [[true; false; false]; [false; true; false]] = OutOfBounds.
Proof. vm_compute. reflexivity. Qed.
Example few_rows256_plain : invert_mat256 3 [[1; 2]; [3; 4]]%N = None.
Proof. vm_compute. reflexivity. Qed.
Example few_rows256_chk : invert_mat256_chk 3 [[1; 2]; [3; 4]]%N = OutOfBounds.
Proof. vm_compute. reflexivity. Qed.
(* the pivot search alone: the diagonal test of column 2 reads src[2*k + 2] *)
Example find_pivot_plain : find_pivot N 0%N N.eqb 3 [1; 1; 0] [[1; 0; 0]; [0; 1; 0]]%N 2 = PNone.
Proof. vm_compute. reflexivity. Qed.
Example find_pivot_oob : find_pivot_chk N 0%N N.eqb 3 [1; 1; 0] [[1; 0; 0]; [0; 1; 0]]%N 2 = OutOfBounds.
Proof. vm_compute. reflexivity. Qed.
(* a work array with fewer than k entries: ++ipiv[icol] *)
Example mark_oob : mark_chk [0; 0] 2 = OutOfBounds.
Proof. reflexivity. Qed.
(* an indxr / indxc entry that is not a column: the C prints AARGH, the checked copy is OutOfBounds, the plain
   swap_cols drops the writes *)
Example swap_cols_plain : swap_cols N 0%N 0 5 [[1; 2]; [3; 4]]%N = [[0; 2]; [0; 4]]%N.
Proof. vm_compute. reflexivity. Qed.
Example swap_cols_oob : swap_cols_chk N 2 0 5 [[1; 2]; [3; 4]]%N = OutOfBounds.
Proof. vm_compute. reflexivity. Qed.

(* rows longer than k are not rows of a k-column matrix either (the convention of span_chk) *)
Example long_row_plain : invert_mat256 2 [[1; 0; 9]; [0; 1; 9]]%N = Some [[1; 0; 9]; [0; 1; 9]]%N.
Proof. vm_compute. reflexivity. Qed.
Example long_row_chk : invert_mat256_chk 2 [[1; 0; 9]; [0; 1; 9]]%N = OutOfBounds.
Proof. vm_compute. reflexivity. Qed.

(* on k x k matrices the two outcomes other than OutOfBounds do occur, and agree with GaussJordan.v Part 5 *)
Example good_2x2 : invert_mat256_chk 2 [[1; 2]; [3; 4]]%N = Inverted [[2; 1]; [143; 142]]%N.
Proof. vm_compute. reflexivity. Qed.
(* zero diagonal: the full pivot search, the row swaps and the final column swaps are used *)
Example good_3x3 : invert_mat256_chk 3 [[0; 0; 7]; [0; 5; 1]; [9; 0; 0]]%N = Inverted [[0; 0; 157]; [128; 167; 0]; [186; 0; 0]]%N.
Proof. vm_compute. reflexivity. Qed.
Example good_singular : invert_mat256_chk 3 [[1; 2; 3]; [4; 5; 6]; [5; 7; 5]]%N = Singular.
Proof. vm_compute. reflexivity. Qed.
Example good_0x0 : invert_mat256_chk 0 [] = Inverted [].
Proof. vm_compute. reflexivity. Qed.
Example good_16 : invert_mat16_chk 2 [[1; 2]; [3; 4]]%N = of_opt (invert_mat16 2 [[1; 2]; [3; 4]]%N).
Proof. vm_compute. reflexivity. Qed.
Example good_bool : invb_chk 2 [[false; true]; [true; true]] = Inverted [[true; true]; [true; false]].
Proof. vm_compute. reflexivity. Qed.
End Examples.

Print Assumptions invert_mat_chk_refines.
Print Assumptions find_pivot_range.
Print Assumptions eliminate_chk_safe.
Print Assumptions gj_step_chk_safe.
Print Assumptions gj_loop_chk_safe.
Print Assumptions unscramble_chk_safe.
Print Assumptions invert_mat_chk_safe.
Print Assumptions invert_mat_chk_never_oob.
Print Assumptions invert_mat_chk_never_oob'.
Print Assumptions invert_mat_chk_inverted_iff.
Print Assumptions invert_mat_chk_singular_iff.
Print Assumptions get_chk_oob_iff.
Print Assumptions mark_chk_oob_iff.
Print Assumptions invert_mat256_chk_refines.
Print Assumptions invert_mat256_chk_safe.
Print Assumptions invert_mat256_chk_never_oob.
Print Assumptions invert_mat16_chk_refines.
Print Assumptions invert_mat16_chk_safe.
Print Assumptions invert_mat16_chk_never_oob.
Print Assumptions short_row_chk.
Print Assumptions few_rows256_chk.
