(* Spec S: arithmetic in GF(2)[x]/(p), elements as bit vectors in N (bit i = coefficient of x^i).
   p is given with its leading bit (0x13 = x^4+x+1, 0x11d = x^8+x^4+x^3+x^2+1). *)
From Coq Require Import NArith Arith List Bool Lia.
Import ListNotations.
Local Open Scope N_scope.

(* multiplication by x, reduced *)
Definition xtime (m p a : N) : N :=
  let a2 := N.shiftl a 1 in if N.testbit a2 m then N.lxor a2 p else a2.

(* shift-and-add product: acc + a*b, consuming the m low bits of b *)
Fixpoint gfmul_aux (n : nat) (m p a b acc : N) : N :=
  match n with
  | O => acc
  | S n' => gfmul_aux n' m p (xtime m p a) (N.shiftr b 1) (if N.odd b then N.lxor acc a else acc)
  end.
Definition gfmul (m p a b : N) : N := gfmul_aux (N.to_nat m) m p a b 0.

(* x^i *)
Fixpoint xpow (m p : N) (i : nat) : N :=
  match i with O => 1 | S j => xtime m p (xpow m p j) end.

Definition P16 : N := 19.    (* x^4+x+1 *)
Definition P256 : N := 285.  (* x^8+x^4+x^3+x^2+1 *)
Definition mul16 := gfmul 4 P16.
Definition mul256 := gfmul 8 P256.

(* list helpers used by the table sweeps *)
Fixpoint forallbi {A} (f : nat -> A -> bool) (i : nat) (l : list A) : bool :=
  match l with [] => true | x :: t => f i x && forallbi f (S i) t end.

Lemma forallbi_nth {A} (f : nat -> A -> bool) (l : list A) (d : A) :
  forall i0, forallbi f i0 l = true -> forall j, (j < length l)%nat -> f (i0 + j)%nat (nth j l d) = true.
Proof.
  induction l as [|x t IH]; intros i0 H j Hj; simpl in *; [lia|].
  apply andb_true_iff in H as [H1 H2]. destruct j as [|j].
  - now rewrite Nat.add_0_r.
  - rewrite <- Nat.add_succ_comm. apply IH; [exact H2|lia].
Qed.

Definition getN (l : list N) (i : N) : N := nth (N.to_nat i) l 0.
Definition get2 (l : list (list N)) (i j : N) : N := getN (nth (N.to_nat i) l []) j.
