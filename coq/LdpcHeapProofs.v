(* Proofs about the ownership ledger of LdpcHeap.v (C08: a released session leaves nothing behind).
     P1  simulation: the ledger never changes the control flow (hdecode_sim, hrun_sim, hfinish_sim)
     P2  the ledger invariant HInv (a block per partial sum, a table entry per stored symbol, repair entries are
         library copies, no block referenced twice, live = referenced, fresh names are fresh); it holds initially
         and is kept by every submission, from the states of a session (ITProofs.Good) over a well-formed
         parity-check matrix; the ledger gets stuck only if the control model does (hdecode_no_stuck: no invalid
         free, the block of a ready row always exists)
     P3  release: never an invalid free; what stays live is exactly the library blocks in source entries
     P4  finish: sync_ct / sync_tab keep the invariant
     P5  session_leaves_nothing_behind
   The well-formedness of the matrix is necessary: see hdecode_inv_needs_wf at the end of the file. *)
From Coq Require Import List Arith Bool Lia Permutation.
From OFV Require Import ListAux ITModel ITLemmas ITProofs DenseSolve MLModel StableTables LdpcHeap.
Import ListNotations.

(* ============================================================================================== *)
(* P1 - simulation                                                                                 *)
(* ============================================================================================== *)
Section SIM.
Variable cbf : nat -> bool.

Lemma hstep3_cons (dec : hst -> nat -> own -> option hst) row L' (s : hst) :
  hstep3 cbf dec (row :: L') s =
  (let '(c', cs) := is_complete (core s) in
   if c' then Some (with_core s cs) else
   if getn (enc cs) row =? 1 then
     match nth row (rws cs) [], nth row (ct cs) None, nth row (hct s) None with
     | [cc], Some _, Some t =>
         let s1 := {| core := consume cs row; hct := upd (hct s) row None; htab := htab s; hp := hp s;
                      ncb := ncb s; idx := idx s; mat := mat s |} in
         if r cs <=? cc then
           let s1' := {| core := core s1; hct := hct s1; htab := htab s1; hp := hp s1; ncb := S (ncb s1); idx := idx s1; mat := mat s1 |} in
           if cbf (ncb s1) then
             match hfree (hp s1') t with
             | None => None
             | Some h' => match dec (with_heap s1' h') cc App with None => None | Some s2 => hstep3 cbf dec L' s2 end
             end
           else match dec s1' cc (Lib t) with None => None | Some s2 => hstep3 cbf dec L' s2 end
         else
           match dec {| core := core s1; hct := hct s1; htab := htab s1; hp := hp s1; ncb := S (ncb s1); idx := idx s1; mat := mat s1 |} cc App with
           | None => None
           | Some s2 => match hfree (hp s2) t with None => None | Some h' => hstep3 cbf dec L' (with_heap s2 h') end
           end
     | _, _, _ => None
     end
   else hstep3 cbf dec L' (with_core s cs)).
Proof. reflexivity. Qed.

Lemma hdecode_unfold fuel (s : hst) c p : hdecode cbf (S fuel) s c p =
  if known (core s) c then Some s else
  let '(p', h1) := if c <? r (core s) then let '(h1, b) := halloc (hp s) in (Lib b, h1) else (p, hp s) in
  let cs := set_tab (core s) c tt in
  let htab' := upd (htab s) c (Some p') in
  let early := if r cs <=? c then is_complete cs else (false, cs) in
  if fst early then Some {| core := snd early; hct := hct s; htab := htab'; hp := h1; ncb := ncb s; idx := idx s; mat := mat s |} else
  let cs := snd early in
  let '(cs2, L) := step2 ux tt cs c tt in
  let '(hct2, h2) := alloc_new (ct cs) (ct cs2) (hct s) h1 in
  hstep3 cbf (hdecode cbf fuel) (rev L) {| core := cs2; hct := hct2; htab := htab'; hp := h2; ncb := ncb s; idx := idx s; mat := mat s |}.
Proof. reflexivity. Qed.

(* dec rides on cdec *)
Definition SimD (dec : hst -> nat -> own -> option hst) (cdec : cst -> nat -> unit -> option cst) : Prop :=
  forall s c p s', dec s c p = Some s' -> cdec (core s) c tt = Some (core s').

Lemma hstep3_sim dec cdec : SimD dec cdec ->
  forall L s s', hstep3 cbf dec L s = Some s' -> step3 cdec L (core s) = Some (core s').
Proof.
  intros Hd. induction L as [|row L IH]; intros s s' H.
  - cbn [hstep3] in H. injection H as <-. reflexivity.
  - rewrite hstep3_cons in H. rewrite step3_cons. destruct (is_complete (core s)) as [b cs]. destruct b.
    + injection H as <-. reflexivity.
    + destruct (getn (enc cs) row =? 1); [|exact (IH _ _ H)].
      destruct (nth row (rws cs) []) as [|cc [|c2 rest]]; try discriminate H.
      destruct (nth row (ct cs) None) as [[]|]; [|discriminate H].
      destruct (nth row (hct s) None) as [t|]; [|discriminate H].
      cbv zeta in H. cbn [core hct htab hp ncb idx mat] in H.
      destruct (r cs <=? cc).
      * destruct (cbf (ncb s)).
        -- match type of H with match ?hf with Some _ => _ | None => _ end = _ => destruct hf as [h'|]; [|discriminate H] end.
           match type of H with match dec ?a ?b ?d with Some _ => _ | None => _ end = _ =>
             destruct (dec a b d) as [s2|] eqn:Ed; [|discriminate H]; apply Hd in Ed end.
           cbn [core with_heap] in Ed. rewrite Ed. exact (IH _ _ H).
        -- match type of H with match dec ?a ?b ?d with Some _ => _ | None => _ end = _ =>
             destruct (dec a b d) as [s2|] eqn:Ed; [|discriminate H]; apply Hd in Ed end.
           cbn [core] in Ed. rewrite Ed. exact (IH _ _ H).
      * match type of H with match dec ?a ?b ?d with Some _ => _ | None => _ end = _ =>
          destruct (dec a b d) as [s2|] eqn:Ed; [|discriminate H]; apply Hd in Ed end.
        cbn [core] in Ed. rewrite Ed.
        destruct (hfree (hp s2) t) as [h'|]; [|discriminate H]. exact (IH _ _ H).
Qed.

Lemma hdecode_simD : forall fuel, SimD (hdecode cbf fuel) (decode ux tt fuel).
Proof.
  induction fuel as [|f IH]; intros s c p s' H; [discriminate H|].
  rewrite hdecode_unfold in H. rewrite decode_unfold. destruct (known (core s) c).
  - injection H as <-. reflexivity.
  - destruct (if c <? r (core s) then let '(h1, b) := halloc (hp s) in (Lib b, h1) else (p, hp s)) as [p' h1].
    cbv zeta in H |- *.
    destruct (if r (set_tab (core s) c tt) <=? c then is_complete (set_tab (core s) c tt) else (false, set_tab (core s) c tt))
      as [b sx]. cbn [fst snd] in H |- *. destruct b.
    + injection H as <-. reflexivity.
    + destruct (step2 ux tt sx c tt) as [cs2 L].
      destruct (alloc_new (ct sx) (ct cs2) (hct s) h1) as [hct2 h2].
      apply (hstep3_sim _ _ IH) in H. exact H.
Qed.

(* P1 *)
Theorem hdecode_sim : forall fuel s c p,
  match hdecode cbf fuel s c p with Some s' => decode ux tt fuel (core s) c tt = Some (core s') | None => True end.
Proof.
  intros fuel s c p. destruct (hdecode cbf fuel s c p) as [s'|] eqn:E; [|exact I]. exact (hdecode_simD fuel s c p s' E).
Qed.

(* a history of submissions (every buffer is the application's) *)
Definition hrun (fuel : nat) (s : hst) (esis : list nat) : option hst :=
  fold_left (fun os c => match os with Some s => hdecode cbf fuel s c App | None => None end) esis (Some s).
Definition crun (fuel : nat) (s : cst) (esis : list nat) : option cst :=
  fold_left (fun os c => match os with Some s => decode ux tt fuel s c tt | None => None end) esis (Some s).

Lemma hrun_none fuel esis :
  fold_left (fun os c => match os with Some s => hdecode cbf fuel s c App | None => None end) esis None = None.
Proof. induction esis as [|c l IH]; [reflexivity|exact IH]. Qed.

Lemma hrun_cons fuel s c esis : hrun fuel s (c :: esis) =
  match hdecode cbf fuel s c App with Some s1 => hrun fuel s1 esis | None => None end.
Proof.
  unfold hrun. cbn [fold_left]. destruct (hdecode cbf fuel s c App) as [s1|]; [reflexivity|apply hrun_none].
Qed.

Lemma crun_cons fuel s c esis : crun fuel s (c :: esis) =
  match decode ux tt fuel s c tt with Some s1 => crun fuel s1 esis | None => None end.
Proof.
  unfold crun. cbn [fold_left]. destruct (decode ux tt fuel s c tt) as [s1|]; [reflexivity|].
  induction esis as [|c' l IH]; [reflexivity|exact IH].
Qed.

Theorem hrun_sim fuel : forall esis s s', hrun fuel s esis = Some s' -> crun fuel (core s) esis = Some (core s').
Proof.
  induction esis as [|c l IH]; intros s s' H.
  - unfold hrun in H. cbn [fold_left] in H. injection H as <-. reflexivity.
  - rewrite hrun_cons in H. rewrite crun_cons. destruct (hdecode cbf fuel s c App) as [s1|] eqn:E; [|discriminate H].
    rewrite (hdecode_simD fuel s c App s1 E). exact (IH s1 s' H).
Qed.

Theorem hfinish_sim fuel perm s s' ok : hfinish cbf fuel perm s = Some (s', ok) ->
  exists o, ml_finish ux tt fuel perm (core s) = Some o /\ core s' = o_st o /\ ok = o_ok o.
Proof.
  unfold hfinish. intros H. destruct (ml_finish ux tt fuel perm (core s)) as [o|]; [|discriminate H].
  exists o. split; [reflexivity|]. cbv zeta in H.
  destruct (sync_ct (ct (o_st o)) (hct s) (hp s)) as [[hct' h1]|]; [|discriminate H].
  destruct (sync_tab cbf (r (o_st o)) 0 (tab (o_st o)) (htab s) h1 (ncb s)) as [[htab' h2] nc'].
  injection H as <- <-. split; reflexivity.
Qed.
End SIM.

(* ============================================================================================== *)
(* lists, blocks, heap                                                                             *)
(* ============================================================================================== *)
Lemma nth_upd_c {A : Type} (l : list A) i j x d :
  nth j (upd l i x) d = if (j =? i) && (i <? length l) then x else nth j l d.
Proof.
  revert i j; induction l as [|h t IH]; intros i j.
  - cbn [upd length]. rewrite andb_false_r. reflexivity.
  - destruct i as [|i], j as [|j]; cbn [upd nth length]; try reflexivity.
    rewrite IH. reflexivity.
Qed.

Lemma somes_cons o l : somes (o :: l) = match o with Some b => [b] | None => [] end ++ somes l.
Proof. reflexivity. Qed.
Lemma lib_blocks_cons o l : lib_blocks (o :: l) = match o with Some (Lib b) => [b] | _ => [] end ++ lib_blocks l.
Proof. reflexivity. Qed.
Lemma lib_blocks_app l1 l2 : lib_blocks (l1 ++ l2) = lib_blocks l1 ++ lib_blocks l2.
Proof. unfold lib_blocks. apply flat_map_app. Qed.

Lemma somes_repeat_none k : somes (repeat None k) = [].
Proof. induction k as [|k IH]; [reflexivity|]. cbn [repeat]. rewrite somes_cons, IH. reflexivity. Qed.
Lemma lib_blocks_repeat_none k : lib_blocks (repeat None k) = [].
Proof. induction k as [|k IH]; [reflexivity|]. cbn [repeat]. rewrite lib_blocks_cons, IH. reflexivity. Qed.
Lemma nth_repeat_none' {A : Type} k i : nth i (repeat (@None A) k) None = None.
Proof. revert i; induction k as [|k IH]; intros [|i]; cbn [repeat nth]; auto. Qed.

(* detaching the block of an equation *)
Lemma somes_upd_none : forall (l : list (option nat)) row t, nth row l None = Some t ->
  Permutation (somes l) (t :: somes (upd l row None)).
Proof.
  induction l as [|o l IH]; intros row t H.
  - destruct row; discriminate H.
  - destruct row as [|row]; cbn [nth] in H; cbn [upd]; rewrite !somes_cons.
    + subst o. cbn [app]. apply Permutation_refl.
    + apply (Permutation_trans (Permutation_app_head _ (IH row t H))). apply Permutation_sym, Permutation_middle.
Qed.

(* storing a buffer in an empty table entry *)
Lemma lib_blocks_upd_lib : forall (l : list (option own)) c b, nth c l None = None -> c < length l ->
  Permutation (lib_blocks (upd l c (Some (Lib b)))) (b :: lib_blocks l).
Proof.
  induction l as [|o l IH]; intros c b H Hc; [cbn [length] in Hc; lia|].
  destruct c as [|c]; cbn [nth] in H; cbn [upd]; rewrite !lib_blocks_cons.
  - subst o. cbn [app]. apply Permutation_refl.
  - cbn [length] in Hc. apply (Permutation_trans (Permutation_app_head _ (IH c b H ltac:(lia)))).
    apply Permutation_sym, Permutation_middle.
Qed.

Lemma lib_blocks_upd_app : forall (l : list (option own)) c, nth c l None = None ->
  lib_blocks (upd l c (Some App)) = lib_blocks l.
Proof.
  induction l as [|o l IH]; intros c H; [reflexivity|].
  destruct c as [|c]; cbn [nth] in H; cbn [upd]; rewrite !lib_blocks_cons.
  - subst o. reflexivity.
  - rewrite (IH c H). reflexivity.
Qed.

Lemma existsb_eqb_in b (l : list nat) : existsb (Nat.eqb b) l = true <-> In b l.
Proof.
  rewrite existsb_exists. split.
  - intros (x & Hx & E). apply Nat.eqb_eq in E. subst x. exact Hx.
  - intros H. exists b. split; [exact H|apply Nat.eqb_refl].
Qed.

Lemma NoDup_app_intro {A : Type} (a b : list A) : NoDup a -> NoDup b -> (forall x, In x a -> ~ In x b) -> NoDup (a ++ b).
Proof.
  induction a as [|h a IH]; intros Ha Hb Hd; [exact Hb|].
  cbn [app]. inversion Ha as [|h' a' Hn Ha']; subst. constructor.
  - intros Hin. apply in_app_or in Hin. destruct Hin as [Hin|Hin]; [exact (Hn Hin)|].
    exact (Hd h (or_introl eq_refl) Hin).
  - apply IH; [exact Ha'|exact Hb|]. intros x Hx. apply Hd. right. exact Hx.
Qed.

(* freeing a live block *)
Lemma hfree_spec (h : heap) t m : NoDup (live h) -> Permutation (live h) (t :: m) ->
  exists h', hfree h t = Some h' /\ Permutation (live h') m /\ NoDup (live h') /\ nxt h' = nxt h
             /\ (forall b, In b (live h') -> In b (live h)).
Proof.
  intros Hn Hp. unfold hfree.
  assert (Hin : In t (live h)) by (apply (Permutation_in _ (Permutation_sym Hp)); left; reflexivity).
  assert (Hm : hmem t h = true) by (unfold hmem; apply existsb_eqb_in; exact Hin).
  rewrite Hm. eexists. split; [reflexivity|]. cbn [live nxt].
  assert (Hntm : NoDup (t :: m)) by exact (Permutation_NoDup Hp Hn).
  inversion Hntm as [|t' m' Hnt Hnm]; subst.
  split; [|split; [apply NoDup_filter; exact Hn|split; [reflexivity|]]].
  - apply NoDup_Permutation; [apply NoDup_filter; exact Hn|exact Hnm|].
    intros x. rewrite filter_In. split.
    + intros [Hx Hne]. apply negb_true_iff, Nat.eqb_neq in Hne.
      apply (Permutation_in _ Hp) in Hx. destruct Hx as [Hx|Hx]; [congruence|exact Hx].
    + intros Hx. split; [apply (Permutation_in _ (Permutation_sym Hp)); right; exact Hx|].
      apply negb_true_iff, Nat.eqb_neq. intros ->. exact (Hnt Hx).
  - intros b Hb. apply filter_In in Hb. exact (proj1 Hb).
Qed.

Lemma free_all_none bs : fold_left (fun oh b => match oh with None => None | Some h => hfree h b end) bs None = None.
Proof. induction bs as [|b bs IH]; [reflexivity|exact IH]. Qed.

Lemma free_all_spec : forall bs (h : heap) m, NoDup (live h) -> Permutation (live h) (bs ++ m) ->
  exists h', free_all bs h = Some h' /\ Permutation (live h') m /\ NoDup (live h') /\ nxt h' = nxt h.
Proof.
  induction bs as [|b bs IH]; intros h m Hn Hp.
  - exists h. split; [reflexivity|]. split; [exact Hp|]. split; [exact Hn|reflexivity].
  - cbn [app] in Hp. destruct (hfree_spec h b (bs ++ m) Hn Hp) as (h1 & E1 & P1 & N1 & X1 & _).
    destruct (IH h1 m N1 P1) as (h2 & E2 & P2 & N2 & X2).
    exists h2. split; [|split; [exact P2|split; [exact N2|congruence]]].
    unfold free_all in *. cbn [fold_left]. rewrite E1. exact E2.
Qed.

(* ============================================================================================== *)
(* P2 - the ledger invariant                                                                       *)
(* ============================================================================================== *)
Definition HInv (s : hst) : Prop :=
  (length (hct s) = length (ct (core s))
   /\ forall row, nth row (hct s) None <> None <-> nth row (ct (core s)) None <> None)
  /\ (length (htab s) = length (tab (core s))
      /\ forall c, nth c (htab s) None <> None <-> nth c (tab (core s)) None <> None)
  /\ (forall c, c < r (core s) -> forall o, nth c (htab s) None = Some o -> exists b, o = Lib b)
  /\ NoDup (somes (hct s) ++ lib_blocks (htab s))
  /\ ((forall b, In b (live (hp s)) <-> In b (somes (hct s) ++ lib_blocks (htab s))) /\ NoDup (live (hp s)))
  /\ (forall b, In b (live (hp s)) -> b < nxt (hp s)).

(* the same on components, with a list X of detached blocks (live, referenced by no table): the blocks that the
   enclosing step-3 frames hold while the recursive call runs *)
Definition ShapeC (ctl tabl : list (option unit)) (rr : nat) (hc : list (option nat)) (ht : list (option own)) : Prop :=
  length hc = length ctl /\ (forall row, nth row hc None <> None <-> nth row ctl None <> None)
  /\ length ht = length tabl /\ (forall c, nth c ht None <> None <-> nth c tabl None <> None)
  /\ (forall c, c < rr -> forall o, nth c ht None = Some o -> exists b, o = Lib b).
Definition LedC (X : list nat) (hc : list (option nat)) (ht : list (option own)) (h : heap) : Prop :=
  Permutation (live h) ((somes hc ++ lib_blocks ht) ++ X) /\ NoDup (live h) /\ (forall b, In b (live h) -> b < nxt h).
Definition LIc X ctl tabl rr hc ht h : Prop := ShapeC ctl tabl rr hc ht /\ LedC X hc ht h.
Definition LInv (X : list nat) (s : hst) : Prop :=
  LIc X (ct (core s)) (tab (core s)) (r (core s)) (hct s) (htab s) (hp s).

Lemma HInv_LInv s : HInv s <-> LInv [] s.
Proof.
  unfold HInv, LInv, LIc, ShapeC, LedC. rewrite app_nil_r. split.
  - intros ((A1 & A2) & (B1 & B2) & C & D & (E1 & E2) & F).
    split; [repeat split; try assumption; apply A2 || apply B2|].
    split; [apply NoDup_Permutation; assumption|]. split; assumption.
  - intros ((A1 & A2 & B1 & B2 & C) & (P & E2 & F)).
    split; [split; assumption|]. split; [split; assumption|]. split; [exact C|].
    split; [exact (Permutation_NoDup P E2)|]. split; [split; [|exact E2]|exact F].
    intros b. split; [apply Permutation_in; exact P|apply Permutation_in, Permutation_sym; exact P].
Qed.

Lemma same_some_upd {A B : Type} (l1 : list (option A)) (l2 : list (option B)) i (x : option A) (y : option B) :
  length l1 = length l2 -> (forall j, nth j l1 None <> None <-> nth j l2 None <> None) ->
  (x <> None <-> y <> None) ->
  forall j, nth j (upd l1 i x) None <> None <-> nth j (upd l2 i y) None <> None.
Proof.
  intros Hl Hs Hxy j. rewrite !nth_upd_c, Hl. destruct ((j =? i) && (i <? length l2)); [exact Hxy|apply Hs].
Qed.

(* step 3 detaches the block of the row *)
Lemma ShapeC_detach ctl tabl rr hc ht row : ShapeC ctl tabl rr hc ht ->
  ShapeC (upd ctl row None) tabl rr (upd hc row None) ht.
Proof.
  intros (A1 & A2 & B). split; [rewrite !upd_length; exact A1|]. split; [|exact B].
  apply same_some_upd; [exact A1|exact A2|]. split; intros H; exfalso; apply H; reflexivity.
Qed.

Lemma LedC_detach X hc ht h row t : nth row hc None = Some t -> LedC X hc ht h -> LedC (t :: X) (upd hc row None) ht h.
Proof.
  intros Hr (P & N & F). split; [|split; assumption].
  apply (Permutation_trans P). rewrite <- !app_assoc.
  apply (Permutation_trans (Permutation_app_tail _ (somes_upd_none hc row t Hr))).
  cbn [app]. rewrite !app_assoc. apply Permutation_middle.
Qed.

(* a detached block is freed *)
Lemma LedC_free X hc ht h t : LedC (t :: X) hc ht h -> exists h', hfree h t = Some h' /\ LedC X hc ht h'.
Proof.
  intros (P & N & F).
  assert (P' : Permutation (live h) (t :: (somes hc ++ lib_blocks ht) ++ X)).
  { apply (Permutation_trans P). apply Permutation_sym, Permutation_middle. }
  destruct (hfree_spec h t _ N P') as (h' & E & P2 & N2 & X2 & S2).
  exists h'. split; [exact E|]. split; [exact P2|]. split; [exact N2|].
  intros b Hb. rewrite X2. apply F, S2, Hb.
Qed.

(* step 1: the symbol is stored in its (empty) table entry *)
Lemma ShapeC_store ctl tabl rr hc ht c o : ShapeC ctl tabl rr hc ht -> (c < rr -> exists b, o = Lib b) ->
  ShapeC ctl (upd tabl c (Some tt)) rr hc (upd ht c (Some o)).
Proof.
  intros (A1 & A2 & B1 & B2 & C) Ho. split; [exact A1|]. split; [exact A2|].
  split; [rewrite !upd_length; exact B1|]. split.
  - apply same_some_upd; [exact B1|exact B2|]. split; intros _; discriminate.
  - intros c' Hc' o' Hn. rewrite nth_upd_c in Hn. destruct ((c' =? c) && (c <? length ht)) eqn:E.
    + injection Hn as <-. apply andb_true_iff in E. destruct E as [E _]. apply Nat.eqb_eq in E. subst c'. exact (Ho Hc').
    + exact (C c' Hc' o' Hn).
Qed.

Lemma LedC_store_app X hc ht h c : nth c ht None = None -> LedC X hc ht h -> LedC X hc (upd ht c (Some App)) h.
Proof. intros Hn L. unfold LedC. rewrite (lib_blocks_upd_app ht c Hn). exact L. Qed.

Lemma LedC_store_lib X hc ht h c b : nth c ht None = None -> c < length ht ->
  LedC (b :: X) hc ht h -> LedC X hc (upd ht c (Some (Lib b))) h.
Proof.
  intros Hn Hc (P & N & F). split; [|split; assumption].
  apply (Permutation_trans P). rewrite <- !app_assoc. apply Permutation_app_head.
  apply (Permutation_trans (Permutation_sym (Permutation_middle _ _ _))).
  change (b :: lib_blocks ht ++ X) with ((b :: lib_blocks ht) ++ X). apply Permutation_app_tail.
  apply Permutation_sym, lib_blocks_upd_lib; assumption.
Qed.

Lemma LedC_alloc X hc ht h : LedC X hc ht h -> LedC (nxt h :: X) hc ht {| live := nxt h :: live h; nxt := S (nxt h) |}.
Proof.
  intros (P & N & F). unfold LedC. cbn [live nxt]. split; [|split].
  - apply (Permutation_trans (perm_skip (nxt h) P)). apply Permutation_middle.
  - constructor; [|exact N]. intros Hin. apply F in Hin. lia.
  - intros b [<-|Hb]; [lia|]. apply F in Hb. lia.
Qed.

Lemma LedC_store_new X hc ht h c : nth c ht None = None -> c < length ht -> LedC X hc ht h ->
  LedC X hc (upd ht c (Some (Lib (nxt h)))) {| live := nxt h :: live h; nxt := S (nxt h) |}.
Proof. intros Hn Hc L. apply LedC_store_lib; [exact Hn|exact Hc|]. apply LedC_alloc. exact L. Qed.

(* step 2: fresh blocks for the partial sums created by the pass *)
Lemma alloc_new_spec : forall (old new : list (option unit)) hc h hc2 h2,
  length hc = length old -> length new = length old ->
  (forall row, nth row hc None <> None <-> nth row old None <> None) ->
  (forall row, nth row old None <> None -> nth row new None <> None) ->
  alloc_new old new hc h = (hc2, h2) ->
  length hc2 = length hc /\ (forall row, nth row hc2 None <> None <-> nth row new None <> None)
  /\ exists F, Permutation (live h2) (F ++ live h) /\ Permutation (somes hc2) (F ++ somes hc)
       /\ (forall b, In b F -> nxt h <= b < nxt h2) /\ NoDup F /\ nxt h <= nxt h2.
Proof.
  induction old as [|o old IH]; intros new hc h hc2 h2 L1 L2 HS M H.
  - destruct new; [|discriminate L2]. destruct hc; [|discriminate L1]. cbn [alloc_new] in H. injection H as <- <-.
    split; [reflexivity|].
    split; [intros row; destruct row; cbn [nth]; split; intros Hx; exfalso; apply Hx; reflexivity|]. exists [].
    split; [apply Permutation_refl|]. split; [apply Permutation_refl|]. split; [intros b []|]. split; [constructor|lia].
  - destruct new as [|nw new]; [discriminate L2|]. destruct hc as [|c hc]; [discriminate L1|].
    cbn [length] in L1, L2. injection L1 as L1. injection L2 as L2.
    assert (S' : forall row, nth row hc None <> None <-> nth row old None <> None) by (intros row; exact (HS (S row))).
    assert (M' : forall row, nth row old None <> None -> nth row new None <> None) by (intros row; exact (M (S row))).
    pose proof (HS 0) as S0. pose proof (M 0) as M0. cbn [nth] in S0, M0.
    cbn [alloc_new] in H.
    assert (Hkeep : (o <> None \/ nw = None) ->
              (let '(rr, h2) := alloc_new old new hc h in (c :: rr, h2)) = (hc2, h2) ->
              length hc2 = length (c :: hc) /\ (forall row, nth row hc2 None <> None <-> nth row (nw :: new) None <> None)
              /\ exists F, Permutation (live h2) (F ++ live h) /\ Permutation (somes hc2) (F ++ somes (c :: hc))
                   /\ (forall b, In b F -> nxt h <= b < nxt h2) /\ NoDup F /\ nxt h <= nxt h2).
    { intros Hc Hk. destruct (alloc_new old new hc h) as [rr hh] eqn:E. injection Hk as <- <-.
      destruct (IH new hc h rr hh L1 L2 S' M' E) as (A & B & F & P1 & P2 & R & N & X).
      split; [cbn [length]; rewrite A; reflexivity|]. split.
      - intros [|row]; cbn [nth]; [|apply B]. rewrite S0. destruct Hc as [Hc|Hc].
        + split; [intros _; exact (M0 Hc)|intros _; exact Hc].
        + subst nw. split; [intros Ho; exact (M0 Ho)|intros Hx; exfalso; apply Hx; reflexivity].
      - exists F. split; [exact P1|]. split; [|split; [exact R|split; [exact N|exact X]]].
        rewrite !somes_cons. apply (Permutation_trans (Permutation_app_head _ P2)).
        rewrite !app_assoc. apply Permutation_app_tail. apply Permutation_app_comm. }
    destruct o as [ou|]; [apply Hkeep; [left; discriminate|]; destruct nw; exact H|].
    destruct nw as [nu|]; [|apply Hkeep; [right; reflexivity|exact H]].
    clear Hkeep. cbn [halloc] in H.
    destruct (alloc_new old new hc {| live := nxt h :: live h; nxt := S (nxt h) |}) as [rr hh] eqn:E.
    injection H as <- <-.
    destruct (IH new hc _ rr hh L1 L2 S' M' E) as (A & B & F & P1 & P2 & R & N & X). cbn [live nxt] in P1, R, X.
    assert (Hc : c = None).
    { destruct c as [cb|]; [|reflexivity]. exfalso. apply (proj1 S0); [discriminate|reflexivity]. }
    subst c.
    split; [cbn [length]; rewrite A; reflexivity|]. split.
    + intros [|row]; cbn [nth]; [|apply B]. split; intros _; discriminate.
    + exists (nxt h :: F). split; [|split; [|split; [|split]]].
      * apply (Permutation_trans P1). apply Permutation_sym, Permutation_middle.
      * rewrite !somes_cons. cbn [app]. apply perm_skip. exact P2.
      * intros b [<-|Hb]; [lia|]. apply R in Hb. lia.
      * constructor; [|exact N]. intros Hin. apply R in Hin. lia.
      * lia.
Qed.

Lemma LIc_alloc_new X ctl ctl2 tabl rr hc ht h hc2 h2 : LIc X ctl tabl rr hc ht h ->
  length ctl2 = length ctl -> (forall row, nth row ctl None <> None -> nth row ctl2 None <> None) ->
  alloc_new ctl ctl2 hc h = (hc2, h2) -> LIc X ctl2 tabl rr hc2 ht h2.
Proof.
  intros ((A1 & A2 & B) & (P & N & F)) L2 M H.
  destruct (alloc_new_spec ctl ctl2 hc h hc2 h2 A1 L2 A2 M H) as (A & S2 & Fr & P1 & P2 & R & NF & X2).
  split; [split; [congruence|split; [exact S2|exact B]]|].
  assert (Hd : forall x, In x Fr -> ~ In x (live h)) by (intros x Hx Hl; apply R in Hx; apply F in Hl; lia).
  split; [|split].
  - apply (Permutation_trans P1). apply (Permutation_trans (Permutation_app_head _ P)).
    rewrite <- !app_assoc. rewrite app_assoc. apply Permutation_app_tail. apply Permutation_sym. exact P2.
  - apply (Permutation_NoDup (Permutation_sym P1)). apply NoDup_app_intro; assumption.
  - intros b Hb. apply (Permutation_in _ P1) in Hb. apply in_app_or in Hb. destruct Hb as [Hb|Hb].
    + apply R in Hb. lia.
    + apply F in Hb. lia.
Qed.

Lemma known_set_tab' (s : cst) e c : e < length (tab s) -> known (set_tab s e tt) c = known s c || (c =? e).
Proof.
  intros He. unfold known at 1. cbn [set_tab tab]. rewrite nth_upd_c.
  apply Nat.ltb_lt in He. rewrite He, andb_true_r. destruct (c =? e) eqn:E.
  - rewrite orb_true_r. reflexivity.
  - rewrite orb_false_r. reflexivity.
Qed.

(* step 2 never removes a partial sum *)
Lemma step2_row_ct_mono (s : cst) c i row : nth row (ct s) None <> None ->
  nth row (ct (fst (step2_row ux tt s c tt i))) None <> None.
Proof.
  intros H. unfold step2_row.
  destruct (match nth i (ct s) None with
            | Some t => Some t
            | None => if getn (unk s) i - 1 =? 1 then Some tt else None end); cbn [fst ct]; [|exact H].
  rewrite nth_upd_c. destruct ((row =? i) && (i <? length (ct s))); [discriminate|exact H].
Qed.

Lemma step2_fold_ct_mono c row rows : forall (s : cst) L, nth row (ct s) None <> None ->
  nth row (ct (fst (fold_left (f2 unit ux tt c tt) rows (s, L)))) None <> None.
Proof.
  induction rows as [|a rows IH]; intros s L H.
  - exact H.
  - cbn [fold_left]. unfold f2 at 2. pose proof (step2_row_ct_mono s c a row H) as H1.
    destruct (step2_row ux tt s c tt a) as [s1 rdy]. cbn [fst] in H1. exact (IH s1 _ H1).
Qed.

Lemma step2_ct_mono (s : cst) c row : nth row (ct s) None <> None ->
  nth row (ct (fst (step2 ux tt s c tt))) None <> None.
Proof. exact (step2_fold_ct_mono c row (rows_with s c) s []). Qed.

(* ---------------------------------------------------------------------------------------------- *)
(* the decoder on the states of a session (ITProofs: WF, Inv / PInv, Good) over a well-formed matrix *)
(* ---------------------------------------------------------------------------------------------- *)
Section INV.
Variable cbf : nat -> bool.
Variable H0 : list (list nat).
Variable R0 N0 : nat.
Hypothesis H0_len : length H0 = R0.
Hypothesis H0_nodup : forall i, i < R0 -> NoDup (nth i H0 []).
Hypothesis H0_range : forall i c, i < R0 -> In c (nth i H0 []) -> c < N0.
Hypothesis H0_deg : forall i, i < R0 -> 2 <= length (nth i H0 []).
Hypothesis R_le_N : R0 <= N0.

Notation WF := (WF unit R0 N0).
Notation Inv := (Inv unit H0 R0).
Notation PInv := (PInv unit H0 R0).
Notation Good := (Good unit H0 R0 N0).
Notation iscomp := (iscomp unit R0 N0).
Notation Contract := (Contract unit H0 R0 N0).

(* the buffer handed to a (recursive) call: the application's, or a detached block, and then for a source column *)
Definition pext (p : own) (X : list nat) : list nat := match p with App => X | Lib b => b :: X end.
Definition pok (p : own) (c : nat) : Prop := match p with App => True | Lib _ => R0 <= c end.

Lemma known_false_nth (s : cst) c : known s c = false -> nth c (tab s) None = None.
Proof. unfold known. destruct (nth c (tab s) None); [discriminate|reflexivity]. Qed.

(* step 1 *)
Lemma hstore X s c p p' h1 : WF (core s) -> known (core s) c = false -> c < N0 -> pok p c -> LInv (pext p X) s ->
  (if c <? r (core s) then let '(h1, b) := halloc (hp s) in (Lib b, h1) else (p, hp s)) = (p', h1) ->
  LIc X (ct (core s)) (upd (tab (core s)) c (Some tt)) (r (core s)) (hct s) (upd (htab s) c (Some p')) h1.
Proof.
  intros W Hk Hc Hp (Sh & Ld) E.
  pose proof (known_false_nth _ _ Hk) as Hn.
  assert (Hnh : nth c (htab s) None = None).
  { destruct Sh as (_ & _ & _ & B2 & _). destruct (nth c (htab s) None) as [o|] eqn:Eo; [|reflexivity].
    exfalso. apply (proj1 (B2 c)); [rewrite Eo; discriminate|exact Hn]. }
  assert (Hlen : c < length (htab s)).
  { destruct Sh as (_ & _ & B1 & _). rewrite B1, (wf_tab unit R0 N0 (core s) W). exact Hc. }
  rewrite (wf_r unit R0 N0 (core s) W) in E, Sh |- *.
  destruct (c <? R0) eqn:Ecr.
  - apply Nat.ltb_lt in Ecr. cbn [halloc] in E. injection E as <- <-.
    destruct p as [|b]; cbn [pok pext] in Hp, Ld; [|lia].
    split; [apply ShapeC_store; [exact Sh|intros _; eexists; reflexivity]|apply LedC_store_new; assumption].
  - apply Nat.ltb_ge in Ecr. injection E as <- <-. destruct p as [|b]; cbn [pext] in Ld.
    + split; [apply ShapeC_store; [exact Sh|intros Hlt; lia]|apply LedC_store_app; assumption].
    + split; [apply ShapeC_store; [exact Sh|intros Hlt; lia]|apply LedC_store_lib; assumption].
Qed.

(* what a (recursive) call of the decoder owes to step 3: if the control model returns, so does the ledger model,
   on the same control state, and the blocks in X are still detached *)
Definition DecMain (dec : hst -> nat -> own -> option hst) (cdec : cst -> nat -> unit -> option cst) : Prop :=
  forall X s c p cs', WF (core s) -> PInv (core s) c -> known (core s) c = false -> c < N0 -> pok p c ->
    LInv (pext p X) s -> cdec (core s) c tt = Some cs' ->
    exists s', dec s c p = Some s' /\ core s' = cs' /\ LInv X s'.

Lemma hstep3_main dec cdec : Contract cdec -> DecMain dec cdec ->
  forall L X s cs', WF (core s) -> (iscomp (core s) \/ Inv (core s)) -> (forall i, In i L -> i < R0) ->
    LInv X s -> step3 cdec L (core s) = Some cs' ->
    exists s', hstep3 cbf dec L s = Some s' /\ core s' = cs' /\ LInv X s'.
Proof.
  intros HC HD. induction L as [|row L IH]; intros X s cs' W HG HL HLI H.
  - cbn [step3] in H. injection H as <-. exists s. cbn [hstep3]. auto.
  - rewrite step3_cons in H. rewrite hstep3_cons.
    pose proof (is_complete_spec unit H0 R0 N0 H0_len R_le_N (core s) W) as Hs.
    destruct (is_complete (core s)) as [b s1]. destruct Hs as (W1 & T1 & A1 & B1 & C1 & D1 & Hb).
    assert (Er1 : r s1 = r (core s)) by (rewrite (wf_r unit R0 N0 s1 W1), (wf_r unit R0 N0 (core s) W); reflexivity).
    assert (HLI1 : LInv X (with_core s s1)).
    { unfold LInv in *. cbn [with_core core hct htab hp]. rewrite D1, T1, Er1. exact HLI. }
    cbv beta iota. destruct b.
    + injection H as <-. exists (with_core s s1). auto.
    + assert (HI : Inv (core s)).
      { destruct HG as [Hc|HI]; [|exact HI]. apply Hb in Hc. discriminate Hc. }
      assert (HI1 : Inv s1) by (apply (Inv_fields_eq unit H0 R0 (core s) s1 T1 A1 B1 C1 D1 HI)).
      assert (Hrow : row < R0) by (apply HL; left; reflexivity).
      assert (HL' : forall i, In i L -> i < R0) by (intros i Hi; apply HL; right; exact Hi).
      destruct (getn (enc s1) row =? 1) eqn:E1.
      * apply Nat.eqb_eq in E1.
        destruct (ready_row_shape unit H0 R0 N0 H0_len H0_deg R_le_N s1 row Hrow (HI1 row Hrow) E1)
          as (cc & t0 & Hr & Hct & HU).
        rewrite Hr, Hct in H. rewrite Hr, Hct.
        destruct HLI as (Sh & Ld).
        destruct (nth row (hct s) None) as [tb|] eqn:Ehct.
        2:{ exfalso. destruct Sh as (_ & A2 & _). apply (proj2 (A2 row)); [|exact Ehct]. rewrite <- D1, Hct. discriminate. }
        destruct (consume_spec unit ux tt H0 R0 N0 H0_len H0_range R_le_N s1 row cc t0 W1 HI1 Hrow Hr Hct HU)
          as (Wc & Pc & Tc & Kc & Cc & _).
        destruct t0.
        destruct (cdec (consume s1 row) cc tt) as [cs2|] eqn:Ed; [|discriminate H].
        assert (Kc' : known (consume s1 row) cc = false) by (rewrite (known_tab_eq unit _ _ Tc); exact Kc).
        destruct (HC _ _ _ _ Wc Pc Kc' Cc Ed) as (W2 & _ & _ & _ & Post2).
        assert (HG2 : iscomp cs2 \/ Inv cs2) by (destruct Post2 as [Hc2|(HI2 & _)]; [left|right]; assumption).
        assert (ShD : ShapeC (ct (consume s1 row)) (tab (consume s1 row)) (r (consume s1 row)) (upd (hct s) row None) (htab s)).
        { cbn [consume ct tab r]. rewrite D1, T1, Er1. apply ShapeC_detach. exact Sh. }
        assert (LdD : LedC (tb :: X) (upd (hct s) row None) (htab s) (hp s)) by (apply LedC_detach; assumption).
        cbv zeta. cbn [core hct htab hp ncb idx mat].
        destruct (r s1 <=? cc) eqn:Ercc.
        -- destruct (cbf (ncb s)).
           ++ destruct (LedC_free _ _ _ _ _ LdD) as (h' & Ef & Ld').
              rewrite Ef.
              match goal with |- context [dec ?a cc App] =>
                destruct (HD X a cc App cs2 Wc Pc Kc' Cc I (conj ShD Ld') Ed) as (s2 & E2 & Ec2 & L2) end.
              rewrite E2. subst cs2. exact (IH X s2 cs' W2 HG2 HL' L2 H).
           ++ assert (Hpk : pok (Lib tb) cc).
              { cbn [pok]. apply Nat.leb_le in Ercc. rewrite (wf_r unit R0 N0 s1 W1) in Ercc. exact Ercc. }
              match goal with |- context [dec ?a cc (Lib tb)] =>
                destruct (HD X a cc (Lib tb) cs2 Wc Pc Kc' Cc Hpk (conj ShD LdD) Ed) as (s2 & E2 & Ec2 & L2) end.
              rewrite E2. subst cs2. exact (IH X s2 cs' W2 HG2 HL' L2 H).
        -- match goal with |- context [dec ?a cc App] =>
             destruct (HD (tb :: X) a cc App cs2 Wc Pc Kc' Cc I (conj ShD LdD) Ed) as (s2 & E2 & Ec2 & L2) end.
           rewrite E2. subst cs2. destruct L2 as (Sh2 & Ld2).
           destruct (LedC_free _ _ _ _ _ Ld2) as (h' & Ef & Ld').
           rewrite Ef. exact (IH X (with_heap s2 h') cs' W2 HG2 HL' (conj Sh2 Ld') H).
      * exact (IH X (with_core s s1) cs' W1 (or_intror HI1) HL' HLI1 H).
Qed.

Lemma hdecode_main : forall fuel, DecMain (hdecode cbf fuel) (decode ux tt fuel).
Proof.
  induction fuel as [|f IH]; intros X s c p cs' W HP Hk Hc Hpok HLI Hdec; [discriminate Hdec|].
  rewrite decode_unfold in Hdec. rewrite Hk in Hdec. rewrite hdecode_unfold, Hk.
  destruct (if c <? r (core s) then let '(h1, b) := halloc (hp s) in (Lib b, h1) else (p, hp s)) as [p' h1] eqn:Eph.
  pose proof (hstore X s c p p' h1 W Hk Hc Hpok HLI Eph) as HS.
  set (s1 := set_tab (core s) c tt) in *.
  assert (Hk1 : forall e, known s1 e = known (core s) e || (e =? c)).
  { intros e. apply known_set_tab'. rewrite (wf_tab unit R0 N0 (core s) W). exact Hc. }
  assert (W1 : WF s1).
  { destruct W as [Wr Wn Wrws Wunk Wenc Wct Wtab Wfnd Wcur].
    constructor; cbn [s1 set_tab r n rws unk enc ct tab fnd]; rewrite ?upd_length; auto.
    intros j Hj. rewrite Hk1. rewrite Wcur; auto. }
  assert (Hearly : exists b sx, (if r s1 <=? c then is_complete s1 else (false, s1)) = (b, sx)
            /\ WF sx /\ tab sx = tab s1 /\ rws sx = rws (core s) /\ unk sx = unk (core s) /\ enc sx = enc (core s)
            /\ ct sx = ct (core s)).
  { destruct (r s1 <=? c).
    - pose proof (is_complete_spec unit H0 R0 N0 H0_len R_le_N s1 W1) as Hs. destruct (is_complete s1) as [b sx].
      destruct Hs as (Wx & Tx & Ax & Bx & Cx & Dx & Hb). exists b, sx.
      split; [reflexivity|]. split; [exact Wx|]. split; [exact Tx|]. split; [exact Ax|]. split; [exact Bx|].
      split; [exact Cx|exact Dx].
    - exists false, s1. split; [reflexivity|]. split; [exact W1|]. do 4 (split; [reflexivity|]). reflexivity. }
  destruct Hearly as (b & sx & Eearly & Wx & Tx & Ax & Bx & Cx & Dx).
  cbv zeta in Hdec |- *. rewrite Eearly in Hdec |- *. cbn [fst snd] in Hdec |- *.
  assert (Erx : r sx = r (core s)) by (rewrite (wf_r unit R0 N0 sx Wx), (wf_r unit R0 N0 (core s) W); reflexivity).
  assert (HSx : LIc X (ct sx) (tab sx) (r sx) (hct s) (upd (htab s) c (Some p')) h1).
  { rewrite Dx, Tx, Erx. exact HS. }
  destruct b.
  - injection Hdec as <-. eexists. split; [reflexivity|]. split; [reflexivity|]. exact HSx.
  - assert (Hkx : forall e, known sx e = known (core s) e || (e =? c))
      by (intros e; rewrite (known_tab_eq unit s1 sx Tx); apply Hk1).
    assert (Hkex : known sx c = true) by (rewrite Hkx, Nat.eqb_refl; apply orb_true_r).
    assert (Hrows : forall i, i < R0 -> rowinv unit H0 (fun e => known sx e && negb (e =? c)) (Some c) sx i).
    { intros i Hi. specialize (HP i Hi).
      eapply rowinv_kn_ext; [|eapply rowinv_fields_eq; eauto].
      intros e. cbn beta. rewrite Hkx. destruct (e =? c) eqn:E; cbn [negb].
      - apply Nat.eqb_eq in E; subst. rewrite Hk. reflexivity.
      - rewrite orb_false_r, andb_true_r. reflexivity. }
    pose proof (step2_spec unit ux tt H0 R0 N0 H0_len H0_nodup H0_range H0_deg R_le_N sx c tt Wx Hc Hkex Hrows) as H2.
    pose proof (fun row => step2_ct_mono sx c row) as Hmono.
    destruct (step2 ux tt sx c tt) as [s2 L]. cbn [fst] in Hmono.
    destruct H2 as (W2 & T2 & F2 & I2 & R2 & L2).
    assert (HLrev : forall i, In i (rev L) -> i < R0) by (intros i Hi; apply L2; apply in_rev; exact Hi).
    destruct (alloc_new (ct sx) (ct s2) (hct s) h1) as [hct2 h2] eqn:Ea.
    assert (Hl2 : length (ct s2) = length (ct sx))
      by (rewrite (wf_ct unit R0 N0 s2 W2), (wf_ct unit R0 N0 sx Wx); reflexivity).
    pose proof (LIc_alloc_new X _ _ _ _ _ _ _ _ _ HSx Hl2 Hmono Ea) as HA.
    assert (Er2 : r s2 = r sx) by (rewrite (wf_r unit R0 N0 s2 W2), (wf_r unit R0 N0 sx Wx); reflexivity).
    rewrite <- T2, <- Er2 in HA.
    match goal with |- exists s', hstep3 _ _ _ ?a = Some s' /\ _ =>
      exact (hstep3_main _ _ (decode_contract unit ux tt H0 R0 N0 H0_len H0_nodup H0_range H0_deg R_le_N f) IH
               (rev L) X a cs' W2 (or_intror I2) HLrev HA Hdec) end.
Qed.

(* a complete session: step 3 returns at once *)
Lemma hstep3_complete dec (cdec : cst -> nat -> unit -> option cst) L X s cs' :
  WF (core s) -> iscomp (core s) -> LInv X s -> step3 cdec L (core s) = Some cs' ->
  exists s', hstep3 cbf dec L s = Some s' /\ core s' = cs' /\ LInv X s'.
Proof.
  intros W Hc HLI H. destruct L as [|row L].
  - cbn [step3] in H. injection H as <-. exists s. cbn [hstep3]. auto.
  - rewrite step3_cons in H. rewrite hstep3_cons.
    pose proof (is_complete_spec unit H0 R0 N0 H0_len R_le_N (core s) W) as Hs.
    destruct (is_complete (core s)) as [b s1]. destruct Hs as (W1 & T1 & _ & _ & _ & D1 & Hb).
    assert (Eb : b = true) by (apply Hb; exact Hc). subst b. cbv beta iota. injection H as <-.
    exists (with_core s s1). split; [reflexivity|split; [reflexivity|]].
    unfold LInv in *. cbn [with_core core hct htab hp].
    rewrite D1, T1, (wf_r unit R0 N0 s1 W1), <- (wf_r unit R0 N0 (core s) W). exact HLI.
Qed.

Lemma step2_wf (s : cst) c : WF s -> WF (fst (step2 ux tt s c tt)) /\ tab (fst (step2 ux tt s c tt)) = tab s.
Proof.
  intros W. apply (step2_fold_wf unit ux tt R0 N0 c tt (rows_with s c) s [] W).
  intros i Hi. unfold rows_with in Hi. apply filter_In in Hi. destruct Hi as [Hi _]. apply in_seq in Hi.
  rewrite (wf_r unit R0 N0 s W) in Hi. lia.
Qed.

(* one submission, from a state of a session *)
Lemma hdecode_top fuel s c cs' : Good (core s) -> c < N0 -> LInv [] s ->
  decode ux tt fuel (core s) c tt = Some cs' ->
  exists s', hdecode cbf fuel s c App = Some s' /\ core s' = cs' /\ LInv [] s'.
Proof.
  intros (W & HG) Hc HLI Hdec. destruct fuel as [|f]; [discriminate Hdec|].
  destruct (known (core s) c) eqn:Hk.
  - rewrite decode_unfold, Hk in Hdec. injection Hdec as <-. rewrite hdecode_unfold, Hk. exists s. auto.
  - destruct HG as [Hcomp|(HI & _)].
    + rewrite decode_unfold, Hk in Hdec. rewrite hdecode_unfold, Hk.
      destruct (if c <? r (core s) then let '(h1, b) := halloc (hp s) in (Lib b, h1) else (App, hp s)) as [p' h1] eqn:Eph.
      pose proof (hstore [] s c App p' h1 W Hk Hc I HLI Eph) as HS.
      set (s1 := set_tab (core s) c tt) in *.
      assert (Hk1 : forall e, known s1 e = known (core s) e || (e =? c)).
      { intros e. apply known_set_tab'. rewrite (wf_tab unit R0 N0 (core s) W). exact Hc. }
      assert (W1 : WF s1).
      { destruct W as [Wr Wn Wrws Wunk Wenc Wct Wtab Wfnd Wcur].
        constructor; cbn [s1 set_tab r n rws unk enc ct tab fnd]; rewrite ?upd_length; auto.
        intros j Hj. rewrite Hk1. rewrite Wcur; auto. }
      assert (Hc1 : iscomp s1) by (intros e He; rewrite Hk1, Hcomp; auto).
      cbv zeta in Hdec |- *. destruct (r s1 <=? c).
      * pose proof (is_complete_spec unit H0 R0 N0 H0_len R_le_N s1 W1) as Hs. destruct (is_complete s1) as [b sx].
        destruct Hs as (Wx & Tx & _ & _ & _ & Dx & Hb).
        assert (Eb : b = true) by (apply Hb; exact Hc1). subst b. cbn [fst snd] in Hdec |- *.
        injection Hdec as <-. eexists. split; [reflexivity|]. split; [reflexivity|].
        unfold LInv. cbn [core hct htab hp].
        rewrite Dx, Tx, (wf_r unit R0 N0 sx Wx), <- (wf_r unit R0 N0 (core s) W). exact HS.
      * cbn [fst snd] in Hdec |- *.
        pose proof (step2_wf s1 c W1) as H2. pose proof (fun row => step2_ct_mono s1 c row) as Hmono.
        destruct (step2 ux tt s1 c tt) as [s2 L]. cbn [fst] in H2, Hmono. destruct H2 as (W2 & T2).
        destruct (alloc_new (ct s1) (ct s2) (hct s) h1) as [hct2 h2] eqn:Ea.
        assert (Hl2 : length (ct s2) = length (ct s1))
          by (rewrite (wf_ct unit R0 N0 s2 W2), (wf_ct unit R0 N0 s1 W1); reflexivity).
        assert (HS1 : LIc [] (ct s1) (tab s1) (r s1) (hct s) (upd (htab s) c (Some p')) h1) by exact HS.
        pose proof (LIc_alloc_new [] _ _ _ _ _ _ _ _ _ HS1 Hl2 Hmono Ea) as HA.
        assert (Er2 : r s2 = r s1) by (rewrite (wf_r unit R0 N0 s2 W2), (wf_r unit R0 N0 s1 W1); reflexivity).
        rewrite <- T2, <- Er2 in HA.
        assert (Hc2 : iscomp s2) by (apply (iscomp_tab_eq unit R0 N0 s1 s2); [exact T2|exact Hc1]).
        match goal with |- exists s', hstep3 _ _ _ ?a = Some s' /\ _ =>
          exact (hstep3_complete _ _ (rev L) [] a cs' W2 Hc2 HA Hdec) end.
    + exact (hdecode_main (S f) [] s c App cs' W (Inv_PInv unit H0 R0 (core s) c HI) Hk Hc I HLI Hdec).
Qed.

Lemma Sound_all (s : cst) : Sound unit H0 R0 (fun _ => True) s.
Proof. intros c _. apply peel_recv. exact I. Qed.

Lemma decode_keeps_good fuel (s s' : cst) c : Good s -> c < N0 -> decode ux tt fuel s c tt = Some s' -> Good s'.
Proof.
  intros HG Hc Hd.
  exact (proj1 (decode_good unit ux tt H0 R0 N0 H0_len H0_nodup H0_range H0_deg R_le_N fuel s s' c tt
                  (fun _ => True) HG (Sound_all s) I Hc Hd)).
Qed.

(* P1, converse direction: the ledger gets stuck only if the control model does (no invalid free, and the block
   of a ready row is always there) *)
Theorem hdecode_no_stuck fuel s c cs' : Good (core s) -> HInv s -> c < N0 ->
  decode ux tt fuel (core s) c tt = Some cs' ->
  exists s', hdecode cbf fuel s c App = Some s' /\ core s' = cs'.
Proof.
  intros HG HI Hc Hd. apply HInv_LInv in HI.
  destruct (hdecode_top fuel s c cs' HG Hc HI Hd) as (s' & E & Ec & _). exists s'. auto.
Qed.

Theorem hdecode_total fuel s c : Good (core s) -> HInv s -> c < N0 -> N0 < fuel ->
  exists s', hdecode cbf fuel s c App = Some s'.
Proof.
  intros HG HI Hc Hf.
  destruct (decode_total_good unit ux tt H0 R0 N0 H0_len H0_nodup H0_range H0_deg R_le_N fuel (core s) c tt HG Hc Hf)
    as (cs' & Hd).
  destruct (hdecode_no_stuck fuel s c cs' HG HI Hc Hd) as (s' & E & _). exists s'. exact E.
Qed.

(* P2 *)
Theorem hdecode_inv fuel s c p s' : Good (core s) -> c < N0 -> HInv s ->
  (p = App \/ exists b, p = Lib b /\ In b (live (hp s)) /\ ~ In b (somes (hct s) ++ lib_blocks (htab s))) ->
  hdecode cbf fuel s c p = Some s' -> HInv s' /\ Good (core s').
Proof.
  intros HG Hc HI Hp H.
  assert (Ep : p = App).
  { destruct Hp as [Hp|(b & _ & Hl & Hn)]; [exact Hp|]. exfalso. apply Hn.
    destruct HI as (_ & _ & _ & _ & (E1 & _) & _). apply E1. exact Hl. }
  subst p. pose proof (hdecode_simD cbf fuel s c App s' H) as Hd.
  split; [|exact (decode_keeps_good fuel (core s) (core s') c HG Hc Hd)].
  apply HInv_LInv in HI. destruct (hdecode_top fuel s c (core s') HG Hc HI Hd) as (s2 & E & _ & L2).
  rewrite H in E. injection E as <-. apply HInv_LInv. exact L2.
Qed.

Theorem hrun_inv fuel : forall esis s s', Good (core s) -> (forall c, In c esis -> c < N0) -> HInv s ->
  hrun cbf fuel s esis = Some s' -> HInv s' /\ Good (core s').
Proof.
  induction esis as [|c l IH]; intros s s' HG Hr HI H.
  - unfold hrun in H. cbn [fold_left] in H. injection H as <-. auto.
  - rewrite hrun_cons in H. destruct (hdecode cbf fuel s c App) as [s1|] eqn:E; [|discriminate H].
    destruct (hdecode_inv fuel s c App s1 HG (Hr c (or_introl eq_refl)) HI (or_introl eq_refl) E) as (HI1 & HG1).
    exact (IH s1 s' HG1 (fun e He => Hr e (or_intror He)) HI1 H).
Qed.

Theorem hrun_no_stuck fuel : forall esis s cs', Good (core s) -> (forall c, In c esis -> c < N0) -> HInv s ->
  crun fuel (core s) esis = Some cs' -> exists s', hrun cbf fuel s esis = Some s' /\ core s' = cs'.
Proof.
  induction esis as [|c l IH]; intros s cs' HG Hr HI H.
  - unfold crun in H. cbn [fold_left] in H. injection H as <-. exists s. auto.
  - rewrite crun_cons in H. destruct (decode ux tt fuel (core s) c tt) as [cs1|] eqn:E; [|discriminate H].
    destruct (hdecode_no_stuck fuel s c cs1 HG HI (Hr c (or_introl eq_refl)) E) as (s1 & E1 & Ec1).
    destruct (hdecode_inv fuel s c App s1 HG (Hr c (or_introl eq_refl)) HI (or_introl eq_refl) E1) as (HI1 & HG1).
    subst cs1. destruct (IH s1 cs' HG1 (fun e He => Hr e (or_intror He)) HI1 H) as (s' & E' & Ec').
    exists s'. rewrite hrun_cons, E1. auto.
Qed.

Theorem hrun_total fuel : forall esis s, Good (core s) -> (forall c, In c esis -> c < N0) -> HInv s -> N0 < fuel ->
  exists s', hrun cbf fuel s esis = Some s'.
Proof.
  induction esis as [|c l IH]; intros s HG Hr HI Hf.
  - exists s. reflexivity.
  - destruct (hdecode_total fuel s c HG HI (Hr c (or_introl eq_refl)) Hf) as (s1 & E1).
    destruct (hdecode_inv fuel s c App s1 HG (Hr c (or_introl eq_refl)) HI (or_introl eq_refl) E1) as (HI1 & HG1).
    destruct (IH s1 HG1 (fun e He => Hr e (or_intror He)) HI1 Hf) as (s' & E'). exists s'. rewrite hrun_cons, E1. exact E'.
Qed.

Lemma hinit_good : Good (core (hinit R0 N0 H0)).
Proof. exact (proj1 (init_good unit ux tt H0 R0 N0 H0_len H0_deg R_le_N)). Qed.
End INV.

(* the initial state: nothing allocated, nothing referenced *)
Theorem hinit_inv r n H : HInv (hinit r n H).
Proof.
  unfold HInv, hinit. cbn [core hct htab hp init ct tab ITModel.r h_empty live nxt].
  rewrite !repeat_length, somes_repeat_none, lib_blocks_repeat_none. cbn [app].
  split; [split; [reflexivity|]|].
  { intros row. split; intros Hx; exfalso; apply Hx; apply nth_repeat_none'. }
  split; [split; [reflexivity|]|].
  { intros c. split; intros Hx; exfalso; apply Hx; apply nth_repeat_none'. }
  split; [intros c _ o Ho; rewrite nth_repeat_none' in Ho; discriminate Ho|].
  split; [constructor|]. split; [split; [intros b; split; intros []|constructor]|intros b []].
Qed.

(* ============================================================================================== *)
(* P3 - release                                                                                    *)
(* ============================================================================================== *)
Theorem hrelease_spec s : HInv s ->
  exists h, hrelease s = Some h
    /\ (forall b, In b (live h) <-> In b (lib_blocks (skipn (r (core s)) (htab s))))
    /\ NoDup (live h).
Proof.
  intros HI. apply HInv_LInv in HI. destruct HI as (_ & (P & N & _)). rewrite app_nil_r in P.
  assert (P' : Permutation (live (hp s))
                 ((lib_blocks (firstn (r (core s)) (htab s)) ++ somes (hct s)) ++ lib_blocks (skipn (r (core s)) (htab s)))).
  { apply (Permutation_trans P). rewrite <- (firstn_skipn (r (core s)) (htab s)) at 1.
    rewrite lib_blocks_app, app_assoc. apply Permutation_app_tail. apply Permutation_app_comm. }
  destruct (free_all_spec _ (hp s) _ N P') as (h & E & P2 & N2 & _).
  exists h. split; [exact E|]. split; [|exact N2].
  intros b. split; [apply Permutation_in; exact P2|apply Permutation_in, Permutation_sym; exact P2].
Qed.

(* ============================================================================================== *)
(* P4 - finish                                                                                     *)
(* ============================================================================================== *)
(* partial sums: Y is everything else that is live *)
Lemma sync_ct_spec : forall (new : list (option unit)) hc h Y,
  length hc = length new -> Permutation (live h) (somes hc ++ Y) -> NoDup (live h) ->
  (forall b, In b (live h) -> b < nxt h) ->
  exists hc2 h2, sync_ct new hc h = Some (hc2, h2)
    /\ length hc2 = length hc /\ (forall row, nth row hc2 None <> None <-> nth row new None <> None)
    /\ Permutation (live h2) (somes hc2 ++ Y) /\ NoDup (live h2) /\ (forall b, In b (live h2) -> b < nxt h2).
Proof.
  induction new as [|nw new IH]; intros hc h Y L P N F.
  - destruct hc; [|discriminate L]. exists [], h. cbn [sync_ct].
    split; [reflexivity|]. split; [reflexivity|].
    split; [intros row; destruct row; cbn [nth]; split; intros Hx; exfalso; apply Hx; reflexivity|].
    split; [exact P|split; assumption].
  - destruct hc as [|c hc]; [discriminate L|]. cbn [length] in L. injection L as L. cbn [sync_ct].
    rewrite somes_cons in P.
    destruct nw as [u|], c as [b|]; cbn [app] in P.
    + assert (P1 : Permutation (live h) (somes hc ++ b :: Y)) by (apply (Permutation_trans P), Permutation_middle).
      destruct (IH hc h (b :: Y) L P1 N F) as (rr & h2 & E & A & B & P2 & N2 & F2). rewrite E.
      exists (Some b :: rr), h2. split; [reflexivity|]. split; [cbn [length]; rewrite A; reflexivity|].
      split; [intros [|row]; cbn [nth]; [split; intros _; discriminate|apply B]|].
      split; [|split; assumption]. rewrite somes_cons. cbn [app].
      apply (Permutation_trans P2). apply Permutation_sym, Permutation_middle.
    + cbn [halloc].
      assert (P1 : Permutation (nxt h :: live h) (somes hc ++ nxt h :: Y))
        by (apply (Permutation_trans (perm_skip (nxt h) P)), Permutation_middle).
      assert (N1 : NoDup (nxt h :: live h)) by (constructor; [intros Hin; apply F in Hin; lia|exact N]).
      assert (F1 : forall x, In x (nxt h :: live h) -> x < S (nxt h)) by (intros x [<-|Hx]; [lia|apply F in Hx; lia]).
      destruct (IH hc {| live := nxt h :: live h; nxt := S (nxt h) |} (nxt h :: Y) L P1 N1 F1)
        as (rr & h2 & E & A & B & P2 & N2 & F2). rewrite E.
      exists (Some (nxt h) :: rr), h2. split; [reflexivity|]. split; [cbn [length]; rewrite A; reflexivity|].
      split; [intros [|row]; cbn [nth]; [split; intros _; discriminate|apply B]|].
      split; [|split; assumption]. rewrite somes_cons. cbn [app].
      apply (Permutation_trans P2). apply Permutation_sym, Permutation_middle.
    + destruct (hfree_spec h b _ N P) as (h1 & E1 & P1 & N1 & X1 & S1). rewrite E1.
      assert (F1 : forall x, In x (live h1) -> x < nxt h1) by (intros x Hx; rewrite X1; apply F, S1, Hx).
      destruct (IH hc h1 Y L P1 N1 F1) as (rr & h2 & E & A & B & P2 & N2 & F2). rewrite E.
      exists (None :: rr), h2. split; [reflexivity|]. split; [cbn [length]; rewrite A; reflexivity|].
      split; [intros [|row]; cbn [nth]; [split; intros Hx; exfalso; apply Hx; reflexivity|apply B]|].
      split; [|split; assumption]. rewrite somes_cons. exact P2.
    + destruct (IH hc h Y L P N F) as (rr & h2 & E & A & B & P2 & N2 & F2). rewrite E.
      exists (None :: rr), h2. split; [reflexivity|]. split; [cbn [length]; rewrite A; reflexivity|].
      split; [intros [|row]; cbn [nth]; [split; intros Hx; exfalso; apply Hx; reflexivity|apply B]|].
      split; [|split; assumption]. rewrite somes_cons. exact P2.
Qed.

(* table: Y is everything else that is live; i is the column of the head of the lists *)
Lemma sync_tab_spec cbf rr : forall (new : list (option unit)) ht i h nc Y t2 h2 nc2,
  length ht = length new -> (forall c, nth c ht None <> None -> nth c new None <> None) ->
  (forall c, i + c < rr -> forall o, nth c ht None = Some o -> exists b, o = Lib b) ->
  Permutation (live h) (lib_blocks ht ++ Y) -> NoDup (live h) -> (forall b, In b (live h) -> b < nxt h) ->
  sync_tab cbf rr i new ht h nc = (t2, h2, nc2) ->
  length t2 = length ht /\ (forall c, nth c t2 None <> None <-> nth c new None <> None)
  /\ (forall c, i + c < rr -> forall o, nth c t2 None = Some o -> exists b, o = Lib b)
  /\ Permutation (live h2) (lib_blocks t2 ++ Y) /\ NoDup (live h2) /\ (forall b, In b (live h2) -> b < nxt h2).
Proof.
  induction new as [|nw new IH]; intros ht i h nc Y t2 h2 nc2 L M R P N F H.
  - destruct ht; [|discriminate L]. cbn [sync_tab] in H. injection H as <- <- <-.
    split; [reflexivity|].
    split; [intros c; destruct c; cbn [nth]; split; intros Hx; exfalso; apply Hx; reflexivity|].
    split; [exact R|]. split; [exact P|split; assumption].
  - destruct ht as [|o ht]; [discriminate L|]. cbn [length] in L. injection L as L. cbn [sync_tab] in H.
    assert (M' : forall c, nth c ht None <> None -> nth c new None <> None) by (intros c; exact (M (S c))).
    assert (R' : forall c, S i + c < rr -> forall o', nth c ht None = Some o' -> exists b, o' = Lib b).
    { intros c Hc o' Ho'. apply (R (S c)); [lia|exact Ho']. }
    pose proof (M 0) as M0. pose proof (R 0) as R00. cbn [nth] in M0, R00.
    rewrite lib_blocks_cons in P.
    assert (Hkeep : (o <> None \/ nw = None) ->
              (let '(t2, h2, nc2) := sync_tab cbf rr (S i) new ht h nc in (o :: t2, h2, nc2)) = (t2, h2, nc2) ->
              length t2 = length (o :: ht) /\ (forall c, nth c t2 None <> None <-> nth c (nw :: new) None <> None)
              /\ (forall c, i + c < rr -> forall o', nth c t2 None = Some o' -> exists b, o' = Lib b)
              /\ Permutation (live h2) (lib_blocks t2 ++ Y) /\ NoDup (live h2) /\ (forall b, In b (live h2) -> b < nxt h2)).
    { intros Hc Hk. destruct (sync_tab cbf rr (S i) new ht h nc) as [[t2' h2'] nc2'] eqn:E. injection Hk as <- <- <-.
      set (pre := match o with Some (Lib b) => [b] | _ => [] end) in *.
      assert (P1 : Permutation (live h) (lib_blocks ht ++ pre ++ Y)).
      { apply (Permutation_trans P). rewrite <- app_assoc. apply Permutation_app_swap_app. }
      destruct (IH ht (S i) h nc (pre ++ Y) t2' h2' nc2' L M' R' P1 N F E) as (A & B & C & P2 & N2 & F2).
      split; [cbn [length]; rewrite A; reflexivity|]. split; [|split; [|split; [|split; assumption]]].
      - intros [|c]; cbn [nth]; [|apply B]. destruct Hc as [Hc|Hc].
        + split; [intros _; exact (M0 Hc)|intros _; exact Hc].
        + subst nw. split; [intros Ho; exact (M0 Ho)|intros Hx; exfalso; apply Hx; reflexivity].
      - intros [|c] Hc' o' Ho'; cbn [nth] in Ho'.
        + apply R00; [exact Hc'|exact Ho'].
        + apply (C c); [lia|exact Ho'].
      - rewrite lib_blocks_cons. fold pre. apply (Permutation_trans P2). rewrite <- app_assoc. apply Permutation_app_swap_app. }
    destruct nw as [u|]; [|apply Hkeep; [right; reflexivity|destruct o; exact H]].
    destruct o as [o|]; [apply Hkeep; [left; discriminate|exact H]|].
    clear Hkeep. cbn [app] in P.
    assert (Halloc : forall ncx,
              (let '(h1, b) := halloc h in let '(t2, h2, nc2) := sync_tab cbf rr (S i) new ht h1 ncx in (Some (Lib b) :: t2, h2, nc2))
                = (t2, h2, nc2) ->
              length t2 = length (@None own :: ht) /\ (forall c, nth c t2 None <> None <-> nth c (Some u :: new) None <> None)
              /\ (forall c, i + c < rr -> forall o', nth c t2 None = Some o' -> exists b, o' = Lib b)
              /\ Permutation (live h2) (lib_blocks t2 ++ Y) /\ NoDup (live h2) /\ (forall b, In b (live h2) -> b < nxt h2)).
    { intros ncx Hk. cbn [halloc] in Hk.
      destruct (sync_tab cbf rr (S i) new ht {| live := nxt h :: live h; nxt := S (nxt h) |} ncx) as [[t2' h2'] nc2'] eqn:E.
      injection Hk as <- <- <-.
      assert (P1 : Permutation (nxt h :: live h) (lib_blocks ht ++ nxt h :: Y))
        by (apply (Permutation_trans (perm_skip (nxt h) P)), Permutation_middle).
      assert (N1 : NoDup (nxt h :: live h)) by (constructor; [intros Hin; apply F in Hin; lia|exact N]).
      assert (F1 : forall x, In x (nxt h :: live h) -> x < S (nxt h)) by (intros x [<-|Hx]; [lia|apply F in Hx; lia]).
      destruct (IH ht (S i) {| live := nxt h :: live h; nxt := S (nxt h) |} ncx (nxt h :: Y) t2' h2' nc2' L M' R' P1 N1 F1 E) as (A & B & C & P2 & N2 & F2).
      split; [cbn [length]; rewrite A; reflexivity|]. split; [|split; [|split; [|split; assumption]]].
      - intros [|c]; cbn [nth]; [split; intros _; discriminate|apply B].
      - intros [|c] Hc' o' Ho'; cbn [nth] in Ho'.
        + injection Ho' as <-. eexists. reflexivity.
        + apply (C c); [lia|exact Ho'].
      - rewrite lib_blocks_cons. cbn [app]. apply (Permutation_trans P2). apply Permutation_sym, Permutation_middle. }
    destruct (rr <=? i) eqn:Eri; [|exact (Halloc nc H)].
    destruct (cbf nc); [|exact (Halloc (S nc) H)].
    clear Halloc. destruct (sync_tab cbf rr (S i) new ht h (S nc)) as [[t2' h2'] nc2'] eqn:E. injection H as <- <- <-.
    destruct (IH ht (S i) h (S nc) Y t2' h2' nc2' L M' R' P N F E) as (A & B & C & P2 & N2 & F2).
    apply Nat.leb_le in Eri.
    split; [cbn [length]; rewrite A; reflexivity|]. split; [|split; [|split; [|split; assumption]]].
    + intros [|c]; cbn [nth]; [split; intros _; discriminate|apply B].
    + intros [|c] Hc' o' Ho'; cbn [nth] in Ho'; [lia|]. apply (C c); [lia|exact Ho'].
    + rewrite lib_blocks_cons. cbn [app]. exact P2.
Qed.

(* the ML finish keeps the dimensions of the control state (no hypothesis on the state) *)
Section MLPRES.
Variable Sy : Type. Variable sxor : Sy -> Sy -> Sy. Variable s0 : Sy.
Notation st := (st Sy).

Definition Pres3 (s s' : st) : Prop :=
  r s' = r s /\ length (ct s') = length (ct s) /\ length (tab s') = length (tab s).

Lemma Pres3_refl (s : st) : Pres3 s s.
Proof. unfold Pres3. auto. Qed.
Lemma Pres3_trans (s1 s2 s3 : st) : Pres3 s1 s2 -> Pres3 s2 s3 -> Pres3 s1 s3.
Proof. unfold Pres3. intros (A & B & C) (A' & B' & C'). repeat split; congruence. Qed.

Definition PresContract (rec : st -> nat -> Sy -> option st) : Prop :=
  forall s c v s', rec s c v = Some s' -> Pres3 s s'.

Lemma srow_pres rec c v : PresContract rec -> forall (s : st) row s',
  srow Sy sxor rec c v (Some s) row = Some s' -> Pres3 s s'.
Proof.
  intros Hrec s row s' H. unfold srow in H. cbv zeta in H.
  assert (Hsr : forall rw u t, Pres3 s (set_row s row rw u t)).
  { intros rw u t. unfold Pres3. cbn [set_row r ct tab]. rewrite upd_length. auto. }
  destruct (getn (unk s) row - 1 =? 1).
  - destruct (rm c (nth row (rws s) [])) as [|c' rest]; [discriminate H|].
    cbn [set_row tab] in H.
    destruct (nth c' (tab s) None) as [w|].
    + injection H as <-. apply Hsr.
    + apply Hrec in H. refine (Pres3_trans _ _ _ _ H).
      unfold Pres3. cbn [set_tab set_row r ct tab]. rewrite !upd_length. auto.
  - injection H as <-. apply Hsr.
Qed.

Lemma srow_fold_pres rec c v : PresContract rec -> forall (l : list nat) (s s' : st),
  fold_left (srow Sy sxor rec c v) l (Some s) = Some s' -> Pres3 s s'.
Proof.
  intros Hrec. induction l as [|row l IH]; intros s s' H.
  - injection H as <-. apply Pres3_refl.
  - cbn [fold_left] in H. destruct (srow Sy sxor rec c v (Some s) row) as [sm|] eqn:Hs.
    + apply (Pres3_trans _ sm); [exact (srow_pres rec c v Hrec s row sm Hs)|apply IH; exact H].
    + rewrite srow_none in H. discriminate H.
Qed.

Lemma simplify_pres : forall fuel, PresContract (simplify sxor fuel).
Proof.
  induction fuel as [|fuel IH]; intros s c v s' H; [discriminate H|].
  rewrite simplify_unfold in H. destruct (rows_with s c) as [|row0 rowsl].
  - injection H as <-. apply Pres3_refl.
  - cbv zeta in H.
    assert (He : Pres3 s (snd (if r s <=? c then is_complete s else (false, s))))
      by (destruct (r s <=? c); [unfold is_complete, Pres3; cbn [snd set_fnd r ct tab]; auto|apply Pres3_refl]).
    destruct (if r s <=? c then is_complete s else (false, s)) as [cf se]. cbn [fst snd] in *.
    destruct cf.
    + injection H as <-. exact He.
    + apply (srow_fold_pres _ c v IH) in H. exact (Pres3_trans _ _ _ He H).
Qed.

Lemma inject_pres fuel (s : st) c s' : inject sxor fuel (Some s) c = Some s' -> Pres3 s s'.
Proof.
  unfold inject. destruct (nth c (tab s) None) as [v|].
  - intros H. exact (simplify_pres fuel s c v s' H).
  - intros H. injection H as <-. apply Pres3_refl.
Qed.

Lemma inject_fold_pres fuel : forall (l : list nat) (s s' : st),
  fold_left (inject sxor fuel) l (Some s) = Some s' -> Pres3 s s'.
Proof.
  induction l as [|c l IH]; intros s s' H.
  - injection H as <-. apply Pres3_refl.
  - cbn [fold_left] in H. destruct (inject sxor fuel (Some s) c) as [sm|] eqn:Hi.
    + apply (Pres3_trans _ sm); [exact (inject_pres fuel s c sm Hi)|apply IH; exact H].
    + rewrite inject_none in H. discriminate H.
Qed.

Lemma take_ct_length : forall (idx : list nat) (ctl : list (option Sy)), length (snd (take_ct idx ctl)) = length ctl.
Proof.
  induction idx as [|j rest IH]; intros ctl; [reflexivity|].
  cbn [take_ct]. specialize (IH (upd ctl j None)). destruct (take_ct rest (upd ctl j None)) as [b ctl'].
  cbn [snd] in *. rewrite IH. apply upd_length.
Qed.

Lemma write_back_length : forall (srcs : list nat) (x : list Sy) pos (tb : list (option Sy)),
  length (write_back s0 srcs x pos tb) = length tb.
Proof.
  induction srcs as [|c srcs IH]; intros x pos tb; [reflexivity|].
  cbn [write_back]. destruct (nth c tb None); [apply IH|]. rewrite IH. apply upd_length.
Qed.

Theorem ml_finish_pres fuel perm (s : st) o : ml_finish sxor s0 fuel perm s = Some o -> Pres3 s (o_st o).
Proof.
  intros H. unfold ml_finish in H. cbv zeta in H.
  destruct (fold_left (inject sxor fuel) (map (fun i => r (prepar s) + i) (seq 0 (n s - r s))) (Some (prepar s)))
    as [sa|] eqn:Ha; [|rewrite inject_none in H; discriminate H].
  apply inject_fold_pres in Ha.
  destruct (fold_left (inject sxor fuel) perm (Some sa)) as [sb|] eqn:Hb; [|discriminate H].
  apply inject_fold_pres in Hb.
  assert (Hsb : Pres3 s sb).
  { refine (Pres3_trans _ _ _ _ (Pres3_trans _ _ _ Ha Hb)). unfold Pres3. cbn [prepar r ct tab]. auto. }
  clear Ha Hb.
  assert (Hgive : forall (s1 : st), Pres3 sb s1 ->
            (let '(b, s2) := is_complete s1 in Some {| o_st := s2; o_ok := b; o_solved := false |}) = Some o ->
            Pres3 s (o_st o)).
  { intros s1 E1 Hg. unfold is_complete in Hg. injection Hg as <-. cbn [o_st].
    refine (Pres3_trans _ _ _ Hsb (Pres3_trans _ _ _ E1 _)). unfold Pres3. cbn [set_fnd r ct tab]. auto. }
  match type of H with (if ?c then _ else _) = _ => destruct c end.
  - exact (Hgive sb (Pres3_refl sb) H).
  - match type of H with (let '(b, ct') := take_ct ?idx ?ctl in _) = _ =>
      pose proof (take_ct_length idx ctl) as Hl; destruct (take_ct idx ctl) as [b ct'] end.
    cbn [snd] in Hl. cbn [r n rws unk enc ct tab fnd] in H.
    match type of H with match ?sv with Some _ => _ | None => _ end = _ => destruct sv as [xv|] end.
    + injection H as <-. cbn [o_st]. refine (Pres3_trans _ _ _ Hsb _).
      unfold Pres3. cbn [r ct tab]. rewrite write_back_length. auto.
    + refine (Hgive _ _ H). unfold Pres3. cbn [r ct tab]. auto.
Qed.
End MLPRES.

Section FIN.
Variable cbf : nat -> bool.

(* the finish never gets stuck on the ledger (no invalid free) and keeps the invariant *)
Lemma hfinish_main fuel perm s o : HInv s -> ml_finish ux tt fuel perm (core s) = Some o ->
  exists s', hfinish cbf fuel perm s = Some (s', o_ok o) /\ core s' = o_st o /\ HInv s'.
Proof.
  intros HI Ho. pose proof (ml_finish_pres unit ux tt fuel perm (core s) o Ho) as (Pr & Pc & Pt).
  pose proof (ml_finish_tab_stable unit ux tt fuel perm (core s) o Ho) as Hst.
  apply HInv_LInv in HI. destruct HI as ((A1 & A2 & B1 & B2 & C) & (P & N & F)). rewrite app_nil_r in P.
  unfold hfinish. rewrite Ho. cbv zeta.
  destruct (sync_ct_spec (ct (o_st o)) (hct s) (hp s) (lib_blocks (htab s)) ltac:(congruence) P N F)
    as (hct' & h1 & E & A & B & P2 & N2 & F2).
  rewrite E.
  destruct (sync_tab cbf (r (o_st o)) 0 (tab (o_st o)) (htab s) h1 (ncb s)) as [[htab' h2] nc'] eqn:Et.
  assert (M : forall c, nth c (htab s) None <> None -> nth c (tab (o_st o)) None <> None).
  { intros c Hc. apply B2 in Hc. destruct (nth c (tab (core s)) None) as [x|] eqn:Ex; [|exfalso; apply Hc; reflexivity].
    rewrite (Hst c x Ex). discriminate. }
  assert (R : forall c, 0 + c < r (o_st o) -> forall o', nth c (htab s) None = Some o' -> exists b, o' = Lib b).
  { intros c Hc. rewrite Pr in Hc. exact (C c Hc). }
  assert (P2' : Permutation (live h1) (lib_blocks (htab s) ++ somes hct'))
    by (apply (Permutation_trans P2), Permutation_app_comm).
  destruct (sync_tab_spec cbf (r (o_st o)) (tab (o_st o)) (htab s) 0 h1 (ncb s) (somes hct') htab' h2 nc'
              ltac:(congruence) M R P2' N2 F2 Et) as (A' & B' & C' & P3 & N3 & F3).
  eexists. split; [reflexivity|]. split; [reflexivity|]. apply HInv_LInv.
  unfold LInv, LIc, ShapeC, LedC. cbn [core hct htab hp]. rewrite app_nil_r.
  split; [split; [congruence|split; [exact B|split; [congruence|split; [exact B'|exact C']]]]|].
  split; [apply (Permutation_trans P3), Permutation_app_comm|split; assumption].
Qed.

(* P4 *)
Theorem hfinish_inv fuel perm s s' ok : HInv s -> hfinish cbf fuel perm s = Some (s', ok) -> HInv s'.
Proof.
  intros HI H. destruct (hfinish_sim cbf fuel perm s s' ok H) as (o & Ho & _ & _).
  destruct (hfinish_main fuel perm s o HI Ho) as (s2 & E & _ & HI2). rewrite H in E. injection E as <- _. exact HI2.
Qed.

Theorem hfinish_no_stuck fuel perm s o : HInv s -> ml_finish ux tt fuel perm (core s) = Some o ->
  exists s', hfinish cbf fuel perm s = Some (s', o_ok o) /\ core s' = o_st o.
Proof. intros HI Ho. destruct (hfinish_main fuel perm s o HI Ho) as (s' & E & Ec & _). exists s'. auto. Qed.

Lemma hfinish_r fuel perm s s' ok : hfinish cbf fuel perm s = Some (s', ok) -> r (core s') = r (core s).
Proof.
  intros H. destruct (hfinish_sim cbf fuel perm s s' ok H) as (o & Ho & Ec & _). rewrite Ec.
  exact (proj1 (ml_finish_pres unit ux tt fuel perm (core s) o Ho)).
Qed.
End FIN.

(* ============================================================================================== *)
(* P5 - a whole session                                                                            *)
(* ============================================================================================== *)
Section SESSION.
Variable cbf : nat -> bool.
Variable H0 : list (list nat).
Variable R0 N0 : nat.
Hypothesis H0_len : length H0 = R0.
Hypothesis H0_nodup : forall i, i < R0 -> NoDup (nth i H0 []).
Hypothesis H0_range : forall i c, i < R0 -> In c (nth i H0 []) -> c < N0.
Hypothesis H0_deg : forall i, i < R0 -> 2 <= length (nth i H0 []).
Hypothesis R_le_N : R0 <= N0.

(* set-up, the submissions esis (every buffer is the application's), optionally of_finish_decoding *)
Definition session (fuel : nat) (esis : list nat) (fin : option (nat * list nat)) : option hst :=
  match hrun cbf fuel (hinit R0 N0 H0) esis with
  | None => None
  | Some s1 =>
      match fin with
      | None => Some s1
      | Some (fuel2, perm) => match hfinish cbf fuel2 perm s1 with Some (s2, _) => Some s2 | None => None end
      end
  end.

Lemma session_inv fuel esis fin s : (forall c, In c esis -> c < N0) -> session fuel esis fin = Some s ->
  HInv s /\ r (core s) = R0.
Proof.
  intros Hr H. unfold session in H.
  destruct (hrun cbf fuel (hinit R0 N0 H0) esis) as [s1|] eqn:E1; [|discriminate H].
  destruct (hrun_inv cbf H0 R0 N0 H0_len H0_nodup H0_range H0_deg R_le_N fuel esis (hinit R0 N0 H0) s1
              (hinit_good H0 R0 N0 H0_len H0_deg R_le_N) Hr (hinit_inv R0 N0 H0) E1) as (HI1 & (W1 & _)).
  pose proof (wf_r unit R0 N0 (core s1) W1) as Er1.
  destruct fin as [[fuel2 perm]|].
  - destruct (hfinish cbf fuel2 perm s1) as [[s2 ok]|] eqn:E2; [|discriminate H]. injection H as <-.
    split; [exact (hfinish_inv cbf fuel2 perm s1 s2 ok HI1 E2)|].
    rewrite (hfinish_r cbf fuel2 perm s1 s2 ok E2). exact Er1.
  - injection H as <-. auto.
Qed.

(* C08 on the ledger: whatever was submitted, with or without finish, the release frees only live blocks, each
   once, and what stays live is exactly the library blocks stored in source entries (the decoded source symbols,
   which the application owns) *)
Theorem session_leaves_nothing_behind fuel esis fin s :
  (forall c, In c esis -> c < N0) -> session fuel esis fin = Some s ->
  exists h, hrelease s = Some h
    /\ (forall b, In b (live h) <-> In b (lib_blocks (skipn R0 (htab s))))
    /\ NoDup (live h).
Proof.
  intros Hr H. destruct (session_inv fuel esis fin s Hr H) as (HI & Er).
  destruct (hrelease_spec s HI) as (h & E & A & B). rewrite Er in A. exists h. auto.
Qed.

(* the session itself never gets stuck on the ledger: with enough fuel the submissions all return, and the finish
   returns whenever the control model's does *)
Theorem session_never_stuck fuel esis : (forall c, In c esis -> c < N0) -> N0 < fuel ->
  exists s1, session fuel esis None = Some s1
    /\ forall fuel2 perm o, ml_finish ux tt fuel2 perm (core s1) = Some o ->
         exists s2, session fuel esis (Some (fuel2, perm)) = Some s2 /\ core s2 = o_st o.
Proof.
  intros Hr Hf.
  destruct (hrun_total cbf H0 R0 N0 H0_len H0_nodup H0_range H0_deg R_le_N fuel esis (hinit R0 N0 H0)
              (hinit_good H0 R0 N0 H0_len H0_deg R_le_N) Hr (hinit_inv R0 N0 H0) Hf) as (s1 & E1).
  exists s1. unfold session. rewrite E1. split; [reflexivity|].
  intros fuel2 perm o Ho.
  destruct (hrun_inv cbf H0 R0 N0 H0_len H0_nodup H0_range H0_deg R_le_N fuel esis (hinit R0 N0 H0) s1
              (hinit_good H0 R0 N0 H0_len H0_deg R_le_N) Hr (hinit_inv R0 N0 H0) E1) as (HI1 & _).
  destruct (hfinish_no_stuck cbf fuel2 perm s1 o HI1 Ho) as (s2 & E2 & Ec2).
  exists s2. rewrite E2. auto.
Qed.
End SESSION.

(* ============================================================================================== *)
(* the hypotheses on the matrix are needed                                                         *)
(* ============================================================================================== *)
(* hdecode_inv without Good (core s) is false: over a matrix whose row names a column outside the table
   (here column 5 of 3) the decoded "source symbol" 5 is written nowhere and its block 0 stays live with no owner;
   after the release it is still there *)
Example hdecode_inv_needs_wf :
  let s := hinit 1 3 [[1; 5]] in
  HInv s /\
  exists s', hdecode (fun _ => false) 3 s 1 App = Some s'
    /\ live (hp s') = [0] /\ somes (hct s') ++ lib_blocks (htab s') = []
    /\ ~ HInv s'
    /\ hrelease s' = Some {| live := [0]; nxt := 1 |} /\ lib_blocks (skipn 1 (htab s')) = [].
Proof.
  cbv zeta. split; [apply hinit_inv|]. eexists. split; [vm_compute; reflexivity|].
  split; [reflexivity|]. split; [reflexivity|]. split; [|split; reflexivity].
  intros (_ & _ & _ & _ & (E1 & _) & _). cbn [hp live hct htab somes lib_blocks flat_map app] in E1.
  exact (proj1 (E1 0) (or_introl eq_refl)).
Qed.

(* the theorems are not vacuous: a 2 x 5 staircase-like matrix (repair columns 0 1, source columns 2 3 4), no callback.
   Sources 2 3 and repair 1 submitted: repair 0 and source 4 are decoded; the partial sums are freed on the way, the
   release frees the two stored repair copies (blocks 1 2) and leaves block 3, the decoded source 4 *)
Example session_example :
  let H := [[0; 2; 3]; [0; 1; 3; 4]] in
  exists s, session (fun _ => false) H 2 5 7 [2; 3; 1] None = Some s
    /\ htab s = [Some (Lib 1); Some (Lib 2); Some App; Some App; Some (Lib 3)]
    /\ live (hp s) = [3; 2; 1]
    /\ hrelease s = Some {| live := [3]; nxt := 4 |}.
Proof. cbv zeta. eexists. split; [vm_compute; reflexivity|]. repeat split. Qed.

Print Assumptions hdecode_sim.
Print Assumptions hrun_sim.
Print Assumptions hfinish_sim.
Print Assumptions hdecode_no_stuck.
Print Assumptions hdecode_total.
Print Assumptions hinit_inv.
Print Assumptions hdecode_inv.
Print Assumptions hrun_inv.
Print Assumptions hrun_no_stuck.
Print Assumptions hrun_total.
Print Assumptions hrelease_spec.
Print Assumptions hfinish_inv.
Print Assumptions hfinish_no_stuck.
Print Assumptions ml_finish_pres.
Print Assumptions session_leaves_nothing_behind.
Print Assumptions session_never_stuck.
Print Assumptions hdecode_inv_needs_wf.
