(* Invariants of the "simplification" phase of the maximum-likelihood finish (MLModel.v:
   prepar, simplify, inject) of the LDPC erasure decoder model.

   NOTE on the statements.  The third clause of the specification of `simplify`
       forall c', known s' c' = true -> known s c' = true \/ colempty s' c'
   ("every newly decoded symbol has been injected") does NOT hold unconditionally: a recursive
   call on a newly decoded SOURCE column returns early, leaving the entries of that column in
   place, when is_complete reports that every source symbol is known.  The clause is therefore
   stated under the alternative `iscomp s' \/ ...` (S2, S3).  The section `Counterexample` at the
   end of the file exhibits a concrete instance in which the unconditional clause fails.
   S1 and S4 are as requested. *)
From Coq Require Import List Arith Bool Lia.
From OFV Require Import ITModel ITLemmas ITProofs MLModel.
Import ListNotations.

Section MLS.
Variable Sy : Type. Variable sxor : Sy -> Sy -> Sy. Variable s0 : Sy.
Hypothesis sxor_assoc : forall a b c, sxor a (sxor b c) = sxor (sxor a b) c.
Hypothesis sxor_comm : forall a b, sxor a b = sxor b a.
Hypothesis sxor_0_l : forall a, sxor s0 a = a.
Hypothesis sxor_nilp : forall a, sxor a a = s0.

Variable H0 : list (list nat).
Variable R0 N0 : nat.
Hypothesis H0_len : length H0 = R0.
Hypothesis H0_nodup : forall i, i < R0 -> NoDup (nth i H0 []).
Hypothesis H0_range : forall i c, i < R0 -> In c (nth i H0 []) -> c < N0.
Hypothesis H0_deg : forall i, i < R0 -> 2 <= length (nth i H0 []).
Hypothesis R_le_N : R0 <= N0.

Variable cw : nat -> Sy.
Hypothesis parity : forall i, i < R0 -> xs Sy sxor s0 cw (nth i H0 []) = s0.

Definition val (o : option Sy) : Sy := match o with Some v => v | None => s0 end.
Definition colempty (s : st Sy) (c : nat) : Prop := forall i, i < R0 -> ~ In c (nth i (rws s) []).

Record MLInv (s : st Sy) : Prop := {
  ml_wf : WF Sy R0 N0 s;
  ml_sub : forall i, i < R0 -> NoDup (nth i (rws s) []) /\ incl (nth i (rws s) []) (nth i H0 []);
  ml_unk : forall i, i < R0 -> getn (unk s) i = length (nth i (rws s) []);
  ml_roweq : forall i, i < R0 -> nth i (rws s) [] <> [] -> val (nth i (ct s) None) = xs Sy sxor s0 cw (nth i (rws s) []);
  ml_tab : forall c v, nth c (tab s) None = Some v -> v = cw c;
  ml_keep : forall i c, i < R0 -> In c (nth i H0 []) -> known s c = false -> In c (nth i (rws s) []) }.

(* rows as the streaming decoder leaves them: untouched with no partial sum, or empty *)
Definition MLPre (s : st Sy) : Prop := WF Sy R0 N0 s /\ (forall c v, nth c (tab s) None = Some v -> v = cw c) /\
   forall i, i < R0 -> (nth i (rws s) [] = nth i H0 [] /\ nth i (ct s) None = None) \/ (nth i (rws s) [] = [] /\ forall c, In c (nth i H0 []) -> known s c = true).

Notation st := (st Sy).
Notation WF := (WF Sy R0 N0).
Notation Kmono := (Kmono Sy).
Notation munk := (munk Sy N0).
Notation iscomp := (iscomp Sy R0 N0).
Notation xs := (xs Sy sxor s0 cw).

(* ---------- small facts ---------- *)
Lemma sxor_0_r a : sxor a s0 = a.
Proof. rewrite sxor_comm. apply sxor_0_l. Qed.

Lemma sxor_cancel a b X : a = sxor b X -> sxor a b = X.
Proof. intros ->. rewrite (sxor_comm (sxor b X) b), sxor_assoc, sxor_nilp. apply sxor_0_l. Qed.

Lemma xs_rm c l : NoDup l -> In c l -> xs l = sxor (cw c) (xs (rm c l)).
Proof.
  exact (xs_remove Sy sxor s0 H0 R0 N0 H0_len H0_nodup H0_range H0_deg R_le_N sxor_assoc sxor_comm cw parity c l).
Qed.

Lemma xs_single c : xs [c] = cw c.
Proof. unfold ITProofs.xs. simpl. apply sxor_0_r. Qed.

Lemma nth_map_len (l : list (list nat)) i : nth i (map (@length nat) l) 0 = length (nth i l []).
Proof. revert i; induction l as [|h t IH]; intros [|i]; simpl; auto. Qed.

Lemma rm_In c l x : In x (rm c l) <-> In x l /\ x <> c.
Proof.
  unfold rm. rewrite filter_In. split.
  - intros (A & B). split; auto. intros ->. rewrite Nat.eqb_refl in B. discriminate.
  - intros (A & B). split; auto. apply negb_true_iff. now apply Nat.eqb_neq.
Qed.

Lemma rm_NoDup c l : NoDup l -> NoDup (rm c l).
Proof. apply NoDup_filter. Qed.

Lemma rm_length c l : NoDup l -> In c l -> length (rm c l) = length l - 1.
Proof. apply filter_remove_nodup. Qed.

Lemma length1 (l : list nat) : length l = 1 -> exists x, l = [x].
Proof. destruct l as [|x [|y l]]; simpl; intros H; try discriminate. now exists x. Qed.

Lemma Kmono_refl (s : st) : Kmono s s.
Proof. intros c H; exact H. Qed.

Lemma Kmono_trans (s1 s2 s3 : st) : Kmono s1 s2 -> Kmono s2 s3 -> Kmono s1 s3.
Proof. intros A B c H. apply B, A, H. Qed.

Lemma iscomp_mono (s s' : st) : Kmono s s' -> iscomp s -> iscomp s'.
Proof. intros M C c Hc. apply M, C, Hc. Qed.

Lemma WF_pres (s s' : st) : WF s -> r s' = r s -> n s' = n s ->
  length (rws s') = length (rws s) -> length (unk s') = length (unk s) -> length (enc s') = length (enc s) ->
  length (ct s') = length (ct s) -> length (tab s') = length (tab s) -> fnd s' = fnd s -> Kmono s s' -> WF s'.
Proof.
  intros [Wr Wn Wrws Wunk Wenc Wct Wtab Wfnd Wcur] E1 E2 E3 E4 E5 E6 E7 E8 M.
  constructor; try congruence.
  intros j Hj. apply M. apply Wcur. congruence.
Qed.

(* rows of a state after set_row *)
Lemma rws_set_row_eq (s : st) row rw u t : row < length (rws s) -> nth row (rws (set_row s row rw u t)) [] = rw.
Proof. intros H. unfold set_row; simpl. now apply nth_upd_eq. Qed.

Lemma rws_set_row_neq (s : st) row rw u t i : i <> row -> nth i (rws (set_row s row rw u t)) [] = nth i (rws s) [].
Proof. intros H. unfold set_row; simpl. apply nth_upd_neq. auto. Qed.

(* ---------- S1 ---------- *)
Theorem prepar_inv (s : st) : MLPre s -> MLInv (prepar s) /\ tab (prepar s) = tab s.
Proof.
  intros (W & T & Rows). split; [|reflexivity].
  constructor.
  - assert (Hl : length (map (@length nat) (rws s)) = R0) by (rewrite map_length; apply W).
    apply (WF_pres s); auto; try reflexivity.
    + unfold prepar; simpl. rewrite Hl. symmetry. apply W.
    + unfold prepar; simpl. rewrite Hl. symmetry. apply W.
    + intros c Hc. exact Hc.
  - intros i Hi. unfold prepar; simpl. destruct (Rows i Hi) as [(A & _)|(A & _)]; rewrite A.
    + split; [now apply H0_nodup|apply incl_refl].
    + split; [constructor|intros x []].
  - intros i Hi. unfold prepar, getn; simpl. apply nth_map_len.
  - intros i Hi Hne. unfold prepar; simpl. unfold prepar in Hne; simpl in Hne.
    destruct (Rows i Hi) as [(A & B)|(A & _)]; [|congruence].
    rewrite A, B. simpl. symmetry. now apply parity.
  - exact T.
  - intros i c Hi Hin Hk. unfold prepar; simpl. change (known (prepar s) c) with (known s c) in Hk.
    destruct (Rows i Hi) as [(A & _)|(_ & B)]; [now rewrite A|].
    rewrite (B c Hin) in Hk. discriminate.
Qed.

(* ---------- the invariant under the two elementary updates ---------- *)
Lemma MLInv_set_row (s : st) row rw u t : MLInv s -> row < R0 ->
  NoDup rw -> incl rw (nth row (rws s) []) -> u = length rw -> (rw <> [] -> val t = xs rw) ->
  (forall x, In x (nth row (rws s) []) -> known s x = false -> In x rw) ->
  MLInv (set_row s row rw u t).
Proof.
  intros I Hrow ND Hincl Hu Hval Hkeep.
  destruct I as [W Isub Iunk Ieq Itab Ikeep].
  assert (Lr : length (rws s) = R0) by apply W.
  assert (Lu : length (unk s) = R0) by apply W.
  assert (Lc : length (ct s) = R0) by apply W.
  constructor.
  - apply (WF_pres s); auto; unfold set_row; simpl; try reflexivity; try apply upd_length.
    intros c Hc. exact Hc.
  - intros i Hi. destruct (Nat.eq_dec i row) as [->|Hne].
    + rewrite rws_set_row_eq by lia. split; auto.
      intros x Hx. apply (proj2 (Isub row Hrow)). now apply Hincl.
    + rewrite rws_set_row_neq by auto. now apply Isub.
  - intros i Hi. destruct (Nat.eq_dec i row) as [->|Hne].
    + rewrite rws_set_row_eq by lia. unfold set_row, getn; simpl. rewrite nth_upd_eq by lia. exact Hu.
    + rewrite rws_set_row_neq by auto. unfold set_row, getn; simpl. rewrite nth_upd_neq by auto. now apply Iunk.
  - intros i Hi. destruct (Nat.eq_dec i row) as [->|Hne].
    + rewrite rws_set_row_eq by lia. unfold set_row; simpl. rewrite nth_upd_eq by lia. exact Hval.
    + rewrite rws_set_row_neq by auto. unfold set_row; simpl. rewrite nth_upd_neq by auto. now apply Ieq.
  - exact Itab.
  - intros i c Hi Hin Hk. change (known (set_row s row rw u t) c) with (known s c) in Hk.
    destruct (Nat.eq_dec i row) as [->|Hne].
    + rewrite rws_set_row_eq by lia. apply Hkeep; auto.
    + rewrite rws_set_row_neq by auto. now apply Ikeep.
Qed.

Lemma known_set_tab' (s : st) e v c : e < length (tab s) -> known (set_tab s e v) c = known s c || (c =? e).
Proof. exact (known_set_tab Sy H0 R0 N0 H0_len R_le_N s e v c). Qed.

Lemma tab_set_tab_neq (s : st) e v c : c <> e -> nth c (tab (set_tab s e v)) None = nth c (tab s) None.
Proof. intros H. unfold set_tab; simpl. apply nth_upd_neq. auto. Qed.

Lemma tab_set_tab_eq (s : st) e v : e < length (tab s) -> nth e (tab (set_tab s e v)) None = Some v.
Proof. intros H. unfold set_tab; simpl. now apply nth_upd_eq. Qed.

(* a row reduced to the single unknown entry c' : the symbol is decoded and the row emptied *)
Lemma MLInv_dec (s : st) row c' t : MLInv s -> row < R0 ->
  nth row (rws s) [] = [c'] -> nth row (ct s) None = Some t -> known s c' = false ->
  c' < N0 /\ t = cw c' /\ MLInv (set_tab (set_row s row [] 0 None) c' t).
Proof.
  intros I Hrow Hr Hct Hk.
  assert (Hc' : c' < N0).
  { apply (H0_range row c' Hrow). apply (proj2 (ml_sub s I row Hrow)). rewrite Hr. now left. }
  assert (Ht : t = cw c').
  { pose proof (ml_roweq s I row Hrow) as E. rewrite Hr, Hct in E. simpl in E.
    rewrite E by discriminate. apply xs_single. }
  split; auto. split; auto.
  destruct I as [W Isub Iunk Ieq Itab Ikeep].
  assert (Lr : length (rws s) = R0) by apply W.
  assert (Lu : length (unk s) = R0) by apply W.
  assert (Lc : length (ct s) = R0) by apply W.
  assert (Lt : length (tab s) = N0) by apply W.
  set (s1 := set_row s row [] 0 None).
  assert (Kn : forall c, known (set_tab s1 c' t) c = known s c || (c =? c')).
  { intros c. apply (known_set_tab' s1). unfold s1; simpl. lia. }
  constructor.
  - apply (WF_pres s); auto; unfold s1, set_tab, set_row; simpl; try reflexivity; try apply upd_length.
    intros c Hc. fold s1. rewrite Kn, Hc. reflexivity.
  - intros i Hi. change (rws (set_tab s1 c' t)) with (rws s1). unfold s1.
    destruct (Nat.eq_dec i row) as [->|Hne].
    + rewrite rws_set_row_eq by lia. split; [constructor|intros x []].
    + rewrite rws_set_row_neq by auto. now apply Isub.
  - intros i Hi. change (rws (set_tab s1 c' t)) with (rws s1). change (unk (set_tab s1 c' t)) with (upd (unk s) row 0).
    unfold s1, getn. destruct (Nat.eq_dec i row) as [->|Hne].
    + rewrite rws_set_row_eq by lia. rewrite nth_upd_eq by lia. reflexivity.
    + rewrite rws_set_row_neq by auto. rewrite nth_upd_neq by auto. now apply Iunk.
  - intros i Hi. change (rws (set_tab s1 c' t)) with (rws s1). change (ct (set_tab s1 c' t)) with (upd (ct s) row None).
    unfold s1. destruct (Nat.eq_dec i row) as [->|Hne].
    + rewrite rws_set_row_eq by lia. intros E; now elim E.
    + rewrite rws_set_row_neq by auto. rewrite nth_upd_neq by auto. now apply Ieq.
  - intros c v Hv. destruct (Nat.eq_dec c c') as [->|Hne].
    + rewrite tab_set_tab_eq in Hv by (unfold s1; simpl; lia). congruence.
    + rewrite tab_set_tab_neq in Hv by auto. apply Itab. exact Hv.
  - intros i c Hi Hin Hkc. rewrite Kn in Hkc. apply orb_false_iff in Hkc. destruct Hkc as (Hkc & Hne).
    apply Nat.eqb_neq in Hne.
    change (rws (set_tab s1 c' t)) with (rws s1). unfold s1.
    pose proof (Ikeep i c Hi Hin Hkc) as Hrw.
    destruct (Nat.eq_dec i row) as [->|Hne'].
    + rewrite Hr in Hrw. destruct Hrw as [->|[]]. now elim Hne.
    + rewrite rws_set_row_neq by auto. exact Hrw.
Qed.

(* ---------- the relation between the state before and after a (partial) simplification ---------- *)
Definition Ext (c : nat) (s s' : st) : Prop :=
  MLInv s' /\ Kmono s s'
  /\ (forall c', known s c' = true -> nth c' (tab s') None = nth c' (tab s) None)
  /\ (forall i x, i < R0 -> In x (nth i (rws s') []) -> In x (nth i (rws s) []))
  /\ (forall i x, i < R0 -> In x (nth i (rws s) []) -> known s x = true -> x <> c -> In x (nth i (rws s') [])).

(* newly decoded symbols have been injected, unless decoding completed on the way *)
Definition Fin (s s' : st) : Prop :=
  iscomp s' \/ (forall c', known s' c' = true -> known s c' = true \/ colempty s' c').

Lemma Ext_refl c (s : st) : MLInv s -> Ext c s s.
Proof. intros I. split; [exact I|]. split; [apply Kmono_refl|]. split; [auto|]. split; auto. Qed.

Lemma Ext_trans c1 c2 (s1 s2 s3 : st) : Ext c1 s1 s2 -> Ext c2 s2 s3 -> (c2 = c1 \/ known s1 c2 = false) -> Ext c1 s1 s3.
Proof.
  intros (I2 & M12 & T12 & D12 & E12) (I3 & M23 & T23 & D23 & E23) Hc.
  split; auto. split; [eapply Kmono_trans; eauto|]. split; [|split].
  - intros c' Hk. rewrite T23 by (apply M12; auto). now apply T12.
  - intros i x Hi Hx. apply D12; auto.
  - intros i x Hi Hx Hk Hne. apply E23; auto.
    destruct Hc as [->|Hc]; auto. intros ->. congruence.
Qed.

Lemma Ext_colempty c (s s' : st) c' : Ext c s s' -> colempty s c' -> colempty s' c'.
Proof. intros (_ & _ & _ & D & _) H i Hi Hin. apply (H i Hi). now apply D. Qed.

Lemma Fin_refl (s : st) : Fin s s.
Proof. right. intros c' H. now left. Qed.

Lemma Fin_trans (s1 s2 s3 : st) : Fin s1 s2 -> Kmono s2 s3 ->
  (forall i x, i < R0 -> In x (nth i (rws s3) []) -> In x (nth i (rws s2) [])) -> Fin s2 s3 -> Fin s1 s3.
Proof.
  intros F12 M23 D23 [C|F23]; [now left|].
  destruct F12 as [C|F12].
  - left. now apply (iscomp_mono s2).
  - right. intros c' Hk. destruct (F23 c' Hk) as [Hk2|He]; [|now right].
    destruct (F12 c' Hk2) as [Hk1|He]; [now left|right].
    intros i Hi Hx. apply (He i Hi). now apply D23.
Qed.

Lemma Fin_trans_ext c (s1 s2 s3 : st) : Fin s1 s2 -> Ext c s2 s3 -> Fin s2 s3 -> Fin s1 s3.
Proof. intros F12 (_ & M & _ & D & _) F23. now apply (Fin_trans s1 s2 s3). Qed.

(* ---------- one row of the injection loop ---------- *)
Definition sstep (f : nat) (c : nat) (v : Sy) (os : option st) (row : nat) : option st :=
  match os with None => None | Some s =>
    let t := match nth row (ct s) None with None => v | Some t => sxor t v end in
    let u := getn (unk s) row - 1 in
    let rw := rm c (nth row (rws s) []) in
    let s1 := set_row s row rw u (Some t) in
    if u =? 1 then
      match rw with
      | c' :: _ =>
        match nth c' (tab s1) None with
        | Some _ => Some s1
        | None => simplify sxor f (set_tab (set_row s1 row (rm c' rw) (u - 1) None) c' t) c' t
        end
      | [] => None
      end
    else Some s1
  end.

Lemma simplify_S f (s : st) c v : simplify sxor (S f) s c v =
  match rows_with s c with
  | [] => Some s
  | rowsl => let early := if r s <=? c then is_complete s else (false, s) in
     if fst early then Some (snd early) else fold_left (sstep f c v) rowsl (Some (snd early))
  end.
Proof. reflexivity. Qed.

Section Step.
Variable f : nat.
Hypothesis IH : forall (s : st) c v, MLInv s -> c < N0 -> nth c (tab s) None = Some v -> munk s < f ->
  exists s', simplify sxor f s c v = Some s' /\ Ext c s s' /\ Fin s s' /\ (iscomp s' \/ colempty s' c).

Lemma sstep_spec (s : st) c v row : MLInv s -> nth c (tab s) None = Some v -> munk s <= f -> row < R0 ->
  In c (nth row (rws s) []) ->
  exists s', sstep f c v (Some s) row = Some s' /\ Ext c s s' /\ Fin s s'
    /\ ~ In c (nth row (rws s') [])
    /\ (forall i, i <> row -> i < R0 -> In c (nth i (rws s) []) -> In c (nth i (rws s') [])).
Proof.
  intros I Hv Hm Hrow Hin.
  assert (Hkc : known s c = true) by (unfold known; now rewrite Hv).
  assert (Hvc : v = cw c) by (apply (ml_tab s I c v Hv)).
  set (rowl := nth row (rws s) []) in *.
  destruct (ml_sub s I row Hrow) as (NDr & Incl). fold rowl in NDr, Incl.
  set (t := match nth row (ct s) None with None => v | Some t => sxor t v end).
  assert (Ht : t = xs (rm c rowl)).
  { assert (E : val (nth row (ct s) None) = sxor (cw c) (xs (rm c rowl))).
    { rewrite <- xs_rm by auto. apply (ml_roweq s I row Hrow). fold rowl. intros E. rewrite E in Hin. destruct Hin. }
    unfold t. destruct (nth row (ct s) None) as [t0|]; simpl in E.
    - rewrite Hvc. now apply sxor_cancel.
    - rewrite <- (sxor_0_l v). rewrite Hvc. now apply sxor_cancel. }
  set (u := getn (unk s) row - 1).
  assert (Hu : u = length (rm c rowl)).
  { unfold u. rewrite (ml_unk s I row Hrow). fold rowl. symmetry. now apply rm_length. }
  set (s1 := set_row s row (rm c rowl) u (Some t)).
  assert (I1 : MLInv s1).
  { apply MLInv_set_row; auto.
    - now apply rm_NoDup.
    - intros x Hx. apply rm_In in Hx. apply Hx.
    - intros x Hx Hk. apply rm_In. split; auto. intros ->. congruence. }
  assert (Lr : length (rws s) = R0) by apply I.
  assert (Lc : length (ct s) = R0) by apply I.
  assert (Lt : length (tab s) = N0) by apply I.
  assert (R1 : nth row (rws s1) [] = rm c rowl) by (apply rws_set_row_eq; lia).
  assert (R1' : forall i, i <> row -> nth i (rws s1) [] = nth i (rws s) []) by (intros; now apply rws_set_row_neq).
  assert (E1 : Ext c s s1).
  { split; auto. split; [intros x Hx; exact Hx|]. split; [reflexivity|]. split.
    - intros i x Hi Hx. destruct (Nat.eq_dec i row) as [->|Hne].
      + rewrite R1 in Hx. apply rm_In in Hx. apply Hx.
      + now rewrite R1' in Hx.
    - intros i x Hi Hx Hk Hne. destruct (Nat.eq_dec i row) as [->|Hne'].
      + rewrite R1. apply rm_In. split; auto.
      + now rewrite R1'. }
  assert (F1 : Fin s s1) by (right; intros c' Hk; now left).
  assert (N1 : ~ In c (nth row (rws s1) [])).
  { rewrite R1; intros Hx; apply rm_In in Hx; destruct Hx as (_ & Hx); now apply Hx. }
  assert (P1 : forall i, i <> row -> i < R0 -> In c (nth i (rws s) []) -> In c (nth i (rws s1) [])).
  { intros i Hne _ Hx; now rewrite R1'. }
  change (sstep f c v (Some s) row) with
    (if u =? 1 then
       match rm c rowl with
       | c' :: _ => match nth c' (tab s1) None with
                    | Some _ => Some s1
                    | None => simplify sxor f (set_tab (set_row s1 row (rm c' (rm c rowl)) (u - 1) None) c' t) c' t
                    end
       | [] => None
       end
     else Some s1).
  destruct (u =? 1) eqn:Eu; [|exists s1; auto].
  apply Nat.eqb_eq in Eu.
  destruct (length1 (rm c rowl)) as (c' & Hc'); [lia|].
  rewrite Hc'. cbv beta iota.
  destruct (nth c' (tab s1) None) as [w|] eqn:Etab; [exists s1; auto|].
  assert (Hrm : rm c' [c'] = []) by (unfold rm; simpl; now rewrite Nat.eqb_refl).
  rewrite Hrm. replace (u - 1) with 0 by lia.
  assert (K1 : known s1 c' = false) by (unfold known; now rewrite Etab).
  assert (K0 : known s c' = false) by exact K1.
  assert (Ct1 : nth row (ct s1) None = Some t) by (unfold s1, set_row; simpl; apply nth_upd_eq; lia).
  rewrite Hc' in R1.
  destruct (MLInv_dec s1 row c' t I1 Hrow R1 Ct1 K1) as (Hc'N & Htc & I2).
  set (s2 := set_tab (set_row s1 row [] 0 None) c' t) in *.
  assert (Kn2 : forall x, known s2 x = known s x || (x =? c')).
  { intros x. apply (known_set_tab' (set_row s1 row [] 0 None)). simpl. lia. }
  assert (M12 : Kmono s1 s2) by (intros x Hx; rewrite Kn2; change (known s x) with (known s1 x); now rewrite Hx).
  assert (R2 : nth row (rws s2) [] = []).
  { change (rws s2) with (rws (set_row s1 row [] 0 None)). apply rws_set_row_eq. unfold s1; simpl. rewrite upd_length. lia. }
  assert (R2' : forall i, i <> row -> nth i (rws s2) [] = nth i (rws s) []).
  { intros i Hne. change (rws s2) with (rws (set_row s1 row [] 0 None)). rewrite rws_set_row_neq by auto. now apply R1'. }
  assert (E2 : Ext c' s1 s2).
  { split; auto. split; auto. split; [|split].
    - intros x Hx. assert (Hne : x <> c') by (intros ->; congruence).
      exact (tab_set_tab_neq (set_row s1 row [] 0 None) c' t x Hne).
    - intros i x Hi Hx. destruct (Nat.eq_dec i row) as [->|Hne].
      + rewrite R2 in Hx. destruct Hx.
      + rewrite R2' in Hx by auto. now rewrite R1'.
    - intros i x Hi Hx Hk Hne. destruct (Nat.eq_dec i row) as [->|Hne'].
      + rewrite R1 in Hx. destruct Hx as [->|[]]. now elim Hne.
      + rewrite R2' by auto. now rewrite R1' in Hx. }
  assert (Hm2 : munk s2 < f).
  { assert (munk s2 < munk s1); [|change (munk s1) with (munk s) in *; lia].
    apply (munk_lt Sy H0 R0 N0 H0_len R_le_N s1 s2 c'); auto.
    rewrite Kn2, Nat.eqb_refl. apply orb_true_r. }
  assert (T2 : nth c' (tab s2) None = Some t) by (apply tab_set_tab_eq; simpl; lia).
  destruct (IH s2 c' t I2 Hc'N T2 Hm2) as (s3 & Hs3 & E3 & F3 & G3).
  exists s3. split; [exact Hs3|].
  assert (Hcc' : c <> c') by (intros ->; congruence).
  assert (E12 : Ext c s s2) by (apply (Ext_trans c c' s s1 s2); auto).
  split; [apply (Ext_trans c c' s s2 s3); auto|].
  split; [|split].
  - destruct G3 as [C|G3]; [now left|]. destruct F3 as [C|F3]; [now left|]. right.
    intros x Hk. destruct (F3 x Hk) as [Hk2|He]; [|now right].
    rewrite Kn2 in Hk2. apply orb_true_iff in Hk2. destruct Hk2 as [Hk2|Hk2]; [now left|].
    apply Nat.eqb_eq in Hk2. subst x. now right.
  - intros Hx. destruct E3 as (_ & _ & _ & D3 & _). apply D3 in Hx; auto. rewrite R2 in Hx. destruct Hx.
  - intros i Hne Hi Hx. destruct E3 as (_ & _ & _ & _ & X3). apply X3; [exact Hi|rewrite R2' by auto; exact Hx|rewrite Kn2, Hkc; reflexivity|exact Hcc'].
Qed.

Lemma loop_spec c v : forall l (s : st), NoDup l -> MLInv s -> nth c (tab s) None = Some v -> munk s <= f ->
  (forall i, In i l -> i < R0 /\ In c (nth i (rws s) [])) ->
  exists s', fold_left (sstep f c v) l (Some s) = Some s' /\ Ext c s s' /\ Fin s s'
    /\ (forall i, i < R0 -> In c (nth i (rws s') []) -> In c (nth i (rws s) []) /\ ~ In i l).
Proof.
  induction l as [|row l IHl]; intros s ND I Hv Hm Hl.
  - exists s. split; [reflexivity|]. split; [now apply Ext_refl|]. split; [apply Fin_refl|]. intros i Hi Hx. split; auto.
  - inversion ND as [|? ? Hnot ND']; subst.
    destruct (Hl row (or_introl eq_refl)) as (Hrow & Hin).
    destruct (sstep_spec s c v row I Hv Hm Hrow Hin) as (s1 & Hs1 & E1 & F1 & N1 & P1).
    assert (Hkc : known s c = true) by (unfold known; now rewrite Hv).
    assert (I1 : MLInv s1) by apply E1.
    assert (Hv1 : nth c (tab s1) None = Some v).
    { destruct E1 as (_ & _ & T1 & _). rewrite T1; auto. }
    assert (Hm1 : munk s1 <= f).
    { pose proof (munk_mono Sy H0 R0 N0 H0_len R_le_N s s1 (proj1 (proj2 E1))). lia. }
    destruct (IHl s1 ND' I1 Hv1 Hm1) as (s' & Hs' & E' & F' & P').
    { intros i Hi. destruct (Hl i (or_intror Hi)) as (HiR & Hx). split; auto.
      apply P1; auto. intros ->. now apply Hnot. }
    exists s'. split; [cbn [fold_left]; rewrite Hs1; exact Hs'|].
    split; [apply (Ext_trans c c s s1 s'); auto|].
    split; [apply (Fin_trans_ext c s s1 s'); auto|].
    intros i Hi Hx. destruct (P' i Hi Hx) as (Hx1 & Hnl).
    split.
    + destruct E1 as (_ & _ & _ & D1 & _). now apply D1.
    + intros [->|Hil]; [now apply N1|now apply Hnl].
Qed.
End Step.

(* ---------- S2 ---------- *)
Lemma MLInv_fields_eq (s s1 : st) : MLInv s -> WF s1 -> tab s1 = tab s -> rws s1 = rws s -> unk s1 = unk s ->
  ct s1 = ct s -> MLInv s1.
Proof.
  intros [W Isub Iunk Ieq Itab Ikeep] W1 Et Er Eu Ec.
  constructor; auto; try rewrite Er; try rewrite Eu; try rewrite Ec; try rewrite Et; auto.
  intros i c Hi Hin Hk. rewrite (known_tab_eq Sy s s1 Et) in Hk. now apply Ikeep.
Qed.

Lemma simplify_strong : forall fuel (s : st) c v, MLInv s -> c < N0 -> nth c (tab s) None = Some v -> munk s < fuel ->
  exists s', simplify sxor fuel s c v = Some s' /\ Ext c s s' /\ Fin s s' /\ (iscomp s' \/ colempty s' c).
Proof.
  induction fuel as [|f IHf]; intros s c v I Hc Hv Hm; [lia|].
  rewrite simplify_S.
  assert (W : WF s) by apply I.
  assert (RS : forall i, In i (rows_with s c) <-> i < R0 /\ In c (nth i (rws s) [])).
  { intros i. apply (rows_with_spec Sy H0 R0 N0 H0_len H0_nodup H0_range H0_deg R_le_N). apply W. }
  destruct (rows_with s c) as [|r0 l] eqn:Erw.
  - exists s. split; [reflexivity|]. split; [now apply Ext_refl|]. split; [apply Fin_refl|]. right.
    intros i Hi Hx. apply (RS i). split; auto.
  - rewrite <- Erw in *. clear Erw r0 l.
    set (early := if r s <=? c then is_complete s else (false, s)). cbv zeta.
    assert (He : WF (snd early) /\ tab (snd early) = tab s /\ rws (snd early) = rws s /\ unk (snd early) = unk s
                 /\ ct (snd early) = ct s /\ (fst early = true -> iscomp s)).
    { unfold early. destruct (r s <=? c).
      - pose proof (is_complete_spec Sy H0 R0 N0 H0_len R_le_N s W) as X.
        destruct (is_complete s) as [b sx]. simpl. destruct X as (X1 & X2 & X3 & X4 & _ & X5 & X6).
        split; [exact X1|]. split; [exact X2|]. split; [exact X3|]. split; [exact X4|]. split; [exact X5|apply X6].
      - simpl. split; [exact W|]. split; [reflexivity|]. split; [reflexivity|]. split; [reflexivity|].
        split; [reflexivity|discriminate]. }
    destruct He as (W1 & Et & Er & Eu & Ec & Hcomp).
    set (s1 := snd early) in *.
    assert (I1 : MLInv s1) by (apply (MLInv_fields_eq s); auto).
    assert (K1 : forall x, known s1 x = known s x) by (apply known_tab_eq; auto).
    assert (E1 : Ext c s s1).
    { split; auto. split; [intros x Hx; now rewrite K1|]. split; [intros; now rewrite Et|]. rewrite Er. split; auto. }
    assert (F1 : Fin s s1) by (right; intros x Hx; left; now rewrite <- K1).
    destruct (fst early) eqn:Ef.
    + exists s1. split; [reflexivity|]. split; auto.
      assert (C1 : iscomp s1) by (apply (iscomp_tab_eq Sy R0 N0 s s1); auto).
      split; left; auto.
    + destruct (loop_spec f IHf c v (rows_with s c) s1) as (s' & Hs' & E' & F' & P').
      * apply rows_with_nodup.
      * exact I1.
      * now rewrite Et.
      * pose proof (munk_mono Sy H0 R0 N0 H0_len R_le_N s s1 (proj1 (proj2 E1))). lia.
      * intros i Hi. rewrite Er. now apply RS.
      * exists s'. split; [exact Hs'|]. split; [apply (Ext_trans c c s s1 s'); auto|].
        split; [apply (Fin_trans_ext c s s1 s'); auto|]. right.
        intros i Hi Hx. destruct (P' i Hi Hx) as (Hx1 & Hn). apply Hn. apply RS. split; auto. now rewrite <- Er.
Qed.

(* S2.  The clause "every newly decoded symbol has been injected" holds unless decoding got complete
   (see the note at the top of the file and the counterexample at its end). *)
Theorem simplify_spec : forall fuel (s : st) c v, MLInv s -> c < N0 -> nth c (tab s) None = Some v -> munk s < fuel ->
  exists s', simplify sxor fuel s c v = Some s' /\ MLInv s' /\ Kmono s s'
    /\ (forall c', known s c' = true -> nth c' (tab s') None = nth c' (tab s) None)
    /\ (forall c', colempty s c' -> colempty s' c')
    /\ (iscomp s' \/ forall c', known s' c' = true -> known s c' = true \/ colempty s' c')
    /\ (iscomp s' \/ colempty s' c).
Proof.
  intros fuel s c v I Hc Hv Hm.
  destruct (simplify_strong fuel s c v I Hc Hv Hm) as (s' & Hs' & E & F & G).
  exists s'. split; [exact Hs'|].
  pose proof (fun c' => Ext_colempty c s s' c' E) as Hce.
  destruct E as (I' & M & T & _ & _).
  split; [exact I'|]. split; [exact M|]. split; [exact T|]. split; [exact Hce|]. split; [exact F|exact G].
Qed.

(* ---------- S3 ---------- *)
Definition Ext0 (s s' : st) : Prop :=
  MLInv s' /\ Kmono s s'
  /\ (forall c', known s c' = true -> nth c' (tab s') None = nth c' (tab s) None)
  /\ (forall i x, i < R0 -> In x (nth i (rws s') []) -> In x (nth i (rws s) [])).

Lemma Ext_Ext0 c (s s' : st) : Ext c s s' -> Ext0 s s'.
Proof. intros (A & B & C & D & _). split; [exact A|]. split; [exact B|]. split; [exact C|exact D]. Qed.

Lemma Ext0_trans (s1 s2 s3 : st) : Ext0 s1 s2 -> Ext0 s2 s3 -> Ext0 s1 s3.
Proof.
  intros (I2 & M12 & T12 & D12) (I3 & M23 & T23 & D23).
  split; auto. split; [eapply Kmono_trans; eauto|]. split.
  - intros c' Hk. rewrite T23 by (apply M12; auto). now apply T12.
  - intros i x Hi Hx. apply D12; auto.
Qed.

Lemma inject_all_strong fuel : forall cs (s : st), MLInv s -> (forall c, In c cs -> c < N0) -> N0 < fuel ->
  exists s', fold_left (inject sxor fuel) cs (Some s) = Some s' /\ Ext0 s s' /\ Fin s s'
    /\ (iscomp s' \/ forall c, In c cs -> known s' c = true -> colempty s' c).
Proof.
  induction cs as [|c cs IHcs]; intros s I Hcs Hf.
  - exists s. split; [reflexivity|]. split; [apply (Ext_Ext0 0); now apply Ext_refl|]. split; [apply Fin_refl|].
    right. intros c [].
  - cbn [fold_left]. unfold inject at 2.
    assert (HcN : c < N0) by (apply Hcs; now left).
    assert (Hcs' : forall x, In x cs -> x < N0) by (intros x Hx; apply Hcs; now right).
    destruct (nth c (tab s) None) as [v|] eqn:Ev.
    + assert (Hm : munk s < fuel).
      { pose proof (munk_le_N0 Sy H0 R0 N0 H0_len R_le_N s). lia. }
      destruct (simplify_strong fuel s c v I HcN Ev Hm) as (s1 & Hs1 & E1 & F1 & G1).
      rewrite Hs1.
      destruct (IHcs s1 (proj1 E1) Hcs' Hf) as (s' & Hs' & E' & F' & G').
      exists s'. split; [exact Hs'|].
      split; [apply (Ext0_trans s s1 s'); auto; now apply (Ext_Ext0 c)|].
      destruct E' as (I' & M' & T' & D').
      split; [apply (Fin_trans s s1 s'); auto|].
      destruct G1 as [C1|G1]; [left; now apply (iscomp_mono s1)|].
      destruct G' as [C'|G']; [now left|]. right.
      intros x [->|Hx] Hk; [|now apply G'].
      intros i Hi Hin. apply (G1 i Hi). now apply D'.
    + destruct (IHcs s I Hcs' Hf) as (s' & Hs' & E' & F' & G').
      exists s'. split; [exact Hs'|]. split; auto. split; auto.
      destruct G' as [C'|G']; [now left|]. destruct F' as [C'|F']; [now left|]. right.
      intros x [->|Hx] Hk; [|now apply G'].
      destruct (F' x Hk) as [Hk0|He]; auto. unfold known in Hk0. rewrite Ev in Hk0. discriminate.
Qed.

Theorem inject_all_spec : forall cs fuel (s : st), MLInv s -> (forall c, In c cs -> c < N0) -> N0 < fuel ->
  exists s', fold_left (inject sxor fuel) cs (Some s) = Some s' /\ MLInv s' /\ Kmono s s'
    /\ (forall c', known s c' = true -> nth c' (tab s') None = nth c' (tab s) None)
    /\ (forall c', colempty s c' -> colempty s' c')
    /\ (iscomp s' \/ forall c', known s' c' = true -> known s c' = true \/ colempty s' c')
    /\ (iscomp s' \/ forall c, In c cs -> known s' c = true -> colempty s' c).
Proof.
  intros cs fuel s I Hcs Hf.
  destruct (inject_all_strong fuel cs s I Hcs Hf) as (s' & Hs' & (I' & M & T & D) & F & G).
  exists s'. split; [exact Hs'|]. split; [exact I'|]. split; [exact M|]. split; [exact T|].
  split; [|split; [exact F|exact G]].
  intros c' He i Hi Hx. apply (He i Hi). now apply D.
Qed.

(* ---------- S4 ---------- *)
(* after the injection of every column: decoding is complete, or the rows that are left contain exactly the
   unknown columns of the original rows *)
Theorem reduced cs fuel (s s' : st) : MLInv s -> (forall c, In c cs -> c < N0) -> (forall c, c < N0 -> In c cs) ->
  N0 < fuel -> fold_left (inject sxor fuel) cs (Some s) = Some s' ->
  MLInv s' /\
  (iscomp s' \/
   ((forall i c, i < R0 -> In c (nth i (rws s') []) -> known s' c = false) /\
    (forall i c, i < R0 -> (In c (nth i (rws s') []) <-> In c (nth i H0 []) /\ known s' c = false)))).
Proof.
  intros I Hcs Hall Hf Hs'.
  destruct (inject_all_spec cs fuel s I Hcs Hf) as (s'' & Hs'' & I' & _ & _ & _ & _ & G).
  rewrite Hs' in Hs''. injection Hs'' as <-.
  split; [exact I'|].
  destruct G as [C|G]; [now left|]. right.
  assert (U : forall i c, i < R0 -> In c (nth i (rws s') []) -> known s' c = false).
  { intros i c Hi Hin. destruct (known s' c) eqn:Hk; auto. exfalso.
    assert (HcN : c < N0) by (apply (H0_range i c Hi); now apply (proj2 (ml_sub s' I' i Hi))).
    apply (G c (Hall c HcN) Hk i Hi Hin). }
  split; [exact U|].
  intros i c Hi. split.
  - intros Hin. split; [now apply (proj2 (ml_sub s' I' i Hi))|now apply (U i)].
  - intros (Hin & Hk). now apply (ml_keep s' I').
Qed.

End MLS.

(* ---------- the clause "every newly decoded symbol has been injected" fails when decoding completes ----------
   Two rows {0,2} and {1,2}; columns 0,1 are repair columns, column 2 is the only source column.  Column 0 is
   known.  Injecting it decodes column 2 from row 0; the recursive call on column 2 finds every source symbol
   known and returns at once, leaving column 2 in row 1. *)
Section Counterexample.
Definition cxH : list (list nat) := [[0;2];[1;2]].
Definition cxs : st bool := mk 2 3 cxH [2;2] [2;2] [None;None] [Some false; None; None] 0.
Definition cxcw : nat -> bool := fun _ => false.

Lemma cx_inv : MLInv bool xorb false cxH 2 3 cxcw cxs.
Proof.
  constructor.
  - constructor; simpl; try reflexivity; try lia.
  - intros i Hi. destruct i as [|[|i]]; [| |lia]; simpl.
    + split; [|apply incl_refl]. constructor; [simpl; intros [H|[]]; discriminate|]. constructor; [intros []|constructor].
    + split; [|apply incl_refl]. constructor; [simpl; intros [H|[]]; discriminate|]. constructor; [intros []|constructor].
  - intros i Hi. destruct i as [|[|i]]; [reflexivity|reflexivity|lia].
  - intros i Hi _. destruct i as [|[|i]]; [reflexivity|reflexivity|lia].
  - intros c v. destruct c as [|[|[|c]]]; simpl; try discriminate.
    + intros H; injection H as <-. reflexivity.
    + destruct c; discriminate.
  - intros i c Hi Hin _. destruct i as [|[|i]]; [exact Hin|exact Hin|lia].
Qed.

Theorem simplify_clause3_counterexample :
  MLInv bool xorb false cxH 2 3 cxcw cxs /\ 0 < 3 /\ nth 0 (tab cxs) None = Some false /\ munk bool 3 cxs < 5 /\
  exists s', simplify xorb 5 cxs 0 false = Some s' /\ iscomp bool 2 3 s' /\
    known s' 2 = true /\ known cxs 2 = false /\ ~ colempty bool 2 s' 2.
Proof.
  split; [exact cx_inv|]. split; [lia|]. split; [reflexivity|]. split; [vm_compute; lia|].
  eexists. split; [vm_compute; reflexivity|].
  split; [|split; [reflexivity|split; [reflexivity|]]].
  - intros c Hc. assert (c = 2) as -> by lia. reflexivity.
  - intros H. apply (H 1); [lia|]. simpl. right. now left.
Qed.
End Counterexample.

Print Assumptions prepar_inv.
Print Assumptions simplify_spec.
Print Assumptions inject_all_spec.
Print Assumptions reduced.
Print Assumptions simplify_clause3_counterexample.
