(* C13 — symbol kernels are exact for every length, operand count (and, in the byte-list model,
   independently of alignment).  upd_range f 0 size l applies f to bytes 0..size-1 of l and leaves
   every other byte alone, so each statement says: the first `size` bytes become the bytewise
   definition and nothing else changes.  No bound on size or on the number of operands. *)
From Coq Require Import NArith ZArith List.
From OFV Require Import GF2Poly Kernels KernelProofs KernelGF RS28GenProofs WordBytes.
From OFV.gen Require Import GenTables.
Local Open Scope N_scope.

Theorem xor_one_into_one : forall dst from size,
  add_to_symbol dst from size = upd_range (fun i x => N.lxor x (nth i from 0)) 0 size dst.
Proof. exact add_to_symbol_spec. Qed.

Theorem xor_many_into_one : forall dst from size,
  add_from_multiple dst from size = upd_range (fx from) 0 size dst.
Proof. exact add_from_multiple_spec. Qed.

Theorem xor_one_into_many : forall tos from size,
  add_to_multiple tos from size = map (upd_range (fun i x => N.lxor x (nth i from 0)) 0 size) tos.
Proof. exact add_to_multiple_spec. Qed.

(* nothing at or beyond `size` is read: the result does not depend on those operand bytes *)
Theorem xor_reads_only_size : forall dst from from' size,
  (forall i, (i < size)%nat -> map (fun s => nth i s 0) from = map (fun s => nth i s 0) from') ->
  add_from_multiple dst from size = add_from_multiple dst from' size.
Proof. exact add_from_multiple_reads_only_size. Qed.

(* nothing at or beyond `size` is written *)
Theorem frame_beyond_size : forall f size l j, (size <= j)%nat -> nth j (upd_range f 0 size l) 0 = nth j l 0.
Proof. exact upd_range_frame_beyond. Qed.

(* multiply-accumulate by a constant: any table row *)
Theorem addmul_any_row : forall mulc dst src sz, (0 <= sz)%Z ->
  addmul1 mulc dst src sz = upd_range (fun i x => N.lxor x (mulc (nth i src 0))) 0 (Z.to_nat sz) dst.
Proof. exact addmul1_spec. Qed.

(* ... with the rows of /repo's tables: GF(2^8), both codecs *)
Theorem addmul_gf256_precomputed : forall c dst src sz, (0 <= sz)%Z -> c < 256 -> Forall (fun b => b < 256) src ->
  addmul1 (get2 gf28_mul c) dst src sz = upd_range (fun i x => N.lxor x (mul256 c (nth i src 0))) 0 (Z.to_nat sz) dst.
Proof. exact addmul1_gf256_2m. Qed.
Theorem addmul_gf256_generated : forall c dst src sz, (0 <= sz)%Z -> c < 256 -> Forall (fun b => b < 256) src ->
  addmul1 (get2 rs28_mulm c) dst src sz = upd_range (fun i x => N.lxor x (mul256 c (nth i src 0))) 0 (Z.to_nat sz) dst.
Proof. exact addmul1_gf256_rs28. Qed.
Theorem addmul_gf16_bytes : forall c dst src sz, (0 <= sz)%Z -> c < 16 -> Forall (fun b => b < 16) src ->
  addmul1 (get2 gf24_mul c) dst src sz = upd_range (fun i x => N.lxor x (mul16 c (nth i src 0))) 0 (Z.to_nat sz) dst.
Proof. exact addmul1_gf16_bytes. Qed.

(* packed two-per-byte GF(2^4): main loop through the packed table, tail through the nibble formula *)
Theorem addmul_gf16_compact : forall c dst src sz, (0 <= sz)%Z -> c < 16 ->
  Forall (fun b => b < 256) dst -> Forall (fun b => b < 256) src ->
  addmul1_compact (get2 gf24_optmul c) dst src sz =
  upd_range (fun i x => N.lxor x (pack16 c (nth i src 0))) 0 (Z.to_nat sz) dst.
Proof. exact addmul1_compact_gf16. Qed.

(* ---- the word accesses (WordBytes.v) ----
   Kernels.v applies the operation of a 64-/32-bit access to the bytes the access covers.  That this is what a
   little-endian machine does is proved here instead of assumed: `le` is the value of a word whose bytes are given,
   `bytes_of w` the w bytes a store writes, `pack_from 0` the C expression b0 | b1<<8 | ... | b7<<56 of the
   multiply-accumulate loops.  The word-level kernels (every 8-/4-byte access = load, word operation, store; byte tails
   unchanged) return exactly what the byte-level model returns, for every size and operand count. *)
Theorem word_store_load_roundtrip : forall bs, Forall (fun b => b < 256) bs -> bytes_of (length bs) (le bs) = bs.
Proof. exact bytes_of_le. Qed.
Theorem word_xor_is_bytewise_xor : forall a b, length a = length b -> Forall (fun x => x < 256) a -> Forall (fun x => x < 256) b ->
  N.lxor (le a) (le b) = le (map (fun p => N.lxor (fst p) (snd p)) (combine a b)).
Proof. exact le_lxor. Qed.
Theorem shift_or_packing_is_the_little_endian_word : forall l, Forall (fun b => b < 256) l -> pack_from 0 l = le l.
Proof. exact pack_is_le. Qed.
Theorem word_level_xor_one_into_one : forall dst from size, (size <= length dst)%nat -> (size <= length from)%nat -> bytes dst -> bytes from ->
  wadd_to_symbol dst from size = add_to_symbol dst from size.
Proof. exact wadd_to_symbol_eq. Qed.
Theorem word_level_xor_many_into_one : forall dst from size, (size <= length dst)%nat -> bytes dst -> group_ok size from ->
  wadd_from_multiple dst from size = add_from_multiple dst from size.
Proof. exact wadd_from_multiple_eq. Qed.
Theorem word_level_xor_one_into_many : forall tos from size, (size <= length from)%nat -> bytes from -> group_ok size tos ->
  wadd_to_multiple tos from size = add_to_multiple tos from size.
Proof. exact wadd_to_multiple_eq. Qed.
Theorem word_level_addmul : forall mulc dst src sz, (forall x, mulc x < 256) -> (sz <= Z.of_nat (length src))%Z -> (sz <= Z.of_nat (length dst))%Z -> bytes dst ->
  waddmul1 mulc dst src sz = addmul1 mulc dst src sz.
Proof. exact waddmul1_eq. Qed.
Theorem word_level_addmul_compact : forall optrow dst src sz, (forall x, optrow x < 256) -> (sz <= Z.of_nat (length src))%Z -> (sz <= Z.of_nat (length dst))%Z -> bytes dst ->
  waddmul1_compact optrow dst src sz = addmul1_compact optrow dst src sz.
Proof. exact waddmul1_compact_eq. Qed.

Print Assumptions xor_many_into_one.
Print Assumptions word_level_xor_many_into_one.
Print Assumptions word_level_xor_one_into_many.
Print Assumptions word_level_addmul.
Print Assumptions word_level_addmul_compact.
Print Assumptions xor_one_into_many.
Print Assumptions addmul_gf256_generated.
Print Assumptions addmul_gf16_compact.
