(* Completeness of the dense GF(2) solver model (DenseSolve.v): `solve` answers None exactly when the
   matrix does not have full column rank, and that decision never looks at the right-hand sides.
     T1 solve_none_kernel                 None  -> a non-trivial kernel vector exists
     T2 solve_some_no_kernel              Some  -> the kernel is trivial on the q unknowns
     T3 solve_control_independent_of_rhs  same matrix -> same None/Some outcome
   The structural facts are obtained from DenseSolveProofs.v instantiated at Sy := bool, sxor := xorb,
   s0 := false with an all-null right-hand side; the generic symbol type is reached through the
   observation that the matrix component of every step is a function of the matrix component only. *)
From Coq Require Import Arith List Bool Lia.
From OFV Require Import ListAux XorGroup DenseSolve DenseSolveProofs.
Import ListNotations.

Definition bdot (q : nat) (row : list bool) (z : nat -> bool) : bool :=
  fold_right xorb false (map (fun c => bit row c && z c) (seq 0 q)).
Definition kernel (p q : nat) (A : list (list bool)) (z : nat -> bool) : Prop :=
  forall r, r < p -> bdot q (getrow A r) z = false.
Definition nontrivial (q : nat) (z : nat -> bool) : Prop := exists c, c < q /\ z c = true.

(* ------------------------------------------------------------------------------------------ *)
(* 1. The matrix component of every solver step depends on the matrix component only.          *)
(* ------------------------------------------------------------------------------------------ *)
Section Indep.
Variable Sy1 : Type. Variable sxor1 : Sy1 -> Sy1 -> Sy1. Variable s01 : Sy1.
Variable Sy2 : Type. Variable sxor2 : Sy2 -> Sy2 -> Sy2. Variable s02 : Sy2.

Definition orel (o1 : option (sys Sy1)) (o2 : option (sys Sy2)) : Prop :=
  match o1, o2 with
  | Some a, Some b => sA a = sA b
  | None, None => True
  | _, _ => False
  end.

Lemma elim_row_sA i (y1 : sys Sy1) (y2 : sys Sy2) j : sA y1 = sA y2 ->
  sA (elim_row Sy1 sxor1 s01 i y1 j) = sA (elim_row Sy2 sxor2 s02 i y2 j).
Proof.
  intros E. unfold elim_row. rewrite E.
  destruct (bit (getrow (sA y2) j) i); [|exact E].
  destruct (nth i (sb y1) None); destruct (nth i (sb y2) None); reflexivity.
Qed.

Lemma elim_fold_sA i : forall js (y1 : sys Sy1) (y2 : sys Sy2), sA y1 = sA y2 ->
  sA (fold_left (elim_row Sy1 sxor1 s01 i) js y1) = sA (fold_left (elim_row Sy2 sxor2 s02 i) js y2).
Proof.
  induction js as [|j js IH]; intros y1 y2 E; simpl; [exact E|].
  apply IH. apply elim_row_sA. exact E.
Qed.

Lemma col_forward_sA p (y1 : sys Sy1) (y2 : sys Sy2) i : sA y1 = sA y2 ->
  orel (col_forward Sy1 sxor1 s01 p y1 i) (col_forward Sy2 sxor2 s02 p y2 i).
Proof.
  intros E. unfold col_forward. rewrite E.
  destruct (find_pivot (sA y2) i i (p - i)) as [j|]; simpl; [|exact I].
  apply elim_fold_sA. destruct (j =? i); simpl; [exact E|reflexivity].
Qed.

Lemma triangularize_sA p : forall cols (y1 : sys Sy1) (y2 : sys Sy2), sA y1 = sA y2 ->
  orel (triangularize Sy1 sxor1 s01 p cols y1) (triangularize Sy2 sxor2 s02 p cols y2).
Proof.
  induction cols as [|i cols IH]; intros y1 y2 E; simpl; [exact E|].
  pose proof (col_forward_sA p y1 y2 i E) as H.
  destruct (col_forward Sy1 sxor1 s01 p y1 i) as [a|];
    destruct (col_forward Sy2 sxor2 s02 p y2 i) as [b|]; simpl in H; try contradiction.
  - apply IH. exact H.
  - exact I.
Qed.

Lemma solve_none_iff_gen p q (y1 : sys Sy1) (y2 : sys Sy2) : sA y1 = sA y2 ->
  (solve Sy1 sxor1 s01 p q y1 = None <-> solve Sy2 sxor2 s02 p q y2 = None).
Proof.
  intros E. unfold solve. pose proof (triangularize_sA p (seq 0 q) y1 y2 E) as H.
  destruct (triangularize Sy1 sxor1 s01 p (seq 0 q) y1) as [a|];
    destruct (triangularize Sy2 sxor2 s02 p (seq 0 q) y2) as [b|]; simpl in H; try contradiction.
  - split; intros H0; discriminate H0.
  - split; intros _; reflexivity.
Qed.
End Indep.

(* ------------------------------------------------------------------------------------------ *)
(* 2. bdot algebra.                                                                             *)
(* ------------------------------------------------------------------------------------------ *)
Lemma bdot_ext q row row' z z' :
  (forall c, c < q -> bit row c && z c = bit row' c && z' c) -> bdot q row z = bdot q row' z'.
Proof.
  intros H. unfold bdot. f_equal. apply map_ext_in. intros c Hc. apply in_seq in Hc. apply H. lia.
Qed.

Lemma fold_xorb_zero (f : nat -> bool) : forall l, (forall c, In c l -> f c = false) ->
  fold_right xorb false (map f l) = false.
Proof.
  induction l as [|c l IH]; intros H; simpl; [reflexivity|].
  rewrite (H c) by (now left). rewrite IH; [reflexivity|]. intros c' Hc'. apply H. now right.
Qed.

Lemma bdot_zero q row z : (forall c, c < q -> bit row c && z c = false) -> bdot q row z = false.
Proof.
  intros H. unfold bdot. apply fold_xorb_zero. intros c Hc. apply in_seq in Hc. apply H. lia.
Qed.

Definition flip (z : nat -> bool) (i : nat) : nat -> bool := fun k => if k =? i then negb (z k) else z k.

Lemma bdot_flip_aux row z i : forall n a,
  fold_right xorb false (map (fun c => bit row c && flip z i c) (seq a n)) =
  xorb (fold_right xorb false (map (fun c => bit row c && z c) (seq a n)))
       (if (a <=? i) && (i <? a + n) then bit row i else false).
Proof.
  induction n as [|n IH]; intros a.
  - simpl. destruct (Nat.leb_spec a i), (Nat.ltb_spec i (a + 0)); simpl; try reflexivity; lia.
  - simpl seq. simpl map. simpl fold_right. rewrite IH. unfold flip at 1.
    destruct (Nat.eqb_spec a i) as [Hai|Hne];
      destruct (Nat.leb_spec a i), (Nat.leb_spec (S a) i), (Nat.ltb_spec i (a + S n)), (Nat.ltb_spec i (S a + n));
      try lia; simpl andb; try subst a;
      destruct (bit row i), (z i), (fold_right xorb false _); try reflexivity;
      destruct (bit row a), (z a); reflexivity.
Qed.

Lemma bdot_flip q row z i : i < q -> bdot q row (flip z i) = xorb (bdot q row z) (bit row i).
Proof.
  intros Hi. unfold bdot. rewrite bdot_flip_aux. simpl.
  replace (i <? q) with true by (symmetry; apply Nat.ltb_lt; exact Hi). reflexivity.
Qed.

(* ------------------------------------------------------------------------------------------ *)
(* 3. The homogeneous bool system.                                                              *)
(* ------------------------------------------------------------------------------------------ *)
Definition zl (q : nat) (z : nat -> bool) : list bool := map z (seq 0 q).
Definition hsys (p : nat) (A : list (list bool)) : sys bool := {| sA := A; sb := repeat None p |}.

Lemma nth_zl q z c : c < q -> nth c (zl q z) false = z c.
Proof.
  intros Hc. unfold zl. rewrite (nth_indep _ false (z 0)) by (rewrite map_length, seq_length; exact Hc).
  rewrite map_nth. rewrite seq_nth by exact Hc. reflexivity.
Qed.

Lemma dot_bdot q row z : dot bool xorb false q row (zl q z) = bdot q row z.
Proof.
  unfold dot, xsum, bdot. f_equal. apply map_ext_in. intros c Hc. apply in_seq in Hc.
  rewrite nth_zl by lia. destruct (bit row c); reflexivity.
Qed.

Lemma bx_assoc : forall a b c, xorb a (xorb b c) = xorb (xorb a b) c.
Proof. intros [] [] []; reflexivity. Qed.
Lemma bx_comm : forall a b, xorb a b = xorb b a.
Proof. intros [] []; reflexivity. Qed.
Lemma bx_0_l : forall a, xorb false a = a.
Proof. intros []; reflexivity. Qed.
Lemma bx_nilp : forall a, xorb a a = false.
Proof. intros []; reflexivity. Qed.

Section B.
Variable p q : nat.
Notation solb := (sol bool xorb false p q).
Notation WFb := (WFs bool p q).
Notation vbb := (vb bool false).

Definition homog (y : sys bool) : Prop := forall r, r < p -> vbb y r = false.

Lemma sol_kernel (y : sys bool) z : homog y -> (solb y (zl q z) <-> kernel p q (sA y) z).
Proof.
  intros Hh. unfold sol, kernel. split; intros H r Hr.
  - rewrite <- dot_bdot. rewrite H by exact Hr. apply Hh. exact Hr.
  - rewrite dot_bdot. rewrite H by exact Hr. symmetry. apply Hh. exact Hr.
Qed.

Lemma kernel_zero A : kernel p q A (fun _ => false).
Proof. intros r Hr. apply bdot_zero. intros c Hc. apply andb_false_r. Qed.

(* a system whose solution set is that of a homogeneous system is homogeneous *)
Lemma homog_transport (y y' : sys bool) : homog y -> (forall x, solb y' x <-> solb y x) -> homog y'.
Proof.
  intros Hh Hs r Hr.
  assert (H0 : solb y' (zl q (fun _ => false))).
  { apply Hs. apply sol_kernel; [exact Hh|apply kernel_zero]. }
  specialize (H0 r Hr). rewrite dot_bdot in H0. unfold vb. rewrite <- H0.
  apply bdot_zero. intros c Hc. apply andb_false_r.
Qed.

Lemma find_pivot_none A i : forall cnt j, find_pivot A i j cnt = None ->
  forall r, j <= r < j + cnt -> bit (getrow A r) i = false.
Proof.
  induction cnt as [|c IH]; intros j H r Hr; [lia|]. simpl in H.
  destruct (bit (getrow A j) i) eqn:E; [discriminate|].
  destruct (Nat.eq_dec r j) as [->|Hne]; [exact E|]. apply (IH (S j) H). lia.
Qed.

Lemma diag_le (y : sys bool) i : WFb y -> Diag bool y i -> i <= p.
Proof.
  intros W HD. destruct (le_lt_dec i p) as [H|H]; [exact H|exfalso].
  specialize (HD p H). unfold getrow in HD. rewrite nth_overflow in HD by (rewrite (w_rows _ _ _ _ W); lia).
  unfold bit in HD. destruct p; discriminate HD.
Qed.

(* back-substitution in the unit upper triangular block: any assignment of the unknowns >= i
   extends to one that satisfies the first i equations *)
Lemma triangular_extend (y : sys bool) : forall i, i <= q -> i <= p ->
  Lower bool p y i -> Diag bool y i ->
  forall z0, exists z, (forall k, i <= k -> z k = z0 k) /\ (forall r, r < i -> bdot q (getrow (sA y) r) z = false).
Proof.
  induction i as [|i IH]; intros Hq Hp HL HD z0.
  - exists z0. split; [reflexivity|intros r Hr; lia].
  - set (row := getrow (sA y) i).
    set (z1 := if bdot q row z0 then flip z0 i else z0).
    assert (Hz1 : forall k, S i <= k -> z1 k = z0 k).
    { intros k Hk. unfold z1. destruct (bdot q row z0); [|reflexivity]. unfold flip.
      destruct (Nat.eqb_spec k i); [lia|reflexivity]. }
    assert (Hrow1 : bdot q row z1 = false).
    { unfold z1. destruct (bdot q row z0) eqn:E; [|exact E].
      rewrite bdot_flip by lia. rewrite E. unfold row. rewrite (HD i) by lia. reflexivity. }
    destruct (IH ltac:(lia) ltac:(lia)
                 (fun r c Hc Hcr Hr => HL r c ltac:(lia) Hcr Hr) (fun c Hc => HD c ltac:(lia)) z1) as (z & Hz & Hk).
    exists z. split.
    + intros k Hk'. rewrite Hz by lia. apply Hz1. exact Hk'.
    + intros r Hr. destruct (Nat.eq_dec r i) as [->|Hne]; [|apply Hk; lia].
      fold row. rewrite <- Hrow1. apply bdot_ext. intros c Hc.
      destruct (le_lt_dec i c) as [Hic|Hci]; [now rewrite Hz by exact Hic|].
      unfold row. rewrite (HL i c) by lia. reflexivity.
Qed.

Lemma pivot_fail_kernel (y : sys bool) i : WFb y -> Lower bool p y i -> Diag bool y i -> i < q ->
  find_pivot (sA y) i i (p - i) = None -> exists z, nontrivial q z /\ kernel p q (sA y) z.
Proof.
  intros W HL HD Hiq Hf. pose proof (diag_le y i W HD) as Hip.
  destruct (triangular_extend y i ltac:(lia) Hip HL HD (fun k => k =? i)) as (z & Hz & Hk).
  exists z. split.
  - exists i. split; [exact Hiq|]. rewrite Hz by lia. apply Nat.eqb_refl.
  - intros r Hr. destruct (le_lt_dec i r) as [Hir|Hri]; [|apply Hk; exact Hri].
    apply bdot_zero. intros c Hc.
    destruct (lt_eq_lt_dec c i) as [[Hci| ->]|Hic].
    + rewrite (HL r c) by lia. reflexivity.
    + rewrite (find_pivot_none (sA y) i (p - i) i Hf r) by lia. reflexivity.
    + rewrite Hz by lia. destruct (Nat.eqb_spec c i); [lia|]. apply andb_false_r.
Qed.

Lemma triangularize_none_kernel : forall cnt i (y : sys bool),
  WFb y -> Lower bool p y i -> Diag bool y i -> homog y -> i + cnt <= q ->
  triangularize bool xorb false p (seq i cnt) y = None ->
  exists z, nontrivial q z /\ kernel p q (sA y) z.
Proof.
  induction cnt as [|cnt IH]; intros i y W HL HD Hh Hq Ht; simpl in Ht; [discriminate|].
  destruct (col_forward bool xorb false p y i) as [y1|] eqn:Ecf.
  - destruct (col_forward_spec bool xorb false bx_assoc bx_comm bx_0_l bx_nilp p q y y1 i W HL HD ltac:(lia) Ecf)
      as (W1 & HL1 & HD1 & Hs1).
    pose proof (homog_transport y y1 Hh Hs1) as Hh1.
    destruct (IH (S i) y1 W1 HL1 HD1 Hh1 ltac:(lia) Ht) as (z & Hnz & Hk).
    exists z. split; [exact Hnz|].
    apply (sol_kernel y z Hh). apply Hs1. apply (sol_kernel y1 z Hh1). exact Hk.
  - unfold col_forward in Ecf.
    destruct (find_pivot (sA y) i i (p - i)) as [j|] eqn:Ef; [discriminate|].
    apply (pivot_fail_kernel y i W HL HD ltac:(lia) Ef).
Qed.

Lemma hsys_WF A : length A = p -> (forall r, r < p -> length (getrow A r) = q) -> WFb (hsys p A).
Proof. intros H1 H2. constructor; simpl; [exact H1|apply repeat_length|exact H2]. Qed.

Lemma hsys_homog A : homog (hsys p A).
Proof. intros r Hr. unfold vb, hsys. simpl. rewrite nth_repeat. reflexivity. Qed.

Lemma hsolve_none_kernel A : WFb (hsys p A) -> solve bool xorb false p q (hsys p A) = None ->
  exists z, nontrivial q z /\ kernel p q A z.
Proof.
  intros W H. unfold solve in H.
  destruct (triangularize bool xorb false p (seq 0 q) (hsys p A)) as [y'|] eqn:Et; [discriminate|].
  apply (triangularize_none_kernel q 0 (hsys p A) W); [| |apply hsys_homog|lia|exact Et].
  - intros r c Hc. lia.
  - intros c Hc. lia.
Qed.

Lemma hsolve_some_no_kernel A x : WFb (hsys p A) -> solve bool xorb false p q (hsys p A) = Some x ->
  forall z, kernel p q A z -> forall c, c < q -> z c = false.
Proof.
  intros W H z Hz c Hc.
  destruct (solve_sound_proof bool xorb false bx_assoc bx_comm bx_0_l bx_nilp p q (hsys p A) x W H) as (_ & Hu & _).
  pose proof (Hu (zl q z) (proj2 (sol_kernel (hsys p A) z (hsys_homog A)) Hz) c Hc) as E1.
  pose proof (Hu (zl q (fun _ => false))
                 (proj2 (sol_kernel (hsys p A) (fun _ => false) (hsys_homog A)) (kernel_zero A)) c Hc) as E2.
  rewrite nth_zl in E1, E2 by exact Hc. congruence.
Qed.
End B.

(* ------------------------------------------------------------------------------------------ *)
(* 4. The theorems, for an arbitrary symbol type (no hypothesis on sxor is needed).             *)
(* ------------------------------------------------------------------------------------------ *)
Lemma WFs_hsys Sy p q (y : sys Sy) : WFs Sy p q y -> WFs bool p q (hsys p (sA y)).
Proof. intros W. apply hsys_WF; [apply (w_rows _ _ _ _ W)|apply (w_len _ _ _ _ W)]. Qed.

Theorem solve_none_kernel (Sy : Type) (sxor : Sy -> Sy -> Sy) (s0 : Sy) (p q : nat) (y : sys Sy) :
  WFs Sy p q y -> solve Sy sxor s0 p q y = None ->
  exists z, nontrivial q z /\ kernel p q (sA y) z.
Proof.
  intros W H. apply (hsolve_none_kernel p q (sA y) (WFs_hsys Sy p q y W)).
  apply (solve_none_iff_gen Sy sxor s0 bool xorb false p q y (hsys p (sA y)) eq_refl). exact H.
Qed.

Theorem solve_some_no_kernel (Sy : Type) (sxor : Sy -> Sy -> Sy) (s0 : Sy) (p q : nat) (y : sys Sy) (x : list Sy) :
  WFs Sy p q y -> solve Sy sxor s0 p q y = Some x ->
  forall z, kernel p q (sA y) z -> forall c, c < q -> z c = false.
Proof.
  intros W H.
  destruct (solve bool xorb false p q (hsys p (sA y))) as [x0|] eqn:E.
  - apply (hsolve_some_no_kernel p q (sA y) x0 (WFs_hsys Sy p q y W) E).
  - apply (solve_none_iff_gen Sy sxor s0 bool xorb false p q y (hsys p (sA y)) eq_refl) in E.
    rewrite E in H. discriminate H.
Qed.

(* The None/Some outcome is a function of the matrix alone.  (Well-formedness is not needed; the
   hypotheses are kept so that the statement reads as in the property catalogue.) *)
Theorem solve_control_independent_of_rhs (Sy : Type) (sxor : Sy -> Sy -> Sy) (s0 : Sy) (p q : nat) (y1 y2 : sys Sy) :
  WFs Sy p q y1 -> WFs Sy p q y2 -> sA y1 = sA y2 ->
  (solve Sy sxor s0 p q y1 = None <-> solve Sy sxor s0 p q y2 = None).
Proof. intros _ _ E. apply solve_none_iff_gen. exact E. Qed.

(* full column rank characterisation, as a corollary *)
Corollary solve_none_iff_kernel (Sy : Type) (sxor : Sy -> Sy -> Sy) (s0 : Sy) (p q : nat) (y : sys Sy) :
  WFs Sy p q y ->
  (solve Sy sxor s0 p q y = None <-> exists z, nontrivial q z /\ kernel p q (sA y) z).
Proof.
  intros W. split; [apply solve_none_kernel; exact W|].
  intros (z & (c & Hc & Hzc) & Hk).
  destruct (solve Sy sxor s0 p q y) as [x|] eqn:E; [|reflexivity].
  rewrite (solve_some_no_kernel Sy sxor s0 p q y x W E z Hk c Hc) in Hzc. discriminate Hzc.
Qed.

Print Assumptions solve_none_kernel.
Print Assumptions solve_some_no_kernel.
Print Assumptions solve_control_independent_of_rhs.
Print Assumptions solve_none_iff_kernel.
