(* RSCore: a Gallina model of the Reed-Solomon erasure decoding core
   (finish_decoding -> decode: selection of k received symbols, construction of
   the decode matrix, in-place Gauss-Jordan inversion, product with the received
   symbols; three textually parallel copies in the library) at the level of one
   field element per symbol, and the proof that it returns the source elements
   for every code size k <= n <= 2^m and every set of at least k received
   symbols.

   Part 0: list utilities.
   Part 1: the selection (generic in the symbol type): sources stay in place,
           gaps are filled with the repair symbols in increasing ESI order.
   Part 2: the model, generic in (m p mul inv) like RSCanon.coefN.
   Part 3: Lagrange interpolation reproduces every polynomial of length k
           (abstract field, on top of RSSpec).
   Part 4: the theorems, generic along an injective homomorphism into N
           (the hypotheses of RSCanon's Section Canon).
   Part 5: the instances q = 256 and q = 16, the API hypothesis core_ok.
   Part 6: examples.

   The decode matrix D has row i = e_i when index[i] < k (then index[i] = i) and
   row index[i] of the canonical generator otherwise; uniformly, D[r][c] is the
   Lagrange basis polynomial number c on the k source points evaluated at the
   point of position index[r].  Its inverse is written down explicitly,
   E[i][l] = Lagrange basis polynomial number l on the k SELECTED points
   evaluated at source point i (both products are instances of the
   interpolation lemma of Part 3), so GaussJordan's uniqueness theorem
   identifies the result of the inversion, and the product E * pkt is again an
   instance of the interpolation lemma.  D depends on the positions only, hence
   the inversion succeeds whatever the received values are (T3). *)
From Coq Require Import List Arith NArith Bool Lia.
From OFV Require Import GF2Poly RSSpec GFField RSCanon RSEnc GaussJordan RSApi RSApiProofs.
Import ListNotations.

(* ------------------------------------------------------------------ *)
(* Part 0: list utilities                                              *)
(* ------------------------------------------------------------------ *)
Lemma map_nth_seq : forall (A : Type) (l : list A) (d : A),
  map (fun i => nth i l d) (seq 0 (length l)) = l.
Proof.
  intros A l d. apply (nth_ext _ _ d d).
  - rewrite map_length, seq_length. reflexivity.
  - intros i Hi. rewrite map_length, seq_length in Hi.
    apply nth_map_seq. exact Hi.
Qed.

Lemma nth_firstn_lt : forall (A : Type) (t : list A) (k j : nat) (d : A),
  j < k -> nth j (firstn k t) d = nth j t d.
Proof.
  intros A t. induction t as [|x t IH]; intros k j d Hj.
  - rewrite firstn_nil. reflexivity.
  - destruct k as [|k]; [lia|]. destruct j as [|j]; cbn [firstn nth]; [reflexivity|].
    apply IH. lia.
Qed.

Lemma nth_skipn_add : forall (A : Type) (k : nat) (t : list A) (i : nat) (d : A),
  nth i (skipn k t) d = nth (k + i) t d.
Proof.
  intros A k. induction k as [|k IH]; intros t i d.
  - reflexivity.
  - destruct t as [|x t].
    + cbn [skipn]. destruct i; reflexivity.
    + cbn [skipn Nat.add nth]. apply IH.
Qed.

(* ------------------------------------------------------------------ *)
(* Part 1: the selection                                               *)
(* ------------------------------------------------------------------ *)
Section Select.
  Variable A : Type.

  (* the received symbols of a table segment starting at position e, in
     increasing order of position *)
  Fixpoint somes_from (e : nat) (t : list (option A)) : list (nat * A) :=
    match t with
    | [] => []
    | Some v :: t' => (e, v) :: somes_from (S e) t'
    | None :: t' => somes_from (S e) t'
    end.

  (* for (i = ...; i < k; i++): a received source stays in place, a gap takes
     the next received repair symbol; None when the repair symbols run out *)
  Fixpoint fill_gaps (i : nat) (srcs : list (option A)) (reps : list (nat * A))
    : option (list (nat * A)) :=
    match srcs with
    | [] => Some []
    | Some v :: s' => option_map (cons (i, v)) (fill_gaps (S i) s' reps)
    | None :: s' =>
        match reps with
        | [] => None
        | r :: reps' => option_map (cons r) (fill_gaps (S i) s' reps')
        end
    end.

  (* the k pairs (index[i], pkt[i]); None if fewer than k symbols are available *)
  Definition select (k : nat) (t : list (option A)) : option (list (nat * A)) :=
    if length t <? k then None
    else fill_gaps 0 (firstn k t) (somes_from k (skipn k t)).

  (* ---- counting ---- *)
  Lemma count_some_le_length : forall t : list (option A), count_some t <= length t.
  Proof.
    intros t. unfold count_some. induction t as [|x t IH].
    - cbn. lia.
    - cbn [filter length]. destruct (is_some x); cbn [length]; lia.
  Qed.

  Lemma count_some_app : forall t1 t2 : list (option A),
    count_some (t1 ++ t2) = count_some t1 + count_some t2.
  Proof.
    intros t1 t2. unfold count_some. rewrite filter_app, app_length. reflexivity.
  Qed.

  Lemma count_some_split : forall k (t : list (option A)),
    count_some (firstn k t) + count_some (skipn k t) = count_some t.
  Proof.
    intros k t. rewrite <- count_some_app, firstn_skipn. reflexivity.
  Qed.

  (* ---- somes_from ---- *)
  Lemma somes_from_spec : forall t e x, In x (somes_from e t) ->
    e <= fst x < e + length t /\ nth (fst x - e) t None = Some (snd x).
  Proof.
    intros t. induction t as [|[v|] t IH]; intros e x Hin; cbn [somes_from] in Hin.
    - destruct Hin.
    - destruct Hin as [E|Hin].
      + subst x. cbn [fst snd length]. split; [lia|].
        rewrite Nat.sub_diag. reflexivity.
      + destruct (IH (S e) x Hin) as [H1 H2]. cbn [length]. split; [lia|].
        replace (fst x - e) with (S (fst x - S e)) by lia. exact H2.
    - destruct (IH (S e) x Hin) as [H1 H2]. cbn [length]. split; [lia|].
      replace (fst x - e) with (S (fst x - S e)) by lia. exact H2.
  Qed.

  Lemma somes_from_NoDup : forall t e, NoDup (map fst (somes_from e t)).
  Proof.
    intros t. induction t as [|[v|] t IH]; intros e; cbn [somes_from map].
    - constructor.
    - constructor; [|apply IH].
      cbn [fst]. intros Hin. apply in_map_iff in Hin. destruct Hin as [x [Ex Hx]].
      apply somes_from_spec in Hx. lia.
    - apply IH.
  Qed.

  Lemma somes_from_length : forall t e, length (somes_from e t) = count_some t.
  Proof.
    intros t. unfold count_some.
    induction t as [|[v|] t IH]; intros e; cbn [somes_from filter is_some length].
    - reflexivity.
    - rewrite IH. reflexivity.
    - apply IH.
  Qed.

  (* ---- fill_gaps ---- *)
  Lemma fill_gaps_spec : forall srcs i reps sel, fill_gaps i srcs reps = Some sel ->
    length sel = length srcs /\
    forall j d, j < length srcs ->
      (fst (nth j sel d) = i + j /\ nth j srcs None = Some (snd (nth j sel d)))
      \/ In (nth j sel d) reps.
  Proof.
    intros srcs. induction srcs as [|[v|] s IH]; intros i reps sel H; cbn [fill_gaps] in H.
    - injection H as E. subst sel. split; [reflexivity|].
      intros j d Hj. cbn [length] in Hj. lia.
    - destruct (fill_gaps (S i) s reps) as [sel'|] eqn:E; cbn [option_map] in H;
        [|discriminate H].
      injection H as E'. subst sel. destruct (IH _ _ _ E) as [HL HP].
      split; [cbn [length]; rewrite HL; reflexivity|].
      intros j d Hj. cbn [length] in Hj. destruct j as [|j]; cbn [nth].
      + left. cbn [fst snd]. split; [lia|reflexivity].
      + destruct (HP j d) as [[H1 H2]|H3]; [lia| |].
        * left. split; [lia|exact H2].
        * right. exact H3.
    - destruct reps as [|r reps']; [discriminate H|].
      destruct (fill_gaps (S i) s reps') as [sel'|] eqn:E; cbn [option_map] in H;
        [|discriminate H].
      injection H as E'. subst sel. destruct (IH _ _ _ E) as [HL HP].
      split; [cbn [length]; rewrite HL; reflexivity|].
      intros j d Hj. cbn [length] in Hj. destruct j as [|j]; cbn [nth].
      + right. left. reflexivity.
      + destruct (HP j d) as [[H1 H2]|H3]; [lia| |].
        * left. split; [lia|exact H2].
        * right. right. exact H3.
  Qed.

  Lemma fill_gaps_in : forall srcs i reps sel x, fill_gaps i srcs reps = Some sel ->
    In x sel -> i <= fst x < i + length srcs \/ In x reps.
  Proof.
    intros srcs i reps sel x H Hin.
    destruct (fill_gaps_spec srcs i reps sel H) as [HL HP].
    destruct (In_nth sel x x Hin) as [j [Hj Ej]]. rewrite HL in Hj.
    destruct (HP j x Hj) as [[H1 _]|H3]; rewrite Ej in *.
    - left. lia.
    - right. exact H3.
  Qed.

  Lemma fill_gaps_NoDup : forall srcs i reps sel, fill_gaps i srcs reps = Some sel ->
    NoDup (map fst reps) -> (forall r, In r reps -> i + length srcs <= fst r) ->
    NoDup (map fst sel).
  Proof.
    intros srcs. induction srcs as [|[v|] s IH]; intros i reps sel H ND Hge;
      cbn [fill_gaps] in H.
    - injection H as E. subst sel. constructor.
    - destruct (fill_gaps (S i) s reps) as [sel'|] eqn:E; cbn [option_map] in H;
        [|discriminate H].
      injection H as E'. subst sel. cbn [map fst]. cbn [length] in Hge. constructor.
      + intros Hin. apply in_map_iff in Hin. destruct Hin as [x [Ex Hx]].
        destruct (fill_gaps_in _ _ _ _ x E Hx) as [H1|H1].
        * lia.
        * apply Hge in H1. lia.
      + apply (IH (S i) reps sel' E ND). intros r Hr. apply Hge in Hr. lia.
    - destruct reps as [|r reps']; [discriminate H|].
      destruct (fill_gaps (S i) s reps') as [sel'|] eqn:E; cbn [option_map] in H;
        [|discriminate H].
      injection H as E'. subst sel. cbn [map] in *. cbn [length] in Hge.
      inversion ND as [|a l Hna ND']; subst a l. constructor.
      + intros Hin. apply in_map_iff in Hin. destruct Hin as [x [Ex Hx]].
        destruct (fill_gaps_in _ _ _ _ x E Hx) as [H1|H1].
        * pose proof (Hge r (or_introl eq_refl)). lia.
        * apply Hna. rewrite <- Ex. apply in_map. exact H1.
      + apply (IH (S i) reps' sel' E ND'). intros r' Hr'.
        pose proof (Hge r' (or_intror Hr')). lia.
  Qed.

  Lemma fill_gaps_some : forall srcs i reps,
    length srcs <= count_some srcs + length reps ->
    exists sel, fill_gaps i srcs reps = Some sel.
  Proof.
    intros srcs. induction srcs as [|[v|] s IH]; intros i reps H; cbn [fill_gaps].
    - eexists. reflexivity.
    - destruct (IH (S i) reps) as [sel E].
      + unfold count_some in *. cbn [filter is_some length] in H. lia.
      + rewrite E. eexists. reflexivity.
    - pose proof (count_some_le_length s) as Hle.
      unfold count_some in *. cbn [filter is_some length] in H.
      destruct reps as [|r reps']; [cbn [length] in H; lia|].
      destruct (IH (S i) reps') as [sel E].
      + unfold count_some. cbn [length] in H. lia.
      + rewrite E. eexists. reflexivity.
  Qed.

  Lemma fill_gaps_none : forall srcs i reps,
    count_some srcs + length reps < length srcs -> fill_gaps i srcs reps = None.
  Proof.
    intros srcs. induction srcs as [|[v|] s IH]; intros i reps H; cbn [fill_gaps].
    - cbn [length] in H. lia.
    - rewrite (IH (S i) reps); [reflexivity|].
      unfold count_some in *. cbn [filter is_some length] in H. lia.
    - destruct reps as [|r reps']; [reflexivity|].
      rewrite (IH (S i) reps'); [reflexivity|].
      unfold count_some in *. cbn [filter is_some length] in H. lia.
  Qed.

  (* ---- select ---- *)
  Theorem select_some : forall k t, k <= count_some t -> exists sel, select k t = Some sel.
  Proof.
    intros k t H. unfold select. pose proof (count_some_le_length t) as Hle.
    destruct (Nat.ltb_spec (length t) k) as [Hlt|Hge]; [lia|].
    apply fill_gaps_some.
    rewrite firstn_length_le by exact Hge. rewrite somes_from_length.
    pose proof (count_some_split k t). lia.
  Qed.

  Theorem select_none : forall k t, count_some t < k -> select k t = None.
  Proof.
    intros k t H. unfold select.
    destruct (Nat.ltb_spec (length t) k) as [Hlt|Hge]; [reflexivity|].
    apply fill_gaps_none.
    rewrite firstn_length_le by exact Hge. rewrite somes_from_length.
    pose proof (count_some_split k t). lia.
  Qed.

  (* the selected positions: k distinct positions of received symbols, position
     number j is j itself (a received source) or a repair position *)
  Theorem select_spec : forall k t sel, select k t = Some sel ->
    length sel = k /\ NoDup (map fst sel) /\
    forall j d, j < k ->
      fst (nth j sel d) < length t /\
      nth (fst (nth j sel d)) t None = Some (snd (nth j sel d)) /\
      (fst (nth j sel d) = j \/ k <= fst (nth j sel d)).
  Proof.
    intros k t sel H. unfold select in H.
    destruct (Nat.ltb_spec (length t) k) as [Hlt|Hge]; [discriminate H|].
    assert (HLf : length (firstn k t) = k) by (apply firstn_length_le; exact Hge).
    destruct (fill_gaps_spec _ _ _ _ H) as [HL HP]. rewrite HLf in HL, HP.
    split; [exact HL|]. split.
    - apply (fill_gaps_NoDup _ _ _ _ H); [apply somes_from_NoDup|].
      intros r Hr. apply somes_from_spec in Hr. rewrite HLf. lia.
    - intros j d Hj. destruct (HP j d Hj) as [[H1 H2]|H3].
      + cbn [Nat.add] in H1. rewrite H1. split; [lia|]. split; [|left; reflexivity].
        rewrite <- H2. symmetry. apply nth_firstn_lt. exact Hj.
      + apply somes_from_spec in H3. destruct H3 as [H3 H4].
        rewrite skipn_length in H3. split; [lia|]. split; [|right; lia].
        rewrite nth_skipn_add in H4.
        replace (k + (fst (nth j sel d) - k)) with (fst (nth j sel d)) in H4 by lia.
        exact H4.
  Qed.
End Select.
Arguments somes_from {A} e t.
Arguments fill_gaps {A} i srcs reps.
Arguments select {A} k t.

(* ------------------------------------------------------------------ *)
(* Part 2: the model                                                   *)
(* ------------------------------------------------------------------ *)
Section Model.
  Variables (m p : N) (mul : N -> N -> N) (inv : N -> N).

  (* row j of the generator: G[j][0..k-1] *)
  Definition gen_rowN (k j : nat) : list N :=
    map (fun c => coefN m p mul inv k c j) (seq 0 k).

  (* build_decode_matrix: row i := e_i if index[i] < k, else G[index[i]] *)
  Definition dmatrix (k : nat) (idx : list nat) : list (list N) :=
    map (fun i => let j := nth i idx 0 in
                  if j <? k then unit_row N 0%N 1%N k i else gen_rowN k j)
        (seq 0 k).

  (* sum over col < k of row[col] * v[col] *)
  Definition mvdot (k : nat) (row v : list N) : N :=
    xorl (map (fun c => mul (nth c row 0%N) (nth c v 0%N)) (seq 0 k)).

  (* the k source elements after decoding *)
  Definition rs_coreN (k n : nat) (t : list (option N)) : option (list N) :=
    match select k (firstn n t) with
    | None => None
    | Some sel =>
        let idx := map fst sel in
        let pkt := map snd sel in
        match invert_matN mul inv k (dmatrix k idx) with
        | None => None
        | Some M =>
            Some (map (fun i => if nth i idx 0 <? k then nth i pkt 0%N
                                else mvdot k (nth i M []) pkt)
                      (seq 0 k))
        end
    end.

  (* the generator rows are those of the encoder model *)
  Lemma gen_rowN_gen_row : forall k j,
    gen_rowN k j = gen_row m p mul (invdens m p mul inv k) k j.
  Proof.
    intros k j. apply (nth_ext _ _ 0%N 0%N).
    - unfold gen_rowN. rewrite map_length, seq_length, gen_row_length. reflexivity.
    - intros c Hc. unfold gen_rowN in Hc. rewrite map_length, seq_length in Hc.
      rewrite gen_row_nth by exact Hc. unfold gen_rowN.
      exact (nth_map_seq N (fun c' => coefN m p mul inv k c' j) k c 0%N Hc).
  Qed.
End Model.

(* ------------------------------------------------------------------ *)
(* Part 3: interpolation on k points reproduces polynomials of length k *)
(* ------------------------------------------------------------------ *)
Section Interp.
  Variable F : Type.
  Variables (zero one : F) (add mul : F -> F -> F) (opp inv : F -> F).

  Hypothesis eq_dec : forall a b : F, {a = b} + {a <> b}.
  Hypothesis add_comm : forall a b, add a b = add b a.
  Hypothesis add_assoc : forall a b c, add a (add b c) = add (add a b) c.
  Hypothesis add_0_l : forall a, add zero a = a.
  Hypothesis add_opp_r : forall a, add a (opp a) = zero.
  Hypothesis mul_comm : forall a b, mul a b = mul b a.
  Hypothesis mul_assoc : forall a b c, mul a (mul b c) = mul (mul a b) c.
  Hypothesis mul_1_l : forall a, mul one a = a.
  Hypothesis mul_add_distr_l : forall a b c, mul a (add b c) = add (mul a b) (mul a c).
  Hypothesis mul_inv_r : forall a, a <> zero -> mul a (inv a) = one.

  Local Notation fsum := (sum F zero add).
  Local Notation pe := (peval F zero add mul).
  Local Notation flagr := (lagr F zero one add mul opp inv).
  Local Notation frs := (rs_sym F zero one add mul opp inv).
  Local Notation frs_poly := (rs_poly F zero one add mul opp inv).

  Theorem rs_interp : forall (xs P : list F) (x : F),
    NoDup xs -> length P = length xs ->
    fsum (map (fun l => mul (flagr xs l x) (pe P (nth l xs zero))) (seq 0 (length xs)))
    = pe P x.
  Proof.
    intros xs P x ND HL.
    transitivity (frs xs (map (pe P) xs) x).
    { unfold rs_sym. apply sum_map_ext_in. intros l Hl. apply in_seq in Hl.
      rewrite (nth_map_lt F F (pe P) xs l zero zero) by lia. apply mul_comm. }
    rewrite <- (peval_rs_poly F zero one add mul opp inv add_comm add_assoc add_0_l
                  add_opp_r mul_comm mul_assoc mul_1_l mul_add_distr_l).
    f_equal.
    apply (peval_inj F zero one add mul opp inv eq_dec add_comm add_assoc add_0_l
             add_opp_r mul_comm mul_assoc mul_1_l mul_add_distr_l mul_inv_r _ _ xs).
    - rewrite rs_poly_length. symmetry. exact HL.
    - exact ND.
    - rewrite rs_poly_length. lia.
    - intros y Hy. destruct (In_nth xs y zero Hy) as [j [Hj Ey]]. subst y.
      rewrite (peval_rs_poly F zero one add mul opp inv add_comm add_assoc add_0_l
                 add_opp_r mul_comm mul_assoc mul_1_l mul_add_distr_l).
      rewrite (rs_systematic F zero one add mul opp inv add_comm add_assoc add_0_l
                 add_opp_r mul_comm mul_assoc mul_1_l mul_add_distr_l mul_inv_r
                 xs (map (pe P) xs) j ND (map_length _ _) Hj).
      apply (nth_map_lt F F (pe P) xs j zero zero). exact Hj.
  Qed.
End Interp.

(* ------------------------------------------------------------------ *)
(* Part 4: the theorems, along an injective homomorphism into N        *)
(* ------------------------------------------------------------------ *)
(* product of a matrix given by its entries with a well-formed matrix *)
Lemma mmulN_entries : forall (mulN : N -> N -> N) k (a : nat -> nat -> N) (Dm : list (list N)),
  wfN k Dm ->
  mmulN mulN (map (fun i => map (a i) (seq 0 k)) (seq 0 k)) Dm
  = map (fun i => map (fun j => xorl (map (fun l => mulN (a i l) (get N 0%N Dm l j)) (seq 0 k)))
                      (seq 0 k))
        (seq 0 k).
Proof.
  intros mulN k a Dm [HL HF]. unfold mmulN, mmul. rewrite map_map.
  apply map_ext_in. intros i Hi. apply in_seq in Hi. rewrite HL.
  assert (H0 : length (nth 0 Dm []) = k).
  { rewrite Forall_forall in HF. apply HF. apply nth_In. lia. }
  rewrite H0. apply map_ext_in. intros j Hj.
  unfold dot, sum, xorl. f_equal. apply map_ext_in. intros l Hl. apply in_seq in Hl.
  rewrite nth_map_seq by lia. reflexivity.
Qed.

(* T2: failure when fewer than k symbols are available *)
Theorem rs_coreN_none : forall m p mulN invN k n (t : list (option N)),
  length t = n -> count_some t < k -> rs_coreN m p mulN invN k n t = None.
Proof.
  intros m p mulN invN k n t HL Hc. unfold rs_coreN.
  rewrite firstn_all2 by lia. rewrite (select_none N k t Hc). reflexivity.
Qed.

Section Core.
  Variables (m p : N) (mulN : N -> N -> N) (invN : N -> N).
  Variable q : N.
  Variable qn : nat.
  Variable G : Type.
  Variables (zero one : G) (add mul : G -> G -> G) (opp inv : G -> G).

  Hypothesis eq_dec : forall a b : G, {a = b} + {a <> b}.
  Hypothesis add_comm : forall a b, add a b = add b a.
  Hypothesis add_assoc : forall a b c, add a (add b c) = add (add a b) c.
  Hypothesis add_0_l : forall a, add zero a = a.
  Hypothesis add_opp_r : forall a, add a (opp a) = zero.
  Hypothesis mul_comm : forall a b, mul a b = mul b a.
  Hypothesis mul_assoc : forall a b c, mul a (mul b c) = mul (mul a b) c.
  Hypothesis mul_1_l : forall a, mul one a = a.
  Hypothesis mul_add_distr_l : forall a b c, mul a (add b c) = add (mul a b) (mul a c).
  Hypothesis mul_inv_r : forall a, a <> zero -> mul a (inv a) = one.
  Hypothesis one_neq_zero : one <> zero.

  Variable phi : G -> N.
  Variable psi : N -> G.
  Hypothesis phi_zero : phi zero = 0%N.
  Hypothesis phi_one : phi one = 1%N.
  Hypothesis phi_add : forall a b, phi (add a b) = N.lxor (phi a) (phi b).
  Hypothesis phi_mul : forall a b, phi (mul a b) = mulN (phi a) (phi b).
  Hypothesis phi_opp : forall a, phi (opp a) = phi a.
  Hypothesis phi_inv : forall a, phi (inv a) = invN (phi a).
  Hypothesis phi_inj : forall a b, phi a = phi b -> a = b.
  Hypothesis phi_lt : forall a, (phi a < q)%N.
  Hypothesis phi_psi : forall a, (a < q)%N -> phi (psi a) = a.
  Hypothesis pt_lt : forall j, j < qn -> (rs_point m p j < q)%N.
  Hypothesis pt_inj : forall i j, i < qn -> j < qn ->
    rs_point m p i = rs_point m p j -> i = j.

  Local Notation pt := (rs_point m p).
  Local Notation ltq := (fun a : N => (a < q)%N).
  Local Notation lagrG := (lagr G zero one add mul opp inv).
  Local Notation lagr_polyG := (lagr_poly G zero one add mul opp inv).
  Local Notation rsG := (rs_sym G zero one add mul opp inv).
  Local Notation rs_polyG := (rs_poly G zero one add mul opp inv).
  Local Notation sumG := (sum G zero add).
  Local Notation peG := (peval G zero add mul).
  Local Notation ptsK := (ptsG m p G psi).
  Local Notation coef := (coefN m p mulN invN).
  Local Notation elem := (elemN m p mulN invN).
  Local Notation dmat := (dmatrix m p mulN invN).
  Local Notation core := (rs_coreN m p mulN invN).

  Local Notation c_phi :=
    (coefN_phi m p mulN invN q qn G zero one add mul opp inv eq_dec add_comm add_assoc
       add_0_l add_opp_r mul_comm mul_assoc mul_1_l mul_add_distr_l mul_inv_r one_neq_zero
       phi psi phi_zero phi_one phi_add phi_mul phi_opp phi_inv phi_psi pt_lt pt_inj).
  Local Notation c_lt :=
    (coefN_lt m p mulN invN q qn G zero one add mul opp inv eq_dec add_comm add_assoc
       add_0_l add_opp_r mul_comm mul_assoc mul_1_l mul_add_distr_l mul_inv_r one_neq_zero
       phi psi phi_zero phi_one phi_add phi_mul phi_opp phi_inv phi_lt phi_psi pt_lt pt_inj).
  Local Notation c_sys :=
    (coefN_systematic m p mulN invN q qn G zero one add mul opp inv eq_dec add_comm add_assoc
       add_0_l add_opp_r mul_comm mul_assoc mul_1_l mul_add_distr_l mul_inv_r one_neq_zero
       phi psi phi_zero phi_one phi_add phi_mul phi_opp phi_inv phi_inj phi_lt phi_psi
       pt_lt pt_inj).
  Local Notation e_phi :=
    (elemN_phi m p mulN invN q qn G zero one add mul opp inv eq_dec add_comm add_assoc
       add_0_l add_opp_r mul_comm mul_assoc mul_1_l mul_add_distr_l mul_inv_r one_neq_zero
       phi psi phi_zero phi_one phi_add phi_mul phi_opp phi_inv phi_psi pt_lt pt_inj).
  Local Notation e_sys :=
    (elemN_systematic m p mulN invN q qn G zero one add mul opp inv eq_dec add_comm add_assoc
       add_0_l add_opp_r mul_comm mul_assoc mul_1_l mul_add_distr_l mul_inv_r one_neq_zero
       phi psi phi_zero phi_one phi_add phi_mul phi_opp phi_inv phi_inj phi_lt phi_psi
       pt_lt pt_inj).
  Local Notation interp :=
    (rs_interp G zero one add mul opp inv eq_dec add_comm add_assoc add_0_l add_opp_r
       mul_comm mul_assoc mul_1_l mul_add_distr_l mul_inv_r).
  Local Notation pe_lagr :=
    (peval_lagr_poly G zero one add mul opp inv add_comm add_assoc add_0_l add_opp_r
       mul_comm mul_assoc mul_1_l mul_add_distr_l).
  Local Notation pe_rs :=
    (peval_rs_poly G zero one add mul opp inv add_comm add_assoc add_0_l add_opp_r
       mul_comm mul_assoc mul_1_l mul_add_distr_l).

  (* the selected positions *)
  Definition good_idx (k n : nat) (idx : list nat) : Prop :=
    length idx = k /\ NoDup idx /\
    forall j, j < k -> nth j idx 0 < n /\ (nth j idx 0 = j \/ k <= nth j idx 0).

  (* the selected evaluation points *)
  Definition xsG (idx : list nat) : list G := map (fun j => psi (pt j)) idx.

  (* the inverse of the decode matrix *)
  Definition einv (idx : list nat) (i l : nat) : N := phi (lagrG (xsG idx) l (psi (pt i))).
  Definition EN (k : nat) (idx : list nat) : list (list N) :=
    map (fun i => map (einv idx i) (seq 0 k)) (seq 0 k).

  Lemma zero_lt_q : (0 < q)%N.
  Proof. rewrite <- phi_zero. apply phi_lt. Qed.

  Lemma one_lt_q : (1 < q)%N.
  Proof. rewrite <- phi_one. apply phi_lt. Qed.

  Lemma xsG_length : forall idx, length (xsG idx) = length idx.
  Proof. intros idx. unfold xsG. apply map_length. Qed.

  Lemma nth_xsG : forall idx l, l < length idx ->
    nth l (xsG idx) zero = psi (pt (nth l idx 0)).
  Proof.
    intros idx l Hl. unfold xsG.
    exact (nth_map_lt nat G (fun j => psi (pt j)) idx l 0 zero Hl).
  Qed.

  Lemma good_idx_lt : forall k n idx j, good_idx k n idx -> In j idx -> j < n.
  Proof.
    intros k n idx j [HL [_ HP]] Hin.
    destruct (In_nth idx j 0 Hin) as [i [Hi Ei]]. rewrite HL in Hi.
    rewrite <- Ei. apply (HP i Hi).
  Qed.

  Lemma xsG_NoDup : forall k n idx, good_idx k n idx -> n <= qn -> NoDup (xsG idx).
  Proof.
    intros k n idx Hg Hn. unfold xsG.
    apply (NoDup_psi_pt m p q qn G phi psi phi_psi pt_lt pt_inj).
    - exact (proj1 (proj2 Hg)).
    - intros j Hj. pose proof (good_idx_lt k n idx j Hg Hj). lia.
  Qed.

  Lemma phi_sum_mul : forall (a b : nat -> G) (l : list nat),
    xorl (map (fun i => mulN (phi (a i)) (phi (b i))) l)
    = phi (sumG (map (fun i => mul (a i) (b i)) l)).
  Proof.
    intros a b l.
    rewrite (hom_sum G N zero add 0%N N.lxor phi phi_zero phi_add), map_map.
    unfold xorl, sum. f_equal. apply map_ext. intros i. symmetry. apply phi_mul.
  Qed.

  (* interpolation on the selected points, seen through phi *)
  Lemma interp_phi : forall k n idx (P : list G) (x : G),
    good_idx k n idx -> n <= qn -> length P = k ->
    xorl (map (fun l => mulN (phi (lagrG (xsG idx) l x))
                             (phi (peG P (psi (pt (nth l idx 0))))))
              (seq 0 k))
    = phi (peG P x).
  Proof.
    intros k n idx P x Hg Hn HP.
    pose proof (proj1 Hg) as HL.
    rewrite (phi_sum_mul (fun l => lagrG (xsG idx) l x)
                         (fun l => peG P (psi (pt (nth l idx 0))))).
    f_equal.
    rewrite <- (interp (xsG idx) P x (xsG_NoDup k n idx Hg Hn))
      by (rewrite xsG_length; lia).
    rewrite xsG_length, HL.
    apply sum_map_ext_in. intros l Hl. apply in_seq in Hl.
    rewrite nth_xsG by lia. reflexivity.
  Qed.

  (* ---- the decode matrix ---- *)
  Lemma dmatrix_get : forall k n idx l j,
    good_idx k n idx -> k <= qn -> l < k -> j < k ->
    get N 0%N (dmat k idx) l j = coef k j (nth l idx 0).
  Proof.
    intros k n idx l j Hg Hk Hl Hj. unfold get, dmatrix.
    rewrite nth_map_seq by exact Hl. cbv beta zeta.
    destruct (proj2 (proj2 Hg) l Hl) as [_ Hor].
    destruct (Nat.ltb_spec (nth l idx 0) k) as [Hlt|Hge].
    - assert (E : nth l idx 0 = l) by lia. rewrite E.
      unfold unit_row. rewrite nth_map_seq by exact Hj.
      rewrite (c_sys k j l Hk Hj Hl). reflexivity.
    - unfold gen_rowN. rewrite nth_map_seq by exact Hj. reflexivity.
  Qed.

  Lemma wf_dmatrix : forall k idx, wfN k (dmat k idx).
  Proof.
    intros k idx. unfold wfN, dmatrix. apply wf_map_seq. intros i Hi. cbv zeta.
    destruct (nth i idx 0 <? k).
    - unfold unit_row. rewrite map_length, seq_length. reflexivity.
    - unfold gen_rowN. rewrite map_length, seq_length. reflexivity.
  Qed.

  Lemma below_dmatrix : forall k n idx, good_idx k n idx -> k <= qn -> n <= qn ->
    belowN q (dmat k idx).
  Proof.
    intros k n idx Hg Hk Hn. unfold belowN, dmatrix.
    apply Forall_forall. intros r Hr. apply in_map_iff in Hr.
    destruct Hr as [i [Er Hi]]. apply in_seq in Hi. subst r. cbv zeta.
    destruct (proj2 (proj2 Hg) i) as [Hlt _]; [lia|].
    apply Forall_forall. intros a Ha.
    destruct (nth i idx 0 <? k).
    - unfold unit_row in Ha. apply in_map_iff in Ha. destruct Ha as [c [Ea _]]. subst a.
      destruct (c =? i); [exact one_lt_q|exact zero_lt_q].
    - unfold gen_rowN in Ha. apply in_map_iff in Ha. destruct Ha as [c [Ea Hc]]. subst a.
      apply in_seq in Hc. apply c_lt; lia.
  Qed.

  Lemma wf_EN : forall k idx, wfN k (EN k idx).
  Proof.
    intros k idx. unfold wfN, EN. apply wf_map_seq. intros i Hi.
    rewrite map_length, seq_length. reflexivity.
  Qed.

  Lemma below_EN : forall k idx, belowN q (EN k idx).
  Proof.
    intros k idx. unfold belowN, EN.
    apply Forall_forall. intros r Hr. apply in_map_iff in Hr.
    destruct Hr as [i [Er _]]. subst r.
    apply Forall_forall. intros a Ha. apply in_map_iff in Ha.
    destruct Ha as [l [Ea _]]. subst a. unfold einv. apply phi_lt.
  Qed.

  Lemma coef_phi_pe : forall k c j, k <= qn -> c < k -> j < qn ->
    coef k c j = phi (peG (lagr_polyG (ptsK k) c) (psi (pt j))).
  Proof.
    intros k c j Hk Hc Hj. rewrite pe_lagr. apply c_phi; assumption.
  Qed.

  (* E * D = I *)
  Lemma EN_dmatrix : forall k n idx, good_idx k n idx -> k <= qn -> n <= qn ->
    mmulN mulN (EN k idx) (dmat k idx) = mIN k.
  Proof.
    intros k n idx Hg Hk Hn. unfold EN.
    rewrite (mmulN_entries mulN k (einv idx) (dmat k idx) (wf_dmatrix k idx)).
    unfold mIN, mI. apply map_ext_in. intros i Hi. apply in_seq in Hi.
    apply map_ext_in. intros j Hj. apply in_seq in Hj.
    transitivity
      (xorl (map (fun l => mulN (phi (lagrG (xsG idx) l (psi (pt i))))
                                (phi (peG (lagr_polyG (ptsK k) j) (psi (pt (nth l idx 0))))))
                 (seq 0 k))).
    { unfold xorl. f_equal. apply map_ext_in. intros l Hl. apply in_seq in Hl.
      rewrite (dmatrix_get k n idx l j Hg Hk) by lia.
      destruct (proj2 (proj2 Hg) l) as [Hlt _]; [lia|].
      rewrite (coef_phi_pe k j (nth l idx 0)) by lia. reflexivity. }
    rewrite (interp_phi k n idx _ _ Hg Hn)
      by (rewrite lagr_poly_length; rewrite ptsG_length; [reflexivity|lia]).
    rewrite <- (coef_phi_pe k j i) by lia.
    rewrite (c_sys k j i Hk) by lia.
    unfold delta. rewrite Nat.eqb_sym. reflexivity.
  Qed.

  (* the inversion succeeds and returns E, whatever the received values *)
  Theorem invert_dmatrix : forall k n idx, good_idx k n idx -> k <= qn -> n <= qn ->
    invert_matN mulN invN k (dmat k idx) = Some (EN k idx).
  Proof.
    intros k n idx Hg Hk Hn.
    apply (invN_unique mulN invN q G zero one add mul inv
             (fun a b => N.eqb (phi a) (phi b)))
      with (phi := phi) (psi := psi); try assumption.
    - intros a b. rewrite N.eqb_eq. split; [apply phi_inj|intros E; rewrite E; reflexivity].
    - intros a. apply phi_inj. rewrite phi_add, phi_zero. apply N.lxor_nilpotent.
    - apply wf_dmatrix.
    - exact (below_dmatrix k n idx Hg Hk Hn).
    - apply wf_EN.
    - apply below_EN.
    - exact (EN_dmatrix k n idx Hg Hk Hn).
  Qed.

  (* ---- from the selection to good_idx ---- *)
  Lemma nth_map_fst : forall (sel : list (nat * N)) j,
    nth j (map fst sel) 0 = fst (nth j sel (0, 0%N)).
  Proof. intros sel j. exact (map_nth fst sel (0, 0%N) j). Qed.

  Lemma nth_map_snd : forall (sel : list (nat * N)) j,
    nth j (map snd sel) 0%N = snd (nth j sel (0, 0%N)).
  Proof. intros sel j. exact (map_nth snd sel (0, 0%N) j). Qed.

  Lemma select_good : forall k (t : list (option N)) sel, select k t = Some sel ->
    good_idx k (length t) (map fst sel).
  Proof.
    intros k t sel H. destruct (select_spec N k t sel H) as [HL [ND HP]].
    split; [rewrite map_length; exact HL|]. split; [exact ND|].
    intros j Hj. rewrite nth_map_fst.
    destruct (HP j (0, 0%N) Hj) as [H1 [_ H3]]. split; assumption.
  Qed.

  Lemma select_value : forall k (t : list (option N)) sel j, select k t = Some sel -> j < k ->
    nth (nth j (map fst sel) 0) t None = Some (nth j (map snd sel) 0%N).
  Proof.
    intros k t sel j H Hj. destruct (select_spec N k t sel H) as [_ [_ HP]].
    rewrite nth_map_fst, nth_map_snd. exact (proj1 (proj2 (HP j (0, 0%N) Hj))).
  Qed.

  (* ---- T3: the core succeeds on every table with at least k entries ---- *)
  Theorem core_total : forall k n (t : list (option N)),
    n <= qn -> length t = n -> k <= count_some t ->
    exists vals, core k n t = Some vals /\ length vals = k.
  Proof.
    intros k n t Hn HL Hc. unfold rs_coreN.
    rewrite firstn_all2 by lia.
    destruct (select_some N k t Hc) as [sel Es]. rewrite Es. cbv zeta.
    pose proof (select_good k t sel Es) as Hg. rewrite HL in Hg.
    pose proof (count_some_le_length N t) as Hle.
    rewrite (invert_dmatrix k n (map fst sel) Hg) by lia.
    eexists. split; [reflexivity|]. rewrite map_length, seq_length. reflexivity.
  Qed.

  (* ---- T1: the core returns the source elements ---- *)
  Theorem core_correct : forall k n (src : list N) (t : list (option N)),
    k <= n -> n <= qn -> length src = k -> Forall ltq src -> length t = n ->
    (forall e, e < n -> nth e t None = None \/ nth e t None = Some (elem k src e)) ->
    k <= count_some t ->
    core k n t = Some src.
  Proof.
    intros k n src t Hkn Hn HLs HF HL Ht Hc. unfold rs_coreN.
    rewrite firstn_all2 by lia.
    destruct (select_some N k t Hc) as [sel Es]. rewrite Es. cbv zeta.
    pose proof (select_good k t sel Es) as Hg. rewrite HL in Hg.
    assert (Hk : k <= qn) by lia.
    rewrite (invert_dmatrix k n (map fst sel) Hg Hk Hn). f_equal.
    set (idx := map fst sel) in *. set (pkt := map snd sel).
    (* the received values are the codeword elements at the selected positions *)
    assert (Hpkt : forall l, l < k -> nth l pkt 0%N = elem k src (nth l idx 0)).
    { intros l Hl. pose proof (select_value k t sel l Es Hl) as Hv.
      fold idx in Hv. fold pkt in Hv.
      destruct (proj2 (proj2 Hg) l Hl) as [Hlt _].
      destruct (Ht (nth l idx 0) Hlt) as [E|E]; rewrite E in Hv;
        [discriminate Hv|]. injection Hv as Hv. symmetry. exact Hv. }
    transitivity (map (fun i => nth i src 0%N) (seq 0 k));
      [|rewrite <- HLs; apply map_nth_seq].
    apply map_ext_in. intros i Hi. apply in_seq in Hi.
    destruct (proj2 (proj2 Hg) i) as [Hlt Hor]; [lia|]. fold idx in Hlt, Hor.
    destruct (Nat.ltb_spec (nth i idx 0) k) as [Hik|Hik].
    - (* a received source *)
      rewrite Hpkt by lia. assert (E : nth i idx 0 = i) by lia. rewrite E.
      apply e_sys; try assumption. lia.
    - (* a decoded source: row i of E times pkt *)
      unfold EN. rewrite nth_map_seq by lia. unfold mvdot.
      transitivity
        (xorl (map (fun l => mulN (phi (lagrG (xsG idx) l (psi (pt i))))
                                  (phi (peG (rs_polyG (ptsK k) (map psi src))
                                            (psi (pt (nth l idx 0))))))
                   (seq 0 k))).
      { unfold xorl. f_equal. apply map_ext_in. intros l Hl. apply in_seq in Hl.
        rewrite nth_map_seq by lia. rewrite Hpkt by lia.
        destruct (proj2 (proj2 Hg) l) as [Hll _]; [lia|]. fold idx in Hll.
        rewrite (e_phi k src (nth l idx 0) Hk HF) by lia.
        rewrite pe_rs. reflexivity. }
      rewrite (interp_phi k n idx _ _ Hg Hn)
        by (rewrite rs_poly_length; apply ptsG_length).
      rewrite pe_rs. rewrite <- (e_phi k src i Hk HF) by lia.
      apply e_sys; try assumption. lia.
  Qed.
End Core.

(* ------------------------------------------------------------------ *)
(* Part 5: the instances q = 256 and q = 16                            *)
(* ------------------------------------------------------------------ *)
Definition dmatrix256 (k : nat) (idx : list nat) : list (list N) :=
  dmatrix 8 P256 mul256 inv256 k idx.
Definition rs_core256 (k n : nat) (t : list (option N)) : option (list N) :=
  rs_coreN 8 P256 mul256 inv256 k n t.
Definition dmatrix16 (k : nat) (idx : list nat) : list (list N) :=
  dmatrix 4 P16 mul16 inv16 k idx.
Definition rs_core16 (k n : nat) (t : list (option N)) : option (list N) :=
  rs_coreN 4 P16 mul16 inv16 k n t.

(* ---- q = 256 ---- *)
(* T1: the table t holds, at a set of at least k positions, the codeword
   elements of src; the core returns src *)
Theorem rs_core256_correct : forall k n (src : list N) (t : list (option N)),
  1 <= k <= n -> n <= 256 -> length src = k -> Forall (fun a => (a < 256)%N) src ->
  length t = n ->
  (forall e, e < n -> nth e t None = None \/ nth e t None = Some (elem256 k src e)) ->
  k <= count_some t ->
  rs_core256 k n t = Some src.
Proof.
  intros k n src t [Hk1 Hkn] Hn HLs HF HL Ht Hc. unfold rs_core256. unfold elem256 in Ht.
  apply (core_correct 8 P256 mul256 inv256 256 256 (GF 256)
           F256_zero F256_one F256_add F256_mul F256_opp F256_inv)
    with (phi := @val 256) (psi := of_N256);
    first [field256 | assumption].
Qed.

(* T3: the hypothesis core_ok of RSApiProofs / Properties_C02: the core succeeds
   on EVERY table with at least k entries (the decode matrix depends on the
   positions only) *)
Theorem rs_core256_core_ok : forall k n, n <= 256 ->
  forall t : list (option N), length t = n -> k <= count_some t ->
  exists vals, rs_core256 k n t = Some vals /\ length vals = k.
Proof.
  intros k n Hn t HL Hc. unfold rs_core256.
  apply (core_total 8 P256 mul256 inv256 256 256 (GF 256)
           F256_zero F256_one F256_add F256_mul F256_opp F256_inv)
    with (phi := @val 256) (psi := of_N256);
    first [field256 | assumption].
Qed.

(* T2 *)
Theorem rs_core256_none : forall k n (t : list (option N)),
  length t = n -> count_some t < k -> rs_core256 k n t = None.
Proof.
  intros k n t HL Hc. unfold rs_core256. apply rs_coreN_none; assumption.
Qed.

Theorem rs_core256_total : forall k n (t : list (option N)),
  n <= 256 -> length t = n ->
  (k <= count_some t -> exists vals, rs_core256 k n t = Some vals /\ length vals = k) /\
  (count_some t < k -> rs_core256 k n t = None).
Proof.
  intros k n t Hn HL. split.
  - intros Hc. exact (rs_core256_core_ok k n Hn t HL Hc).
  - intros Hc. exact (rs_core256_none k n t HL Hc).
Qed.

(* the inversion inside the core: the decode matrix of every selection is
   invertible *)
Theorem rs_core256_invertible : forall k n (t : list (option N)) sel,
  n <= 256 -> length t = n -> select k t = Some sel ->
  exists M, invert_mat256 k (dmatrix256 k (map fst sel)) = Some M /\
            mmul256 M (dmatrix256 k (map fst sel)) = mIN k /\
            mmul256 (dmatrix256 k (map fst sel)) M = mIN k.
Proof.
  intros k n t sel Hn HL Hs.
  pose proof (select_good k t sel Hs) as Hg. rewrite HL in Hg.
  destruct (select_spec N k t sel Hs) as [HLs _].
  assert (Hk : k <= n).
  { destruct (Nat.le_gt_cases k n) as [H|H]; [exact H|]. exfalso.
    unfold select in Hs. rewrite HL in Hs.
    destruct (Nat.ltb_spec n k) as [_|H']; [discriminate Hs|lia]. }
  assert (E : invert_mat256 k (dmatrix256 k (map fst sel))
              = Some (EN 8 P256 (GF 256) F256_zero F256_one F256_add F256_mul F256_opp
                         F256_inv (@val 256) of_N256 k (map fst sel))).
  { unfold invert_mat256, dmatrix256.
    apply (invert_dmatrix 8 P256 mul256 inv256 256 256 (GF 256)
             F256_zero F256_one F256_add F256_mul F256_opp F256_inv)
      with (n := n); first [field256 | assumption | lia]. }
  eexists. split; [exact E|].
  assert (HwD : wfN k (dmatrix256 k (map fst sel))) by apply wf_dmatrix.
  assert (HbD : belowN 256 (dmatrix256 k (map fst sel))).
  { unfold dmatrix256.
    apply (below_dmatrix 8 P256 mul256 inv256 256 256 (GF 256)
             F256_zero F256_one F256_add F256_mul F256_opp F256_inv)
      with (phi := @val 256) (psi := of_N256) (n := n);
      first [field256 | assumption | lia]. }
  destruct (invert_mat256_sound k _ _ HwD HbD E) as [_ [_ [H1 H2]]].
  split; assumption.
Qed.

(* ---- q = 16 ---- *)
Theorem rs_core16_correct : forall k n (src : list N) (t : list (option N)),
  1 <= k <= n -> n <= 16 -> length src = k -> Forall (fun a => (a < 16)%N) src ->
  length t = n ->
  (forall e, e < n -> nth e t None = None \/ nth e t None = Some (elem16 k src e)) ->
  k <= count_some t ->
  rs_core16 k n t = Some src.
Proof.
  intros k n src t [Hk1 Hkn] Hn HLs HF HL Ht Hc. unfold rs_core16. unfold elem16 in Ht.
  apply (core_correct 4 P16 mul16 inv16 16 16 (GF 16)
           F16_zero F16_one F16_add F16_mul F16_opp F16_inv)
    with (phi := @val 16) (psi := of_N16);
    first [field16 | assumption].
Qed.

Theorem rs_core16_core_ok : forall k n, n <= 16 ->
  forall t : list (option N), length t = n -> k <= count_some t ->
  exists vals, rs_core16 k n t = Some vals /\ length vals = k.
Proof.
  intros k n Hn t HL Hc. unfold rs_core16.
  apply (core_total 4 P16 mul16 inv16 16 16 (GF 16)
           F16_zero F16_one F16_add F16_mul F16_opp F16_inv)
    with (phi := @val 16) (psi := of_N16);
    first [field16 | assumption].
Qed.

Theorem rs_core16_none : forall k n (t : list (option N)),
  length t = n -> count_some t < k -> rs_core16 k n t = None.
Proof.
  intros k n t HL Hc. unfold rs_core16. apply rs_coreN_none; assumption.
Qed.

Theorem rs_core16_total : forall k n (t : list (option N)),
  n <= 16 -> length t = n ->
  (k <= count_some t -> exists vals, rs_core16 k n t = Some vals /\ length vals = k) /\
  (count_some t < k -> rs_core16 k n t = None).
Proof.
  intros k n t Hn HL. split.
  - intros Hc. exact (rs_core16_core_ok k n Hn t HL Hc).
  - intros Hc. exact (rs_core16_none k n t HL Hc).
Qed.

(* ---- the API theorems of RSApiProofs with the hypothesis core_ok discharged ---- *)
Theorem rs256_api_complete_iff_k_distinct :
  forall (cb : bool) (mk : nat -> N -> N) (k n : nat), 1 <= k <= n -> n <= 256 ->
  forall h : list (nat * N), (forall ev, In ev h -> fst ev < n) ->
  (rs_is_complete (run N (fun k' t => rs_core256 k' n t) cb mk k n h) = true
   <-> k <= ndistinct n (map fst h)).
Proof.
  intros cb mk k n [Hk1 Hkn] Hn h Hr.
  apply rs_complete_iff_k_distinct_proof; try assumption.
  exact (rs_core256_core_ok k n Hn).
Qed.

Theorem rs256_api_finish_truthful :
  forall (cb : bool) (mk : nat -> N -> N) (k n : nat), 1 <= k <= n -> n <= 256 ->
  forall h : list (nat * N), (forall ev, In ev h -> fst ev < n) ->
  let core := fun k' t => rs_core256 k' n t in
  let r := rs_finish core cb mk (run N core cb mk k n h) in
  ((snd r = OK) <-> (rs_is_complete (fst r) = true)) /\
  ((snd r = FAILURE) <-> (rs_is_complete (fst r) = false)) /\
  ((rs_is_complete (fst r) = true) <-> (k <= ndistinct n (map fst h))).
Proof.
  intros cb mk k n [Hk1 Hkn] Hn h Hr core.
  apply rs_finish_truthful_proof; try assumption.
  exact (rs_core256_core_ok k n Hn).
Qed.

Theorem rs16_api_complete_iff_k_distinct :
  forall (cb : bool) (mk : nat -> N -> N) (k n : nat), 1 <= k <= n -> n <= 16 ->
  forall h : list (nat * N), (forall ev, In ev h -> fst ev < n) ->
  (rs_is_complete (run N (fun k' t => rs_core16 k' n t) cb mk k n h) = true
   <-> k <= ndistinct n (map fst h)).
Proof.
  intros cb mk k n [Hk1 Hkn] Hn h Hr.
  apply rs_complete_iff_k_distinct_proof; try assumption.
  exact (rs_core16_core_ok k n Hn).
Qed.

(* ------------------------------------------------------------------ *)
(* Part 6: examples                                                    *)
(* ------------------------------------------------------------------ *)
(* k = 2, n = 4 over GF(256): the codeword of [5; 7] is [5; 7; 1; 13] *)
Example cw256_2_4 : map (elem256 2 [5; 7]%N) (seq 0 4) = [5; 7; 1; 13]%N.
Proof. vm_compute. reflexivity. Qed.
(* one source missing: the gap takes the first received repair symbol *)
Example select_2_4 :
  select 2 [None; Some 7; Some 1; Some 13]%N = Some [(2, 1%N); (1, 7%N)].
Proof. vm_compute. reflexivity. Qed.
Example dmatrix256_2_4 : dmatrix256 2 [2; 1] = [[3; 2]; [0; 1]]%N.
Proof. vm_compute. reflexivity. Qed.
Example inv_dmatrix256_2_4 :
  invert_mat256 2 (dmatrix256 2 [2; 1]) = Some [[244; 245]; [0; 1]]%N.
Proof. vm_compute. reflexivity. Qed.
Example core256_2_4_one : rs_core256 2 4 [None; Some 7; Some 1; Some 13]%N = Some [5; 7]%N.
Proof. vm_compute. reflexivity. Qed.
Example core256_2_4_one' : rs_core256 2 4 [Some 5; None; None; Some 13]%N = Some [5; 7]%N.
Proof. vm_compute. reflexivity. Qed.
(* both sources missing *)
Example core256_2_4_two : rs_core256 2 4 [None; None; Some 1; Some 13]%N = Some [5; 7]%N.
Proof. vm_compute. reflexivity. Qed.
(* nothing missing: no inversion result is used *)
Example core256_2_4_zero : rs_core256 2 4 [Some 5; Some 7; None; Some 13]%N = Some [5; 7]%N.
Proof. vm_compute. reflexivity. Qed.
(* fewer than k symbols *)
Example core256_2_4_short : rs_core256 2 4 [None; None; None; Some 13]%N = None.
Proof. vm_compute. reflexivity. Qed.

(* k = 3, n = 6 over GF(256): the codeword of [1; 2; 3] is [1; 2; 3; 21; 105; 204] *)
Example cw256_3_6 : map (elem256 3 [1; 2; 3]%N) (seq 0 6) = [1; 2; 3; 21; 105; 204]%N.
Proof. vm_compute. reflexivity. Qed.
Example core256_3_6_one :
  rs_core256 3 6 [Some 1; None; Some 3; Some 21; Some 105; Some 204]%N = Some [1; 2; 3]%N.
Proof. vm_compute. reflexivity. Qed.
(* two sources missing, the first repair symbol missing too *)
Example select_3_6 :
  select 3 [None; Some 2; None; None; Some 105; Some 204]%N
  = Some [(4, 105%N); (1, 2%N); (5, 204%N)].
Proof. vm_compute. reflexivity. Qed.
Example core256_3_6_two :
  rs_core256 3 6 [None; Some 2; None; None; Some 105; Some 204]%N = Some [1; 2; 3]%N.
Proof. vm_compute. reflexivity. Qed.
Example core256_3_6_two' :
  rs_core256 3 6 [None; None; Some 3; Some 21; None; Some 204]%N = Some [1; 2; 3]%N.
Proof. vm_compute. reflexivity. Qed.
Example core256_3_6_three :
  rs_core256 3 6 [None; None; None; Some 21; Some 105; Some 204]%N = Some [1; 2; 3]%N.
Proof. vm_compute. reflexivity. Qed.
Example dmatrix256_3_6 :
  dmatrix256 3 [3; 1; 5] = [[15; 8; 6]; [0; 1; 0]; [153; 224; 120]]%N /\
  invert_mat256 3 (dmatrix256 3 [3; 1; 5]) = Some [[213; 206; 26]; [0; 1; 0]; [41; 17; 57]]%N.
Proof. split; vm_compute; reflexivity. Qed.
Example core256_3_6_short :
  rs_core256 3 6 [None; Some 2; None; None; None; Some 204]%N = None.
Proof. vm_compute. reflexivity. Qed.

(* k = 3, n = 6 over GF(16): the codeword of [1; 2; 3] is [1; 2; 3; 6; 3; 0] *)
Example cw16_3_6 : map (elem16 3 [1; 2; 3]%N) (seq 0 6) = [1; 2; 3; 6; 3; 0]%N.
Proof. vm_compute. reflexivity. Qed.
Example core16_3_6_two :
  rs_core16 3 6 [None; Some 2; None; Some 6; None; Some 0]%N = Some [1; 2; 3]%N.
Proof. vm_compute. reflexivity. Qed.
Example core16_3_6_three :
  rs_core16 3 6 [None; None; None; Some 6; Some 3; Some 0]%N = Some [1; 2; 3]%N.
Proof. vm_compute. reflexivity. Qed.

Print Assumptions rs_interp.
Print Assumptions select_spec.
Print Assumptions rs_core256_correct.
Print Assumptions rs_core256_core_ok.
Print Assumptions rs_core256_total.
Print Assumptions rs_core256_invertible.
Print Assumptions rs_core16_correct.
Print Assumptions rs_core16_core_ok.
Print Assumptions rs_core16_total.
Print Assumptions rs256_api_complete_iff_k_distinct.
Print Assumptions rs256_api_finish_truthful.
Print Assumptions rs16_api_complete_iff_k_distinct.
