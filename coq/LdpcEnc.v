(* Model M of of_ldpc_staircase_build_repair_symbol (and the 2D parity one: same text): the repair
   symbol of matrix column c is the XOR of the other symbols of row c.  C06 for LDPC-Staircase: after
   building the repair symbols in increasing ESI order every parity equation sums to zero, the source
   symbols are untouched, and these are the only repair values with that property. *)
From Coq Require Import Arith List Bool Lia.
From OFV Require Import XorGroup.
Import ListNotations.

Section E.
Variable Sy : Type. Variable sxor : Sy -> Sy -> Sy. Variable s0 : Sy.
Hypothesis sxor_assoc : forall a b c, sxor a (sxor b c) = sxor (sxor a b) c.
Hypothesis sxor_comm : forall a b, sxor a b = sxor b a.
Hypothesis sxor_0_l : forall a, sxor s0 a = a.
Hypothesis sxor_nilp : forall a, sxor a a = s0.
Notation xsum := (xsum Sy sxor s0).

Definition others (row : list nat) (c : nat) : list nat := filter (fun x => negb (x =? c)) row.
(* memset(parity, 0); for every entry e of row c with e->col != c: parity ^= tab[e->col] *)
Definition build (H : list (list nat)) (c : nat) (tab : nat -> Sy) : nat -> Sy :=
  fun x => if x =? c then xsum (map tab (others (nth c H []) c)) else tab x.
Definition encode_all (r : nat) (H : list (list nat)) (tab : nat -> Sy) : nat -> Sy :=
  fold_left (fun t c => build H c t) (seq 0 r) tab.
Definition rowsum (tab : nat -> Sy) (row : list nat) : Sy := xsum (map tab row).

(* staircase shape: row c contains column c; its other entries are sources (>= r) or earlier repairs *)
Definition stair (r : nat) (H : list (list nat)) : Prop :=
  length H = r /\ forall c, c < r -> NoDup (nth c H []) /\ In c (nth c H []) /\
                  forall x, In x (nth c H []) -> x <> c -> (r <= x \/ x < c).

Lemma filter_true_all {A} (f : A -> bool) l : (forall y, In y l -> f y = true) -> filter f l = l.
Proof. induction l as [|x l IH]; intros H; simpl; auto. rewrite (H x) by now left. f_equal. apply IH. intros; apply H; now right. Qed.

Lemma rowsum_split tab row c : NoDup row -> In c row -> rowsum tab row = sxor (tab c) (xsum (map tab (others row c))).
Proof.
  unfold rowsum, others. induction row as [|x row IH]; intros Hnd Hin; [inversion Hin|].
  inversion Hnd as [|? ? Hx Hnd']; subst. simpl. destruct (Nat.eqb_spec x c) as [->|Hne]; simpl.
  - f_equal. f_equal. f_equal. symmetry. apply filter_true_all. intros y Hy. destruct (Nat.eqb_spec y c); [subst; tauto|reflexivity].
  - destruct Hin as [E|Hin]; [congruence|]. rewrite (IH Hnd' Hin). rewrite !sxor_assoc. f_equal. apply sxor_comm.
Qed.

Lemma xsum_ext (f g : nat -> Sy) l : (forall x, In x l -> f x = g x) -> xsum (map f l) = xsum (map g l).
Proof. intros H. f_equal. apply map_ext_in. exact H. Qed.

(* building column c leaves every other column alone *)
Lemma build_other H c tab x : x <> c -> build H c tab x = tab x.
Proof. intros Hne. unfold build. destruct (Nat.eqb_spec x c); [congruence|reflexivity]. Qed.

Lemma encode_prefix (H : list (list nat)) : forall cnt a tab x, (x < a \/ a + cnt <= x) ->
  fold_left (fun t c => build H c t) (seq a cnt) tab x = tab x.
Proof.
  induction cnt as [|cnt IH]; intros a tab x Hx; simpl; auto.
  rewrite IH by lia. apply build_other. lia.
Qed.

(* the value stored at column c when it is built, and never changed afterwards *)
Lemma encode_value r H : stair r H -> forall cnt a tab c, a <= c < a + cnt -> a + cnt <= r ->
  let t' := fold_left (fun t c => build H c t) (seq a cnt) tab in
  t' c = xsum (map t' (others (nth c H []) c)).
Proof.
  intros (Hlen & Hst). induction cnt as [|cnt IH]; intros a tab c Hc Hr; [lia|]. cbv zeta. simpl.
  destruct (Nat.eq_dec c a) as [->|Hne].
  - (* built first; later builds touch only columns > a, none of which occurs in row a besides sources *)
    rewrite encode_prefix by lia. unfold build at 1. rewrite Nat.eqb_refl.
    apply xsum_ext. intros x Hx. unfold others in Hx. apply filter_In in Hx as (Hx & Hxa). apply negb_true_iff, Nat.eqb_neq in Hxa.
    destruct (Hst a ltac:(lia)) as (_ & _ & Hsh). destruct (Hsh x Hx Hxa) as [Hsrc|Hlt].
    + rewrite encode_prefix by lia. symmetry. apply build_other. exact Hxa.
    + rewrite encode_prefix by lia. symmetry. apply build_other. exact Hxa.
  - apply (IH (S a) (build H a tab) c); lia.
Qed.

(* C06, LDPC-Staircase: zero-sum, frame, uniqueness *)
Theorem ldpc_encode_zero_sum_proof r H tab : stair r H ->
  let t' := encode_all r H tab in
  (forall c, c < r -> rowsum t' (nth c H []) = s0) /\ (forall x, r <= x -> t' x = tab x).
Proof.
  intros Hs. cbv zeta. split.
  - intros c Hc. destruct Hs as (Hlen & Hst). destruct (Hst c Hc) as (Hnd & Hin & _).
    rewrite (rowsum_split _ _ c Hnd Hin). unfold encode_all.
    rewrite (encode_value r H (conj Hlen Hst) r 0 tab c ltac:(lia) ltac:(lia)). apply sxor_nilp.
  - intros x Hx. unfold encode_all. apply (encode_prefix H). lia.
Qed.

Theorem ldpc_encode_unique_proof r H (t1 t2 : nat -> Sy) : stair r H ->
  (forall x, r <= x -> t1 x = t2 x) ->
  (forall c, c < r -> rowsum t1 (nth c H []) = s0) -> (forall c, c < r -> rowsum t2 (nth c H []) = s0) ->
  forall c, c < r -> t1 c = t2 c.
Proof.
  intros (Hlen & Hst) Hsrc H1 H2. induction c as [c IH] using lt_wf_ind. intros Hc.
  destruct (Hst c Hc) as (Hnd & Hin & Hsh).
  pose proof (H1 c Hc) as E1. pose proof (H2 c Hc) as E2.
  rewrite (rowsum_split t1 _ c Hnd Hin) in E1. rewrite (rowsum_split t2 _ c Hnd Hin) in E2.
  assert (Eo : xsum (map t1 (others (nth c H []) c)) = xsum (map t2 (others (nth c H []) c))).
  { apply xsum_ext. intros x Hx. unfold others in Hx. apply filter_In in Hx as (Hx & Hxc). apply negb_true_iff, Nat.eqb_neq in Hxc.
    destruct (Hsh x Hx Hxc) as [Hs|Hlt]; [apply Hsrc; exact Hs|apply IH; lia]. }
  rewrite Eo in E1.
  apply (sxor_move Sy sxor s0 sxor_assoc sxor_comm sxor_0_l sxor_nilp) in E1.
  apply (sxor_move Sy sxor s0 sxor_assoc sxor_comm sxor_0_l sxor_nilp) in E2. congruence.
Qed.
End E.
