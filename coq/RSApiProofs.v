From Coq Require Import Arith List Bool Lia.
From OFV Require Import ListAux RSApi.
Import ListNotations.

Section P.
Variable B : Type.
Variable core : nat -> list (option B) -> option (list B).
Variable cb : bool. Variable mk : nat -> B -> B.
Variable k n : nat.
Hypothesis k_le_n : k <= n.
(* MDS + correct inversion (C02a): with at least k symbols present the core decoder succeeds and
   returns k values *)
Hypothesis core_ok : forall t, length t = n -> k <= count_some t -> exists vals, core k t = Some vals /\ length vals = k.

Definition step (s : rs B) (ev : nat * B) : rs B := fst (rs_decode_with_new_symbol core cb mk s (fst ev) (snd ev)).
Definition run (h : list (nat * B)) : rs B := fold_left step h (rs_init B k n).

Definition present (h : list nat) (e : nat) : bool := existsb (Nat.eqb e) h.
(* number of distinct ESIs of 0..n-1 occurring in h *)
Definition ndistinct (h : list nat) : nat := length (filter (present h) (seq 0 n)).

(* ---- counting ---- *)
Lemma count_some_le_firstn (t : list (option B)) j : count_some (firstn j t) <= count_some t.
Proof.
  unfold count_some. revert j. induction t as [|x t IH]; intros [|j]; simpl; try lia.
  specialize (IH j). destruct (is_some x); simpl; lia.
Qed.

Lemma count_some_upd (t : list (option B)) i b : i < length t -> nth i t None = None ->
  count_some (upd t i (Some b)) = S (count_some t).
Proof.
  unfold count_some. revert i. induction t as [|x t IH]; intros [|i] Hi Hn; simpl in *; try lia.
  - subst x. reflexivity.
  - destruct (is_some x); simpl; rewrite (IH i) by (auto; lia); reflexivity.
Qed.

Lemma firstn_upd (t : list (option B)) i j x : firstn j (upd t i x) = if i <? j then upd (firstn j t) i x else firstn j t.
Proof.
  revert i j. induction t as [|y t IH]; intros i j.
  - destruct i, j; simpl; try reflexivity; destruct (_ <? _); reflexivity.
  - destruct i as [|i], j as [|j]; simpl; try reflexivity.
    rewrite IH. change (S i <? S j) with (i <? j). destruct (i <? j); reflexivity.
Qed.

Lemma count_filter_seq (f g : nat -> bool) a len : (forall e, a <= e < a + len -> f e = g e) ->
  length (filter f (seq a len)) = length (filter g (seq a len)).
Proof.
  revert a. induction len as [|len IH]; intros a H; [reflexivity|]. simpl.
  rewrite (H a) by lia. destruct (g a); simpl; rewrite (IH (S a)); auto; intros; apply H; lia.
Qed.

Lemma count_some_seq (t : list (option B)) :
  count_some t = length (filter (fun e => is_some (nth e t None)) (seq 0 (length t))).
Proof.
  unfold count_some.
  assert (G : forall a, length (filter is_some t) = length (filter (fun e => is_some (nth (e - a) t None)) (seq a (length t)))).
  { induction t as [|x t IH]; intros a; [reflexivity|].
    cbn [length seq]. cbn [filter]. rewrite Nat.sub_diag. change (nth 0 (x :: t) None) with x.
    assert (E : length (filter (fun e => is_some (nth (e - a) (x :: t) None)) (seq (S a) (length t))) = length (filter is_some t)).
    { rewrite (IH (S a)). apply count_filter_seq. intros e He. replace (e - a) with (S (e - S a)) by lia. reflexivity. }
    destruct (is_some x); cbn [length]; rewrite E; reflexivity. }
  rewrite (G 0). apply count_filter_seq. intros e _. now rewrite Nat.sub_0_r.
Qed.

Lemma nth_firstn_lt_aux (t : list (option B)) : forall j e, e < j -> nth e (firstn j t) None = nth e t None.
Proof. induction t as [|x t IH]; intros [|j] [|e] H; simpl; auto; try lia. apply IH. lia. Qed.

Lemma present_app h e x : present (h ++ [x]) e = present h e || (e =? x).
Proof. unfold present. rewrite existsb_app. simpl. now rewrite orb_false_r. Qed.

Lemma ndistinct_mono h x : ndistinct h <= ndistinct (h ++ [x]).
Proof.
  unfold ndistinct. generalize (seq 0 n). induction l as [|e l IH]; simpl; auto.
  rewrite present_app. destruct (present h e); simpl; [lia|]. destruct (e =? x); simpl; lia.
Qed.

Lemma ndistinct_dup h x : present h x = true -> ndistinct (h ++ [x]) = ndistinct h.
Proof.
  intros Hp. unfold ndistinct. apply count_filter_seq. intros e _. rewrite present_app.
  destruct (Nat.eqb_spec e x) as [->|]; [rewrite Hp; reflexivity|now rewrite orb_false_r].
Qed.

(* ---- invariant along a history of of_decode_with_new_symbol calls ---- *)
Record Inv (s : rs B) (h : list nat) : Prop := {
  i_len : length (tab s) = n; i_k : rk s = k; i_n : rn s = n;
  i_open : fin s = false ->
     (forall e, e < n -> is_some (nth e (tab s) None) = present h e) /\
     navail s = count_some (tab s) /\ navail_src s = count_some (firstn k (tab s)) /\ navail s < k;
  i_done : fin s = true -> k <= ndistinct h }.

Lemma tabrel_count (s : rs B) h : length (tab s) = n ->
  (forall e, e < n -> is_some (nth e (tab s) None) = present h e) -> count_some (tab s) = ndistinct h.
Proof.
  intros Hl Hr. rewrite count_some_seq, Hl. unfold ndistinct. apply count_filter_seq. intros e He. apply Hr. lia.
Qed.

Lemma nth_repeat_none (m e : nat) : nth e (repeat (@None B) m) None = None.
Proof. revert e; induction m; intros [|e]; simpl; auto. Qed.

Lemma count_some_repeat_none (m j : nat) : count_some (firstn j (repeat (@None B) m)) = 0.
Proof. unfold count_some. revert j; induction m; intros [|j]; simpl; auto. Qed.

Lemma init_inv : 1 <= k -> Inv (rs_init B k n) [].
Proof.
  intros Hk. constructor; simpl; auto; [apply repeat_length| |discriminate].
  intros _. split; [|split; [|split]].
  - intros e _. now rewrite nth_repeat_none.
  - rewrite <- (firstn_all (repeat None n)). symmetry. apply count_some_repeat_none.
  - symmetry. apply count_some_repeat_none.
  - lia.
Qed.

Lemma finish_spec (s : rs B) : length (tab s) = n -> rk s = k ->
  navail s = count_some (tab s) -> fin s = false ->
  let '(s', st) := rs_finish core cb mk s in
  rk s' = k /\ rn s' = rn s /\ length (tab s') = n /\
  (k <= navail s -> fin s' = true /\ st = OK) /\
  (navail s < k -> s' = s /\ st = FAILURE).
Proof.
  intros Hl Hk Hn Hf. unfold rs_finish. rewrite Hf, Hk.
  destruct (Nat.ltb_spec (navail s) k) as [Hlt|Hge].
  - repeat split; auto; intros; lia.
  - destruct (Nat.eqb_spec (navail_src s) k).
    + simpl. repeat split; auto; intros; lia.
    + destruct (core_ok (tab s) Hl ltac:(lia)) as (vals & Hc & Hlv). rewrite Hc.
      assert (G : forall vals t i ev, length (fst (fill cb mk vals t i ev)) = length t).
      { clear. induction vals as [|v vals IH]; intros [|e t] i ev; simpl; auto.
        destruct e; [specialize (IH t (S i) ev)|specialize (IH t (S i) (if cb then ev ++ [i] else ev))];
        destruct (fill cb mk vals t (S i) _); simpl in *; lia. }
      specialize (G vals (tab s) 0 (evs s)).
      destruct (fill cb mk vals (tab s) 0 (evs s)) as [t2 ev2]. simpl in *.
      repeat split; auto; try lia.
Qed.

Lemma step_inv s h ev : 1 <= k -> Inv s h -> fst ev < n -> Inv (step s ev) (h ++ [fst ev]).
Proof.
  intros Hk1 I He. destruct ev as [e b]. simpl in *. unfold step, rs_decode_with_new_symbol. simpl.
  destruct (fin s) eqn:Hf.
  - simpl. constructor; try apply I; [congruence|]. intros _. pose proof (i_done _ _ I Hf). pose proof (ndistinct_mono h e). lia.
  - destruct (i_open _ _ I Hf) as (Hrel & Hna & Hns & Hlt).
    destruct (nth e (tab s) None) as [x|] eqn:Hx.
    + simpl. assert (Hp : present h e = true) by (rewrite <- Hrel by exact He; now rewrite Hx).
      constructor; try apply I; [|congruence]. intros _. split; [|split; [|split]]; auto.
      * intros e' He'. rewrite present_app, <- Hrel by exact He'.
        destruct (Nat.eqb_spec e' e) as [->|]; [rewrite Hx; reflexivity|now rewrite orb_false_r].
    + (* fresh symbol *)
      assert (Hnp : present h e = false) by (rewrite <- Hrel by exact He; now rewrite Hx).
      set (t1 := upd (tab s) e (Some b)).
      assert (Hl1 : length t1 = n) by (unfold t1; rewrite upd_length; apply I).
      assert (Hrel1 : forall e', e' < n -> is_some (nth e' t1 None) = present (h ++ [e]) e').
      { intros e' He'. rewrite present_app. unfold t1. destruct (Nat.eqb_spec e' e) as [->|Hne].
        - rewrite nth_upd_eq by (rewrite (i_len _ _ I); exact He). now rewrite orb_true_r.
        - rewrite nth_upd_neq by lia. rewrite orb_false_r. apply Hrel. exact He'. }
      assert (Hc1 : count_some t1 = S (navail s)).
      { unfold t1. rewrite count_some_upd; [lia|rewrite (i_len _ _ I); exact He|exact Hx]. }
      assert (Hs1 : (if e <? rk s then S (navail_src s) else navail_src s) = count_some (firstn k t1)).
      { unfold t1. rewrite firstn_upd, (i_k _ _ I). destruct (Nat.ltb_spec e k) as [Hek|Hek]; [|exact Hns].
        rewrite count_some_upd; [lia| |].
        - rewrite firstn_length, (i_len _ _ I). lia.
        - rewrite nth_firstn_lt_aux by exact Hek. exact Hx. }
      assert (Hnd : ndistinct (h ++ [e]) = S (navail s)).
      { rewrite <- Hc1. symmetry. change t1 with (tab {| rk := rk s; rn := rn s; tab := t1; navail := 0; navail_src := 0; fin := false; evs := [] |}).
        apply tabrel_count; simpl; auto. }
      rewrite (i_k _ _ I). fold t1.
      destruct (Nat.eqb_spec (if e <? k then S (navail_src s) else navail_src s) k) as [Eq|Hneq].
      * simpl. constructor; simpl; auto; try apply I; [discriminate|]. intros _.
        rewrite Hnd. rewrite (i_k _ _ I) in Hs1. pose proof (count_some_le_firstn t1 k). lia.
      * destruct (Nat.leb_spec k (S (navail s))) as [Hge|Hlt2].
        -- set (s1 := {| rk := k; rn := rn s; tab := t1; navail := S (navail s);
                         navail_src := if e <? k then S (navail_src s) else navail_src s; fin := false; evs := evs s |}).
           pose proof (finish_spec s1 Hl1 eq_refl ltac:(simpl; lia) eq_refl) as HF.
           destruct (rs_finish core cb mk s1) as [s2 st]. destruct HF as (K2 & N2 & L2 & Hok & _).
           destruct (Hok ltac:(simpl; lia)) as (F2 & ->). simpl.
           constructor; auto; [simpl in N2; rewrite N2; apply I|congruence|]. intros _. rewrite Hnd. lia.
        -- simpl. constructor; simpl; auto; try apply I; [|discriminate]. intros _.
           split; [exact Hrel1|]. split; [lia|]. split; [rewrite (i_k _ _ I) in Hs1; exact Hs1|lia].
Qed.

Lemma run_inv_gen : 1 <= k -> forall h s hs, Inv s hs -> (forall ev, In ev h -> fst ev < n) ->
  Inv (fold_left step h s) (hs ++ map fst h).
Proof.
  intros Hk. induction h as [|ev h IH]; intros s hs I Hr; simpl.
  - now rewrite app_nil_r.
  - replace (hs ++ fst ev :: map fst h) with ((hs ++ [fst ev]) ++ map fst h) by (rewrite <- app_assoc; reflexivity).
    apply IH.
    + apply step_inv; auto. apply Hr. now left.
    + intros e He. apply Hr. now right.
Qed.

(* C02 (b)+(c) / C10 for the incremental API: after any history of of_decode_with_new_symbol calls
   (any order, duplicates), decoding is complete iff at least k distinct symbols were submitted *)
Theorem rs_complete_iff_k_distinct_proof (h : list (nat * B)) : 1 <= k -> (forall ev, In ev h -> fst ev < n) ->
  (rs_is_complete (run h) = true <-> k <= ndistinct (map fst h)).
Proof.
  intros Hk Hr. pose proof (run_inv_gen Hk h (rs_init B k n) [] (init_inv Hk) Hr) as I. simpl in I.
  unfold rs_is_complete, run. split.
  - intros Hf. apply (i_done _ _ I Hf).
  - intros Hd. destruct (fin (fold_left step h (rs_init B k n))) eqn:Hf; [reflexivity|].
    destruct (i_open _ _ I Hf) as (Hrel & Hna & _ & Hlt).
    rewrite (tabrel_count _ _ (i_len _ _ I) Hrel) in Hna. lia.
Qed.

(* of_finish_decoding after such a history: OK iff complete afterwards, FAILURE iff fewer than k *)
Theorem rs_finish_truthful_proof (h : list (nat * B)) : 1 <= k -> (forall ev, In ev h -> fst ev < n) ->
  let r := rs_finish core cb mk (run h) in
  ((snd r = OK) <-> (rs_is_complete (fst r) = true)) /\ ((snd r = FAILURE) <-> (rs_is_complete (fst r) = false)) /\
  ((rs_is_complete (fst r) = true) <-> (k <= ndistinct (map fst h))).
Proof.
  intros Hk Hr. pose proof (run_inv_gen Hk h (rs_init B k n) [] (init_inv Hk) Hr) as I. simpl in I.
  fold (run h) in I. cbv zeta. destruct (fin (run h)) eqn:Hf.
  - unfold rs_finish. rewrite Hf. unfold rs_is_complete. simpl. rewrite Hf.
    split; [tauto|]. split; [split; discriminate|]. split; [intros _; apply (i_done _ _ I Hf)|auto].
  - destruct (i_open _ _ I Hf) as (Hrel & Hna & _ & Hlt).
    pose proof (finish_spec (run h) (i_len _ _ I) (i_k _ _ I) Hna Hf) as HF.
    destruct (rs_finish core cb mk (run h)) as [s' st]. destruct HF as (_ & _ & _ & _ & Hfail).
    destruct (Hfail Hlt) as (-> & ->). unfold rs_is_complete. simpl. rewrite Hf.
    rewrite (tabrel_count _ _ (i_len _ _ I) Hrel) in Hna.
    split; [split; discriminate|]. split; [tauto|]. split; [discriminate|lia].
Qed.

Lemma map_filter_shift (f g : nat -> bool) l i : (forall x, f (S x) = g x) ->
  map (fun j => i + j) (filter f (map S l)) = map (fun j => S i + j) (filter g l).
Proof.
  intros H. induction l as [|a l IH]; [reflexivity|]. cbn [map filter]. rewrite H.
  destruct (g a); cbn [map]; rewrite IH; [f_equal; lia|reflexivity].
Qed.

(* ---- callback events of the copy-out loop (C11, RS part) ---- *)
Lemma fill_events : forall vals t i ev,
  snd (fill cb mk vals t i ev) =
  ev ++ (if cb then map (fun j => i + j) (filter (fun j => negb (is_some (nth j t None))) (seq 0 (Nat.min (length vals) (length t)))) else []).
Proof.
  induction vals as [|v vals IH]; intros t i ev.
  - simpl. destruct cb; now rewrite app_nil_r.
  - destruct t as [|e t]; [simpl; destruct cb; now rewrite app_nil_r|].
    cbn [fill length Nat.min]. cbn [seq filter]. change (nth 0 (e :: t) None) with e. rewrite <- seq_shift.
    assert (Hshift : map (fun j => i + j) (filter (fun j => negb (is_some (nth j (e :: t) None))) (map S (seq 0 (Nat.min (length vals) (length t)))))
                   = map (fun j => S i + j) (filter (fun j => negb (is_some (nth j t None))) (seq 0 (Nat.min (length vals) (length t))))).
    { apply map_filter_shift. intros x. reflexivity. }
    destruct e as [b|].
    + specialize (IH t (S i) ev). destruct (fill cb mk vals t (S i) ev) as [t2 ev2]. simpl in IH. cbn [snd is_some negb].
      rewrite IH. destruct cb; [|reflexivity]. now rewrite Hshift.
    + specialize (IH t (S i) (if cb then ev ++ [i] else ev)).
      destruct (fill cb mk vals t (S i) (if cb then ev ++ [i] else ev)) as [t2 ev2]. simpl in IH. cbn [snd is_some negb].
      rewrite IH. destruct cb; [|reflexivity]. cbn [map]. rewrite Hshift, <- app_assoc. simpl. now rewrite Nat.add_0_r.
Qed.

(* one callback per source symbol that is still missing when decoding happens, in increasing ESI
   order, none for a symbol that was received, none without a registered callback *)
Theorem rs_callback_events_proof (s : rs B) vals : length vals = k -> length (tab s) = n -> fin s = false ->
  navail_src s <> rk s -> k <= navail s -> rk s = k -> core k (tab s) = Some vals ->
  evs (fst (rs_finish core cb mk s)) =
  evs s ++ (if cb then filter (fun j => negb (is_some (nth j (tab s) None))) (seq 0 k) else []).
Proof.
  intros Hv Hl Hf Hns Hna Hk Hc. unfold rs_finish. rewrite Hf, Hk.
  destruct (Nat.ltb_spec (navail s) k); [lia|]. destruct (Nat.eqb_spec (navail_src s) k); [congruence|].
  rewrite Hc. pose proof (fill_events vals (tab s) 0 (evs s)) as HE.
  destruct (fill cb mk vals (tab s) 0 (evs s)) as [t2 ev2]. simpl in *. rewrite HE.
  rewrite Hv, Hl, Nat.min_l by exact k_le_n. destruct cb; [|reflexivity]. f_equal.
  apply map_id.
Qed.
End P.
