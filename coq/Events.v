(* Callback events of the LDPC-Staircase decoder (C11): the streaming decoder and the ML finish with a
   log of the columns for which the library asks the application for a buffer
   (decoded_source_symbol_callback for a source column, decoded_repair_symbol_callback for a repair
   column), in call order.  The control flow is that of ITModel.decode / MLModel.simplify /
   MLModel.ml_finish, which these functions are proved to simulate (EventsProofs.v); only the log is new:
     IT step 3:   a row left with one entry is decoded -> event for that column, THEN the recursive call;
     ML simplify: a row left with one unknown entry is decoded -> event, then the recursive call;
     ML solver:   after a successful elimination, one event per source still missing, in ESI order
                  (no event for the repair symbols the solver found: they are discarded). *)
From Coq Require Import List Arith Bool.
From OFV Require Import ListAux ITModel DenseSolve MLModel.
Import ListNotations.
Set Implicit Arguments.

Section EV.
Variable Sy : Type. Variable sxor : Sy -> Sy -> Sy. Variable s0 : Sy.
Notation st := (st Sy).

Fixpoint step3_ev (dec : st -> nat -> Sy -> option (st * list nat)) (L : list nat) (s : st) : option (st * list nat) :=
  match L with
  | [] => Some (s, [])
  | row :: L' =>
      let '(c', s) := is_complete s in
      if c' then Some (s, []) else
      if getn (enc s) row =? 1 then
        match nth row (rws s) [], nth row (ct s) None with
        | [cc], Some t =>
            match dec (consume s row) cc t with
            | None => None
            | Some (s2, e1) => match step3_ev dec L' s2 with None => None | Some (s3, e2) => Some (s3, cc :: e1 ++ e2) end
            end
        | _, _ => None
        end
      else step3_ev dec L' s
  end.

Fixpoint decode_ev (fuel : nat) (s : st) (c : nat) (v : Sy) : option (st * list nat) :=
  match fuel with O => None | S f =>
  if known s c then Some (s, []) else
  let s := set_tab s c v in
  let early := if r s <=? c then is_complete s else (false, s) in
  if fst early then Some (snd early, []) else
  let s := snd early in
  let '(s, L) := step2 sxor s0 s c v in
  step3_ev (decode_ev f) (rev L) s
  end.

(* one history of submissions, log of all calls *)
Definition run_ev (fuel : nat) (s : st) (hist : list (nat * Sy)) : option (st * list nat) :=
  fold_left (fun acc ev => match acc with None => None | Some (s, l) =>
      match decode_ev fuel s (fst ev) (snd ev) with None => None | Some (s', l') => Some (s', l ++ l') end end) hist (Some (s, [])).

Fixpoint simplify_ev (fuel : nat) (s : st) (c : nat) (v : Sy) : option (st * list nat) :=
  match fuel with O => None | S f =>
  match rows_with s c with
  | [] => Some (s, [])
  | rowsl =>
    let early := if r s <=? c then is_complete s else (false, s) in
    if fst early then Some (snd early, []) else
    fold_left (fun os row => match os with None => None | Some (s, l) =>
        let t := match nth row (ct s) None with None => v | Some t => sxor t v end in
        let u := getn (unk s) row - 1 in
        let rw := rm c (nth row (rws s) []) in
        let s1 := set_row s row rw u (Some t) in
        if u =? 1 then
          match rw with
          | c' :: _ =>
            match nth c' (tab s1) None with
            | Some _ => Some (s1, l)
            | None => match simplify_ev f (set_tab (set_row s1 row (rm c' rw) (u - 1) None) c' t) c' t with
                      | None => None | Some (s2, l2) => Some (s2, l ++ c' :: l2) end
            end
          | [] => None
          end
        else Some (s1, l)
      end) rowsl (Some (snd early, []))
  end end.

Definition inject_ev (fuel : nat) (os : option (st * list nat)) (c : nat) : option (st * list nat) :=
  match os with None => None | Some (s, l) =>
    match nth c (tab s) None with
    | Some v => match simplify_ev fuel s c v with None => None | Some (s', l') => Some (s', l ++ l') end
    | None => Some (s, l) end end.

(* events of of_finish_decoding: those of the simplification, then (only if the solver succeeded) one per
   source column that was still unknown before the write-back, in increasing ESI order *)
Definition ml_finish_ev (fuel : nat) (perm : list nat) (s : st) : option (outcome Sy * list nat) :=
  let k := n s - r s in
  let srcs := map (fun i => r s + i) (seq 0 k) in
  let os := fold_left (inject_ev fuel) srcs (Some (prepar s, [])) in
  let os := fold_left (inject_ev fuel) perm os in
  match os, ml_finish sxor s0 fuel perm s with
  | Some (s1, l), Some o =>
      Some (o, if o_solved o then l ++ filter (fun c => match nth c (tab s1) None with None => true | Some _ => false end) srcs else l)
  | _, _ => None
  end.
End EV.
