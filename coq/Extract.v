(* Extraction of the executable models for the correspondence check.
   ExtrOcamlBasic only: bool, option, list, prod, unit, sumbool map to OCaml natives;
   nat, positive, N, Z stay the extracted inductive types. No Extract Constant. *)
From Coq Require Import Extraction ExtrOcamlBasic ZArith NArith List.
From OFV Require Import CSem KernelRun ITModel ITRun Sparse SparseRun RSApi RSRun Pchk Params Dense DenseRun MLRun Pchk2D RSEnc GaussJordan InvertVdm ApiArgs HeapRun RSHeap SparseId.
From OFV.gen Require Import GenPrng GenBlocking.
Extraction Language OCaml.
Extraction "model.ml" Z.of_nat Z.to_nat Z.add Z.mul Z.sub Z.opp Z.compare N.of_nat N.to_nat Z.of_N Z.to_N
  of_rfc5170_rand of_rfc5170_srand of_compute_blocking_struct run_kernel it_session s_allocate sparse_step rs_session pchk accept_ldpc accept_rs28 accept_rs2m d_allocate dense_step solve_bytes ml_session create2d rs_repairs invert_mat256 invert_mat16 ev_session build_enc256 build_enc16 api_verdict hweight_array_run heap_session rs_heap_session i_allocate i_step i_dump.
