(* C09 — parameters are validated: accepted <=> inside the advertised limits.
   Params.v holds the decisions of the three set_fec_parameters functions on the 32-bit values the
   C sees, with the limits re-read from /repo's headers on every run (gen/GenConsts.v).  They are TIED TO THE SOURCE TEXT:
   gen/GenParams.v is regenerated on every run from the parameter checks at the head of the three functions and of the
   matrix construction (tools/gen_params.py; clang parses, c2gallina gives the expressions C's integer semantics), and the
   theorems *_source_checks_* below prove, for every value the C types can hold, that the generated code is defined and
   decides exactly accept_*.  The check also compares the decisions with the compiled C on an exhaustive boundary grid.
   RS over GF(2^m) is a known finding: n is never compared with the field size (the repository's own
   test RS_2m_4.src1 relies on it), so the full statement is refuted there and holds outside that class. *)
From Coq Require Import ZArith Bool.
From OFV Require Import CSem Params ParamsProofs ParamsTie.
From OFV.gen Require Import GenConsts GenParams.
Local Open Scope Z_scope.

Theorem accept_ldpc_iff_limits : forall k r L n1 seed,
  0 <= k < 2^32 -> 0 <= r < 2^32 -> accept_ldpc k r L n1 seed = limits_ldpc k r L n1 seed.
Proof. exact accept_ldpc_iff_limits_proof. Qed.

Theorem accept_rs28_iff_limits : forall k r L, 0 <= k -> 0 <= r -> accept_rs28 k r L = limits_rs28 k r L.
Proof. exact accept_rs28_iff_limits_proof. Qed.

Theorem accept_rs2m_iff_limits_refuted : exists m k r L, accept_rs2m m k r L = true /\ limits_rs2m m k r L = false.
Proof. exact accept_rs2m_refuted_proof. Qed.

Theorem accept_rs2m_iff_limits_holds_outside_class : forall m k r L, 0 <= k -> 0 <= r ->
  (k + r <= 2 ^ m - 1 \/ accept_rs2m m k r L = false) -> accept_rs2m m k r L = limits_rs2m m k r L.
Proof. exact accept_rs2m_outside_class_proof. Qed.

(* accepted LDPC configurations satisfy the premises the LDPC theorems need *)
Theorem accept_ldpc_implies_valid : forall k r L n1 seed, 0 <= k < 2^32 -> 0 <= r < 2^32 -> accept_ldpc k r L n1 seed = true ->
  1 <= k /\ 3 <= n1 <= r /\ 1 <= L /\ 1 <= seed <= 2147483646 /\ k + r <= 50000.
Proof. exact accept_ldpc_valid_proof. Qed.

Example accepted_at_the_limits : accept_ldpc 50000 0 1 3 1 = false /\ accept_ldpc 49997 3 1 3 2147483646 = true /\
  accept_rs28 254 1 1 = true /\ accept_rs28 255 1 1 = false /\ accept_rs2m 8 200 55 7 = true.
Proof. vm_compute. repeat split. Qed.

(* ---- the decision functions are what the source text says (translator output) ---- *)
Theorem rs28_source_checks_decide_accept : forall k r L, is_u32 k -> is_u32 r -> is_u32 L ->
  rs28_prefix k c_rs28_max_k r L c_rs28_max_n = Some (accept_rs28 k r L).
Proof. exact rs28_prefix_is_accept. Qed.
Theorem rs2m_source_checks_decide_accept : forall m k r L, 0 <= m < 65536 -> is_u32 k -> is_u32 r -> is_u32 L ->
  rs2m_prefix m k r L = Some (accept_rs2m m k r L).
Proof. exact rs2m_prefix_is_accept. Qed.
Theorem ldpc_source_checks_decide_accept : forall k r L n1 seed, is_u32 k -> is_u32 r -> is_u32 L -> 0 <= n1 < 256 ->
  -2147483648 <= seed < 2147483648 ->
  (ldpc_prefix n1 k r L seed c_ldpc_max_k c_ldpc_max_n = Some true /\ pchk_prefix r (u32 (k + r)) n1 (wrapu32 seed) = Some true)
  <-> accept_ldpc k r L n1 seed = true.
Proof. exact ldpc_checks_pass_iff_accept. Qed.
Theorem ldpc_source_checks_never_undefined : forall k r L n1 seed, is_u32 k -> is_u32 r -> is_u32 L -> 0 <= n1 < 256 ->
  -2147483648 <= seed < 2147483648 ->
  match ldpc_prefix n1 k r L seed c_ldpc_max_k c_ldpc_max_n with
  | Some true => pchk_prefix r (u32 (k + r)) n1 (wrapu32 seed) = Some (accept_ldpc k r L n1 seed)
  | Some false => accept_ldpc k r L n1 seed = false
  | None => False
  end.
Proof. exact ldpc_prefix_is_accept. Qed.

Print Assumptions rs28_source_checks_decide_accept.
Print Assumptions rs2m_source_checks_decide_accept.
Print Assumptions ldpc_source_checks_decide_accept.
Print Assumptions accept_ldpc_iff_limits.
Print Assumptions accept_rs2m_iff_limits_holds_outside_class.

(* Second half of the property: encoding, decoding and query calls.  ApiArgs.v mirrors the tests every API function
   makes before it hands the call to a codec (NULL session, role, ESI range, the pointers it tests) plus the ESI test
   of the codecs' build functions; the check runs a grid of such calls on the compiled C for every codec and role. *)
From OFV Require Import ApiArgs ApiArgsProofs.

(* a call reaches the codec exactly when it is inside the documented domain *)
Theorem api_dispatch_iff_domain : forall (s : option ses) (c : call),
  (forall ss, s = Some ss -> 0 <= s_k ss /\ 0 <= s_r ss /\ s_k ss + s_r ss < 2 ^ 32) ->
  (api_verdict s c = VDispatch <-> in_domain s c).
Proof. exact api_dispatch_iff_domain_proof. Qed.

(* every other call reports an error (false for the completion query) ... *)
Theorem api_refused_is_error : forall (s : option ses) (c : call),
  api_verdict s c <> VDispatch ->
  (c = CIsComplete /\ api_verdict s c = VFalse) \/ (c <> CIsComplete /\ status_of (api_verdict s c) <> 0).
Proof. exact api_refused_is_error_proof. Qed.

(* ... and returns before the codec is entered: whatever the codec's state type and step function, the state is unchanged *)
Theorem api_refused_keeps_state : forall (St Out : Type) (dispatch : St -> call -> St * Out) (refused : verdict -> Out) info st c,
  api_verdict info c <> VDispatch -> fst (api_step dispatch refused info st c) = st.
Proof. intros. apply api_refused_keeps_state_proof. assumption. Qed.

Example api_examples :
  let d := Some {| s_role := RDec; s_codec := 3; s_k := 10; s_r := 6 |} in
  let e := Some {| s_role := REnc; s_codec := 1; s_k := 10; s_r := 6 |} in
  api_verdict d (CDecode false 15) = VDispatch /\ api_verdict d (CDecode false 16) = VFatal /\ api_verdict d (CBuild 10) = VFatal /\
  api_verdict e (CBuild 9) = VError /\ api_verdict e (CBuild 10) = VDispatch /\ api_verdict e (CBuild 16) = VError /\
  api_verdict e CFinish = VFatal /\ api_verdict None CIsComplete = VFalse /\ api_verdict d (CGetCtl 1024 false 1) = VDispatch.
Proof. vm_compute. repeat split. Qed.

Print Assumptions api_dispatch_iff_domain.
Print Assumptions api_refused_is_error.
