(* C09 — parameters are validated: accepted <=> inside the advertised limits.
   Params.v mirrors the decisions of the three set_fec_parameters functions on the 32-bit values the
   C sees, with the limits re-read from /repo's headers on every run (gen/GenConsts.v); the check
   compares these decision functions with the compiled C on an exhaustive boundary grid.
   RS over GF(2^m) is a known finding: n is never compared with the field size (the repository's own
   test RS_2m_4.src1 relies on it), so the full statement is refuted there and holds outside that class. *)
From Coq Require Import ZArith Bool.
From OFV Require Import Params ParamsProofs.
Local Open Scope Z_scope.

Theorem accept_ldpc_iff_limits : forall k r L n1 seed,
  0 <= k < 2^32 -> 0 <= r < 2^32 -> accept_ldpc k r L n1 seed = limits_ldpc k r L n1 seed.
Proof. exact accept_ldpc_iff_limits_proof. Qed.

Theorem accept_rs28_iff_limits : forall k r L, 0 <= k -> 0 <= r -> accept_rs28 k r L = limits_rs28 k r L.
Proof. exact accept_rs28_iff_limits_proof. Qed.

Theorem accept_rs2m_iff_limits_refuted : exists m k r L, accept_rs2m m k r L = true /\ limits_rs2m m k r L = false.
Proof. exact accept_rs2m_refuted_proof. Qed.

Theorem accept_rs2m_iff_limits_holds_outside_class : forall m k r L, 0 <= k -> 0 <= r ->
  (k + r <= 2 ^ m - 1 \/ accept_rs2m m k r L = false) -> accept_rs2m m k r L = limits_rs2m m k r L.
Proof. exact accept_rs2m_outside_class_proof. Qed.

(* accepted LDPC configurations satisfy the premises the LDPC theorems need *)
Theorem accept_ldpc_implies_valid : forall k r L n1 seed, 0 <= k < 2^32 -> 0 <= r < 2^32 -> accept_ldpc k r L n1 seed = true ->
  1 <= k /\ 3 <= n1 <= r /\ 1 <= L /\ 1 <= seed <= 2147483646 /\ k + r <= 50000.
Proof. exact accept_ldpc_valid_proof. Qed.

Example accepted_at_the_limits : accept_ldpc 50000 0 1 3 1 = false /\ accept_ldpc 49997 3 1 3 2147483646 = true /\
  accept_rs28 254 1 1 = true /\ accept_rs28 255 1 1 = false /\ accept_rs2m 8 200 55 7 = true.
Proof. vm_compute. repeat split. Qed.

Print Assumptions accept_ldpc_iff_limits.
Print Assumptions accept_rs2m_iff_limits_holds_outside_class.
