(* C17, continued: set-level specifications of the remaining copy operations of the sparse-matrix model:
   A. the plain copies (copyrows, copycols, copy_filled_matrix, dense round trip) - insertions into a
      cleared (or, for copy_filled, the given) destination;
   B. the "optimised" copies of SparseOpt.v (insert_opt with a column hint, copyrows_opt, copycols_opt):
      the hinted column walk yields what of_mod2sparse_insert yields, the destination is not cleared, and
      the copy stops at the first out-of-range source index. *)
From Coq Require Import Arith List Bool Lia.
From OFV Require Import ListAux Sparse SparseProofs SparseOpt.
Import ListNotations.

(* ---------- auxiliaries ---------- *)
Lemma bool_eq_iff (a b : bool) : (a = true <-> b = true) -> a = b.
Proof.
  destruct a, b; intros [H1 H2]; try reflexivity.
  - symmetry. apply H1. reflexivity.
  - apply H2. reflexivity.
Qed.

Lemma has_In m i j : has m i j = true <-> In j (nth i (rws m) []).
Proof. unfold has. apply mem_In. Qed.

Lemma has_oor m i j : WF m -> nr m <= i -> has m i j = false.
Proof.
  intros W Hi. unfold has. rewrite nth_overflow by (rewrite (wf_rl m W); exact Hi). reflexivity.
Qed.

Lemma has_range m i j : WF m -> has m i j = true -> i < nr m /\ j < nc m.
Proof.
  intros W Hh. destruct (Nat.lt_ge_cases i (nr m)) as [Hi|Hi].
  - split; [exact Hi|]. apply has_In in Hh. destruct (wf_rs m W i Hi) as (_ & Hr). apply Hr. exact Hh.
  - rewrite (has_oor m i j W Hi) in Hh. discriminate.
Qed.

(* column view of the set *)
Lemma has_col m i j : WF m -> i < nr m -> j < nc m -> (has m i j = true <-> In i (nth j (cls m) [])).
Proof. intros W Hi Hj. rewrite has_In. apply (wf_cons m W i j Hi Hj). Qed.

Lemma col_In_has m i j : WF m -> j < nc m -> (In i (nth j (cls m) []) <-> i < nr m /\ has m i j = true).
Proof.
  intros W Hj. split.
  - intros Hin. destruct (wf_cs m W j Hj) as (_ & Hr). pose proof (Hr i Hin) as Hi.
    split; [exact Hi|]. apply (has_col m i j W Hi Hj). exact Hin.
  - intros (Hi & Hh). apply (has_col m i j W Hi Hj). exact Hh.
Qed.

Lemma in_rowpairs (f : nat -> list nat) n i j :
  In (i, j) (flat_map (fun i => map (fun j => (i, j)) (f i)) (seq 0 n)) <-> i < n /\ In j (f i).
Proof.
  rewrite in_flat_map. split.
  - intros (i' & Hi' & Hin). apply in_seq in Hi'. apply in_map_iff in Hin as (j' & E & Hj').
    inversion E; subst. split; [lia|exact Hj'].
  - intros (Hi & Hj). exists i. split; [apply in_seq; lia|]. apply in_map_iff. exists j. auto.
Qed.

Lemma in_colpairs (f : nat -> list nat) n i j :
  In (i, j) (flat_map (fun j => map (fun i => (i, j)) (f j)) (seq 0 n)) <-> j < n /\ In i (f j).
Proof.
  rewrite in_flat_map. split.
  - intros (j' & Hj' & Hin). apply in_seq in Hj'. apply in_map_iff in Hin as (i' & E & Hi').
    inversion E; subst. split; [lia|exact Hi'].
  - intros (Hj & Hi). exists j. split; [apply in_seq; lia|]. apply in_map_iff. exists i. auto.
Qed.

(* insertion of a list of in-range entries into the cleared destination: the set is the list *)
Lemma insert_all_clear_spec r es : WF r -> (forall e, In e es -> fst e < nr r /\ snd e < nc r) ->
  WF (insert_all (s_clear r) es) /\ nr (insert_all (s_clear r) es) = nr r /\ nc (insert_all (s_clear r) es) = nc r /\
  forall i j, has (insert_all (s_clear r) es) i j = true <-> In (i, j) es.
Proof.
  intros Wr Hes. destruct (clear_wf r) as (Wc & Hc0).
  destruct (insert_all_spec es (s_clear r) Wc Hes) as (W' & En & Ec & Hh).
  split; [exact W'|]. split; [exact En|]. split; [exact Ec|].
  intros i j. rewrite Hh, Hc0. simpl. apply existsb_pair.
Qed.

(* ---------- A. plain copies ---------- *)

(* A1 of_mod2sparse_copyrows *)
Theorem copyrows_spec m r rows : WF m -> WF r -> nc m <= nc r -> (forall i, i < nr r -> nth i rows 0 < nr m) ->
  WF (s_copyrows m r rows) /\ nr (s_copyrows m r rows) = nr r /\ nc (s_copyrows m r rows) = nc r /\
  forall i j, has (s_copyrows m r rows) i j = (i <? nr r) && has m (nth i rows 0) j.
Proof.
  intros Wm Wr Hc Hrows. unfold s_copyrows.
  destruct (Nat.ltb_spec (nc r) (nc m)) as [Hlt|_]; [lia|].
  match goal with |- context [insert_all _ ?l] => set (es := l) end.
  assert (Hin : forall i j, In (i, j) es <-> i < nr r /\ In j (nth (nth i rows 0) (rws m) [])).
  { intros i j. apply (in_rowpairs (fun i => nth (nth i rows 0) (rws m) [])). }
  destruct (insert_all_clear_spec r es Wr) as (W' & En & Ec & Hh).
  { intros (i, j) He. apply Hin in He as (Hi & Hj). simpl. split; [exact Hi|].
    destruct (wf_rs m Wm _ (Hrows i Hi)) as (_ & Hr). specialize (Hr j Hj). lia. }
  split; [exact W'|]. split; [exact En|]. split; [exact Ec|].
  intros i j. apply bool_eq_iff. rewrite Hh, Hin, andb_true_iff, Nat.ltb_lt, has_In. reflexivity.
Qed.

(* A2 of_mod2sparse_copycols *)
Theorem copycols_spec m r cols : WF m -> WF r -> nr m <= nr r -> (forall j, j < nc r -> nth j cols 0 < nc m) ->
  WF (s_copycols m r cols) /\ nr (s_copycols m r cols) = nr r /\ nc (s_copycols m r cols) = nc r /\
  forall i j, has (s_copycols m r cols) i j = (j <? nc r) && (i <? nr m) && has m i (nth j cols 0).
Proof.
  intros Wm Wr Hc Hcols. unfold s_copycols.
  destruct (Nat.ltb_spec (nr r) (nr m)) as [Hlt|_]; [lia|].
  match goal with |- context [insert_all _ ?l] => set (es := l) end.
  assert (Hin : forall i j, In (i, j) es <-> j < nc r /\ In i (nth (nth j cols 0) (cls m) [])).
  { intros i j. apply (in_colpairs (fun j => nth (nth j cols 0) (cls m) [])). }
  destruct (insert_all_clear_spec r es Wr) as (W' & En & Ec & Hh).
  { intros (i, j) He. apply Hin in He as (Hj & Hi). simpl. split; [|exact Hj].
    destruct (wf_cs m Wm _ (Hcols j Hj)) as (_ & Hr). specialize (Hr i Hi). lia. }
  split; [exact W'|]. split; [exact En|]. split; [exact Ec|].
  intros i j. apply bool_eq_iff. rewrite Hh, Hin, !andb_true_iff, !Nat.ltb_lt. split.
  - intros (Hj & Hi). apply (col_In_has m i _ Wm (Hcols j Hj)) in Hi. tauto.
  - intros ((Hj & Hi) & Hhas). split; [exact Hj|]. apply (col_In_has m i _ Wm (Hcols j Hj)). tauto.
Qed.

Lemma existsb_map {A B} (f : B -> bool) (g : A -> B) l : existsb f (map g l) = existsb (fun x => f (g x)) l.
Proof. induction l as [|a t IH]; simpl; [reflexivity|]. now rewrite IH. Qed.

(* A3 of_mod2sparse_copy_filled_matrix: the destination is not cleared *)
Theorem copy_filled_spec m r irows icols : WF m -> WF r ->
  (forall e, In e (entries m) -> nth (fst e) irows 0 < nr r /\ nth (snd e) icols 0 < nc r) ->
  WF (s_copy_filled m r irows icols) /\ nr (s_copy_filled m r irows icols) = nr r /\ nc (s_copy_filled m r irows icols) = nc r /\
  forall i j, has (s_copy_filled m r irows icols) i j =
              has r i j || existsb (fun e => (i =? nth (fst e) irows 0) && (j =? nth (snd e) icols 0)) (entries m).
Proof.
  intros Wm Wr Hes. unfold s_copy_filled.
  destruct (insert_all_spec (map (fun e => (nth (fst e) irows 0, nth (snd e) icols 0)) (entries m)) r Wr) as (W' & En & Ec & Hh).
  { intros e He. apply in_map_iff in He as (e0 & <- & He0). simpl. apply Hes. exact He0. }
  split; [exact W'|]. split; [exact En|]. split; [exact Ec|].
  intros i j. rewrite Hh, existsb_map. reflexivity.
Qed.

(* A4 sparse -> dense -> sparse *)
Lemma nth_map_seq {A} (f : nat -> A) n i d : i < n -> nth i (map f (seq 0 n)) d = f i.
Proof.
  intros Hi. rewrite (nth_indep _ d (f 0)) by (rewrite map_length, seq_length; exact Hi).
  rewrite map_nth. rewrite seq_nth by exact Hi. reflexivity.
Qed.

Theorem dense_roundtrip m r : WF m -> WF r -> nr r = nr m -> nc r = nc m ->
  WF (s_from_dense (s_to_dense m (nr m) (nc m)) r) /\
  nr (s_from_dense (s_to_dense m (nr m) (nc m)) r) = nr r /\ nc (s_from_dense (s_to_dense m (nr m) (nc m)) r) = nc r /\
  forall i j, i < nr m -> j < nc m -> has (s_from_dense (s_to_dense m (nr m) (nc m)) r) i j = has m i j.
Proof.
  intros Wm Wr En Ec. unfold s_from_dense.
  set (d := s_to_dense m (nr m) (nc m)).
  assert (Hld : length d = nr m) by (unfold d, s_to_dense; now rewrite map_length, seq_length).
  assert (Hrow : forall i, i < nr m -> nth i d [] = map (fun j => (i <? nr m) && mem j (nth i (rws m) [])) (seq 0 (nc m))).
  { intros i Hi. unfold d, s_to_dense. rewrite nth_map_seq by exact Hi. reflexivity. }
  match goal with |- context [insert_all _ ?l] => set (es := l) end.
  assert (Hin : forall i j, In (i, j) es <-> i < nr m /\ j < nc m /\ has m i j = true).
  { intros i j. unfold es. rewrite in_flat_map. split.
    - intros (i' & Hi' & Hin). apply in_seq in Hi'. rewrite Hld in Hi'. apply in_flat_map in Hin as (j' & Hj' & Hin).
      apply in_seq in Hj'. rewrite (Hrow i') in Hj', Hin by lia. rewrite map_length, seq_length in Hj'.
      rewrite nth_map_seq in Hin by lia.
      destruct ((i' <? nr m) && mem j' (nth i' (rws m) [])) eqn:E; [|destruct Hin].
      destruct Hin as [Hin|[]]. inversion Hin; subst. apply andb_true_iff in E as (_ & E).
      split; [lia|]. split; [lia|exact E].
    - intros (Hi & Hj & Hh). exists i. split; [apply in_seq; lia|]. apply in_flat_map. exists j.
      rewrite (Hrow i Hi). split; [apply in_seq; rewrite map_length, seq_length; lia|].
      rewrite nth_map_seq by exact Hj. unfold has in Hh. rewrite Hh.
      destruct (Nat.ltb_spec i (nr m)); [|lia]. simpl. now left. }
  destruct (insert_all_clear_spec r es Wr) as (W' & En' & Ec' & Hh).
  { intros (i, j) He. apply Hin in He. simpl. lia. }
  split; [exact W'|]. split; [exact En'|]. split; [exact Ec'|].
  intros i j Hi Hj. apply bool_eq_iff. rewrite Hh, Hin. tauto.
Qed.

(* ---------- B. optimised copies ---------- *)

(* B1 of_mod2sparse_insert_opt: the hinted column walk *)
Lemma ins_walk_before x : forall l, ~ In x l -> ins_walk x l = Some (ins_before x l).
Proof.
  induction l as [|y t IH]; intros Hn; [reflexivity|]. cbn [ins_walk ins_before].
  destruct (Nat.eqb_spec y x) as [E|Hne]; [exfalso; apply Hn; now left|].
  destruct (Nat.ltb_spec x y) as [Hlt|Hge].
  - destruct (Nat.ltb_spec y x); [lia|reflexivity].
  - destruct (Nat.ltb_spec y x); [|lia]. rewrite IH; [reflexivity|]. intros Hin; apply Hn; now right.
Qed.

Lemma ins_from_before h x : forall l, ssorted l -> In h l -> h < x -> ins_from h x l = ins_before x l.
Proof.
  induction l as [|y t IH]; intros Hs Hin Hlt; [destruct Hin|].
  cbn [ins_from]. destruct (Nat.eqb_spec y h) as [E|Hne]; [reflexivity|].
  destruct Hs as (Hy & Ht). destruct Hin as [E|Hin]; [congruence|].
  rewrite (IH Ht Hin Hlt). cbn [ins_before]. specialize (Hy h Hin).
  destruct (Nat.ltb_spec y x); [reflexivity|lia].
Qed.

(* the sorted insertion is what ins_fast computes on a strictly sorted list without x *)
Lemma ins_fast_before x l : ssorted l -> ~ In x l -> ins_fast x l = Some (ins_before x l).
Proof. intros Hs Hn. rewrite (ins_fast_walk x l Hs). apply ins_walk_before. exact Hn. Qed.

Lemma ins_from_fast h x l : ssorted l -> In h l -> h < x -> ~ In x l -> ins_fast x l = Some (ins_from h x l).
Proof. intros Hs Hin Hlt Hn. rewrite (ins_from_before h x l Hs Hin Hlt). apply ins_fast_before; assumption. Qed.

(* the hint is an entry of the column, not below row i (it is i itself when (i, j) was just found or inserted) *)
Definition hint_ok (m : smat) (i j : nat) (hint : option nat) : Prop :=
  match hint with None => True | Some h => In h (nth j (cls m) []) /\ h <= i end.

Theorem insert_opt_spec m i j hint : WF m -> i < nr m -> j < nc m -> hint_ok m i j hint ->
  s_insert_opt m i j hint = s_insert m i j.
Proof.
  intros W Hi Hj Hh. unfold s_insert_opt, s_insert.
  destruct ((nr m <=? i) || (nc m <=? j)); [reflexivity|].
  destruct (wf_rs m W i Hi) as (Hsr & _). destruct (wf_cs m W j Hj) as (Hsc & _).
  pose proof (wf_cons m W i j Hi Hj) as Hiff.
  rewrite (ins_fast_walk j _ Hsr). pose proof (ins_walk_spec j _ Hsr) as HR.
  destruct (ins_walk j (nth i (rws m) [])) as [row'|]; [|reflexivity].
  destruct HR as (Hnin & _).
  assert (Hnc : ~ In i (nth j (cls m) [])) by (intros H; apply Hnin, Hiff, H).
  rewrite (ins_fast_before i _ Hsc Hnc).
  destruct (pool_take m) as [nb nf].
  assert (E : col_ins hint i (nth j (cls m) []) = ins_before i (nth j (cls m) [])).
  { destruct hint as [h|]; [|reflexivity]. destruct Hh as (Hin & Hle). cbn [col_ins].
    apply ins_from_before; [exact Hsc|exact Hin|].
    assert (h <> i) by (intros ->; tauto). lia. }
  rewrite E. reflexivity.
Qed.

(* first index i <= k < i + n with bound <= idx[k], or i + n *)
Fixpoint first_bad (bound : nat) (idx : list nat) (i n : nat) : nat :=
  match n with O => i | S n' => if bound <=? nth i idx 0 then i else first_bad bound idx (S i) n' end.
Definition first_bad_row (m : smat) (rows : list nat) (n : nat) : nat := first_bad (nr m) rows 0 n.
Definition first_bad_col (m : smat) (cols : list nat) (n : nat) : nat := first_bad (nc m) cols 0 n.

Lemma first_bad_spec bound idx : forall n i,
  i <= first_bad bound idx i n <= i + n /\
  (forall k, i <= k < first_bad bound idx i n -> nth k idx 0 < bound) /\
  (first_bad bound idx i n < i + n -> bound <= nth (first_bad bound idx i n) idx 0).
Proof.
  induction n as [|n IH]; intros i; cbn [first_bad].
  - split; [lia|]. split; intros; lia.
  - destruct (Nat.leb_spec bound (nth i idx 0)) as [Hb|Hg].
    + split; [lia|]. split; [intros; lia|]. intros _. exact Hb.
    + destruct (IH (S i)) as (A & B & C). split; [lia|]. split.
      * intros k Hk. destruct (Nat.eq_dec k i) as [->|Hne]; [exact Hg|]. apply B. lia.
      * intros Hp. apply C. lia.
Qed.

Lemma first_bad_all bound idx : forall n i, (forall k, i <= k < i + n -> nth k idx 0 < bound) ->
  first_bad bound idx i n = i + n.
Proof.
  induction n as [|n IH]; intros i Hall; cbn [first_bad]; [lia|].
  destruct (Nat.leb_spec bound (nth i idx 0)) as [Hb|Hg].
  - specialize (Hall i ltac:(lia)). lia.
  - rewrite IH; [lia|]. intros k Hk. apply Hall. lia.
Qed.

(* the table __parsing: every slot is empty or holds a row h with (h, c) an entry of r, h not below the current row *)
Definition hints_ok (r : smat) (i : nat) (hints : list (option nat)) : Prop :=
  forall c h, nth c hints None = Some h -> h < nr r /\ c < nc r /\ has r h c = true /\ h <= i.

Lemma nth_upd_cases {A} (l : list A) i k x d :
  (k = i /\ nth k (upd l i x) d = x) \/ nth k (upd l i x) d = nth k l d.
Proof.
  revert i k. induction l as [|a t IH]; intros i k; [right; destruct i; reflexivity|].
  destruct i as [|i], k as [|k]; simpl; auto.
  destruct (IH i k) as [(-> & E)|E]; auto.
Qed.

Lemma nth_repeat_None {A} k c : nth c (repeat (@None A) k) None = None.
Proof. revert c; induction k as [|k IH]; intros [|c]; simpl; auto. Qed.

Lemma hints_ok_hint r i c hints : WF r -> hints_ok r i hints -> hint_ok r i c (nth c hints None).
Proof.
  intros W Hok. destruct (nth c hints None) as [h|] eqn:E; [|exact I].
  destruct (Hok c h E) as (Hh & Hc & Hhas & Hle). split; [|exact Hle].
  apply (has_col r h c W Hh Hc). exact Hhas.
Qed.

Lemma cro_row_spec i : forall cols r hints, WF r -> i < nr r -> (forall c, In c cols -> c < nc r) -> hints_ok r i hints ->
  WF (fst (cro_row r i cols hints)) /\ nr (fst (cro_row r i cols hints)) = nr r /\ nc (fst (cro_row r i cols hints)) = nc r /\
  (forall i' j', has (fst (cro_row r i cols hints)) i' j' = has r i' j' || ((i' =? i) && mem j' cols)) /\
  hints_ok (fst (cro_row r i cols hints)) i (snd (cro_row r i cols hints)).
Proof.
  induction cols as [|c t IH]; intros r hints W Hi Hcols Hok.
  - simpl. split; [exact W|]. split; [reflexivity|]. split; [reflexivity|]. split; [|exact Hok].
    intros i' j'. now rewrite andb_false_r, orb_false_r.
  - cbn [cro_row]. assert (Hc : c < nc r) by (apply Hcols; now left).
    rewrite (insert_opt_spec r i c _ W Hi Hc (hints_ok_hint r i c hints W Hok)).
    pose proof (insert_spec r i c W Hi Hc) as HI. destruct (s_insert r i c) as [r1 st].
    destruct HI as (W1 & En1 & Ec1 & Hh1 & _). cbn [fst].
    destruct (IH r1 (upd hints c (Some i)) W1) as (W2 & En2 & Ec2 & Hh2 & Hok2).
    + lia.
    + intros c' Hc'. rewrite Ec1. apply Hcols. now right.
    + intros c' h Hnth. destruct (nth_upd_cases hints c c' (Some i) None) as [(-> & E)|E]; rewrite E in Hnth.
      * injection Hnth as <-. rewrite En1, Ec1, Hh1, !Nat.eqb_refl. simpl. rewrite orb_true_r. auto.
      * destruct (Hok c' h Hnth) as (A & B & C & D). rewrite En1, Ec1, Hh1, C. simpl. auto.
    + split; [exact W2|]. split; [congruence|]. split; [congruence|]. split; [|exact Hok2].
      intros i' j'. rewrite Hh2, Hh1. unfold mem. cbn [existsb].
      destruct (has r i' j'), (i' =? i), (j' =? c), (existsb (Nat.eqb j') t); reflexivity.
Qed.

Lemma cro_loop_spec m rows : WF m -> forall n r i hints, WF r -> nc m <= nc r -> i + n = nr r -> hints_ok r i hints ->
  WF (cro_loop m r rows i n hints) /\ nr (cro_loop m r rows i n hints) = nr r /\ nc (cro_loop m r rows i n hints) = nc r /\
  forall i' j', has (cro_loop m r rows i n hints) i' j' =
                has r i' j' || ((i <=? i') && (i' <? first_bad (nr m) rows i n) && has m (nth i' rows 0) j').
Proof.
  intros Wm. induction n as [|n IH]; intros r i hints W Hc Hn Hok; cbn [cro_loop first_bad].
  - split; [exact W|]. split; [reflexivity|]. split; [reflexivity|]. intros i' j'.
    destruct (Nat.leb_spec i i'), (Nat.ltb_spec i' i); try lia; simpl; now rewrite orb_false_r.
  - destruct (Nat.leb_spec (nr m) (nth i rows 0)) as [Hbad|Hgood].
    + split; [exact W|]. split; [reflexivity|]. split; [reflexivity|]. intros i' j'.
      destruct (Nat.leb_spec i i'), (Nat.ltb_spec i' i); try lia; simpl; now rewrite orb_false_r.
    + assert (Hi : i < nr r) by lia.
      assert (Hcols : forall c, In c (nth (nth i rows 0) (rws m) []) -> c < nc r).
      { intros c Hin. destruct (wf_rs m Wm _ Hgood) as (_ & Hr). specialize (Hr c Hin). lia. }
      pose proof (cro_row_spec i _ r hints W Hi Hcols Hok) as HR.
      destruct (cro_row r i (nth (nth i rows 0) (rws m) []) hints) as [r' h']. cbn [fst snd] in HR.
      destruct HR as (W1 & En1 & Ec1 & Hh1 & Hok1).
      destruct (IH r' (S i) h' W1) as (W2 & En2 & Ec2 & Hh2).
      * lia.
      * lia.
      * intros c h Hnth. destruct (Hok1 c h Hnth) as (A & B & C & D). auto.
      * split; [exact W2|]. split; [congruence|]. split; [congruence|].
        intros i' j'. rewrite Hh2, Hh1.
        pose proof (first_bad_spec (nr m) rows n (S i)) as (Hp & _).
        destruct (Nat.eqb_spec i' i) as [->|Hne].
        -- change (mem j' (nth (nth i rows 0) (rws m) [])) with (has m (nth i rows 0) j').
           destruct (Nat.leb_spec (S i) i); [lia|]. destruct (Nat.leb_spec i i); [|lia].
           destruct (Nat.ltb_spec i (first_bad (nr m) rows (S i) n)); [|lia].
           destruct (has r i j'), (has m (nth i rows 0) j'); reflexivity.
        -- destruct (Nat.leb_spec (S i) i'), (Nat.leb_spec i i'); try lia; simpl; now rewrite ?orb_false_r.
Qed.

(* B2 of_mod2sparse_copyrows_opt *)
Theorem copyrows_opt_spec m r rows : WF m -> WF r -> nc m <= nc r ->
  WF (s_copyrows_opt m r rows) /\ nr (s_copyrows_opt m r rows) = nr r /\ nc (s_copyrows_opt m r rows) = nc r /\
  forall i j, has (s_copyrows_opt m r rows) i j =
              has r i j || ((i <? first_bad_row m rows (nr r)) && has m (nth i rows 0) j).
Proof.
  intros Wm Wr Hc. unfold s_copyrows_opt, first_bad_row.
  destruct (Nat.ltb_spec (nc r) (nc m)) as [Hlt|_]; [lia|].
  destruct (cro_loop_spec m rows Wm (nr r) r 0 (repeat None (nc m)) Wr Hc eq_refl) as (W' & En & Ec & Hh).
  { intros c h Hnth. rewrite nth_repeat_None in Hnth. discriminate. }
  split; [exact W'|]. split; [exact En|]. split; [exact Ec|].
  intros i j. rewrite Hh. reflexivity.
Qed.

(* the version with every source index in range: r gains the selected rows of m *)
Corollary copyrows_opt_spec_inrange m r rows : WF m -> WF r -> nc m <= nc r -> (forall i, i < nr r -> nth i rows 0 < nr m) ->
  WF (s_copyrows_opt m r rows) /\
  forall i j, has (s_copyrows_opt m r rows) i j = has r i j || ((i <? nr r) && has m (nth i rows 0) j).
Proof.
  intros Wm Wr Hc Hrows. destruct (copyrows_opt_spec m r rows Wm Wr Hc) as (W' & _ & _ & Hh).
  split; [exact W'|]. intros i j. rewrite Hh. unfold first_bad_row.
  rewrite first_bad_all; [reflexivity|]. intros k Hk. apply Hrows. lia.
Qed.

(* B3 of_mod2sparse_copycols_opt *)
Lemma cco_col_spec j : forall rows r hint, WF r -> j < nc r -> (forall e, In e rows -> e < nr r) -> ssorted rows ->
  match hint with None => True | Some h => h < nr r /\ has r h j = true /\ forall e, In e rows -> h <= e end ->
  WF (cco_col r j rows hint) /\ nr (cco_col r j rows hint) = nr r /\ nc (cco_col r j rows hint) = nc r /\
  forall i' j', has (cco_col r j rows hint) i' j' = has r i' j' || (mem i' rows && (j' =? j)).
Proof.
  induction rows as [|e t IH]; intros r hint W Hj Hrows Hs Hh; cbn [cco_col].
  - split; [exact W|]. split; [reflexivity|]. split; [reflexivity|]. intros i' j'. simpl. now rewrite orb_false_r.
  - assert (He : e < nr r) by (apply Hrows; now left).
    rewrite (insert_opt_spec r e j hint W He Hj).
    2:{ destruct hint as [h|]; [|exact I]. destruct Hh as (A & B & C).
        split; [apply (has_col r h j W A Hj); exact B|apply C; now left]. }
    pose proof (insert_spec r e j W He Hj) as HI. destruct (s_insert r e j) as [r1 st].
    destruct HI as (W1 & En1 & Ec1 & Hh1 & _). cbn [fst].
    destruct Hs as (Hlt & Hs').
    destruct (IH r1 (Some e) W1) as (W2 & En2 & Ec2 & Hh2).
    + lia.
    + intros e' He'. rewrite En1. apply Hrows. now right.
    + exact Hs'.
    + rewrite En1, Hh1, !Nat.eqb_refl. simpl. rewrite orb_true_r. split; [exact He|]. split; [reflexivity|].
      intros e' He'. specialize (Hlt e' He'). lia.
    + split; [exact W2|]. split; [congruence|]. split; [congruence|].
      intros i' j'. rewrite Hh2, Hh1. unfold mem. cbn [existsb].
      destruct (has r i' j'), (i' =? e), (j' =? j), (existsb (Nat.eqb i') t); reflexivity.
Qed.

Lemma cco_loop_spec m cols : WF m -> forall n r j, WF r -> nr m <= nr r -> j + n = nc r ->
  WF (cco_loop m r cols j n) /\ nr (cco_loop m r cols j n) = nr r /\ nc (cco_loop m r cols j n) = nc r /\
  forall i' j', has (cco_loop m r cols j n) i' j' =
                has r i' j' || ((j <=? j') && (j' <? first_bad (nc m) cols j n) && mem i' (nth (nth j' cols 0) (cls m) [])).
Proof.
  intros Wm. induction n as [|n IH]; intros r j W Hc Hn; cbn [cco_loop first_bad].
  - split; [exact W|]. split; [reflexivity|]. split; [reflexivity|]. intros i' j'.
    destruct (Nat.leb_spec j j'), (Nat.ltb_spec j' j); try lia; simpl; now rewrite orb_false_r.
  - destruct (Nat.leb_spec (nc m) (nth j cols 0)) as [Hbad|Hgood].
    + split; [exact W|]. split; [reflexivity|]. split; [reflexivity|]. intros i' j'.
      destruct (Nat.leb_spec j j'), (Nat.ltb_spec j' j); try lia; simpl; now rewrite orb_false_r.
    + assert (Hj : j < nc r) by lia.
      destruct (wf_cs m Wm _ Hgood) as (Hsc & Hrc).
      destruct (cco_col_spec j (nth (nth j cols 0) (cls m) []) r None W Hj) as (W1 & En1 & Ec1 & Hh1).
      { intros e He. specialize (Hrc e He). lia. }
      { exact Hsc. }
      { exact I. }
      destruct (IH (cco_col r j (nth (nth j cols 0) (cls m) []) None) (S j) W1) as (W2 & En2 & Ec2 & Hh2).
      * lia.
      * lia.
      * split; [exact W2|]. split; [congruence|]. split; [congruence|].
        intros i' j'. rewrite Hh2, Hh1.
        pose proof (first_bad_spec (nc m) cols n (S j)) as (Hp & _).
        destruct (Nat.eqb_spec j' j) as [->|Hne].
        -- destruct (Nat.leb_spec (S j) j); [lia|]. destruct (Nat.leb_spec j j); [|lia].
           destruct (Nat.ltb_spec j (first_bad (nc m) cols (S j) n)); [|lia].
           destruct (has r i' j), (mem i' (nth (nth j cols 0) (cls m) [])); reflexivity.
        -- rewrite andb_false_r.
           destruct (Nat.leb_spec (S j) j'), (Nat.leb_spec j j'); try lia; simpl; now rewrite ?orb_false_r.
Qed.

Lemma mem_col_has m i c : WF m -> c < nc m -> mem i (nth c (cls m) []) = (i <? nr m) && has m i c.
Proof.
  intros W Hc. apply bool_eq_iff. rewrite mem_In, andb_true_iff, Nat.ltb_lt. apply col_In_has; assumption.
Qed.

Theorem copycols_opt_spec m r cols : WF m -> WF r -> nr m <= nr r ->
  WF (s_copycols_opt m r cols) /\ nr (s_copycols_opt m r cols) = nr r /\ nc (s_copycols_opt m r cols) = nc r /\
  forall i j, has (s_copycols_opt m r cols) i j =
              has r i j || ((j <? first_bad_col m cols (nc r)) && (i <? nr m) && has m i (nth j cols 0)).
Proof.
  intros Wm Wr Hc. unfold s_copycols_opt, first_bad_col.
  destruct (Nat.ltb_spec (nr r) (nr m)) as [Hlt|_]; [lia|].
  destruct (cco_loop_spec m cols Wm (nc r) r 0 Wr Hc eq_refl) as (W' & En & Ec & Hh).
  split; [exact W'|]. split; [exact En|]. split; [exact Ec|].
  intros i j. rewrite Hh. cbn [Nat.leb andb].
  destruct (Nat.ltb_spec j (first_bad (nc m) cols 0 (nc r))) as [Hj|Hj]; [|reflexivity].
  destruct (first_bad_spec (nc m) cols (nc r) 0) as (_ & Hgood & _).
  rewrite (mem_col_has m i _ Wm (Hgood j ltac:(lia))). reflexivity.
Qed.

Corollary copycols_opt_spec_inrange m r cols : WF m -> WF r -> nr m <= nr r -> (forall j, j < nc r -> nth j cols 0 < nc m) ->
  WF (s_copycols_opt m r cols) /\
  forall i j, has (s_copycols_opt m r cols) i j = has r i j || ((j <? nc r) && (i <? nr m) && has m i (nth j cols 0)).
Proof.
  intros Wm Wr Hc Hcols. destruct (copycols_opt_spec m r cols Wm Wr Hc) as (W' & _ & _ & Hh).
  split; [exact W'|]. intros i j. rewrite Hh. unfold first_bad_col.
  rewrite first_bad_all; [reflexivity|]. intros k Hk. apply Hcols. lia.
Qed.

(* B4 pool accounting of the two results *)
Corollary copyrows_opt_pool m r rows : WF m -> WF r -> nc m <= nc r ->
  nblocks (s_copyrows_opt m r rows) * BLOCK = nfree (s_copyrows_opt m r rows) + total (s_copyrows_opt m r rows).
Proof. intros Wm Wr Hc. apply pool_accounting. apply (copyrows_opt_spec m r rows Wm Wr Hc). Qed.

Corollary copycols_opt_pool m r cols : WF m -> WF r -> nr m <= nr r ->
  nblocks (s_copycols_opt m r cols) * BLOCK = nfree (s_copycols_opt m r cols) + total (s_copycols_opt m r cols).
Proof. intros Wm Wr Hc. apply pool_accounting. apply (copycols_opt_spec m r cols Wm Wr Hc). Qed.

Print Assumptions copyrows_spec.
Print Assumptions copycols_spec.
Print Assumptions copy_filled_spec.
Print Assumptions dense_roundtrip.
Print Assumptions insert_opt_spec.
Print Assumptions copyrows_opt_spec.
Print Assumptions copycols_opt_spec.
Print Assumptions copyrows_opt_pool.
Print Assumptions copycols_opt_pool.
