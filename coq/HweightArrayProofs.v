(* C18: correctness of the model of of_hweight_array (of_hamming_weight.c) and of
   of_mod2dense_row_weight_ignore_first (of_matrix_dense.c) given in HweightArray.v.
   - hweight_array ws size is the number of ones of the ceil(size/32) first words (whole words), it never wraps,
     depends only on those words, and is None exactly when the C would read past the array;
   - d_row_weight_ignore_first m i nb is the weight of row i restricted to the columns from the WORD boundary
     32*(nb/32) - not from nb itself unless 32 divides nb (Example ignore_first_counts_ignored_bits). *)
From Coq Require Import ZArith NArith Arith List Bool Lia ZifyBool ZifyNat ZifyN.
From OFV Require Import CSem ListAux Dense DenseProofs DenseCopyProofs PopcountProofs HweightArray.
From OFV.gen Require Import GenPopcount.
Import ListNotations.
Local Open Scope Z_scope.
Ltac Zify.zify_post_hook ::= Z.div_mod_to_equations.

Definition sum_popc (ws : list Z) : Z := fold_right (fun w acc => popc 32 w + acc) 0 ws.

Definition w32 (w : Z) : Prop := 0 <= w < 2 ^ 32.

(* ---------- sum_popc algebra ---------- *)

Lemma sum_popc_cons : forall w ws, sum_popc (w :: ws) = popc 32 w + sum_popc ws.
Proof. reflexivity. Qed.

Lemma sum_popc_app : forall a b, sum_popc (a ++ b) = sum_popc a + sum_popc b.
Proof.
  induction a as [|w a IH]; intros b.
  - cbn [app]. unfold sum_popc at 2. cbn [fold_right]. lia.
  - cbn [app]. rewrite !sum_popc_cons, IH. lia.
Qed.

Lemma sum_popc_bound : forall ws, 0 <= sum_popc ws <= 32 * Z.of_nat (length ws).
Proof.
  induction ws as [|w ws IH].
  - unfold sum_popc. cbn [fold_right length]. lia.
  - rewrite sum_popc_cons. cbn [length]. pose proof (popc_nonneg 32 w) as Hp. lia.
Qed.

(* ---------- H1: the number of words ---------- *)

Theorem hw_words_spec : forall size, 0 <= size -> hw_words size = (size + 31) / 32.
Proof.
  intros size Hs. unfold hw_words.
  rewrite (shiftr_div size 5 32) by (try reflexivity; lia).
  destruct (0 <? size mod 32) eqn:E; lia.
Qed.

(* ---------- one 64-bit step ---------- *)

Lemma popc64_pair : forall w0 w1, w32 w0 -> w32 w1 ->
  of_popcount_3 c_of_m1 c_of_m2 c_of_m4 c_of_h01 (w0 + 4294967296 * w1) = Some (popc 32 w0 + popc 32 w1).
Proof.
  intros w0 w1 H0 H1. unfold w32 in H0, H1. change (2 ^ 32) with 4294967296 in H0, H1.
  rewrite popcount_3_correct by (change (2 ^ 64) with 18446744073709551616; lia).
  f_equal. change 64%nat with (32 + 32)%nat. rewrite popc_app.
  change (2 ^ Z.of_nat 32) with 4294967296.
  replace ((w0 + 4294967296 * w1) / 4294967296) with w1 by lia.
  rewrite <- (popc_mod 32 32 (w0 + 4294967296 * w1)) by lia.
  change (2 ^ 32) with 4294967296.
  replace ((w0 + 4294967296 * w1) mod 4294967296) with w0 by lia.
  reflexivity.
Qed.

(* ---------- the 64-bit loop ---------- *)

Lemma hw_loop64_spec : forall n ws acc, Forall w32 ws -> (2 * n <= length ws)%nat ->
  0 <= acc -> acc + 64 * Z.of_nat n < 4294967296 ->
  hw_loop64 n ws acc = Some (acc + sum_popc (firstn (2 * n) ws), skipn (2 * n) ws).
Proof.
  induction n as [|n IH]; intros ws acc Hws Hlen Hacc Hb.
  - change (2 * 0)%nat with 0%nat. cbn [firstn skipn hw_loop64]. unfold sum_popc. cbn [fold_right].
    f_equal. f_equal. lia.
  - replace (2 * S n)%nat with (S (S (2 * n))) in * by lia.
    destruct ws as [|w0 [|w1 t]]; cbn [length] in Hlen; try lia.
    inversion Hws as [|x0 l0 Hw0 Hws0]; subst x0 l0.
    inversion Hws0 as [|x1 l1 Hw1 Ht]; subst x1 l1.
    cbn [hw_loop64 firstn skipn]. rewrite popc64_pair by assumption.
    pose proof (popc_nonneg 32 w0) as P0. pose proof (popc_nonneg 32 w1) as P1.
    rewrite wrapu32_small by lia.
    rewrite IH by (try assumption; lia).
    rewrite !sum_popc_cons. f_equal. f_equal. lia.
Qed.

(* what a successful run of the loop says, with no hypothesis on the words *)
Lemma hw_loop64_rest : forall n ws acc a r, hw_loop64 n ws acc = Some (a, r) ->
  r = skipn (2 * n) ws /\ (2 * n <= length ws)%nat.
Proof.
  induction n as [|n IH]; intros ws acc a r H.
  - cbn [hw_loop64] in H. inversion H; subst. change (2 * 0)%nat with 0%nat. cbn [skipn]. split; [reflexivity|lia].
  - replace (2 * S n)%nat with (S (S (2 * n))) by lia.
    destruct ws as [|w0 [|w1 t]]; cbn [hw_loop64] in H; try discriminate.
    destruct (of_popcount_3 c_of_m1 c_of_m2 c_of_m4 c_of_h01 (w0 + 4294967296 * w1)) as [p|]; [|discriminate].
    apply IH in H. destruct H as [Hr Hl]. cbn [skipn length]. split; [exact Hr|lia].
Qed.

(* the loop on a prefix that contains the words it reads *)
Lemma hw_loop64_firstn : forall n ws acc k, (2 * n <= k)%nat ->
  hw_loop64 n (firstn k ws) acc =
  match hw_loop64 n ws acc with Some (a, r) => Some (a, firstn (k - 2 * n) r) | None => None end.
Proof.
  induction n as [|n IH]; intros ws acc k Hk.
  - change (2 * 0)%nat with 0%nat. cbn [hw_loop64]. rewrite Nat.sub_0_r. reflexivity.
  - replace (2 * S n)%nat with (S (S (2 * n))) in * by lia.
    destruct k as [|[|k]]; try lia.
    destruct ws as [|w0 [|w1 t]]; cbn [firstn hw_loop64]; try reflexivity.
    destruct (of_popcount_3 c_of_m1 c_of_m2 c_of_m4 c_of_h01 (w0 + 4294967296 * w1)) as [p|]; [|reflexivity].
    rewrite IH by lia. reflexivity.
Qed.

(* ---------- list helpers ---------- *)

Lemma firstn_S_skipn : forall (j : nat) (ws : list Z) w r, skipn j ws = w :: r -> firstn (S j) ws = firstn j ws ++ [w].
Proof.
  induction j as [|j IH]; intros ws w r H.
  - cbn [skipn] in H. subst ws. reflexivity.
  - destruct ws as [|x ws]; [discriminate|]. cbn [skipn] in H.
    change (firstn (S (S j)) (x :: ws)) with (x :: firstn (S j) ws).
    rewrite (IH ws w r H). reflexivity.
Qed.

Lemma Forall_skipn_w32 : forall j ws, Forall w32 ws -> Forall w32 (skipn j ws).
Proof.
  intros j ws H. rewrite <- (firstn_skipn j ws) in H. apply Forall_app in H. apply H.
Qed.

(* the C's  n32 >> 1  and  n32 % 2 *)
Lemma half_words : forall n32, 0 <= n32 ->
  let k := Z.to_nat (Z.shiftr n32 1) in
  (if n32 mod 2 =? 0 then Z.to_nat n32 = (2 * k)%nat else Z.to_nat n32 = S (2 * k)).
Proof.
  intros n32 Hn k. subst k. rewrite (shiftr_div n32 1 2) by (try reflexivity; lia).
  destruct (n32 mod 2 =? 0) eqn:E; lia.
Qed.

(* ---------- H2 ---------- *)

Theorem hweight_array_correct : forall ws size,
  Forall (fun w => 0 <= w < 2 ^ 32) ws -> 0 <= size < 2 ^ 31 -> hw_words size <= Z.of_nat (length ws) ->
  hweight_array ws size = Some (sum_popc (firstn (Z.to_nat (hw_words size)) ws)).
Proof.
  intros ws size Hws Hs Hlen. change (Forall w32 ws) in Hws.
  change (2 ^ 31) with 2147483648 in Hs.
  assert (Hn : 0 <= hw_words size <= 67108864) by (rewrite hw_words_spec by lia; lia).
  unfold hweight_array. cbv zeta.
  pose proof (half_words (hw_words size) (proj1 Hn)) as Hk. cbv zeta in Hk.
  set (n32 := hw_words size) in *. set (k := Z.to_nat (Z.shiftr n32 1)) in *.
  assert (Hk2 : 2 * Z.of_nat k <= n32) by (destruct (n32 mod 2 =? 0); lia).
  rewrite hw_loop64_spec by (try assumption; lia).
  destruct (n32 mod 2 =? 0) eqn:E.
  - rewrite Hk, Z.add_0_l. reflexivity.
  - destruct (skipn (2 * k) ws) as [|w r] eqn:Er.
    + pose proof (skipn_length (2 * k) ws) as Hl. rewrite Er in Hl. cbn [length] in Hl. lia.
    + pose proof (Forall_skipn_w32 (2 * k) ws Hws) as Hsk. rewrite Er in Hsk.
      inversion Hsk as [|x l Hw Hr]; subst x l.
      rewrite hweight32_table_correct by exact Hw.
      rewrite Hk, (firstn_S_skipn _ _ _ _ Er), sum_popc_app, sum_popc_cons.
      pose proof (sum_popc_bound (firstn (2 * k) ws)) as Hb. rewrite firstn_length in Hb.
      pose proof (popc_nonneg 32 w) as Hp.
      rewrite wrapu32_small by lia. f_equal. unfold sum_popc at 3. cbn [fold_right]. lia.
Qed.

(* ---------- H3: only the first hw_words size words are read ---------- *)

Lemma hweight_array_firstn : forall ws size, 0 <= size ->
  hweight_array (firstn (Z.to_nat (hw_words size)) ws) size = hweight_array ws size.
Proof.
  intros ws size Hs.
  assert (Hn : 0 <= hw_words size) by (rewrite hw_words_spec by lia; lia).
  unfold hweight_array. cbv zeta.
  pose proof (half_words (hw_words size) Hn) as Hk. cbv zeta in Hk.
  set (n32 := hw_words size) in *. set (k := Z.to_nat (Z.shiftr n32 1)) in *.
  rewrite hw_loop64_firstn by (destruct (n32 mod 2 =? 0); lia).
  destruct (hw_loop64 k ws 0) as [[a r]|]; [|reflexivity].
  destruct (n32 mod 2 =? 0); [reflexivity|].
  replace (Z.to_nat n32 - 2 * k)%nat with 1%nat by lia.
  destruct r as [|w r]; reflexivity.
Qed.

Theorem hweight_array_reads_only_its_words : forall ws ws' size, 0 <= size ->
  firstn (Z.to_nat (hw_words size)) ws = firstn (Z.to_nat (hw_words size)) ws' ->
  hweight_array ws size = hweight_array ws' size.
Proof.
  intros ws ws' size Hs H.
  rewrite <- (hweight_array_firstn ws size Hs), <- (hweight_array_firstn ws' size Hs), H. reflexivity.
Qed.

(* the model's way of saying that the C would read past the array *)
Theorem hweight_array_past_the_end : forall ws size, 0 <= size ->
  Z.of_nat (length ws) < hw_words size -> hweight_array ws size = None.
Proof.
  intros ws size Hs Hlen.
  assert (Hn : 0 <= hw_words size) by (rewrite hw_words_spec by lia; lia).
  unfold hweight_array. cbv zeta.
  pose proof (half_words (hw_words size) Hn) as Hk. cbv zeta in Hk.
  set (n32 := hw_words size) in *. set (k := Z.to_nat (Z.shiftr n32 1)) in *.
  destruct (hw_loop64 k ws 0) as [[a r]|] eqn:El; [|reflexivity].
  apply hw_loop64_rest in El. destruct El as [Er Hl].
  destruct (n32 mod 2 =? 0); [lia|].
  assert (Hr : length r = 0%nat) by (rewrite Er, skipn_length; lia).
  destruct r as [|w r]; [reflexivity|discriminate].
Qed.

(* ---------- H4: popc counts the set bits ---------- *)

Theorem popc_bits : forall n w,
  popc n w = Z.of_nat (length (filter (fun b => Z.testbit w (Z.of_nat b)) (seq 0 n))).
Proof.
  induction n as [|n IH]; intros w.
  - reflexivity.
  - rewrite seq_S, filter_app, app_length. cbn [popc filter Nat.add]. rewrite IH.
    destruct (Z.testbit w (Z.of_nat n)); cbn [length]; lia.
Qed.

Corollary popc32_bits : forall w, 0 <= w < 2 ^ 32 ->
  popc 32 w = Z.of_nat (length (filter (fun b => Z.testbit w (Z.of_nat b)) (seq 0 32))).
Proof. intros w _. apply popc_bits. Qed.

(* ---------- H5: of_mod2dense_row_weight_ignore_first ---------- *)

(* the low n bits of word k of row i are the columns 32k .. 32k+n-1 *)
Lemma word_popc : forall m i k n, (n <= 32)%nat ->
  popc n (Z.of_N (word m i k)) = Z.of_nat (length (filter (fun j => d_get m i j) (seq (32 * k) n))).
Proof.
  intros m i k. induction n as [|n IH]; intros Hn.
  - reflexivity.
  - rewrite seq_S, filter_app, app_length. cbn [popc filter]. rewrite IH by lia.
    assert (E : d_get m i (32 * k + n)%nat = Z.testbit (Z.of_N (word m i k)) (Z.of_nat n)).
    { unfold d_get. destruct (div32_add k n ltac:(lia)) as (Q1 & Q2). rewrite Q1, Q2.
      rewrite <- nat_N_Z, N2Z.inj_testbit. reflexivity. }
    rewrite E. destruct (Z.testbit (Z.of_N (word m i k)) (Z.of_nat n)); cbn [length]; lia.
Qed.

Lemma words_popc : forall m i l off,
  (forall t, (t < length l)%nat -> nth t l 0%N = word m i (off + t)) ->
  sum_popc (map Z.of_N l) =
  Z.of_nat (length (filter (fun j => d_get m i j) (seq (32 * off) (32 * length l)))).
Proof.
  intros m i. induction l as [|w l IH]; intros off H.
  - reflexivity.
  - cbn [map length]. rewrite sum_popc_cons.
    replace (32 * S (length l))%nat with (32 + 32 * length l)%nat by lia.
    rewrite seq_app, filter_app, app_length, Nat2Z.inj_add.
    rewrite <- word_popc by lia.
    replace (32 * off + 32)%nat with (32 * S off)%nat by lia.
    rewrite <- IH.
    + pose proof (H 0%nat ltac:(cbn [length]; lia)) as H0. cbn [nth] in H0.
      rewrite Nat.add_0_r in H0. rewrite H0. reflexivity.
    + intros t Ht. pose proof (H (S t) ltac:(cbn [length]; lia)) as Hs. cbn [nth] in Hs.
      rewrite Hs. f_equal. lia.
Qed.

Lemma filter_false_nil : forall (f : nat -> bool) l, (forall x, In x l -> f x = false) -> filter f l = [].
Proof.
  intros f. induction l as [|x l IH]; intros H.
  - reflexivity.
  - cbn [filter]. rewrite (H x (or_introl eq_refl)). apply IH. intros y Hy. apply H. right. exact Hy.
Qed.

Lemma nth_skipn_N : forall off (l : list N) t, nth t (skipn off l) 0%N = nth (off + t) l 0%N.
Proof.
  induction off as [|off IH]; intros l t.
  - reflexivity.
  - destruct l as [|x l].
    + cbn [skipn]. destruct t; reflexivity.
    + cbn [skipn Nat.add nth]. apply IH.
Qed.

Lemma In_skipn_N : forall off (l : list N) x, In x (skipn off l) -> In x l.
Proof.
  intros off l x H. rewrite <- (firstn_skipn off l). apply in_or_app. right. exact H.
Qed.

Theorem row_weight_ignore_first_correct : forall m i nb,
  WFd m -> words32 m -> padzero m -> (i < dr m)%nat -> (32 * (nb / 32) <= dc m)%nat -> Z.of_nat (dc m) < 2 ^ 31 ->
  d_row_weight_ignore_first m i nb =
  Some (Z.of_nat (length (filter (fun j => d_get m i j) (seq (32 * (nb / 32)) (dc m - 32 * (nb / 32)))))).
Proof.
  intros m i nb W B P Hi Hoff Hdc. change (2 ^ 31) with 2147483648 in Hdc.
  unfold d_row_weight_ignore_first. destruct (Nat.leb_spec (dr m) i) as [Hge|_]; [lia|]. cbv zeta.
  set (off := (nb / 32)%nat) in *. set (row := nth i (drows m) []).
  assert (Hrow : length row = dw m) by (apply (wd_len m W i Hi)).
  pose proof (wd_words m W) as Hdw.
  pose proof (nwords_cover (dc m)) as Hcov. rewrite <- Hdw in Hcov.
  assert (Hnw : Z.of_nat (dw m) = (Z.of_nat (dc m) + 31) / 32) by (rewrite Hdw; unfold nwords; lia).
  set (size := Z.of_nat (dc m) - 32 * Z.of_nat off).
  assert (Hsz : 0 <= size < 2147483648) by (unfold size; lia).
  assert (Hwords : hw_words size = Z.of_nat (dw m - off)).
  { rewrite hw_words_spec by lia. unfold size. lia. }
  assert (Hlen : length (map Z.of_N (skipn off row)) = (dw m - off)%nat).
  { rewrite map_length, skipn_length, Hrow. reflexivity. }
  rewrite hweight_array_correct.
  - f_equal. rewrite Hwords, Nat2Z.id. rewrite firstn_all2 by (rewrite Hlen; lia).
    rewrite (words_popc m i (skipn off row) off).
    + rewrite skipn_length, Hrow.
      replace (32 * (dw m - off))%nat with ((dc m - 32 * off) + (32 * dw m - dc m))%nat by lia.
      rewrite seq_app, filter_app.
      rewrite (filter_false_nil _ (seq (32 * off + (dc m - 32 * off)) (32 * dw m - dc m))).
      * rewrite app_nil_r. reflexivity.
      * intros j Hj. apply in_seq in Hj. apply P; [exact Hi|lia|lia].
    + intros t _. rewrite nth_skipn_N. reflexivity.
  - apply Forall_forall. intros x Hx. apply in_map_iff in Hx. destruct Hx as (y & Ey & Hy).
    apply In_skipn_N in Hy. destruct (In_nth _ _ 0%N Hy) as (k & _ & Ek).
    pose proof (B i k) as Bk. unfold word in Bk. fold row in Bk. rewrite Ek in Bk.
    subst x. change (2 ^ 32)%N with 4294967296%N in Bk. change (2 ^ 32) with 4294967296. lia.
  - change (2 ^ 31) with 2147483648. exact Hsz.
  - rewrite Hwords, Hlen. lia.
Qed.

(* when 32 divides nb_ignore the first nb_ignore columns are indeed the ones ignored *)
Corollary row_weight_ignore_first_aligned : forall m i nb,
  WFd m -> words32 m -> padzero m -> (i < dr m)%nat -> (nb mod 32 = 0)%nat -> (nb <= dc m)%nat ->
  Z.of_nat (dc m) < 2 ^ 31 ->
  d_row_weight_ignore_first m i nb =
  Some (Z.of_nat (length (filter (fun j => d_get m i j) (seq nb (dc m - nb))))).
Proof.
  intros m i nb W B P Hi Hmod Hnb Hdc.
  assert (E : (32 * (nb / 32) = nb)%nat) by lia.
  rewrite row_weight_ignore_first_correct by (try assumption; lia).
  rewrite E. reflexivity.
Qed.

(* otherwise the bits nb mod 32 .. 31 of the first counted word ARE counted: one row of 40 columns, bits 0 and 35 set,
   nb_ignore = 3: the function answers 2 although only one bit lies in the columns 3..39 *)
Example ignore_first_counts_ignored_bits :
  let m := {| dr := 1; dc := 40; dw := 2; drows := [[1%N; 8%N]] |} in
  d_get m 0 0 = true /\ d_get m 0 35 = true /\
  length (filter (fun j => d_get m 0 j) (seq 3 (40 - 3))) = 1%nat /\
  d_row_weight_ignore_first m 0 3 = Some 2 /\
  d_row_weight_ignore_first m 0 32 = Some 1.
Proof. vm_compute. repeat split; reflexivity. Qed.

(* UINT32(-1) for a row out of range *)
Theorem row_weight_ignore_first_bad_row : forall m i nb, (dr m <= i)%nat ->
  d_row_weight_ignore_first m i nb = Some 4294967295.
Proof.
  intros m i nb H. unfold d_row_weight_ignore_first. destruct (Nat.leb_spec (dr m) i); [reflexivity|lia].
Qed.

(* ---------- H6: nothing ignored = the plain row weight ---------- *)
Corollary row_weight_ignore_first_0 : forall m i,
  WFd m -> words32 m -> padzero m -> (i < dr m)%nat -> Z.of_nat (dc m) < 2 ^ 31 ->
  d_row_weight_ignore_first m i 0 = Some (Z.of_nat (d_row_weight m i)).
Proof.
  intros m i W B P Hi Hdc.
  rewrite row_weight_ignore_first_aligned by (try assumption; try reflexivity; lia).
  rewrite Nat.sub_0_r. reflexivity.
Qed.

Print Assumptions hweight_array_correct.
Print Assumptions row_weight_ignore_first_correct.
Definition HweightArrayProofs_all :=
  (@hw_words_spec, @hweight_array_correct, @hweight_array_firstn, @hweight_array_reads_only_its_words,
   @hweight_array_past_the_end, @popc_bits, @popc32_bits, @row_weight_ignore_first_correct,
   @row_weight_ignore_first_aligned, @ignore_first_counts_ignored_bits, @row_weight_ignore_first_bad_row,
   @row_weight_ignore_first_0).
Print Assumptions HweightArrayProofs_all.
