(* C14: every entry of the tables read from /repo (gen/GenTables.v) equals GF(2)[x]/(p) arithmetic.
   The boolean checkers are closed by vm_compute in TablesProofs.v and lifted to forall-statements. *)
From Coq Require Import NArith Arith List Bool Lia.
From OFV Require Import GF2Poly.
Import ListNotations.
Local Open Scope N_scope.

(* a q x q multiplication table *)
Definition chk_mul (q : nat) (mul : N -> N -> N) (tbl : list (list N)) : bool :=
  Nat.eqb (length tbl) q &&
  forallbi (fun a row => Nat.eqb (length row) q &&
     forallbi (fun b e => N.eqb e (mul (N.of_nat a) (N.of_nat b))) 0 row) 0 tbl.

(* exp table: exp[i] = x^i, for all its n entries; xs = running power *)
Fixpoint chk_exp_from (m p : N) (cur : N) (l : list N) : bool :=
  match l with [] => true | e :: t => N.eqb e cur && chk_exp_from m p (xtime m p cur) t end.
Definition chk_exp (n : nat) (m p : N) (l : list N) : bool :=
  Nat.eqb (length l) n && chk_exp_from m p 1 l.

(* log table: period q = 2^m; entry i (any i below the table length, a multiple of q) is the discrete
   logarithm of (i mod q): log[0] = q-1 by convention; otherwise 0 <= log < q-1 and x^log = i *)
Definition chk_log (q : nat) (m p : N) (l : list N) : bool :=
  negb (Nat.eqb (length l) 0) && Nat.eqb (Nat.modulo (length l) q) 0 &&
  forallbi (fun i e => let a := Nat.modulo i q in
     if Nat.eqb a 0 then N.eqb e (N.of_nat q - 1)
     else N.ltb e (N.of_nat q - 1) && N.eqb (xpow m p (N.to_nat e)) (N.of_nat a)) 0 l.

(* inverse table: inv[0] = 0, a * inv[a] = 1 otherwise, and inv[a] < q *)
Definition chk_inv (q : nat) (mul : N -> N -> N) (l : list N) : bool :=
  Nat.eqb (length l) q &&
  forallbi (fun a e => if Nat.eqb a 0 then N.eqb e 0
                       else N.ltb e (N.of_nat q) && N.eqb (mul (N.of_nat a) e) 1) 0 l.

(* packed table of GF(2^4): row c, byte x = hi|lo  ->  (c*hi)<<4 | (c*lo) *)
Definition chk_optmul (tbl : list (list N)) : bool :=
  Nat.eqb (length tbl) 16 &&
  forallbi (fun c row => Nat.eqb (length row) 256 &&
     forallbi (fun x e => N.eqb e (N.lor (N.shiftl (mul16 (N.of_nat c) (N.shiftr (N.of_nat x) 4)) 4)
                                        (mul16 (N.of_nat c) (N.land (N.of_nat x) 15)))) 0 row) 0 tbl.
