(* C12: a generic interleaving theorem.  If every API step's effect on its own session and its
   output do not depend on the shared global state, then whatever a session returns in ANY
   interleaving with other sessions equals what it returns when run alone from ANY global state. *)
From Coq Require Import Arith List Bool.
Import ListNotations.

Section I.
Variables G S Op Out : Type.
Variable step : G -> S -> Op -> G * S * Out.
Hypothesis step_local : forall g g' s o,
  snd (fst (step g s o)) = snd (fst (step g' s o)) /\ snd (step g s o) = snd (step g' s o).

(* global run: sessions are numbered, each has its own state *)
Fixpoint grun (g : G) (st : nat -> S) (h : list (nat * Op)) : list (nat * Out) :=
  match h with
  | [] => []
  | (i, o) :: rest =>
    let '(g', s', out) := step g (st i) o in
    (i, out) :: grun g' (fun j => if j =? i then s' else st j) rest
  end.

Fixpoint solo (g : G) (s : S) (ops : list Op) : list Out :=
  match ops with
  | [] => []
  | o :: rest => let '(g', s', out) := step g s o in out :: solo g' s' rest
  end.

Definition ops_of (i : nat) (h : list (nat * Op)) : list Op := map snd (filter (fun e => fst e =? i) h).
Definition outs_of (i : nat) (l : list (nat * Out)) : list Out := map snd (filter (fun e => fst e =? i) l).

Lemma solo_any_global : forall ops g g' s, solo g s ops = solo g' s ops.
Proof.
  induction ops as [|o ops IH]; intros g g' s; simpl; auto.
  destruct (step_local g g' s o) as (Hs & Ho).
  destruct (step g s o) as [[g1 s1] o1], (step g' s o) as [[g2 s2] o2]. simpl in *. subst. f_equal. apply IH.
Qed.

Theorem sessions_independent_proof : forall h g st i g',
  outs_of i (grun g st h) = solo g' (st i) (ops_of i h).
Proof.
  induction h as [|[j o] h IH]; intros g st i g'; simpl; auto.
  destruct (step g (st j) o) as [[g1 s1] o1] eqn:E. unfold outs_of, ops_of in *. simpl.
  destruct (Nat.eqb_spec j i) as [->|Hne]; simpl.
  - destruct (step_local g g' (st i) o) as (Hs & Ho). rewrite E in Hs, Ho. simpl in Hs, Ho.
    destruct (step g' (st i) o) as [[g2 s2] o2]. simpl in *. subst. f_equal.
    rewrite (IH g1 _ i g2). now rewrite Nat.eqb_refl.
  - rewrite (IH g1 _ i g'). destruct (Nat.eqb_spec i j); [congruence|reflexivity].
Qed.
End I.
