From Coq Require Import NArith ZArith Arith List Bool Lia.
From OFV Require Import Kernels.
Import ListNotations.

(* ---- upd_range: characterisation by nth ---- *)
Lemma upd_range_aux_length f off len : forall l i, length (upd_range_aux f off len i l) = length l.
Proof. induction l as [|x t IH]; intros i; simpl; auto. Qed.
Lemma upd_range_length f off len l : length (upd_range f off len l) = length l.
Proof. apply upd_range_aux_length. Qed.

Lemma nth_upd_range_aux f off len d : forall l i j,
  nth j (upd_range_aux f off len i l) d =
  if (off <=? i + j) && (i + j <? off + len) && (j <? length l) then f (i + j) (nth j l d) else nth j l d.
Proof.
  induction l as [|x t IH]; intros i j; simpl.
  - destruct j; rewrite andb_false_r; reflexivity.
  - destruct j as [|j].
    + rewrite Nat.add_0_r. simpl. rewrite andb_true_r. reflexivity.
    + rewrite IH. replace (S i + j) with (i + S j) by lia.
      replace (S j <? S (length t)) with (j <? length t) by reflexivity. reflexivity.
Qed.
Lemma nth_upd_range f off len l j d :
  nth j (upd_range f off len l) d =
  if (off <=? j) && (j <? off + len) && (j <? length l) then f j (nth j l d) else nth j l d.
Proof. unfold upd_range. rewrite nth_upd_range_aux. reflexivity. Qed.

Ltac nth_cases :=
  repeat match goal with
  | |- context [?a <=? ?b] => destruct (Nat.leb_spec a b)
  | |- context [?a <? ?b] => destruct (Nat.ltb_spec a b)
  end; simpl; try reflexivity; try lia.

Lemma upd_range_ext_list (l1 l2 : list N) :
  length l1 = length l2 -> (forall j, j < length l1 -> nth j l1 0%N = nth j l2 0%N) -> l1 = l2.
Proof. intros H1 H2. apply (nth_ext l1 l2 0%N 0%N H1 H2). Qed.

Lemma upd_range_zero f off l : upd_range f off 0 l = l.
Proof.
  apply upd_range_ext_list; [apply upd_range_length|]. intros j Hj. rewrite nth_upd_range. nth_cases.
Qed.

(* adjacent segments compose *)
Lemma upd_range_adjacent f off n m l :
  upd_range f (off + n) m (upd_range f off n l) = upd_range f off (n + m) l.
Proof.
  apply upd_range_ext_list; [rewrite !upd_range_length; reflexivity|].
  intros j Hj. rewrite !nth_upd_range, !upd_range_length. nth_cases.
Qed.

(* the function only matters on the bytes it is applied to *)
Lemma upd_range_ext f g off len l :
  (forall j, off <= j < off + len -> j < length l -> f j (nth j l 0%N) = g j (nth j l 0%N)) ->
  upd_range f off len l = upd_range g off len l.
Proof.
  intros H. apply upd_range_ext_list; [rewrite !upd_range_length; reflexivity|].
  intros j Hj. rewrite !nth_upd_range.
  destruct (Nat.leb_spec off j), (Nat.ltb_spec j (off + len)), (Nat.ltb_spec j (length l)); simpl; auto; apply H; lia.
Qed.

(* two passes over the same range *)
Lemma upd_range_twice f g off len l :
  upd_range g off len (upd_range f off len l) = upd_range (fun j x => g j (f j x)) off len l.
Proof.
  apply upd_range_ext_list; [rewrite !upd_range_length; reflexivity|].
  intros j Hj. rewrite !nth_upd_range, !upd_range_length. nth_cases.
Qed.

(* bytes outside [off, off+len) are never changed *)
Lemma upd_range_frame f off len l j : ~ (off <= j < off + len) -> nth j (upd_range f off len l) 0%N = nth j l 0%N.
Proof. intros H. rewrite nth_upd_range. nth_cases. Qed.

Lemma upd_range_frame_beyond : forall f size l j, size <= j -> nth j (upd_range f 0 size l) 0%N = nth j l 0%N.
Proof. intros f size l j H. apply upd_range_frame. lia. Qed.

(* ---- XOR kernels ---- *)
Lemma loop64_spec grp : forall cnt w dst,
  loop64 cnt w grp dst = (upd_range (fx grp) (8 * w) (8 * cnt) dst, w + cnt).
Proof.
  induction cnt as [|c IH]; intros w dst; simpl loop64.
  - rewrite Nat.mul_0_r, upd_range_zero, Nat.add_0_r. reflexivity.
  - rewrite IH. f_equal; [|lia].
    replace (8 * S w) with (8 * w + 8) by lia. rewrite upd_range_adjacent. f_equal. lia.
Qed.

Lemma tail_loop_spec grp off : forall cnt i dst,
  tail_loop cnt i off grp dst = upd_range (fx grp) (off + i) cnt dst.
Proof.
  induction cnt as [|c IH]; intros i dst; simpl tail_loop.
  - rewrite upd_range_zero. reflexivity.
  - rewrite IH. replace (off + S i) with (off + i + 1) by lia. rewrite upd_range_adjacent. reflexivity.
Qed.

Lemma xor_block_spec size grp dst : xor_block size grp dst = upd_range (fx grp) 0 size dst.
Proof.
  unfold xor_block. rewrite loop64_spec. simpl (8 * 0). rewrite Nat.add_0_l.
  pose proof (Nat.div_mod size 8 ltac:(lia)) as H8. pose proof (Nat.mod_upper_bound size 8 ltac:(lia)) as R8.
  pose proof (Nat.div_mod size 4 ltac:(lia)) as H4. pose proof (Nat.mod_upper_bound size 4 ltac:(lia)) as R4.
  set (q8 := size / 8) in *. set (q4 := size / 4) in *. set (r4 := size mod 4) in *. set (r8 := size mod 8) in *.
  clearbody q8 q4 r4 r8.
  destruct (Nat.ltb_spec (q8 * 2) q4) as [Hlt|Hge].
  - rewrite tail_loop_spec. rewrite Nat.add_0_r.
    change (upd_range (fx grp) (8 * q8) 4 (upd_range (fx grp) 0 (8 * q8) dst))
      with (upd_range (fx grp) (0 + 8 * q8) 4 (upd_range (fx grp) 0 (8 * q8) dst)).
    rewrite upd_range_adjacent.
    replace (8 * q8 + 4) with (0 + (8 * q8 + 4)) by lia. rewrite upd_range_adjacent. f_equal. lia.
  - rewrite tail_loop_spec. rewrite Nat.add_0_r.
    replace (8 * q8) with (0 + 8 * q8) at 1 by lia. rewrite upd_range_adjacent. f_equal. lia.
Qed.

Theorem add_to_symbol_spec dst from size :
  add_to_symbol dst from size = upd_range (fun i x => N.lxor x (nth i from 0%N)) 0 size dst.
Proof. unfold add_to_symbol. rewrite xor_block_spec. reflexivity. Qed.

Lemma fx_app g1 g2 i x : fx g2 i (fx g1 i x) = fx (g1 ++ g2) i x.
Proof. unfold fx. rewrite fold_left_app. reflexivity. Qed.

Lemma take_groups_spec g size : g <> 0 -> forall fuel from dst seen,
  length from < fuel ->
  let '(d, fr) := take_groups g fuel size from (upd_range (fx seen) 0 size dst) in
  exists used, from = used ++ fr /\ length fr < g /\ d = upd_range (fx (seen ++ used)) 0 size dst.
Proof.
  intros Hg. induction fuel as [|f IH]; intros from dst seen Hf; [lia|]. simpl take_groups.
  destruct (Nat.leb_spec g (length from)) as [Hle|Hgt].
  - rewrite xor_block_spec, upd_range_twice.
    rewrite (upd_range_ext _ (fx (seen ++ firstn g from))) by (intros; apply fx_app).
    specialize (IH (skipn g from) dst (seen ++ firstn g from)).
    rewrite skipn_length in IH. specialize (IH ltac:(lia)).
    destruct (take_groups g f size (skipn g from) _) as [d fr].
    destruct IH as (used & E & L & D). exists (firstn g from ++ used). split; [|split; [exact L|]].
    + rewrite <- app_assoc, <- E. symmetry. apply firstn_skipn.
    + rewrite D, app_assoc. reflexivity.
  - exists []. rewrite app_nil_r. simpl. auto.
Qed.

Theorem add_from_multiple_spec dst from size :
  add_from_multiple dst from size = upd_range (fx from) 0 size dst.
Proof.
  unfold add_from_multiple.
  assert (H0 : dst = upd_range (fx []) 0 size dst).
  { symmetry. rewrite <- (upd_range_zero (fx []) 0 dst) at 2.
    apply upd_range_ext_list; [rewrite !upd_range_length; reflexivity|].
    intros j Hj. rewrite !nth_upd_range. unfold fx. simpl. nth_cases. }
  rewrite H0 at 1.
  pose proof (take_groups_spec 8 size ltac:(lia) (S (length from)) from dst [] ltac:(lia)) as H8.
  destruct (take_groups 8 _ size from _) as [d1 f1]. destruct H8 as (u1 & E1 & L1 & D1). subst d1.
  pose proof (take_groups_spec 4 size ltac:(lia) (S (length from)) f1 dst ([] ++ u1)) as H4.
  assert (Hl1 : length f1 <= length from) by (rewrite E1, app_length; lia). specialize (H4 ltac:(lia)).
  destruct (take_groups 4 _ size f1 _) as [d2 f2]. destruct H4 as (u2 & E2 & L2 & D2). subst d2.
  pose proof (take_groups_spec 2 size ltac:(lia) (S (length from)) f2 dst (([] ++ u1) ++ u2)) as H2.
  assert (Hl2 : length f2 <= length from) by (rewrite E1, E2, !app_length; lia). specialize (H2 ltac:(lia)).
  destruct (take_groups 2 _ size f2 _) as [d3 f3]. destruct H2 as (u3 & E3 & L3 & D3). subst d3.
  destruct f3 as [|f [|f' r]]; simpl in L3; try lia.
  - f_equal. rewrite E1, E2, E3, !app_nil_r. simpl. rewrite app_assoc. reflexivity.
  - rewrite xor_block_spec, upd_range_twice.
    rewrite (upd_range_ext _ (fx (((([] ++ u1) ++ u2) ++ u3) ++ [f]))) by (intros; apply fx_app).
    f_equal. rewrite E1, E2, E3. simpl. rewrite <- !app_assoc. reflexivity.
Qed.

(* the kernels never look at operand bytes at or beyond `size` *)
Lemma fx_agree grp grp' i x : map (fun s => nth i s 0%N) grp = map (fun s => nth i s 0%N) grp' -> fx grp i x = fx grp' i x.
Proof.
  unfold fx. revert grp' x. induction grp as [|s t IH]; intros [|s' t'] x H; simpl in *; try discriminate; auto.
  inversion H as [[H1 H2]]. rewrite H1. apply IH. exact H2.
Qed.
Theorem add_from_multiple_reads_only_size dst from from' size :
  (forall i, i < size -> map (fun s => nth i s 0%N) from = map (fun s => nth i s 0%N) from') ->
  add_from_multiple dst from size = add_from_multiple dst from' size.
Proof.
  intros H. rewrite !add_from_multiple_spec. apply upd_range_ext. intros j Hj _. apply fx_agree, H. lia.
Qed.

(* one source into many targets *)
Lemma take_groups_to_spec g size from : g <> 0 -> forall fuel tos done,
  length tos < fuel ->
  let '(dn, ts) := take_groups_to g fuel size from tos done in
  exists used, tos = used ++ ts /\ length ts < g /\ dn = done ++ map (upd_range (fx [from]) 0 size) used.
Proof.
  intros Hg. induction fuel as [|f IH]; intros tos done Hf; [lia|]. simpl take_groups_to.
  destruct (Nat.leb_spec g (length tos)) as [Hle|Hgt].
  - specialize (IH (skipn g tos) (done ++ map (xor_block size [from]) (firstn g tos))).
    rewrite skipn_length in IH. specialize (IH ltac:(lia)).
    destruct (take_groups_to g f size from (skipn g tos) _) as [dn ts].
    destruct IH as (used & E & L & D). exists (firstn g tos ++ used). split; [|split; [exact L|]].
    + rewrite <- app_assoc, <- E. symmetry. apply firstn_skipn.
    + rewrite D, map_app, app_assoc. f_equal. f_equal. apply map_ext. intros a. apply xor_block_spec.
  - exists []. rewrite app_nil_r. simpl. auto.
Qed.

Theorem add_to_multiple_spec tos from size :
  add_to_multiple tos from size = map (upd_range (fun i x => N.lxor x (nth i from 0%N)) 0 size) tos.
Proof.
  unfold add_to_multiple.
  pose proof (take_groups_to_spec 8 size from ltac:(lia) (S (length tos)) tos [] ltac:(lia)) as H8.
  destruct (take_groups_to 8 _ size from tos []) as [d1 t1]. destruct H8 as (u1 & E1 & L1 & D1).
  assert (Hl1 : length t1 <= length tos) by (rewrite E1, app_length; lia).
  pose proof (take_groups_to_spec 4 size from ltac:(lia) (S (length tos)) t1 d1 ltac:(lia)) as H4.
  destruct (take_groups_to 4 _ size from t1 d1) as [d2 t2]. destruct H4 as (u2 & E2 & L2 & D2).
  assert (Hl2 : length t2 <= length tos) by (rewrite E1, E2, !app_length; lia).
  pose proof (take_groups_to_spec 2 size from ltac:(lia) (S (length tos)) t2 d2 ltac:(lia)) as H2.
  destruct (take_groups_to 2 _ size from t2 d2) as [d3 t3]. destruct H2 as (u3 & E3 & L3 & D3).
  change (fun i x => N.lxor x (nth i from 0%N)) with (fx [from]).
  subst d3 d2 d1. rewrite E1, E2, E3. simpl app.
  destruct t3 as [|t [|t' r]]; simpl in L3; try lia.
  - rewrite !app_nil_r, !map_app, <- ?app_assoc. reflexivity.
  - rewrite xor_block_spec, !map_app. simpl. rewrite <- !app_assoc. reflexivity.
Qed.

(* ---- GF multiply-accumulate ---- *)
Local Open Scope Z_scope.
Lemma addmul_main_spec f sz : forall fuel off dst, 0 <= off ->
  exists off', addmul_main fuel off sz f dst = (upd_range f (Z.to_nat off) (Z.to_nat (off' - off)) dst, off')
    /\ off <= off' /\ (off' <= sz \/ off' = off)
    /\ (sz - off <= Z.of_nat fuel * 16 + 15 -> sz - off' <= 15).
Proof.
  induction fuel as [|k IH]; intros off dst Hoff; simpl addmul_main.
  - exists off. rewrite Z.sub_diag, upd_range_zero. simpl. repeat split; try lia.
  - destruct (Z.ltb_spec off (sz - 15)) as [Hlt|Hge].
    + destruct (IH (off + 16) (upd_range f (Z.to_nat off + 8) 8 (upd_range f (Z.to_nat off) 8 dst)) ltac:(lia))
        as (off' & E & H1 & H2 & H3).
      exists off'. rewrite E. split; [|split; [lia|split; [lia|intros; apply H3; lia]]].
      f_equal. rewrite upd_range_adjacent.
      replace (Z.to_nat (off + 16)) with (Z.to_nat off + (8 + 8))%nat by lia.
      rewrite upd_range_adjacent. f_equal. lia.
    + exists off. rewrite Z.sub_diag, upd_range_zero. simpl. repeat split; try lia.
Qed.

Lemma addmul_tail_spec f sz : forall fuel off dst, 0 <= off -> (sz - off <= Z.of_nat fuel)%Z ->
  addmul_tail fuel off sz f dst = upd_range f (Z.to_nat off) (Z.to_nat (sz - off)) dst.
Proof.
  induction fuel as [|k IH]; intros off dst Hoff Hf; simpl addmul_tail.
  - replace (Z.to_nat (sz - off)) with 0%nat by lia. rewrite upd_range_zero. reflexivity.
  - destruct (Z.ltb_spec off sz) as [Hlt|Hge].
    + rewrite IH by lia. replace (Z.to_nat (off + 1)) with (Z.to_nat off + 1)%nat by lia.
      rewrite upd_range_adjacent. f_equal. lia.
    + replace (Z.to_nat (sz - off)) with 0%nat by lia. rewrite upd_range_zero. reflexivity.
Qed.

(* main and tail functions may differ syntactically (compact kernel) as long as they agree on bytes *)
Lemma addmul_gen_spec fmain ftail sz dst : 0 <= sz ->
  (forall j x, (x < 256)%N -> ftail j x = fmain j x) -> Forall (fun b => (b < 256)%N) dst ->
  addmul_gen fmain ftail sz dst = upd_range fmain 0 (Z.to_nat sz) dst.
Proof.
  intros Hsz Hag Hb. unfold addmul_gen.
  destruct (addmul_main_spec fmain sz (Z.to_nat sz) 0 dst ltac:(lia)) as (off' & E & H1 & H2 & H3).
  rewrite E. assert (Hoff : off' <= sz) by lia. specialize (H3 ltac:(lia)).
  rewrite addmul_tail_spec by lia.
  rewrite (upd_range_ext ftail fmain).
  - rewrite Z.sub_0_r. change (Z.to_nat 0) with 0%nat.
    pose proof (upd_range_adjacent fmain 0%nat (Z.to_nat off') (Z.to_nat (sz - off')) dst) as HA.
    cbn [Nat.add] in HA. rewrite HA. f_equal. lia.
  - intros j Hj Hl. apply Hag. rewrite nth_upd_range.
    rewrite upd_range_length in Hl.
    assert (Hn : (nth j dst 0 < 256)%N) by (rewrite Forall_forall in Hb; apply Hb, nth_In; exact Hl).
    destruct ((Z.to_nat 0 <=? j)%nat && (j <? Z.to_nat 0 + Z.to_nat (off' - 0))%nat && (j <? length dst)%nat) eqn:Ec; [|exact Hn].
    exfalso. apply andb_true_iff in Ec as [Ec _]. apply andb_true_iff in Ec as [_ Ec]. apply Nat.ltb_lt in Ec. lia.
Qed.

Theorem addmul1_spec mulc dst src sz : 0 <= sz ->
  addmul1 mulc dst src sz = upd_range (fun i x => N.lxor x (mulc (nth i src 0%N))) 0 (Z.to_nat sz) dst.
Proof.
  intros Hsz. unfold addmul1, addmul_gen.
  destruct (addmul_main_spec (fmul mulc src) sz (Z.to_nat sz) 0 dst ltac:(lia)) as (off' & E & H1 & H2 & H3).
  rewrite E. assert (Hoff : off' <= sz) by lia. specialize (H3 ltac:(lia)).
  rewrite addmul_tail_spec by lia. rewrite Z.sub_0_r. change (Z.to_nat 0) with 0%nat.
  pose proof (upd_range_adjacent (fmul mulc src) 0%nat (Z.to_nat off') (Z.to_nat (sz - off')) dst) as HA.
  cbn [Nat.add] in HA. rewrite HA. f_equal. lia.
Qed.
