(* Model M of the sparse GF(2) matrix (of_matrix_sparse.c, of_matrix_convert.c), C17.
   A matrix is two families of strictly increasing lists kept consistent (per row the columns, per
   column the rows: what the row and column traversals of the doubly linked lists enumerate) plus the
   entry pool (number of allocated blocks of of_mod2sparse_block entries, length of the free list).
   find / insert keep the C's search order: last entry of the row, last entry of the column, then a
   walk from the front. *)
From Coq Require Import Arith List Bool.
From OFV Require Import ListAux.
Import ListNotations.

Definition BLOCK : nat := 1024.   (* of_mod2sparse_block; compared with /repo's value by the check *)

Record smat := { nr : nat; nc : nat; rws : list (list nat); cls : list (list nat); nblocks : nat; nfree : nat }.

Inductive sres := Existed | Inserted | Garbled | OutOfRange.

Definition s_allocate (r c : nat) : smat :=
  {| nr := r; nc := c; rws := repeat [] r; cls := repeat [] c; nblocks := 0; nfree := 0 |}.

Fixpoint last_opt (l : list nat) : option nat :=
  match l with [] => None | [x] => Some x | _ :: t => last_opt t end.

Definition mem (x : nat) (l : list nat) : bool := existsb (Nat.eqb x) l.

(* walk from the front: insert x before the first larger element; None if x is met *)
Fixpoint ins_walk (x : nat) (l : list nat) : option (list nat) :=
  match l with
  | [] => Some [x]
  | y :: t => if y =? x then None else if x <? y then Some (x :: l)
              else match ins_walk x t with None => None | Some t' => Some (y :: t') end
  end.
(* the C's order: look at the last element first *)
Definition ins_fast (x : nat) (l : list nat) : option (list nat) :=
  match last_opt l with
  | None => Some (l ++ [x])
  | Some y => if y =? x then None else if y <? x then Some (l ++ [x]) else ins_walk x l
  end.

(* of_alloc_entry: take an entry from the free list, allocating a block when it is empty *)
Definition pool_take (m : smat) : nat * nat :=
  if nfree m =? 0 then (S (nblocks m), BLOCK - 1) else (nblocks m, nfree m - 1).

Definition s_insert (m : smat) (i j : nat) : smat * sres :=
  if (nr m <=? i) || (nc m <=? j) then (m, OutOfRange) else
  match ins_fast j (nth i (rws m) []) with
  | None => (m, Existed)
  | Some row' =>
    let '(nb, nf) := pool_take m in
    match ins_fast i (nth j (cls m) []) with
    | None => ({| nr := nr m; nc := nc m; rws := upd (rws m) i row'; cls := cls m; nblocks := nb; nfree := nf |}, Garbled)
    | Some col' => ({| nr := nr m; nc := nc m; rws := upd (rws m) i row'; cls := upd (cls m) j col'; nblocks := nb; nfree := nf |}, Inserted)
    end
  end.

(* parallel search of row and column from the front *)
Fixpoint find_walk (row col : list nat) (i j : nat) : bool :=
  match row with
  | [] => false
  | c :: row' =>
    if j <? c then false else if c =? j then true else
    match col with
    | [] => false
    | r :: col' => if i <? r then false else if r =? i then true else find_walk row' col' i j
    end
  end.

Definition s_find (m : smat) (i j : nat) : option bool :=
  if (nr m <=? i) || (nc m <=? j) then None else
  let row := nth i (rws m) [] in let col := nth j (cls m) [] in
  Some (match last_opt row with
        | None => false
        | Some lc => if lc <? j then false else if lc =? j then true else
          match last_opt col with
          | None => false
          | Some lr => if lr <? i then false else if lr =? i then true else find_walk row col i j
          end
        end).

Definition remove1 (x : nat) (l : list nat) : list nat := filter (fun y => negb (y =? x)) l.

(* of_mod2sparse_delete on the entry found at (i, j): unlink from row and column, push on the free list *)
Definition s_delete (m : smat) (i j : nat) : smat :=
  if mem j (nth i (rws m) []) then
    {| nr := nr m; nc := nc m; rws := upd (rws m) i (remove1 j (nth i (rws m) []));
       cls := upd (cls m) j (remove1 i (nth j (cls m) [])); nblocks := nblocks m; nfree := S (nfree m) |}
  else m.

(* of_mod2sparse_clear (with next_free reset, as repaired) *)
Definition s_clear (m : smat) : smat :=
  {| nr := nr m; nc := nc m; rws := repeat [] (nr m); cls := repeat [] (nc m); nblocks := 0; nfree := 0 |}.

(* of_mod2sparse_free: rows, columns and every block are released *)
Definition s_free_blocks (m : smat) : nat := 0.

Definition entries (m : smat) : list (nat * nat) :=
  flat_map (fun i => map (fun j => (i, j)) (nth i (rws m) [])) (seq 0 (nr m)).

Definition insert_all (r : smat) (es : list (nat * nat)) : smat :=
  fold_left (fun acc e => fst (s_insert acc (fst e) (snd e))) es r.

(* of_mod2sparse_copy: r must be at least as large *)
Definition s_copy (m r : smat) : smat :=
  if (nr r <? nr m) || (nc r <? nc m) then r else insert_all (s_clear r) (entries m).

(* of_mod2sparse_copyrows: row i of r := row rows[i] of m, for every row i of r *)
Definition s_copyrows (m r : smat) (rows : list nat) : smat :=
  if nc r <? nc m then r else
  insert_all (s_clear r)
    (flat_map (fun i => map (fun j => (i, j)) (nth (nth i rows 0) (rws m) [])) (seq 0 (nr r))).

(* of_mod2sparse_copycols: column j of r := column cols[j] of m *)
Definition s_copycols (m r : smat) (cols : list nat) : smat :=
  if nr r <? nr m then r else
  insert_all (s_clear r)
    (flat_map (fun j => map (fun i => (i, j)) (nth (nth j cols 0) (cls m) [])) (seq 0 (nc r))).

(* of_mod2sparse_copy_filled_matrix: entries of m renumbered through the two index tables *)
Definition s_copy_filled (m r : smat) (irows icols : list nat) : smat :=
  insert_all r (map (fun e => (nth (fst e) irows 0, nth (snd e) icols 0)) (entries m)).

Definition s_empty_row (m : smat) (i : nat) : bool := match nth i (rws m) [] with [] => true | _ => false end.
Definition s_empty_col (m : smat) (j : nat) : bool := match nth j (cls m) [] with [] => true | _ => false end.
Definition s_weight_row (m : smat) (i : nat) : nat := length (nth i (rws m) []).

(* conversions: the dense side is a list of rows of booleans *)
Definition s_to_dense (m : smat) (dr dc : nat) : list (list bool) :=
  map (fun i => map (fun j => (i <? nr m) && mem j (nth i (rws m) [])) (seq 0 dc)) (seq 0 dr).
Definition s_from_dense (d : list (list bool)) (r : smat) : smat :=
  insert_all (s_clear r)
    (flat_map (fun i => flat_map (fun j => if nth j (nth i d []) false then [(i, j)] else []) (seq 0 (length (nth i d []))))
              (seq 0 (length d))).
