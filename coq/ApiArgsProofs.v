(* Proofs about ApiArgs.v: a call is handed to the codec exactly inside its documented domain; every other call
   returns an error status (false for the completion query) and leaves the session state untouched. *)
From Coq Require Import ZArith Bool Lia.
From OFV Require Import Params ApiArgs.
Local Open Scope Z_scope.

Lemma u32_small z : 0 <= z < 2 ^ 32 -> u32 z = z.
Proof. intros H. unfold u32. apply Z.mod_small. exact H. Qed.

Ltac fin := split; intros HH; try discriminate HH; try solve [intuition (try discriminate; try congruence; try lia)].

Lemma api_dispatch_iff_domain_proof (s : option ses) (c : call) :
  (forall ss, s = Some ss -> 0 <= s_k ss /\ 0 <= s_r ss /\ s_k ss + s_r ss < 2 ^ 32) ->
  (api_verdict s c = VDispatch <-> in_domain s c).
Proof.
  intros Hs. destruct s as [ss|].
  2:{ simpl. destruct c; split; intros H; try discriminate H; try contradiction. }
  destruct (Hs ss eq_refl) as (Hk & Hr & Hn).
  assert (Hu : u32 (s_k ss + s_r ss) = s_k ss + s_r ss) by (apply u32_small; lia).
  unfold api_verdict, in_domain. rewrite Hu.
  destruct c as [esi|bufnull esi|tabnull| | | |srcnull repnull|type valnull len].
  - destruct (has_enc (s_role ss)); simpl; [|fin].
    destruct (Z.ltb_spec esi (s_k ss)); destruct (Z.leb_spec (s_k ss + s_r ss) esi); simpl; fin.
  - destruct (Z.leb_spec (s_k ss + s_r ss) esi); [fin|].
    destruct bufnull; destruct (has_dec (s_role ss)); simpl; fin.
  - destruct tabnull; destruct (has_dec (s_role ss)); simpl; fin.
  - destruct (has_dec (s_role ss)); simpl; fin.
  - destruct (has_dec (s_role ss)); simpl; fin.
  - destruct (has_dec (s_role ss)); simpl; fin.
  - destruct srcnull; destruct repnull; simpl; fin.
  - destruct (Z.eqb_spec type 1); [|destruct (Z.eqb_spec type 2)]; simpl.
    + destruct valnull; destruct (Z.eqb_spec len 4); simpl; fin.
    + destruct valnull; destruct (Z.eqb_spec len 4); simpl; fin.
    + destruct (Z.eqb_spec type 1024); destruct (s_ldpc ss); simpl; fin.
Qed.

(* every refused call reports an error: a non-zero status, or `false` for the completion query *)
Lemma api_refused_is_error_proof (s : option ses) (c : call) :
  api_verdict s c <> VDispatch ->
  (c = CIsComplete /\ api_verdict s c = VFalse) \/ (c <> CIsComplete /\ status_of (api_verdict s c) <> 0).
Proof.
  intros H. destruct (api_verdict s c) eqn:E.
  - contradiction H; reflexivity.
  - right. split; [|simpl; lia]. intros ->. destruct s as [ss|]; simpl in E; [destruct (has_dec (s_role ss)); discriminate E|discriminate E].
  - right. split; [|simpl; lia]. intros ->. destruct s as [ss|]; simpl in E; [destruct (has_dec (s_role ss)); discriminate E|discriminate E].
  - left. split; [|reflexivity]. destruct s as [ss|]; destruct c; simpl in E; try discriminate E; try reflexivity;
      repeat match type of E with context [if ?b then _ else _] => destruct b; try discriminate E end.
Qed.

Lemma api_refused_keeps_state_proof {St Out} (dispatch : St -> call -> St * Out) (refused : verdict -> Out) info st c :
  api_verdict info c <> VDispatch -> fst (api_step dispatch refused info st c) = st.
Proof. unfold api_step. intros H. destruct (api_verdict info c); [contradiction H; reflexivity|reflexivity..]. Qed.

Lemma api_accepted_is_dispatched_proof {St Out} (dispatch : St -> call -> St * Out) (refused : verdict -> Out) info st c :
  api_verdict info c = VDispatch -> api_step dispatch refused info st c = dispatch st c.
Proof. unfold api_step. intros ->. reflexivity. Qed.
