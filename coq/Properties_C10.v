(* C10 — status codes and queries tell the truth about decoding progress.
   RS codecs (model of the shared API layer, RSApi.v): of_finish_decoding returns OK iff complete
   afterwards, FAILURE iff not, and complete iff k distinct symbols were submitted.
   LDPC-Staircase streaming decoder (ITModel.v): the completion query is true exactly when all k
   source symbols are available, and availability (hence completion) never reverts along a history.
   Pointer identity (StableTables.v; buffers are opaque values of the models, so "the same pointer" is
   "the same value of type B / Sy"): the table entry written for a fresh submission is the submitted
   buffer itself, and no later call replaces an entry that is set - in the streaming decoder, in the ML
   finish and in the Reed-Solomon API layer.
   The LDPC of_finish_decoding status is OK iff all sources are available afterwards
   (ldpc_finish_status_truthful, a clause of the session theorem of Properties_C03.v). *)
From Coq Require Import Arith List Bool.
From OFV Require Import ListAux RSApi RSApiProofs LdpcEnc ITModel ITProofs MLModel MLCorollaries StableTables.
Import ListNotations.

Theorem rs_finish_status_truthful :
  forall (B : Type) (core : nat -> list (option B) -> option (list B)) (cb : bool) (mk : nat -> B -> B) (k n : nat),
  k <= n ->
  (forall t, length t = n -> k <= count_some t -> exists vals, core k t = Some vals /\ length vals = k) ->
  forall h : list (nat * B), 1 <= k -> (forall ev, In ev h -> fst ev < n) ->
  let r := rs_finish core cb mk (RSApiProofs.run B core cb mk k n h) in
  ((snd r = OK) <-> (rs_is_complete (fst r) = true)) /\ ((snd r = FAILURE) <-> (rs_is_complete (fst r) = false)) /\
  ((rs_is_complete (fst r) = true) <-> (k <= ndistinct n (map fst h))).
Proof. exact rs_finish_truthful_proof. Qed.

Theorem ldpc_complete_query_truthful :
  forall (Sy : Type) (sxor : Sy -> Sy -> Sy) (s0 : Sy) (H0 : list (list nat)) (R0 N0 : nat),
  length H0 = R0 -> (forall i, i < R0 -> NoDup (nth i H0 [])) ->
  (forall i c, i < R0 -> In c (nth i H0 []) -> c < N0) -> (forall i, i < R0 -> 2 <= length (nth i H0 [])) -> R0 <= N0 ->
  forall fuel (hist : list (nat * Sy)) (s : st Sy),
  (forall ev, In ev hist -> fst ev < N0) -> ITProofs.run Sy sxor s0 H0 R0 N0 fuel hist = Some s ->
  (fst (is_complete s) = true <-> forall c, R0 <= c < N0 -> known s c = true).
Proof. exact run_complete_flag. Qed.

Theorem ldpc_availability_never_reverts :
  forall (Sy : Type) (sxor : Sy -> Sy -> Sy) (s0 : Sy) (H0 : list (list nat)) (R0 N0 : nat),
  length H0 = R0 -> (forall i, i < R0 -> NoDup (nth i H0 [])) ->
  (forall i c, i < R0 -> In c (nth i H0 []) -> c < N0) -> (forall i, i < R0 -> 2 <= length (nth i H0 [])) -> R0 <= N0 ->
  forall fuel (h1 h2 : list (nat * Sy)) (s1 s2 : st Sy),
  (forall ev, In ev (h1 ++ h2) -> fst ev < N0) ->
  ITProofs.run Sy sxor s0 H0 R0 N0 fuel h1 = Some s1 -> ITProofs.run Sy sxor s0 H0 R0 N0 fuel (h1 ++ h2) = Some s2 ->
  forall c, known s1 c = true -> known s2 c = true.
Proof. exact run_monotone. Qed.

Theorem rs_table_entry_is_the_submitted_buffer :
  forall (B : Type) (core : nat -> list (option B) -> option (list B)) (cb : bool) (mk : nat -> B -> B) (k n : nat) (h1 h2 : list (nat * B)) esi b,
  let s := RSApiProofs.run B core cb mk k n h1 in
  RSApi.fin s = false -> esi < length (RSApi.tab s) -> nth esi (RSApi.tab s) None = None ->
  nth esi (RSApi.tab (RSApiProofs.run B core cb mk k n (h1 ++ (esi, b) :: h2))) None = Some b.
Proof. exact rs_run_keeps_submitted. Qed.

Theorem ldpc_table_entry_is_the_submitted_symbol :
  forall (Sy : Type) (sxor : Sy -> Sy -> Sy) (s0 : Sy) fuel s c v s',
  ITModel.decode sxor s0 fuel s c v = Some s' -> c < length (ITModel.tab s) -> nth c (ITModel.tab s) None = None ->
  nth c (ITModel.tab s') None = Some v.
Proof. exact decode_stores_submitted. Qed.

Theorem ldpc_entries_survive_later_calls_and_finish :
  forall (Sy : Type) (sxor : Sy -> Sy -> Sy) (s0 : Sy) (H0 : list (list nat)) (R0 N0 : nat) fuel h1 h2 s1 s2 fuel' perm o,
  ITProofs.run Sy sxor s0 H0 R0 N0 fuel h1 = Some s1 -> ITProofs.run Sy sxor s0 H0 R0 N0 fuel (h1 ++ h2) = Some s2 ->
  MLModel.ml_finish sxor s0 fuel' perm s2 = Some o ->
  forall e x, nth e (ITModel.tab s1) None = Some x -> nth e (ITModel.tab (MLModel.o_st o)) None = Some x.
Proof.
  intros Sy sxor s0 H0 R0 N0 fuel h1 h2 s1 s2 fuel' perm o R1 R2 Hf e x Hx.
  exact (ml_finish_tab_stable Sy sxor s0 fuel' perm s2 o Hf e x (run_tab_stable Sy sxor s0 H0 R0 N0 fuel h1 h2 s1 s2 R1 R2 e x Hx)).
Qed.

Theorem ldpc_finish_status_truthful :
  forall (Sy : Type) (sxor : Sy -> Sy -> Sy) (s0 : Sy),
  (forall a b c, sxor a (sxor b c) = sxor (sxor a b) c) -> (forall a b, sxor a b = sxor b a) ->
  (forall a, sxor s0 a = a) -> (forall a, sxor a a = s0) ->
  forall (H0 : list (list nat)) (R0 N0 : nat),
  length H0 = R0 -> (forall i, i < R0 -> NoDup (nth i H0 [])) ->
  (forall i c, i < R0 -> In c (nth i H0 []) -> c < N0) -> (forall i, i < R0 -> 2 <= length (nth i H0 [])) -> R0 <= N0 ->
  (forall c, c < N0 -> exists i, i < R0 /\ In c (nth i H0 [])) -> stair R0 H0 -> (exists a : Sy, a <> s0) ->
  forall cw : nat -> Sy, (forall i, i < R0 -> fold_right sxor s0 (map cw (nth i H0 [])) = s0) ->
  forall (hist : list (nat * Sy)) (s : ITModel.st Sy) fuel perm (o : outcome Sy),
  (forall ev, In ev hist -> fst ev < N0 /\ snd ev = cw (fst ev)) -> ITProofs.run Sy sxor s0 H0 R0 N0 (S N0) hist = Some s ->
  N0 < fuel -> (forall c, c < R0 -> In c perm) -> (forall c, In c perm -> c < R0) ->
  ml_finish sxor s0 fuel perm s = Some o ->
  (o_ok o = true <-> forall c, R0 <= c < N0 -> known (o_st o) c = true).
Proof. exact ml_session_status. Qed.

Print Assumptions rs_finish_status_truthful.
Print Assumptions ldpc_finish_status_truthful.
Print Assumptions rs_table_entry_is_the_submitted_buffer.
Print Assumptions ldpc_entries_survive_later_calls_and_finish.
Print Assumptions ldpc_complete_query_truthful.
Print Assumptions ldpc_availability_never_reverts.
