(* C12, sessions are independent of each other - the observational version.
   A  sessions_independent_obs : the generic interleaving theorem for machines whose steps preserve a
      relation R between session states and give equal outputs on R-related states, whatever the two
      global states are (Interleave.v asks for EQUAL next states; that is not available for
      of_finish_decoding, whose internal state is computed along the injection order drawn from the
      shared rand(): only its observable part is proved independent of that order, in C).
   B  shuffle / shuffle_perm : the permutation loop of of_finish_decoding yields a permutation of
      0..r-1 for every sequence of rand() values.
   C  finish_observables_perm_independent : status, source part of the table and completion flag after
      ml_finish do not depend on the permutation (nor on the fuel).
   D  lstep / ldpc_sessions_independent_full : a complete LDPC-Staircase session machine (Submit,
      Finish drawing from the shared state, Query) as an instance of A. *)
From Coq Require Import List Arith Bool Lia.
From OFV Require Import XorGroup ITModel ITLemmas ITProofs MLModel MLSimplify LdpcEnc MLFinish MLSession Interleave.
From OFV Require MLNoDecode StableTables DenseSolveComplete.
Import ListNotations.

(* ============================================================================================== *)
(* Part A - the observational interleaving theorem                                                 *)
(* ============================================================================================== *)
Section ObsI.
Variables G S Op Out : Type.
Variable step : G -> S -> Op -> G * S * Out.
Variable R : S -> S -> Prop.
Hypothesis step_obs : forall s s', R s s' -> forall g g' o,
  R (snd (fst (step g s o))) (snd (fst (step g' s' o))) /\ snd (step g s o) = snd (step g' s' o).

Lemma solo_obs : forall ops g g' s s', R s s' ->
  solo G S Op Out step g s ops = solo G S Op Out step g' s' ops.
Proof.
  induction ops as [|o ops IH]; intros g g' s s' HR; [reflexivity|].
  cbn [solo].
  destruct (step_obs s s' HR g g' o) as (Hs & Ho).
  destruct (step g s o) as [[g1 s1] o1]. destruct (step g' s' o) as [[g2 s2] o2].
  cbn [fst snd] in Hs, Ho. subst o2. f_equal. exact (IH g1 g2 s1 s2 Hs).
Qed.

Theorem sessions_independent_obs : forall h g st i g' s', R (st i) s' ->
  outs_of Out i (grun G S Op Out step g st h) = solo G S Op Out step g' s' (ops_of Op i h).
Proof.
  induction h as [|[j o] h IH]; intros g st i g' s' HR; [reflexivity|].
  cbn [grun].
  destruct (step g (st j) o) as [[g1 s1] o1] eqn:E.
  unfold outs_of, ops_of in *. cbn [filter fst].
  destruct (Nat.eqb_spec j i) as [Hji|Hne].
  - subst j. cbn [map snd solo].
    destruct (step_obs (st i) s' HR g g' o) as (Hs & Ho). rewrite E in Hs, Ho. cbn [fst snd] in Hs, Ho.
    destruct (step g' s' o) as [[g2 s2] o2]. cbn [fst snd] in Hs, Ho. subst o2. f_equal.
    apply (IH g1 _ i g2 s2). rewrite Nat.eqb_refl. exact Hs.
  - apply (IH g1 _ i g' s').
    destruct (Nat.eqb_spec i j) as [Hij|_]; [congruence|exact HR].
Qed.
End ObsI.

(* ============================================================================================== *)
(* Part B - the shuffle of of_linear_binary_code_finish_decoding_with_ml                           *)
(*    for (t = 0; t < r; t++) pm[t] = t;                                                           *)
(*    for (t = 0; t < r; t++) { backup = pm[t]; rv = rand() % r; pm[t] = pm[rv]; pm[rv] = backup; } *)
(* ============================================================================================== *)
(* one iteration: pm[t] = pm[rv]; pm[rv] = backup (the old pm[t]) *)
Definition swap_step (pm : list nat) (t rv : nat) : list nat :=
  upd (upd pm t (nth rv pm 0)) rv (nth t pm 0).

(* rvs = the values returned by rand(), in the order of the calls; the model reduces them mod r;
   a missing value is read as 0 *)
Definition shuffle (r : nat) (rvs : list nat) : list nat :=
  fold_left (fun pm t => swap_step pm t (nth t rvs 0 mod r)) (seq 0 r) (seq 0 r).

Lemma swap_step_length pm t rv : length (swap_step pm t rv) = length pm.
Proof. unfold swap_step. now rewrite !upd_length. Qed.

Lemma swap_step_nth pm t rv k : t < length pm -> rv < length pm ->
  nth k (swap_step pm t rv) 0 = if k =? rv then nth t pm 0 else if k =? t then nth rv pm 0 else nth k pm 0.
Proof.
  intros Ht Hrv. unfold swap_step.
  destruct (Nat.eqb_spec k rv) as [->|Hk].
  - apply nth_upd_eq. now rewrite upd_length.
  - rewrite nth_upd_neq by auto.
    destruct (Nat.eqb_spec k t) as [->|Hk2]; [now apply nth_upd_eq|now apply nth_upd_neq; auto].
Qed.

(* the transposition of positions *)
Definition tr (t rv k : nat) : nat := if k =? rv then t else if k =? t then rv else k.

Lemma tr_invol t rv k : tr t rv (tr t rv k) = k.
Proof.
  unfold tr.
  destruct (Nat.eqb_spec k rv) as [->|H1].
  - destruct (Nat.eqb_spec t rv) as [->|H2]; [reflexivity|]. now rewrite Nat.eqb_refl.
  - destruct (Nat.eqb_spec k t) as [->|H2].
    + now rewrite Nat.eqb_refl.
    + destruct (Nat.eqb_spec k rv); [contradiction|]. destruct (Nat.eqb_spec k t); [contradiction|reflexivity].
Qed.

Lemma tr_lt t rv k m : t < m -> rv < m -> k < m -> tr t rv k < m.
Proof. intros A B C. unfold tr. destruct (k =? rv); [exact A|]. destruct (k =? t); [exact B|exact C]. Qed.

Lemma swap_step_tr pm t rv k : t < length pm -> rv < length pm ->
  nth k (swap_step pm t rv) 0 = nth (tr t rv k) pm 0.
Proof. intros Ht Hrv. rewrite swap_step_nth by assumption. unfold tr. destruct (k =? rv); [reflexivity|]. destruct (k =? t); reflexivity. Qed.

Lemma In_nth_iff (l : list nat) c : In c l <-> exists k, k < length l /\ nth k l 0 = c.
Proof.
  split.
  - intros H. destruct (In_nth l c 0 H) as (k & A & B). exists k. split; assumption.
  - intros (k & A & <-). now apply nth_In.
Qed.

Lemma swap_step_In pm t rv c : t < length pm -> rv < length pm -> (In c (swap_step pm t rv) <-> In c pm).
Proof.
  intros Ht Hrv. rewrite !In_nth_iff. rewrite swap_step_length. split; intros (k & A & B).
  - exists (tr t rv k). split; [now apply tr_lt|]. now rewrite <- swap_step_tr.
  - exists (tr t rv k). split; [now apply tr_lt|]. rewrite swap_step_tr by assumption. now rewrite tr_invol.
Qed.

Lemma swap_step_NoDup pm t rv : t < length pm -> rv < length pm -> NoDup pm -> NoDup (swap_step pm t rv).
Proof.
  intros Ht Hrv ND. apply (NoDup_nth _ 0). rewrite swap_step_length. intros a b Ha Hb E.
  rewrite !swap_step_tr in E by assumption.
  apply (proj1 (NoDup_nth pm 0) ND) in E; [|now apply tr_lt|now apply tr_lt].
  rewrite <- (tr_invol t rv a), <- (tr_invol t rv b). now rewrite E.
Qed.

Lemma shuffle_loop r rvs : forall ts pm, length pm = r -> (forall t, In t ts -> t < r) ->
  let pm' := fold_left (fun pm t => swap_step pm t (nth t rvs 0 mod r)) ts pm in
  length pm' = r /\ (forall c, In c pm' <-> In c pm) /\ (NoDup pm -> NoDup pm').
Proof.
  induction ts as [|t ts IH]; intros pm Hl Hts; cbn [fold_left].
  - split; [exact Hl|]. split; [reflexivity|auto].
  - assert (Ht : t < r) by (apply Hts; now left).
    assert (Hrv : nth t rvs 0 mod r < r) by (apply Nat.mod_upper_bound; lia).
    destruct (IH (swap_step pm t (nth t rvs 0 mod r))) as (A & B & C).
    + now rewrite swap_step_length.
    + intros x Hx. apply Hts. now right.
    + split; [exact A|]. split.
      * intros c. rewrite B. apply swap_step_In; now rewrite Hl.
      * intros ND. apply C. apply swap_step_NoDup; try now rewrite Hl. exact ND.
Qed.

Theorem shuffle_perm r rvs :
  (forall c, c < r -> In c (shuffle r rvs)) /\ (forall c, In c (shuffle r rvs) -> c < r)
  /\ NoDup (shuffle r rvs) /\ length (shuffle r rvs) = r.
Proof.
  destruct (shuffle_loop r rvs (seq 0 r) (seq 0 r) (seq_length r 0)) as (A & B & C).
  { intros t Ht. apply in_seq in Ht. lia. }
  fold (shuffle r rvs) in A, B, C.
  split; [|split; [|split]].
  - intros c Hc. apply B. apply in_seq. lia.
  - intros c Hc. apply B in Hc. apply in_seq in Hc. lia.
  - apply C. apply seq_NoDup.
  - exact A.
Qed.

(* ============================================================================================== *)
(* Part C - the observables of the finish do not depend on the permutation                         *)
(* ============================================================================================== *)
Lemma bool_iff_eq (a b : bool) : (a = true <-> b = true) -> a = b.
Proof. intros (A & B). destruct a, b; try reflexivity; [symmetry; now apply A|now apply B]. Qed.

Section FinishObs.
Variable Sy : Type. Variable sxor : Sy -> Sy -> Sy. Variable s0 : Sy.
Hypothesis sxor_assoc : forall a b c, sxor a (sxor b c) = sxor (sxor a b) c.
Hypothesis sxor_comm : forall a b, sxor a b = sxor b a.
Hypothesis sxor_0_l : forall a, sxor s0 a = a.
Hypothesis sxor_nilp : forall a, sxor a a = s0.

Variable H0 : list (list nat).
Variable R0 N0 : nat.
Hypothesis H0_len : length H0 = R0.
Hypothesis H0_nodup : forall i, i < R0 -> NoDup (nth i H0 []).
Hypothesis H0_range : forall i c, i < R0 -> In c (nth i H0 []) -> c < N0.
Hypothesis H0_deg : forall i, i < R0 -> 2 <= length (nth i H0 []).
Hypothesis R_le_N : R0 <= N0.
Hypothesis H0_cols : forall c, c < N0 -> exists i, i < R0 /\ In c (nth i H0 []).
Hypothesis H0_stair : stair R0 H0.
Hypothesis Sy_nontrivial : exists a : Sy, a <> s0.
Variable cw : nat -> Sy.
Hypothesis parity : forall i, i < R0 -> xs Sy sxor s0 cw (nth i H0 []) = s0.

Notation st := (st Sy).
Notation WF := (WF Sy R0 N0).
Notation iscomp := (iscomp Sy R0 N0).
Notation run := (run Sy sxor s0 H0 R0 N0).
Notation cwhist hist := (forall ev : nat * Sy, In ev hist -> fst ev < N0 /\ snd ev = cw (fst ev)).
Notation isperm perm := ((forall c, c < R0 -> In c perm) /\ (forall c, In c perm -> c < R0)).

Lemma flag_iff (s : st) : WF s -> (fst (is_complete s) = true <-> iscomp s).
Proof.
  intros W. pose proof (is_complete_spec Sy H0 R0 N0 H0_len R_le_N s W) as X.
  destruct (is_complete s) as [b sx]. cbn [fst]. apply X.
Qed.

Lemma give_up_wf (s2 : st) o : WF s2 -> give_up Sy s2 = Some o -> WF (o_st o) /\ tab (o_st o) = tab s2.
Proof.
  intros W H. unfold give_up in H.
  pose proof (is_complete_spec Sy H0 R0 N0 H0_len R_le_N s2 W) as X.
  destruct (is_complete s2) as [b sx]. injection H as <-. cbn [o_st].
  destruct X as (A & B & _). split; [exact A|exact B].
Qed.

(* the part of the finish after the injections: the outcome is well formed, and a status other than
   OK comes from a give-up exit, which leaves the table alone *)
Lemma ml_tail_wf k (s1 : st) o : WF s1 -> ml_tail Sy sxor s0 k s1 = Some o ->
  WF (o_st o) /\ (o_ok o = false -> tab (o_st o) = tab s1).
Proof.
  intros W H. unfold ml_tail in H.
  destruct ((length (cols_of Sy s1) =? 0) || (length (rows_of Sy s1) <? length (cols_of Sy s1))).
  - destruct (give_up_wf s1 o W H) as (A & B). split; [exact A|intros _; exact B].
  - assert (Lct : length (snd (take_ct (idx_of Sy s1) (ct s1))) = R0).
    { rewrite (proj2 (take_ct_length Sy _ _)). exact (wf_ct Sy R0 N0 s1 W). }
    match type of H with match ?sv with Some _ => _ | None => _ end = _ => destruct sv as [x|] end.
    + injection H as <-. cbn [o_st o_ok]. split; [|discriminate].
      destruct W as [Wr Wn Wrws Wunk Wenc Wct Wtab Wfnd Wcur].
      constructor; cbn [r n rws unk enc ct tab fnd with_ct]; try assumption.
      * rewrite write_back_length. exact Wtab.
      * intros j Hj. specialize (Wcur j Hj). unfold known in *. cbn [tab].
        destruct (nth (R0 + j) (tab s1) None) as [v|] eqn:Ev; [|discriminate Wcur].
        rewrite (StableTables.write_back_tab Sy s0 _ x _ (tab s1) (R0 + j) v Ev). reflexivity.
    + assert (W2 : WF (with_ct Sy s1 (snd (take_ct (idx_of Sy s1) (ct s1))))).
      { destruct W as [Wr Wn Wrws Wunk Wenc Wct Wtab Wfnd Wcur].
        constructor; unfold with_ct; cbn [r n rws unk enc ct tab fnd]; assumption. }
      destruct (give_up_wf _ o W2 H) as (A & B). split; [exact A|intros _; exact B].
Qed.

(* one finish: the facts of MLSession.ldpc_session_finish, plus well-formedness of the outcome and
   "not OK -> the whole table is the one the finish started from" *)
Lemma finish_facts (hist : list (nat * Sy)) (s : st) fuel perm o :
  cwhist hist -> run (S N0) hist = Some s -> N0 < fuel -> isperm perm ->
  ml_finish sxor s0 fuel perm s = Some o ->
  WF (o_st o) /\ (o_ok o = false -> tab (o_st o) = tab s)
  /\ (forall c v, nth c (tab (o_st o)) None = Some v -> v = cw c)
  /\ (o_ok o = true <-> iscomp (o_st o))
  /\ (iscomp (o_st o) <-> DetR Sy H0 R0 N0 hist).
Proof.
  intros Hh Hrun Hf (Hp1 & Hp2) Ho.
  destruct (ldpc_session_finish Sy sxor s0 sxor_assoc sxor_comm sxor_0_l sxor_nilp H0 R0 N0 H0_len H0_nodup H0_range
              H0_deg R_le_N H0_cols H0_stair Sy_nontrivial cw parity hist s fuel perm o Hh Hrun Hf Hp1 Hp2 Ho)
    as (V & Kp & OK & D).
  destruct (run_facts Sy sxor s0 sxor_assoc sxor_comm sxor_0_l sxor_nilp H0 R0 N0 H0_len H0_nodup H0_range
              H0_deg R_le_N cw parity (S N0) hist s Hh Hrun) as (P & _ & _).
  destruct (reduce_main_JF Sy sxor s0 sxor_assoc sxor_comm sxor_0_l sxor_nilp H0 R0 N0 H0_len H0_nodup H0_range
              H0_deg R_le_N Sy_nontrivial cw parity fuel perm s P Hf Hp1 Hp2) as (s1 & Hs1 & I1 & _).
  pose proof Ho as Ho'. rewrite ml_finish_eq, Hs1 in Ho'.
  destruct (ml_tail_wf _ s1 o (ml_wf Sy sxor s0 H0 R0 N0 cw s1 I1) Ho') as (Wo & Ht).
  split; [exact Wo|]. split; [|split; [exact V|split; [exact OK|exact D]]].
  intros Hno. rewrite (Ht Hno).
  assert (HG : Good Sy H0 R0 N0 s).
  { apply (MLNoDecode.run_good Sy sxor s0 H0 R0 N0 H0_len H0_nodup H0_range H0_deg R_le_N (S N0) hist s); [|exact Hrun].
    intros ev Hev. apply (Hh ev Hev). }
  assert (Hnc : ~ iscomp s).
  { intros C. assert (C' : iscomp (o_st o)).
    { intros c Hc. specialize (C c Hc). unfold known in *.
      destruct (nth c (tab s) None) as [v|] eqn:Ev; [|discriminate C]. now rewrite (Kp c v Ev). }
    apply OK in C'. congruence. }
  exact (MLNoDecode.ml_finish_injection_tab Sy sxor H0 R0 N0 H0_len H0_nodup R_le_N fuel perm s s1 HG Hnc Hs1).
Qed.

(* Part C: the observable part of the outcome of of_finish_decoding does not depend on the order in
   which the repair symbols are injected (nor on the fuel) *)
Theorem finish_observables_perm_independent (hist : list (nat * Sy)) (s : st) fuel1 fuel2 perm1 perm2 o1 o2 :
  cwhist hist -> run (S N0) hist = Some s -> N0 < fuel1 -> N0 < fuel2 -> isperm perm1 -> isperm perm2 ->
  ml_finish sxor s0 fuel1 perm1 s = Some o1 -> ml_finish sxor s0 fuel2 perm2 s = Some o2 ->
  o_ok o1 = o_ok o2
  /\ (forall c, R0 <= c -> nth c (tab (o_st o1)) None = nth c (tab (o_st o2)) None)
  /\ fst (is_complete (o_st o1)) = fst (is_complete (o_st o2)).
Proof.
  intros Hh Hrun F1 F2 P1 P2 O1 O2.
  destruct (finish_facts hist s fuel1 perm1 o1 Hh Hrun F1 P1 O1) as (W1 & T1 & V1 & OK1 & D1).
  destruct (finish_facts hist s fuel2 perm2 o2 Hh Hrun F2 P2 O2) as (W2 & T2 & V2 & OK2 & D2).
  assert (E : o_ok o1 = o_ok o2).
  { apply bool_iff_eq. rewrite OK1, OK2, D1, D2. reflexivity. }
  split; [exact E|]. split.
  - intros c Hc. destruct (o_ok o1) eqn:E1.
    + symmetry in E. pose proof (proj1 OK1 eq_refl) as C1. pose proof (proj1 OK2 E) as C2.
      destruct (Nat.lt_ge_cases c N0) as [Hlt|Hge].
      * specialize (C1 c (conj Hc Hlt)). specialize (C2 c (conj Hc Hlt)). unfold known in C1, C2.
        destruct (nth c (tab (o_st o1)) None) as [v1|] eqn:E1'; [|discriminate C1].
        destruct (nth c (tab (o_st o2)) None) as [v2|] eqn:E2'; [|discriminate C2].
        rewrite (V1 c v1 E1'), (V2 c v2 E2'). reflexivity.
      * rewrite !nth_overflow; [reflexivity| |].
        -- rewrite (wf_tab Sy R0 N0 _ W2). exact Hge.
        -- rewrite (wf_tab Sy R0 N0 _ W1). exact Hge.
    + symmetry in E. rewrite (T1 eq_refl), (T2 E). reflexivity.
  - apply bool_iff_eq. rewrite (flag_iff _ W1), (flag_iff _ W2), D1, D2. reflexivity.
Qed.

(* ---------- the decoder states a session can be in before of_finish_decoding ---------- *)
Definition Reach (it : st) : Prop := exists hist : list (nat * Sy), cwhist hist /\ run (S N0) hist = Some it.

Lemma Reach_init : Reach (init Sy R0 N0 H0).
Proof. exists []. split; [intros ev []|reflexivity]. Qed.

Lemma Reach_submit (it : st) c : Reach it -> c < N0 ->
  exists it', decode sxor s0 (S N0) it c (cw c) = Some it' /\ Reach it'.
Proof.
  intros (hist & Hh & Hrun) Hc.
  assert (HG : Good Sy H0 R0 N0 it).
  { apply (MLNoDecode.run_good Sy sxor s0 H0 R0 N0 H0_len H0_nodup H0_range H0_deg R_le_N (S N0) hist it); [|exact Hrun].
    intros ev Hev. apply (Hh ev Hev). }
  destruct (decode_total_good Sy sxor s0 H0 R0 N0 H0_len H0_nodup H0_range H0_deg R_le_N (S N0) it c (cw c) HG Hc
              (Nat.lt_succ_diag_r N0)) as (it' & Ed).
  exists it'. split; [exact Ed|]. exists (hist ++ [(c, cw c)]). split.
  - intros ev Hev. apply in_app_or in Hev. destruct Hev as [Hev|[<-|[]]]; [exact (Hh ev Hev)|]. split; [exact Hc|reflexivity].
  - unfold ITProofs.run in *. rewrite fold_left_app, Hrun. cbn [fold_left fst snd]. exact Ed.
Qed.

Lemma Reach_finish_total (it : st) fuel perm : Reach it -> N0 < fuel -> isperm perm ->
  exists o, ml_finish sxor s0 fuel perm it = Some o.
Proof.
  intros (hist & Hh & Hrun) Hf (Hp1 & Hp2).
  exact (ldpc_session_finish_total Sy sxor s0 sxor_assoc sxor_comm sxor_0_l sxor_nilp H0 R0 N0 H0_len H0_nodup H0_range
           H0_deg R_le_N H0_cols H0_stair Sy_nontrivial cw parity hist it fuel perm Hh Hrun Hf Hp1 Hp2).
Qed.

Lemma Reach_finish_obs (it : st) fuel1 fuel2 perm1 perm2 o1 o2 : Reach it ->
  N0 < fuel1 -> N0 < fuel2 -> isperm perm1 -> isperm perm2 ->
  ml_finish sxor s0 fuel1 perm1 it = Some o1 -> ml_finish sxor s0 fuel2 perm2 it = Some o2 ->
  o_ok o1 = o_ok o2
  /\ (forall c, R0 <= c -> nth c (tab (o_st o1)) None = nth c (tab (o_st o2)) None)
  /\ fst (is_complete (o_st o1)) = fst (is_complete (o_st o2)).
Proof.
  intros (hist & Hh & Hrun). exact (finish_observables_perm_independent hist it fuel1 fuel2 perm1 perm2 o1 o2 Hh Hrun).
Qed.
End FinishObs.

(* ============================================================================================== *)
(* Part D - the LDPC-Staircase session machine, and C12 for it                                     *)
(* ============================================================================================== *)
Section Machine.
Variable Sy : Type. Variable sxor : Sy -> Sy -> Sy. Variable s0 : Sy.
Hypothesis sxor_assoc : forall a b c, sxor a (sxor b c) = sxor (sxor a b) c.
Hypothesis sxor_comm : forall a b, sxor a b = sxor b a.
Hypothesis sxor_0_l : forall a, sxor s0 a = a.
Hypothesis sxor_nilp : forall a, sxor a a = s0.
Hypothesis Sy_nontrivial : exists a : Sy, a <> s0.

(* the state all sessions share (the state of the C library's rand()); draw g k = the next k values
   of rand() and the state after them.  Nothing is assumed about it. *)
Variable G : Type.
Variable draw : G -> nat -> list nat * G.

(* per-session configuration: parity-check rows (as lists of matrix columns), number of rows = number
   of repair symbols, number of columns, and the codeword the application submits symbols of *)
Record cfg := mkcfg { cH : list (list nat); cR : nat; cN : nat; ccw : nat -> Sy }.

(* the hypotheses of MLSession.Session *)
Record WFcfg (c : cfg) : Prop := {
  wc_len : length (cH c) = cR c;
  wc_nodup : forall i, i < cR c -> NoDup (nth i (cH c) []);
  wc_range : forall i col, i < cR c -> In col (nth i (cH c) []) -> col < cN c;
  wc_deg : forall i, i < cR c -> 2 <= length (nth i (cH c) []);
  wc_le : cR c <= cN c;
  wc_cols : forall col, col < cN c -> exists i, i < cR c /\ In col (nth i (cH c) []);
  wc_stair : stair (cR c) (cH c);
  wc_parity : forall i, i < cR c -> xs Sy sxor s0 (ccw c) (nth i (cH c) []) = s0 }.

Inductive lop := Submit (col : nat) | Finish | Query.

(* session state: the configuration, the decoder state (None = sink, never reached from the initial
   state of a well-formed configuration) and "of_finish_decoding has been called" *)
Record lsess := mks { l_cfg : cfg; l_it : option (st Sy); l_fin : bool }.

Definition init_sess (c : cfg) : lsess := mks c (Some (init Sy (cR c) (cN c) (cH c))) false.

(* observables: completion flag and the source part of the symbol table (columns R .. N-1) *)
Definition obs_it (c : cfg) (it : st Sy) : bool * list (option Sy) :=
  (fst (is_complete it), map (fun col => nth col (tab it) None) (seq (cR c) (cN c - cR c))).
Definition obs (s : lsess) : bool * list (option Sy) :=
  match l_it s with Some it => obs_it (l_cfg s) it | None => (false, []) end.

(* output of every operation: (status, completion flag, source table);
   status 0 = OK, 1 = FAILURE (finish: not all sources recovered), 2 = refused, 3 = sink *)
Definition lout := (nat * bool * list (option Sy))%type.
Definition out (code : nat) (s : lsess) : lout := (code, fst (obs s), snd (obs s)).

(* Submit col : the application submits column col with its codeword value (duplicates allowed, any
                order); an out-of-range column is refused.
   Finish     : R values are drawn from the shared state, perm := shuffle R rvs, ml_finish.
   Query      : no state change.
   The protocol ends with Finish: Submit / Finish on a finished session leave the state unchanged and
   return the current observables with status 2 (this is the documented end of the protocol, not a
   model of what the C does there). *)
Definition lstep (g : G) (s : lsess) (o : lop) : G * lsess * lout :=
  match l_it s with
  | None => (g, s, out 3 s)
  | Some it =>
    let c := l_cfg s in
    match o with
    | Query => (g, s, out 0 s)
    | Submit col =>
        if l_fin s then (g, s, out 2 s) else
        if col <? cN c then
          match decode sxor s0 (S (cN c)) it col (ccw c col) with
          | Some it' => (g, mks c (Some it') false, out 0 (mks c (Some it') false))
          | None => (g, mks c None false, out 3 (mks c None false))
          end
        else (g, s, out 2 s)
    | Finish =>
        if l_fin s then (g, s, out 2 s) else
        match ml_finish sxor s0 (S (cN c)) (shuffle (cR c) (fst (draw g (cR c)))) it with
        | Some oc => (snd (draw g (cR c)), mks c (Some (o_st oc)) true,
                      out (if o_ok oc then 0 else 1) (mks c (Some (o_st oc)) true))
        | None => (snd (draw g (cR c)), mks c None true, out 3 (mks c None true))
        end
    end
  end.

Definition ReachC (c : cfg) (it : st Sy) : Prop := Reach Sy sxor s0 (cH c) (cR c) (cN c) (ccw c) it.

(* the relation of Part A: same well-formed configuration, and either both are the same unfinished
   session in a reachable decoder state, or both are finished with the same observables *)
Definition Rl (s s' : lsess) : Prop :=
  l_cfg s' = l_cfg s /\ WFcfg (l_cfg s) /\
  ((l_fin s = false /\ s' = s /\ exists it, l_it s = Some it /\ ReachC (l_cfg s) it)
   \/ (l_fin s = true /\ l_fin s' = true /\ (exists it, l_it s = Some it) /\ (exists it', l_it s' = Some it')
       /\ obs s = obs s')).

Lemma Rl_init c : WFcfg c -> Rl (init_sess c) (init_sess c).
Proof.
  intros W. split; [reflexivity|]. split; [exact W|]. left. split; [reflexivity|]. split; [reflexivity|].
  eexists. split; [reflexivity|]. apply Reach_init.
Qed.

Lemma shuffle_isperm r rvs : (forall c, c < r -> In c (shuffle r rvs)) /\ (forall c, In c (shuffle r rvs) -> c < r).
Proof. destruct (shuffle_perm r rvs) as (A & B & _). split; [exact A|exact B]. Qed.

Lemma lstep_obs : forall s s', Rl s s' -> forall g g' o,
  Rl (snd (fst (lstep g s o))) (snd (fst (lstep g' s' o))) /\ snd (lstep g s o) = snd (lstep g' s' o).
Proof.
  intros s s' HR g g' o. pose proof HR as HR0.
  destruct HR as (Ec & W & [(Hf & -> & it & Hit & HRe)|(Hf & Hf' & (it & Hit) & (it' & Hit') & Eo)]).
  - (* an unfinished session, the same on both sides *)
    destruct s as [c oit fin]. cbn [l_cfg l_it l_fin] in *. subst oit fin.
    destruct W as [W1 W2 W3 W4 W5 W6 W7 W8]. pose proof (Build_WFcfg c W1 W2 W3 W4 W5 W6 W7 W8) as W.
    destruct o as [col| |]; unfold lstep; cbn [l_cfg l_it l_fin].
    + (* Submit *)
      destruct (Nat.ltb_spec col (cN c)) as [Hc|Hc].
      * destruct (Reach_submit Sy sxor s0 (cH c) (cR c) (cN c) W1 W2 W3 W4 W5 (ccw c) it col HRe Hc) as (it1 & Ed & Re1).
        rewrite Ed. cbn [fst snd]. split; [|reflexivity].
        split; [reflexivity|]. split; [exact W|]. left. split; [reflexivity|]. split; [reflexivity|].
        exists it1. split; [reflexivity|exact Re1].
      * cbn [fst snd]. split; [exact HR0|reflexivity].
    + (* Finish: the two sides draw different values *)
      set (p1 := shuffle (cR c) (fst (draw g (cR c)))). set (p2 := shuffle (cR c) (fst (draw g' (cR c)))).
      assert (P1 : (forall x, x < cR c -> In x p1) /\ (forall x, In x p1 -> x < cR c)) by apply shuffle_isperm.
      assert (P2 : (forall x, x < cR c -> In x p2) /\ (forall x, In x p2 -> x < cR c)) by apply shuffle_isperm.
      pose proof (Nat.lt_succ_diag_r (cN c)) as Hfu.
      destruct (Reach_finish_total Sy sxor s0 sxor_assoc sxor_comm sxor_0_l sxor_nilp (cH c) (cR c) (cN c)
                  W1 W2 W3 W4 W5 W6 W7 Sy_nontrivial (ccw c) W8 it (S (cN c)) p1 HRe Hfu P1) as (o1 & O1).
      destruct (Reach_finish_total Sy sxor s0 sxor_assoc sxor_comm sxor_0_l sxor_nilp (cH c) (cR c) (cN c)
                  W1 W2 W3 W4 W5 W6 W7 Sy_nontrivial (ccw c) W8 it (S (cN c)) p2 HRe Hfu P2) as (o2 & O2).
      destruct (Reach_finish_obs Sy sxor s0 sxor_assoc sxor_comm sxor_0_l sxor_nilp (cH c) (cR c) (cN c)
                  W1 W2 W3 W4 W5 W6 W7 Sy_nontrivial (ccw c) W8 it (S (cN c)) (S (cN c)) p1 p2 o1 o2 HRe Hfu Hfu P1 P2 O1 O2)
        as (Eok & Etab & Efl).
      rewrite O1, O2. cbn [fst snd].
      assert (Eobs : obs (mks c (Some (o_st o1)) true) = obs (mks c (Some (o_st o2)) true)).
      { unfold obs, obs_it. cbn [l_cfg l_it]. rewrite Efl. f_equal.
        apply map_ext_in. intros col Hcol. apply in_seq in Hcol. apply Etab. lia. }
      split.
      * split; [reflexivity|]. split; [exact W|]. right. split; [reflexivity|]. split; [reflexivity|].
        split; [eexists; reflexivity|]. split; [eexists; reflexivity|exact Eobs].
      * unfold out. rewrite Eobs, Eok. reflexivity.
    + (* Query *)
      cbn [fst snd]. split; [exact HR0|reflexivity].
  - (* two finished sessions with the same observables: nothing changes any more *)
    destruct s as [c oit fin]. destruct s' as [c' oit' fin']. cbn [l_cfg l_it l_fin] in *. subst c' oit oit' fin fin'.
    assert (Eout : forall code, out code (mks c (Some it) true) = out code (mks c (Some it') true)).
    { intros code. unfold out. rewrite Eo. reflexivity. }
    destruct o as [col| |]; unfold lstep; cbn [l_cfg l_it l_fin fst snd]; (split; [exact HR0|apply Eout]).
Qed.

(* C12 for the complete LDPC-Staircase session: whatever the interleaving with other sessions (in any
   states, of any configurations) and whatever the shared rand() state, session i returns what it
   returns when run alone from any other rand() state *)
Theorem ldpc_sessions_independent_full : forall (c : cfg), WFcfg c ->
  forall (h : list (nat * lop)) (g g' : G) (st : nat -> lsess) (i : nat), st i = init_sess c ->
  outs_of lout i (grun G lsess lop lout lstep g st h) = solo G lsess lop lout lstep g' (st i) (ops_of lop i h).
Proof.
  intros c W h g g' st i Hi.
  apply (sessions_independent_obs G lsess lop lout lstep Rl lstep_obs).
  rewrite Hi. exact (Rl_init c W).
Qed.
End Machine.

(* ---------- the hypotheses are satisfiable: a small staircase code over bool, and a run ---------- *)
Section Example.
Definition ex_cfg : cfg bool :=
  mkcfg bool [[0;3;4];[1;0;4;5];[2;1;3;4;5]] 3 6 (fun c => nth c [true;false;false;true;false;true] false).

Lemma ex_cfg_wf : WFcfg bool xorb false ex_cfg.
Proof.
  constructor; cbn [ex_cfg cH cR cN ccw].
  - reflexivity.
  - intros i Hi. destruct i as [|[|[|i]]]; [| | |lia]; cbn [nth]; repeat constructor; cbn [In]; lia.
  - intros i col Hi Hin. destruct i as [|[|[|i]]]; [| | |lia]; cbn [nth In] in Hin; lia.
  - intros i Hi. destruct i as [|[|[|i]]]; [| | |lia]; cbn [nth length]; lia.
  - lia.
  - intros col Hc. destruct col as [|[|[|[|[|[|col]]]]]]; [exists 0|exists 1|exists 2|exists 0|exists 0|exists 1|lia];
      (split; [lia|cbn [nth In]; lia]).
  - split; [reflexivity|]. intros c Hc. destruct c as [|[|[|c]]]; [| | |lia]; cbn [nth];
      (split; [repeat constructor; cbn [In]; lia|]; split; [cbn [In]; lia|]; intros x Hx Hne; cbn [In] in Hx; lia).
  - intros i Hi. destruct i as [|[|[|i]]]; [reflexivity|reflexivity|reflexivity|lia].
Qed.

(* a shared state that is a counter; rand() returns 7 * counter + 3 *)
Definition ex_draw (g : nat) (k : nat) : list nat * nat := (map (fun j => 7 * (g + j) + 3) (seq 0 k), g + k).

Example ex_run :
  solo nat (lsess bool) lop (lout bool) (lstep bool xorb false nat ex_draw) 0 (init_sess bool ex_cfg)
       [Submit 0; Submit 1; Query; Submit 2; Finish; Submit 4; Query]
  = [(0, false, [None; None; None]); (0, false, [None; None; None]); (0, false, [None; None; None]);
     (0, false, [None; None; None]);
     (0, true, [Some true; Some false; Some true]);      (* the three sources come from the Gaussian elimination *)
     (2, true, [Some true; Some false; Some true]);      (* refused: the protocol has ended *)
     (0, true, [Some true; Some false; Some true])].
Proof. vm_compute. reflexivity. Qed.

Corollary ex_sessions_independent : forall (G : Type) (draw : G -> nat -> list nat * G)
  (h : list (nat * lop)) (g g' : G) (st : nat -> lsess bool) (i : nat), st i = init_sess bool ex_cfg ->
  outs_of (lout bool) i (grun G (lsess bool) lop (lout bool) (lstep bool xorb false G draw) g st h)
  = solo G (lsess bool) lop (lout bool) (lstep bool xorb false G draw) g' (st i) (ops_of lop i h).
Proof.
  intros G draw. apply (ldpc_sessions_independent_full bool xorb false
    DenseSolveComplete.bx_assoc DenseSolveComplete.bx_comm DenseSolveComplete.bx_0_l xorb_nilpotent
    (ex_intro _ true diff_true_false) G draw ex_cfg ex_cfg_wf).
Qed.
End Example.

Print Assumptions sessions_independent_obs.
Print Assumptions shuffle_perm.
Print Assumptions finish_observables_perm_independent.
Print Assumptions ldpc_sessions_independent_full.
Print Assumptions ex_sessions_independent.
