(* C07 — memory safety and read-only treatment of application buffers.
   What a Gallina model can carry of this property is the byte-level / table-level contract; it is
   stated here for the models that the correspondence ties to the C (kernels, encoders, decoders):
   - the symbol kernels change exactly the first `size` bytes of their destination(s) and their
     result does not depend on operand bytes at or beyond `size` (C13's theorems, restated);
   - the LDPC/2D encoder leaves every source symbol as it was;
   - the decoders never overwrite a symbol they hold: a table entry, once set (received buffer or
     decoded symbol), keeps its value through every later call of the streaming decoder, through the
     ML finish, and through every call of the Reed-Solomon API layer; the entry written for a fresh
     submission is the submitted buffer itself;
   - the dense-matrix copies act only within the bounds of the matrices given;
   - EVERY table access of the streaming decoder is in range (ITBounds.v): the models read with `nth i l default` and write
     with `upd`, which are total, so an index slip would be masked; decode_chk is a copy of the decoder whose every read and
     write of tab / ct / unk / enc / rws goes through accessors that FAIL out of range; it refines the plain model
     unconditionally, and from the initial state, for every history of submissions with ESIs below n, no call is ever
     OutOfBounds (nor stuck on an ill-shaped row) and every call computes exactly what the plain model computes; the
     hypotheses are needed (closed examples: a column >= n, a short table, a complete state with a corrupted row);
   - no dangling reference to a heap block (LdpcHeap.v, C08's ledger): in every reachable state every block named by a table
     slot is live, and a block is freed only once - so the decoder never reads a partial sum, a stored repair symbol or a
     decoded source through a pointer to freed memory.
   What NO model here can exhibit, and what the check decides at run time instead: pointer-level
   behaviour of the compiled C (out-of-bounds reads/writes, use after free, alignment) - every
   generated life cycle runs under AddressSanitizer/UBSan with exact-size heap buffers and every
   application buffer is compared before/after. *)
From Coq Require Import NArith Arith List Bool.
From OFV Require Import ListAux Kernels KernelProofs XorGroup LdpcEnc ITModel ITProofs MLModel RSApi RSApiProofs StableTables ITBounds LdpcHeap LdpcHeapProofs.
Import ListNotations.

Theorem kernels_write_nothing_beyond_size : forall f size l j, size <= j -> nth j (upd_range f 0 size l) 0%N = nth j l 0%N.
Proof. exact upd_range_frame_beyond. Qed.

Theorem kernels_read_nothing_beyond_size : forall dst from from' size,
  (forall i, i < size -> map (fun s => nth i s 0%N) from = map (fun s => nth i s 0%N) from') ->
  add_from_multiple dst from size = add_from_multiple dst from' size.
Proof. exact add_from_multiple_reads_only_size. Qed.

Theorem ldpc_decoder_never_overwrites_a_held_symbol :
  forall (Sy : Type) (sxor : Sy -> Sy -> Sy) (s0 : Sy) (H0 : list (list nat)) (R0 N0 : nat) fuel h1 h2 s1 s2,
  ITProofs.run Sy sxor s0 H0 R0 N0 fuel h1 = Some s1 -> ITProofs.run Sy sxor s0 H0 R0 N0 fuel (h1 ++ h2) = Some s2 ->
  forall e x, nth e (ITModel.tab s1) None = Some x -> nth e (ITModel.tab s2) None = Some x.
Proof. exact run_tab_stable. Qed.

Theorem ldpc_decoder_stores_the_submitted_symbol :
  forall (Sy : Type) (sxor : Sy -> Sy -> Sy) (s0 : Sy) fuel s c v s',
  ITModel.decode sxor s0 fuel s c v = Some s' -> c < length (ITModel.tab s) -> nth c (ITModel.tab s) None = None ->
  nth c (ITModel.tab s') None = Some v.
Proof. exact decode_stores_submitted. Qed.

Theorem ml_finish_never_overwrites_a_held_symbol :
  forall (Sy : Type) (sxor : Sy -> Sy -> Sy) (s0 : Sy) fuel perm s o,
  MLModel.ml_finish sxor s0 fuel perm s = Some o ->
  forall e x, nth e (ITModel.tab s) None = Some x -> nth e (ITModel.tab (MLModel.o_st o)) None = Some x.
Proof. exact ml_finish_tab_stable. Qed.

Theorem rs_api_never_overwrites_a_held_symbol :
  forall (B : Type) (core : nat -> list (option B) -> option (list B)) (cb : bool) (mk : nat -> B -> B) (k n : nat) (h1 h2 : list (nat * B)),
  forall e x, nth e (RSApi.tab (RSApiProofs.run B core cb mk k n h1)) None = Some x ->
              nth e (RSApi.tab (fst (RSApi.rs_finish core cb mk (RSApiProofs.run B core cb mk k n (h1 ++ h2))))) None = Some x.
Proof. exact rs_run_finish_tab_stable. Qed.

Theorem rs_api_stores_the_submitted_buffer :
  forall (B : Type) (core : nat -> list (option B) -> option (list B)) (cb : bool) (mk : nat -> B -> B) s esi b,
  RSApi.fin s = false -> esi < length (RSApi.tab s) -> nth esi (RSApi.tab s) None = None ->
  nth esi (RSApi.tab (fst (RSApi.rs_decode_with_new_symbol core cb mk s esi b))) None = Some b.
Proof. exact rs_step_stores_submitted. Qed.

(* ---- every table access in range ---- *)
Theorem checked_decoder_refines_the_model : forall (Sy : Type) (sxor : Sy -> Sy -> Sy) (s0 : Sy) fuel s c v,
  refines Sy (decode_chk sxor s0 fuel s c v) (ITModel.decode sxor s0 fuel s c v).
Proof. exact decode_chk_refines. Qed.

Theorem no_table_access_out_of_range_in_any_history :
  forall (Sy : Type) (sxor : Sy -> Sy -> Sy) (s0 : Sy) (H0 : list (list nat)) (R0 N0 : nat),
  length H0 = R0 -> (forall i, i < R0 -> NoDup (nth i H0 [])) -> (forall i c, i < R0 -> In c (nth i H0 []) -> c < N0) ->
  (forall i, i < R0 -> 2 <= length (nth i H0 [])) -> R0 <= N0 ->
  forall fuel hist, N0 < fuel -> (forall ev, In ev hist -> fst ev < N0) ->
  forall h1 ev h2, hist = h1 ++ ev :: h2 ->
  exists s s', run_chk Sy sxor s0 H0 R0 N0 fuel h1 = Ok s /\ GoodB Sy H0 R0 N0 s /\
               decode_chk sxor s0 fuel s (fst ev) (snd ev) = Ok s' /\ GoodB Sy H0 R0 N0 s'.
Proof. exact run_chk_every_call. Qed.

Theorem checked_run_equals_plain_run :
  forall (Sy : Type) (sxor : Sy -> Sy -> Sy) (s0 : Sy) (H0 : list (list nat)) (R0 N0 : nat),
  length H0 = R0 -> (forall i, i < R0 -> NoDup (nth i H0 [])) -> (forall i c, i < R0 -> In c (nth i H0 []) -> c < N0) ->
  (forall i, i < R0 -> 2 <= length (nth i H0 [])) -> R0 <= N0 ->
  forall fuel hist, (forall ev, In ev hist -> fst ev < N0) ->
  run_chk Sy sxor s0 H0 R0 N0 fuel hist = lift Sy (ITProofs.run Sy sxor s0 H0 R0 N0 fuel hist).
Proof. exact run_chk_eq. Qed.

(* ---- the Reed-Solomon path and the encoder: same treatment (GJBounds.v, ApiBounds.v) ---- *)
From OFV Require GaussJordan GJBounds ApiBounds.
(* the in-place Gauss-Jordan inversion (three textual copies in the library): every access to the k x k matrix and to
   indxc / indxr / ipiv / id_row in range, for every k and every k x k matrix; it refines the model unconditionally *)
Theorem rs_matrix_inversion_stays_in_its_arrays_gf256 : forall k A, GaussJordan.wfN k A ->
  GJBounds.invert_mat256_chk k A <> GJBounds.OutOfBounds.
Proof. exact GJBounds.invert_mat256_chk_never_oob. Qed.
Theorem rs_matrix_inversion_stays_in_its_arrays_gf16 : forall k A, GaussJordan.wfN k A ->
  GJBounds.invert_mat16_chk k A <> GJBounds.OutOfBounds.
Proof. exact GJBounds.invert_mat16_chk_never_oob. Qed.
Theorem rs_checked_inversion_is_the_model : forall k A, GaussJordan.wfN k A ->
  GJBounds.invert_mat256_chk k A = GJBounds.of_opt (GaussJordan.invert_mat256 k A).
Proof. exact GJBounds.invert_mat256_chk_safe. Qed.
(* the RS API layer: from the initial state, every call of any history (submissions with ESI < n, finish, tables of n
   entries) reads and writes the availability table in range and equals the model *)
Theorem rs_api_never_indexes_outside_its_table :
  forall (B : Type) (core : nat -> list (option B) -> option (list B)) (cb : bool) (mk : nat -> B -> B),
  (forall k t vals, core k t = Some vals -> length vals = k) ->
  forall (k n : nat) (h : list (ApiBounds.op B)), k <= n -> (forall o, In o h -> ApiBounds.op_ok B n o) ->
  forall h1 o h2, h = h1 ++ o :: h2 ->
  let s := ApiBounds.runs B core cb mk (RSApi.rs_init B k n) h1 in
  ApiBounds.RInv B s /\ RSApi.rn s = n /\
  ApiBounds.call_chk B core cb mk s o = ApiBounds.Ret B (ApiBounds.call B core cb mk s o) /\
  ApiBounds.RInv B (fst (ApiBounds.call B core cb mk s o)).
Proof. exact ApiBounds.rs_history_every_call. Qed.
(* the LDPC / 2D encoder: building the repair symbols reads only positions the matrix names, all below n *)
Theorem ldpc_encoder_reads_inside_the_symbol_table :
  forall (Sy : Type) (sxor : Sy -> Sy -> Sy) (s0 : Sy) (H : list (list nat)) (r n : nat),
  (forall i x, i < r -> In x (nth i H []) -> x < n) -> r <= n ->
  forall l : list Sy, length l = n -> ApiBounds.encode_all_chk Sy sxor s0 r H l <> ApiBounds.EOutOfBounds.
Proof. exact ApiBounds.encode_all_chk_never_oob. Qed.

(* ---- no dangling reference ---- *)
Theorem every_block_a_table_names_is_live : forall s, HInv s ->
  forall b, In b (somes (hct s) ++ lib_blocks (htab s)) -> In b (live (hp s)).
Proof. intros s H b Hb. destruct H as (_ & _ & _ & _ & (Hl & _) & _). apply Hl. exact Hb. Qed.

Print Assumptions no_table_access_out_of_range_in_any_history.
Print Assumptions rs_matrix_inversion_stays_in_its_arrays_gf256.
Print Assumptions rs_api_never_indexes_outside_its_table.
Print Assumptions ldpc_encoder_reads_inside_the_symbol_table.
Print Assumptions checked_run_equals_plain_run.
Print Assumptions every_block_a_table_names_is_live.
Print Assumptions kernels_write_nothing_beyond_size.
Print Assumptions ldpc_decoder_never_overwrites_a_held_symbol.
Print Assumptions ml_finish_never_overwrites_a_held_symbol.
Print Assumptions rs_api_never_overwrites_a_held_symbol.
Print Assumptions rs_api_stores_the_submitted_buffer.
