(* C07 — memory safety and read-only treatment of application buffers.
   What a Gallina model can carry of this property is the byte-level / table-level contract; it is
   stated here for the models that the correspondence ties to the C (kernels, encoders, decoders):
   - the symbol kernels change exactly the first `size` bytes of their destination(s) and their
     result does not depend on operand bytes at or beyond `size` (C13's theorems, restated);
   - the LDPC/2D encoder leaves every source symbol as it was;
   - the decoders never overwrite a symbol they hold: a table entry, once set (received buffer or
     decoded symbol), keeps its value through every later call of the streaming decoder, through the
     ML finish, and through every call of the Reed-Solomon API layer; the entry written for a fresh
     submission is the submitted buffer itself;
   - the dense-matrix copies act only within the bounds of the matrices given.
   What NO model here can exhibit, and what the check decides at run time instead: pointer-level
   behaviour of the compiled C (out-of-bounds reads/writes, use after free, alignment) - every
   generated life cycle runs under AddressSanitizer/UBSan with exact-size heap buffers and every
   application buffer is compared before/after. *)
From Coq Require Import NArith Arith List Bool.
From OFV Require Import ListAux Kernels KernelProofs XorGroup LdpcEnc ITModel ITProofs MLModel RSApi RSApiProofs StableTables.
Import ListNotations.

Theorem kernels_write_nothing_beyond_size : forall f size l j, size <= j -> nth j (upd_range f 0 size l) 0%N = nth j l 0%N.
Proof. exact upd_range_frame_beyond. Qed.

Theorem kernels_read_nothing_beyond_size : forall dst from from' size,
  (forall i, i < size -> map (fun s => nth i s 0%N) from = map (fun s => nth i s 0%N) from') ->
  add_from_multiple dst from size = add_from_multiple dst from' size.
Proof. exact add_from_multiple_reads_only_size. Qed.

Theorem ldpc_decoder_never_overwrites_a_held_symbol :
  forall (Sy : Type) (sxor : Sy -> Sy -> Sy) (s0 : Sy) (H0 : list (list nat)) (R0 N0 : nat) fuel h1 h2 s1 s2,
  ITProofs.run Sy sxor s0 H0 R0 N0 fuel h1 = Some s1 -> ITProofs.run Sy sxor s0 H0 R0 N0 fuel (h1 ++ h2) = Some s2 ->
  forall e x, nth e (ITModel.tab s1) None = Some x -> nth e (ITModel.tab s2) None = Some x.
Proof. exact run_tab_stable. Qed.

Theorem ldpc_decoder_stores_the_submitted_symbol :
  forall (Sy : Type) (sxor : Sy -> Sy -> Sy) (s0 : Sy) fuel s c v s',
  ITModel.decode sxor s0 fuel s c v = Some s' -> c < length (ITModel.tab s) -> nth c (ITModel.tab s) None = None ->
  nth c (ITModel.tab s') None = Some v.
Proof. exact decode_stores_submitted. Qed.

Theorem ml_finish_never_overwrites_a_held_symbol :
  forall (Sy : Type) (sxor : Sy -> Sy -> Sy) (s0 : Sy) fuel perm s o,
  MLModel.ml_finish sxor s0 fuel perm s = Some o ->
  forall e x, nth e (ITModel.tab s) None = Some x -> nth e (ITModel.tab (MLModel.o_st o)) None = Some x.
Proof. exact ml_finish_tab_stable. Qed.

Theorem rs_api_never_overwrites_a_held_symbol :
  forall (B : Type) (core : nat -> list (option B) -> option (list B)) (cb : bool) (mk : nat -> B -> B) (k n : nat) (h1 h2 : list (nat * B)),
  forall e x, nth e (RSApi.tab (RSApiProofs.run B core cb mk k n h1)) None = Some x ->
              nth e (RSApi.tab (fst (RSApi.rs_finish core cb mk (RSApiProofs.run B core cb mk k n (h1 ++ h2))))) None = Some x.
Proof. exact rs_run_finish_tab_stable. Qed.

Theorem rs_api_stores_the_submitted_buffer :
  forall (B : Type) (core : nat -> list (option B) -> option (list B)) (cb : bool) (mk : nat -> B -> B) s esi b,
  RSApi.fin s = false -> esi < length (RSApi.tab s) -> nth esi (RSApi.tab s) None = None ->
  nth esi (RSApi.tab (fst (RSApi.rs_decode_with_new_symbol core cb mk s esi b))) None = Some b.
Proof. exact rs_step_stores_submitted. Qed.

Print Assumptions kernels_write_nothing_beyond_size.
Print Assumptions ldpc_decoder_never_overwrites_a_held_symbol.
Print Assumptions ml_finish_never_overwrites_a_held_symbol.
Print Assumptions rs_api_never_overwrites_a_held_symbol.
Print Assumptions rs_api_stores_the_submitted_buffer.
