(* Correctness of the population-count helpers of of_hamming_weight.c for every input word. *)
From Coq Require Import ZArith Bool List Lia ZifyBool.
Import ListNotations.
From OFV Require Import CSem.
From OFV.gen Require Import GenPopcount.
Local Open Scope Z_scope.
Ltac Zify.zify_post_hook ::= Z.div_mod_to_equations.

Fixpoint popc (n : nat) (z : Z) : Z :=
  match n with
  | O => 0
  | S k => (if Z.testbit z (Z.of_nat k) then 1 else 0) + popc k z
  end.

(* ---------- finite sweep over 0..n-1 ---------- *)

Fixpoint allb (n : nat) (P : Z -> bool) : bool :=
  match n with
  | O => true
  | S k => P (Z.of_nat k) && allb k P
  end.

Lemma allb_spec : forall n P, allb n P = true ->
  forall b, 0 <= b < Z.of_nat n -> P b = true.
Proof.
  induction n as [|k IH]; intros P H b Hb.
  - cbn in Hb. lia.
  - cbn [allb] in H. apply andb_true_iff in H. destruct H as [H1 H2].
    destruct (Z.eq_dec b (Z.of_nat k)) as [E|E].
    + subst b. exact H1.
    + apply IH; [exact H2 | lia].
Qed.

(* ---------- popc algebra ---------- *)

Lemma popc_mod : forall n m z, Z.of_nat n <= m -> popc n (z mod 2 ^ m) = popc n z.
Proof.
  induction n as [|k IH]; intros m z H.
  - reflexivity.
  - cbn [popc]. rewrite Z.mod_pow2_bits_low by lia. rewrite IH by lia. reflexivity.
Qed.

Lemma popc_app : forall b a z,
  popc (a + b) z = popc a z + popc b (z / 2 ^ Z.of_nat a).
Proof.
  induction b as [|k IH]; intros a z.
  - rewrite Nat.add_0_r. cbn [popc]. lia.
  - rewrite Nat.add_succ_r. cbn [popc]. rewrite IH.
    rewrite Z.div_pow2_bits by lia.
    replace (Z.of_nat (a + k)) with (Z.of_nat k + Z.of_nat a) by lia. lia.
Qed.

Lemma popc_nonneg : forall n z, 0 <= popc n z <= Z.of_nat n.
Proof.
  induction n as [|k IH]; intros z.
  - cbn. lia.
  - cbn [popc]. specialize (IH z). destruct (Z.testbit z (Z.of_nat k)); lia.
Qed.

Lemma popc_cons : forall n a r, 0 <= a < 256 ->
  popc (8 + n) (a + 256 * r) = popc 8 a + popc n r.
Proof.
  intros n a r Ha. rewrite popc_app.
  change (2 ^ Z.of_nat 8) with 256.
  replace ((a + 256 * r) / 256) with r by lia.
  rewrite <- (popc_mod 8 8) by lia.
  change (2 ^ 8) with 256.
  replace ((a + 256 * r) mod 256) with a by lia.
  reflexivity.
Qed.

(* ---------- words as little-endian byte lists ---------- *)

Definition byte (b : Z) : Prop := 0 <= b < 256.

Fixpoint val (l : list Z) : Z :=
  match l with
  | [] => 0
  | b :: r => b + 256 * val r
  end.

Fixpoint bytes_of (n : nat) (w : Z) : list Z :=
  match n with
  | O => []
  | S k => w mod 256 :: bytes_of k (w / 256)
  end.

Lemma bytes_of_length : forall n w, length (bytes_of n w) = n.
Proof. induction n as [|k IH]; intros w; cbn [bytes_of length]; [reflexivity | now rewrite IH]. Qed.

Lemma bytes_of_byte : forall n w, Forall byte (bytes_of n w).
Proof.
  induction n as [|k IH]; intros w; cbn [bytes_of]; constructor.
  - unfold byte. lia.
  - apply IH.
Qed.

Lemma bytes_of_val : forall n w, 0 <= w < 256 ^ Z.of_nat n -> val (bytes_of n w) = w.
Proof.
  induction n as [|k IH]; intros w Hw.
  - cbn in Hw. cbn. lia.
  - cbn [bytes_of val]. rewrite IH.
    + lia.
    + rewrite Nat2Z.inj_succ, Z.pow_succ_r in Hw by lia. lia.
Qed.

Lemma val_nonneg : forall l, Forall byte l -> 0 <= val l.
Proof.
  induction 1 as [|b r Hb Hr IH]; cbn [val]; [lia | unfold byte in Hb; lia].
Qed.

Lemma val_map : forall (f : Z -> Z) l, Forall byte l ->
  (forall b, byte b -> byte (f b)) -> Forall byte (map f l).
Proof.
  intros f l Hl Hf. induction Hl as [|b r Hb Hr IH]; cbn [map]; constructor; auto.
Qed.

Fixpoint sum (l : list Z) : Z :=
  match l with [] => 0 | b :: r => b + sum r end.

Lemma popc_val : forall l, Forall byte l ->
  popc (8 * length l) (val l) = sum (map (popc 8) l).
Proof.
  induction 1 as [|b r Hb Hr IH].
  - reflexivity.
  - cbn [length val map sum].
    replace (8 * S (length r))%nat with (8 + 8 * length r)%nat by lia.
    rewrite popc_cons by exact Hb. rewrite IH. reflexivity.
Qed.

(* ---------- Z.land on a low field and the rest ---------- *)

Lemma tb_split : forall n a b i, 0 <= n -> 0 <= a < 2 ^ n -> 0 <= i ->
  Z.testbit (a + 2 ^ n * b) i = if i <? n then Z.testbit a i else Z.testbit b (i - n).
Proof.
  intros n a b i Hn Ha Hi.
  assert (Hp : 0 < 2 ^ n) by (apply Z.pow_pos_nonneg; lia).
  destruct (i <? n) eqn:E.
  - rewrite <- (Z.mod_pow2_bits_low (a + 2 ^ n * b) n i) by lia.
    rewrite <- (Z.mod_unique_pos (a + 2 ^ n * b) (2 ^ n) b a) by lia. reflexivity.
  - replace i with ((i - n) + n) at 1 by lia.
    rewrite <- Z.div_pow2_bits by lia.
    rewrite <- (Z.div_unique_pos (a + 2 ^ n * b) (2 ^ n) b a) by lia. reflexivity.
Qed.

Lemma land_small : forall n a c, 0 <= n -> 0 <= a < 2 ^ n -> 0 <= c -> 0 <= Z.land a c < 2 ^ n.
Proof.
  intros n a c Hn Ha Hc.
  assert (Hp : 0 < 2 ^ n) by (apply Z.pow_pos_nonneg; lia).
  assert (E : Z.land a c = Z.land a c mod 2 ^ n).
  { apply Z.bits_inj'. intros i Hi.
    destruct (Z.ltb_spec i n) as [L|L].
    - rewrite Z.mod_pow2_bits_low by lia. reflexivity.
    - rewrite Z.mod_pow2_bits_high by lia.
      rewrite Z.land_spec.
      rewrite <- (Z.mod_small a (2 ^ n)) by lia.
      rewrite Z.mod_pow2_bits_high by lia. reflexivity. }
  rewrite E. apply Z.mod_pos_bound. exact Hp.
Qed.

Lemma land_split : forall n a b c d, 0 <= n -> 0 <= a < 2 ^ n -> 0 <= c < 2 ^ n ->
  Z.land (a + 2 ^ n * b) (c + 2 ^ n * d) = Z.land a c + 2 ^ n * Z.land b d.
Proof.
  intros n a b c d Hn Ha Hc.
  pose proof (land_small n a c Hn Ha ltac:(lia)) as Hs.
  apply Z.bits_inj'. intros i Hi.
  rewrite Z.land_spec.
  rewrite !tb_split by lia.
  destruct (i <? n); rewrite Z.land_spec; reflexivity.
Qed.

Lemma land_split8 : forall a b c d, 0 <= a < 256 -> 0 <= c < 256 ->
  Z.land (a + 256 * b) (c + 256 * d) = Z.land a c + 256 * Z.land b d.
Proof. intros a b c d Ha Hc. apply (land_split 8); change (2 ^ 8) with 256; lia. Qed.

Lemma land_high : forall n p x c m, 0 <= n -> p = 2 ^ n -> 0 <= x < p -> 0 <= m < p ->
  Z.land (x + p * c) m = Z.land x m.
Proof.
  intros n p x c m Hn Hp Hx Hm. subst p.
  replace m with (m + 2 ^ n * 0) at 1 by lia.
  rewrite land_split by lia. rewrite Z.land_0_r. lia.
Qed.

Lemma land15 : forall y c, Z.land (y + 16 * c) 15 = Z.land y 15.
Proof.
  intros y c. change 15 with (Z.ones 4). rewrite !Z.land_ones by lia.
  change (2 ^ 4) with 16. lia.
Qed.

(* ---------- the three SWAR stages, parametrised by the mask ---------- *)

Definition s1 (m x : Z) : Z := x - Z.land (x / 2) m.
Definition s2 (m x : Z) : Z := Z.land x m + Z.land (x / 4) m.
Definition s3 (m x : Z) : Z := Z.land (x + x / 16) m.

Definition nib4 (a : Z) : Prop := a mod 16 <= 4 /\ a / 16 <= 4.

Lemma s1_cons : forall a b m, byte a -> 0 <= b ->
  s1 (85 + 256 * m) (a + 256 * b) = s1 85 a + 256 * s1 m b.
Proof.
  intros a b m Ha Hb. unfold byte in Ha. unfold s1.
  replace ((a + 256 * b) / 2) with ((a / 2 + 128 * (b mod 2)) + 256 * (b / 2)) by lia.
  rewrite land_split8 by lia.
  rewrite (land_high 7 128) by (try reflexivity; lia).
  lia.
Qed.

Lemma s2_cons : forall a b m, byte a -> 0 <= b ->
  s2 (51 + 256 * m) (a + 256 * b) = s2 51 a + 256 * s2 m b.
Proof.
  intros a b m Ha Hb. unfold byte in Ha. unfold s2.
  replace ((a + 256 * b) / 4) with ((a / 4 + 64 * (b mod 4)) + 256 * (b / 4)) by lia.
  rewrite !land_split8 by lia.
  rewrite (land_high 6 64) by (try reflexivity; lia).
  lia.
Qed.

Lemma s3_cons : forall a b m, byte a -> nib4 a -> 0 <= b -> b mod 16 <= 4 ->
  s3 (15 + 256 * m) (a + 256 * b) = s3 15 a + 256 * s3 m b.
Proof.
  intros a b m Ha [Ha1 Ha2] Hb Hb1. unfold byte in Ha. unfold s3.
  replace (a + 256 * b + (a + 256 * b) / 16)
    with ((a + a / 16 + 16 * (b mod 16)) + 256 * (b + b / 16)) by lia.
  rewrite land_split8 by lia.
  rewrite land15. lia.
Qed.

(* ---------- stages on byte lists ---------- *)

Definition mask (c : Z) (k : nat) : Z := val (repeat c k).

Lemma s1_val : forall l, Forall byte l ->
  s1 (mask 85 (length l)) (val l) = val (map (s1 85) l).
Proof.
  induction 1 as [|b r Hb Hr IH].
  - reflexivity.
  - unfold mask in *. cbn [length repeat val map].
    rewrite s1_cons by (auto using val_nonneg). rewrite IH. reflexivity.
Qed.

Lemma s2_val : forall l, Forall byte l ->
  s2 (mask 51 (length l)) (val l) = val (map (s2 51) l).
Proof.
  induction 1 as [|b r Hb Hr IH].
  - reflexivity.
  - unfold mask in *. cbn [length repeat val map].
    rewrite s2_cons by (auto using val_nonneg). rewrite IH. reflexivity.
Qed.

Lemma val_mod16 : forall l, Forall nib4 l -> val l mod 16 <= 4.
Proof.
  intros l H. destruct H as [|b r [Hb1 Hb2] Hr]; cbn [val].
  - cbv. discriminate.
  - lia.
Qed.

Lemma s3_val : forall l, Forall byte l -> Forall nib4 l ->
  s3 (mask 15 (length l)) (val l) = val (map (s3 15) l).
Proof.
  induction 1 as [|b r Hb Hr IH]; intros Hn.
  - reflexivity.
  - inversion Hn as [|b' r' Hnb Hnr]; subst b' r'.
    unfold mask in *. cbn [length repeat val map].
    rewrite s3_cons by (auto using val_nonneg, val_mod16). rewrite IH by exact Hnr. reflexivity.
Qed.

(* ---------- per-byte facts: one 256-case sweep ---------- *)

Definition byteb (b : Z) : bool := (0 <=? b) && (b <? 256).

Definition chk_byte (b : Z) : bool :=
  let b1 := s1 85 b in
  let b2 := s2 51 b1 in
  byteb b1 && byteb b2 && (b2 mod 16 <=? 4) && (b2 / 16 <=? 4) && (s3 15 b2 =? popc 8 b).

Lemma chk_byte_all : allb 256 chk_byte = true.
Proof. vm_compute. reflexivity. Qed.

Lemma byte_facts : forall b, byte b ->
  byte (s1 85 b) /\ byte (s2 51 (s1 85 b)) /\ nib4 (s2 51 (s1 85 b)) /\
  s3 15 (s2 51 (s1 85 b)) = popc 8 b.
Proof.
  intros b Hb. pose proof (allb_spec 256 chk_byte chk_byte_all b Hb) as H.
  unfold chk_byte, byteb in H. cbv zeta in H. unfold byte, nib4.
  repeat (apply andb_true_iff in H; let H2 := fresh "H" in destruct H as [H H2]).
  lia.
Qed.

Lemma val_bound : forall l, Forall byte l -> 0 <= val l < 256 ^ Z.of_nat (length l).
Proof.
  induction 1 as [|b r Hb Hr IH].
  - cbn. lia.
  - cbn [length val]. rewrite Nat2Z.inj_succ, Z.pow_succ_r by lia. unfold byte in Hb. lia.
Qed.

Lemma val_nib_bound : forall l, Forall byte l -> Forall nib4 l ->
  15 * val l <= 4 * (256 ^ Z.of_nat (length l) - 1).
Proof.
  induction 1 as [|b r Hb Hr IH]; intros Hn.
  - cbn. lia.
  - inversion Hn as [|b' r' [Hn1 Hn2] Hnr]; subst b' r'. specialize (IH Hnr).
    cbn [length val]. rewrite Nat2Z.inj_succ, Z.pow_succ_r by lia. unfold byte in Hb. lia.
Qed.

Lemma swar_stages : forall l, Forall byte l ->
  let k := length l in
  let x1 := s1 (mask 85 k) (val l) in
  let x2 := s2 (mask 51 k) x1 in
  let x3 := s3 (mask 15 k) x2 in
  0 <= x1 < 256 ^ Z.of_nat k /\ 0 <= x2 /\ 3 * x2 < 256 ^ Z.of_nat k /\
  x3 = val (map (popc 8) l).
Proof.
  intros l Hl k x1 x2 x3.
  assert (H1 : Forall byte (map (s1 85) l)).
  { apply Forall_map. eapply Forall_impl; [|exact Hl]. intros b Hb. apply (byte_facts b Hb). }
  assert (H2 : Forall byte (map (s2 51) (map (s1 85) l))).
  { rewrite map_map. apply Forall_map. eapply Forall_impl; [|exact Hl].
    intros b Hb. apply (byte_facts b Hb). }
  assert (H2n : Forall nib4 (map (s2 51) (map (s1 85) l))).
  { rewrite map_map. apply Forall_map. eapply Forall_impl; [|exact Hl].
    intros b Hb. apply (byte_facts b Hb). }
  assert (E1 : x1 = val (map (s1 85) l)) by (apply s1_val; exact Hl).
  assert (E2 : x2 = val (map (s2 51) (map (s1 85) l))).
  { subst x2. rewrite E1. subst k. rewrite <- (map_length (s1 85) l). apply s2_val. exact H1. }
  assert (E3 : x3 = val (map (popc 8) l)).
  { subst x3. rewrite E2. subst k.
    rewrite <- (map_length (s1 85) l), <- (map_length (s2 51) (map (s1 85) l)).
    rewrite s3_val by assumption. rewrite !map_map. f_equal.
    apply map_ext_in. intros b Hb. rewrite Forall_forall in Hl.
    apply (byte_facts b (Hl b Hb)). }
  split; [|split; [|split]].
  - rewrite E1. subst k. rewrite <- (map_length (s1 85) l). apply val_bound. exact H1.
  - rewrite E2. apply val_nonneg. exact H2.
  - rewrite E2. subst k.
    rewrite <- (map_length (s1 85) l), <- (map_length (s2 51) (map (s1 85) l)).
    pose proof (val_nib_bound _ H2 H2n) as Hb. lia.
  - exact E3.
Qed.

(* ---------- T1: of_hweight32 ---------- *)

Lemma hw32_eq : forall w t1 x1 t2 x2 t3 x3 t4 x4 t5,
  wrapu32 (Z.shiftr w 1) = t1 ->
  wrapu32 (w - Z.land t1 (wrapu32 1431655765)) = x1 ->
  wrapu32 (Z.shiftr x1 2) = t2 ->
  wrapu32 (Z.land x1 (wrapu32 858993459) + Z.land t2 (wrapu32 858993459)) = x2 ->
  wrapu32 (Z.shiftr x2 4) = t3 ->
  Z.land (wrapu32 (x2 + t3)) (wrapu32 252645135) = x3 ->
  wrapu32 (Z.shiftr x3 8) = t4 ->
  wrapu32 (x3 + t4) = x4 ->
  wrapu32 (Z.shiftr x4 16) = t5 ->
  of_hweight32 w = Some (Z.land (wrapu32 (x4 + t5)) (wrapu32 255)).
Proof. intros; subst; reflexivity. Qed.

Lemma wrapu32_small : forall z, 0 <= z < 4294967296 -> wrapu32 z = z.
Proof. intros z Hz. unfold wrapu32, wrapu. change (2 ^ 32) with 4294967296. lia. Qed.

Lemma shiftr_div : forall z n p, 0 <= n -> p = 2 ^ n -> Z.shiftr z n = z / p.
Proof. intros z n p Hn Hp. subst p. apply Z.shiftr_div_pow2. exact Hn. Qed.

Theorem hweight32_correct : forall w, 0 <= w < 2 ^ 32 -> of_hweight32 w = Some (popc 32 w).
Proof.
  intros w Hw. change (2 ^ 32) with 4294967296 in Hw.
  pose proof (bytes_of_byte 4 w) as Hl.
  pose proof (bytes_of_val 4 w) as Hv.
  change (256 ^ Z.of_nat 4) with 4294967296 in Hv. specialize (Hv Hw).
  pose proof (swar_stages _ Hl) as Hs. cbv zeta in Hs.
  pose proof (popc_val _ Hl) as Hp.
  rewrite Hv in Hs, Hp.
  remember (bytes_of 4 w) as l eqn:El. cbn [bytes_of] in El.
  assert (Hlen : length l = 4%nat) by (subst l; reflexivity).
  rewrite Hlen in Hs, Hp.
  change (mask 85 4) with 1431655765 in Hs.
  change (mask 51 4) with 858993459 in Hs.
  change (mask 15 4) with 252645135 in Hs.
  change (256 ^ Z.of_nat 4) with 4294967296 in Hs.
  change (8 * 4)%nat with 32%nat in Hp.
  destruct Hs as (B1 & B2 & B2' & E3).
  rewrite Hp.
  set (x1 := s1 1431655765 w) in *.
  set (x2 := s2 858993459 x1) in *.
  set (x3 := s3 252645135 x2) in *.
  rewrite El in E3. cbn [map val] in E3. rewrite El. cbn [map sum].
  pose proof (popc_nonneg 8 (w mod 256)) as G0.
  pose proof (popc_nonneg 8 ((w / 256) mod 256)) as G1.
  pose proof (popc_nonneg 8 ((w / 256 / 256) mod 256)) as G2.
  pose proof (popc_nonneg 8 ((w / 256 / 256 / 256) mod 256)) as G3.
  change (Z.of_nat 8) with 8 in G0, G1, G2, G3.
  set (g0 := popc 8 (w mod 256)) in *.
  set (g1 := popc 8 ((w / 256) mod 256)) in *.
  set (g2 := popc 8 ((w / 256 / 256) mod 256)) in *.
  set (g3 := popc 8 ((w / 256 / 256 / 256) mod 256)) in *.
  clearbody g0 g1 g2 g3. clear El Hl Hv Hp Hlen l.
  rewrite (hw32_eq w (w / 2) x1 (x1 / 4) x2 (x2 / 16) x3 (x3 / 256)
             (x3 + x3 / 256) ((x3 + x3 / 256) / 65536)).
  - f_equal. change (wrapu32 255) with (Z.ones 8). rewrite Z.land_ones by lia.
    change (2 ^ 8) with 256. rewrite wrapu32_small by lia. lia.
  - rewrite (shiftr_div _ 1 2) by (try reflexivity; lia). apply wrapu32_small. lia.
  - change (wrapu32 1431655765) with 1431655765. apply wrapu32_small. exact B1.
  - rewrite (shiftr_div _ 2 4) by (try reflexivity; lia). apply wrapu32_small. lia.
  - change (wrapu32 858993459) with 858993459. apply wrapu32_small. lia.
  - rewrite (shiftr_div _ 4 16) by (try reflexivity; lia). apply wrapu32_small. lia.
  - change (wrapu32 252645135) with 252645135. rewrite wrapu32_small by lia. reflexivity.
  - rewrite (shiftr_div _ 8 256) by (try reflexivity; lia). apply wrapu32_small. lia.
  - apply wrapu32_small. lia.
  - rewrite (shiftr_div _ 16 65536) by (try reflexivity; lia). apply wrapu32_small. lia.
Qed.

(* ---------- T2: of_popcount_3 ---------- *)

Lemma pc3_eq : forall m1 m2 m4 h01 x t1 x1 t2 x2 t3 x3 t4,
  wrapu64 (Z.shiftr x 1) = t1 ->
  wrapu64 (x - Z.land t1 m1) = x1 ->
  wrapu64 (Z.shiftr x1 2) = t2 ->
  wrapu64 (Z.land x1 m2 + Z.land t2 m2) = x2 ->
  wrapu64 (Z.shiftr x2 4) = t3 ->
  Z.land (wrapu64 (x2 + t3)) m4 = x3 ->
  wrapu64 (Z.shiftr (wrapu64 (x3 * h01)) 56) = t4 ->
  of_popcount_3 m1 m2 m4 h01 x = Some (wraps32 t4).
Proof. intros; subst; reflexivity. Qed.

Lemma wrapu64_small : forall z, 0 <= z < 18446744073709551616 -> wrapu64 z = z.
Proof. intros z Hz. unfold wrapu64, wrapu. change (2 ^ 64) with 18446744073709551616. lia. Qed.

Theorem popcount_3_correct : forall x, 0 <= x < 2 ^ 64 ->
  of_popcount_3 c_of_m1 c_of_m2 c_of_m4 c_of_h01 x = Some (popc 64 x).
Proof.
  intros w Hw. change (2 ^ 64) with 18446744073709551616 in Hw.
  pose proof (bytes_of_byte 8 w) as Hl.
  pose proof (bytes_of_val 8 w) as Hv.
  change (256 ^ Z.of_nat 8) with 18446744073709551616 in Hv. specialize (Hv Hw).
  pose proof (swar_stages _ Hl) as Hs. cbv zeta in Hs.
  pose proof (popc_val _ Hl) as Hp.
  rewrite Hv in Hs, Hp.
  remember (bytes_of 8 w) as l eqn:El. cbn [bytes_of] in El.
  assert (Hlen : length l = 8%nat) by (subst l; reflexivity).
  rewrite Hlen in Hs, Hp.
  change (mask 85 8) with c_of_m1 in Hs.
  change (mask 51 8) with c_of_m2 in Hs.
  change (mask 15 8) with c_of_m4 in Hs.
  change (256 ^ Z.of_nat 8) with 18446744073709551616 in Hs.
  change (8 * 8)%nat with 64%nat in Hp.
  destruct Hs as (B1 & B2 & B2' & E3).
  rewrite Hp.
  set (x1 := s1 c_of_m1 w) in *.
  set (x2 := s2 c_of_m2 x1) in *.
  set (x3 := s3 c_of_m4 x2) in *.
  rewrite El in E3. cbn [map val] in E3. rewrite El. cbn [map sum].
  pose proof (popc_nonneg 8 (w mod 256)) as G0.
  pose proof (popc_nonneg 8 ((w / 256) mod 256)) as G1.
  pose proof (popc_nonneg 8 ((w / 256 / 256) mod 256)) as G2.
  pose proof (popc_nonneg 8 ((w / 256 / 256 / 256) mod 256)) as G3.
  pose proof (popc_nonneg 8 ((w / 256 / 256 / 256 / 256) mod 256)) as G4.
  pose proof (popc_nonneg 8 ((w / 256 / 256 / 256 / 256 / 256) mod 256)) as G5.
  pose proof (popc_nonneg 8 ((w / 256 / 256 / 256 / 256 / 256 / 256) mod 256)) as G6.
  pose proof (popc_nonneg 8 ((w / 256 / 256 / 256 / 256 / 256 / 256 / 256) mod 256)) as G7.
  change (Z.of_nat 8) with 8 in G0, G1, G2, G3, G4, G5, G6, G7.
  set (q0 := popc 8 (w mod 256)) in *.
  set (q1 := popc 8 ((w / 256) mod 256)) in *.
  set (q2 := popc 8 ((w / 256 / 256) mod 256)) in *.
  set (q3 := popc 8 ((w / 256 / 256 / 256) mod 256)) in *.
  set (q4 := popc 8 ((w / 256 / 256 / 256 / 256) mod 256)) in *.
  set (q5 := popc 8 ((w / 256 / 256 / 256 / 256 / 256) mod 256)) in *.
  set (q6 := popc 8 ((w / 256 / 256 / 256 / 256 / 256 / 256) mod 256)) in *.
  set (q7 := popc 8 ((w / 256 / 256 / 256 / 256 / 256 / 256 / 256) mod 256)) in *.
  clearbody q0 q1 q2 q3 q4 q5 q6 q7.
  clear El Hl Hv Hp Hlen l.
  set (t4 := wrapu64 (x3 * c_of_h01) / 72057594037927936).
  assert (Et : t4 = q0 + (q1 + (q2 + (q3 + (q4 + (q5 + (q6 + (q7 + 0)))))))).
  { subst t4. unfold wrapu64, wrapu. change (2 ^ 64) with 18446744073709551616.
    set (S := q0 + (q1 + (q2 + (q3 + (q4 + (q5 + (q6 + (q7 + 0)))))))).
    set (L := 1 * (q0) + 256 * (q0 + q1) + 65536 * (q0 + q1 + q2) + 16777216 * (q0 + q1 + q2 + q3) + 4294967296 * (q0 + q1 + q2 + q3 + q4) + 1099511627776 * (q0 + q1 + q2 + q3 + q4 + q5) + 281474976710656 * (q0 + q1 + q2 + q3 + q4 + q5 + q6)).
    set (H := 1 * (q1 + q2 + q3 + q4 + q5 + q6 + q7) + 256 * (q2 + q3 + q4 + q5 + q6 + q7) + 65536 * (q3 + q4 + q5 + q6 + q7) + 16777216 * (q4 + q5 + q6 + q7) + 4294967296 * (q5 + q6 + q7) + 1099511627776 * (q6 + q7) + 281474976710656 * (q7)).
    assert (EL : x3 * c_of_h01 = L + 72057594037927936 * S + 18446744073709551616 * H).
    { rewrite E3. unfold c_of_h01, L, S, H. ring. }
    assert (BL : 0 <= L < 72057594037927936) by (unfold L; lia).
    assert (BS : 0 <= S < 256) by (unfold S; lia).
    assert (BH : 0 <= H) by (unfold H; lia).
    rewrite EL. clearbody L S H. clear - BL BS BH. lia. }
  rewrite (pc3_eq c_of_m1 c_of_m2 c_of_m4 c_of_h01 w (w / 2) x1 (x1 / 4) x2 (x2 / 16) x3 t4).
  - f_equal. rewrite Et. unfold wraps32, wraps. change (2 ^ (32 - 1)) with 2147483648.
    change (2 ^ 32) with 4294967296. lia.
  - rewrite (shiftr_div _ 1 2) by (try reflexivity; lia). apply wrapu64_small. lia.
  - apply wrapu64_small. exact B1.
  - rewrite (shiftr_div _ 2 4) by (try reflexivity; lia). apply wrapu64_small. lia.
  - apply wrapu64_small. lia.
  - rewrite (shiftr_div _ 4 16) by (try reflexivity; lia). apply wrapu64_small. lia.
  - rewrite wrapu64_small by lia. reflexivity.
  - rewrite (shiftr_div _ 56 72057594037927936) by (try reflexivity; lia).
    apply wrapu64_small. fold t4. rewrite Et. lia.
Qed.

(* ---------- T3: the 256-entry table ---------- *)

Definition chk_tbl (b : Z) : bool := nth (Z.to_nat b) c_of_hw8table 0 =? popc 8 b.

Lemma chk_tbl_all : allb 256 chk_tbl = true.
Proof. vm_compute. reflexivity. Qed.

Theorem hw8table_correct :
  length c_of_hw8table = 256%nat /\
  forall b, 0 <= b < 256 -> nth (Z.to_nat b) c_of_hw8table 0 = popc 8 b.
Proof.
  split.
  - reflexivity.
  - intros b Hb. pose proof (allb_spec 256 chk_tbl chk_tbl_all b Hb) as H.
    unfold chk_tbl in H. lia.
Qed.

(* ---------- T4: table-driven popcount of a 32-bit word ---------- *)

Definition hweight32_table (w : Z) : Z :=
  let byte i := Z.land (Z.shiftr w (8 * i)) 255 in
  nth (Z.to_nat (byte 0)) c_of_hw8table 0 + nth (Z.to_nat (byte 1)) c_of_hw8table 0 +
  nth (Z.to_nat (byte 2)) c_of_hw8table 0 + nth (Z.to_nat (byte 3)) c_of_hw8table 0.

Lemma byte_field : forall w n p, 0 <= n -> p = 2 ^ n ->
  Z.land (Z.shiftr w n) 255 = (w / p) mod 256.
Proof.
  intros w n p Hn Hp. subst p. change 255 with (Z.ones 8).
  rewrite Z.land_ones by lia. rewrite Z.shiftr_div_pow2 by exact Hn. reflexivity.
Qed.

Theorem hweight32_table_correct : forall w, 0 <= w < 2 ^ 32 -> hweight32_table w = popc 32 w.
Proof.
  intros w Hw. change (2 ^ 32) with 4294967296 in Hw.
  pose proof (bytes_of_byte 4 w) as Hl.
  pose proof (bytes_of_val 4 w) as Hv.
  change (256 ^ Z.of_nat 4) with 4294967296 in Hv. specialize (Hv Hw).
  pose proof (popc_val _ Hl) as Hp. rewrite Hv in Hp.
  cbn [bytes_of length map sum] in Hp. change (8 * 4)%nat with 32%nat in Hp.
  rewrite Hp. unfold hweight32_table. cbv zeta.
  rewrite (byte_field w (8 * 0) 1) by (try reflexivity; lia).
  rewrite (byte_field w (8 * 1) 256) by (try reflexivity; lia).
  rewrite (byte_field w (8 * 2) 65536) by (try reflexivity; lia).
  rewrite (byte_field w (8 * 3) 16777216) by (try reflexivity; lia).
  destruct hw8table_correct as [_ Ht].
  rewrite !Ht by lia.
  replace (w / 1) with w by lia.
  replace (w / 65536) with (w / 256 / 256) by lia.
  replace (w / 16777216) with (w / 256 / 256 / 256) by lia.
  lia.
Qed.

(* ---------- T5: the bit-by-bit loop ---------- *)

Fixpoint naive (n : nat) (x res : Z) : Z :=
  match n with
  | O => res
  | S k => naive k (Z.shiftr x 1) (res + Z.land x 1)
  end.

Lemma popc_low : forall k z,
  popc (S k) z = (if Z.testbit z 0 then 1 else 0) + popc k (Z.shiftr z 1).
Proof.
  induction k as [|k IH]; intros z.
  - reflexivity.
  - change (popc (S (S k)) z)
      with ((if Z.testbit z (Z.of_nat (S k)) then 1 else 0) + popc (S k) z).
    rewrite IH. cbn [popc]. rewrite Z.shiftr_spec by lia.
    replace (Z.of_nat k + 1) with (Z.of_nat (S k)) by lia. lia.
Qed.

Lemma land_1 : forall x, Z.land x 1 = if Z.testbit x 0 then 1 else 0.
Proof.
  intros x. change 1 with (Z.ones 1) at 1. rewrite Z.land_ones by lia.
  change (2 ^ 1) with 2. rewrite Z.bit0_odd. apply Zmod_odd.
Qed.

Lemma naive_popc : forall n x res, naive n x res = res + popc n x.
Proof.
  induction n as [|k IH]; intros x res.
  - cbn. lia.
  - rewrite popc_low. cbn [naive]. rewrite IH, land_1. lia.
Qed.

Theorem hweight32_naive_correct : forall w, 0 <= w < 2 ^ 32 -> naive 32 w 0 = popc 32 w.
Proof. intros w _. rewrite naive_popc. lia. Qed.

Print Assumptions hweight32_correct.
Print Assumptions popcount_3_correct.
Print Assumptions hw8table_correct.
Print Assumptions hweight32_table_correct.
Print Assumptions hweight32_naive_correct.
