(* Soundness of the dense GF(2) solver model (DenseSolve.v) when the system contains all-zero matrix rows
   whose right-hand side is arbitrary (as in the C program: such rows can never be pivots and are never
   eliminated, and their constant term is garbage).  `sol_nz` only asks a candidate x' to satisfy the
   equations of the NON-ZERO rows; the solver result still coincides with every such x'.
     solve_sound_nz      solve = Some x -> length x = q /\ x agrees with every sol_nz solution
     solve_sound_nz_sol  solve = Some x -> a sol_nz solution exists -> x is itself a sol_nz solution
   The bit-level/structural facts (elim_row_spec, swap_spec, col_forward_spec, triangularize_spec) are
   reused from DenseSolveProofs.v; only the "solution set" part is redone, in the forward direction. *)
From Coq Require Import Arith List Bool Lia.
From OFV Require Import ListAux XorGroup DenseSolve DenseSolveProofs.
Import ListNotations.

Definition nzrow (q : nat) (row : list bool) : Prop := exists c, c < q /\ bit row c = true.

Definition sol_nz (Sy : Type) (sxor : Sy -> Sy -> Sy) (s0 : Sy) (p q : nat) (y : sys Sy) (x : list Sy) : Prop :=
  forall r, r < p -> nzrow q (getrow (sA y) r) ->
    dot Sy sxor s0 q (getrow (sA y) r) x = vb Sy s0 y r.

Section NZ.
Variable Sy : Type. Variable sxor : Sy -> Sy -> Sy. Variable s0 : Sy.
Hypothesis sxor_assoc : forall a b c, sxor a (sxor b c) = sxor (sxor a b) c.
Hypothesis sxor_comm : forall a b, sxor a b = sxor b a.
Hypothesis sxor_0_l : forall a, sxor s0 a = a.
Hypothesis sxor_nilp : forall a, sxor a a = s0.
Variable p q : nat.

Notation sys := (sys Sy).
Notation dot := (dot Sy sxor s0 q).
Notation vb := (vb Sy s0).
Notation WFs := (WFs Sy p q).
Notation Lower := (Lower Sy p).
Notation Diag := (Diag Sy).
Notation solnz := (sol_nz Sy sxor s0 p q).
Notation xsum := (xsum Sy sxor s0).

Lemma s0r_nz : forall a, sxor a s0 = a.
Proof. exact (sxor_0_r Sy sxor s0 sxor_comm sxor_0_l). Qed.

(* ---- one elimination step keeps every solution of the non-zero rows ---- *)
Lemma elim_row_nz (y : sys) i j x : WFs y -> i < p -> j < p -> i <> j -> i < q ->
  (forall c, c < 32 * (i / 32) -> bit (getrow (sA y) i) c = false) ->
  bit (getrow (sA y) i) i = true ->
  solnz y x -> solnz (elim_row Sy sxor s0 i y j) x.
Proof.
  intros W Hi Hj Hne Hiq Hz Hpiv Hs.
  destruct (elim_row_spec Sy sxor s0 sxor_comm sxor_0_l p q y i j W Hi Hj Hne Hz) as (_ & Hrows & Hrowj & Hvb & Hvbj).
  set (y2 := elim_row Sy sxor s0 i y j) in *.
  intros r Hr Hnz. destruct (Nat.eq_dec r j) as [->|Hrj].
  - destruct (bit (getrow (sA y) j) i) eqn:Eb.
    + rewrite Hvbj.
      rewrite (dot_xor Sy sxor s0 sxor_assoc sxor_comm sxor_0_l sxor_nilp q _ (getrow (sA y) j) (getrow (sA y) i) x)
        by (intros c _; apply Hrowj).
      rewrite (Hs j Hj) by (exists i; split; [exact Hiq|exact Eb]).
      rewrite (Hs i Hi) by (exists i; split; [exact Hiq|exact Hpiv]).
      reflexivity.
    + rewrite Hvbj.
      assert (Hnz' : nzrow q (getrow (sA y) j)).
      { destruct Hnz as (c & Hc & Hbc). exists c. split; [exact Hc|]. rewrite Hrowj in Hbc. exact Hbc. }
      rewrite <- (Hs j Hj Hnz'). apply (dot_ext Sy sxor s0 q). intros c _. apply Hrowj.
  - rewrite (Hvb r Hr Hrj). rewrite (Hrows r Hrj) in *. apply Hs; assumption.
Qed.

Lemma elim_loop_nz i rowi x : i < p -> i < q -> bit rowi i = true -> (forall c, c < i -> bit rowi c = false) ->
  forall js (y : sys), (forall j, In j js -> i < j < p) ->
  WFs y -> getrow (sA y) i = rowi -> solnz y x ->
  solnz (fold_left (elim_row Sy sxor s0 i) js y) x.
Proof.
  intros Hi Hiq Hpiv Hzero. induction js as [|j js IH]; intros y Hjs W Hri Hs.
  - exact Hs.
  - simpl fold_left.
    assert (Hj : i < j < p) by (apply Hjs; now left).
    assert (Hz32 : forall c, c < 32 * (i / 32) -> bit (getrow (sA y) i) c = false).
    { intros c Hc. rewrite Hri. apply Hzero. pose proof (Nat.mul_div_le i 32 ltac:(lia)). lia. }
    assert (Hne : i <> j) by lia. assert (Hjp : j < p) by lia.
    destruct (elim_row_spec Sy sxor s0 sxor_comm sxor_0_l p q y i j W Hi Hjp Hne Hz32) as (W1 & Hrows & _).
    apply IH.
    + intros j' Hj'. apply Hjs. now right.
    + exact W1.
    + rewrite Hrows by exact Hne. exact Hri.
    + apply elim_row_nz; try assumption. rewrite Hri. exact Hpiv.
Qed.

(* ---- a row swap keeps every solution of the non-zero rows ---- *)
Lemma swap_nz (y : sys) i j x : WFs y -> i < p -> j < p -> i <> j ->
  solnz y x -> solnz {| sA := swap (sA y) i j []; sb := swap (sb y) i j None |} x.
Proof.
  intros W Hi Hj Hne Hs.
  assert (HA : forall r, getrow (swap (sA y) i j []) r = if r =? j then getrow (sA y) i else if r =? i then getrow (sA y) j else getrow (sA y) r).
  { intros r. unfold getrow. apply nth_swap; rewrite (w_rows Sy p q y W); assumption. }
  assert (HB : forall r, nth r (swap (sb y) i j None) None = if r =? j then nth i (sb y) None else if r =? i then nth j (sb y) None else nth r (sb y) None).
  { intros r. apply nth_swap; rewrite (w_b Sy p q y W); assumption. }
  intros r Hr Hnz. unfold DenseSolveProofs.vb. cbn [sA sb] in *. rewrite HA in *. rewrite HB.
  destruct (r =? j).
  - apply (Hs i Hi Hnz).
  - destruct (r =? i).
    + apply (Hs j Hj Hnz).
    + apply (Hs r Hr Hnz).
Qed.

Lemma col_forward_nz (y y' : sys) i x : WFs y -> Lower y i -> i < q ->
  col_forward Sy sxor s0 p y i = Some y' -> solnz y x -> solnz y' x.
Proof.
  intros W HL Hiq Hcf Hs. unfold col_forward in Hcf.
  destruct (find_pivot_spec (sA y) i (p - i) i) as [E|(j & E & Hj & Hbj)]; rewrite E in Hcf; [discriminate|].
  assert (Hip : i < p) by lia. assert (Hjp : j < p) by lia.
  inversion Hcf as [Hy']. clear Hcf Hy'.
  set (y1 := if j =? i then y else {| sA := swap (sA y) i j []; sb := swap (sb y) i j None |}).
  assert (H1 : WFs y1 /\ getrow (sA y1) i = getrow (sA y) j /\ solnz y1 x).
  { unfold y1. destruct (Nat.eqb_spec j i) as [->|Hne].
    - split; [exact W|]. split; [reflexivity|exact Hs].
    - assert (Hne' : i <> j) by lia.
      destruct (swap_spec Sy sxor s0 p q y i j W Hip Hjp Hne') as (W1 & Ri & _).
      split; [exact W1|]. split; [exact Ri|]. apply swap_nz; assumption. }
  destruct H1 as (W1 & Ri1 & Hs1).
  apply (elim_loop_nz i (getrow (sA y1) i) x Hip Hiq).
  - rewrite Ri1. exact Hbj.
  - intros c Hc. rewrite Ri1. apply HL; lia.
  - intros j' Hj'. apply in_seq in Hj'. lia.
  - exact W1.
  - reflexivity.
  - exact Hs1.
Qed.

Lemma triangularize_nz x : forall cnt i (y y' : sys), WFs y -> Lower y i -> Diag y i -> i + cnt <= q ->
  triangularize Sy sxor s0 p (seq i cnt) y = Some y' -> solnz y x -> solnz y' x.
Proof.
  induction cnt as [|cnt IH]; intros i y y' W HL HD Hq Ht Hs; simpl in Ht.
  - inversion Ht; subst. exact Hs.
  - destruct (col_forward Sy sxor s0 p y i) as [y1|] eqn:Ecf; [|discriminate].
    assert (Hiq : i < q) by lia.
    destruct (col_forward_spec Sy sxor s0 sxor_assoc sxor_comm sxor_0_l sxor_nilp p q y y1 i W HL HD Hiq Ecf) as (W1 & HL1 & HD1 & _).
    apply (IH (S i) y1 y' W1 HL1 HD1); [lia|exact Ht|].
    apply (col_forward_nz y y1 i x W HL Hiq Ecf Hs).
Qed.

(* ---- back-substitution only reads rows 0..q-1, which have a unit diagonal, hence are non-zero ---- *)
Lemma triangular_row_nz (y : sys) x' i : Lower y q -> Diag y q -> i < q -> q <= p -> solnz y x' ->
  nth i x' s0 = sxor (vb y i) (xsum (map (fun j => if bit (getrow (sA y) i) j then nth j x' s0 else s0) (seq (S i) (q - S i)))).
Proof.
  intros HL HD Hi Hqp Hs.
  assert (Hip : i < p) by lia.
  assert (Hnz : nzrow q (getrow (sA y) i)) by (exists i; split; [exact Hi|apply HD; exact Hi]).
  specialize (Hs i Hip Hnz). unfold DenseSolveProofs.dot in Hs.
  assert (Hseq : seq 0 q = seq 0 i ++ [i] ++ seq (S i) (q - S i)).
  { replace q with (i + S (q - S i)) at 1 by lia. rewrite seq_app. simpl. reflexivity. }
  rewrite Hseq in Hs.
  rewrite !map_app, !(xsum_app Sy sxor s0 sxor_assoc sxor_0_l) in Hs.
  rewrite (map_ext_in _ (fun _ => s0)) in Hs.
  2:{ intros c Hc. apply in_seq in Hc. rewrite (HL i c) by lia. reflexivity. }
  rewrite (xsum_zero Sy sxor s0 sxor_0_l), sxor_0_l in Hs. simpl map in Hs. rewrite (HD i Hi) in Hs.
  simpl XorGroup.xsum in Hs at 1. rewrite s0r_nz in Hs.
  apply (sxor_move Sy sxor s0 sxor_assoc sxor_comm sxor_0_l sxor_nilp) in Hs. exact Hs.
Qed.

Lemma back_subst_nz (y : sys) x' : Lower y q -> Diag y q -> q <= p -> solnz y x' ->
  forall cnt x, cnt <= q -> length x = q -> (forall j, cnt <= j < q -> nth j x s0 = nth j x' s0) ->
  forall j, j < q -> nth j (back_subst Sy sxor s0 q y cnt x) s0 = nth j x' s0.
Proof.
  intros HL HD Hqp Hs. induction cnt as [|c IH]; intros x Hc Hl Hag j Hj; simpl.
  - apply Hag. lia.
  - apply IH; [lia|rewrite upd_length; exact Hl| |exact Hj].
    intros j' Hj'. rewrite nth_updo by (rewrite Hl; lia). destruct (Nat.eqb_spec j' c) as [->|Hne]; [|apply Hag; lia].
    rewrite (fold_left_xsum Sy sxor s0 sxor_assoc sxor_comm sxor_0_l). fold (vb y c).
    assert (Hcq : c < q) by lia.
    rewrite (triangular_row_nz y x' c HL HD Hcq Hqp Hs). f_equal. f_equal.
    apply map_ext_in. intros k Hk. apply in_seq in Hk. rewrite Hag by lia. reflexivity.
Qed.

Lemma solve_sound_nz_sec (y : sys) (x : list Sy) : WFs y -> solve Sy sxor s0 p q y = Some x ->
  length x = q /\ forall x', solnz y x' -> forall j, j < q -> nth j x s0 = nth j x' s0.
Proof.
  intros W Hsolve. unfold solve in Hsolve.
  destruct (triangularize Sy sxor s0 p (seq 0 q) y) as [y'|] eqn:Et; [|discriminate]. inversion Hsolve as [Hx]. clear Hsolve.
  assert (HL0 : Lower y 0) by (intros r c Hc; lia).
  assert (HD0 : Diag y 0) by (intros c Hc; lia).
  assert (Hq0 : 0 + q <= q) by lia.
  destruct (triangularize_spec Sy sxor s0 sxor_assoc sxor_comm sxor_0_l sxor_nilp p q q 0 y y' W HL0 HD0 Hq0 Et) as (W' & HL & HD & _ & Hp).
  simpl in HL, HD.
  assert (Hlen : forall cnt x0, length (back_subst Sy sxor s0 q y' cnt x0) = length x0).
  { induction cnt as [|c IH]; intros x0; simpl; auto. rewrite IH, upd_length. reflexivity. }
  split; [rewrite Hlen; apply repeat_length|].
  intros x' Hx' j Hj.
  assert (Hqp : q <= p) by (apply Hp; lia).
  assert (Hs' : solnz y' x') by (apply (triangularize_nz x' q 0 y y' W HL0 HD0 Hq0 Et Hx')).
  apply (back_subst_nz y' x' HL HD Hqp Hs' q); auto; [apply repeat_length|intros; lia].
Qed.
End NZ.

Theorem solve_sound_nz (Sy : Type) (sxor : Sy -> Sy -> Sy) (s0 : Sy) :
  (forall a b c, sxor a (sxor b c) = sxor (sxor a b) c) ->
  (forall a b, sxor a b = sxor b a) ->
  (forall a, sxor s0 a = a) ->
  (forall a, sxor a a = s0) ->
  forall (p q : nat) (y : sys Sy) (x : list Sy),
  WFs Sy p q y -> solve Sy sxor s0 p q y = Some x ->
  length x = q /\
  forall x', sol_nz Sy sxor s0 p q y x' -> forall j, j < q -> nth j x s0 = nth j x' s0.
Proof.
  intros Ha Hc H0 Hn p q y x W Hs. exact (solve_sound_nz_sec Sy sxor s0 Ha Hc H0 Hn p q y x W Hs).
Qed.

Theorem solve_sound_nz_sol (Sy : Type) (sxor : Sy -> Sy -> Sy) (s0 : Sy) :
  (forall a b c, sxor a (sxor b c) = sxor (sxor a b) c) ->
  (forall a b, sxor a b = sxor b a) ->
  (forall a, sxor s0 a = a) ->
  (forall a, sxor a a = s0) ->
  forall (p q : nat) (y : sys Sy) (x : list Sy),
  WFs Sy p q y -> solve Sy sxor s0 p q y = Some x ->
  (exists x', sol_nz Sy sxor s0 p q y x') -> sol_nz Sy sxor s0 p q y x.
Proof.
  intros Ha Hc H0 Hn p q y x W Hs (x' & Hx').
  destruct (solve_sound_nz Sy sxor s0 Ha Hc H0 Hn p q y x W Hs) as (_ & Hag).
  intros r Hr Hnz. rewrite (dot_ext_x Sy sxor s0 q _ x x' (Hag x' Hx')). apply Hx'; assumption.
Qed.

Print Assumptions solve_sound_nz.
Print Assumptions solve_sound_nz_sol.
