From Flocq Require Import Core Relative IEEE754.BinarySingleNaN.
From Coq Require Import Reals ZArith Lia Lra Bool.
From OFV Require Import CSem CSemProofs FloatLemmas Blocking.
From OFV.gen Require Import GenBlocking.
Local Open Scope Z_scope.

(* ---- exact layer: the RFC 5052 quantities satisfy the partition identities ---- *)
Lemma ceil_div_bounds a b : 1 <= a -> 1 <= b -> 1 <= ceil_div a b <= a /\ (ceil_div a b - 1) * b < a <= ceil_div a b * b.
Proof.
  intros Ha Hb. unfold ceil_div.
  pose proof (Z.div_mod (a + b - 1) b ltac:(lia)) as H. pose proof (Z.mod_pos_bound (a + b - 1) b ltac:(lia)) as Hr.
  set (q := (a + b - 1) / b) in *. set (r := (a + b - 1) mod b) in *. clearbody q r. nia.
Qed.

Lemma partition_exact_proof B L E : 1 <= B -> 1 <= L -> 1 <= E ->
  let p := rfc5052 B L E in
  1 <= p_T p <= L /\ 1 <= p_N p <= p_T p /\
  p_A_large p <= B /\ p_A_small p <= p_A_large p <= p_A_small p + 1 /\ 0 <= p_I p < p_N p /\
  p_I p * p_A_large p + (p_N p - p_I p) * p_A_small p = p_T p.
Proof.
  intros HB HL HE. cbv zeta. unfold rfc5052. cbn [p_T p_N p_A_large p_A_small p_I].
  destruct (ceil_div_bounds L E HL HE) as [HT HT']. set (T := ceil_div L E) in *. clearbody T.
  destruct (ceil_div_bounds T B ltac:(lia) HB) as [HN HN']. set (N := ceil_div T B) in *. clearbody N.
  destruct (ceil_div_bounds T N ltac:(lia) ltac:(lia)) as [HA HA']. set (Al := ceil_div T N) in *. clearbody Al.
  pose proof (Z.div_mod T N ltac:(lia)) as Hd. pose proof (Z.mod_pos_bound T N ltac:(lia)) as Hr.
  set (q := T / N) in *. set (r := T mod N) in *. clearbody q r.
  assert (HAl : Al = if r =? 0 then q else q + 1).
  { destruct (Z.eqb_spec r 0); nia. }
  repeat split; try lia.
  - (* A_large <= B: N blocks of B symbols hold T *) nia.
  - destruct (Z.eqb_spec r 0); lia.
  - destruct (Z.eqb_spec r 0); lia.
  - destruct (Z.eqb_spec r 0); nia.
Qed.

(* ---- float layer, first part: whenever the generated function returns (no undefined
   conversion), N, A_large and A_small are the RFC 5052 values ---- *)
Lemma bind_some {A B} (o : option A) (f : A -> option B) r : bind o f = Some r -> exists a, o = Some a /\ f a = Some r.
Proof. destruct o; simpl; intros H; [eauto|discriminate]. Qed.

Lemma blocking_N_A_proof B L E n al asm i : 1 <= B < 2^32 -> 1 <= L < 2^32 -> 1 <= E < 2^32 ->
  of_compute_blocking_struct B L E = Some (n, al, asm, i) ->
  let p := rfc5052 B L E in n = p_N p /\ al = p_A_large p /\ asm = p_A_small p.
Proof.
  intros HB HL HE H. cbv zeta. unfold rfc5052. cbn [p_N p_A_large p_A_small].
  destruct (ceil_div_bounds L E ltac:(lia) ltac:(lia)) as [HT _].
  unfold of_compute_blocking_struct in H.
  destruct (quot_ceil L E ltac:(lia) ltac:(lia)) as (c1 & F1 & R1 & E1). rewrite <- E1 in H.
  unfold d_to_u32 in H. rewrite (d_to_int_of_int _ _ c1 (ceil_div L E) F1 R1) in H by (change (2^32-1) with 4294967295; lia).
  cbn [bind] in H. set (T := ceil_div L E) in *. clearbody T.
  destruct (ceil_div_bounds T B ltac:(lia) ltac:(lia)) as [HN _].
  destruct (quot_ceil T B ltac:(lia) ltac:(lia)) as (c2 & F2 & R2 & E2). rewrite <- E2 in H.
  rewrite (d_to_int_of_int _ _ c2 (ceil_div T B) F2 R2) in H by (change (2^32-1) with 4294967295; lia).
  cbn [bind] in H. set (N := ceil_div T B) in *. clearbody N.
  destruct (ceil_div_bounds T N ltac:(lia) ltac:(lia)) as [HA _].
  destruct (quot_ceil T N ltac:(lia) ltac:(lia)) as (c3 & F3 & R3 & E3). rewrite <- E3 in H.
  rewrite (d_to_int_of_int _ _ c3 (ceil_div T N) F3 R3) in H by (change (2^32-1) with 4294967295; lia).
  cbn [bind] in H.
  destruct (quot_floor T N ltac:(lia) ltac:(lia)) as (c4 & F4 & R4 & E4). rewrite <- E4 in H.
  assert (Hq : 0 <= T / N <= T) by (split; [apply Z.div_pos; lia|apply Z.div_le_upper_bound; nia]).
  rewrite (d_to_int_of_int _ _ c4 (T / N) F4 R4) in H by (change (2^32-1) with 4294967295; lia).
  cbn [bind] in H.
  apply bind_some in H as (i' & _ & H). inversion H. auto.
Qed.
