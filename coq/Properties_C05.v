(* C05 — the LDPC-Staircase code depends only on (k, n, N1, seed).
   pchk (Pchk.v) mirrors of_create_pchck_matrix_rfc5170_compliant on top of the sparse-matrix model and
   of the PRNG generated from of_rand.c; it is a function of (k, r, N1, seed) and of the PRNG state g
   found at entry.  Theorem: for every seed the generator accepts the result does not depend on g, hence
   not on earlier sessions, role or process.  That pchk IS the RFC 5170 construction is by transcription
   (the model text follows the RFC's left_matrix_init / staircase pseudo-code as the C does) and is tied
   to the C by comparing the matrix of every generated session entry by entry. *)
From Coq Require Import ZArith.
From OFV Require Import Prng Pchk PchkProofs.
Theorem pchk_ignores_global_state : forall fuel k r n1 (seed g g' : Z),
  (1 <= seed <= PM_P - 1)%Z -> pchk fuel k r n1 seed g = pchk fuel k r n1 seed g'.
Proof. exact pchk_ignores_global_state_proof. Qed.
(* ---- the construction stays inside its tables (PchkBounds.v, PchkBoundsConcrete.v; also part of C07) ----
   pchk_chk is a copy of the construction whose every read and write of the choice table u, every draw (a bound of 0 is an
   error: the C would compute rand() with maxv = 0), every of_mod2sparse_find and every insertion fail out of range.  It
   refines the model unconditionally; with the PRNG generated from of_rand.c, for every configuration inside the accepted
   limits and every PRNG state at entry it is never out of bounds and returns exactly what the model returns. *)
From Coq Require Import ZArith.
From OFV Require Import Prng PchkShape PchkBounds PchkBoundsConcrete.
From OFV.gen Require Import GenPrng.
Theorem matrix_construction_never_leaves_its_tables : forall fuel k r n1 seed g0,
  1 <= k -> 1 <= r -> (1 <= seed <= PM_P - 1)%Z ->
  (Z.of_nat k <= 2 ^ 24)%Z -> (Z.of_nat r <= 2 ^ 24)%Z -> (Z.of_nat (n1 * k) <= 2 ^ 24)%Z ->
  pchk_chk rnd of_rfc5170_srand fuel k r n1 seed g0 <> OutOfBounds.
Proof. exact ldpc_construction_never_out_of_bounds. Qed.
Theorem accepted_configurations_are_within_that_range : forall k r n1, (Z.of_nat k + Z.of_nat r <= 50000)%Z -> (Z.of_nat n1 <= 255)%Z ->
  (Z.of_nat k <= 2 ^ 24)%Z /\ (Z.of_nat r <= 2 ^ 24)%Z /\ (Z.of_nat (n1 * k) <= 2 ^ 24)%Z.
Proof. exact accepted_sizes_in_range. Qed.

Print Assumptions matrix_construction_never_leaves_its_tables.
Print Assumptions pchk_ignores_global_state.
