(* C05 — the LDPC-Staircase code depends only on (k, n, N1, seed).
   pchk (Pchk.v) mirrors of_create_pchck_matrix_rfc5170_compliant on top of the sparse-matrix model and
   of the PRNG generated from of_rand.c; it is a function of (k, r, N1, seed) and of the PRNG state g
   found at entry.  Theorem: for every seed the generator accepts the result does not depend on g, hence
   not on earlier sessions, role or process.  That pchk IS the RFC 5170 construction is by transcription
   (the model text follows the RFC's left_matrix_init / staircase pseudo-code as the C does) and is tied
   to the C by comparing the matrix of every generated session entry by entry. *)
From Coq Require Import ZArith.
From OFV Require Import Prng Pchk PchkProofs.
Theorem pchk_ignores_global_state : forall fuel k r n1 (seed g g' : Z),
  (1 <= seed <= PM_P - 1)%Z -> pchk fuel k r n1 seed g = pchk fuel k r n1 seed g'.
Proof. exact pchk_ignores_global_state_proof. Qed.
Print Assumptions pchk_ignores_global_state.
