(* Stability of the symbol tables of the decoder models: an entry that holds a symbol (received or
   already decoded) is never written again.  No hypothesis on the symbol values or on the xor, and no
   well-formedness of the states: the statements follow from the shape of the models alone
   (ITModel.v, MLModel.v, RSApi.v).
     Part A  LDPC streaming decoder (ITModel.decode, ITProofs.run)
     Part B  ML finish (MLModel.simplify, MLModel.ml_finish)
     Part C  Reed-Solomon API (RSApi.rs_decode_with_new_symbol, rs_finish, RSApiProofs.run) *)
From Coq Require Import List Arith Bool Lia.
From OFV Require ListAux ITModel ITProofs MLModel DenseSolve RSApi RSApiProofs.
Import ListNotations.

(* ---------------------------------------------------------------------------------------------- *)
(* the order "every entry held by t is held, unchanged, by t'" *)
Definition Stab {A} (t t' : list (option A)) : Prop :=
  forall e x, nth e t None = Some x -> nth e t' None = Some x.

Lemma Stab_refl {A} (t : list (option A)) : Stab t t.
Proof. intros e x Hx. exact Hx. Qed.

Lemma Stab_trans {A} (t1 t2 t3 : list (option A)) : Stab t1 t2 -> Stab t2 t3 -> Stab t1 t3.
Proof. intros H12 H23 e x Hx. apply H23, H12, Hx. Qed.

Lemma Stab_eq {A} (t t' : list (option A)) : t' = t -> Stab t t'.
Proof. intros ->. apply Stab_refl. Qed.

(* the two (identical) list-update functions of the project *)
Lemma it_upd_nth_neq {A} (l : list A) i j x d : i <> j -> nth j (ITModel.upd l i x) d = nth j l d.
Proof. revert i j; induction l as [|h t IH]; intros [|i] [|j] H; simpl; auto; try lia. Qed.

Lemma it_upd_nth_eq {A} (l : list A) i x d : i < length l -> nth i (ITModel.upd l i x) d = x.
Proof. revert i; induction l as [|h t IH]; intros [|i] H; simpl in *; try lia; auto. apply IH; lia. Qed.

Lemma Stab_it_upd {A} (t : list (option A)) c (v : option A) : nth c t None = None -> Stab t (ITModel.upd t c v).
Proof.
  intros Hc e x Hx. destruct (Nat.eq_dec c e) as [E|E].
  - subst e. rewrite Hc in Hx. discriminate.
  - rewrite it_upd_nth_neq by exact E. exact Hx.
Qed.

Lemma Stab_la_upd {A} (t : list (option A)) c (v : option A) : nth c t None = None -> Stab t (ListAux.upd t c v).
Proof.
  intros Hc e x Hx. destruct (Nat.eq_dec c e) as [E|E].
  - subst e. rewrite Hc in Hx. discriminate.
  - rewrite ListAux.nth_upd_neq by exact E. exact Hx.
Qed.

(* ============================================================================================== *)
(* Part A - the LDPC streaming decoder                                                             *)
(* ============================================================================================== *)
Section PartA.
Import ITModel.
Variable Sy : Type. Variable sxor : Sy -> Sy -> Sy. Variable s0 : Sy.
Notation st := (st Sy).

Lemma step2_row_tab (s : st) c v row : tab (fst (step2_row sxor s0 s c v row)) = tab s.
Proof.
  unfold step2_row.
  destruct (match nth row (ct s) None with
            | Some t => Some t
            | None => if getn (unk s) row - 1 =? 1 then Some s0 else None end); reflexivity.
Qed.

Lemma step2_fold_tab c v (l : list nat) : forall (s : st) (L : list nat),
  tab (fst (fold_left (fun '(s, L) row => let '(s', rdy) := step2_row sxor s0 s c v row in
                                          (s', if rdy then L ++ [row] else L)) l (s, L))) = tab s.
Proof.
  induction l as [|row l IH]; intros s L; [reflexivity|].
  cbn [fold_left]. pose proof (step2_row_tab s c v row) as Hr.
  destruct (step2_row sxor s0 s c v row) as [s1 rdy]. cbn [fst] in Hr.
  rewrite IH. exact Hr.
Qed.

Lemma step2_tab (s : st) c v : tab (fst (step2 sxor s0 s c v)) = tab s.
Proof. unfold step2. apply step2_fold_tab. Qed.

Lemma is_complete_tab (s : st) : tab (snd (is_complete s)) = tab s.
Proof. reflexivity. Qed.

Lemma consume_tab (s : st) row : tab (consume s row) = tab s.
Proof. reflexivity. Qed.

Definition TabContract (dec : st -> nat -> Sy -> option st) : Prop :=
  forall s c v s', dec s c v = Some s' -> Stab (tab s) (tab s').

Lemma step3_tab dec : TabContract dec -> forall (L : list nat) (s s' : st),
  step3 dec L s = Some s' -> Stab (tab s) (tab s').
Proof.
  intros Hdec. induction L as [|row L IH]; intros s s' H.
  - cbn [step3] in H. injection H as <-. apply Stab_refl.
  - cbn [step3] in H. pose proof (is_complete_tab s) as Ht.
    destruct (is_complete s) as [cf s1]. cbn [snd] in Ht.
    destruct cf.
    + injection H as <-. apply Stab_eq. exact Ht.
    + apply (Stab_trans _ (tab s1)); [apply Stab_eq; exact Ht|].
      destruct (getn (enc s1) row =? 1).
      * destruct (nth row (rws s1) []) as [|cc [|cc2 rest]]; try discriminate.
        destruct (nth row (ct s1) None) as [t|]; try discriminate.
        destruct (dec (consume s1 row) cc t) as [s2|] eqn:Hd; try discriminate.
        apply (Stab_trans _ (tab s2)).
        -- apply Hdec in Hd. rewrite consume_tab in Hd. exact Hd.
        -- apply IH. exact H.
      * apply IH. exact H.
Qed.

Lemma decode_unfold' fuel (s : st) c v : decode sxor s0 (S fuel) s c v =
  if known s c then Some s else
  let s1 := set_tab s c v in
  let early := if r s1 <=? c then is_complete s1 else (false, s1) in
  if fst early then Some (snd early) else
  let '(s2, L) := step2 sxor s0 (snd early) c v in step3 (decode sxor s0 fuel) (rev L) s2.
Proof. reflexivity. Qed.

Lemma known_false_nth (s : st) c : known s c = false -> nth c (tab s) None = None.
Proof. unfold known. destruct (nth c (tab s) None); [discriminate|reflexivity]. Qed.

(* after the table write, nothing of the table changes any more except through nested decodes *)
Lemma decode_tail_tab fuel (s1 : st) c v s' :
  TabContract (decode sxor s0 fuel) ->
  (let early := if r s1 <=? c then is_complete s1 else (false, s1) in
   if fst early then Some (snd early) else
   let '(s2, L) := step2 sxor s0 (snd early) c v in step3 (decode sxor s0 fuel) (rev L) s2) = Some s' ->
  Stab (tab s1) (tab s').
Proof.
  intros IH H. cbv zeta in H.
  assert (He : tab (snd (if r s1 <=? c then is_complete s1 else (false, s1))) = tab s1)
    by (destruct (r s1 <=? c); reflexivity).
  destruct (if r s1 <=? c then is_complete s1 else (false, s1)) as [cf se]. cbn [fst snd] in *.
  destruct cf.
  - injection H as <-. apply Stab_eq. exact He.
  - pose proof (step2_tab se c v) as H2.
    destruct (step2 sxor s0 se c v) as [s2 L]. cbn [fst] in H2.
    apply (step3_tab _ IH) in H.
    apply (Stab_trans _ (tab s2)); [|exact H]. apply Stab_eq. congruence.
Qed.

Lemma decode_tab_contract : forall fuel, TabContract (decode sxor s0 fuel).
Proof.
  induction fuel as [|fuel IH]; intros s c v s' H.
  - discriminate.
  - rewrite decode_unfold' in H. destruct (known s c) eqn:Hk.
    + injection H as <-. apply Stab_refl.
    + cbv zeta in H. apply (decode_tail_tab fuel (set_tab s c v) c v s' IH) in H.
      apply (Stab_trans _ (tab (set_tab s c v))); [|exact H].
      unfold set_tab. cbn [tab]. apply Stab_it_upd. apply known_false_nth. exact Hk.
Qed.

(* A1 *)
Theorem decode_tab_stable_sec : forall fuel (s : st) c v s', decode sxor s0 fuel s c v = Some s' ->
  forall e x, nth e (tab s) None = Some x -> nth e (tab s') None = Some x.
Proof. intros fuel s c v s' H. exact (decode_tab_contract fuel s c v s' H). Qed.

(* A3 *)
Theorem decode_stores_submitted_sec : forall fuel (s : st) c v s', decode sxor s0 fuel s c v = Some s' ->
  c < length (tab s) -> nth c (tab s) None = None -> nth c (tab s') None = Some v.
Proof.
  intros [|fuel] s c v s' H Hc Hn; [discriminate|].
  rewrite decode_unfold' in H. unfold known at 1 in H. rewrite Hn in H. cbv zeta in H.
  apply (decode_tail_tab fuel (set_tab s c v) c v s' (decode_tab_contract fuel)) in H.
  apply H. unfold set_tab. cbn [tab]. apply it_upd_nth_eq. exact Hc.
Qed.

(* histories *)
Lemma fold_none fuel (h : list (nat * Sy)) :
  fold_left (fun os ev => match os with Some s => decode sxor s0 fuel s (fst ev) (snd ev) | None => None end)
            h None = None.
Proof. induction h as [|ev h IH]; [reflexivity|exact IH]. Qed.

Lemma fold_tab_stable fuel : forall (h : list (nat * Sy)) (s1 s2 : st),
  fold_left (fun os ev => match os with Some s => decode sxor s0 fuel s (fst ev) (snd ev) | None => None end)
            h (Some s1) = Some s2 -> Stab (tab s1) (tab s2).
Proof.
  induction h as [|ev h IH]; intros s1 s2 H.
  - injection H as <-. apply Stab_refl.
  - cbn [fold_left] in H. destruct (decode sxor s0 fuel s1 (fst ev) (snd ev)) as [sm|] eqn:Hd.
    + apply (Stab_trans _ (tab sm)); [exact (decode_tab_contract fuel _ _ _ _ Hd)|apply IH; exact H].
    + rewrite fold_none in H. discriminate.
Qed.
End PartA.

(* A1 *)
Theorem decode_tab_stable (Sy : Type) (sxor : Sy -> Sy -> Sy) (s0 : Sy) :
  forall fuel (s : ITModel.st Sy) c v s', ITModel.decode sxor s0 fuel s c v = Some s' ->
  forall e x, nth e (ITModel.tab s) None = Some x -> nth e (ITModel.tab s') None = Some x.
Proof. exact (decode_tab_stable_sec Sy sxor s0). Qed.

(* A2 *)
Theorem run_tab_stable (Sy : Type) (sxor : Sy -> Sy -> Sy) (s0 : Sy) (H0 : list (list nat)) (R0 N0 : nat) :
  forall fuel (h1 h2 : list (nat * Sy)) (s1 s2 : ITModel.st Sy),
  ITProofs.run Sy sxor s0 H0 R0 N0 fuel h1 = Some s1 ->
  ITProofs.run Sy sxor s0 H0 R0 N0 fuel (h1 ++ h2) = Some s2 ->
  forall e x, nth e (ITModel.tab s1) None = Some x -> nth e (ITModel.tab s2) None = Some x.
Proof.
  intros fuel h1 h2 s1 s2 H1 H2. unfold ITProofs.run in *. rewrite fold_left_app, H1 in H2.
  exact (fold_tab_stable Sy sxor s0 fuel h2 s1 s2 H2).
Qed.

(* A3 *)
Theorem decode_stores_submitted (Sy : Type) (sxor : Sy -> Sy -> Sy) (s0 : Sy) :
  forall fuel (s : ITModel.st Sy) c v s', ITModel.decode sxor s0 fuel s c v = Some s' ->
  c < length (ITModel.tab s) -> nth c (ITModel.tab s) None = None -> nth c (ITModel.tab s') None = Some v.
Proof. exact (decode_stores_submitted_sec Sy sxor s0). Qed.

(* ============================================================================================== *)
(* Part B - the ML finish                                                                          *)
(* ============================================================================================== *)
Section PartB.
Import ITModel MLModel.
Variable Sy : Type. Variable sxor : Sy -> Sy -> Sy. Variable s0 : Sy.
Notation st := (st Sy).

(* the body of the row loop of simplify, with the recursive call abstracted *)
Definition srow (rec : st -> nat -> Sy -> option st) (c : nat) (v : Sy) (os : option st) (row : nat) : option st :=
  match os with None => None | Some s =>
    let t := match nth row (ct s) None with None => v | Some t => sxor t v end in
    let u := getn (unk s) row - 1 in
    let rw := rm c (nth row (rws s) []) in
    let s1 := set_row s row rw u (Some t) in
    if u =? 1 then
      match rw with
      | c' :: _ =>
        match nth c' (tab s1) None with
        | Some _ => Some s1
        | None => rec (set_tab (set_row s1 row (rm c' rw) (u - 1) None) c' t) c' t
        end
      | [] => None
      end
    else Some s1
  end.

Lemma simplify_unfold fuel (s : st) c v : simplify sxor (S fuel) s c v =
  match rows_with s c with
  | [] => Some s
  | rowsl =>
    let early := if r s <=? c then is_complete s else (false, s) in
    if fst early then Some (snd early) else
    fold_left (srow (simplify sxor fuel) c v) rowsl (Some (snd early))
  end.
Proof. reflexivity. Qed.

Lemma srow_none rec c v (l : list nat) : fold_left (srow rec c v) l None = None.
Proof. induction l as [|row l IH]; [reflexivity|exact IH]. Qed.

Lemma srow_tab rec c v : TabContract Sy rec -> forall (s : st) row s',
  srow rec c v (Some s) row = Some s' -> Stab (tab s) (tab s').
Proof.
  intros Hrec s row s' H. unfold srow in H. cbv zeta in H.
  destruct (getn (unk s) row - 1 =? 1).
  - destruct (rm c (nth row (rws s) [])) as [|c' rest]; [discriminate|].
    cbn [set_row tab] in H.
    destruct (nth c' (tab s) None) as [w|] eqn:Hc'.
    + injection H as <-. apply Stab_refl.
    + apply Hrec in H. cbn [set_tab set_row tab] in H.
      apply (Stab_trans _ (upd (tab s) c' (Some match nth row (ct s) None with Some t => sxor t v | None => v end)));
        [|exact H].
      apply Stab_it_upd. exact Hc'.
  - injection H as <-. apply Stab_refl.
Qed.

Lemma srow_fold_tab rec c v : TabContract Sy rec -> forall (l : list nat) (s s' : st),
  fold_left (srow rec c v) l (Some s) = Some s' -> Stab (tab s) (tab s').
Proof.
  intros Hrec. induction l as [|row l IH]; intros s s' H.
  - injection H as <-. apply Stab_refl.
  - cbn [fold_left] in H. destruct (srow rec c v (Some s) row) as [sm|] eqn:Hs.
    + apply (Stab_trans _ (tab sm)); [exact (srow_tab rec c v Hrec s row sm Hs)|apply IH; exact H].
    + rewrite srow_none in H. discriminate.
Qed.

Lemma simplify_tab_contract : forall fuel, TabContract Sy (simplify sxor fuel).
Proof.
  induction fuel as [|fuel IH]; intros s c v s' H; [discriminate|].
  rewrite simplify_unfold in H. destruct (rows_with s c) as [|row0 rowsl].
  - injection H as <-. apply Stab_refl.
  - cbv zeta in H.
    assert (He : tab (snd (if r s <=? c then is_complete s else (false, s))) = tab s)
      by (destruct (r s <=? c); reflexivity).
    destruct (if r s <=? c then is_complete s else (false, s)) as [cf se]. cbn [fst snd] in *.
    destruct cf.
    + injection H as <-. apply Stab_eq. exact He.
    + apply (srow_fold_tab _ c v IH) in H. rewrite He in H. exact H.
Qed.

(* B1 *)
Theorem simplify_tab_stable_sec fuel (s : st) c v s' : simplify sxor fuel s c v = Some s' ->
  forall e x, nth e (tab s) None = Some x -> nth e (tab s') None = Some x.
Proof. intros H. exact (simplify_tab_contract fuel s c v s' H). Qed.

Lemma inject_none fuel (l : list nat) : fold_left (inject sxor fuel) l None = None.
Proof. induction l as [|c l IH]; [reflexivity|exact IH]. Qed.

Lemma inject_tab fuel (s : st) c s' : inject sxor fuel (Some s) c = Some s' -> Stab (tab s) (tab s').
Proof.
  unfold inject. destruct (nth c (tab s) None) as [v|].
  - intros H. exact (simplify_tab_contract fuel s c v s' H).
  - intros H. injection H as <-. apply Stab_refl.
Qed.

Lemma inject_fold_tab fuel : forall (l : list nat) (s s' : st),
  fold_left (inject sxor fuel) l (Some s) = Some s' -> Stab (tab s) (tab s').
Proof.
  induction l as [|c l IH]; intros s s' H.
  - injection H as <-. apply Stab_refl.
  - cbn [fold_left] in H. destruct (inject sxor fuel (Some s) c) as [sm|] eqn:Hi.
    + apply (Stab_trans _ (tab sm)); [exact (inject_tab fuel s c sm Hi)|apply IH; exact H].
    + rewrite inject_none in H. discriminate.
Qed.

Lemma write_back_tab : forall (srcs : list nat) (x : list Sy) pos (tb : list (option Sy)),
  Stab tb (write_back s0 srcs x pos tb).
Proof.
  induction srcs as [|c srcs IH]; intros x pos tb; [apply Stab_refl|].
  cbn [write_back]. destruct (nth c tb None) as [w|] eqn:Hc.
  - apply IH.
  - apply (Stab_trans _ (upd tb c (Some (nth pos x s0)))); [apply Stab_it_upd; exact Hc|apply IH].
Qed.

(* B2 *)
Theorem ml_finish_tab_stable_sec fuel perm (s : st) o : ml_finish sxor s0 fuel perm s = Some o ->
  forall e x, nth e (tab s) None = Some x -> nth e (tab (o_st o)) None = Some x.
Proof.
  intros H. change (Stab (tab s) (tab (o_st o))).
  unfold ml_finish in H. cbv zeta in H.
  destruct (fold_left (inject sxor fuel) (map (fun i => r (prepar s) + i) (seq 0 (n s - r s))) (Some (prepar s)))
    as [sa|] eqn:Ha; [|rewrite inject_none in H; discriminate].
  apply inject_fold_tab in Ha. change (tab (prepar s)) with (tab s) in Ha.
  destruct (fold_left (inject sxor fuel) perm (Some sa)) as [sb|] eqn:Hb; [|discriminate].
  apply inject_fold_tab in Hb.
  assert (Hsb : Stab (tab s) (tab sb)) by (exact (Stab_trans _ _ _ Ha Hb)).
  clear Ha Hb.
  assert (Hgive : forall (s1 : st), tab s1 = tab sb ->
            (let '(b, s2) := is_complete s1 in Some {| o_st := s2; o_ok := b; o_solved := false |}) = Some o ->
            Stab (tab s) (tab (o_st o))).
  { intros s1 E1 Hg. unfold is_complete in Hg. injection Hg as <-. cbn [o_st set_fnd tab]. rewrite E1. exact Hsb. }
  match type of H with (if ?c then _ else _) = _ => destruct c end.
  - exact (Hgive sb eq_refl H).
  - match type of H with (let '(b, ct') := ?tk in _) = _ => destruct tk as [b ct'] end.
    cbn [r n rws unk enc ct tab fnd] in H.
    match type of H with match ?sv with Some _ => _ | None => _ end = _ => destruct sv as [xv|] end.
    + injection H as <-. cbn [o_st tab].
      apply (Stab_trans _ (tab sb)); [exact Hsb|apply write_back_tab].
    + refine (Hgive _ _ H). reflexivity.
Qed.
End PartB.

(* B1 *)
Theorem simplify_tab_stable (Sy : Type) (sxor : Sy -> Sy -> Sy) fuel (s : ITModel.st Sy) c v s' :
  MLModel.simplify sxor fuel s c v = Some s' ->
  forall e x, nth e (ITModel.tab s) None = Some x -> nth e (ITModel.tab s') None = Some x.
Proof. exact (simplify_tab_stable_sec Sy sxor fuel s c v s'). Qed.

(* B2 *)
Theorem ml_finish_tab_stable (Sy : Type) (sxor : Sy -> Sy -> Sy) (s0 : Sy) fuel perm (s : ITModel.st Sy) o :
  MLModel.ml_finish sxor s0 fuel perm s = Some o ->
  forall e x, nth e (ITModel.tab s) None = Some x -> nth e (ITModel.tab (MLModel.o_st o)) None = Some x.
Proof. exact (ml_finish_tab_stable_sec Sy sxor s0 fuel perm s o). Qed.

(* ============================================================================================== *)
(* Part C - the Reed-Solomon API                                                                   *)
(* ============================================================================================== *)
Section PartC.
Import ListAux RSApi.
Variable B : Type.
Variable core : nat -> list (option B) -> option (list B).
Variable cb : bool. Variable mk : nat -> B -> B.

Lemma fill_tab : forall (vals : list B) (t : list (option B)) i ev, Stab t (fst (fill cb mk vals t i ev)).
Proof.
  induction vals as [|v vals IH]; intros t i ev; [apply Stab_refl|].
  destruct t as [|e0 t]; [apply Stab_refl|]. cbn [fill]. destruct e0 as [b0|].
  - specialize (IH t (S i) ev). destruct (fill cb mk vals t (S i) ev) as [t2 ev2]. cbn [fst] in *.
    intros [|e] x Hx; [exact Hx|]. cbn [nth] in *. apply IH. exact Hx.
  - specialize (IH t (S i) (if cb then ev ++ [i] else ev)).
    destruct (fill cb mk vals t (S i) (if cb then ev ++ [i] else ev)) as [t2 ev2]. cbn [fst] in *.
    intros [|e] x Hx; [discriminate|]. cbn [nth] in *. apply IH. exact Hx.
Qed.

Lemma rs_finish_Stab (s : rs B) : Stab (tab s) (tab (fst (rs_finish core cb mk s))).
Proof.
  unfold rs_finish. destruct (fin s); [apply Stab_refl|].
  destruct (navail s <? rk s); [apply Stab_refl|].
  destruct (navail_src s =? rk s); [apply Stab_refl|].
  destruct (core (rk s) (tab s)) as [vals|]; [|apply Stab_refl].
  pose proof (fill_tab vals (tab s) 0 (evs s)) as Hf.
  destruct (fill cb mk vals (tab s) 0 (evs s)) as [t2 ev2]. exact Hf.
Qed.

(* the state reached from the state s1 that holds the new symbol *)
Lemma rs_decode_fresh (s : rs B) esi b : fin s = false -> nth esi (tab s) None = None ->
  Stab (upd (tab s) esi (Some b)) (tab (fst (rs_decode_with_new_symbol core cb mk s esi b))).
Proof.
  intros Hf Hn. unfold rs_decode_with_new_symbol. rewrite Hf, Hn. cbn [rk rn tab navail navail_src fin evs].
  match goal with |- context [if ?c then _ else _] => destruct c end; [apply Stab_refl|].
  match goal with |- context [if ?c then _ else _] => destruct c end; [|apply Stab_refl].
  match goal with |- context [rs_finish core cb mk ?s1] =>
    pose proof (rs_finish_Stab s1) as HF; destruct (rs_finish core cb mk s1) as [s2 stt] end.
  cbn [fst tab] in HF. destruct stt; exact HF.
Qed.

Lemma rs_decode_Stab (s : rs B) esi b : Stab (tab s) (tab (fst (rs_decode_with_new_symbol core cb mk s esi b))).
Proof.
  destruct (fin s) eqn:Hf.
  - unfold rs_decode_with_new_symbol. rewrite Hf. apply Stab_refl.
  - destruct (nth esi (tab s) None) as [w|] eqn:Hn.
    + unfold rs_decode_with_new_symbol. rewrite Hf, Hn. apply Stab_refl.
    + apply (Stab_trans _ (upd (tab s) esi (Some b))); [apply Stab_la_upd; exact Hn|apply rs_decode_fresh; assumption].
Qed.

Lemma rs_fold_Stab : forall (h : list (nat * B)) (s : rs B),
  Stab (tab s) (tab (fold_left (RSApiProofs.step B core cb mk) h s)).
Proof.
  induction h as [|ev h IH]; intros s; [apply Stab_refl|].
  cbn [fold_left]. apply (Stab_trans _ (tab (RSApiProofs.step B core cb mk s ev))); [|apply IH].
  unfold RSApiProofs.step. apply rs_decode_Stab.
Qed.
End PartC.

(* C1 *)
Theorem rs_step_tab_stable (B : Type) (core : nat -> list (option B) -> option (list B)) (cb : bool)
  (mk : nat -> B -> B) (s : RSApi.rs B) (esi : nat) (b : B) :
  forall e x, nth e (RSApi.tab s) None = Some x ->
              nth e (RSApi.tab (fst (RSApi.rs_decode_with_new_symbol core cb mk s esi b))) None = Some x.
Proof. exact (rs_decode_Stab B core cb mk s esi b). Qed.

(* C2 *)
Theorem rs_finish_tab_stable (B : Type) (core : nat -> list (option B) -> option (list B)) (cb : bool)
  (mk : nat -> B -> B) (s : RSApi.rs B) :
  forall e x, nth e (RSApi.tab s) None = Some x ->
              nth e (RSApi.tab (fst (RSApi.rs_finish core cb mk s))) None = Some x.
Proof. exact (rs_finish_Stab B core cb mk s). Qed.

(* C3: along a history, and through a final of_finish_decoding *)
Theorem rs_run_tab_stable (B : Type) (core : nat -> list (option B) -> option (list B)) (cb : bool)
  (mk : nat -> B -> B) (k n : nat) (h1 h2 : list (nat * B)) :
  forall e x, nth e (RSApi.tab (RSApiProofs.run B core cb mk k n h1)) None = Some x ->
              nth e (RSApi.tab (RSApiProofs.run B core cb mk k n (h1 ++ h2))) None = Some x.
Proof. unfold RSApiProofs.run. rewrite fold_left_app. apply rs_fold_Stab. Qed.

Theorem rs_run_finish_tab_stable (B : Type) (core : nat -> list (option B) -> option (list B)) (cb : bool)
  (mk : nat -> B -> B) (k n : nat) (h1 h2 : list (nat * B)) :
  forall e x, nth e (RSApi.tab (RSApiProofs.run B core cb mk k n h1)) None = Some x ->
              nth e (RSApi.tab (fst (RSApi.rs_finish core cb mk (RSApiProofs.run B core cb mk k n (h1 ++ h2))))) None = Some x.
Proof.
  intros e x Hx. apply rs_finish_tab_stable. revert Hx. apply rs_run_tab_stable.
Qed.

(* C4: a fresh in-range symbol submitted to a session that is not finished is stored as submitted
   (the very buffer b), whatever else the call does (including the decoding it may trigger) *)
Theorem rs_step_stores_submitted (B : Type) (core : nat -> list (option B) -> option (list B)) (cb : bool)
  (mk : nat -> B -> B) (s : RSApi.rs B) (esi : nat) (b : B) :
  RSApi.fin s = false -> esi < length (RSApi.tab s) -> nth esi (RSApi.tab s) None = None ->
  nth esi (RSApi.tab (fst (RSApi.rs_decode_with_new_symbol core cb mk s esi b))) None = Some b.
Proof.
  intros Hf Hl Hn. apply (rs_decode_fresh B core cb mk s esi b Hf Hn).
  apply ListAux.nth_upd_eq. exact Hl.
Qed.

(* ... and it stays there for the rest of the session *)
Theorem rs_run_keeps_submitted (B : Type) (core : nat -> list (option B) -> option (list B)) (cb : bool)
  (mk : nat -> B -> B) (k n : nat) (h1 h2 : list (nat * B)) (esi : nat) (b : B) :
  let s := RSApiProofs.run B core cb mk k n h1 in
  RSApi.fin s = false -> esi < length (RSApi.tab s) -> nth esi (RSApi.tab s) None = None ->
  nth esi (RSApi.tab (RSApiProofs.run B core cb mk k n (h1 ++ (esi, b) :: h2))) None = Some b.
Proof.
  intros s Hf Hl Hn.
  replace (h1 ++ (esi, b) :: h2) with ((h1 ++ [(esi, b)]) ++ h2) by (rewrite <- app_assoc; reflexivity).
  apply rs_run_tab_stable. unfold RSApiProofs.run. rewrite fold_left_app. cbn [fold_left].
  unfold RSApiProofs.step at 1. cbn [fst snd].
  apply rs_step_stores_submitted; assumption.
Qed.

Print Assumptions decode_tab_stable.
Print Assumptions run_tab_stable.
Print Assumptions decode_stores_submitted.
Print Assumptions simplify_tab_stable.
Print Assumptions ml_finish_tab_stable.
Print Assumptions rs_step_tab_stable.
Print Assumptions rs_finish_tab_stable.
Print Assumptions rs_run_tab_stable.
Print Assumptions rs_run_finish_tab_stable.
Print Assumptions rs_step_stores_submitted.
Print Assumptions rs_run_keeps_submitted.
