From Coq Require Import ZArith Arith List Bool Lia.
From OFV Require Import ListAux CSem Sparse Prng PrngProofs Pchk.
From OFV.gen Require Import GenPrng.
Import ListNotations.

(* the matrix construction does not depend on the PRNG state left behind by earlier sessions,
   as long as the seed is one the generator accepts (1 .. 2^31-2, which set_fec_parameters enforces) *)
Theorem pchk_ignores_global_state_proof fuel k r n1 (seed g g' : Z) :
  (1 <= seed <= PM_P - 1)%Z -> pchk fuel k r n1 seed g = pchk fuel k r n1 seed g'.
Proof.
  intros Hs. unfold pchk. destruct (r <? n1); [reflexivity|].
  rewrite !srand_range_proof by (unfold PM_P in *; lia).
  destruct (Z.leb_spec 1 seed), (Z.leb_spec seed (PM_P - 1)); simpl; try lia. reflexivity.
Qed.

(* with a refused seed the construction starts from whatever state is there: the dependency on the
   history is real in that case (this is why C09 requires refused seeds to be rejected) *)
Example pchk_depends_on_state_for_refused_seed :
  pchk 50 4 3 3 0 1 <> pchk 50 4 3 3 0 12345.
Proof. vm_compute. discriminate. Qed.
