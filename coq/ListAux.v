From Coq Require Import List Arith Lia.
Import ListNotations.

Fixpoint upd {A} (l : list A) (i : nat) (x : A) : list A :=
  match l, i with [], _ => [] | _ :: t, O => x :: t | h :: t, S j => h :: upd t j x end.

Lemma upd_length {A} (l:list A) i x : length (upd l i x) = length l.
Proof. revert i; induction l as [|h t IH]; intros [|i]; simpl; auto. Qed.
Lemma nth_upd_eq {A} (l:list A) i x d : i < length l -> nth i (upd l i x) d = x.
Proof. revert i; induction l as [|h t IH]; intros [|i] H; simpl in *; try lia; auto. apply IH; lia. Qed.
Lemma nth_upd_neq {A} (l:list A) i j x d : i <> j -> nth j (upd l i x) d = nth j l d.
Proof. revert i j; induction l as [|h t IH]; intros [|i] [|j] H; simpl; auto; try lia. Qed.
