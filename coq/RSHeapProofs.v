(* Ownership ledger of a Reed-Solomon decoder session (C08): the model RSHeap.v is never stuck (no double or
   invalid free), the live library blocks are at every moment exactly the codec context plus the blocks handed to
   the application as decoded source symbols, and release leaves exactly the latter. *)
From Coq Require Import List Arith Bool Lia Permutation.
From OFV Require Import ListAux RSApi RSRun LdpcHeap LdpcHeapProofs RSHeap.
Import ListNotations.

Definition RInv (s : rsh) : Prop :=
  NoDup (ctxb s ++ given s) /\ (forall b, In b (live (rhp s)) <-> In b (ctxb s ++ given s)) /\
  NoDup (live (rhp s)) /\ (forall b, In b (live (rhp s)) -> b < nxt (rhp s)).

(* ---- well-formed heaps ---- *)
Definition HW (h : heap) : Prop := NoDup (live h) /\ (forall b, In b (live h) -> b < nxt h).

Lemma halloc_spec (h : heap) : HW h ->
  HW (fst (halloc h)) /\ ~ In (snd (halloc h)) (live h) /\
  (forall b, In b (live (fst (halloc h))) <-> b = snd (halloc h) \/ In b (live h)) /\
  nxt h <= nxt (fst (halloc h)).
Proof.
  intros [Hn Hb]. unfold halloc, HW. cbn [fst snd live nxt].
  assert (Hfresh : ~ In (nxt h) (live h)) by (intros Hin; apply Hb in Hin; lia).
  split; [split|split; [exact Hfresh|split]].
  - constructor; [exact Hfresh|exact Hn].
  - intros b [E|Hin]; [lia|apply Hb in Hin; lia].
  - intros b. split; (intros [E|Hin]; [left; congruence|right; exact Hin]).
  - lia.
Qed.

Lemma alloc_n_spec : forall m (h : heap) l h', HW h -> alloc_n m h = (l, h') ->
  HW h' /\ NoDup l /\ (forall b, In b l -> ~ In b (live h)) /\
  (forall b, In b (live h') <-> In b l \/ In b (live h)) /\ length l = m.
Proof.
  induction m as [|m IH]; intros h l h' Hw E.
  - cbn [alloc_n] in E. inversion E; subst. split; [exact Hw|]. split; [constructor|].
    split; [intros b []|]. split; [|reflexivity]. intros b. split; [intros Hb; right; exact Hb|intros [[]|Hb]; exact Hb].
  - cbn [alloc_n] in E. destruct (halloc_spec h Hw) as (Hw1 & Hf1 & Hl1 & _).
    destruct (halloc h) as [h1 b0] eqn:Eh. cbn [fst snd] in *.
    destruct (alloc_n m h1) as [l2 h2] eqn:E2. inversion E; subst l h'.
    destruct (IH h1 l2 h2 Hw1 E2) as (Hw2 & Hn2 & Hd2 & Hl2 & Hlen).
    split; [exact Hw2|]. split; [|split; [|split]].
    + constructor; [|exact Hn2]. intros Hin. apply (Hd2 _ Hin). apply Hl1. left. reflexivity.
    + intros b [Eb|Hin] Hlive.
      * subst b. exact (Hf1 Hlive).
      * apply (Hd2 _ Hin). apply Hl1. right. exact Hlive.
    + intros b. rewrite Hl2, Hl1. cbn [In]. split.
      * intros [Hb|[Hb|Hb]]; [left; right; exact Hb|left; left; symmetry; exact Hb|right; exact Hb].
      * intros [[Hb|Hb]|Hb]; [right; left; symmetry; exact Hb|left; exact Hb|right; right; exact Hb].
    + cbn [length]. rewrite Hlen. reflexivity.
Qed.

(* freeing a duplicate-free list of live blocks *)
Lemma free_all_set (bs : list nat) (h : heap) : HW h -> NoDup bs -> (forall b, In b bs -> In b (live h)) ->
  exists h', free_all bs h = Some h' /\ HW h' /\ nxt h' = nxt h /\
             (forall b, In b (live h') <-> In b (live h) /\ ~ In b bs).
Proof.
  intros [Hn Hb] Hnb Hsub.
  set (m := filter (fun x => negb (existsb (Nat.eqb x) bs)) (live h)).
  assert (Hm : forall x, In x m <-> In x (live h) /\ ~ In x bs).
  { intros x. unfold m. rewrite filter_In, negb_true_iff. split.
    - intros [H1 H2]. split; [exact H1|]. intros Hin. apply existsb_eqb_in in Hin. congruence.
    - intros [H1 H2]. split; [exact H1|]. destruct (existsb (Nat.eqb x) bs) eqn:E; [|reflexivity].
      apply existsb_eqb_in in E. contradiction. }
  assert (Hp : Permutation (live h) (bs ++ m)).
  { apply NoDup_Permutation; [exact Hn| |].
    - apply NoDup_app_intro; [exact Hnb|apply NoDup_filter; exact Hn|]. intros x Hx Hxm. apply Hm in Hxm. tauto.
    - intros x. rewrite in_app_iff, Hm. split.
      + intros Hx. destruct (in_dec Nat.eq_dec x bs) as [Hi|Hi]; [left; exact Hi|right; split; assumption].
      + intros [Hx|[Hx _]]; [apply Hsub; exact Hx|exact Hx]. }
  destruct (free_all_spec bs h m Hn Hp) as (h' & E & P & N & X).
  exists h'. split; [exact E|].
  assert (Hl : forall b, In b (live h') <-> In b (live h) /\ ~ In b bs).
  { intros b. rewrite <- Hm. split; [apply (Permutation_in _ P)|apply (Permutation_in _ (Permutation_sym P))]. }
  split; [split; [exact N|]|split; [exact X|exact Hl]].
  intros b Hin. rewrite X. apply Hb. apply Hl in Hin. tauto.
Qed.

Lemma RInv_HW s : RInv s -> HW (rhp s).
Proof. intros (_ & _ & Hn & Hb). split; assumption. Qed.

Lemma NoDup_app_l {A : Type} (a b : list A) : NoDup (a ++ b) -> NoDup a.
Proof.
  induction a as [|x a IH]; intros H; [constructor|].
  cbn [app] in H. inversion H as [|x' l' Hn Hr]; subst. constructor.
  - intros Hin. apply Hn. apply in_or_app. left. exact Hin.
  - apply IH. exact Hr.
Qed.

Lemma NoDup_app_r {A : Type} (a b : list A) : NoDup (a ++ b) -> NoDup b.
Proof.
  induction a as [|x a IH]; intros H; [exact H|].
  cbn [app] in H. inversion H; subst. apply IH. assumption.
Qed.

Lemma NoDup_app_disj {A : Type} (a b : list A) : NoDup (a ++ b) -> forall x, In x a -> ~ In x b.
Proof.
  induction a as [|y a IH]; intros H x Hx; [destruct Hx|].
  cbn [app] in H. inversion H as [|y' l' Hn Hr]; subst. destruct Hx as [E|Hx].
  - subst y. intros Hb. apply Hn. apply in_or_app. right. exact Hb.
  - apply IH; assumption.
Qed.

(* ============================================================================================== *)
(* R1                                                                                              *)
(* ============================================================================================== *)
Theorem rsh_init_inv k n : RInv (rsh_init k n).
Proof.
  unfold RInv, rsh_init. cbn [ctxb given rhp api app]. unfold h_empty. cbn [live nxt].
  split; [constructor|]. split; [intros b; split; intros []|]. split; [constructor|intros b []].
Qed.

(* ============================================================================================== *)
(* R2                                                                                              *)
(* ============================================================================================== *)
Section OPS.
Variable ctxn : nat.
Variable keep : bool.
Variable cbf : nat -> bool.
Variable cb : bool.

(* creating the context when there is none *)
Lemma ctx_create_inv s l h : RInv s -> ctxb s = [] -> alloc_n ctxn (rhp s) = (l, h) ->
  RInv {| api := api s; ctxb := l; given := given s; rhp := h; rncb := rncb s |}.
Proof.
  intros HI Ec Ea. pose proof (RInv_HW s HI) as Hw. destruct HI as (Hnd & Hiff & _ & _).
  rewrite Ec in Hnd, Hiff. cbn [app] in Hnd, Hiff.
  destruct (alloc_n_spec ctxn (rhp s) l h Hw Ea) as ([Hn' Hb'] & Hnl & Hdl & Hl & _).
  unfold RInv. cbn [ctxb given rhp].
  split; [|split; [|split; [exact Hn'|exact Hb']]].
  - apply NoDup_app_intro; [exact Hnl|exact Hnd|]. intros x Hx Hg. apply (Hdl x Hx). apply Hiff. exact Hg.
  - intros b. rewrite Hl, in_app_iff, Hiff. tauto.
Qed.

Theorem rsh_build_inv s : RInv s -> RInv (rsh_build ctxn s).
Proof.
  intros HI. unfold rsh_build. destruct (ctxb s) as [|c0 cl] eqn:Ec; [|exact HI].
  destruct (alloc_n ctxn (rhp s)) as [l h] eqn:Ea. exact (ctx_create_inv s l h HI Ec Ea).
Qed.

Lemma rsh_build_given s : given (rsh_build ctxn s) = given s.
Proof.
  unfold rsh_build. destruct (ctxb s) as [|c0 cl]; [|reflexivity].
  destruct (alloc_n ctxn (rhp s)) as [l h]. reflexivity.
Qed.

(* the context around a decoding: never stuck, invariant kept, nothing else changes *)
Lemma ctx_decode_inv s : RInv s ->
  exists s1, ctx_decode ctxn keep s = Some s1 /\ RInv s1 /\ given s1 = given s /\ rncb s1 = rncb s /\ api s1 = api s.
Proof.
  intros HI. unfold ctx_decode. destruct keep.
  - destruct (ctxb s) as [|c0 cl] eqn:Ec.
    + destruct (alloc_n ctxn (rhp s)) as [l h] eqn:Ea. eexists. split; [reflexivity|].
      split; [exact (ctx_create_inv s l h HI Ec Ea)|]. cbn [given rncb api]. repeat split.
    + exists s. split; [reflexivity|]. split; [exact HI|]. repeat split.
  - pose proof (RInv_HW s HI) as Hw. destruct HI as (Hnd & Hiff & _ & _).
    destruct (free_all_set (ctxb s) (rhp s) Hw (NoDup_app_l _ _ Hnd)) as (h & Eh & Hwh & _ & Hlh).
    { intros b Hb. apply Hiff. apply in_or_app. left. exact Hb. }
    rewrite Eh.
    assert (Hgh : forall b, In b (live h) <-> In b (given s)).
    { intros b. rewrite Hlh, Hiff, in_app_iff. split.
      - intros [[H1|H1] H2]; [contradiction|exact H1].
      - intros Hg. split; [right; exact Hg|]. intros Hc. exact (NoDup_app_disj _ _ Hnd b Hc Hg). }
    destruct (alloc_n ctxn h) as [l h1] eqn:Ea.
    destruct (alloc_n_spec ctxn h l h1 Hwh Ea) as (Hw1 & Hnl & Hdl & Hl1 & _).
    destruct (free_all_set l h1 Hw1 Hnl) as (h2 & E2 & [Hn2 Hb2] & _ & Hl2).
    { intros b Hb. apply Hl1. left. exact Hb. }
    rewrite E2. eexists. split; [reflexivity|]. cbn [given rncb api]. split; [|repeat split].
    unfold RInv. cbn [ctxb given rhp app].
    split; [exact (NoDup_app_r _ _ Hnd)|]. split; [|split; [exact Hn2|exact Hb2]].
    intros b. rewrite Hl2, Hl1, Hgh. split.
    + intros [[H1|H1] H2]; [contradiction|exact H1].
    + intros Hg. split; [right; exact Hg|]. intros Hc. apply (Hdl b Hc). apply Hgh. exact Hg.
Qed.

(* number of filled source entries whose callback returns no buffer *)
Fixpoint filled_nocb (old new : list (option bool)) (nc : nat) : nat :=
  match old, new with
  | o :: old', nw :: new' =>
      match o, nw with
      | None, Some _ => (if cbf nc then 0 else 1) + filled_nocb old' new' (S nc)
      | _, _ => filled_nocb old' new' nc
      end
  | _, _ => 0
  end.

(* number of source entries the decoding filled *)
Fixpoint filled (old new : list (option bool)) : nat :=
  match old, new with
  | o :: old', nw :: new' =>
      match o, nw with
      | None, Some _ => S (filled old' new')
      | _, _ => filled old' new'
      end
  | _, _ => 0
  end.

Lemma give_spec : forall (old new : list (option bool)) g (h : heap) nc g' h' nc',
  HW h -> give cbf old new g h nc = (g', h', nc') ->
  HW h' /\ nc' = nc + filled old new /\
  exists add, g' = add ++ g /\ NoDup add /\ (forall b, In b add -> ~ In b (live h)) /\
              (forall b, In b (live h') <-> In b add \/ In b (live h)) /\
              length add = filled_nocb old new nc.
Proof.
  induction old as [|o old IH]; intros new g h nc g' h' nc' Hw E.
  - cbn [give] in E. inversion E; subst. split; [exact Hw|]. split; [cbn [filled]; lia|].
    exists []. split; [reflexivity|]. split; [constructor|]. split; [intros b []|]. split; [|reflexivity].
    intros b. split; [intros Hb; right; exact Hb|intros [[]|Hb]; exact Hb].
  - destruct new as [|nw new].
    + cbn [give] in E. inversion E; subst. split; [exact Hw|]. split; [cbn [filled]; lia|].
      exists []. split; [reflexivity|]. split; [constructor|]. split; [intros b []|]. split; [|reflexivity].
      intros b. split; [intros Hb; right; exact Hb|intros [[]|Hb]; exact Hb].
    + cbn [give filled filled_nocb] in *.
      destruct o as [ov|]; [exact (IH new g h nc g' h' nc' Hw E)|].
      destruct nw as [nv|]; [|exact (IH new g h nc g' h' nc' Hw E)].
      destruct (cbf nc) eqn:Ecb.
      * destruct (IH new g h (S nc) g' h' nc' Hw E) as (Hw' & Enc & add & Eg & Hna & Hda & Hla & Hlen).
        split; [exact Hw'|]. split; [lia|]. exists add. repeat split; try assumption; apply Hla.
      * destruct (halloc_spec h Hw) as (Hw1 & Hf1 & Hl1 & _).
        destruct (halloc h) as [h1 b0] eqn:Eh. cbn [fst snd] in *.
        destruct (IH new (b0 :: g) h1 (S nc) g' h' nc' Hw1 E) as (Hw' & Enc & add & Eg & Hna & Hda & Hla & Hlen).
        split; [exact Hw'|]. split; [lia|]. exists (add ++ [b0]).
        split; [rewrite <- app_assoc; exact Eg|]. split; [|split; [|split]].
        -- apply NoDup_app_intro; [exact Hna|constructor; [intros []|constructor]|].
           intros x Hx [Ex|[]]. subst x. apply (Hda b0 Hx). apply Hl1. left. reflexivity.
        -- intros b Hb Hlive. apply in_app_or in Hb. destruct Hb as [Hb|[Hb|[]]].
           ++ apply (Hda b Hb). apply Hl1. right. exact Hlive.
           ++ subst b. exact (Hf1 Hlive).
        -- intros b. rewrite Hla, Hl1, in_app_iff. cbn [In]. split.
           ++ intros [Hb|[Hb|Hb]]; [left; left; exact Hb|left; right; left; symmetry; exact Hb|right; exact Hb].
           ++ intros [[Hb|[Hb|[]]]|Hb]; [left; exact Hb|right; left; symmetry; exact Hb|right; right; exact Hb].
        -- rewrite app_length, Hlen. cbn [length]. lia.
Qed.

(* R5: the number of blocks one decoding adds *)
Theorem give_length old new g h nc :
  length (fst (fst (give cbf old new g h nc))) = length g + filled_nocb old new nc.
Proof.
  revert new g h nc. induction old as [|o old IH]; intros new g h nc; [cbn [give fst filled_nocb length]; lia|].
  destruct new as [|nw new]; [cbn [give fst filled_nocb length]; lia|].
  cbn [give filled_nocb]. destruct o as [ov|]; [apply IH|]. destruct nw as [nv|]; [|apply IH].
  destruct (cbf nc).
  - rewrite IH. lia.
  - destruct (halloc h) as [h1 b0]. rewrite IH. cbn [length]. lia.
Qed.

Theorem give_ncb old new g h nc : snd (give cbf old new g h nc) = nc + filled old new.
Proof.
  revert new g h nc. induction old as [|o old IH]; intros new g h nc; [cbn [give snd filled]; lia|].
  destruct new as [|nw new]; [cbn [give snd filled]; lia|].
  cbn [give filled]. destruct o as [ov|]; [apply IH|]. destruct nw as [nv|]; [|apply IH].
  destruct (cbf nc).
  - rewrite IH. lia.
  - destruct (halloc h) as [h1 b0]. rewrite IH. lia.
Qed.

(* the blocks already given stay, in place, at the end of the list *)
Theorem give_grows old new g h nc : exists add, fst (fst (give cbf old new g h nc)) = add ++ g.
Proof.
  revert new g h nc. induction old as [|o old IH]; intros new g h nc; [exists []; reflexivity|].
  destruct new as [|nw new]; [exists []; reflexivity|].
  cbn [give]. destruct o as [ov|]; [apply IH|]. destruct nw as [nv|]; [|apply IH].
  destruct (cbf nc); [apply IH|].
  destruct (halloc h) as [h1 b0]. destruct (IH new (b0 :: g) h1 (S nc)) as (add & E).
  exists (add ++ [b0]). rewrite <- app_assoc. exact E.
Qed.

(* one API step: never stuck, invariant kept, given only grows *)
Lemma rsh_after_main s old a' : RInv s ->
  exists s', rsh_after ctxn keep cbf s old a' = Some s' /\ RInv s' /\ api s' = a' /\
             (exists add, given s' = add ++ given s) /\
             length (given s') = length (given s) +
               (if decoded_now (api s) a'
                then filled_nocb (firstn (rk (api s)) old) (firstn (rk (api s)) (RSApi.tab a')) (rncb s)
                else 0).
Proof.
  intros HI. unfold rsh_after. destruct (decoded_now (api s) a').
  - destruct (ctx_decode_inv s HI) as (s1 & E1 & HI1 & Eg1 & En1 & Ea1). rewrite E1.
    pose proof (RInv_HW s1 HI1) as Hw1. destruct HI1 as (Hnd1 & Hiff1 & _ & _).
    destruct (give cbf (firstn (rk (api s)) old) (firstn (rk (api s)) (RSApi.tab a')) (given s1) (rhp s1) (rncb s1))
      as [[g h] nc] eqn:Eg.
    destruct (give_spec _ _ _ _ _ _ _ _ Hw1 Eg) as ([Hn' Hb'] & _ & add & Egg & Hna & Hda & Hla & Hlen).
    eexists. split; [reflexivity|]. cbn [api given]. split; [|split; [reflexivity|split]].
    + unfold RInv. cbn [ctxb given rhp]. subst g.
      assert (Hdisj : forall x, In x add -> ~ In x (ctxb s1 ++ given s1)).
      { intros x Hx Hc. apply (Hda x Hx). apply Hiff1. exact Hc. }
      split; [|split; [|split; [exact Hn'|exact Hb']]].
      * apply NoDup_app_intro; [exact (NoDup_app_l _ _ Hnd1)| |].
        -- apply NoDup_app_intro; [exact Hna|exact (NoDup_app_r _ _ Hnd1)|].
           intros x Hx Hg. apply (Hdisj x Hx). apply in_or_app. right. exact Hg.
        -- intros x Hx Hag. apply in_app_or in Hag. destruct Hag as [Ha|Hg].
           ++ apply (Hdisj x Ha). apply in_or_app. left. exact Hx.
           ++ exact (NoDup_app_disj _ _ Hnd1 x Hx Hg).
      * intros b. rewrite Hla, Hiff1, !in_app_iff. tauto.
    + exists add. rewrite <- Eg1. exact Egg.
    + rewrite Egg, app_length, Hlen, Eg1, En1. lia.
  - eexists. split; [reflexivity|]. cbn [api given]. split; [exact HI|]. split; [reflexivity|].
    split; [exists []; reflexivity|lia].
Qed.

Theorem rsh_after_inv s old a' : RInv s -> exists s', rsh_after ctxn keep cbf s old a' = Some s' /\ RInv s'.
Proof. intros HI. destruct (rsh_after_main s old a' HI) as (s' & E & HI' & _). exists s'. split; assumption. Qed.

Theorem rsh_submit_inv s esi : RInv s -> exists s', rsh_submit ctxn keep cbf cb s esi = Some s' /\ RInv s'.
Proof. intros HI. unfold rsh_submit. apply rsh_after_inv. exact HI. Qed.

Theorem rsh_set_available_inv s t : RInv s -> exists s', rsh_set_available ctxn keep cbf s t = Some s' /\ RInv s'.
Proof. intros HI. unfold rsh_set_available. apply rsh_after_inv. exact HI. Qed.

Theorem rsh_finish_inv s : RInv s -> exists s', rsh_finish ctxn keep cbf cb s = Some s' /\ RInv s'.
Proof. intros HI. unfold rsh_finish. apply rsh_after_inv. exact HI. Qed.

(* ============================================================================================== *)
(* R3                                                                                              *)
(* ============================================================================================== *)
Theorem rsh_release_spec s : RInv s ->
  exists h, rsh_release s = Some h /\ (forall b, In b (live h) <-> In b (given s)) /\ NoDup (live h).
Proof.
  intros HI. pose proof (RInv_HW s HI) as Hw. destruct HI as (Hnd & Hiff & _ & _). unfold rsh_release.
  destruct (free_all_set (ctxb s) (rhp s) Hw (NoDup_app_l _ _ Hnd)) as (h & Eh & [Hnh _] & _ & Hlh).
  { intros b Hb. apply Hiff. apply in_or_app. left. exact Hb. }
  exists h. split; [exact Eh|]. split; [|exact Hnh].
  intros b. rewrite Hlh, Hiff, in_app_iff. split.
  - intros [[H1|H1] H2]; [contradiction|exact H1].
  - intros Hg. split; [right; exact Hg|]. intros Hc. exact (NoDup_app_disj _ _ Hnd b Hc Hg).
Qed.

(* releasing twice is impossible to express on the heap alone (release returns the heap, the session is gone);
   what can be said: after release none of the context blocks is live any more, so a second free of any of them
   would be stuck *)
Theorem rsh_release_ctx_dead s h b : RInv s -> rsh_release s = Some h -> In b (ctxb s) -> hfree h b = None.
Proof.
  intros HI E Hb. destruct (rsh_release_spec s HI) as (h0 & E0 & Hl & _). rewrite E in E0. inversion E0; subst h0.
  unfold hfree. destruct (hmem b h) eqn:Em; [|reflexivity].
  unfold hmem in Em. apply existsb_eqb_in in Em. apply Hl in Em.
  destruct HI as (Hnd & _). exfalso. exact (NoDup_app_disj _ _ Hnd b Hb Em).
Qed.

(* ============================================================================================== *)
(* R4                                                                                              *)
(* ============================================================================================== *)
Inductive rsop := RBuild | RSubmit (esi : nat) | RSetAvail (t : list (option bool)) | RFinish.

Definition rsh_op (s : rsh) (o : rsop) : option rsh :=
  match o with
  | RBuild => Some (rsh_build ctxn s)
  | RSubmit esi => rsh_submit ctxn keep cbf cb s esi
  | RSetAvail t => rsh_set_available ctxn keep cbf s t
  | RFinish => rsh_finish ctxn keep cbf cb s
  end.

Fixpoint rsh_run (s : rsh) (ops : list rsop) : option rsh :=
  match ops with
  | [] => Some s
  | o :: rest => match rsh_op s o with None => None | Some s' => rsh_run s' rest end
  end.

Theorem rsh_op_inv s o : RInv s -> exists s', rsh_op s o = Some s' /\ RInv s'.
Proof.
  intros HI. destruct o as [|esi|t|]; cbn [rsh_op].
  - eexists. split; [reflexivity|apply rsh_build_inv; exact HI].
  - apply rsh_submit_inv; exact HI.
  - apply rsh_set_available_inv; exact HI.
  - apply rsh_finish_inv; exact HI.
Qed.

Theorem rsh_run_inv : forall ops s, RInv s -> exists s', rsh_run s ops = Some s' /\ RInv s'.
Proof.
  induction ops as [|o ops IH]; intros s HI.
  - exists s. split; [reflexivity|exact HI].
  - cbn [rsh_run]. destruct (rsh_op_inv s o HI) as (s1 & E1 & HI1). rewrite E1. exact (IH s1 HI1).
Qed.

Theorem rs_session_leaves_nothing_behind k n : forall ops,
  exists s, rsh_run (rsh_init k n) ops = Some s /\ RInv s /\
    exists h, rsh_release s = Some h /\ (forall b, In b (live h) <-> In b (given s)) /\ NoDup (live h).
Proof.
  intros ops. destruct (rsh_run_inv ops (rsh_init k n) (rsh_init_inv k n)) as (s & E & HI).
  exists s. split; [exact E|]. split; [exact HI|]. exact (rsh_release_spec s HI).
Qed.

(* ============================================================================================== *)
(* R5                                                                                              *)
(* ============================================================================================== *)
(* given only grows (as a list: new blocks are put in front), for every operation and every run *)
Theorem rsh_after_given_grows s old a' s' : rsh_after ctxn keep cbf s old a' = Some s' -> exists add, given s' = add ++ given s.
Proof.
  unfold rsh_after. destruct (decoded_now (api s) a').
  - destruct (ctx_decode ctxn keep s) as [s1|] eqn:E1; [|discriminate].
    assert (Eg1 : given s1 = given s).
    { unfold ctx_decode in E1. destruct keep.
      - destruct (ctxb s); [destruct (alloc_n ctxn (rhp s)) as [l h]|]; inversion E1; reflexivity.
      - destruct (free_all (ctxb s) (rhp s)) as [h|]; [|discriminate].
        destruct (alloc_n ctxn h) as [l h1]. destruct (free_all l h1) as [h2|]; [|discriminate].
        inversion E1; reflexivity. }
    destruct (give_grows (firstn (rk (api s)) old) (firstn (rk (api s)) (RSApi.tab a')) (given s1) (rhp s1) (rncb s1))
      as (add & Ea).
    destruct (give cbf (firstn (rk (api s)) old) (firstn (rk (api s)) (RSApi.tab a')) (given s1) (rhp s1) (rncb s1))
      as [[g h] nc]. cbn [fst] in Ea.
    intros E. inversion E; subst s'. cbn [given]. exists add. rewrite <- Eg1. exact Ea.
  - intros E. inversion E; subst s'. cbn [given]. exists []. reflexivity.
Qed.

Theorem rsh_op_given_grows s o s' : rsh_op s o = Some s' -> exists add, given s' = add ++ given s.
Proof.
  destruct o as [|esi|t|]; cbn [rsh_op]; intros E.
  - inversion E; subst s'. exists []. rewrite rsh_build_given. reflexivity.
  - exact (rsh_after_given_grows _ _ _ _ E).
  - exact (rsh_after_given_grows _ _ _ _ E).
  - exact (rsh_after_given_grows _ _ _ _ E).
Qed.

Theorem rsh_op_given_mono s o s' b : rsh_op s o = Some s' -> In b (given s) -> In b (given s').
Proof. intros E Hb. destruct (rsh_op_given_grows s o s' E) as (add & Ea). rewrite Ea. apply in_or_app. right. exact Hb. Qed.

Theorem rsh_run_given_mono : forall ops s s' b, rsh_run s ops = Some s' -> In b (given s) -> In b (given s').
Proof.
  induction ops as [|o ops IH]; intros s s' b E Hb.
  - cbn [rsh_run] in E. inversion E; subst s'. exact Hb.
  - cbn [rsh_run] in E. destruct (rsh_op s o) as [s1|] eqn:E1; [|discriminate].
    apply (IH s1 s' b E). exact (rsh_op_given_mono s o s1 b E1 Hb).
Qed.

(* the number of blocks one API step adds to given *)
Theorem rsh_after_given_count s old a' s' : RInv s -> rsh_after ctxn keep cbf s old a' = Some s' ->
  length (given s') = length (given s) +
    (if decoded_now (api s) a'
     then filled_nocb (firstn (rk (api s)) old) (firstn (rk (api s)) (RSApi.tab a')) (rncb s)
     else 0).
Proof.
  intros HI E. destruct (rsh_after_main s old a' HI) as (s0 & E0 & _ & _ & _ & Hlen).
  rewrite E in E0. inversion E0; subst s0. exact Hlen.
Qed.

(* what release leaves has as many blocks as were given *)
Theorem rsh_release_count s h : RInv s -> rsh_release s = Some h -> length (live h) = length (given s).
Proof.
  intros HI E. destruct (rsh_release_spec s HI) as (h0 & E0 & Hl & Hn). rewrite E in E0. inversion E0; subst h0.
  apply Permutation_length. apply NoDup_Permutation; [exact Hn| |exact Hl].
  destruct HI as (Hnd & _). exact (NoDup_app_r _ _ Hnd).
Qed.

End OPS.

Print Assumptions rsh_init_inv.
Print Assumptions rsh_build_inv.
Print Assumptions rsh_after_inv.
Print Assumptions rsh_submit_inv.
Print Assumptions rsh_set_available_inv.
Print Assumptions rsh_finish_inv.
Print Assumptions rsh_release_spec.
Print Assumptions rsh_release_ctx_dead.
Print Assumptions rs_session_leaves_nothing_behind.
Print Assumptions give_length.
Print Assumptions give_ncb.
Print Assumptions rsh_run_given_mono.
Print Assumptions rsh_after_given_count.
Print Assumptions rsh_release_count.
