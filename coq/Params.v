(* Model M of the parameter decisions of of_set_fec_parameters (C09), per codec, on 32-bit values as
   the C sees them (UINT32 k, r, L with the wrap of k + r; UINT16 m; UINT8 N1; INT32 seed), with the
   limits read from /repo's headers (gen/GenConsts.v). *)
From Coq Require Import ZArith Bool Lia.
From OFV.gen Require Import GenConsts.
Local Open Scope Z_scope.

Definition u32 (z : Z) : Z := z mod 2 ^ 32.

(* of_ldpc_staircase_set_fec_parameters + the N1 <= n-k test of the matrix construction *)
Definition accept_ldpc (k r L n1 seed : Z) : bool :=
  negb (n1 <? 3) && negb ((k <? 1) || (r <? 1) || (L <? 1)) && negb ((seed <? 1) || (seed >? 2147483646)) &&
  negb (k >? c_ldpc_max_k) && negb (r >? c_ldpc_max_n) && negb (u32 (k + r) >? c_ldpc_max_n) && negb (n1 >? r).

(* of_rs_set_fec_parameters *)
Definition accept_rs28 (k r L : Z) : bool :=
  negb (k >? c_rs28_max_k) && negb ((k <? 1) || (r <? 1) || (L <? 1)) && negb (r >? c_rs28_max_n - k).

(* of_rs_2_m_set_fec_parameters: field size (1 << m) - 1 bounds k only *)
Definition accept_rs2m (m k r L : Z) : bool :=
  ((m =? 4) || (m =? 8)) && negb (k >? 2 ^ m - 1) && negb ((k <? 1) || (r <? 1) || (L <? 1)).

(* the advertised limits of the property statement *)
Definition limits_ldpc (k r L n1 seed : Z) : bool :=
  (1 <=? k) && (k <=? c_ldpc_max_k) && (1 <=? r) && (k + r <=? c_ldpc_max_n) && (1 <=? L) && (3 <=? n1) && (n1 <=? r) &&
  (1 <=? seed) && (seed <=? 2147483646).
Definition limits_rs28 (k r L : Z) : bool := (1 <=? k) && (k <=? c_rs28_max_k) && (1 <=? r) && (k + r <=? c_rs28_max_n) && (1 <=? L).
Definition limits_rs2m (m k r L : Z) : bool :=
  ((m =? 4) || (m =? 8)) && (1 <=? k) && (k <=? 2 ^ m - 1) && (1 <=? r) && (k + r <=? 2 ^ m - 1) && (1 <=? L).
