(* C20, float layer completed: the generated of_compute_blocking_struct, evaluated in binary64,
   always returns, and returns exactly the RFC 5052 values (N, A_large, A_small, I = T mod N). *)
From Flocq Require Import Core Relative Sterbenz IEEE754.BinarySingleNaN.
From Coq Require Import Reals ZArith Lia Lra Bool.
From OFV Require Import CSem CSemProofs FloatLemmas Blocking BlockingProofs.
From OFV.gen Require Import GenBlocking.
Local Open Scope R_scope.

Notation fmt64 := (generic_format radix2 (FLT_exp (-1074) 53)).

Lemma rnd64_ge_format v z : fmt64 z -> z <= v -> z <= rnd64 v.
Proof.
  intros Hz H. unfold rnd64. apply round_ge_generic;
    [apply FLT_exp_valid; reflexivity|apply valid_rnd_N|exact Hz|exact H].
Qed.

Lemma rnd64_0 : rnd64 0 = 0.
Proof. unfold rnd64. apply round_0. apply valid_rnd_N. Qed.

Lemma fmt64_R64 (x : binary64) : fmt64 (R64 x).
Proof. unfold R64. rewrite <- fexp64. apply generic_format_B2R. Qed.

Lemma bpow_m1 : bpow radix2 (-1) = / 2.
Proof. reflexivity. Qed.
Lemma bpow_m2 : bpow radix2 (-2) = / 4.
Proof. simpl. unfold Z.pow_pos. simpl. reflexivity. Qed.

Lemma fmt64_half : fmt64 (/ 2).
Proof. rewrite <- bpow_m1. apply generic_format_bpow. unfold FLT_exp. lia. Qed.

(* z +- 1/4 is a binary64 number for a 32-bit integer z *)
Lemma fmt64_quarter (z k : Z) : (0 <= z < 2^32)%Z -> (Z.abs k <= 1)%Z -> fmt64 (IZR z + IZR k / 4).
Proof.
  intros Hz Hk. apply generic_format_FLT.
  exists (Float radix2 (4 * z + k) (-2)).
  - unfold F2R. cbn [Fnum Fexp]. rewrite bpow_m2, plus_IZR, mult_IZR. field.
  - cbn [Fnum]. change (radix2 ^ 53)%Z with (2^53)%Z. lia.
  - cbn [Fexp]. lia.
Qed.

(* ---- double_to_closest_int on a double within 1/4 of a 32-bit integer ---- *)
Lemma small_diff (x : R) : Rabs x <= / 4 -> Rabs (rnd64 x) <= / 4.
Proof. rewrite <- bpow_m2. apply rnd64_abs_le_bpow. lia. Qed.

Lemma large_diff_pos (x : R) : 3 / 4 <= x -> / 2 <= Rabs (rnd64 x).
Proof.
  intros H. assert (H1 : / 2 <= rnd64 x) by (apply rnd64_ge_format; [apply fmt64_half|lra]).
  rewrite Rabs_pos_eq; lra.
Qed.

Lemma large_diff_neg (x : R) : x <= - (3 / 4) -> / 2 <= Rabs (rnd64 x).
Proof.
  intros H. assert (H1 : rnd64 x <= - / 2).
  { apply rnd64_le_format; [apply generic_format_opp, fmt64_half|lra]. }
  rewrite Rabs_left1; lra.
Qed.

Lemma abs_diff_R (v w : binary64) : fin v -> fin w -> Rabs (R64 v - R64 w) <= bpow radix2 1000 ->
  R64 (d_fabs (d_sub v w)) = Rabs (rnd64 (R64 v - R64 w)) /\ fin (d_fabs (d_sub v w)).
Proof.
  intros Fv Fw Hb. destruct (d_sub_rounded v w Fv Fw Hb) as [Rs Fs].
  destruct (d_fabs_R (d_sub v w)) as [Ra Fa]. rewrite Ra, Rs. split; [reflexivity|exact (Fa Fs)].
Qed.

Lemma closest_int_near (v : binary64) (r : Z) : fin v -> (0 <= r < 2^32)%Z ->
  Rabs (R64 v - IZR r) <= / 4 -> double_to_closest_int v = Some r.
Proof.
  intros Fv Hr Hv. unfold double_to_closest_int. cbv zeta.
  destruct (d_ceil_R v Fv) as [Rc Fc]. destruct (d_floor_R v Fv) as [Rf Ff].
  apply Rabs_le_inv in Hv.
  assert (B1000 : 4294967300 <= bpow radix2 1000).
  { apply Rle_trans with (bpow radix2 53); [rewrite pow2_53; lra|apply bpow_le; lia]. }
  assert (Hr' : 0 <= IZR r <= 4294967296) by (split; [apply IZR_le|apply (IZR_le r 4294967296)]; lia).
  assert (Hcases : exists c f : Z, Zceil (R64 v) = c /\ Zfloor (R64 v) = f /\
            ((c = r /\ f = r /\ R64 v = IZR r) \/
             (c = (r + 1)%Z /\ f = r /\ IZR r < R64 v) \/
             (c = r /\ f = (r - 1)%Z /\ R64 v < IZR r))).
  { destruct (Rtotal_order (R64 v) (IZR r)) as [Hlt|[Heq|Hgt]].
    - exists r, (r - 1)%Z. split; [|split; [|right; right; auto]].
      + apply Zceil_imp. rewrite minus_IZR. lra.
      + apply Zfloor_imp. replace (r - 1 + 1)%Z with r by lia. rewrite minus_IZR. lra.
    - exists r, r. split; [|split; [|left; auto]].
      + rewrite Heq. apply Zceil_IZR.
      + rewrite Heq. apply Zfloor_IZR.
    - exists (r + 1)%Z, r. split; [|split; [|right; left; auto]].
      + apply Zceil_imp. replace (r + 1 - 1)%Z with r by lia. rewrite plus_IZR. lra.
      + apply Zfloor_imp. rewrite plus_IZR. lra. }
  destruct Hcases as (c & f & Hc & Hf & Hcase). rewrite Hc in Rc. rewrite Hf in Rf.
  assert (Hcr : IZR r - 1 <= IZR c <= IZR r + 1 /\ IZR r - 1 <= IZR f <= IZR r + 1).
  { destruct Hcase as [(-> & -> & _)|[(-> & -> & _)|(-> & -> & _)]];
      rewrite ?plus_IZR, ?minus_IZR; lra. }
  destruct (abs_diff_R v (d_ceil v) Fv Fc) as [R1 F1].
  { rewrite Rc. apply Rabs_le. lra. }
  destruct (abs_diff_R v (d_floor v) Fv Ff) as [R2 F2].
  { rewrite Rf. apply Rabs_le. lra. }
  rewrite (d_lt_R _ _ F1 F2), R1, R2, Rc, Rf.
  destruct Hcase as [(-> & -> & Hv')|[(-> & -> & Hv')|(-> & -> & Hv')]].
  - rewrite Rlt_bool_false by lra.
    unfold d_to_u32. rewrite (d_to_int_of_int _ _ _ r Ff Rf) by (change (2^32-1)%Z with 4294967295%Z; lia).
    reflexivity.
  - rewrite plus_IZR. rewrite Rlt_bool_false.
    + unfold d_to_u32. rewrite (d_to_int_of_int _ _ _ r Ff Rf) by (change (2^32-1)%Z with 4294967295%Z; lia).
      reflexivity.
    + apply Rle_trans with (/ 4); [apply small_diff, Rabs_le; lra|].
      apply Rle_trans with (/ 2); [lra|apply large_diff_neg; lra].
  - rewrite minus_IZR. rewrite Rlt_bool_true.
    + unfold d_to_u32. rewrite (d_to_int_of_int _ _ _ r Fc Rc) by (change (2^32-1)%Z with 4294967295%Z; lia).
      reflexivity.
    + apply Rle_lt_trans with (/ 4); [apply small_diff, Rabs_le; lra|].
      apply Rlt_le_trans with (/ 2); [lra|apply large_diff_pos; lra].
Qed.

(* ---- the value handed to double_to_closest_int: RN(RN(RN(T/N) - floor(T/N)) * N) ---- *)
Lemma IZR_u32 z : (0 <= z < 2^32)%Z -> 0 <= IZR z <= 4294967295.
Proof. intros H. split; [apply IZR_le|apply (IZR_le z 4294967295)]; lia. Qed.

Lemma frac_times_N (T N : Z) : (1 <= N <= T)%Z -> (T < 2^32)%Z ->
  let A := d_div (d_of_Z T) (d_of_Z N) in
  let v := d_mul (d_sub A (d_of_Z (T / N))) (d_of_Z N) in
  fin v /\ Rabs (R64 v - IZR (T mod N)) <= / 4.
Proof.
  intros HN HT. cbv zeta.
  pose proof (Z.div_mod T N ltac:(lia)) as Hdm. pose proof (Z.mod_pos_bound T N ltac:(lia)) as Hr.
  assert (Hq : (1 <= T / N <= T)%Z).
  { split; [apply Z.div_le_lower_bound; lia|apply Z.div_le_upper_bound; nia]. }
  set (q := (T / N)%Z) in *. set (r := (T mod N)%Z) in *. clearbody q r.
  destruct (d_of_Z_exact T ltac:(lia)) as [RT FT]. destruct (d_of_Z_exact N ltac:(lia)) as [RN FN].
  destruct (d_of_Z_exact q ltac:(lia)) as [Rq Fq].
  pose proof (IZR_u32 T ltac:(lia)) as BT. pose proof (IZR_u32 N ltac:(lia)) as BN.
  pose proof (IZR_u32 q ltac:(lia)) as Bq. pose proof (IZR_u32 r ltac:(lia)) as Br.
  assert (BN1 : 1 <= IZR N) by (apply (IZR_le 1 N); lia).
  assert (Bq1 : 1 <= IZR q) by (apply (IZR_le 1 q); lia).
  assert (HTR : IZR T = IZR N * IZR q + IZR r) by (rewrite Hdm at 1; rewrite plus_IZR, mult_IZR; reflexivity).
  assert (BrN : IZR r <= IZR N - 1) by (rewrite <- minus_IZR; apply IZR_le; lia).
  set (x := IZR T / IZR N).
  assert (Hx : x = IZR q + IZR r / IZR N) by (unfold x; rewrite HTR; field; lra).
  assert (Hfr : 0 <= IZR r / IZR N <= 1).
  { split; [apply Rle_mult_inv_pos; lra|].
    apply Rmult_le_reg_r with (IZR N); [lra|]. unfold Rdiv. rewrite Rmult_assoc, Rinv_l by lra. lra. }
  assert (Hx1 : 1 <= x <= 4294967295).
  { split; [lra|]. unfold x. apply Rle_trans with (IZR T / 1); [|lra].
    unfold Rdiv. apply Rmult_le_compat_l; [lra|apply Rinv_le_contravar; lra]. }
  assert (HNne : R64 (d_of_Z N) <> 0) by (rewrite RN; lra).
  destruct (d_div_rounded _ _ FT FN HNne) as [RA FA].
  { rewrite RT, RN. fold x. rewrite Rabs_pos_eq by lra. replace (IZR (2^53)) with 9007199254740992 by reflexivity. lra. }
  rewrite RT, RN in RA. fold x in RA.
  set (A := d_div (d_of_Z T) (d_of_Z N)) in *. clearbody A.
  (* q <= A <= q + 1 *)
  assert (HAlo : IZR q <= R64 A) by (rewrite RA; apply rnd64_ge_format; [apply int_is_double; lia|lra]).
  assert (HAhi : R64 A <= IZR q + 1).
  { rewrite RA. apply rnd64_le_format; [|lra]. rewrite <- (plus_IZR q 1). apply int_is_double. lia. }
  (* the subtraction is exact (Sterbenz) *)
  assert (Hfmt : fmt64 (R64 A - IZR q)).
  { apply sterbenz; [apply FLT_exp_valid; reflexivity|apply FLT_exp_monotone|apply fmt64_R64|apply int_is_double; lia|lra]. }
  destruct (d_sub_rounded A (d_of_Z q) FA Fq) as [Rf Ff].
  { rewrite Rq. apply Rle_trans with (bpow radix2 0); [simpl; apply Rabs_le; lra|apply bpow_le; lia]. }
  rewrite Rq in Rf. unfold rnd64 in Rf. rewrite round_generic in Rf by (try apply valid_rnd_N; exact Hfmt).
  set (f := d_sub A (d_of_Z q)) in *. clearbody f.
  (* |f * N - r| = N * |A - T/N| <= 2^-53 * T *)
  pose proof (rnd64_rel_err x ltac:(lra)) as Herr. rewrite <- RA in Herr. apply Rabs_le_inv in Herr.
  assert (HxN : x * IZR N = IZR T) by (unfold x; field; lra).
  assert (Hprod : IZR r - / 4 <= R64 f * IZR N <= IZR r + / 4).
  { rewrite Rf. replace ((R64 A - IZR q) * IZR N) with ((R64 A - x) * IZR N + IZR r) by (rewrite Hx; field; lra).
    assert (He : / 9007199254740992 * x * IZR N <= / 4) by (rewrite Rmult_assoc, HxN; lra).
    split.
    - assert (- (/ 9007199254740992 * x) * IZR N <= (R64 A - x) * IZR N) by (apply Rmult_le_compat_r; lra). lra.
    - assert ((R64 A - x) * IZR N <= / 9007199254740992 * x * IZR N) by (apply Rmult_le_compat_r; lra). lra. }
  destruct (d_mul_rounded f (d_of_Z N) Ff FN) as [Rv Fv].
  { rewrite RN. apply Rle_trans with (bpow radix2 53); [rewrite pow2_53; apply Rabs_le; lra|apply bpow_le; lia]. }
  rewrite RN in Rv. split; [exact Fv|]. rewrite Rv. apply Rabs_le. split.
  - assert (IZR r + IZR (-1) / 4 <= rnd64 (R64 f * IZR N)); [|lra].
    apply rnd64_ge_format; [apply fmt64_quarter; lia|lra].
  - assert (rnd64 (R64 f * IZR N) <= IZR r + IZR 1 / 4); [|lra].
    apply rnd64_le_format; [apply fmt64_quarter; lia|lra].
Qed.

(* ---- the full float layer of C20 ---- *)
Local Open Scope Z_scope.

Theorem blocking_full : forall B L E, 1 <= B < 2^32 -> 1 <= L < 2^32 -> 1 <= E < 2^32 ->
  let p := rfc5052 B L E in
  of_compute_blocking_struct B L E = Some (p_N p, p_A_large p, p_A_small p, p_I p).
Proof.
  intros B L E HB HL HE. cbv zeta. unfold rfc5052. cbn [p_N p_A_large p_A_small p_I].
  destruct (ceil_div_bounds L E ltac:(lia) ltac:(lia)) as [HT _].
  unfold of_compute_blocking_struct.
  destruct (quot_ceil L E ltac:(lia) ltac:(lia)) as (c1 & F1 & R1 & E1). rewrite <- E1.
  unfold d_to_u32 at 1. rewrite (d_to_int_of_int _ _ c1 (ceil_div L E) F1 R1) by (change (2^32-1) with 4294967295; lia).
  cbn [bind]. set (T := ceil_div L E) in *. clearbody T. clear c1 F1 R1 E1.
  destruct (ceil_div_bounds T B ltac:(lia) ltac:(lia)) as [HN _].
  destruct (quot_ceil T B ltac:(lia) ltac:(lia)) as (c2 & F2 & R2 & E2). rewrite <- E2.
  unfold d_to_u32 at 1. rewrite (d_to_int_of_int _ _ c2 (ceil_div T B) F2 R2) by (change (2^32-1) with 4294967295; lia).
  cbn [bind]. set (N := ceil_div T B) in *. clearbody N. clear c2 F2 R2 E2.
  destruct (ceil_div_bounds T N ltac:(lia) ltac:(lia)) as [HA _].
  destruct (quot_ceil T N ltac:(lia) ltac:(lia)) as (c3 & F3 & R3 & E3). rewrite <- E3.
  unfold d_to_u32 at 1. rewrite (d_to_int_of_int _ _ c3 (ceil_div T N) F3 R3) by (change (2^32-1) with 4294967295; lia).
  cbn [bind]. clear c3 F3 R3 E3.
  destruct (quot_floor T N ltac:(lia) ltac:(lia)) as (c4 & F4 & R4 & E4). rewrite <- E4.
  assert (Hq : 0 <= T / N <= T) by (split; [apply Z.div_pos; lia|apply Z.div_le_upper_bound; nia]).
  unfold d_to_u32 at 1. rewrite (d_to_int_of_int _ _ c4 (T / N) F4 R4) by (change (2^32-1) with 4294967295; lia).
  cbn [bind]. clear c4 F4 R4 E4.
  destruct (frac_times_N T N ltac:(lia) ltac:(lia)) as [Fv Hv].
  pose proof (Z.mod_pos_bound T N ltac:(lia)) as Hr.
  rewrite (closest_int_near _ (T mod N) Fv ltac:(lia) Hv). cbn [bind]. reflexivity.
Qed.

(* the same statement in the form requested for Properties_C20 *)
Corollary blocking_full_total : forall B L E, 1 <= B < 2^32 -> 1 <= L < 2^32 -> 1 <= E < 2^32 ->
  exists n al asm i, of_compute_blocking_struct B L E = Some (n, al, asm, i) /\
    n = ceil_div (ceil_div L E) B /\ al = ceil_div (ceil_div L E) n /\
    asm = ceil_div L E / n /\ i = ceil_div L E mod n.
Proof.
  intros B L E HB HL HE. pose proof (blocking_full B L E HB HL HE) as H. cbv zeta in H.
  unfold rfc5052 in H. cbn [p_N p_A_large p_A_small p_I] in H.
  eexists _, _, _, _. split; [exact H|]. repeat split; reflexivity.
Qed.

Print Assumptions blocking_full.
Print Assumptions blocking_full_total.
