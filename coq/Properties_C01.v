(* C01 — decoders never hand back a wrong source symbol.
   Proved so far (hence the _partial names where the statement is weaker than the property):
   - LDPC-Staircase streaming decoder (ITModel.v): whenever the completion query answers true, all k
     source symbols are available (second sentence of the property);
   - every symbol the streaming decoder makes available lies in the peeling closure of the received
     set (it is justified by parity equations whose other symbols are known): soundness at the level
     of WHICH symbols, from it_is_peeling.
   - VALUES: along any run fed with symbols of a codeword (a column valuation satisfying every
     parity equation, symbols combined with any commutative, associative, nilpotent xor), every
     symbol the streaming decoder holds - received or rebuilt - equals the codeword's symbol at that
     column: ldpc_available_symbols_equal_codeword (first sentence of the property, IT path).
   - ML finish (MLModel.v, see Properties_C03.v for the full statement): after of_finish_decoding every
     symbol held - received, rebuilt by the simplification or produced by the Gaussian elimination -
     is the codeword's: ldpc_finish_never_returns_a_wrong_symbol.
   Reed-Solomon: the canonical code determines the sources from any k positions (Properties_C02.v) and
   the Gauss-Jordan inversion model is correct (GaussJordan.v); the decoded bytes are also compared with
   the encoded source on the C side for every session of the correspondence. *)
From Coq Require Import Arith List Bool.
From Coq Require Import ZArith.
From OFV Require Import LdpcEnc ITModel ITProofs MLModel MLCorollaries Sparse Params Pchk LdpcEndToEnd.
Import ListNotations.

Theorem ldpc_complete_implies_all_sources_available :
  forall (Sy : Type) (sxor : Sy -> Sy -> Sy) (s0 : Sy) (H0 : list (list nat)) (R0 N0 : nat),
  length H0 = R0 -> (forall i, i < R0 -> NoDup (nth i H0 [])) ->
  (forall i c, i < R0 -> In c (nth i H0 []) -> c < N0) -> (forall i, i < R0 -> 2 <= length (nth i H0 [])) -> R0 <= N0 ->
  forall fuel (hist : list (nat * Sy)) (s : st Sy),
  (forall ev, In ev hist -> fst ev < N0) -> run Sy sxor s0 H0 R0 N0 fuel hist = Some s ->
  (fst (is_complete s) = true <-> forall c, R0 <= c < N0 -> known s c = true).
Proof. exact run_complete_flag. Qed.

Theorem ldpc_available_symbols_are_justified_partial :
  forall (Sy : Type) (sxor : Sy -> Sy -> Sy) (s0 : Sy) (H0 : list (list nat)) (R0 N0 : nat),
  length H0 = R0 -> (forall i, i < R0 -> NoDup (nth i H0 [])) ->
  (forall i c, i < R0 -> In c (nth i H0 []) -> c < N0) -> (forall i, i < R0 -> 2 <= length (nth i H0 [])) -> R0 <= N0 ->
  forall fuel (hist : list (nat * Sy)) (s : st Sy),
  (forall ev, In ev hist -> fst ev < N0) -> run Sy sxor s0 H0 R0 N0 fuel hist = Some s ->
  let Rc := fun e => In e (map fst hist) in
  (forall c, known s c = true -> peel H0 R0 Rc c)
  /\ (forall c, R0 <= c < N0 -> peel H0 R0 Rc c -> known s c = true)
  /\ (~ iscomp Sy R0 N0 s -> forall c, peel H0 R0 Rc c -> known s c = true).
Proof. exact it_is_peeling. Qed.

Theorem ldpc_available_symbols_equal_codeword :
  forall (Sy : Type) (sxor : Sy -> Sy -> Sy) (s0 : Sy) (H0 : list (list nat)) (R0 N0 : nat),
  length H0 = R0 -> (forall i, i < R0 -> NoDup (nth i H0 [])) ->
  (forall i c, i < R0 -> In c (nth i H0 []) -> c < N0) -> (forall i, i < R0 -> 2 <= length (nth i H0 [])) -> R0 <= N0 ->
  (forall a b c, sxor a (sxor b c) = sxor (sxor a b) c) -> (forall a b, sxor a b = sxor b a) ->
  (forall a, sxor s0 a = a) -> (forall a, sxor a a = s0) ->
  forall cw : nat -> Sy,
  (forall i, i < R0 -> fold_right sxor s0 (map cw (nth i H0 [])) = s0) ->
  forall fuel (hist : list (nat * Sy)) (s : st Sy),
  (forall ev, In ev hist -> fst ev < N0 /\ snd ev = cw (fst ev)) -> run Sy sxor s0 H0 R0 N0 fuel hist = Some s ->
  forall c v, nth c (tab s) None = Some v -> v = cw c.
Proof. exact run_values. Qed.

Theorem ldpc_finish_never_returns_a_wrong_symbol :
  forall (Sy : Type) (sxor : Sy -> Sy -> Sy) (s0 : Sy),
  (forall a b c, sxor a (sxor b c) = sxor (sxor a b) c) -> (forall a b, sxor a b = sxor b a) ->
  (forall a, sxor s0 a = a) -> (forall a, sxor a a = s0) ->
  forall (H0 : list (list nat)) (R0 N0 : nat),
  length H0 = R0 -> (forall i, i < R0 -> NoDup (nth i H0 [])) ->
  (forall i c, i < R0 -> In c (nth i H0 []) -> c < N0) -> (forall i, i < R0 -> 2 <= length (nth i H0 [])) -> R0 <= N0 ->
  (forall c, c < N0 -> exists i, i < R0 /\ In c (nth i H0 [])) -> stair R0 H0 -> (exists a : Sy, a <> s0) ->
  forall cw : nat -> Sy, (forall i, i < R0 -> fold_right sxor s0 (map cw (nth i H0 [])) = s0) ->
  forall (hist : list (nat * Sy)) (s : st Sy) fuel perm (o : outcome Sy),
  (forall ev, In ev hist -> fst ev < N0 /\ snd ev = cw (fst ev)) -> run Sy sxor s0 H0 R0 N0 (S N0) hist = Some s ->
  N0 < fuel -> (forall c, c < R0 -> In c perm) -> (forall c, In c perm -> c < R0) ->
  ml_finish sxor s0 fuel perm s = Some o ->
  forall c v, nth c (tab (o_st o)) None = Some v -> v = cw c.
Proof. exact ml_session_values. Qed.

(* end to end, from accepted parameters: the matrix the construction model builds, the codeword the encoder model
   produces from the sources, any multiset of its symbols received in any order, the streaming decoder and
   of_finish_decoding: every source symbol held at the end is the original one; OK iff all recovered iff
   the received set determines the sources.  (Axioms: the stdlib real-number axioms, through the PRNG of the
   construction model only.) *)
Theorem ldpc_end_to_end_sources_are_the_original_ones :
  forall (Sy : Type) (sxor : Sy -> Sy -> Sy) (s0 : Sy),
  (forall a b c, sxor a (sxor b c) = sxor (sxor a b) c) -> (forall a b, sxor a b = sxor b a) ->
  (forall a, sxor s0 a = a) -> (forall a, sxor a a = s0) -> (exists a : Sy, a <> s0) ->
  forall (k r n1 : nat) (L seed g0 : Z) (fuel : nat) (m : smat) (extra : bool) (g : Z),
  accept_ldpc (Z.of_nat k) (Z.of_nat r) L (Z.of_nat n1) seed = true ->
  pchk fuel k r n1 seed g0 = Some (m, extra, g) ->
  let H := Sparse.rws m in let N := k + r in
  forall (srcs : nat -> Sy) (hist : list (nat * Sy)) (s : st Sy) (fuel' : nat) (perm : list nat) (o : outcome Sy),
  (forall ev, In ev hist -> fst ev < N /\ snd ev = codeword Sy sxor s0 r H srcs (fst ev)) ->
  run Sy sxor s0 H r N (S N) hist = Some s -> N < fuel' ->
  (forall c, c < r -> In c perm) -> (forall c, In c perm -> c < r) ->
  ml_finish sxor s0 fuel' perm s = Some o ->
  (forall c v, r <= c < N -> nth c (tab (o_st o)) None = Some v -> v = srcs c) /\
  (o_ok o = true <-> (forall c, r <= c < N -> known (o_st o) c = true)) /\
  ((forall c, r <= c < N -> known (o_st o) c = true) <->
   (forall z : nat -> bool, (forall i, i < r -> fold_right xorb false (map z (nth i H [])) = false) ->
      (forall c, In c (map fst hist) -> z c = false) -> forall c, r <= c < N -> z c = false)).
Proof. exact ldpc_end_to_end. Qed.

Print Assumptions ldpc_complete_implies_all_sources_available.
Print Assumptions ldpc_end_to_end_sources_are_the_original_ones.
Print Assumptions ldpc_finish_never_returns_a_wrong_symbol.
Print Assumptions ldpc_available_symbols_equal_codeword.
Print Assumptions ldpc_available_symbols_are_justified_partial.
