(* Target language of the C -> Gallina translator (tools/c2gallina.py): C integer and double
   operations as total/partial functions on Z and Flocq binary64.
   None = undefined behaviour in C (out-of-range float->integer conversion, signed overflow,
   oversized shift, division by zero). *)
From Coq Require Import ZArith Bool.
From Flocq Require Import Core.Core IEEE754.BinarySingleNaN.
Local Open Scope Z_scope.

Definition bind {A B} (o : option A) (f : A -> option B) : option B :=
  match o with Some a => f a | None => None end.

Definition wrapu (n z : Z) : Z := z mod 2 ^ n.
Definition wrapu64 := wrapu 64.
Definition wrapu32 := wrapu 32.
Definition wrapu16 := wrapu 16.
Definition wrapu8 := wrapu 8.
Definition wrapu1 (z : Z) : Z := if z =? 0 then 0 else 1.
(* conversion to a signed type: implementation-defined in C; gcc/clang wrap (two's complement) *)
Definition wraps (n z : Z) : Z := (z + 2 ^ (n - 1)) mod 2 ^ n - 2 ^ (n - 1).
Definition wraps64 := wraps 64.
Definition wraps32 := wraps 32.
Definition wraps16 := wraps 16.
Definition wraps8 := wraps 8.

Definition chk_s (n z : Z) : option Z :=
  if (- 2 ^ (n - 1) <=? z) && (z <? 2 ^ (n - 1)) then Some z else None.
Definition chk_s32 := chk_s 32.
Definition chk_s64 := chk_s 64.
Definition chk_shift (w amount v : Z) : option Z :=
  if (0 <=? amount) && (amount <? w) then Some v else None.
Definition chk_div (d v : Z) : option Z := if d =? 0 then None else Some v.

Definition b2z (b : bool) : Z := if b then 1 else 0.
Definition z2b (z : Z) : bool := negb (z =? 0).

(* IEEE 754 binary64, round to nearest even (the default C floating-point environment) *)
Definition prec64 : Z := 53.
Definition emax64 : Z := 1024.
Definition binary64 := binary_float prec64 emax64.
Global Instance prec64_gt_0 : Prec_gt_0 prec64.  Proof. reflexivity. Qed.
Global Instance prec64_lt_emax : Prec_lt_emax prec64 emax64.  Proof. reflexivity. Qed.

Definition d_of_Z (z : Z) : binary64 :=
  binary_normalize prec64 emax64 prec64_gt_0 prec64_lt_emax mode_NE z 0 false.
Definition d_mul : binary64 -> binary64 -> binary64 := Bmult mode_NE.
Definition d_div : binary64 -> binary64 -> binary64 := Bdiv mode_NE.
Definition d_add : binary64 -> binary64 -> binary64 := Bplus mode_NE.
Definition d_sub : binary64 -> binary64 -> binary64 := Bminus mode_NE.
Definition d_neg : binary64 -> binary64 := Bopp.
Definition d_fabs : binary64 -> binary64 := Babs.
Definition d_ceil : binary64 -> binary64 := Bnearbyint mode_UP.
Definition d_floor : binary64 -> binary64 := Bnearbyint mode_DN.
Definition d_lt : binary64 -> binary64 -> bool := Bltb.
Definition d_le : binary64 -> binary64 -> bool := Bleb.
Definition d_gt (x y : binary64) : bool := Bltb y x.
Definition d_ge (x y : binary64) : bool := Bleb y x.
Definition d_eq : binary64 -> binary64 -> bool := Beqb.
Definition d_ne (x y : binary64) : bool := negb (Beqb x y).

(* (T) x for a double x: truncation toward zero; undefined unless the truncated value fits T *)
Definition d_to_int (lo hi : Z) (x : binary64) : option Z :=
  if is_finite x then
    let z := Btrunc x in if (lo <=? z) && (z <=? hi) then Some z else None
  else None.
Definition d_to_u64 := d_to_int 0 (2 ^ 64 - 1).
Definition d_to_u32 := d_to_int 0 (2 ^ 32 - 1).
Definition d_to_i32 := d_to_int (- 2 ^ 31) (2 ^ 31 - 1).
Definition d_to_i64 := d_to_int (- 2 ^ 63) (2 ^ 63 - 1).
