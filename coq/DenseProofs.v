From Coq Require Import NArith Arith List Bool Lia.
From OFV Require Import ListAux Dense.
Import ListNotations.

Record WFd (m : dmat) : Prop := {
  wd_rows : length (drows m) = dr m;
  wd_len : forall i, i < dr m -> length (nth i (drows m) []) = dw m;
  wd_words : dw m = nwords (dc m) }.

Lemma nwords_bound c j : j < c -> j / 32 < nwords c.
Proof.
  intros H. unfold nwords. apply Nat.div_lt_upper_bound; [lia|].
  pose proof (Nat.div_mod (c + 31) 32 ltac:(lia)). pose proof (Nat.mod_upper_bound (c + 31) 32 ltac:(lia)). lia.
Qed.

Lemma nth_repeat {A} (x : A) n k d : k < n -> nth k (repeat x n) d = x.
Proof. revert k; induction n; intros [|k] H; simpl; try lia; auto. apply IHn. lia. Qed.

Lemma allocate_wfd r c : WFd (d_allocate r c) /\ forall i j, d_get (d_allocate r c) i j = false.
Proof.
  split.
  - constructor; simpl; [apply repeat_length| |reflexivity].
    intros i Hi. rewrite nth_repeat by exact Hi. apply repeat_length.
  - intros i j. unfold d_get, word, d_allocate. cbn [drows].
    destruct (Nat.lt_ge_cases i r) as [Hi|Hi].
    + rewrite (nth_repeat _ r i [] Hi).
      destruct (Nat.lt_ge_cases (j / 32) (nwords c)) as [Hk|Hk].
      * rewrite nth_repeat by exact Hk. apply N.bits_0.
      * rewrite nth_overflow by (rewrite repeat_length; exact Hk). apply N.bits_0.
    + rewrite (nth_overflow (repeat _ r)) by (rewrite repeat_length; exact Hi).
      rewrite nth_overflow by (cbn [length]; lia). apply N.bits_0.
Qed.

Lemma word_set_word m i k w i' k' : i < length (drows m) -> k < length (nth i (drows m) []) ->
  word (set_word m i k w) i' k' = if (i' =? i) && (k' =? k) then w else word m i' k'.
Proof.
  intros Hi Hk. unfold word, set_word. simpl.
  destruct (Nat.eqb_spec i' i) as [->|Hni]; simpl.
  - rewrite nth_upd_eq by exact Hi. destruct (Nat.eqb_spec k' k) as [->|Hnk].
    + apply nth_upd_eq. exact Hk.
    + apply nth_upd_neq. lia.
  - rewrite nth_upd_neq by lia. reflexivity.
Qed.

Lemma divmod_eq j j' : j / 32 = j' / 32 -> j mod 32 = j' mod 32 -> j = j'.
Proof. intros A B. rewrite (Nat.div_mod j 32), (Nat.div_mod j' 32) by lia. lia. Qed.

(* get after set: exactly one bit changes *)
Theorem get_set m i j v i' j' : WFd m -> i < dr m -> j < dc m ->
  d_get (d_set m i j v) i' j' = if (i' =? i) && (j' =? j) then v else d_get m i' j'.
Proof.
  intros W Hi Hj. unfold d_set.
  destruct (Nat.leb_spec (dr m) i); [lia|]. destruct (Nat.leb_spec (dc m) j); [lia|]. cbn [orb].
  assert (Hk : j / 32 < length (nth i (drows m) [])).
  { rewrite (wd_len m W i Hi), (wd_words m W). apply nwords_bound. exact Hj. }
  unfold d_get at 1. rewrite word_set_word by (rewrite ?(wd_rows m W); assumption).
  destruct (Nat.eqb_spec i' i) as [->|Hni]; cbn [andb]; [|reflexivity].
  destruct (Nat.eqb_spec (j' / 32) (j / 32)) as [Eq|Hnq].
  - destruct v.
    + rewrite N.setbit_eqb. destruct (Nat.eqb_spec j' j) as [->|Hnj].
      * now rewrite N.eqb_refl.
      * destruct (N.eqb_spec (N.of_nat (j mod 32)) (N.of_nat (j' mod 32))) as [E|E].
        -- exfalso. apply Hnj. apply divmod_eq; [exact Eq|lia].
        -- cbn [orb]. unfold d_get. now rewrite Eq.
    + rewrite N.clearbit_eqb. destruct (Nat.eqb_spec j' j) as [->|Hnj].
      * rewrite N.eqb_refl. cbn [negb]. now rewrite andb_false_r.
      * destruct (N.eqb_spec (N.of_nat (j mod 32)) (N.of_nat (j' mod 32))) as [E|E].
        -- exfalso. apply Hnj. apply divmod_eq; [exact Eq|lia].
        -- cbn [negb]. rewrite andb_true_r. unfold d_get. now rewrite Eq.
  - destruct (Nat.eqb_spec j' j) as [->|Hnj]; [congruence|reflexivity].
Qed.

Lemma set_wfd m i j v : WFd m -> WFd (d_set m i j v).
Proof.
  intros W. unfold d_set. destruct ((dr m <=? i) || (dc m <=? j)) eqn:E; [exact W|].
  apply orb_false_iff in E as (E1 & E2). apply Nat.leb_gt in E1. apply Nat.leb_gt in E2.
  constructor; simpl.
  - rewrite upd_length. apply (wd_rows m W).
  - intros i' Hi'. destruct (Nat.eq_dec i' i) as [->|Hne].
    + rewrite nth_upd_eq by (rewrite (wd_rows m W); exact E1). rewrite upd_length. apply (wd_len m W i E1).
    + rewrite nth_upd_neq by lia. apply (wd_len m W i' Hi').
  - apply (wd_words m W).
Qed.

Theorem get_flip m i j i' j' : WFd m -> i < dr m -> j < dc m ->
  d_get (fst (d_flip m i j)) i' j' = if (i' =? i) && (j' =? j) then negb (d_get m i j) else d_get m i' j'.
Proof.
  intros W Hi Hj. unfold d_flip.
  destruct (Nat.leb_spec (dr m) i); [lia|]. destruct (Nat.leb_spec (dc m) j); [lia|]. cbn [orb fst].
  apply get_set; assumption.
Qed.

Theorem get_clear m i j : d_get (d_clear m) i j = false.
Proof.
  unfold d_get, word, d_clear. cbn [drows].
  destruct (Nat.lt_ge_cases i (dr m)) as [Hi|Hi].
  - rewrite (nth_repeat _ (dr m) i [] Hi).
    destruct (Nat.lt_ge_cases (j / 32) (dw m)) as [Hk|Hk].
    + rewrite nth_repeat by exact Hk. apply N.bits_0.
    + rewrite nth_overflow by (rewrite repeat_length; exact Hk). apply N.bits_0.
  - rewrite (nth_overflow (repeat _ (dr m))) by (rewrite repeat_length; exact Hi).
    rewrite nth_overflow by (cbn [length]; lia). apply N.bits_0.
Qed.

Lemma nth_xor_words : forall a b k, length a = length b -> nth k (xor_words a b) 0%N = N.lxor (nth k a 0%N) (nth k b 0%N).
Proof.
  induction a as [|x a IH]; intros [|y b] k H; simpl in *; try discriminate.
  - destruct k; reflexivity.
  - destruct k as [|k]; [reflexivity|]. apply IH. lia.
Qed.

(* row XOR: row `to` becomes the bitwise sum of rows `to` and `from`, nothing else changes *)
Theorem get_xor_rows m from to i j : WFd m -> from < dr m -> to < dr m ->
  d_get (d_xor_rows m from to) i j = if i =? to then xorb (d_get m to j) (d_get m from j) else d_get m i j.
Proof.
  intros W Hf Ht. unfold d_get, word, d_xor_rows. simpl.
  destruct (Nat.eqb_spec i to) as [->|Hne].
  - rewrite nth_upd_eq by (rewrite (wd_rows m W); exact Ht).
    rewrite nth_xor_words by (rewrite !(wd_len m W); auto). apply N.lxor_spec.
  - rewrite nth_upd_neq by lia. reflexivity.
Qed.

(* weights and emptiness are by definition counts over d_get; an all-zero-words row has no bit set *)
Theorem row_weight_spec m i : d_row_weight m i = length (filter (fun j => d_get m i j) (seq 0 (dc m))).
Proof. reflexivity. Qed.
Theorem col_weight_spec m j : d_col_weight m j = length (filter (fun i => d_get m i j) (seq 0 (dr m))).
Proof. reflexivity. Qed.
Theorem row_is_empty_sound m i : d_row_is_empty m i = true -> forall j, d_get m i j = false.
Proof.
  intros H j. unfold d_row_is_empty in H. rewrite forallb_forall in H. unfold d_get, word.
  destruct (Nat.lt_ge_cases (j / 32) (length (nth i (drows m) []))) as [Hk|Hk].
  - specialize (H _ (nth_In _ 0%N Hk)). apply N.eqb_eq in H. rewrite H. apply N.bits_0.
  - rewrite nth_overflow by exact Hk. apply N.bits_0.
Qed.

