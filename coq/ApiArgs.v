(* Model M of the argument checks of the public API (of_openfec_api.c) and of the ESI checks the codecs add
   in their build functions (C09, second half): which calls are refused, with which status, before any
   codec state is touched.  One decision per API function, in the order of the C's tests; 32-bit values as
   the C sees them (the ESI limit is nb_source_symbols + nb_repair_symbols computed in UINT32). *)
From Coq Require Import ZArith Bool.
From OFV Require Import Params.
Local Open Scope Z_scope.

Inductive role := REnc | RDec | RBoth.           (* OF_ENCODER, OF_DECODER, OF_ENCODER_AND_DECODER *)
Record ses := { s_role : role; s_codec : Z; s_k : Z; s_r : Z }.   (* a configured session; codec id as in of_codec_id_t: 1, 2, 3, 5 *)
Definition s_ldpc (s : ses) : bool := s_codec s =? 3.

Inductive call :=
| CBuild (esi : Z)                                (* of_build_repair_symbol (ses, tab, esi)            *)
| CDecode (bufnull : bool) (esi : Z)              (* of_decode_with_new_symbol (ses, buf, esi)         *)
| CSetAvail (tabnull : bool)                      (* of_set_available_symbols (ses, tab)               *)
| CFinish                                         (* of_finish_decoding (ses)                          *)
| CIsComplete                                     (* of_is_decoding_complete (ses)                     *)
| CGetSrc                                         (* of_get_source_symbols_tab (ses, tab)              *)
| CSetCb (srcnull repnull : bool)                 (* of_set_callback_functions (ses, src_cb, rep_cb, ctx) *)
| CGetCtl (type : Z) (valnull : bool) (len : Z).  (* of_get_control_parameter (ses, type, value, len)  *)
(* of_set_control_parameter is a configuration call, not one of the calls C09 speaks about, and is left out: only the GF(2^m) codec
   implements it; for codec 1 the dispatcher returns an uninitialised status (the call is commented out in of_openfec_api.c). *)

(* what the call returns without having touched the session, or that it is handed to the codec *)
Inductive verdict := VDispatch | VFatal (* OF_STATUS_FATAL_ERROR *) | VError (* OF_STATUS_ERROR *) | VFalse (* false *).

Definition has_enc (r : role) : bool := match r with RDec => false | _ => true end.
Definition has_dec (r : role) : bool := match r with REnc => false | _ => true end.

Definition api_verdict (s : option ses) (c : call) : verdict :=
  match s with
  | None => match c with CIsComplete => VFalse | _ => VFatal end
  | Some s =>
    let n := u32 (s_k s + s_r s) in
    match c with
    | CBuild esi =>
        if negb (has_enc (s_role s)) then VFatal
        else if (esi <? s_k s) || (n <=? esi) then VError else VDispatch
    | CDecode bufnull esi =>
        if n <=? esi then VFatal
        else if bufnull || (n <=? esi) || negb (has_dec (s_role s)) then VFatal else VDispatch
    | CSetAvail tabnull =>
        if tabnull then VFatal else if negb (has_dec (s_role s)) then VFatal else VDispatch
    | CFinish => if negb (has_dec (s_role s)) then VFatal else VDispatch
    | CIsComplete => if negb (has_dec (s_role s)) then VFalse else VDispatch
    | CGetSrc => if negb (has_dec (s_role s)) then VFatal else VDispatch
    | CSetCb srcnull repnull => if srcnull && repnull then VFatal else VDispatch
    | CGetCtl type valnull len =>
        if (type =? 1) || (type =? 2) then (if valnull || negb (len =? 4) then VError else VDispatch)
        else if (type =? 1024) && s_ldpc s then VDispatch     (* value is dereferenced unchecked: not in the grid with NULL *)
        else VError
    end
  end.

Definition status_of (v : verdict) : Z := match v with VDispatch => 0 | VFatal => 3 | VError => 2 | VFalse => 0 end.

(* the documented domain of each call (property C09): a session, the right role, an ESI of the block
   (of a repair symbol for building), the pointers the API tests *)
Definition in_domain (s : option ses) (c : call) : Prop :=
  match s with
  | None => False
  | Some s =>
    match c with
    | CBuild esi => has_enc (s_role s) = true /\ s_k s <= esi < s_k s + s_r s
    | CDecode bufnull esi => has_dec (s_role s) = true /\ bufnull = false /\ esi < s_k s + s_r s
    | CSetAvail tabnull => has_dec (s_role s) = true /\ tabnull = false
    | CFinish | CIsComplete | CGetSrc => has_dec (s_role s) = true
    | CSetCb srcnull repnull => srcnull = false \/ repnull = false
    | CGetCtl type valnull len =>
        ((type = 1 \/ type = 2) /\ valnull = false /\ len = 4) \/ (type = 1024 /\ s_ldpc s = true)
    end
  end.

(* a refused call returns before the codec is entered: the session state is the one before the call *)
Definition api_step {St Out : Type} (dispatch : St -> call -> St * Out) (refused : verdict -> Out)
           (info : option ses) (st : St) (c : call) : St * Out :=
  match api_verdict info c with VDispatch => dispatch st c | v => (st, refused v) end.
