(* Model M/S of the Reed-Solomon encoders at symbol level (of_rs_encode / of_rs_2m_encode: repair symbol
   j = sum over i of G[j][i] * source symbol i, byte by byte; for GF(2^4) every byte carries two field
   elements).  G is the canonical generator of RSCanon.v (coefN = Lagrange basis on the points
   0, 1, x, x^2, ...); gen_row computes one row with the k inverses shared between the rows, and is
   proved equal to coefN.  This is what the extracted model runs against the C encoders. *)
From Coq Require Import List Arith NArith Bool Lia.
From OFV Require Import GF2Poly RSSpec GFField RSCanon.
Import ListNotations.
Local Open Scope N_scope.

Definition others (k i : nat) : list nat := filter (fun j => negb (Nat.eqb j i)) (seq 0 k).
Definition xorl (l : list N) : N := fold_right N.lxor 0 l.

Section G.
Variables (m p : N) (mul : N -> N -> N) (inv : N -> N).

(* the point list is computed once and shared (the extracted code is strict) *)
Definition invden_p (pts : list N) (k i : nat) : N :=
  inv (prod N 1 mul (map (fun j => N.lxor (nth i pts 0) (nth j pts 0)) (others k i))).
Definition invdens (k : nat) : list N := let pts := ptsN m p k in map (invden_p pts k) (seq 0 k).
Definition gen_row_p (pts ivd : list N) (k : nat) (x : N) : list N :=
  map (fun i => mul (prod N 1 mul (map (fun t => N.lxor x (nth t pts 0)) (others k i))) (nth i ivd 0)) (seq 0 k).
Definition gen_row (ivd : list N) (k j : nat) : list N := gen_row_p (ptsN m p k) ivd k (rs_point m p j).

Lemma ptsN_len k : length (ptsN m p k) = k.
Proof. unfold ptsN. now rewrite map_length, seq_length. Qed.

Lemma nth_map_seq0 {A} (f : nat -> A) k i d : (i < k)%nat -> nth i (map f (seq 0 k)) d = f i.
Proof.
  intros Hi. rewrite (nth_indep _ d (f 0%nat)) by (now rewrite map_length, seq_length).
  rewrite (map_nth f (seq 0 k) 0%nat i). now rewrite seq_nth.
Qed.

Lemma gen_row_nth k i j : (i < k)%nat -> nth i (gen_row (invdens k) k j) 0 = coefN m p mul inv k i j.
Proof.
  intros Hi. unfold gen_row, gen_row_p. rewrite nth_map_seq0 by exact Hi.
  unfold invdens. cbv zeta. rewrite nth_map_seq0 by exact Hi.
  unfold coefN, lagr_nd, invden_p, others, sub. rewrite ptsN_len. reflexivity.
Qed.

Lemma gen_row_length ivd k j : length (gen_row ivd k j) = k.
Proof. unfold gen_row, gen_row_p. now rewrite map_length, seq_length. Qed.

(* sum over i < k of row_i * (element i of the sources) *)
Definition dotN (row els : list N) : N := xorl (map (fun '(c, s) => mul s c) (combine row els)).

Lemma dotN_elem k j els : length els = k ->
  dotN (gen_row (invdens k) k j) els = elemN m p mul inv k els j.
Proof.
  intros Hl. unfold dotN, elemN, xorl. f_equal.
  assert (H : forall (row els0 : list N), length row = length els0 ->
     map (fun '(c, s) => mul s c) (combine row els0) = map (fun i => mul (nth i els0 0) (nth i row 0)) (seq 0 (length row))).
  { induction row as [|c row IH]; intros [|s els0] Hr; simpl in Hr; try discriminate; [reflexivity|].
    simpl. f_equal. rewrite <- seq_shift, map_map. apply IH. congruence. }
  rewrite (H (gen_row (invdens k) k j) els) by (rewrite gen_row_length; congruence). rewrite gen_row_length.
  apply map_ext_in. intros i Hin. apply in_seq in Hin.
  rewrite gen_row_nth by lia. reflexivity.
Qed.
End G.

(* ---- symbol level: symbols are byte lists of length L ---- *)
Definition byte_col (src : list (list N)) (b : nat) : list N := map (fun s => nth b s 0) src.

(* GF(2^8): one element per byte *)
Definition rs8_repair (k L : nat) (ivd : list N) (src : list (list N)) (j : nat) : list N :=
  let row := gen_row 8 P256 mul256 ivd k j in
  map (fun b => dotN mul256 row (byte_col src b)) (seq 0 L).
(* GF(2^4): two elements per byte, high and low nibble encoded independently *)
Definition rs4_repair (k L : nat) (ivd : list N) (src : list (list N)) (j : nat) : list N :=
  let row := gen_row 4 P16 mul16 ivd k j in
  map (fun b => N.lor (N.shiftl (dotN mul16 row (map (fun x => N.shiftr x 4) (byte_col src b))) 4)
                      (dotN mul16 row (map (fun x => N.land x 15) (byte_col src b)))) (seq 0 L).

(* all repair symbols of a block: m = 8 or 4, n - k repair symbols *)
Definition rs_repairs (m8 : bool) (k n L : nat) (src : list (list N)) : list (list N) :=
  if m8 then let ivd := invdens 8 P256 mul256 inv256 k in map (rs8_repair k L ivd src) (seq k (n - k))
  else let ivd := invdens 4 P16 mul16 inv16 k in map (rs4_repair k L ivd src) (seq k (n - k)).

Lemma rs8_repair_byte k L src j b : length src = k -> (b < L)%nat ->
  nth b (rs8_repair k L (invdens 8 P256 mul256 inv256 k) src j) 0 = elem256 k (byte_col src b) j.
Proof.
  intros Hl Hb. unfold rs8_repair. rewrite nth_map_seq0 by exact Hb.
  apply dotN_elem. unfold byte_col. now rewrite map_length.
Qed.

Lemma rs4_repair_byte k L src j b : length src = k -> (b < L)%nat ->
  nth b (rs4_repair k L (invdens 4 P16 mul16 inv16 k) src j) 0 =
  N.lor (N.shiftl (elem16 k (map (fun x => N.shiftr x 4) (byte_col src b)) j) 4)
        (elem16 k (map (fun x => N.land x 15) (byte_col src b)) j).
Proof.
  intros Hl Hb. unfold rs4_repair. rewrite nth_map_seq0 by exact Hb.
  rewrite !dotN_elem by (unfold byte_col; now rewrite !map_length). reflexivity.
Qed.

Lemma nth_rs_repairs8 k n L src e : (k <= e < n)%nat ->
  nth (e - k) (rs_repairs true k n L src) [] = rs8_repair k L (invdens 8 P256 mul256 inv256 k) src e.
Proof.
  intros He. unfold rs_repairs.
  rewrite (nth_indep _ [] (rs8_repair k L (invdens 8 P256 mul256 inv256 k) src 0)) by (rewrite map_length, seq_length; lia).
  rewrite (map_nth (rs8_repair k L (invdens 8 P256 mul256 inv256 k) src) (seq k (n - k)) 0%nat (e - k)).
  rewrite seq_nth by lia. f_equal. lia.
Qed.
