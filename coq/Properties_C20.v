(* C20 — eperftool block partitioning follows RFC 5052.
   of_compute_blocking_struct below is generated from /repo's applis/eperftool/blocking_struct.c by
   tools/c2gallina.py on every run (UINT32 values in Z, binary64 through Flocq; the printf is skipped). *)
From Coq Require Import ZArith.
From OFV Require Import CSem Blocking BlockingProofs BlockingFull.
From OFV.gen Require Import GenBlocking.
Local Open Scope Z_scope.

(* exact layer: the RFC 5052 quantities T = ceil(L/E), N = ceil(T/B), A_large = ceil(T/N),
   A_small = floor(T/N), I = T mod N form a partition of the T symbols *)
Theorem partition_exact : forall B L E, 1 <= B -> 1 <= L -> 1 <= E ->
  let p := rfc5052 B L E in
  1 <= p_T p <= L /\ 1 <= p_N p <= p_T p /\
  p_A_large p <= B /\ p_A_small p <= p_A_large p <= p_A_small p + 1 /\ 0 <= p_I p < p_N p /\
  p_I p * p_A_large p + (p_N p - p_I p) * p_A_small p = p_T p.
Proof. exact partition_exact_proof. Qed.

(* float layer: the C function, evaluated in binary64 (Flocq), returns exactly these values for ALL
   32-bit B, L, E >= 1: none of its five double -> UINT32 conversions is undefined, N, A_large and
   A_small are the exact ceilings/floor, the subtraction A - A_small is exact (Sterbenz), the product
   with N is within 2^-21 of T mod N, and double_to_closest_int selects that integer. *)
Theorem partition_float_layer : forall B L E,
  1 <= B < 2^32 -> 1 <= L < 2^32 -> 1 <= E < 2^32 ->
  let p := rfc5052 B L E in
  of_compute_blocking_struct B L E = Some (p_N p, p_A_large p, p_A_small p, p_I p).
Proof. exact blocking_full. Qed.

(* non-vacuity: the function does return on concrete inputs, including N >= 2^31 *)
Example blk_1 : of_compute_blocking_struct 10 1000 7 = Some (15, 10, 9, 8).  Proof. vm_compute. reflexivity. Qed.
Example blk_2 : of_compute_blocking_struct 1 4294967294 1 = Some (4294967294, 1, 1, 0).  Proof. vm_compute. reflexivity. Qed.

Print Assumptions partition_exact.
Print Assumptions partition_float_layer.
