(* C17 at the level of entry identities (SparseId.v): every entry of the matrix and every entry of the free list is
   named (block, index); the invariant PInv says that the names in use and the names on the free list are pairwise
   distinct, lie in blocks that have NOT been released, and account for every slot of every live block.  It holds of
   i_allocate, is preserved by every operation of the stream (insert, delete, clear, the four plain copies), and gives:
   no entry of the matrix and no entry of the free list points into a released block; clear releases everything; the
   entry handed out by of_alloc_entry is not in use.  The pre-fix clear (blocks released, free list kept) breaks it. *)
From Coq Require Import Arith List Bool Lia Permutation.
From OFV Require Import ListAux Sparse SparseProofs SparseOptProofs SparseChk SparseId.
Import ListNotations.

Definition PInv (m : imat) : Prop :=
     NoDup (map fst (ids m))
  /\ (forall k, In k (map fst (ids m)) <-> In k (entries (sm m)))
  /\ NoDup (map snd (ids m) ++ pfree (pl m))
  /\ (forall e, In e (map snd (ids m) ++ pfree (pl m)) -> In (fst e) (pblocks (pl m)) /\ snd e < BLOCK)
  /\ NoDup (pblocks (pl m)) /\ (forall b, In b (pblocks (pl m)) -> b < pnext (pl m))
  /\ length (ids m) + length (pfree (pl m)) = BLOCK * length (pblocks (pl m))
  /\ nblocks (sm m) = length (pblocks (pl m)) /\ nfree (sm m) = length (pfree (pl m)).

(* ---------- the pool alone: `used` is the list of names in use ---------- *)
Definition PoolInv (used : list (nat * nat)) (p : pool) : Prop :=
     NoDup (used ++ pfree p)
  /\ (forall e, In e (used ++ pfree p) -> In (fst e) (pblocks p) /\ snd e < BLOCK)
  /\ NoDup (pblocks p) /\ (forall b, In b (pblocks p) -> b < pnext p)
  /\ length used + length (pfree p) = BLOCK * length (pblocks p).

Lemma NoDup_app_intro {A} (l1 l2 : list A) :
  NoDup l1 -> NoDup l2 -> (forall x, In x l1 -> ~ In x l2) -> NoDup (l1 ++ l2).
Proof.
  induction l1 as [|a t IH]; intros H1 H2 Hd; [exact H2|]. simpl.
  inversion H1 as [|a' t' Ha Ht]; subst. constructor.
  - intros Hin. apply in_app_or in Hin as [Hin|Hin]; [exact (Ha Hin)|]. apply (Hd a); [now left|exact Hin].
  - apply IH; [exact Ht|exact H2|]. intros x Hx. apply Hd. now right.
Qed.

Lemma NoDup_app_l {A} (l1 l2 : list A) : NoDup (l1 ++ l2) -> NoDup l1.
Proof.
  induction l1 as [|a t IH]; intros H; [constructor|]. simpl in H. inversion H as [|a' t' Ha Ht]; subst. constructor.
  - intros Hin. apply Ha. apply in_or_app. now left.
  - apply IH. exact Ht.
Qed.

Lemma NoDup_map_pair (b : nat) (l : list nat) : NoDup l -> NoDup (map (fun i => (b, i)) l).
Proof.
  induction l as [|a t IH]; intros H; [constructor|]. inversion H as [|a' t' Ha Ht]; subst. simpl. constructor.
  - intros Hin. apply in_map_iff in Hin as (x & E & Hx). inversion E; subst. exact (Ha Hx).
  - apply IH. exact Ht.
Qed.

Lemma in_fresh_block (b B : nat) (i : nat * nat) : In i (map (fun i => (b, i)) (rev (seq 0 B))) <-> fst i = b /\ snd i < B.
Proof.
  rewrite in_map_iff. split.
  - intros (x & <- & Hx). apply in_rev, in_seq in Hx. simpl. split; [reflexivity|lia].
  - intros (E1 & E2). exists (snd i). split; [destruct i; simpl in *; now subst|]. apply -> in_rev. apply in_seq. lia.
Qed.

Lemma p_take_inv used p : PoolInv used p ->
  let '(p', e) := p_take p in
  PoolInv (e :: used) p' /\ ~ In e used /\
  length (pblocks p') = (if length (pfree p) =? 0 then S (length (pblocks p)) else length (pblocks p)) /\
  length (pfree p') = (if length (pfree p) =? 0 then BLOCK - 1 else length (pfree p) - 1).
Proof.
  intros (Hnd & Hlive & Hnb & Hlt & Hlen). unfold p_take. destruct (pfree p) as [|e rest] eqn:Ef.
  - (* a new block *)
    rewrite app_nil_r in Hnd, Hlive. cbn [length Nat.eqb] in *. pose proof BLOCK_pos as HB.
    remember (BLOCK - 1) as B1 eqn:EB1.
    assert (Hfresh : ~ In (pnext p) (pblocks p)) by (intros Hin; specialize (Hlt _ Hin); lia).
    assert (Hused : forall x, In x used -> fst x <> pnext p).
    { intros x Hx E. destruct (Hlive x Hx) as (Hin & _). rewrite E in Hin. exact (Hfresh Hin). }
    split; [|split; [|split]].
    + unfold PoolInv. cbn [pblocks pnext pfree]. split; [|split; [|split; [|split]]].
      * change ((pnext p, B1) :: used ++ map (fun i => (pnext p, i)) (rev (seq 0 B1)))
          with (((pnext p, B1) :: used) ++ map (fun i => (pnext p, i)) (rev (seq 0 B1))).
        apply NoDup_app_intro.
        -- constructor; [|exact Hnd]. intros Hin. apply (Hused _ Hin). reflexivity.
        -- apply NoDup_map_pair, NoDup_rev, seq_NoDup.
        -- intros x [<-|Hx] Hin; apply (proj1 (in_fresh_block (pnext p) B1 _)) in Hin; destruct Hin as (E1 & E2).
           ++ simpl in E2. lia.
           ++ exact (Hused x Hx E1).
      * intros x [<-|Hx].
        -- simpl. split; [now left|lia].
        -- apply in_app_or in Hx as [Hx|Hx].
           ++ destruct (Hlive x Hx) as (A & B). split; [now right|exact B].
           ++ apply (proj1 (in_fresh_block (pnext p) B1 _)) in Hx. destruct Hx as (E1 & E2). split; [now left|lia].
      * constructor; assumption.
      * intros b [<-|Hb]; [lia|]. specialize (Hlt b Hb). lia.
      * rewrite map_length, rev_length, seq_length. cbn [length]. rewrite Nat.mul_succ_r. lia.
    + intros Hin. apply (Hused _ Hin). reflexivity.
    + reflexivity.
    + cbn [pfree]. now rewrite map_length, rev_length, seq_length.
  - (* the head of the free list *)
    cbn [length Nat.eqb] in *.
    assert (Hperm : Permutation (used ++ e :: rest) ((e :: used) ++ rest)).
    { symmetry. apply Permutation_middle. }
    split; [|split; [|split]].
    + unfold PoolInv. cbn [pblocks pnext pfree]. split; [|split; [|split; [|split]]].
      * exact (Permutation_NoDup Hperm Hnd).
      * intros x Hx. apply Hlive. apply (Permutation_in x (Permutation_sym Hperm)). exact Hx.
      * exact Hnb.
      * exact Hlt.
      * cbn [length]. lia.
    + intros Hin. apply (NoDup_remove_2 _ _ _ Hnd). apply in_or_app. now left.
    + reflexivity.
    + cbn [pfree]. lia.
Qed.

(* ---------- the map from entries to names ---------- *)
Lemma key_eqb_eq a b : key_eqb a b = true <-> a = b.
Proof.
  unfold key_eqb. rewrite andb_true_iff, !Nat.eqb_eq. destruct a, b; simpl. split; [intros (-> & ->); reflexivity|].
  intros E; inversion E; auto.
Qed.

Lemma id_of_In l k e : id_of l k = Some e -> In (k, e) l.
Proof.
  induction l as [|(k', e') t IH]; simpl; [discriminate|]. destruct (key_eqb k' k) eqn:E.
  - apply key_eqb_eq in E. subst. intros H; inversion H; subst. now left.
  - intros H. right. apply IH. exact H.
Qed.

Lemma id_of_some l k : In k (map fst l) -> exists e, id_of l k = Some e.
Proof.
  induction l as [|(k', e') t IH]; simpl; [intros []|]. intros [E|Hin].
  - subst. assert (E : key_eqb k k = true) by (apply key_eqb_eq; reflexivity). rewrite E. eauto.
  - destruct (key_eqb k' k); [eauto|]. apply IH. exact Hin.
Qed.

Lemma drop_key_keys l k k' : In k' (map fst (drop_key l k)) <-> In k' (map fst l) /\ k' <> k.
Proof.
  unfold drop_key. rewrite !in_map_iff. split.
  - intros (x & <- & Hx). apply filter_In in Hx as (Hx & Hn). split; [exists x; auto|].
    intros E. apply key_eqb_eq in E. rewrite E in Hn. discriminate.
  - intros ((x & <- & Hx) & Hne). exists x. split; [reflexivity|]. apply filter_In. split; [exact Hx|].
    destruct (key_eqb (fst x) k) eqn:E; [|reflexivity]. apply key_eqb_eq in E. contradiction.
Qed.

Lemma drop_key_notin l k : ~ In k (map fst l) -> drop_key l k = l.
Proof.
  induction l as [|x t IH]; intros Hn; [reflexivity|]. simpl. destruct (key_eqb (fst x) k) eqn:E.
  - exfalso. apply Hn. left. apply key_eqb_eq. exact E.
  - simpl. f_equal. apply IH. intros H. apply Hn. now right.
Qed.

Lemma drop_key_NoDup l k : NoDup (map fst l) -> NoDup (map fst (drop_key l k)).
Proof.
  induction l as [|x t IH]; intros H; [constructor|]. inversion H as [|a' t' Ha Ht]; subst.
  simpl. destruct (negb (key_eqb (fst x) k)); [|apply IH; exact Ht].
  simpl. constructor; [|apply IH; exact Ht]. intros Hin. apply drop_key_keys in Hin. tauto.
Qed.

Lemma drop_key_perm l k e : NoDup (map fst l) -> id_of l k = Some e ->
  Permutation (map snd l) (e :: map snd (drop_key l k)) /\ length l = S (length (drop_key l k)).
Proof.
  induction l as [|(k', e') t IH]; intros Hnd Hid; [discriminate|]. simpl in Hnd. inversion Hnd as [|a' t' Ha Ht]; subst.
  simpl in Hid. cbn [map snd drop_key filter fst]. destruct (key_eqb k' k) eqn:E.
  - apply key_eqb_eq in E. subst k'. inversion Hid; subst e'. simpl.
    change (filter (fun x => negb (key_eqb (fst x) k)) t) with (drop_key t k).
    rewrite (drop_key_notin t k Ha). split; [apply Permutation_refl|reflexivity].
  - simpl. change (filter (fun x => negb (key_eqb (fst x) k)) t) with (drop_key t k).
    destruct (IH Ht Hid) as (Hp & Hl). split; [|now rewrite Hl].
    apply perm_trans with (e' :: e :: map snd (drop_key t k)); [now apply perm_skip|apply perm_swap].
Qed.

(* ---------- the matrix part ---------- *)
Lemma entries_has m k : In k (entries m) <-> fst k < nr m /\ has m (fst k) (snd k) = true.
Proof. destruct k as [i j]. rewrite entries_spec, has_In. reflexivity. Qed.

Lemma s_insert_oor m i j : nr m <= i \/ nc m <= j -> s_insert m i j = (m, OutOfRange).
Proof.
  intros H. unfold s_insert.
  assert (E : (nr m <=? i) || (nc m <=? j) = true).
  { apply orb_true_iff. destruct H; [left|right]; apply Nat.leb_le; assumption. }
  rewrite E. reflexivity.
Qed.

Lemma s_insert_counters m i j :
  match snd (s_insert m i j) with
  | Inserted | Garbled => nblocks (fst (s_insert m i j)) = fst (pool_take m) /\ nfree (fst (s_insert m i j)) = snd (pool_take m)
  | _ => fst (s_insert m i j) = m
  end.
Proof.
  unfold s_insert. destruct ((nr m <=? i) || (nc m <=? j)); [reflexivity|].
  destruct (ins_fast j (nth i (rws m) [])); [|reflexivity].
  destruct (pool_take m) as [nb nf]. destruct (ins_fast i (nth j (cls m) [])); simpl; auto.
Qed.

Lemma entries_clear m : entries (s_clear m) = [].
Proof.
  destruct (entries (s_clear m)) as [|k t] eqn:E; [reflexivity|]. exfalso.
  assert (Hin : In k (entries (s_clear m))) by (rewrite E; now left).
  apply entries_has in Hin as (_ & Hh). destruct (clear_wf m) as (_ & H0). rewrite H0 in Hh. discriminate.
Qed.

Lemma entries_allocate r c : entries (s_allocate r c) = [].
Proof.
  destruct (entries (s_allocate r c)) as [|k t] eqn:E; [reflexivity|]. exfalso.
  assert (Hin : In k (entries (s_allocate r c))) by (rewrite E; now left).
  apply entries_has in Hin as (_ & Hh). destruct (allocate_wf r c) as (_ & H0). rewrite H0 in Hh. discriminate.
Qed.

(* ---------- I1 ---------- *)
Theorem i_allocate_inv r c : PInv (i_allocate r c).
Proof.
  unfold PInv, i_allocate. cbn [sm ids pl p_empty pblocks pnext pfree map app length nblocks nfree s_allocate].
  split; [constructor|]. split.
  { intros k. change (In k [] <-> In k (entries (s_allocate r c))). rewrite entries_allocate. reflexivity. }
  split; [constructor|]. split; [intros e []|]. split; [constructor|]. split; [intros b []|].
  split; [now rewrite Nat.mul_0_r|]. split; reflexivity.
Qed.

(* ---------- I2 erasure ---------- *)
Theorem i_insert_sm m i j : sm (fst (i_insert m i j)) = fst (s_insert (sm m) i j).
Proof. unfold i_insert. destruct (s_insert (sm m) i j) as [m' res]. destruct res, (p_take (pl m)); reflexivity. Qed.

Theorem i_insert_res m i j : snd (i_insert m i j) = snd (s_insert (sm m) i j).
Proof. unfold i_insert. destruct (s_insert (sm m) i j) as [m' res]. destruct res, (p_take (pl m)); reflexivity. Qed.

Theorem i_delete_sm m i j : sm (i_delete m i j) = s_delete (sm m) i j.
Proof.
  unfold i_delete, s_delete. destruct (mem j (nth i (rws (sm m)) [])) eqn:E; [|reflexivity].
  destruct (id_of (ids m) (i, j)); reflexivity.
Qed.

Theorem i_clear_sm m : sm (i_clear m) = s_clear (sm m).
Proof. reflexivity. Qed.

Theorem i_insert_all_sm es : forall m, sm (i_insert_all m es) = insert_all (sm m) es.
Proof.
  induction es as [|e es IH]; intros m; [reflexivity|]. unfold i_insert_all, insert_all. cbn [fold_left].
  fold (i_insert_all (fst (i_insert m (fst e) (snd e))) es). fold (insert_all (fst (s_insert (sm m) (fst e) (snd e))) es).
  rewrite IH, i_insert_sm. reflexivity.
Qed.

Theorem i_copy_sm m r : sm (i_copy m r) = s_copy (sm m) (sm r).
Proof.
  unfold i_copy, s_copy. destruct ((nr (sm r) <? nr (sm m)) || (nc (sm r) <? nc (sm m))); [reflexivity|].
  rewrite i_insert_all_sm. reflexivity.
Qed.

Theorem i_copyrows_sm m r rows : sm (i_copyrows m r rows) = s_copyrows_chk (sm m) (sm r) rows.
Proof.
  unfold i_copyrows, s_copyrows_chk. destruct (nc (sm r) <? nc (sm m)); [reflexivity|].
  rewrite i_insert_all_sm. reflexivity.
Qed.

Theorem i_copycols_sm m r cols : sm (i_copycols m r cols) = s_copycols_chk (sm m) (sm r) cols.
Proof.
  unfold i_copycols, s_copycols_chk. destruct (nr (sm r) <? nr (sm m)); [reflexivity|].
  rewrite i_insert_all_sm. reflexivity.
Qed.

Theorem i_copy_filled_sm m r irows icols : sm (i_copy_filled m r irows icols) = s_copy_filled (sm m) (sm r) irows icols.
Proof. unfold i_copy_filled, s_copy_filled. rewrite i_insert_all_sm. reflexivity. Qed.

(* ---------- well-formedness of the matrix part is preserved (any indices: out of range = no change) ---------- *)
Lemma s_insert_wf m i j : WF m -> WF (fst (s_insert m i j)).
Proof.
  intros W. destruct (Nat.lt_ge_cases i (nr m)) as [Hi|Hi]; [|rewrite s_insert_oor by (now left); exact W].
  destruct (Nat.lt_ge_cases j (nc m)) as [Hj|Hj]; [|rewrite s_insert_oor by (now right); exact W].
  pose proof (insert_spec m i j W Hi Hj) as H. destruct (s_insert m i j) as [m' st]. apply H.
Qed.

Lemma i_insert_wf m i j : WF (sm m) -> WF (sm (fst (i_insert m i j))).
Proof. intros W. rewrite i_insert_sm. apply s_insert_wf. exact W. Qed.

Lemma s_delete_wf m i j : WF m -> WF (s_delete m i j).
Proof.
  intros W. destruct (mem j (nth i (rws m) [])) eqn:E; [|unfold s_delete; rewrite E; exact W].
  apply mem_In in E.
  assert (Hi : i < nr m).
  { destruct (Nat.lt_ge_cases i (nr m)) as [Hi|Hi]; [exact Hi|]. rewrite nth_overflow in E by (rewrite (wf_rl m W); exact Hi). destruct E. }
  assert (Hj : j < nc m) by (apply (wf_rs m W i Hi); exact E).
  apply (delete_spec m i j W Hi Hj).
Qed.

Lemma s_delete_fields m i j : mem j (nth i (rws m) []) = true ->
  nr (s_delete m i j) = nr m /\ nblocks (s_delete m i j) = nblocks m /\ nfree (s_delete m i j) = S (nfree m).
Proof. intros E. unfold s_delete. rewrite E. cbn [nr nblocks nfree]. auto. Qed.

(* ---------- I3 preservation ---------- *)
Lemma PInv_pool m : PInv m -> PoolInv (map snd (ids m)) (pl m).
Proof. intros (_ & _ & A & B & C & D & E & _). unfold PoolInv. rewrite map_length. tauto. Qed.

Lemma PInv_same m m' : sm m' = sm m -> ids m' = ids m -> pl m' = pl m -> PInv m -> PInv m'.
Proof. unfold PInv. intros -> -> ->. tauto. Qed.

Theorem i_insert_inv m i j : WF (sm m) -> PInv m -> PInv (fst (i_insert m i j)).
Proof.
  intros W P.
  assert (Hsame : PInv {| sm := sm m; ids := ids m; pl := pl m |}) by exact (PInv_same m _ eq_refl eq_refl eq_refl P).
  unfold i_insert.
  destruct (Nat.lt_ge_cases i (nr (sm m))) as [Hi|Hi]; [|rewrite s_insert_oor by (now left); exact Hsame].
  destruct (Nat.lt_ge_cases j (nc (sm m))) as [Hj|Hj]; [|rewrite s_insert_oor by (now right); exact Hsame].
  pose proof (insert_spec (sm m) i j W Hi Hj) as HS. pose proof (s_insert_counters (sm m) i j) as HC.
  destruct (s_insert (sm m) i j) as [m' res]. cbn [fst snd] in HC. destruct HS as (W' & En & Ec & Hh & Hres).
  destruct (has (sm m) i j) eqn:Eh; subst res.
  - (* the entry exists: nothing changes *)
    subst m'. exact Hsame.
  - (* a new entry: of_alloc_entry *)
    destruct HC as (Cb & Cf).
    pose proof (p_take_inv _ _ (PInv_pool m P)) as HT. destruct (p_take (pl m)) as [p' e]. cbn [fst].
    destruct HT as ((T1 & T2 & T3 & T4 & T5) & Tfresh & Tb & Tf).
    destruct P as (P1 & P2 & P3 & P4 & P5 & P6 & P7 & P8 & P9).
    unfold PInv. cbn [sm ids pl].
    split.
    { change (NoDup ((i, j) :: map fst (ids m))). constructor; [|exact P1]. intros Hin. apply P2, entries_has in Hin.
      cbn [fst snd] in Hin. destruct Hin as (_ & Hin). congruence. }
    split.
    { intros k. change (In k ((i, j) :: map fst (ids m)) <-> In k (entries m')). rewrite entries_has, En, Hh. split.
      - intros [<-|Hin].
        + cbn [fst snd]. rewrite !Nat.eqb_refl, orb_true_r. auto.
        + apply P2, entries_has in Hin as (A & B). rewrite B. auto.
      - intros (A & B). apply orb_true_iff in B as [B|B].
        + right. apply P2, entries_has. auto.
        + apply andb_true_iff in B as (B1 & B2). apply Nat.eqb_eq in B1, B2. left. destruct k; simpl in *; subst; reflexivity. }
    split; [exact T1|]. split; [exact T2|]. split; [exact T3|]. split; [exact T4|].
    split.
    { cbn [length] in *. rewrite map_length in T5. exact T5. }
    rewrite Cb, Cf, Tb, Tf. unfold pool_take. rewrite P9, P8. destruct (length (pfree (pl m)) =? 0); split; reflexivity.
Qed.

Theorem i_delete_inv m i j : WF (sm m) -> PInv m -> PInv (i_delete m i j).
Proof.
  intros W P. unfold i_delete. destruct (mem j (nth i (rws (sm m)) [])) eqn:E; [|exact P].
  pose proof E as E'. apply mem_In in E'.
  assert (Hi : i < nr (sm m)).
  { destruct (Nat.lt_ge_cases i (nr (sm m))) as [Hi|Hi]; [exact Hi|].
    rewrite nth_overflow in E' by (rewrite (wf_rl _ W); exact Hi). destruct E'. }
  assert (Hj : j < nc (sm m)) by (apply (wf_rs _ W i Hi); exact E').
  destruct (delete_spec (sm m) i j W Hi Hj) as (W' & Hh).
  destruct (s_delete_fields (sm m) i j E) as (Dn & Db & Df).
  destruct P as (P1 & P2 & P3 & P4 & P5 & P6 & P7 & P8 & P9).
  assert (Hk : In (i, j) (map fst (ids m))) by (apply P2, entries_spec; auto).
  destruct (id_of_some _ _ Hk) as (e & He). rewrite He.
  destruct (drop_key_perm _ _ _ P1 He) as (Hperm & Hlen).
  assert (HP : Permutation (map snd (ids m) ++ pfree (pl m)) (map snd (drop_key (ids m) (i, j)) ++ e :: pfree (pl m))).
  { apply perm_trans with ((e :: map snd (drop_key (ids m) (i, j))) ++ pfree (pl m)).
    - apply Permutation_app_tail. exact Hperm.
    - apply Permutation_middle. }
  unfold PInv. cbn [sm ids pl p_give pblocks pnext pfree].
  split; [apply drop_key_NoDup; exact P1|].
  split.
  { intros k. rewrite drop_key_keys, P2, !entries_has, Dn, Hh, andb_true_iff, negb_true_iff. split.
    - intros ((A & B) & C). split; [exact A|]. split; [exact B|].
      destruct (Nat.eqb_spec (fst k) i) as [E1|E1]; [|reflexivity].
      destruct (Nat.eqb_spec (snd k) j) as [E2|E2]; [|reflexivity].
      exfalso. apply C. destruct k; simpl in *; subst; reflexivity.
    - intros (A & B & C). split; [auto|]. intros ->. cbn [fst snd] in C. rewrite !Nat.eqb_refl in C. discriminate. }
  split; [exact (Permutation_NoDup HP P3)|].
  split; [intros x Hx; apply P4; exact (Permutation_in x (Permutation_sym HP) Hx)|].
  split; [exact P5|]. split; [exact P6|].
  split; [cbn [length]; lia|].
  split; [congruence|]. cbn [length]. congruence.
Qed.

Theorem i_clear_inv m : PInv (i_clear m).
Proof.
  unfold PInv, i_clear. cbn [sm ids pl p_clear pblocks pnext pfree map app length].
  split; [constructor|]. split.
  { intros k. rewrite entries_clear. reflexivity. }
  split; [constructor|]. split; [intros e []|]. split; [constructor|]. split; [intros b []|].
  split; [now rewrite Nat.mul_0_r|]. split; reflexivity.
Qed.

Lemma i_clear_wf m : WF (sm (i_clear m)).
Proof. apply clear_wf. Qed.

Lemma i_allocate_wf r c : WF (sm (i_allocate r c)).
Proof. apply allocate_wf. Qed.

Theorem i_insert_all_inv es : forall m, WF (sm m) -> PInv m -> WF (sm (i_insert_all m es)) /\ PInv (i_insert_all m es).
Proof.
  induction es as [|e es IH]; intros m W P; [split; assumption|].
  unfold i_insert_all. cbn [fold_left]. fold (i_insert_all (fst (i_insert m (fst e) (snd e))) es).
  apply IH; [apply i_insert_wf; exact W|apply i_insert_inv; assumption].
Qed.

(* the copies: the source is only read (in fact nothing at all is needed of it: an out-of-range entry is refused) *)
Theorem i_copy_inv m r : WF (sm r) -> PInv r -> WF (sm (i_copy m r)) /\ PInv (i_copy m r).
Proof.
  intros W P. unfold i_copy. destruct ((nr (sm r) <? nr (sm m)) || (nc (sm r) <? nc (sm m))); [split; assumption|].
  apply i_insert_all_inv; [apply i_clear_wf|apply i_clear_inv].
Qed.

Theorem i_copyrows_inv m r rows : WF (sm r) -> PInv r -> WF (sm (i_copyrows m r rows)) /\ PInv (i_copyrows m r rows).
Proof.
  intros W P. unfold i_copyrows. destruct (nc (sm r) <? nc (sm m)); [split; assumption|].
  apply i_insert_all_inv; [apply i_clear_wf|apply i_clear_inv].
Qed.

Theorem i_copycols_inv m r cols : WF (sm r) -> PInv r -> WF (sm (i_copycols m r cols)) /\ PInv (i_copycols m r cols).
Proof.
  intros W P. unfold i_copycols. destruct (nr (sm r) <? nr (sm m)); [split; assumption|].
  apply i_insert_all_inv; [apply i_clear_wf|apply i_clear_inv].
Qed.

Theorem i_copy_filled_inv m r irows icols : WF (sm r) -> PInv r ->
  WF (sm (i_copy_filled m r irows icols)) /\ PInv (i_copy_filled m r irows icols).
Proof. intros W P. unfold i_copy_filled. apply i_insert_all_inv; assumption. Qed.

(* every operation of the stream *)
Theorem i_step_inv m o : WF (sm m) -> PInv m -> WF (sm (i_step m o)) /\ PInv (i_step m o).
Proof.
  intros W P.
  assert (J : forall r c junk, WF (sm (i_insert_all (i_allocate r c) junk)) /\ PInv (i_insert_all (i_allocate r c) junk)).
  { intros r c junk. apply i_insert_all_inv; [apply i_allocate_wf|apply i_allocate_inv]. }
  destruct o as [i j|i j| |dr dc junk|rows junk|cols junk|ir ic r2 c2| ]; cbn [i_step].
  - split; [apply i_insert_wf; exact W|apply i_insert_inv; assumption].
  - split; [rewrite i_delete_sm; apply s_delete_wf; exact W|apply i_delete_inv; assumption].
  - split; [apply i_clear_wf|apply i_clear_inv].
  - apply i_copy_inv; apply J.
  - apply i_copyrows_inv; apply J.
  - apply i_copycols_inv; apply J.
  - apply i_copy_filled_inv; [apply i_allocate_wf|apply i_allocate_inv].
  - split; assumption.
Qed.

(* the states the stream can reach *)
Inductive reach : imat -> Prop :=
| reach_alloc r c : reach (i_allocate r c)
| reach_step m o : reach m -> reach (i_step m o).

Theorem reach_inv m : reach m -> WF (sm m) /\ PInv m.
Proof.
  induction 1 as [r c|m o _ IH].
  - split; [apply i_allocate_wf|apply i_allocate_inv].
  - apply i_step_inv; apply IH.
Qed.

(* ---------- I4 the property ---------- *)
Theorem no_dangling_entry m : PInv m -> forall k e, id_of (ids m) k = Some e -> In (fst e) (pblocks (pl m)).
Proof.
  intros (_ & _ & _ & P4 & _) k e He. apply P4. apply in_or_app. left.
  apply id_of_In in He. apply in_map_iff. exists (k, e). auto.
Qed.

Theorem free_list_in_live_blocks m : PInv m -> forall e, In e (pfree (pl m)) -> In (fst e) (pblocks (pl m)).
Proof. intros (_ & _ & _ & P4 & _) e He. apply P4. apply in_or_app. now right. Qed.

Theorem clear_releases_everything m : pblocks (pl (i_clear m)) = [] /\ pfree (pl (i_clear m)) = [] /\ ids (i_clear m) = [].
Proof. repeat split. Qed.

Theorem take_is_fresh m : PInv m -> let '(p', e) := p_take (pl m) in ~ In e (map snd (ids m)).
Proof.
  intros P. pose proof (p_take_inv _ _ (PInv_pool m P)) as HT. destruct (p_take (pl m)) as [p' e]. apply HT.
Qed.

(* every name in use and every name on the free list is a slot of a live block, and distinct matrix entries have
   distinct names (no entry is handed out twice) *)
Theorem names_distinct m : PInv m -> forall k1 k2 e, id_of (ids m) k1 = Some e -> id_of (ids m) k2 = Some e -> k1 = k2.
Proof.
  intros (_ & _ & P3 & _) k1 k2 e H1 H2. apply id_of_In in H1, H2.
  apply NoDup_app_l in P3. revert P3 H1 H2. generalize (ids m). intros l. induction l as [|(k, x) t IH]; [intros _ []|].
  simpl. intros Hnd [E1|I1] [E2|I2].
  - congruence.
  - inversion E1; subst. inversion Hnd as [|a' t' Ha Ht]; subst. exfalso. apply Ha. apply in_map_iff. exists (k2, e). auto.
  - inversion E2; subst. inversion Hnd as [|a' t' Ha Ht]; subst. exfalso. apply Ha. apply in_map_iff. exists (k1, e). auto.
  - inversion Hnd; subst. auto.
Qed.

(* ---------- I5 the behaviour before the fix: blocks released, free list kept ---------- *)
Definition p_clear_buggy (p : pool) : pool := {| pblocks := []; pnext := pnext p; pfree := pfree p |}.

Theorem buggy_clear_dangles m : pfree (pl m) <> [] ->
  ~ (forall e, In e (pfree (p_clear_buggy (pl m))) -> In (fst e) (pblocks (p_clear_buggy (pl m)))).
Proof.
  intros Hne H. cbn [p_clear_buggy pfree pblocks] in H. destruct (pfree (pl m)) as [|e t]; [now apply Hne|].
  exact (H e (or_introl eq_refl)).
Qed.

(* and so the result of the buggy clear cannot satisfy the invariant, whatever the matrix part and the names are *)
Corollary buggy_clear_breaks_PInv m s l : pfree (pl m) <> [] -> ~ PInv {| sm := s; ids := l; pl := p_clear_buggy (pl m) |}.
Proof.
  intros Hne P. apply (buggy_clear_dangles m Hne). intros e He.
  apply (free_list_in_live_blocks _ P). exact He.
Qed.

(* a reachable witness: allocate 1 x 1, insert (0, 0), delete it: the entry sits on the free list *)
Definition witness : imat := i_step (i_step (i_allocate 1 1) (IInsert 0 0)) (IDelete 0 0).

Lemma witness_reach : reach witness.
Proof. unfold witness. apply reach_step, reach_step, reach_alloc. Qed.

Lemma delete_pushes m i j : PInv m -> mem j (nth i (rws (sm m)) []) = true -> i < nr (sm m) -> pfree (pl (i_delete m i j)) <> [].
Proof.
  intros (P1 & P2 & _) E Hi. unfold i_delete. rewrite E.
  assert (Hk : In (i, j) (map fst (ids m))) by (apply P2, entries_spec; split; [exact Hi|apply mem_In; exact E]).
  destruct (id_of_some _ _ Hk) as (e & He). rewrite He. cbn [pl p_give pfree]. discriminate.
Qed.

Example buggy_clear_example :
  exists m, reach m /\ PInv m /\ pfree (pl m) <> [] /\
            ~ (forall e, In e (pfree (p_clear_buggy (pl m))) -> In (fst e) (pblocks (p_clear_buggy (pl m)))).
Proof.
  exists witness. pose proof (reach_inv _ witness_reach) as (W & P).
  assert (Hne : pfree (pl witness) <> []).
  { unfold witness. cbn [i_step]. apply delete_pushes.
    - apply i_insert_inv; [apply i_allocate_wf|apply i_allocate_inv].
    - rewrite i_insert_sm. reflexivity.
    - rewrite i_insert_sm. cbn. auto. }
  split; [exact witness_reach|]. split; [exact P|]. split; [exact Hne|]. apply buggy_clear_dangles. exact Hne.
Qed.

(* the literal scenario "insert; clear": after one insertion into a fresh matrix the rest of the new block (BLOCK - 1
   entries) is on the free list, and the buggy clear leaves all of them pointing into the released block *)
Lemma BLOCK_ge2 : 2 <= BLOCK.
Proof. apply Nat.leb_le. vm_compute. reflexivity. Qed.

Definition witness2 : imat := i_step (i_allocate 1 1) (IInsert 0 0).

Lemma witness2_free : length (pfree (pl witness2)) = BLOCK - 1.
Proof.
  unfold witness2. cbn [i_step]. unfold i_insert.
  change (s_insert (sm (i_allocate 1 1)) 0 0) with (s_insert (s_allocate 1 1) 0 0).
  cbn. rewrite map_length, rev_length, seq_length. reflexivity.
Qed.

Example buggy_clear_after_insert :
  reach witness2 /\ PInv witness2 /\ length (pfree (p_clear_buggy (pl witness2))) = BLOCK - 1 /\
  pblocks (p_clear_buggy (pl witness2)) = [] /\
  ~ (forall e, In e (pfree (p_clear_buggy (pl witness2))) -> In (fst e) (pblocks (p_clear_buggy (pl witness2)))).
Proof.
  assert (R : reach witness2) by (apply reach_step, reach_alloc).
  split; [exact R|]. split; [apply (reach_inv _ R)|]. split; [exact witness2_free|]. split; [reflexivity|].
  apply buggy_clear_dangles. intros E. pose proof witness2_free as H. rewrite E in H. pose proof BLOCK_ge2. simpl in H. lia.
Qed.

Print Assumptions i_allocate_inv.
Print Assumptions i_insert_inv.
Print Assumptions i_delete_inv.
Print Assumptions i_clear_inv.
Print Assumptions i_insert_all_inv.
Print Assumptions i_copy_inv.
Print Assumptions i_copyrows_inv.
Print Assumptions i_copycols_inv.
Print Assumptions i_copy_filled_inv.
Print Assumptions i_step_inv.
Print Assumptions reach_inv.
Print Assumptions i_copyrows_sm.
Print Assumptions i_copycols_sm.
Print Assumptions i_copy_sm.
Print Assumptions i_copy_filled_sm.
Print Assumptions no_dangling_entry.
Print Assumptions free_list_in_live_blocks.
Print Assumptions clear_releases_everything.
Print Assumptions take_is_fresh.
Print Assumptions names_distinct.
Print Assumptions buggy_clear_breaks_PInv.
Print Assumptions buggy_clear_example.
Print Assumptions buggy_clear_after_insert.
