(* Facts about the operators of CSem.v: when they are exact, what real number they denote. *)
From Flocq Require Import Core Relative IEEE754.BinarySingleNaN.
From Coq Require Import Reals ZArith Lia Lra Bool.
From OFV Require Import CSem FloatLemmas.
Local Open Scope Z_scope.

Lemma wrapu_small n z : 0 <= z < 2 ^ n -> wrapu n z = z.
Proof. intros H. unfold wrapu. apply Z.mod_small. exact H. Qed.
Lemma wrapu64_small z : 0 <= z < 2 ^ 64 -> wrapu64 z = z.  Proof. apply wrapu_small. Qed.
Lemma wrapu32_small z : 0 <= z < 2 ^ 32 -> wrapu32 z = z.  Proof. apply wrapu_small. Qed.
Lemma chk_shift_ok w a v : 0 <= a < w -> chk_shift w a v = Some v.
Proof. intros H. unfold chk_shift. destruct (Z.leb_spec 0 a), (Z.ltb_spec a w); simpl; auto; lia. Qed.

Local Open Scope R_scope.
Definition fin (x : binary64) := is_finite x = true.
Definition R64 (x : binary64) : R := B2R x.

Lemma fexp64 : SpecFloat.fexp prec64 emax64 = FLT_exp (-1074) 53.
Proof. reflexivity. Qed.

Lemma rnd64_abs_le_pow53 v : Rabs v <= IZR (2^53) -> Rabs (rnd64 v) <= IZR (2^53).
Proof.
  intros H. apply abs_round_le_generic; [apply FLT_exp_valid; reflexivity | apply valid_rnd_N | | exact H].
  apply int_is_double. simpl. lia.
Qed.

Lemma pow53_lt_emax : IZR (2^53) < bpow radix2 emax64.
Proof. change (2^53)%Z with (Zpower radix2 53). rewrite IZR_Zpower by lia. apply bpow_lt. reflexivity. Qed.

Lemma d_of_Z_exact z : (Z.abs z <= 2^53)%Z -> R64 (d_of_Z z) = IZR z /\ fin (d_of_Z z).
Proof.
  intros Hz. unfold d_of_Z, R64, fin.
  pose proof (binary_normalize_correct prec64 emax64 prec64_gt_0 prec64_lt_emax mode_NE z 0 false) as H.
  cbv zeta in H. rewrite fexp64 in H.
  replace (F2R (Float radix2 z 0)) with (IZR z) in H by (unfold F2R; simpl; ring).
  change (round radix2 (FLT_exp (-1074) 53) (round_mode mode_NE)) with rnd64 in H.
  rewrite rnd64_int in H by exact Hz.
  rewrite Rlt_bool_true in H.
  - destruct H as (A & B & _). split; assumption.
  - apply Rle_lt_trans with (IZR (2^53)); [|apply pow53_lt_emax].
    rewrite <- abs_IZR. apply IZR_le. exact Hz.
Qed.

(* product of two finite doubles whose exact product is an integer of magnitude <= 2^53 *)
Lemma d_mul_exact x y p : fin x -> fin y -> R64 x * R64 y = IZR p -> (Z.abs p <= 2^53)%Z ->
  R64 (d_mul x y) = IZR p /\ fin (d_mul x y).
Proof.
  intros Fx Fy Hp Hb. unfold d_mul, R64, fin in *.
  pose proof (Bmult_correct prec64 emax64 prec64_gt_0 prec64_lt_emax mode_NE x y) as H.
  rewrite fexp64 in H. rewrite Hp in H.
  change (round radix2 (FLT_exp (-1074) 53) (round_mode mode_NE)) with rnd64 in H.
  rewrite rnd64_int in H by exact Hb.
  rewrite Rlt_bool_true in H.
  - destruct H as (A & B & _). rewrite Fx, Fy in B. split; assumption.
  - apply Rle_lt_trans with (IZR (2^53)); [|apply pow53_lt_emax].
    rewrite <- abs_IZR. apply IZR_le. exact Hb.
Qed.

(* quotient: correctly rounded when the rounded result is of magnitude <= 2^53 *)
Lemma d_div_rounded x y : fin x -> fin y -> R64 y <> 0 -> Rabs (R64 x / R64 y) <= IZR (2^53) ->
  R64 (d_div x y) = rnd64 (R64 x / R64 y) /\ fin (d_div x y).
Proof.
  intros Fx Fy Hy Hb. unfold d_div, R64, fin in *.
  pose proof (Bdiv_correct prec64 emax64 prec64_gt_0 prec64_lt_emax mode_NE x y Hy) as H.
  rewrite fexp64 in H.
  change (round radix2 (FLT_exp (-1074) 53) (round_mode mode_NE)) with rnd64 in H.
  rewrite Rlt_bool_true in H.
  - destruct H as (A & B & _). rewrite Fx in B. split; assumption.
  - apply Rle_lt_trans with (IZR (2^53)); [apply rnd64_abs_le_pow53; exact Hb|apply pow53_lt_emax].
Qed.

Lemma Btrunc_R x : Btrunc x = Ztrunc (R64 x).
Proof.
  apply eq_IZR. rewrite Btrunc_correct by exact prec64_lt_emax. unfold round, F2R, scaled_mantissa. simpl.
  unfold FIX_exp. simpl. rewrite !Rmult_1_r. reflexivity.
Qed.

Lemma d_to_int_ok lo hi x : fin x -> (lo <= Ztrunc (R64 x) <= hi)%Z ->
  d_to_int lo hi x = Some (Ztrunc (R64 x)).
Proof.
  intros Fx Hr. unfold d_to_int, fin in *. rewrite Fx, Btrunc_R.
  destruct (Z.leb_spec lo (Ztrunc (R64 x))), (Z.leb_spec (Ztrunc (R64 x)) hi); simpl; auto; lia.
Qed.

(* ---- rounded (inexact) operations ---- *)
Lemma rnd64_abs_le_bpow e v : (-1074 <= e)%Z -> Rabs v <= bpow radix2 e -> Rabs (rnd64 v) <= bpow radix2 e.
Proof.
  intros He H. apply abs_round_le_generic; [apply FLT_exp_valid; reflexivity | apply valid_rnd_N | | exact H].
  apply generic_format_bpow. unfold FLT_exp. lia.
Qed.

Lemma d_mul_rounded x y : fin x -> fin y -> Rabs (R64 x * R64 y) <= bpow radix2 1000 ->
  R64 (d_mul x y) = rnd64 (R64 x * R64 y) /\ fin (d_mul x y).
Proof.
  intros Fx Fy Hb. unfold d_mul, R64, fin in *.
  pose proof (Bmult_correct prec64 emax64 prec64_gt_0 prec64_lt_emax mode_NE x y) as H.
  rewrite fexp64 in H.
  change (round radix2 (FLT_exp (-1074) 53) (round_mode mode_NE)) with rnd64 in H.
  rewrite Rlt_bool_true in H.
  - destruct H as (A & B & _). rewrite Fx, Fy in B. split; assumption.
  - apply Rle_lt_trans with (bpow radix2 1000); [apply rnd64_abs_le_bpow; [lia|exact Hb]|apply bpow_lt; reflexivity].
Qed.

Lemma rnd64_rel_err v : 1 <= v -> Rabs (rnd64 v - v) <= / 9007199254740992 * v.
Proof.
  intros Hv.
  assert (Hbig : bpow radix2 (-1074 + 53 - 1) <= Rabs v).
  { rewrite Rabs_pos_eq by lra. apply Rle_trans with 1; [|exact Hv].
    change 1 with (bpow radix2 0). apply bpow_le. lia. }
  pose proof (relative_error_N_FLT radix2 (-1074) 53 ltac:(lia) (fun z => negb (Z.even z)) v Hbig) as Herr.
  change (round radix2 (FLT_exp (-1074) 53) (Znearest (fun z => negb (Z.even z))) v) with (rnd64 v) in Herr.
  rewrite (Rabs_pos_eq v) in Herr by lra.
  assert (Hp : / 2 * bpow radix2 (-53+1) = / 9007199254740992).
  { change (-53+1)%Z with (-(52))%Z. rewrite bpow_opp.
    replace (bpow radix2 52) with 4503599627370496 by (rewrite <- IZR_Zpower by lia; reflexivity). lra. }
  change (- (53) + 1)%Z with (-53 + 1)%Z in Herr. rewrite Hp in Herr. exact Herr.
Qed.

Lemma rnd64_ge_0 v : 0 <= v -> 0 <= rnd64 v.
Proof.
  intros H. unfold rnd64. apply round_ge_generic;
    [apply FLT_exp_valid; reflexivity|apply valid_rnd_N|apply generic_format_0|exact H].
Qed.

Lemma rnd64_le_format v z : generic_format radix2 (FLT_exp (-1074) 53) z -> v <= z -> rnd64 v <= z.
Proof.
  intros Hz H. unfold rnd64. apply round_le_generic;
    [apply FLT_exp_valid; reflexivity|apply valid_rnd_N|exact Hz|exact H].
Qed.

(* ---- ceil / floor / fabs / comparison / subtraction ---- *)
Lemma round_FIX0 (rnd : R -> Z) x : round radix2 (FIX_exp 0) rnd x = IZR (rnd x).
Proof. unfold round, F2R, scaled_mantissa, FIX_exp. simpl. rewrite !Rmult_1_r. reflexivity. Qed.

Lemma d_ceil_R x : fin x -> R64 (d_ceil x) = IZR (Zceil (R64 x)) /\ fin (d_ceil x).
Proof.
  intros Fx. unfold d_ceil, R64, fin in *.
  destruct (Bnearbyint_correct prec64 emax64 prec64_lt_emax mode_UP x) as (A & B & _).
  rewrite round_FIX0 in A. simpl round_mode in A. rewrite B. split; assumption.
Qed.

Lemma d_floor_R x : fin x -> R64 (d_floor x) = IZR (Zfloor (R64 x)) /\ fin (d_floor x).
Proof.
  intros Fx. unfold d_floor, R64, fin in *.
  destruct (Bnearbyint_correct prec64 emax64 prec64_lt_emax mode_DN x) as (A & B & _).
  rewrite round_FIX0 in A. simpl round_mode in A. rewrite B. split; assumption.
Qed.

Lemma d_fabs_R x : R64 (d_fabs x) = Rabs (R64 x) /\ (fin x -> fin (d_fabs x)).
Proof. unfold d_fabs, R64, fin. rewrite B2R_Babs, is_finite_Babs. auto. Qed.

Lemma d_lt_R x y : fin x -> fin y -> d_lt x y = Rlt_bool (R64 x) (R64 y).
Proof. intros. apply Bltb_correct; assumption. Qed.

Lemma d_sub_rounded x y : fin x -> fin y -> Rabs (R64 x - R64 y) <= bpow radix2 1000 ->
  R64 (d_sub x y) = rnd64 (R64 x - R64 y) /\ fin (d_sub x y).
Proof.
  intros Fx Fy Hb. unfold d_sub, R64, fin in *.
  pose proof (Bminus_correct prec64 emax64 prec64_gt_0 prec64_lt_emax mode_NE x y Fx Fy) as H.
  rewrite fexp64 in H.
  change (round radix2 (FLT_exp (-1074) 53) (round_mode mode_NE)) with rnd64 in H.
  rewrite Rlt_bool_true in H.
  - destruct H as (A & B & _). split; assumption.
  - apply Rle_lt_trans with (bpow radix2 1000); [apply rnd64_abs_le_bpow; [lia|exact Hb]|apply bpow_lt; reflexivity].
Qed.

(* a double holding an integer converts to that integer *)
Lemma d_to_int_of_int lo hi x (z : Z) : fin x -> R64 x = IZR z -> (lo <= z <= hi)%Z -> d_to_int lo hi x = Some z.
Proof.
  intros Fx Hx Hz. rewrite (d_to_int_ok lo hi x Fx); rewrite Hx, Ztrunc_IZR; [reflexivity|exact Hz].
Qed.

(* ceil / floor of the double quotient of two integers below 2^32 *)
Lemma quot_ceil a b : (0 <= a < 2^32)%Z -> (0 < b < 2^32)%Z ->
  exists c, fin c /\ R64 c = IZR ((a + b - 1) / b) /\ c = d_ceil (d_div (d_of_Z a) (d_of_Z b)).
Proof.
  intros Ha Hb. destruct (d_of_Z_exact a ltac:(lia)) as [Ra Fa]. destruct (d_of_Z_exact b ltac:(lia)) as [Rb Fb].
  assert (Hbne : R64 (d_of_Z b) <> 0) by (rewrite Rb; apply not_0_IZR; lia).
  assert (Hbd : Rabs (R64 (d_of_Z a) / R64 (d_of_Z b)) <= IZR (2^53)).
  { rewrite Ra, Rb. assert (0 <= IZR a < 4294967296) by (split; [apply IZR_le|apply (IZR_lt a 4294967296)]; lia).
    assert (1 <= IZR b) by (apply (IZR_le 1 b); lia).
    rewrite Rabs_pos_eq by (unfold Rdiv; apply Rle_mult_inv_pos; lra).
    apply Rle_trans with (IZR a / 1); [unfold Rdiv; apply Rmult_le_compat_l; [lra|apply Rinv_le_contravar; lra]|].
    replace (IZR (2^53)) with 9007199254740992 by reflexivity. lra. }
  destruct (d_div_rounded _ _ Fa Fb Hbne Hbd) as [Rq Fq]. rewrite Ra, Rb in Rq.
  destruct (d_ceil_R _ Fq) as [Rc Fc]. rewrite Rq in Rc.
  rewrite rnd64_quotient_ceil in Rc by lia.
  eexists. split; [exact Fc|]. split; [exact Rc|reflexivity].
Qed.

Lemma quot_floor a b : (0 <= a < 2^32)%Z -> (0 < b < 2^32)%Z ->
  exists c, fin c /\ R64 c = IZR (a / b) /\ c = d_floor (d_div (d_of_Z a) (d_of_Z b)).
Proof.
  intros Ha Hb. destruct (d_of_Z_exact a ltac:(lia)) as [Ra Fa]. destruct (d_of_Z_exact b ltac:(lia)) as [Rb Fb].
  assert (Hbne : R64 (d_of_Z b) <> 0) by (rewrite Rb; apply not_0_IZR; lia).
  assert (Hbd : Rabs (R64 (d_of_Z a) / R64 (d_of_Z b)) <= IZR (2^53)).
  { rewrite Ra, Rb. assert (0 <= IZR a < 4294967296) by (split; [apply IZR_le|apply (IZR_lt a 4294967296)]; lia).
    assert (1 <= IZR b) by (apply (IZR_le 1 b); lia).
    rewrite Rabs_pos_eq by (unfold Rdiv; apply Rle_mult_inv_pos; lra).
    apply Rle_trans with (IZR a / 1); [unfold Rdiv; apply Rmult_le_compat_l; [lra|apply Rinv_le_contravar; lra]|].
    replace (IZR (2^53)) with 9007199254740992 by reflexivity. lra. }
  destruct (d_div_rounded _ _ Fa Fb Hbne Hbd) as [Rq Fq]. rewrite Ra, Rb in Rq.
  destruct (d_floor_R _ Fq) as [Rc Fc]. rewrite Rq in Rc.
  rewrite rnd64_quotient_floor in Rc by lia.
  eexists. split; [exact Fc|]. split; [exact Rc|reflexivity].
Qed.
