(* C13, word accesses of the symbol kernels on a little-endian machine.
   Kernels.v models a UINT64/UINT32 operation as the same operation on the bytes the word covers.
   This file discharges that modelling step: a word access is a load of the little-endian value of
   the covered bytes (`le`), the word operation of the C (XOR, or XOR with the OR/shift packing of
   eight table look-ups), and a store of the little-endian bytes of the result (`bytes_of`); the
   result is exactly `upd_range` of Kernels.v.  Word-level versions of the kernels are then shown
   to return what the byte-level definitions return. *)
From Coq Require Import NArith ZArith Arith List Bool Lia.
From OFV Require Import Kernels KernelProofs.
Import ListNotations.

Local Open Scope N_scope.

(* value of the word whose little-endian bytes are bs *)
Definition le (bs : list N) : N := fold_right (fun b acc => b + 256 * acc) 0 bs.
(* store of a w-byte word *)
Fixpoint bytes_of (w : nat) (x : N) : list N :=
  match w with O => [] | S w' => (x mod 256) :: bytes_of w' (x / 256) end.
(* the C expression b0 | b1<<8 | b2<<16 ... *)
Fixpoint pack_from (i : nat) (l : list N) : N :=
  match l with [] => 0 | b :: t => N.lor (N.shiftl b (8 * N.of_nat i)) (pack_from (S i) t) end.

(* every element of the list is a byte value *)
Definition bytes (l : list N) : Prop := Forall (fun b => b < 256) l.

(* ---- arithmetic of one byte under a word ---- *)
Lemma le_cons b t : le (b :: t) = b + 256 * le t.
Proof. reflexivity. Qed.

Lemma cons_mod b x : b < 256 -> (b + 256 * x) mod 256 = b.
Proof.
  intros Hb. rewrite (N.mul_comm 256 x), N.mod_add by discriminate. apply N.mod_small. exact Hb.
Qed.
Lemma cons_div b x : b < 256 -> (b + 256 * x) / 256 = x.
Proof.
  intros Hb. rewrite (N.mul_comm 256 x), N.div_add by discriminate.
  rewrite (N.div_small b 256 Hb). reflexivity.
Qed.
Lemma split_byte v : v = v mod 256 + 256 * (v / 256).
Proof. rewrite N.add_comm. apply N.div_mod. discriminate. Qed.

Lemma mod256_testbit v n : N.testbit (v mod 256) n = (n <? 8) && N.testbit v n.
Proof.
  destruct (N.ltb_spec n 8) as [Hlt|Hge]; simpl.
  - exact (N.mod_pow2_bits_low v 8 n Hlt).
  - exact (N.mod_pow2_bits_high v 8 n Hge).
Qed.
Lemma div256_testbit v n : N.testbit (v / 256) n = N.testbit v (n + 8).
Proof. exact (N.div_pow2_bits v 8 n). Qed.

Lemma lxor_mod256 u v : N.lxor u v mod 256 = N.lxor (u mod 256) (v mod 256).
Proof.
  apply N.bits_inj. intros n. rewrite N.lxor_spec, !mod256_testbit, N.lxor_spec.
  destruct (n <? 8); reflexivity.
Qed.
Lemma lxor_div256 u v : N.lxor u v / 256 = N.lxor (u / 256) (v / 256).
Proof.
  apply N.bits_inj. intros n. rewrite N.lxor_spec, !div256_testbit, N.lxor_spec. reflexivity.
Qed.
Lemma lxor_byte a b : a < 256 -> b < 256 -> N.lxor a b < 256.
Proof.
  intros Ha Hb. rewrite (split_byte (N.lxor a b)), lxor_div256.
  rewrite (N.div_small a 256 Ha), (N.div_small b 256 Hb). change (N.lxor 0 0) with 0.
  rewrite N.mul_0_r, N.add_0_r. apply N.mod_lt. discriminate.
Qed.
Lemma lxor_cons a x b y : a < 256 -> b < 256 ->
  N.lxor (a + 256 * x) (b + 256 * y) = N.lxor a b + 256 * N.lxor x y.
Proof.
  intros Ha Hb. rewrite (split_byte (N.lxor (a + 256 * x) (b + 256 * y))).
  rewrite lxor_mod256, lxor_div256, !cons_mod, !cons_div by assumption. reflexivity.
Qed.
Lemma lor_shift_cons b y : b < 256 -> N.lor b (N.shiftl y 8) = b + 256 * y.
Proof.
  intros Hb. rewrite (split_byte (N.lor b (N.shiftl y 8))). f_equal; [|f_equal].
  - apply N.bits_inj. intros n. rewrite mod256_testbit, N.lor_spec.
    destruct (N.ltb_spec n 8) as [Hlt|Hge]; simpl.
    + rewrite N.shiftl_spec_low by exact Hlt. apply orb_false_r.
    + rewrite <- (N.mod_small b 256 Hb), mod256_testbit.
      destruct (N.ltb_spec n 8); [lia|reflexivity].
  - apply N.bits_inj. intros n. rewrite div256_testbit, N.lor_spec.
    rewrite N.shiftl_spec_high by lia. rewrite N.add_sub.
    rewrite <- (N.mod_small b 256 Hb), mod256_testbit.
    destruct (N.ltb_spec (n + 8) 8); [lia|reflexivity].
Qed.

(* ---- W1, W2: load and store are inverse ---- *)
Theorem bytes_of_le bs : Forall (fun b => b < 256) bs -> bytes_of (length bs) (le bs) = bs.
Proof.
  induction 1 as [|b t Hb Ht IH]; [reflexivity|].
  cbn [length bytes_of]. rewrite le_cons, cons_mod, cons_div by exact Hb. rewrite IH. reflexivity.
Qed.

Theorem le_bound bs : Forall (fun b => b < 256) bs -> le bs < 256 ^ N.of_nat (length bs).
Proof.
  induction 1 as [|b t Hb Ht IH]; [reflexivity|].
  cbn [length]. rewrite Nat2N.inj_succ, N.pow_succ_r', le_cons. lia.
Qed.

Theorem le_bytes_of : forall w x, le (bytes_of w x) = x mod 256 ^ N.of_nat w.
Proof.
  induction w as [|w IH]; intros x.
  - cbn [bytes_of le fold_right]. change (256 ^ N.of_nat 0) with 1. rewrite N.mod_1_r. reflexivity.
  - cbn [bytes_of]. rewrite le_cons, IH, Nat2N.inj_succ, N.pow_succ_r'.
    rewrite N.mod_mul_r; [reflexivity|discriminate|]. apply N.pow_nonzero. discriminate.
Qed.

Lemma bytes_of_length : forall w x, length (bytes_of w x) = w.
Proof. induction w as [|w IH]; intros x; cbn [bytes_of length]; [|rewrite IH]; reflexivity. Qed.

Lemma bytes_of_bytes : forall w x, Forall (fun b => b < 256) (bytes_of w x).
Proof.
  induction w as [|w IH]; intros x; cbn [bytes_of]; constructor; [|apply IH].
  apply N.mod_lt. discriminate.
Qed.

(* a value that fits the word is stored and reloaded unchanged *)
Corollary le_bytes_of_small w x : x < 256 ^ N.of_nat w -> le (bytes_of w x) = x.
Proof. intros H. rewrite le_bytes_of. apply N.mod_small. exact H. Qed.

(* ---- W3: XOR of words is XOR of their bytes ---- *)
Definition xor_bytes (a b : list N) : list N := map (fun p => N.lxor (fst p) (snd p)) (combine a b).

Theorem le_lxor : forall a b, length a = length b ->
  Forall (fun x => x < 256) a -> Forall (fun x => x < 256) b ->
  N.lxor (le a) (le b) = le (map (fun p => N.lxor (fst p) (snd p)) (combine a b)).
Proof.
  induction a as [|x a IH]; intros [|y b] Hl Ha Hb; try discriminate; [reflexivity|].
  inversion Ha as [|? ? Hx Ha']; subst. inversion Hb as [|? ? Hy Hb']; subst.
  cbn [combine map fst snd]. rewrite !le_cons, lxor_cons by assumption.
  rewrite IH; [reflexivity| |assumption|assumption]. simpl in Hl. lia.
Qed.

Lemma xor_bytes_length a b : length a = length b -> length (xor_bytes a b) = length a.
Proof. intros H. unfold xor_bytes. rewrite map_length, combine_length. lia. Qed.

Lemma xor_bytes_bytes : forall a b, Forall (fun x => x < 256) a -> Forall (fun x => x < 256) b ->
  Forall (fun x => x < 256) (xor_bytes a b).
Proof.
  induction a as [|x a IH]; intros [|y b] Ha Hb; try constructor.
  - inversion Ha; inversion Hb; subst. apply lxor_byte; assumption.
  - inversion Ha; inversion Hb; subst. apply IH; assumption.
Qed.

Lemma xor_bytes_nth a b k : length a = length b ->
  nth k (xor_bytes a b) 0 = N.lxor (nth k a 0) (nth k b 0).
Proof.
  intros H. unfold xor_bytes.
  change 0 with ((fun p => N.lxor (fst p) (snd p)) (0, 0)) at 1.
  rewrite map_nth, combine_nth by exact H. reflexivity.
Qed.

(* ---- W4: the OR/shift expression is the little-endian word of its operands ---- *)
Lemma pack_from_le : forall l i, Forall (fun b => b < 256) l ->
  pack_from i l = N.shiftl (le l) (8 * N.of_nat i).
Proof.
  induction l as [|b t IH]; intros i H.
  - cbn [pack_from le fold_right]. rewrite N.shiftl_0_l. reflexivity.
  - inversion H as [|? ? Hb Ht]; subst. cbn [pack_from]. rewrite IH by exact Ht.
    rewrite le_cons, <- lor_shift_cons by exact Hb.
    rewrite N.shiftl_lor, N.shiftl_shiftl. do 2 f_equal. lia.
Qed.

Theorem pack_is_le l : Forall (fun b => b < 256) l -> pack_from 0 l = le l.
Proof. intros H. rewrite pack_from_le by exact H. apply N.shiftl_0_r. Qed.

(* the word operations never leave the word: nothing is lost by the w-byte store *)
Corollary lxor_le_bound a b : length a = length b ->
  Forall (fun x => x < 256) a -> Forall (fun x => x < 256) b ->
  N.lxor (le a) (le b) < 256 ^ N.of_nat (length a).
Proof.
  intros Hl Ha Hb. rewrite le_lxor by assumption. fold (xor_bytes a b).
  rewrite <- (xor_bytes_length a b Hl). apply le_bound. apply xor_bytes_bytes; assumption.
Qed.
Corollary pack_bound l : Forall (fun b => b < 256) l -> pack_from 0 l < 256 ^ N.of_nat (length l).
Proof. intros H. rewrite pack_is_le by exact H. apply le_bound. exact H. Qed.

Example le_example : le [120; 86; 52; 18] = 305419896 (* 0x12345678 *)
  /\ bytes_of 4 305419896 = [120; 86; 52; 18] /\ pack_from 0 [120; 86; 52; 18] = 305419896.
Proof. repeat split; vm_compute; reflexivity. Qed.

(* ---- W5: one word access = upd_range over the bytes it covers ---- *)
Local Close Scope N_scope.

Definition slice (off w : nat) (l : list N) : list N := firstn w (skipn off l).
Definition store (off : nat) (bs l : list N) : list N :=
  firstn off l ++ bs ++ skipn (off + length bs) l.

Lemma nth_skipn_add : forall off (l : list N) k d, nth k (skipn off l) d = nth (off + k) l d.
Proof.
  induction off as [|off IH]; intros [|x t] k d; cbn [skipn Nat.add]; try reflexivity.
  - destruct k; reflexivity.
  - rewrite IH. reflexivity.
Qed.
Lemma nth_firstn_low : forall w (l : list N) k d, k < w -> nth k (firstn w l) d = nth k l d.
Proof.
  induction w as [|w IH]; intros [|x t] k d H; cbn [firstn]; try reflexivity; [lia|].
  destruct k as [|k]; [reflexivity|]. cbn [nth]. apply IH. lia.
Qed.
Lemma Forall_firstn_wb (A : Type) (P : A -> Prop) : forall n l, Forall P l -> Forall P (firstn n l).
Proof.
  induction n as [|n IH]; intros l H; [constructor|].
  destruct H as [|x t Hx Ht]; cbn [firstn]; constructor; [exact Hx|apply IH; exact Ht].
Qed.
Lemma Forall_skipn_wb (A : Type) (P : A -> Prop) : forall n l, Forall P l -> Forall P (skipn n l).
Proof.
  induction n as [|n IH]; intros l H; [exact H|].
  destruct H as [|x t Hx Ht]; cbn [skipn]; [constructor|apply IH; exact Ht].
Qed.

Lemma slice_length off w l : off + w <= length l -> length (slice off w l) = w.
Proof. intros H. unfold slice. rewrite firstn_length, skipn_length. lia. Qed.
Lemma slice_nth off w l k : k < w -> nth k (slice off w l) 0%N = nth (off + k) l 0%N.
Proof. intros H. unfold slice. rewrite nth_firstn_low by exact H. apply nth_skipn_add. Qed.
Lemma slice_bytes off w l : bytes l -> bytes (slice off w l).
Proof. intros H. apply Forall_firstn_wb, Forall_skipn_wb, H. Qed.

Lemma store_length off bs l : off + length bs <= length l -> length (store off bs l) = length l.
Proof. intros H. unfold store. rewrite !app_length, firstn_length, skipn_length. lia. Qed.
Lemma store_nth off bs l j : off + length bs <= length l ->
  nth j (store off bs l) 0%N =
  if j <? off then nth j l 0%N else if j <? off + length bs then nth (j - off) bs 0%N else nth j l 0%N.
Proof.
  intros H. unfold store.
  assert (Hf : length (firstn off l) = off) by (rewrite firstn_length; lia).
  destruct (Nat.ltb_spec j off) as [H1|H1].
  - rewrite app_nth1 by lia. apply nth_firstn_low. exact H1.
  - rewrite app_nth2 by lia. rewrite Hf.
    destruct (Nat.ltb_spec j (off + length bs)) as [H2|H2].
    + rewrite app_nth1 by lia. reflexivity.
    + rewrite app_nth2 by lia. rewrite nth_skipn_add. f_equal. lia.
Qed.

Lemma nth_bytes l i : bytes l -> (nth i l 0 < 256)%N.
Proof.
  intros H. revert i. induction H as [|x t Hx Ht IH]; intros [|i]; cbn [nth]; auto; reflexivity.
Qed.

(* a store of w bytes which are f of the old bytes is upd_range f *)
Lemma store_is_upd_range f off w bs dst :
  off + w <= length dst -> length bs = w ->
  (forall k, k < w -> nth k bs 0%N = f (off + k) (nth (off + k) dst 0%N)) ->
  store off bs dst = upd_range f off w dst.
Proof.
  intros Hd Hl Hn. apply upd_range_ext_list.
  - rewrite store_length, upd_range_length by lia. reflexivity.
  - intros j _. rewrite store_nth by lia. rewrite nth_upd_range, Hl.
    destruct (Nat.ltb_spec j off) as [H1|H1].
    + destruct (Nat.leb_spec off j) as [H3|H3]; [lia|reflexivity].
    + destruct (Nat.leb_spec off j) as [H3|H3]; [|lia].
      destruct (Nat.ltb_spec j (off + w)) as [H2|H2]; [|reflexivity].
      destruct (Nat.ltb_spec j (length dst)) as [H4|H4]; [|lia]. cbn [andb].
      rewrite Hn by lia. replace (off + (j - off)) with j by lia. reflexivity.
Qed.

(* XOR of the word of dst with the words of every operand of a group *)
Definition xor_group (off w : nat) (grp : list (list N)) (a : list N) : list N :=
  fold_left (fun a s => xor_bytes a (slice off w s)) grp a.
Definition group_ok (n : nat) (grp : list (list N)) : Prop :=
  Forall (fun s => n <= length s /\ bytes s) grp.

Lemma group_ok_le n m grp : n <= m -> group_ok m grp -> group_ok n grp.
Proof.
  intros H. apply Forall_impl. intros s [H1 H2]. split; [lia|exact H2].
Qed.

Lemma xor_group_spec off w : forall grp a, length a = w -> bytes a -> group_ok (off + w) grp ->
  fold_left (fun acc s => N.lxor acc (le (slice off w s))) grp (le a) = le (xor_group off w grp a)
  /\ length (xor_group off w grp a) = w /\ bytes (xor_group off w grp a)
  /\ forall k, k < w -> nth k (xor_group off w grp a) 0%N = fx grp (off + k) (nth k a 0%N).
Proof.
  induction grp as [|s grp IH]; intros a Hl Hb Hg.
  - cbn [fold_left xor_group]. repeat split; auto.
  - inversion Hg as [|? ? [Hs1 Hs2] Hg']; subst.
    assert (Hsl : length (slice off (length a) s) = length a) by (apply slice_length; exact Hs1).
    assert (Hsb : bytes (slice off (length a) s)) by (apply slice_bytes; exact Hs2).
    destruct (IH (xor_bytes a (slice off (length a) s))) as (E & L & B & Nt).
    + apply xor_bytes_length. symmetry. exact Hsl.
    + apply xor_bytes_bytes; assumption.
    + exact Hg'.
    + cbn [fold_left]. unfold xor_group in *. cbn [fold_left].
      rewrite le_lxor by (try assumption; symmetry; exact Hsl). fold (xor_bytes a (slice off (length a) s)).
      repeat split; try assumption.
      intros k Hk. rewrite Nt by exact Hk. rewrite xor_bytes_nth by (symmetry; exact Hsl).
      rewrite slice_nth by exact Hk. reflexivity.
Qed.

Theorem word_xor_group_step grp off w dst :
  off + w <= length dst -> bytes dst -> group_ok (off + w) grp ->
  store off (bytes_of w (fold_left (fun acc s => N.lxor acc (le (slice off w s))) grp (le (slice off w dst)))) dst
  = upd_range (fx grp) off w dst.
Proof.
  intros Hd Hb Hg.
  destruct (xor_group_spec off w grp (slice off w dst)) as (E & L & B & Nt);
    [apply slice_length; exact Hd|apply slice_bytes; exact Hb|exact Hg|].
  rewrite E. pose proof (bytes_of_le _ B) as R. rewrite L in R. rewrite R.
  apply store_is_upd_range; [exact Hd|exact L|].
  intros k Hk. rewrite Nt by exact Hk. rewrite slice_nth by exact Hk. reflexivity.
Qed.

Theorem word_xor_step off w dst src :
  off + w <= length dst -> off + w <= length src ->
  Forall (fun b => (b < 256)%N) dst -> Forall (fun b => (b < 256)%N) src ->
  store off (bytes_of w (N.lxor (le (slice off w dst)) (le (slice off w src)))) dst
  = upd_range (fun i x => N.lxor x (nth i src 0%N)) off w dst.
Proof.
  intros Hd Hs Hbd Hbs.
  exact (word_xor_group_step [src] off w dst Hd Hbd (Forall_cons _ (conj Hs Hbs) (Forall_nil _))).
Qed.

Lemma map_bytes (mulc : N -> N) : (forall x, (mulc x < 256)%N) -> forall l, bytes (map mulc l).
Proof. intros H. induction l as [|x t IH]; cbn [map]; constructor; [apply H|exact IH]. Qed.

Theorem word_addmul_step mulc off w dst src :
  off + w <= length dst -> off + w <= length src ->
  Forall (fun b => (b < 256)%N) dst -> (forall x, (mulc x < 256)%N) ->
  store off (bytes_of w (N.lxor (le (slice off w dst)) (pack_from 0 (map mulc (slice off w src))))) dst
  = upd_range (fmul mulc src) off w dst.
Proof.
  intros Hd Hs Hbd Hm.
  pose proof (slice_length off w dst Hd) as La. pose proof (slice_length off w src Hs) as Ls.
  pose proof (slice_bytes off w dst Hbd) as Ba.
  pose proof (map_bytes mulc Hm (slice off w src)) as Bm.
  assert (Lm : length (slice off w dst) = length (map mulc (slice off w src)))
    by (rewrite map_length, La, Ls; reflexivity).
  rewrite pack_is_le by exact Bm. rewrite le_lxor by assumption.
  fold (xor_bytes (slice off w dst) (map mulc (slice off w src))).
  pose proof (bytes_of_le _ (xor_bytes_bytes _ _ Ba Bm)) as R.
  rewrite xor_bytes_length, La in R by exact Lm. rewrite R.
  apply store_is_upd_range; [exact Hd|rewrite xor_bytes_length, La by exact Lm; reflexivity|].
  intros k Hk. rewrite xor_bytes_nth by exact Lm. rewrite slice_nth by exact Hk. unfold fmul. f_equal.
  rewrite (nth_indep _ 0%N (mulc 0%N)) by (rewrite map_length, Ls; exact Hk).
  rewrite map_nth, slice_nth by exact Hk. reflexivity.
Qed.

(* ---- W6: word-level kernels ---- *)
(* a w-byte load, and a w-byte store of the value x (truncated to w bytes as the C store does) *)
Definition wload (off w : nat) (l : list N) : N := le (slice off w l).
Definition wstore (off w : nat) (x : N) (l : list N) : list N := store off (bytes_of w x) l.

(* *(UINTw* )(dst+off) ^= *(UINTw* )(s1+off) ^ ... ^ *(UINTw* )(sn+off) *)
Definition word_xor (grp : list (list N)) (off w : nat) (dst : list N) : list N :=
  wstore off w (fold_left (fun acc s => N.lxor acc (wload off w s)) grp (wload off w dst)) dst.
(* tmp = mulc[src[off]] | mulc[src[off+1]]<<8 | ... ;  *(UINTw* )(dst+off) ^= tmp *)
Definition word_addmul (mulc : N -> N) (src : list N) (off w : nat) (dst : list N) : list N :=
  wstore off w (N.lxor (wload off w dst) (pack_from 0 (map mulc (slice off w src)))) dst.

Theorem word_xor_eq grp off w dst :
  off + w <= length dst -> bytes dst -> group_ok (off + w) grp ->
  word_xor grp off w dst = upd_range (fx grp) off w dst.
Proof. apply word_xor_group_step. Qed.

Theorem word_addmul_eq mulc src off w dst :
  off + w <= length dst -> off + w <= length src -> bytes dst -> (forall x, (mulc x < 256)%N) ->
  word_addmul mulc src off w dst = upd_range (fmul mulc src) off w dst.
Proof. intros. apply word_addmul_step; assumption. Qed.

(* byte values stay byte values *)
Lemma upd_range_bytes f off len l :
  (forall i x, (x < 256)%N -> (f i x < 256)%N) -> bytes l -> bytes (upd_range f off len l).
Proof.
  intros Hf Hb. unfold upd_range. generalize 0 as i.
  induction Hb as [|x t Hx Ht IH]; intros i; cbn [upd_range_aux]; constructor; [|apply IH].
  destruct ((off <=? i) && (i <? off + len)); [apply Hf|]; exact Hx.
Qed.
Lemma fx_byte i : forall grp x, group_ok 0 grp -> (x < 256)%N -> (fx grp i x < 256)%N.
Proof.
  unfold fx. induction grp as [|s grp IH]; intros x Hg Hx; cbn [fold_left]; [exact Hx|].
  inversion Hg as [|? ? [_ Hs] Hg']; subst. apply IH; [exact Hg'|].
  apply lxor_byte; [exact Hx|apply nth_bytes; exact Hs].
Qed.
Lemma upd_range_fx_bytes grp off len l : group_ok 0 grp -> bytes l -> bytes (upd_range (fx grp) off len l).
Proof. intros Hg. apply upd_range_bytes. intros i x. apply fx_byte. exact Hg. Qed.
Lemma upd_range_fmul_bytes mulc src off len l :
  (forall x, (mulc x < 256)%N) -> bytes l -> bytes (upd_range (fmul mulc src) off len l).
Proof.
  intros Hm. apply upd_range_bytes. intros i x Hx. unfold fmul. apply lxor_byte; [exact Hx|apply Hm].
Qed.

(* -- XOR kernels -- *)
Fixpoint wloop64 (cnt w : nat) (grp : list (list N)) (dst : list N) : list N * nat :=
  match cnt with O => (dst, w) | S c => wloop64 c (S w) grp (word_xor grp (8 * w) 8 dst) end.

Definition wxor_block (size : nat) (grp : list (list N)) (dst : list N) : list N :=
  let s64 := size / 8 in let s32 := size / 4 in let rem := size mod 4 in
  let '(d, w) := wloop64 s64 0 grp dst in
  let off := 8 * w in
  let '(d, off) := if s64 * 2 <? s32 then (word_xor grp off 4 d, off + 4) else (d, off) in
  tail_loop rem 0 off grp d.

Lemma wloop64_eq size grp : group_ok size grp -> forall cnt w dst,
  8 * (w + cnt) <= size -> size <= length dst -> bytes dst ->
  wloop64 cnt w grp dst = loop64 cnt w grp dst.
Proof.
  intros Hg. induction cnt as [|c IH]; intros w dst Hs Hd Hb; cbn [wloop64 loop64]; [reflexivity|].
  rewrite word_xor_eq; [|lia|exact Hb|apply (group_ok_le _ size); [lia|exact Hg]].
  apply IH; [lia|rewrite upd_range_length; exact Hd|].
  apply upd_range_fx_bytes; [apply (group_ok_le _ size); [lia|exact Hg]|exact Hb].
Qed.

Theorem wxor_block_eq size grp dst :
  size <= length dst -> bytes dst -> group_ok size grp ->
  wxor_block size grp dst = xor_block size grp dst.
Proof.
  intros Hd Hb Hg. unfold wxor_block, xor_block.
  pose proof (Nat.div_mod size 8 ltac:(lia)) as H8. pose proof (Nat.mod_upper_bound size 8 ltac:(lia)) as R8.
  pose proof (Nat.div_mod size 4 ltac:(lia)) as H4. pose proof (Nat.mod_upper_bound size 4 ltac:(lia)) as R4.
  rewrite (wloop64_eq size grp Hg) by (try assumption; lia).
  rewrite loop64_spec. cbn [Nat.add].
  set (q8 := size / 8) in *. set (q4 := size / 4) in *. set (r4 := size mod 4) in *. set (r8 := size mod 8) in *.
  clearbody q8 q4 r4 r8.
  destruct (Nat.ltb_spec (q8 * 2) q4) as [Hlt|Hge]; [|reflexivity].
  rewrite word_xor_eq; [reflexivity|rewrite upd_range_length; lia| |apply (group_ok_le _ size); [lia|exact Hg]].
  apply upd_range_fx_bytes; [apply (group_ok_le _ size); [lia|exact Hg]|exact Hb].
Qed.

Definition wadd_to_symbol (dst from : list N) (size : nat) : list N := wxor_block size [from] dst.

Theorem wadd_to_symbol_eq dst from size :
  size <= length dst -> size <= length from -> bytes dst -> bytes from ->
  wadd_to_symbol dst from size = add_to_symbol dst from size.
Proof.
  intros Hd Hf Hbd Hbf. apply wxor_block_eq; [exact Hd|exact Hbd|].
  constructor; [split; assumption|constructor].
Qed.

Lemma xor_block_length size grp dst : length (xor_block size grp dst) = length dst.
Proof. rewrite xor_block_spec. apply upd_range_length. Qed.
Lemma xor_block_bytes size grp dst : group_ok size grp -> bytes dst -> bytes (xor_block size grp dst).
Proof.
  intros Hg Hb. rewrite xor_block_spec. apply upd_range_fx_bytes; [|exact Hb].
  apply (group_ok_le _ size); [lia|exact Hg].
Qed.

Fixpoint wtake_groups (g fuel size : nat) (from : list (list N)) (dst : list N) : list N * list (list N) :=
  match fuel with
  | O => (dst, from)
  | S f => if g <=? length from then wtake_groups g f size (skipn g from) (wxor_block size (firstn g from) dst)
           else (dst, from)
  end.
Definition wadd_from_multiple (dst : list N) (from : list (list N)) (size : nat) : list N :=
  let fuel := S (length from) in
  let '(d, fr) := wtake_groups 8 fuel size from dst in
  let '(d, fr) := wtake_groups 4 fuel size fr d in
  let '(d, fr) := wtake_groups 2 fuel size fr d in
  match fr with [] => d | f :: _ => wxor_block size [f] d end.

Lemma wtake_groups_eq g size : forall fuel from dst,
  size <= length dst -> bytes dst -> group_ok size from ->
  wtake_groups g fuel size from dst = take_groups g fuel size from dst
  /\ size <= length (fst (take_groups g fuel size from dst))
  /\ bytes (fst (take_groups g fuel size from dst))
  /\ group_ok size (snd (take_groups g fuel size from dst)).
Proof.
  induction fuel as [|f IH]; intros from dst Hd Hb Hg; cbn [wtake_groups take_groups].
  - cbn [fst snd]. auto.
  - destruct (g <=? length from); [|cbn [fst snd]; auto].
    assert (Hg1 : group_ok size (firstn g from)) by (apply Forall_firstn_wb; exact Hg).
    rewrite wxor_block_eq by assumption.
    apply IH; [rewrite xor_block_length; exact Hd|apply xor_block_bytes; assumption|].
    apply Forall_skipn_wb. exact Hg.
Qed.

Theorem wadd_from_multiple_eq dst from size :
  size <= length dst -> bytes dst -> group_ok size from ->
  wadd_from_multiple dst from size = add_from_multiple dst from size.
Proof.
  intros Hd Hb Hg. unfold wadd_from_multiple, add_from_multiple.
  destruct (wtake_groups_eq 8 size (S (length from)) from dst Hd Hb Hg) as (E1 & D1 & B1 & G1).
  rewrite E1. destruct (take_groups 8 (S (length from)) size from dst) as [d1 f1]. cbn [fst snd] in *.
  destruct (wtake_groups_eq 4 size (S (length from)) f1 d1 D1 B1 G1) as (E2 & D2 & B2 & G2).
  rewrite E2. destruct (take_groups 4 (S (length from)) size f1 d1) as [d2 f2]. cbn [fst snd] in *.
  destruct (wtake_groups_eq 2 size (S (length from)) f2 d2 D2 B2 G2) as (E3 & D3 & B3 & G3).
  rewrite E3. destruct (take_groups 2 (S (length from)) size f2 d2) as [d3 f3]. cbn [fst snd] in *.
  destruct f3 as [|s r]; [reflexivity|].
  apply wxor_block_eq; [exact D3|exact B3|]. inversion G3; subst. constructor; [assumption|constructor].
Qed.

Fixpoint wtake_groups_to (g fuel size : nat) (from : list N) (tos done : list (list N)) : list (list N) * list (list N) :=
  match fuel with
  | O => (done, tos)
  | S f => if g <=? length tos
           then wtake_groups_to g f size from (skipn g tos) (done ++ map (wxor_block size [from]) (firstn g tos))
           else (done, tos)
  end.
Definition wadd_to_multiple (tos : list (list N)) (from : list N) (size : nat) : list (list N) :=
  let fuel := S (length tos) in
  let '(dn, ts) := wtake_groups_to 8 fuel size from tos [] in
  let '(dn, ts) := wtake_groups_to 4 fuel size from ts dn in
  let '(dn, ts) := wtake_groups_to 2 fuel size from ts dn in
  match ts with [] => dn | t :: rest => dn ++ wxor_block size [from] t :: rest end.

Lemma wxor_block_map_eq size from ts : size <= length from -> bytes from -> group_ok size ts ->
  map (wxor_block size [from]) ts = map (xor_block size [from]) ts.
Proof.
  intros Hf Hb Hg. induction Hg as [|t ts [Ht1 Ht2] Hg IH]; [reflexivity|].
  cbn [map]. rewrite IH. f_equal. apply wxor_block_eq; [exact Ht1|exact Ht2|].
  constructor; [split; assumption|constructor].
Qed.

Lemma wtake_groups_to_eq g size from : size <= length from -> bytes from -> forall fuel tos done,
  group_ok size tos ->
  wtake_groups_to g fuel size from tos done = take_groups_to g fuel size from tos done
  /\ group_ok size (snd (take_groups_to g fuel size from tos done)).
Proof.
  intros Hf Hb. induction fuel as [|f IH]; intros tos done Hg; cbn [wtake_groups_to take_groups_to].
  - cbn [snd]. auto.
  - destruct (g <=? length tos); [|cbn [snd]; auto].
    rewrite wxor_block_map_eq by (try assumption; apply Forall_firstn_wb; exact Hg).
    apply IH. apply Forall_skipn_wb. exact Hg.
Qed.

Theorem wadd_to_multiple_eq tos from size :
  size <= length from -> bytes from -> group_ok size tos ->
  wadd_to_multiple tos from size = add_to_multiple tos from size.
Proof.
  intros Hf Hb Hg. unfold wadd_to_multiple, add_to_multiple.
  destruct (wtake_groups_to_eq 8 size from Hf Hb (S (length tos)) tos [] Hg) as (E1 & G1).
  rewrite E1. destruct (take_groups_to 8 (S (length tos)) size from tos []) as [d1 t1]. cbn [snd] in *.
  destruct (wtake_groups_to_eq 4 size from Hf Hb (S (length tos)) t1 d1 G1) as (E2 & G2).
  rewrite E2. destruct (take_groups_to 4 (S (length tos)) size from t1 d1) as [d2 t2]. cbn [snd] in *.
  destruct (wtake_groups_to_eq 2 size from Hf Hb (S (length tos)) t2 d2 G2) as (E3 & G3).
  rewrite E3. destruct (take_groups_to 2 (S (length tos)) size from t2 d2) as [d3 t3]. cbn [snd] in *.
  destruct t3 as [|t r]; [reflexivity|]. inversion G3 as [|? ? [Ht1 Ht2] ?]; subst.
  do 2 f_equal. apply wxor_block_eq; [exact Ht1|exact Ht2|]. constructor; [split; assumption|constructor].
Qed.

(* -- GF multiply-accumulate kernels -- *)
Local Open Scope Z_scope.
Fixpoint waddmul_main (fuel : nat) (off sz : Z) (mulc : N -> N) (src dst : list N) : list N * Z :=
  match fuel with
  | O => (dst, off)
  | S k => if off <? sz - 15
           then waddmul_main k (off + 16) sz mulc src
                  (word_addmul mulc src (Z.to_nat off + 8) 8 (word_addmul mulc src (Z.to_nat off) 8 dst))
           else (dst, off)
  end.
Definition waddmul_gen (mulc : N -> N) (ftail : nat -> N -> N) (src : list N) (sz : Z) (dst : list N) : list N :=
  let '(d, off) := waddmul_main (Z.to_nat sz) 0 sz mulc src dst in
  addmul_tail 16 off sz ftail d.
Definition waddmul1 (mulc : N -> N) (dst src : list N) (sz : Z) : list N :=
  waddmul_gen mulc (fmul mulc src) src sz dst.
Definition waddmul1_compact (optrow : N -> N) (dst src : list N) (sz : Z) : list N :=
  waddmul_gen optrow (fnib optrow src) src sz dst.

Theorem waddmul_main_eq mulc src sz : (forall x, (mulc x < 256)%N) -> sz <= Z.of_nat (length src) ->
  forall fuel off dst, 0 <= off -> sz <= Z.of_nat (length dst) -> bytes dst ->
  waddmul_main fuel off sz mulc src dst = addmul_main fuel off sz (fmul mulc src) dst.
Proof.
  intros Hm Hs. induction fuel as [|k IH]; intros off dst Hoff Hd Hb; cbn [waddmul_main addmul_main]; [reflexivity|].
  destruct (Z.ltb_spec off (sz - 15)) as [Hlt|Hge]; [|reflexivity].
  rewrite (word_addmul_eq mulc src (Z.to_nat off) 8 dst) by (try assumption; lia).
  rewrite word_addmul_eq; try assumption; try (rewrite ?upd_range_length; lia).
  - apply IH; [lia|rewrite !upd_range_length; exact Hd|].
    apply upd_range_fmul_bytes; [exact Hm|]. apply upd_range_fmul_bytes; [exact Hm|exact Hb].
  - apply upd_range_fmul_bytes; [exact Hm|exact Hb].
Qed.

Theorem waddmul_gen_eq mulc ftail src sz dst :
  (forall x, (mulc x < 256)%N) -> sz <= Z.of_nat (length src) -> sz <= Z.of_nat (length dst) -> bytes dst ->
  waddmul_gen mulc ftail src sz dst = addmul_gen (fmul mulc src) ftail sz dst.
Proof.
  intros Hm Hs Hd Hb. unfold waddmul_gen, addmul_gen.
  rewrite (waddmul_main_eq mulc src sz Hm Hs) by (try assumption; lia). reflexivity.
Qed.

Theorem waddmul1_eq mulc dst src sz :
  (forall x, (mulc x < 256)%N) -> sz <= Z.of_nat (length src) -> sz <= Z.of_nat (length dst) -> bytes dst ->
  waddmul1 mulc dst src sz = addmul1 mulc dst src sz.
Proof. intros. apply waddmul_gen_eq; assumption. Qed.

Theorem waddmul1_compact_eq optrow dst src sz :
  (forall x, (optrow x < 256)%N) -> sz <= Z.of_nat (length src) -> sz <= Z.of_nat (length dst) -> bytes dst ->
  waddmul1_compact optrow dst src sz = addmul1_compact optrow dst src sz.
Proof. intros. apply waddmul_gen_eq; assumption. Qed.

Print Assumptions bytes_of_le.
Print Assumptions le_bound.
Print Assumptions le_bytes_of.
Print Assumptions le_lxor.
Print Assumptions pack_is_le.
Print Assumptions lxor_le_bound.
Print Assumptions pack_bound.
Print Assumptions word_xor_step.
Print Assumptions word_xor_group_step.
Print Assumptions word_addmul_step.
Print Assumptions word_xor_eq.
Print Assumptions word_addmul_eq.
Print Assumptions wxor_block_eq.
Print Assumptions wadd_to_symbol_eq.
Print Assumptions wadd_from_multiple_eq.
Print Assumptions wadd_to_multiple_eq.
Print Assumptions waddmul_main_eq.
Print Assumptions waddmul_gen_eq.
Print Assumptions waddmul1_eq.
Print Assumptions waddmul1_compact_eq.
