(* GF(16) and GF(256) as fields: the shift-and-add arithmetic of GF2Poly.v
   (mul16 = gfmul 4 P16, mul256 = gfmul 8 P256) with N.lxor as addition.
   Part A: N-level statements on elements below q.
   Part B: packaging as a type GF q with the field axioms.
   Part C: the Reed-Solomon evaluation points are pairwise distinct. *)
From Coq Require Import NArith Arith List Bool Lia Eqdep_dec.
From OFV Require Import GF2Poly.
Import ListNotations.
Local Open Scope N_scope.

(* ------------------------------------------------------------------ *)
(* finite sweeps over 0..n-1 in N                                      *)
(* ------------------------------------------------------------------ *)
Fixpoint forallN (n : nat) (f : N -> bool) : bool :=
  match n with O => true | S k => f (N.of_nat k) && forallN k f end.

Lemma forallN_spec n f : forallN n f = true -> forall a, a < N.of_nat n -> f a = true.
Proof.
  induction n as [|k IH]; intros H a Ha.
  - lia.
  - cbn [forallN] in H. apply andb_true_iff in H as [H1 H2].
    destruct (N.eq_dec a (N.of_nat k)) as [E|E].
    + subst a. exact H1.
    + apply IH; [exact H2|lia].
Qed.

Definition forallN2 (n : nat) (f : N -> N -> bool) : bool :=
  forallN n (fun a => forallN n (fun b => f a b)).

Lemma forallN2_spec n f : forallN2 n f = true ->
  forall a b, a < N.of_nat n -> b < N.of_nat n -> f a b = true.
Proof.
  unfold forallN2. intros H a b Ha Hb.
  pose proof (forallN_spec n _ H a Ha) as H1. cbv beta in H1.
  exact (forallN_spec n _ H1 b Hb).
Qed.

(* ------------------------------------------------------------------ *)
(* xor identities and structural linearity of gfmul in its 2nd operand *)
(* ------------------------------------------------------------------ *)
Lemma lxor_cancel_mid x y z : N.lxor x y = N.lxor (N.lxor x z) (N.lxor y z).
Proof.
  apply N.bits_inj. intro k. rewrite !N.lxor_spec.
  destruct (N.testbit x k), (N.testbit y k), (N.testbit z k); reflexivity.
Qed.

Lemma lxor_swap_r x y z : N.lxor (N.lxor x y) z = N.lxor (N.lxor x z) y.
Proof.
  apply N.bits_inj. intro k. rewrite !N.lxor_spec.
  destruct (N.testbit x k), (N.testbit y k), (N.testbit z k); reflexivity.
Qed.

Lemma gfmul_aux_xor n m p : forall a b c acc1 acc2,
  gfmul_aux n m p a (N.lxor b c) (N.lxor acc1 acc2) =
  N.lxor (gfmul_aux n m p a b acc1) (gfmul_aux n m p a c acc2).
Proof.
  induction n as [|k IH]; intros a b c acc1 acc2.
  - reflexivity.
  - cbn [gfmul_aux]. rewrite N.shiftr_lxor.
    rewrite <- !N.bit0_odd, N.lxor_spec. rewrite <- IH. f_equal.
    destruct (N.testbit b 0), (N.testbit c 0); cbn [xorb].
    + apply lxor_cancel_mid.
    + apply lxor_swap_r.
    + apply N.lxor_assoc.
    + reflexivity.
Qed.

Lemma gfmul_xor_r m p a b c :
  gfmul m p a (N.lxor b c) = N.lxor (gfmul m p a b) (gfmul m p a c).
Proof. unfold gfmul. rewrite <- gfmul_aux_xor. reflexivity. Qed.

(* ------------------------------------------------------------------ *)
(* associativity from distributivity plus a sweep over the basis 2^i   *)
(* ------------------------------------------------------------------ *)
Fixpoint bitsum (m : nat) (c : N) : N :=
  match m with
  | O => 0
  | S k => N.lxor (if N.testbit c (N.of_nat k) then N.shiftl 1 (N.of_nat k) else 0) (bitsum k c)
  end.

Section Assoc.
  Variable mul : N -> N -> N.
  Variable q : N.
  Hypothesis Hdistr : forall a b c, mul a (N.lxor b c) = N.lxor (mul a b) (mul a c).

  Definition Good (c : N) : Prop :=
    forall a b, a < q -> b < q -> mul a (mul b c) = mul (mul a b) c.

  Lemma mul_0_r_gen a : mul a 0 = 0.
  Proof.
    pose proof (Hdistr a 0 0) as H. change (N.lxor 0 0) with 0 in H.
    rewrite (N.lxor_nilpotent (mul a 0)) in H. exact H.
  Qed.

  Lemma good_0 : Good 0.
  Proof. intros a b _ _. rewrite !mul_0_r_gen. reflexivity. Qed.

  Lemma good_xor c d : Good c -> Good d -> Good (N.lxor c d).
  Proof.
    intros Hc Hd a b Ha Hb.
    rewrite (Hdistr b c d), (Hdistr a), (Hc a b Ha Hb), (Hd a b Ha Hb).
    symmetry. apply Hdistr.
  Qed.

  Lemma good_bitsum m :
    (forall i, (i < m)%nat -> Good (N.shiftl 1 (N.of_nat i))) -> forall c, Good (bitsum m c).
  Proof.
    induction m as [|k IH]; intros Hb c.
    - exact good_0.
    - cbn [bitsum]. apply good_xor.
      + destruct (N.testbit c (N.of_nat k)); [apply Hb; lia|exact good_0].
      + apply IH. intros i Hi. apply Hb. lia.
  Qed.

  Definition chk_basis (qn mn : nat) : bool :=
    forallb (fun i => let e := N.shiftl 1 (N.of_nat i) in
      forallN2 qn (fun a b => N.eqb (mul a (mul b e)) (mul (mul a b) e))) (seq 0 mn).

  Lemma assoc_from_basis qn mn :
    q = N.of_nat qn ->
    chk_basis qn mn = true ->
    forallN qn (fun c => N.eqb (bitsum mn c) c) = true ->
    forall a b c, a < q -> b < q -> c < q -> mul a (mul b c) = mul (mul a b) c.
  Proof.
    intros Hq Hb Hs a b c Ha Hb' Hc.
    assert (G : Good (bitsum mn c)).
    { apply good_bitsum. intros i Hi a' b' Ha' Hb''.
      unfold chk_basis in Hb. rewrite forallb_forall in Hb.
      assert (Hin : In i (seq 0 mn)) by (apply in_seq; lia).
      pose proof (Hb i Hin) as H1. cbv zeta in H1.
      apply N.eqb_eq. apply (forallN2_spec qn _ H1); lia. }
    assert (E : bitsum mn c = c).
    { apply N.eqb_eq. apply (forallN_spec qn _ Hs). lia. }
    rewrite E in G. apply G; assumption.
  Qed.
End Assoc.

(* ------------------------------------------------------------------ *)
(* Part A                                                              *)
(* ------------------------------------------------------------------ *)
Fixpoint gfinv (mul : N -> N -> N) (e : nat) (a : N) : N :=
  match e with O => 1 | S k => mul a (gfinv mul k a) end.

Definition inv16 (a : N) : N := gfinv mul16 14 a.
Definition inv256 (a : N) : N := gfinv mul256 254 a.

(* ---- GF(16) ---- *)
Lemma gf16_closed_chk : forallN2 16 (fun a b => N.ltb (mul16 a b) 16) = true.
Proof. vm_compute. reflexivity. Qed.
Lemma gf16_xor_closed_chk : forallN2 16 (fun a b => N.ltb (N.lxor a b) 16) = true.
Proof. vm_compute. reflexivity. Qed.
Lemma gf16_mul_comm_chk : forallN2 16 (fun a b => N.eqb (mul16 a b) (mul16 b a)) = true.
Proof. vm_compute. reflexivity. Qed.
Lemma gf16_mul_1_l_chk : forallN 16 (fun a => N.eqb (mul16 1 a) a) = true.
Proof. vm_compute. reflexivity. Qed.
Lemma gf16_mul_0_l_chk : forallN 16 (fun a => N.eqb (mul16 0 a) 0) = true.
Proof. vm_compute. reflexivity. Qed.
Lemma gf16_inv_chk : forallN 16 (fun a =>
  N.ltb (inv16 a) 16 && (N.eqb a 0 || N.eqb (mul16 a (inv16 a)) 1)) = true.
Proof. vm_compute. reflexivity. Qed.
Lemma gf16_basis_chk : chk_basis mul16 16 4 = true.
Proof. vm_compute. reflexivity. Qed.
Lemma gf16_bitsum_chk : forallN 16 (fun c => N.eqb (bitsum 4 c) c) = true.
Proof. vm_compute. reflexivity. Qed.

Lemma gf16_closed a b : a < 16 -> b < 16 -> mul16 a b < 16.
Proof. intros Ha Hb. apply N.ltb_lt. exact (forallN2_spec 16 _ gf16_closed_chk a b Ha Hb). Qed.

Lemma gf16_xor_closed a b : a < 16 -> b < 16 -> N.lxor a b < 16.
Proof. intros Ha Hb. apply N.ltb_lt. exact (forallN2_spec 16 _ gf16_xor_closed_chk a b Ha Hb). Qed.

Lemma gf16_mul_comm a b : a < 16 -> b < 16 -> mul16 a b = mul16 b a.
Proof. intros Ha Hb. apply N.eqb_eq. exact (forallN2_spec 16 _ gf16_mul_comm_chk a b Ha Hb). Qed.

Lemma gf16_mul_1_l a : a < 16 -> mul16 1 a = a.
Proof. intros Ha. apply N.eqb_eq. exact (forallN_spec 16 _ gf16_mul_1_l_chk a Ha). Qed.

Lemma gf16_mul_0_l a : a < 16 -> mul16 0 a = 0.
Proof. intros Ha. apply N.eqb_eq. exact (forallN_spec 16 _ gf16_mul_0_l_chk a Ha). Qed.

Lemma gf16_distr a b c : a < 16 -> b < 16 -> c < 16 ->
  mul16 a (N.lxor b c) = N.lxor (mul16 a b) (mul16 a c).
Proof. intros _ _ _. apply gfmul_xor_r. Qed.

Lemma gf16_mul_assoc a b c : a < 16 -> b < 16 -> c < 16 ->
  mul16 a (mul16 b c) = mul16 (mul16 a b) c.
Proof.
  apply (assoc_from_basis mul16 16 (gfmul_xor_r 4 P16) 16 4 eq_refl gf16_basis_chk gf16_bitsum_chk).
Qed.

Lemma gf16_inv_closed a : a < 16 -> inv16 a < 16.
Proof.
  intros Ha. pose proof (forallN_spec 16 _ gf16_inv_chk a Ha) as H. cbv beta in H.
  apply andb_true_iff in H as [H _]. apply N.ltb_lt. exact H.
Qed.

Lemma gf16_mul_inv a : a < 16 -> a <> 0 -> mul16 a (inv16 a) = 1.
Proof.
  intros Ha Hn. pose proof (forallN_spec 16 _ gf16_inv_chk a Ha) as H. cbv beta in H.
  apply andb_true_iff in H as [_ H]. apply orb_true_iff in H as [H|H].
  - apply N.eqb_eq in H. contradiction.
  - apply N.eqb_eq. exact H.
Qed.

(* ---- GF(256) ---- *)
Lemma gf256_closed_chk : forallN2 256 (fun a b => N.ltb (mul256 a b) 256) = true.
Proof. vm_compute. reflexivity. Qed.
Lemma gf256_xor_closed_chk : forallN2 256 (fun a b => N.ltb (N.lxor a b) 256) = true.
Proof. vm_compute. reflexivity. Qed.
Lemma gf256_mul_comm_chk : forallN2 256 (fun a b => N.eqb (mul256 a b) (mul256 b a)) = true.
Proof. vm_compute. reflexivity. Qed.
Lemma gf256_mul_1_l_chk : forallN 256 (fun a => N.eqb (mul256 1 a) a) = true.
Proof. vm_compute. reflexivity. Qed.
Lemma gf256_mul_0_l_chk : forallN 256 (fun a => N.eqb (mul256 0 a) 0) = true.
Proof. vm_compute. reflexivity. Qed.
Lemma gf256_inv_chk : forallN 256 (fun a =>
  N.ltb (inv256 a) 256 && (N.eqb a 0 || N.eqb (mul256 a (inv256 a)) 1)) = true.
Proof. vm_compute. reflexivity. Qed.
Lemma gf256_basis_chk : chk_basis mul256 256 8 = true.
Proof. vm_compute. reflexivity. Qed.
Lemma gf256_bitsum_chk : forallN 256 (fun c => N.eqb (bitsum 8 c) c) = true.
Proof. vm_compute. reflexivity. Qed.

Lemma gf256_closed a b : a < 256 -> b < 256 -> mul256 a b < 256.
Proof. intros Ha Hb. apply N.ltb_lt. exact (forallN2_spec 256 _ gf256_closed_chk a b Ha Hb). Qed.

Lemma gf256_xor_closed a b : a < 256 -> b < 256 -> N.lxor a b < 256.
Proof. intros Ha Hb. apply N.ltb_lt. exact (forallN2_spec 256 _ gf256_xor_closed_chk a b Ha Hb). Qed.

Lemma gf256_mul_comm a b : a < 256 -> b < 256 -> mul256 a b = mul256 b a.
Proof. intros Ha Hb. apply N.eqb_eq. exact (forallN2_spec 256 _ gf256_mul_comm_chk a b Ha Hb). Qed.

Lemma gf256_mul_1_l a : a < 256 -> mul256 1 a = a.
Proof. intros Ha. apply N.eqb_eq. exact (forallN_spec 256 _ gf256_mul_1_l_chk a Ha). Qed.

Lemma gf256_mul_0_l a : a < 256 -> mul256 0 a = 0.
Proof. intros Ha. apply N.eqb_eq. exact (forallN_spec 256 _ gf256_mul_0_l_chk a Ha). Qed.

Lemma gf256_distr a b c : a < 256 -> b < 256 -> c < 256 ->
  mul256 a (N.lxor b c) = N.lxor (mul256 a b) (mul256 a c).
Proof. intros _ _ _. apply gfmul_xor_r. Qed.

Lemma gf256_mul_assoc a b c : a < 256 -> b < 256 -> c < 256 ->
  mul256 a (mul256 b c) = mul256 (mul256 a b) c.
Proof.
  apply (assoc_from_basis mul256 256 (gfmul_xor_r 8 P256) 256 8 eq_refl gf256_basis_chk gf256_bitsum_chk).
Qed.

Lemma gf256_inv_closed a : a < 256 -> inv256 a < 256.
Proof.
  intros Ha. pose proof (forallN_spec 256 _ gf256_inv_chk a Ha) as H. cbv beta in H.
  apply andb_true_iff in H as [H _]. apply N.ltb_lt. exact H.
Qed.

Lemma gf256_mul_inv a : a < 256 -> a <> 0 -> mul256 a (inv256 a) = 1.
Proof.
  intros Ha Hn. pose proof (forallN_spec 256 _ gf256_inv_chk a Ha) as H. cbv beta in H.
  apply andb_true_iff in H as [_ H]. apply orb_true_iff in H as [H|H].
  - apply N.eqb_eq in H. contradiction.
  - apply N.eqb_eq. exact H.
Qed.

(* ------------------------------------------------------------------ *)
(* Part B: the type GF q                                               *)
(* ------------------------------------------------------------------ *)
Definition GF (q : N) : Type := { a : N | N.ltb a q = true }.
Definition val {q} (x : GF q) : N := proj1_sig x.

Lemma val_inj q (x y : GF q) : val x = val y -> x = y.
Proof.
  destruct x as [a Ha], y as [b Hb]. cbn [val proj1_sig]. intro E. subst b.
  f_equal. apply UIP_dec. exact bool_dec.
Qed.

Lemma val_lt q (x : GF q) : val x < q.
Proof. destruct x as [a Ha]. cbn [val proj1_sig]. apply N.ltb_lt. exact Ha. Qed.

Definition GF_eq_dec q (a b : GF q) : {a = b} + {a <> b}.
Proof.
  destruct (N.eq_dec (val a) (val b)) as [E|E].
  - left. apply val_inj. exact E.
  - right. intro H. apply E. rewrite H. reflexivity.
Defined.

Section Pack.
  Variable q : N.
  Variable mul : N -> N -> N.
  Variable inv : N -> N.
  Hypothesis Hq1 : 1 < q.
  Hypothesis Hcl : forall a b, a < q -> b < q -> mul a b < q.
  Hypothesis Hxcl : forall a b, a < q -> b < q -> N.lxor a b < q.
  Hypothesis Hcomm : forall a b, a < q -> b < q -> mul a b = mul b a.
  Hypothesis Hassoc : forall a b c, a < q -> b < q -> c < q -> mul a (mul b c) = mul (mul a b) c.
  Hypothesis H1l : forall a, a < q -> mul 1 a = a.
  Hypothesis Hdistr : forall a b c, a < q -> b < q -> c < q ->
    mul a (N.lxor b c) = N.lxor (mul a b) (mul a c).
  Hypothesis Hicl : forall a, a < q -> inv a < q.
  Hypothesis Hinv : forall a, a < q -> a <> 0 -> mul a (inv a) = 1.

  Lemma pk_zero_ok : N.ltb 0 q = true.
  Proof using Hq1. apply N.ltb_lt. lia. Qed.
  Lemma pk_one_ok : N.ltb 1 q = true.
  Proof using Hq1. apply N.ltb_lt. exact Hq1. Qed.
  Lemma pk_add_ok (x y : GF q) : N.ltb (N.lxor (val x) (val y)) q = true.
  Proof using Hxcl. apply N.ltb_lt. apply Hxcl; apply val_lt. Qed.
  Lemma pk_mul_ok (x y : GF q) : N.ltb (mul (val x) (val y)) q = true.
  Proof using Hcl. apply N.ltb_lt. apply Hcl; apply val_lt. Qed.
  Lemma pk_inv_ok (x : GF q) : N.ltb (inv (val x)) q = true.
  Proof using Hicl. apply N.ltb_lt. apply Hicl. apply val_lt. Qed.
  Lemma pk_of_N_ok (a : N) : N.ltb (if N.ltb a q then a else 0) q = true.
  Proof using Hq1. destruct (N.ltb a q) eqn:E; [exact E|exact pk_zero_ok]. Qed.

  Definition pk_zero : GF q := exist _ 0 pk_zero_ok.
  Definition pk_one : GF q := exist _ 1 pk_one_ok.
  Definition pk_add (x y : GF q) : GF q := exist _ (N.lxor (val x) (val y)) (pk_add_ok x y).
  Definition pk_mul (x y : GF q) : GF q := exist _ (mul (val x) (val y)) (pk_mul_ok x y).
  Definition pk_opp (x : GF q) : GF q := x.
  Definition pk_inv (x : GF q) : GF q := exist _ (inv (val x)) (pk_inv_ok x).
  Definition pk_of_N (a : N) : GF q := exist _ (if N.ltb a q then a else 0) (pk_of_N_ok a).

  Lemma pk_val_of_N a : val (pk_of_N a) = if N.ltb a q then a else 0.
  Proof using Hq1. reflexivity. Qed.
  Lemma pk_val_of_N_lt a : a < q -> val (pk_of_N a) = a.
  Proof using Hq1. intro H. rewrite pk_val_of_N. apply N.ltb_lt in H. rewrite H. reflexivity. Qed.
  Lemma pk_val_of_N_ge a : q <= a -> val (pk_of_N a) = 0.
  Proof using Hq1. intro H. rewrite pk_val_of_N. apply N.ltb_ge in H. rewrite H. reflexivity. Qed.
  Lemma pk_of_N_val (x : GF q) : pk_of_N (val x) = x.
  Proof using Hq1. apply val_inj. apply pk_val_of_N_lt. apply val_lt. Qed.

  Lemma pk_add_comm a b : pk_add a b = pk_add b a.
  Proof using Hxcl. apply val_inj. cbn [val pk_add proj1_sig]. apply N.lxor_comm. Qed.
  Lemma pk_add_assoc a b c : pk_add a (pk_add b c) = pk_add (pk_add a b) c.
  Proof using Hxcl. apply val_inj. cbn [val pk_add proj1_sig]. symmetry. apply N.lxor_assoc. Qed.
  Lemma pk_add_0_l a : pk_add pk_zero a = a.
  Proof using Hq1 Hxcl. apply val_inj. cbn [val pk_add pk_zero proj1_sig]. apply N.lxor_0_l. Qed.
  Lemma pk_add_opp_r a : pk_add a (pk_opp a) = pk_zero.
  Proof using Hq1 Hxcl. apply val_inj. cbn [val pk_add pk_opp pk_zero proj1_sig]. apply N.lxor_nilpotent. Qed.
  Lemma pk_mul_comm a b : pk_mul a b = pk_mul b a.
  Proof using Hcl Hcomm. apply val_inj. cbn [val pk_mul proj1_sig]. apply Hcomm; apply val_lt. Qed.
  Lemma pk_mul_assoc a b c : pk_mul a (pk_mul b c) = pk_mul (pk_mul a b) c.
  Proof using Hcl Hassoc. apply val_inj. cbn [val pk_mul proj1_sig]. apply Hassoc; apply val_lt. Qed.
  Lemma pk_mul_1_l a : pk_mul pk_one a = a.
  Proof using Hq1 Hcl H1l. apply val_inj. cbn [val pk_mul pk_one proj1_sig]. apply H1l. apply val_lt. Qed.
  Lemma pk_mul_add_distr_l a b c : pk_mul a (pk_add b c) = pk_add (pk_mul a b) (pk_mul a c).
  Proof using Hcl Hxcl Hdistr. apply val_inj. cbn [val pk_mul pk_add proj1_sig]. apply Hdistr; apply val_lt. Qed.
  Lemma pk_mul_inv_r a : a <> pk_zero -> pk_mul a (pk_inv a) = pk_one.
  Proof using Hq1 Hcl Hicl Hinv.
    intro Hn. apply val_inj. cbn [val pk_mul pk_inv pk_one proj1_sig].
    apply Hinv; [apply val_lt|]. intro E. apply Hn. apply val_inj. exact E.
  Qed.
  Lemma pk_one_neq_zero : pk_one <> pk_zero.
  Proof using Hq1. intro E. apply (f_equal val) in E. cbn [val pk_one pk_zero proj1_sig] in E. discriminate E. Qed.
End Pack.

Lemma lt_1_16 : 1 < 16.   Proof. reflexivity. Qed.
Lemma lt_1_256 : 1 < 256. Proof. reflexivity. Qed.

(* ---- GF(16) ---- *)
Definition F16_zero : GF 16 := pk_zero 16 lt_1_16.
Definition F16_one : GF 16 := pk_one 16 lt_1_16.
Definition F16_add : GF 16 -> GF 16 -> GF 16 := pk_add 16 gf16_xor_closed.
Definition F16_mul : GF 16 -> GF 16 -> GF 16 := pk_mul 16 mul16 gf16_closed.
Definition F16_opp : GF 16 -> GF 16 := pk_opp 16.
Definition F16_inv : GF 16 -> GF 16 := pk_inv 16 inv16 gf16_inv_closed.
Definition of_N16 : N -> GF 16 := pk_of_N 16 lt_1_16.
Definition F16_eq_dec : forall a b : GF 16, {a = b} + {a <> b} := GF_eq_dec 16.

Lemma F16_val_zero : val F16_zero = 0.  Proof. reflexivity. Qed.
Lemma F16_val_one : val F16_one = 1.    Proof. reflexivity. Qed.
Lemma F16_val_add x y : val (F16_add x y) = N.lxor (val x) (val y).  Proof. reflexivity. Qed.
Lemma F16_val_mul x y : val (F16_mul x y) = mul16 (val x) (val y).    Proof. reflexivity. Qed.
Lemma F16_val_opp x : val (F16_opp x) = val x.                        Proof. reflexivity. Qed.
Lemma F16_val_inv x : val (F16_inv x) = inv16 (val x).                Proof. reflexivity. Qed.
Lemma F16_val_lt (x : GF 16) : val x < 16.                            Proof. apply val_lt. Qed.
Lemma of_N16_val a : val (of_N16 a) = if N.ltb a 16 then a else 0.    Proof. reflexivity. Qed.
Lemma of_N16_val_lt a : a < 16 -> val (of_N16 a) = a.                 Proof. apply pk_val_of_N_lt. Qed.
Lemma of_N16_val_ge a : 16 <= a -> val (of_N16 a) = 0.                Proof. apply pk_val_of_N_ge. Qed.
Lemma of_N16_of_val x : of_N16 (val x) = x.                           Proof. apply pk_of_N_val. Qed.

Lemma F16_add_comm a b : F16_add a b = F16_add b a.
Proof. apply pk_add_comm. Qed.
Lemma F16_add_assoc a b c : F16_add a (F16_add b c) = F16_add (F16_add a b) c.
Proof. apply pk_add_assoc. Qed.
Lemma F16_add_0_l a : F16_add F16_zero a = a.
Proof. apply pk_add_0_l. Qed.
Lemma F16_add_opp_r a : F16_add a (F16_opp a) = F16_zero.
Proof. apply pk_add_opp_r. Qed.
Lemma F16_mul_comm a b : F16_mul a b = F16_mul b a.
Proof. apply pk_mul_comm. exact gf16_mul_comm. Qed.
Lemma F16_mul_assoc a b c : F16_mul a (F16_mul b c) = F16_mul (F16_mul a b) c.
Proof. apply pk_mul_assoc. exact gf16_mul_assoc. Qed.
Lemma F16_mul_1_l a : F16_mul F16_one a = a.
Proof. apply pk_mul_1_l. exact gf16_mul_1_l. Qed.
Lemma F16_mul_add_distr_l a b c : F16_mul a (F16_add b c) = F16_add (F16_mul a b) (F16_mul a c).
Proof. apply pk_mul_add_distr_l. exact gf16_distr. Qed.
Lemma F16_mul_inv_r a : a <> F16_zero -> F16_mul a (F16_inv a) = F16_one.
Proof. apply pk_mul_inv_r. exact gf16_mul_inv. Qed.
Lemma F16_one_neq_zero : F16_one <> F16_zero.
Proof. apply pk_one_neq_zero. Qed.

(* ---- GF(256) ---- *)
Definition F256_zero : GF 256 := pk_zero 256 lt_1_256.
Definition F256_one : GF 256 := pk_one 256 lt_1_256.
Definition F256_add : GF 256 -> GF 256 -> GF 256 := pk_add 256 gf256_xor_closed.
Definition F256_mul : GF 256 -> GF 256 -> GF 256 := pk_mul 256 mul256 gf256_closed.
Definition F256_opp : GF 256 -> GF 256 := pk_opp 256.
Definition F256_inv : GF 256 -> GF 256 := pk_inv 256 inv256 gf256_inv_closed.
Definition of_N256 : N -> GF 256 := pk_of_N 256 lt_1_256.
Definition F256_eq_dec : forall a b : GF 256, {a = b} + {a <> b} := GF_eq_dec 256.

Lemma F256_val_zero : val F256_zero = 0.  Proof. reflexivity. Qed.
Lemma F256_val_one : val F256_one = 1.    Proof. reflexivity. Qed.
Lemma F256_val_add x y : val (F256_add x y) = N.lxor (val x) (val y).  Proof. reflexivity. Qed.
Lemma F256_val_mul x y : val (F256_mul x y) = mul256 (val x) (val y).   Proof. reflexivity. Qed.
Lemma F256_val_opp x : val (F256_opp x) = val x.                        Proof. reflexivity. Qed.
Lemma F256_val_inv x : val (F256_inv x) = inv256 (val x).               Proof. reflexivity. Qed.
Lemma F256_val_lt (x : GF 256) : val x < 256.                           Proof. apply val_lt. Qed.
Lemma of_N256_val a : val (of_N256 a) = if N.ltb a 256 then a else 0.   Proof. reflexivity. Qed.
Lemma of_N256_val_lt a : a < 256 -> val (of_N256 a) = a.                Proof. apply pk_val_of_N_lt. Qed.
Lemma of_N256_val_ge a : 256 <= a -> val (of_N256 a) = 0.               Proof. apply pk_val_of_N_ge. Qed.
Lemma of_N256_of_val x : of_N256 (val x) = x.                           Proof. apply pk_of_N_val. Qed.

Lemma F256_add_comm a b : F256_add a b = F256_add b a.
Proof. apply pk_add_comm. Qed.
Lemma F256_add_assoc a b c : F256_add a (F256_add b c) = F256_add (F256_add a b) c.
Proof. apply pk_add_assoc. Qed.
Lemma F256_add_0_l a : F256_add F256_zero a = a.
Proof. apply pk_add_0_l. Qed.
Lemma F256_add_opp_r a : F256_add a (F256_opp a) = F256_zero.
Proof. apply pk_add_opp_r. Qed.
Lemma F256_mul_comm a b : F256_mul a b = F256_mul b a.
Proof. apply pk_mul_comm. exact gf256_mul_comm. Qed.
Lemma F256_mul_assoc a b c : F256_mul a (F256_mul b c) = F256_mul (F256_mul a b) c.
Proof. apply pk_mul_assoc. exact gf256_mul_assoc. Qed.
Lemma F256_mul_1_l a : F256_mul F256_one a = a.
Proof. apply pk_mul_1_l. exact gf256_mul_1_l. Qed.
Lemma F256_mul_add_distr_l a b c : F256_mul a (F256_add b c) = F256_add (F256_mul a b) (F256_mul a c).
Proof. apply pk_mul_add_distr_l. exact gf256_distr. Qed.
Lemma F256_mul_inv_r a : a <> F256_zero -> F256_mul a (F256_inv a) = F256_one.
Proof. apply pk_mul_inv_r. exact gf256_mul_inv. Qed.
Lemma F256_one_neq_zero : F256_one <> F256_zero.
Proof. apply pk_one_neq_zero. Qed.

(* ------------------------------------------------------------------ *)
(* Part C: evaluation points                                           *)
(* ------------------------------------------------------------------ *)
Definition rs_point (m p : N) (j : nat) : N :=
  match j with O => 0 | S i => xpow m p i end.

Fixpoint nodupb (l : list N) : bool :=
  match l with [] => true | x :: t => negb (existsb (N.eqb x) t) && nodupb t end.

Lemma nodupb_NoDup l : nodupb l = true -> NoDup l.
Proof.
  induction l as [|x t IH]; intro H.
  - constructor.
  - cbn [nodupb] in H. apply andb_true_iff in H as [H1 H2]. constructor.
    + intro Hin. apply negb_true_iff in H1.
      assert (E : existsb (N.eqb x) t = true).
      { apply existsb_exists. exists x. split; [exact Hin|apply N.eqb_refl]. }
      rewrite E in H1. discriminate H1.
    + apply IH. exact H2.
Qed.

Lemma NoDup_app_l {A} (l1 l2 : list A) : NoDup (l1 ++ l2) -> NoDup l1.
Proof.
  induction l1 as [|x t IH]; intro H.
  - constructor.
  - cbn [app] in H. inversion H as [|x' l' Hnin Hnd]; subst. constructor.
    + intro Hin. apply Hnin. apply in_or_app. left. exact Hin.
    + apply IH. exact Hnd.
Qed.

Section Points.
  Variables m p : N.
  Variable qn : nat.
  Hypothesis Hnd : nodupb (map (rs_point m p) (seq 0 qn)) = true.
  Hypothesis Hlt : forallb (fun j => N.ltb (rs_point m p j) (N.of_nat qn)) (seq 0 qn) = true.

  Lemma points_NoDup n : (n <= qn)%nat -> NoDup (map (rs_point m p) (seq 0 n)).
  Proof.
    intro Hn. pose proof (nodupb_NoDup _ Hnd) as H.
    replace qn with (n + (qn - n))%nat in H by lia.
    rewrite seq_app, map_app in H. exact (NoDup_app_l _ _ H).
  Qed.

  Lemma points_inj i j : (i < qn)%nat -> (j < qn)%nat ->
    rs_point m p i = rs_point m p j -> i = j.
  Proof.
    intros Hi Hj E. pose proof (nodupb_NoDup _ Hnd) as H.
    rewrite (NoDup_nth _ (rs_point m p 0%nat)) in H.
    rewrite map_length, seq_length in H.
    apply (H i j Hi Hj). rewrite !map_nth, !seq_nth by assumption. exact E.
  Qed.

  Lemma points_lt j : (j < qn)%nat -> rs_point m p j < N.of_nat qn.
  Proof.
    intro Hj. rewrite forallb_forall in Hlt. apply N.ltb_lt. apply Hlt.
    apply in_seq. lia.
  Qed.
End Points.

Lemma rs_points16_nodup_chk : nodupb (map (rs_point 4 P16) (seq 0 16)) = true.
Proof. vm_compute. reflexivity. Qed.
Lemma rs_points16_lt_chk : forallb (fun j => N.ltb (rs_point 4 P16 j) (N.of_nat 16)) (seq 0 16) = true.
Proof. vm_compute. reflexivity. Qed.
Lemma rs_points256_nodup_chk : nodupb (map (rs_point 8 P256) (seq 0 256)) = true.
Proof. vm_compute. reflexivity. Qed.
Lemma rs_points256_lt_chk : forallb (fun j => N.ltb (rs_point 8 P256 j) (N.of_nat 256)) (seq 0 256) = true.
Proof. vm_compute. reflexivity. Qed.

Lemma rs_point16_inj i j : (i < 16)%nat -> (j < 16)%nat ->
  rs_point 4 P16 i = rs_point 4 P16 j -> i = j.
Proof. exact (points_inj 4 P16 16 rs_points16_nodup_chk i j). Qed.

Lemma rs_point16_lt j : (j < 16)%nat -> rs_point 4 P16 j < 16.
Proof. exact (points_lt 4 P16 16 rs_points16_lt_chk j). Qed.

Lemma rs_point16_NoDup n : (n <= 16)%nat -> NoDup (map (rs_point 4 P16) (seq 0 n)).
Proof. exact (points_NoDup 4 P16 16 rs_points16_nodup_chk n). Qed.

Lemma rs_point256_inj i j : (i < 256)%nat -> (j < 256)%nat ->
  rs_point 8 P256 i = rs_point 8 P256 j -> i = j.
Proof. exact (points_inj 8 P256 256 rs_points256_nodup_chk i j). Qed.

Lemma rs_point256_lt j : (j < 256)%nat -> rs_point 8 P256 j < 256.
Proof. exact (points_lt 8 P256 256 rs_points256_lt_chk j). Qed.

Lemma rs_point256_NoDup n : (n <= 256)%nat -> NoDup (map (rs_point 8 P256) (seq 0 n)).
Proof. exact (points_NoDup 8 P256 256 rs_points256_nodup_chk n). Qed.

Print Assumptions gf16_mul_assoc.
Print Assumptions gf16_distr.
Print Assumptions gf256_mul_assoc.
Print Assumptions gf256_distr.
Print Assumptions gf256_mul_inv.
Print Assumptions F256_mul_inv_r.
Print Assumptions F256_mul_assoc.
Print Assumptions F16_mul_assoc.
Print Assumptions F16_mul_inv_r.
Print Assumptions val_inj.
Print Assumptions rs_point16_inj.
Print Assumptions rs_point16_lt.
Print Assumptions rs_point16_NoDup.
Print Assumptions rs_point256_inj.
Print Assumptions rs_point256_lt.
Print Assumptions rs_point256_NoDup.
