Require Import List Arith Bool Lia. Import ListNotations.
From OFV Require Import ITModel.

Lemma upd_length {A} (l:list A) i x : length (upd l i x) = length l.
Proof. revert i; induction l as [|h t IH]; intros [|i]; simpl; auto. Qed.
Lemma nth_upd_eq {A} (l:list A) i x d : i < length l -> nth i (upd l i x) d = x.
Proof. revert i; induction l as [|h t IH]; intros [|i] H; simpl in *; try lia; auto. apply IH; lia. Qed.
Lemma nth_upd_neq {A} (l:list A) i j x d : i <> j -> nth j (upd l i x) d = nth j l d.
Proof. revert i j; induction l as [|h t IH]; intros [|i] [|j] H; simpl; auto; try lia. Qed.

Lemma filter_length_split {A} (f:A->bool) l :
  length l = length (filter f l) + length (filter (fun x => negb (f x)) l).
Proof. induction l as [|h t IH]; simpl; auto. destruct (f h); simpl; lia. Qed.

Lemma filter_filter {A} (f g:A->bool) l : filter f (filter g l) = filter (fun x => g x && f x) l.
Proof. induction l as [|h t IH]; simpl; auto. destruct (g h); simpl; [destruct (f h); simpl; now rewrite IH| auto]. Qed.

Lemma filter_ext_in' {A} (f g:A->bool) l : (forall x, In x l -> f x = g x) -> filter f l = filter g l.
Proof. apply filter_ext_in. Qed.

Lemma filter_remove_nodup (l:list nat) c : NoDup l -> In c l ->
  length (filter (fun c' => negb (c' =? c)) l) = length l - 1.
Proof.
  induction l as [|h t IH]; intros ND Hin; simpl in *; [tauto|].
  inversion ND as [|? ? Hnot ND']; subst.
  destruct (h =? c) eqn:E; simpl.
  - apply Nat.eqb_eq in E; subst. rewrite Nat.sub_0_r.
    rewrite (filter_ext_in (fun c' => negb (c' =? c)) (fun _ => true)).
    + clear. induction t; simpl; auto.
    + intros x Hx. destruct (x =? c) eqn:E2; auto. apply Nat.eqb_eq in E2; subst; tauto.
  - destruct Hin as [->|Hin]; [rewrite Nat.eqb_refl in E; discriminate|].
    rewrite IH by auto. destruct t; simpl in *; [tauto|lia].
Qed.
