(* C02 — Reed-Solomon codecs: any k of the n symbols recover the block.
   This file carries the API half: for the model of the shared API layer of both RS codecs
   (RSApi.v), after ANY history of of_decode_with_new_symbol calls (any order, duplicates, any k <= n)
   decoding is complete iff at least k distinct ESIs were submitted, and of_finish_decoding returns
   OK iff complete / FAILURE iff fewer than k.  The algebraic half (any k rows of the systematic
   Vandermonde generator are invertible, and the in-place Gauss-Jordan inversion finds the inverse)
   enters as the hypothesis `core_ok`.
   MDS half, at the level of the canonical code (RSCanon.v: evaluation points 0, 1, x, x^2, ... of
   GF(2)[x]/(x^8+x^4+x^3+x^2+1) resp. GF(2)[x]/(x^4+x+1), k sources at the first k points): for every
   k <= n <= 2^m, ANY k distinct codeword positions determine the k source elements (two source
   vectors that agree on k positions are equal), and the code is systematic.  The C encoders are tied
   to this code by C06's correspondence.
   Matrix inversion (GaussJordan.v: model of of_invert_mat, the in-place Gauss-Jordan of Numerical
   Recipes with full pivot search, of which the library has three textually parallel copies): for every
   k and every k x k matrix over GF(2^8) resp. GF(2^4), when it returns a matrix that matrix is the
   two-sided inverse, and it reports failure exactly when the matrix is singular.  The three C copies are
   compared with the extracted model on generated matrices (invertible, singular, permutation, decode-
   matrix shaped, zero diagonal) on every run.  RSCore.v composes the selection of k symbols, the decode
   matrix, the inversion and the product into the decoding core: from ANY k or more codeword elements it
   returns the original sources (the inverse is exhibited explicitly by Lagrange interpolation on the k
   selected points), and it discharges `core_ok`.  Every decoded byte is also compared with the encoded
   source on the compiled C (every received subset of small codes, sampled subsets up to n = 255). *)
From Coq Require Import Arith List Bool.
From Coq Require Import NArith.
From OFV Require Import ListAux RSApi RSApiProofs GF2Poly RSCanon GaussJordan RSCore RSSession RSEnc RSEndToEnd.
Import ListNotations.

Theorem rs_complete_iff_k_distinct :
  forall (B : Type) (core : nat -> list (option B) -> option (list B)) (cb : bool) (mk : nat -> B -> B) (k n : nat),
  k <= n ->
  (forall t, length t = n -> k <= count_some t -> exists vals, core k t = Some vals /\ length vals = k) ->
  forall h : list (nat * B), 1 <= k -> (forall ev, In ev h -> fst ev < n) ->
  (rs_is_complete (run B core cb mk k n h) = true <-> k <= ndistinct n (map fst h)).
Proof. exact rs_complete_iff_k_distinct_proof. Qed.

Theorem rs_finish_truthful :
  forall (B : Type) (core : nat -> list (option B) -> option (list B)) (cb : bool) (mk : nat -> B -> B) (k n : nat),
  k <= n ->
  (forall t, length t = n -> k <= count_some t -> exists vals, core k t = Some vals /\ length vals = k) ->
  forall h : list (nat * B), 1 <= k -> (forall ev, In ev h -> fst ev < n) ->
  let r := rs_finish core cb mk (run B core cb mk k n h) in
  ((snd r = OK) <-> (rs_is_complete (fst r) = true)) /\ ((snd r = FAILURE) <-> (rs_is_complete (fst r) = false)) /\
  ((rs_is_complete (fst r) = true) <-> (k <= ndistinct n (map fst h))).
Proof. exact rs_finish_truthful_proof. Qed.

Theorem rs256_any_k_positions_determine_the_sources :
  forall k src src', k <= 256 -> length src = k -> length src' = k ->
  Forall (fun a => (a < 256)%N) src -> Forall (fun a => (a < 256)%N) src' ->
  forall J : list nat, NoDup J -> length J = k -> (forall j, In j J -> j < 256) ->
  (forall j, In j J -> elem256 k src j = elem256 k src' j) -> src = src'.
Proof. exact elem256_mds. Qed.

Theorem rs16_any_k_positions_determine_the_sources :
  forall k src src', k <= 16 -> length src = k -> length src' = k ->
  Forall (fun a => (a < 16)%N) src -> Forall (fun a => (a < 16)%N) src' ->
  forall J : list nat, NoDup J -> length J = k -> (forall j, In j J -> j < 16) ->
  (forall j, In j J -> elem16 k src j = elem16 k src' j) -> src = src'.
Proof. exact elem16_mds. Qed.

Theorem rs256_systematic :
  forall k src j, k <= 256 -> length src = k -> Forall (fun a => (a < 256)%N) src -> j < k -> elem256 k src j = nth j src 0%N.
Proof. exact elem256_systematic. Qed.

Theorem rs16_systematic :
  forall k src j, k <= 16 -> length src = k -> Forall (fun a => (a < 16)%N) src -> j < k -> elem16 k src j = nth j src 0%N.
Proof. exact elem16_systematic. Qed.

Theorem gf256_matrix_inversion_returns_the_inverse :
  forall k A B, wfN k A -> belowN 256 A -> invert_mat256 k A = Some B ->
  wfN k B /\ belowN 256 B /\ mmul256 B A = mIN k /\ mmul256 A B = mIN k.
Proof. exact invert_mat256_sound. Qed.

Theorem gf256_matrix_inversion_fails_iff_singular :
  forall k A, wfN k A -> belowN 256 A ->
  (invert_mat256 k A = None <-> ~ exists B, wfN k B /\ belowN 256 B /\ mmul256 A B = mIN k).
Proof. exact invert_mat256_none_iff_singular. Qed.

Theorem gf16_matrix_inversion_returns_the_inverse :
  forall k A B, wfN k A -> belowN 16 A -> invert_mat16 k A = Some B ->
  wfN k B /\ belowN 16 B /\ mmul16 B A = mIN k /\ mmul16 A B = mIN k.
Proof. exact invert_mat16_sound. Qed.

Theorem gf16_matrix_inversion_fails_iff_singular :
  forall k A, wfN k A -> belowN 16 A ->
  (invert_mat16 k A = None <-> ~ exists B, wfN k B /\ belowN 16 B /\ mmul16 A B = mIN k).
Proof. exact invert_mat16_none_iff_singular. Qed.

(* the decoding core (RSCore.v: selection of k symbols as of_rs_finish_decoding does, decode matrix, the
   Gauss-Jordan model, product) returns the original sources from ANY k or more codeword elements, and the
   hypothesis `core_ok` of the API theorems above holds for it *)
Theorem rs256_core_returns_the_sources :
  forall k n (src : list N) (t : list (option N)),
  1 <= k <= n -> n <= 256 -> length src = k -> Forall (fun a => (a < 256)%N) src -> length t = n ->
  (forall e, e < n -> nth e t None = None \/ nth e t None = Some (elem256 k src e)) ->
  k <= count_some t -> rs_core256 k n t = Some src.
Proof. exact rs_core256_correct. Qed.

Theorem rs16_core_returns_the_sources :
  forall k n (src : list N) (t : list (option N)),
  1 <= k <= n -> n <= 16 -> length src = k -> Forall (fun a => (a < 16)%N) src -> length t = n ->
  (forall e, e < n -> nth e t None = None \/ nth e t None = Some (elem16 k src e)) ->
  k <= count_some t -> rs_core16 k n t = Some src.
Proof. exact rs_core16_correct. Qed.

Theorem rs256_sessions_complete_iff_k_distinct :
  forall (cb : bool) (mk : nat -> N -> N) (k n : nat), 1 <= k <= n -> n <= 256 ->
  forall h : list (nat * N), (forall ev, In ev h -> fst ev < n) ->
  (rs_is_complete (run N (fun k' t => rs_core256 k' n t) cb mk k n h) = true <-> k <= ndistinct n (map fst h)).
Proof. exact rs256_api_complete_iff_k_distinct. Qed.

(* the property itself, for the composed model (API layer + decoding core), both submission APIs:
   once any k distinct codeword symbols have been submitted - any order, duplicates - decoding completes and
   the source table is the original k sources; with fewer than k the decoder never reports completion and
   of_finish_decoding returns FAILURE.  (One field element per symbol; a symbol of L bytes is L such columns.) *)
Theorem rs256_any_k_symbols_recover_the_block :
  forall (cb : bool) (k n : nat) (src : list N) (h : list (nat * N)),
  1 <= k <= n -> n <= 256 -> length src = k -> Forall (fun a => (a < 256)%N) src ->
  (forall ev, In ev h -> fst ev < n /\ snd ev = elem256 k src (fst ev)) ->
  k <= ndistinct n (map fst h) ->
  let core := fun k' t => rs_core256 k' n t in
  let r := rs_finish core cb mkid (run N core cb mkid k n h) in
  snd r = OK /\ rs_source_tab (fst r) = Some (map Some src).
Proof. exact rs256_session_recovers_the_sources. Qed.

Theorem rs256_any_k_symbols_recover_the_block_bulk_api :
  forall (cb : bool) (k n : nat) (src : list N) (t : list (option N)),
  1 <= k <= n -> n <= 256 -> length src = k -> Forall (fun a => (a < 256)%N) src -> length t = n ->
  (forall e, e < n -> nth e t None = None \/ nth e t None = Some (elem256 k src e)) -> k <= count_some t ->
  let core := fun k' t => rs_core256 k' n t in
  let r := rs_finish core cb mkid (fst (rs_set_available (rs_init N k n) t)) in
  snd r = OK /\ rs_is_complete (fst r) = true /\ rs_source_tab (fst r) = Some (map Some src).
Proof. exact rs256_avail_recovers_the_sources. Qed.

Theorem rs256_fewer_than_k_symbols_fail :
  forall (cb : bool) (mk : nat -> N -> N) (k n : nat) (h : list (nat * N)),
  1 <= k <= n -> n <= 256 -> (forall ev, In ev h -> fst ev < n) -> ndistinct n (map fst h) < k ->
  let core := fun k' t => rs_core256 k' n t in
  let r := rs_finish core cb mk (run N core cb mk k n h) in
  snd r = FAILURE /\ rs_source_tab (fst r) = None /\ rs_is_complete (run N core cb mk k n h) = false.
Proof. exact rs256_session_too_few. Qed.

Theorem rs16_any_k_symbols_recover_the_block :
  forall (cb : bool) (k n : nat) (src : list N) (h : list (nat * N)),
  1 <= k <= n -> n <= 16 -> length src = k -> Forall (fun a => (a < 16)%N) src ->
  (forall ev, In ev h -> fst ev < n /\ snd ev = elem16 k src (fst ev)) ->
  k <= ndistinct n (map fst h) ->
  let core := fun k' t => rs_core16 k' n t in
  let r := rs_finish core cb mkid (run N core cb mkid k n h) in
  snd r = OK /\ rs_source_tab (fst r) = Some (map Some src).
Proof. exact rs16_session_recovers_the_sources. Qed.

Theorem rs16_fewer_than_k_symbols_fail :
  forall (cb : bool) (mk : nat -> N -> N) (k n : nat) (h : list (nat * N)),
  1 <= k <= n -> n <= 16 -> (forall ev, In ev h -> fst ev < n) -> ndistinct n (map fst h) < k ->
  let core := fun k' t => rs_core16 k' n t in
  let r := rs_finish core cb mk (run N core cb mk k n h) in
  snd r = FAILURE /\ rs_source_tab (fst r) = None /\ rs_is_complete (run N core cb mk k n h) = false.
Proof. exact rs16_session_too_few. Qed.

(* the same at the level of real symbols (vectors of L bytes; for GF(2^4) two field elements per byte), with the
   encoder model of C06 producing the block: encode8 k n L src e is source e for e < k and the repair symbol
   RSEnc.rs8_repair otherwise (the function the extracted model runs against the C encoders) *)
Theorem rs8_block_recovered_from_any_k_encoding_symbols :
  forall (cb : bool) (k n L : nat) (src : list sym),
  1 <= k <= n -> n <= 256 -> length src = k -> wf_block L src ->
  forall h : list (nat * sym), enc8_hist k n L src h -> k <= ndistinct n (map fst h) ->
  let r := rs_finish (core8_sym L n) cb (mkidB sym) (run sym (core8_sym L n) cb (mkidB sym) k n h) in
  snd r = OK /\ rs_source_tab (fst r) = Some (map Some src).
Proof. exact rs8_sym_session_recovers_the_sources. Qed.

Theorem rs8_block_fewer_than_k_encoding_symbols_fail :
  forall (cb : bool) (k n L : nat) (src : list sym),
  1 <= k <= n -> n <= 256 ->
  forall h : list (nat * sym), enc8_hist k n L src h -> ndistinct n (map fst h) < k ->
  let r := rs_finish (core8_sym L n) cb (mkidB sym) (run sym (core8_sym L n) cb (mkidB sym) k n h) in
  snd r = FAILURE /\ rs_source_tab (fst r) = None /\
  rs_is_complete (run sym (core8_sym L n) cb (mkidB sym) k n h) = false.
Proof. exact rs8_sym_session_too_few. Qed.

Theorem rs4_block_recovered_from_any_k_encoding_symbols :
  forall (cb : bool) (k n L : nat) (src : list sym),
  1 <= k <= n -> n <= 16 -> length src = k -> wf_block L src ->
  forall h : list (nat * sym), enc4_hist k n L src h -> k <= ndistinct n (map fst h) ->
  let r := rs_finish (core4_sym L n) cb (mkidB sym) (run sym (core4_sym L n) cb (mkidB sym) k n h) in
  snd r = OK /\ rs_source_tab (fst r) = Some (map Some src).
Proof. exact rs4_sym_session_recovers_the_sources. Qed.

Print Assumptions rs_complete_iff_k_distinct.
Print Assumptions rs8_block_recovered_from_any_k_encoding_symbols.
Print Assumptions rs4_block_recovered_from_any_k_encoding_symbols.
Print Assumptions rs256_any_k_symbols_recover_the_block.
Print Assumptions rs256_fewer_than_k_symbols_fail.
Print Assumptions rs16_any_k_symbols_recover_the_block.
Print Assumptions rs256_core_returns_the_sources.
Print Assumptions rs256_sessions_complete_iff_k_distinct.
Print Assumptions gf256_matrix_inversion_returns_the_inverse.
Print Assumptions gf256_matrix_inversion_fails_iff_singular.
Print Assumptions rs256_any_k_positions_determine_the_sources.
Print Assumptions rs16_any_k_positions_determine_the_sources.
Print Assumptions rs256_systematic.
Print Assumptions rs_finish_truthful.
