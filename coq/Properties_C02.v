(* C02 — Reed-Solomon codecs: any k of the n symbols recover the block.
   This file carries the API half: for the model of the shared API layer of both RS codecs
   (RSApi.v), after ANY history of of_decode_with_new_symbol calls (any order, duplicates, any k <= n)
   decoding is complete iff at least k distinct ESIs were submitted, and of_finish_decoding returns
   OK iff complete / FAILURE iff fewer than k.  The algebraic half (any k rows of the systematic
   Vandermonde generator are invertible, and the in-place Gauss-Jordan inversion finds the inverse)
   enters as the hypothesis `core_ok`; it is established for the spec-level code in RSCode (when
   present) and tied to the C by the exhaustive/sampled decode correspondence. *)
From Coq Require Import Arith List Bool.
From OFV Require Import ListAux RSApi RSApiProofs.
Import ListNotations.

Theorem rs_complete_iff_k_distinct :
  forall (B : Type) (core : nat -> list (option B) -> option (list B)) (cb : bool) (mk : nat -> B -> B) (k n : nat),
  k <= n ->
  (forall t, length t = n -> k <= count_some t -> exists vals, core k t = Some vals /\ length vals = k) ->
  forall h : list (nat * B), 1 <= k -> (forall ev, In ev h -> fst ev < n) ->
  (rs_is_complete (run B core cb mk k n h) = true <-> k <= ndistinct n (map fst h)).
Proof. exact rs_complete_iff_k_distinct_proof. Qed.

Theorem rs_finish_truthful :
  forall (B : Type) (core : nat -> list (option B) -> option (list B)) (cb : bool) (mk : nat -> B -> B) (k n : nat),
  k <= n ->
  (forall t, length t = n -> k <= count_some t -> exists vals, core k t = Some vals /\ length vals = k) ->
  forall h : list (nat * B), 1 <= k -> (forall ev, In ev h -> fst ev < n) ->
  let r := rs_finish core cb mk (run B core cb mk k n h) in
  ((snd r = OK) <-> (rs_is_complete (fst r) = true)) /\ ((snd r = FAILURE) <-> (rs_is_complete (fst r) = false)) /\
  ((rs_is_complete (fst r) = true) <-> (k <= ndistinct n (map fst h))).
Proof. exact rs_finish_truthful_proof. Qed.

Print Assumptions rs_complete_iff_k_distinct.
Print Assumptions rs_finish_truthful.
