(* C19 — the RFC 5170 pseudo-random generator is the Park-Miller minimal standard.
   of_rfc5170_rand / of_rfc5170_srand below are NOT hand-written: gen/GenPrng.v is produced from
   /repo's of_rand.c by tools/c2gallina.py on every run (UINT64 arithmetic with explicit wrap,
   binary64 arithmetic through Flocq), so these theorems are re-checked against the C text. *)
From Coq Require Import ZArith Bool.
From OFV Require Import CSem Prng PrngProofs.
From OFV.gen Require Import GenPrng.
Local Open Scope Z_scope.

(* (a) from any state in 1..2^31-2 the generator moves to 16807*s mod (2^31-1), which is again in
   1..2^31-2, and returns RFC 5170's reference expression evaluated in binary64 *)
Theorem rand_is_park_miller : forall s maxv, 1 <= s <= PM_P - 1 ->
  of_rfc5170_rand s maxv = bind (scale_ref (pm_next s) maxv) (fun o => Some (o, pm_next s))
  /\ 1 <= pm_next s <= PM_P - 1.
Proof. exact rand_is_park_miller_proof. Qed.

(* (b) seeding accepts exactly 1..2^31-2 (and otherwise leaves the state alone) *)
Theorem srand_range : forall g s, 0 <= s < 2 ^ 64 ->
  of_rfc5170_srand g s = Some (if (1 <=? s) && (s <=? PM_P - 1) then s else g).
Proof. exact srand_range_proof. Qed.

(* (c) the 10,000th state after seed 1, through the generated function itself *)
Theorem ten_thousandth : gen_iter (Z.to_nat 10000) 1 = Some 1043618065.
Proof. exact ten_thousandth_proof. Qed.

(* (d) the value is in 0..maxv-1 for every state and every maxv up to 2^24 (> 255*50000) ... *)
Theorem scale_in_range : forall s' maxv, 1 <= s' <= PM_P - 1 -> 1 <= maxv <= 2 ^ 24 ->
  exists o, scale_ref s' maxv = Some o /\ 0 <= o < maxv.
Proof. exact scale_range_proof. Qed.

(* ... and equals the exact floor whenever s' * maxv < 2^53 *)
Theorem scale_exact_below_2p53 : forall s' maxv, 1 <= s' <= PM_P - 1 -> 0 <= maxv -> s' * maxv < 2 ^ 53 ->
  scale_ref s' maxv = Some ((s' * maxv) / PM_P).
Proof. exact scale_exact_proof. Qed.

(* non-vacuity: the generated function on concrete states *)
Example rand_from_1 : of_rfc5170_rand 1 100 = Some (0, 16807).  Proof. vm_compute. reflexivity. Qed.
Example rand_big : of_rfc5170_rand 2147483646 12750000 = Some (12749900, 2147466840).
Proof. vm_compute. reflexivity. Qed.

Print Assumptions rand_is_park_miller.
Print Assumptions srand_range.
Print Assumptions ten_thousandth.
Print Assumptions scale_in_range.
Print Assumptions scale_exact_below_2p53.
