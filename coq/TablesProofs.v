From Coq Require Import NArith Arith List Bool Lia.
From OFV Require Import GF2Poly Tables.
From OFV.gen Require Import GenTables.
Import ListNotations.
Local Open Scope N_scope.

(* ---- lifting lemmas: boolean sweep -> universally quantified statement ---- *)
Lemma chk_mul_spec q mul tbl : chk_mul q mul tbl = true ->
  forall a b, (a < N.of_nat q) -> (b < N.of_nat q) -> get2 tbl a b = mul a b.
Proof.
  unfold chk_mul. intros H a b Ha Hb.
  apply andb_true_iff in H as [Hl H]. apply Nat.eqb_eq in Hl.
  pose proof (forallbi_nth _ _ [] _ H (N.to_nat a) ltac:(lia)) as Hr. simpl in Hr.
  apply andb_true_iff in Hr as [Hlr Hr]. apply Nat.eqb_eq in Hlr.
  pose proof (forallbi_nth _ _ 0 _ Hr (N.to_nat b) ltac:(lia)) as He. simpl in He.
  apply N.eqb_eq in He. unfold get2, getN. rewrite He, !N2Nat.id. reflexivity.
Qed.

Lemma chk_exp_from_spec m p : forall l cur i0, cur = xpow m p i0 -> chk_exp_from m p cur l = true ->
  forall j, (j < length l)%nat -> nth j l 0 = xpow m p (i0 + j).
Proof.
  induction l as [|e t IH]; intros cur i0 Hc H j Hj; simpl in *; [lia|].
  apply andb_true_iff in H as [H1 H2]. apply N.eqb_eq in H1. destruct j as [|j].
  - rewrite Nat.add_0_r. congruence.
  - rewrite <- Nat.add_succ_comm. apply (IH (xtime m p cur) (S i0)); [simpl; congruence|exact H2|lia].
Qed.

Lemma chk_exp_spec n m p l : chk_exp n m p l = true ->
  length l = n /\ forall i, (i < n)%nat -> nth i l 0 = xpow m p i.
Proof.
  unfold chk_exp. intros H. apply andb_true_iff in H as [Hl H]. apply Nat.eqb_eq in Hl.
  split; [exact Hl|]. intros i Hi. apply (chk_exp_from_spec m p l 1 0%nat eq_refl H i). lia.
Qed.

Lemma chk_log_spec q m p l : chk_log q m p l = true ->
  (length l mod q = 0)%nat /\ (0 < length l)%nat /\
  forall i, (i < length l)%nat ->
    let a := (i mod q)%nat in let e := nth i l 0 in
    (a = 0%nat -> e = N.of_nat q - 1) /\
    (a <> 0%nat -> e < N.of_nat q - 1 /\ xpow m p (N.to_nat e) = N.of_nat a).
Proof.
  unfold chk_log. intros H. apply andb_true_iff in H as [H H3]. apply andb_true_iff in H as [H1 H2].
  apply Nat.eqb_eq in H2. apply negb_true_iff, Nat.eqb_neq in H1.
  split; [exact H2|]. split; [lia|]. intros i Hi.
  pose proof (forallbi_nth _ _ 0 _ H3 i Hi) as He. simpl in He.
  set (a := (i mod q)%nat) in *. set (e := nth i l 0) in *.
  destruct (Nat.eqb a 0) eqn:Ea.
  - apply Nat.eqb_eq in Ea. apply N.eqb_eq in He. split; [auto|congruence].
  - apply Nat.eqb_neq in Ea. apply andb_true_iff in He as [He1 He2].
    apply N.ltb_lt in He1. apply N.eqb_eq in He2. split; [congruence|auto].
Qed.

Lemma chk_inv_spec q mul l : chk_inv q mul l = true ->
  length l = q /\ getN l 0 = 0 /\
  forall a, 0 < a -> a < N.of_nat q -> getN l a < N.of_nat q /\ mul a (getN l a) = 1.
Proof.
  unfold chk_inv. intros H. apply andb_true_iff in H as [Hl H]. apply Nat.eqb_eq in Hl.
  split; [exact Hl|]. split.
  - destruct q as [|q]; [destruct l; [reflexivity|discriminate]|].
    pose proof (forallbi_nth _ _ 0 _ H 0%nat ltac:(lia)) as He. simpl in He. now apply N.eqb_eq in He.
  - intros a Ha0 Ha. pose proof (forallbi_nth _ _ 0 _ H (N.to_nat a) ltac:(lia)) as He. simpl in He.
    destruct (Nat.eqb (N.to_nat a) 0) eqn:E; [apply Nat.eqb_eq in E; lia|].
    apply andb_true_iff in He as [He1 He2]. apply N.ltb_lt in He1. apply N.eqb_eq in He2.
    rewrite N2Nat.id in He2. unfold getN. auto.
Qed.

Lemma chk_optmul_spec tbl : chk_optmul tbl = true ->
  forall c x, c < 16 -> x < 256 ->
    get2 tbl c x = N.lor (N.shiftl (mul16 c (N.shiftr x 4)) 4) (mul16 c (N.land x 15)).
Proof.
  unfold chk_optmul. intros H c x Hc Hx.
  apply andb_true_iff in H as [Hl H]. apply Nat.eqb_eq in Hl.
  pose proof (forallbi_nth _ _ [] _ H (N.to_nat c) ltac:(lia)) as Hr. simpl in Hr.
  apply andb_true_iff in Hr as [Hlr Hr]. apply Nat.eqb_eq in Hlr.
  pose proof (forallbi_nth _ _ 0 _ Hr (N.to_nat x) ltac:(lia)) as He. simpl in He.
  apply N.eqb_eq in He. unfold get2, getN. rewrite He, !N2Nat.id. reflexivity.
Qed.

(* ---- the sweeps over the tables read from /repo ---- *)
Lemma gf24_mul_ok : chk_mul 16 mul16 gf24_mul = true.        Proof. vm_compute. reflexivity. Qed.
Lemma gf24_optmul_ok : chk_optmul gf24_optmul = true.         Proof. vm_compute. reflexivity. Qed.
Lemma gf24_exp_ok : chk_exp 16 4 P16 gf24_exp = true.         Proof. vm_compute. reflexivity. Qed.
Lemma gf24_log_ok : chk_log 16 4 P16 gf24_log = true.         Proof. vm_compute. reflexivity. Qed.
Lemma gf24_inv_ok : chk_inv 16 mul16 gf24_inv = true.         Proof. vm_compute. reflexivity. Qed.
Lemma gf28_mul_ok : chk_mul 256 mul256 gf28_mul = true.       Proof. vm_compute. reflexivity. Qed.
Lemma gf28_exp_ok : chk_exp 256 8 P256 gf28_exp = true.       Proof. vm_compute. reflexivity. Qed.
Lemma gf28_log_ok : chk_log 256 8 P256 gf28_log = true.       Proof. vm_compute. reflexivity. Qed.
Lemma gf28_inv_ok : chk_inv 256 mul256 gf28_inv = true.       Proof. vm_compute. reflexivity. Qed.

(* log tables of exactly q entries: per-element form *)
Lemma chk_log_spec1 q m p l : chk_log q m p l = true -> length l = q ->
  getN l 0 = N.of_nat q - 1 /\
  forall a, 0 < a -> a < N.of_nat q -> getN l a < N.of_nat q - 1 /\ xpow m p (N.to_nat (getN l a)) = a.
Proof.
  intros H Hl. destruct (chk_log_spec _ _ _ _ H) as (_ & Hpos & Hall). split.
  - destruct (Hall 0%nat Hpos) as [A _]. unfold getN. simpl. apply A.
    rewrite Hl in Hpos. now apply Nat.mod_0_l; lia.
  - intros a Ha0 Ha. destruct (Hall (N.to_nat a) ltac:(lia)) as [_ B].
    rewrite Nat.mod_small in B by lia. unfold getN.
    destruct (B ltac:(lia)) as [B1 B2]. rewrite N2Nat.id in B2. auto.
Qed.

Lemma gf24_tables_are_field_proof :
  (forall a b, a < 16 -> b < 16 -> get2 gf24_mul a b = mul16 a b) /\
  (forall c x, c < 16 -> x < 256 ->
     get2 gf24_optmul c x = N.lor (N.shiftl (mul16 c (N.shiftr x 4)) 4) (mul16 c (N.land x 15))) /\
  (length gf24_exp = 16%nat /\ forall i, (i < 16)%nat -> nth i gf24_exp 0 = xpow 4 P16 i) /\
  (length gf24_log = 16%nat /\ getN gf24_log 0 = 15 /\
     forall a, 0 < a -> a < 16 -> getN gf24_log a < 15 /\ xpow 4 P16 (N.to_nat (getN gf24_log a)) = a) /\
  (length gf24_inv = 16%nat /\ getN gf24_inv 0 = 0 /\
     forall a, 0 < a -> a < 16 -> getN gf24_inv a < 16 /\ mul16 a (getN gf24_inv a) = 1).
Proof.
  split; [exact (chk_mul_spec 16 mul16 _ gf24_mul_ok)|].
  split; [exact (chk_optmul_spec _ gf24_optmul_ok)|].
  split; [exact (chk_exp_spec _ _ _ _ gf24_exp_ok)|].
  split; [split; [reflexivity|exact (chk_log_spec1 16 _ _ _ gf24_log_ok eq_refl)]|].
  exact (chk_inv_spec 16 mul16 _ gf24_inv_ok).
Qed.

Lemma gf28_tables_are_field_proof :
  (forall a b, a < 256 -> b < 256 -> get2 gf28_mul a b = mul256 a b) /\
  (length gf28_exp = 256%nat /\ forall i, (i < 256)%nat -> nth i gf28_exp 0 = xpow 8 P256 i) /\
  ((length gf28_log mod 256 = 0)%nat /\ (0 < length gf28_log)%nat /\
     forall i, (i < length gf28_log)%nat ->
       ((i mod 256 = 0)%nat -> nth i gf28_log 0 = 255) /\
       ((i mod 256 <> 0)%nat -> nth i gf28_log 0 < 255 /\
          xpow 8 P256 (N.to_nat (nth i gf28_log 0)) = N.of_nat (i mod 256))) /\
  (length gf28_inv = 256%nat /\ getN gf28_inv 0 = 0 /\
     forall a, 0 < a -> a < 256 -> getN gf28_inv a < 256 /\ mul256 a (getN gf28_inv a) = 1).
Proof.
  split; [exact (chk_mul_spec 256 mul256 _ gf28_mul_ok)|].
  split; [exact (chk_exp_spec _ _ _ _ gf28_exp_ok)|].
  split; [exact (chk_log_spec 256 _ _ _ gf28_log_ok)|].
  exact (chk_inv_spec 256 mul256 _ gf28_inv_ok).
Qed.
