(* PchkShape's theorems P5-P8 for Pchk.pchk with the PRNG hypotheses DISCHARGED from PrngProofs:
   state invariant 1 <= g <= 2^31-2 (rand_is_park_miller_proof), result below maxv for maxv <= 2^24
   (scale_range_proof), seeding (srand_range_proof).  Importing PrngProofs brings the axioms of the
   Reals library (they are already in the definition of of_rfc5170_rand, hence of Pchk.pchk).
   *_c : premises on the previous state g0 and the seed in the general form (seed below 2^64, and g0
         or the seed in 1..2^31-2);  *_s : premise (1 <= seed <= PM_P - 1) only, nothing on g0. *)
From Coq Require Import ZArith Arith List Bool Lia.
From OFV Require Import CSem Sparse SparseProofs Prng PrngProofs Pchk PchkShape.
From OFV Require LdpcEnc LastNull.
From OFV.gen Require Import GenPrng.
Import ListNotations.

Definition pgood (g : Z) : Prop := (1 <= g <= PM_P - 1)%Z.
Definition pokmax (v : nat) : Prop := (Z.of_nat v <= 2 ^ 24)%Z.
Definition ppre (g0 seed : Z) : Prop := (0 <= seed < 2 ^ 64)%Z /\ (pgood g0 \/ pgood seed).

Lemma prng_rnd_good : forall g maxv x g', pgood g -> rnd g maxv = Some (x, g') -> pgood g'.
Proof.
  intros g maxv x g' Hg. unfold rnd.
  destruct (rand_is_park_miller_proof g (Z.of_nat maxv) Hg) as (E & Hn). rewrite E.
  destruct (scale_ref (pm_next g) (Z.of_nat maxv)) as [o|]; cbn [bind]; [|discriminate].
  intros H. inversion H; subst. exact Hn.
Qed.

Lemma prng_rnd_range : forall g maxv x g', pgood g -> pokmax maxv -> 1 <= maxv -> rnd g maxv = Some (x, g') -> x < maxv.
Proof.
  intros g maxv x g' Hg Ho Hm. unfold rnd.
  destruct (rand_is_park_miller_proof g (Z.of_nat maxv) Hg) as (E & Hn). rewrite E.
  destruct (scale_range_proof (pm_next g) (Z.of_nat maxv) Hn) as (o & Eo & Hr).
  { unfold pokmax in Ho. lia. }
  rewrite Eo. cbn [bind]. intros H. inversion H; subst. apply Nat2Z.inj_lt. rewrite Z2Nat.id; lia.
Qed.

Lemma prng_srand_good : forall g0 seed g, ppre g0 seed -> of_rfc5170_srand g0 seed = Some g -> pgood g.
Proof.
  intros g0 seed g (Hs & Hg). rewrite srand_range_proof by exact Hs.
  intros H. inversion H; subst. unfold pgood, PM_P in *.
  destruct (Z.leb_spec 1 seed), (Z.leb_spec seed 2147483646); cbn [andb]; lia.
Qed.

Lemma seed_ppre g0 seed : (1 <= seed <= PM_P - 1)%Z -> ppre g0 seed.
Proof. intros Hs. unfold ppre, pgood, PM_P in *. split; [lia|right; exact Hs]. Qed.

(* ---------- general premises on (g0, seed) ---------- *)
Section C.
Variables (fuel k r n1 : nat) (seed g0 : Z) (m : smat) (extra : bool) (g : Z).
Hypothesis k_pos : 1 <= k.
Hypothesis r_pos : 1 <= r.
Hypothesis k_max : (Z.of_nat k <= 2 ^ 24)%Z.
Hypothesis r_max : (Z.of_nat r <= 2 ^ 24)%Z.
Hypothesis seed_u64 : (0 <= seed < 2 ^ 64)%Z.
Hypothesis state_or_seed : (1 <= g0 <= PM_P - 1)%Z \/ (1 <= seed <= PM_P - 1)%Z.
Hypothesis Hpchk : pchk fuel k r n1 seed g0 = Some (m, extra, g).

Let Hpre : ppre g0 seed := conj seed_u64 state_or_seed.

Theorem pchk_source_columns_c : forall c, r <= c < k + r ->
  n1 <= LastNull.colcount (rws m) c /\ (extra = false -> LastNull.colcount (rws m) c = n1).
Proof. exact (pchk_source_columns_g pgood pokmax ppre prng_rnd_good prng_rnd_range prng_srand_good
                fuel k r n1 seed g0 m extra g k_pos r_pos Hpchk Hpre k_max r_max). Qed.

Theorem pchk_cols_covered_c : 1 <= n1 -> forall c, c < k + r -> exists i, i < r /\ In c (nth i (rws m) []).
Proof. exact (pchk_cols_covered_g pgood pokmax ppre prng_rnd_good prng_rnd_range prng_srand_good
                fuel k r n1 seed g0 m extra g k_pos r_pos Hpchk Hpre k_max r_max). Qed.

Theorem pchk_row_degree_exact_c : forall i, i < r ->
  rowdeg k + (if i =? 0 then 1 else 2) <= length (nth i (rws m) []).
Proof. exact (pchk_row_degree_exact_g pgood pokmax ppre prng_rnd_good prng_rnd_range prng_srand_good
                fuel k r n1 seed g0 m extra g k_pos r_pos Hpchk Hpre k_max r_max). Qed.

Theorem pchk_row_degree_c : forall i, i < r -> 2 <= length (nth i (rws m) []).
Proof. exact (pchk_row_degree_g pgood pokmax ppre prng_rnd_good prng_rnd_range prng_srand_good
                fuel k r n1 seed g0 m extra g k_pos r_pos Hpchk Hpre k_max r_max). Qed.

Theorem last_null_claim_premises_c : extra = false -> Nat.even n1 = true ->
  (forall row, In row (rws m) -> NoDup row /\ forall c, In c row -> c < k + r) /\
  (forall c, r <= c < k + r -> Nat.even (LastNull.colcount (rws m) c) = true) /\
  (forall c, c < r - 1 -> LastNull.colcount (rws m) c = 2) /\
  LastNull.colcount (rws m) (r - 1) = 1.
Proof. exact (last_null_claim_premises_g pgood pokmax ppre prng_rnd_good prng_rnd_range prng_srand_good
                fuel k r n1 seed g0 m extra g k_pos r_pos Hpchk Hpre k_max r_max). Qed.

Theorem pchk_last_repair_null_c : last_symbol_null_claim n1 extra = true ->
  forall (Sy : Type) (sxor : Sy -> Sy -> Sy) (s0 : Sy),
  (forall a b c, sxor a (sxor b c) = sxor (sxor a b) c) -> (forall a b, sxor a b = sxor b a) ->
  (forall a, sxor s0 a = a) -> (forall a, sxor a a = s0) ->
  forall cw : nat -> Sy, (forall row, In row (rws m) -> LastNull.rowsum Sy sxor s0 cw row = s0) ->
  cw (r - 1) = s0.
Proof. exact (pchk_last_repair_null_g pgood pokmax ppre prng_rnd_good prng_rnd_range prng_srand_good
                fuel k r n1 seed g0 m extra g k_pos r_pos Hpchk Hpre k_max r_max). Qed.
End C.

(* ---------- an accepted seed (1 .. 2^31-2): nothing is asked of the previous state g0 ---------- *)
Section S.
Variables (fuel k r n1 : nat) (seed g0 : Z) (m : smat) (extra : bool) (g : Z).
Hypothesis k_pos : 1 <= k.
Hypothesis r_pos : 1 <= r.
Hypothesis k_max : (Z.of_nat k <= 2 ^ 24)%Z.
Hypothesis r_max : (Z.of_nat r <= 2 ^ 24)%Z.
Hypothesis seed_ok : (1 <= seed <= PM_P - 1)%Z.
Hypothesis Hpchk : pchk fuel k r n1 seed g0 = Some (m, extra, g).

Let Hu64 : (0 <= seed < 2 ^ 64)%Z.
Proof. unfold PM_P in seed_ok. lia. Qed.
Let Hor : (1 <= g0 <= PM_P - 1)%Z \/ (1 <= seed <= PM_P - 1)%Z := or_intror seed_ok.

Theorem pchk_source_columns_s : forall c, r <= c < k + r ->
  n1 <= LastNull.colcount (rws m) c /\ (extra = false -> LastNull.colcount (rws m) c = n1).
Proof. exact (pchk_source_columns_c fuel k r n1 seed g0 m extra g k_pos r_pos k_max r_max Hu64 Hor Hpchk). Qed.

Theorem pchk_cols_covered_s : 1 <= n1 -> forall c, c < k + r -> exists i, i < r /\ In c (nth i (rws m) []).
Proof. exact (pchk_cols_covered_c fuel k r n1 seed g0 m extra g k_pos r_pos k_max r_max Hu64 Hor Hpchk). Qed.

Theorem pchk_row_degree_exact_s : forall i, i < r ->
  rowdeg k + (if i =? 0 then 1 else 2) <= length (nth i (rws m) []).
Proof. exact (pchk_row_degree_exact_c fuel k r n1 seed g0 m extra g k_pos r_pos k_max r_max Hu64 Hor Hpchk). Qed.

Theorem pchk_row_degree_s : forall i, i < r -> 2 <= length (nth i (rws m) []).
Proof. exact (pchk_row_degree_c fuel k r n1 seed g0 m extra g k_pos r_pos k_max r_max Hu64 Hor Hpchk). Qed.

Theorem last_null_claim_premises_s : extra = false -> Nat.even n1 = true ->
  (forall row, In row (rws m) -> NoDup row /\ forall c, In c row -> c < k + r) /\
  (forall c, r <= c < k + r -> Nat.even (LastNull.colcount (rws m) c) = true) /\
  (forall c, c < r - 1 -> LastNull.colcount (rws m) c = 2) /\
  LastNull.colcount (rws m) (r - 1) = 1.
Proof. exact (last_null_claim_premises_c fuel k r n1 seed g0 m extra g k_pos r_pos k_max r_max Hu64 Hor Hpchk). Qed.

Theorem pchk_last_repair_null_s : last_symbol_null_claim n1 extra = true ->
  forall (Sy : Type) (sxor : Sy -> Sy -> Sy) (s0 : Sy),
  (forall a b c, sxor a (sxor b c) = sxor (sxor a b) c) -> (forall a b, sxor a b = sxor b a) ->
  (forall a, sxor s0 a = a) -> (forall a, sxor a a = s0) ->
  forall cw : nat -> Sy, (forall row, In row (rws m) -> LastNull.rowsum Sy sxor s0 cw row = s0) ->
  cw (r - 1) = s0.
Proof. exact (pchk_last_repair_null_c fuel k r n1 seed g0 m extra g k_pos r_pos k_max r_max Hu64 Hor Hpchk). Qed.

(* everything the decoder theorems ask of H := rws m, R := r, N := k + r *)
Theorem pchk_decoder_premises : 1 <= n1 ->
  length (rws m) = r /\
  (forall i, i < r -> NoDup (nth i (rws m) [])) /\
  (forall i c, i < r -> In c (nth i (rws m) []) -> c < k + r) /\
  (forall i, i < r -> 2 <= length (nth i (rws m) [])) /\
  r <= k + r /\
  (forall c, c < k + r -> exists i, i < r /\ In c (nth i (rws m) [])) /\
  LdpcEnc.stair r (rws m).
Proof.
  intros Hn1. destruct (pchk_rows fuel k r n1 seed g0 m extra g k_pos r_pos Hpchk) as (Hlen & Hrows).
  split; [exact Hlen|]. split; [intros i Hi; apply (Hrows i Hi)|].
  split; [intros i c Hi; apply (Hrows i Hi)|]. split; [exact pchk_row_degree_s|].
  split; [lia|]. split; [exact (pchk_cols_covered_s Hn1)|].
  exact (pchk_stair fuel k r n1 seed g0 m extra g k_pos r_pos Hpchk).
Qed.
End S.

Print Assumptions pchk_source_columns_c.
Print Assumptions pchk_last_repair_null_s.
Print Assumptions pchk_decoder_premises.
